package c05

// Extension families (round 3):
//
//   overreturn-race     k permits out, m > k Return calls racing from a spin barrier, many
//                       rounds per case, Limit and TimeoutLimit (seeded change C05-s5)
//   fx-options          fx Walk / Parallel / Map / Filter with WithWorkers(n <= 0), without any
//                       option (16 workers), UnlimitedWorkers(), and a repeated WithWorkers
//   mr-options          the same for mr (WithWorkers(n <= 0), no option), Finish / FinishVoid
//   maxconns-unlimited  MaxConnsHandler(n <= 0): outside the statement, only "no panic"
//   stablerunner        threading.StableRunner: its handler runs as TaskRunner tasks
//   syncx-misc          Pool.Put(nil) at full capacity, NewPool(n <= 0), Cond.Wait / Signal

import (
	"context"
	"errors"
	"fmt"
	"math"
	"net/http"
	"net/http/httptest"
	"runtime"
	"strings"
	"sync/atomic"
	"time"

	"github.com/zeromicro/go-zero/core/fx"
	"github.com/zeromicro/go-zero/core/mr"
	"github.com/zeromicro/go-zero/core/syncx"
	"github.com/zeromicro/go-zero/core/threading"
	"github.com/zeromicro/go-zero/rest/handler"

	"verifharness/kit"
)

// ---------------------------------------------------------------- racing over-return
//
// One round: a fresh limit of n, k holders borrow, are inside, leave; then m > k Return
// calls start together from a (bounded) spin barrier while nobody else uses the limit.
// Necessary conditions only:
//   - every Return call returns. A Return that does not is decided by STATE: all other
//     calls have returned, the remaining ones are parked in a blocking wait inside
//     go-zero, identically in consecutive dumps, and the harness (the only other user of
//     this limit) is not going to touch it: nothing can ever wake them;
//   - at most k of them report nil (an excess Return is reported), every error is
//     ErrLimitReturn;
//   - afterwards exactly n acquisitions succeed (fewer: the capacity was lost) and the
//     (n+1)-th is refused; the holder gauge never exceeds n.
// No holder is inside the region while excess Returns are under way: an excess Return
// that takes the permit of a present holder is API misuse the limit cannot tell from a
// legitimate Return, and the cap is then not the limit's to keep.

type orrRound struct {
	K int `json:"held_before"`
	M int `json:"concurrent_returns"`
}

const orrRounds = 48

var orrParkedStates = []string{"chan receive", "chan send", "select", "semacquire", "sync.Mutex.Lock", "sync.RWMutex.RLock",
	"sync.RWMutex.Lock", "sync.Cond.Wait", "sync.WaitGroup.Wait"}

// orrReturner is one racing Return call (a named function: the state inspection finds
// these goroutines by it).
func orrReturner(ret func() error, ready, done *atomic.Int64, m int64, out *error) {
	defer func() {
		if p := recover(); p != nil {
			*out = fmt.Errorf("panic: %v", p)
		}
		done.Add(1)
	}()
	ready.Add(1)
	for i := 0; ready.Load() < m && i < 4000; i++ {
		if i&63 == 63 {
			runtime.Gosched()
		}
	}
	*out = ret()
}

// orrState counts the live orrReturner goroutines and those of them that are parked in a
// blocking wait with a go-zero syncx frame on their stack.
func orrState() (total, parked int) {
	for _, blk := range strings.Split(stacks(), "\n\n") {
		if !strings.Contains(blk, "c05.orrReturner") {
			continue
		}
		total++
		hdr := blk
		if i := strings.IndexByte(blk, '\n'); i >= 0 {
			hdr = blk[:i]
		}
		st := ""
		if i, j := strings.Index(hdr, "["), strings.LastIndex(hdr, "]"); i >= 0 && j > i {
			st = hdr[i+1 : j]
		}
		if !strings.Contains(blk, "go-zero/core/syncx.") {
			continue
		}
		for _, p := range orrParkedStates {
			if strings.HasPrefix(st, p) {
				parked++
				break
			}
		}
	}
	return
}

// orrAwait waits until all m calls have returned ("done"). "blocked": see above.
// "watchdog": neither within caseWatchdog (inconclusive).
func orrAwait(done *atomic.Int64, m int64) string {
	for i := 0; i < 400; i++ {
		if done.Load() == m {
			return "done"
		}
		runtime.Gosched()
	}
	t0 := time.Now()
	pause := 50 * time.Microsecond
	same, last := 0, int64(-1)
	for time.Since(t0) < caseWatchdog {
		if done.Load() == m {
			return "done"
		}
		time.Sleep(pause)
		if pause < 8*time.Millisecond {
			pause *= 2
			continue
		}
		d := done.Load()
		if d == m {
			return "done"
		}
		total, parked := orrState()
		if d == last && int64(total) == m-d && parked == total && total > 0 {
			same++
		} else {
			same = 0
		}
		last = d
		if same >= stuckSamples && done.Load() == d {
			return "blocked"
		}
	}
	return "watchdog"
}

func overReturnRaceCase(c *kit.Case) {
	r := c.R
	timed := r.Chance(0.4)
	prim := "limit"
	if timed {
		prim = "tlimit"
	}
	if skipAfterLeak(c, prim+"/over-return-race") {
		return
	}
	n := pickN(r)
	m := newMon(c, prim, n, nil)
	c.Evals(orrRounds)
	for ri := 0; ri < orrRounds; ri++ {
		var rd orrRound
		switch r.Pick(4, 3, 3, 1) {
		case 0:
			rd.K = 1
		case 1:
			rd.K = n
		case 2:
			rd.K = r.Range(1, n)
		default:
			rd.K = 0
		}
		rd.M = rd.K + kit.Choose(r, []int{1, 1, 1, 1, 2, 3, 8})
		var ad limAdapter
		if timed {
			ad = adaptTimeoutLimit(n)
		} else {
			ad = adaptLimit(n)
		}
		m.plan = map[string]any{"primitive": prim, "n": n, "round": ri, "held_before": rd.K, "concurrent_returns": rd.M}
		if !orrRound1(m, ad, n, rd, r) {
			break
		}
	}
	m.mu.Lock()
	vs := m.viols
	m.viols = nil
	m.mu.Unlock()
	for _, v := range vs {
		c.Viol(v.key, v.what, v.witness)
	}
}

// orrRound1 runs one round; false = stop the case.
func orrRound1(m *mon, ad limAdapter, n int, rd orrRound, r *kit.Rand) bool {
	c := m.c
	p := m.prim
	var g kit.Gauge
	inside := 0
	enter := func(who string) {
		inside++
		if v := g.Enter(); v > int64(n) {
			m.viol("cap-exceeded", fmt.Sprintf("%d holders inside the guarded region of a %s with capacity %d (holder %s, after %d concurrent Returns with %d permits out)",
				v, p, n, who, rd.M, rd.K), map[string]any{"holders_inside": v, "holder": who})
		}
	}
	acquire := func() bool {
		if ad.timed {
			switch r.Intn(3) {
			case 0:
				return ad.borrow(0) == nil
			case 1:
				return ad.borrow(time.Second) == nil
			}
		}
		return ad.try()
	}
	// the k legitimate holders: borrow, inside, leave
	for i := 0; i < rd.K; i++ {
		if !acquire() {
			c.Obs(p+"_seq_refused_below_cap", 1)
			for ; inside > 0; inside-- {
				g.Exit()
				ad.ret()
			}
			return true
		}
		enter(fmt.Sprintf("h%d", i))
	}
	for ; inside > 0; inside-- {
		g.Exit()
	}
	// the race
	res := make([]error, rd.M)
	var ready, done atomic.Int64
	for i := range res {
		go orrReturner(ad.ret, &ready, &done, int64(rd.M), &res[i])
	}
	cont := true
	switch orrAwait(&done, int64(rd.M)) {
	case "watchdog":
		c.Inconclusive(fmt.Sprintf("%s: %d concurrent Returns did not all return within %v and no stable state was reached", p, rd.M, caseWatchdog))
		return false
	case "blocked":
		d := done.Load()
		stuck := int(int64(rd.M) - d)
		m.viol("over-return/return-blocks", fmt.Sprintf("%s of %d with %d permits out and %d concurrent Returns: %d returned, %d are parked inside Return although nobody else uses the limit (identical state in %d consecutive dumps) - an excess Return has to report ErrLimitReturn, it must not wait for the next borrower",
			p, n, rd.K, rd.M, d, stuck, stuckSamples), map[string]any{"returned": d, "parked_in_return": stuck, "goroutines": stacksBrief()})
		leakVerdict(p + "/over-return-race")
		cont = false
		// what that does to the cap: the next borrowers wake the parked Returns, which take their permits
		for i := 0; i < stuck; i++ {
			if ad.try() {
				enter(fmt.Sprintf("next-borrower%d", i))
			}
		}
		if !waitUntil(func() bool { return done.Load() == int64(rd.M) }, 20*time.Second) {
			return false
		}
	}
	nils, errs, other := 0, 0, 0
	mask := 0
	for i, e := range res {
		switch {
		case e == nil:
			nils++
			if i < 30 {
				mask |= 1 << i
			}
		case errors.Is(e, syncx.ErrLimitReturn):
			errs++
		default:
			other++
		}
	}
	c.Obs(p+"_race_rounds", 1)
	c.Obs(p+"_race_returns", int64(rd.M))
	c.Obs(p+"_race_excess_returns_reported", int64(errs))
	out := map[string]any{"nil": nils, "ErrLimitReturn": errs, "other": other, "results": fmt.Sprint(res)}
	if nils > rd.K {
		m.viol("over-return/not-reported", fmt.Sprintf("%s of %d: %d permits were out, %d concurrent Returns: %d returned nil", p, n, rd.K, rd.M, nils), out)
	} else if nils < rd.K {
		c.Obs(p+"_race_return_error_for_held_permit", int64(rd.K-nils))
	}
	if other > 0 {
		m.viol("over-return/other-error", fmt.Sprintf("%s: a Return beyond the borrowed permits returned an error that is not ErrLimitReturn", p), out)
	}
	// quiescence: exactly n holders are admitted (those admitted above are still inside)
	lost := false
	for inside < n {
		if !acquire() {
			lost = true
			m.viol("over-return/capacity-lost", fmt.Sprintf("%s of %d: after %d concurrent Returns with %d permits out only %d permits can be borrowed", p, n, rd.M, rd.K, inside), out)
			break
		}
		enter(fmt.Sprintf("probe%d", inside))
	}
	if !lost {
		if ad.try() {
			enter("probe-extra")
			m.viol("over-return/capacity-raised", fmt.Sprintf("%s of %d: after %d concurrent Returns with %d permits out a %d-th holder is admitted while %d are inside", p, n, rd.M, rd.K, inside, inside-1), out)
		} else {
			c.Obs(p+"_race_probe_refused_beyond_cap", 1)
			if ad.timed {
				if err := ad.borrow(kit.Choose(r, []time.Duration{0, time.Nanosecond, 20 * time.Microsecond})); err == nil {
					enter("probe-extra-borrow")
					m.viol("over-return/capacity-raised", fmt.Sprintf("%s of %d: Borrow succeeded with all permits out (after %d concurrent Returns with %d permits out)", p, n, rd.M, rd.K), out)
				}
			}
		}
	}
	for ; inside > 0; inside-- {
		g.Exit()
		if err := ad.ret(); err != nil {
			c.Obs(p+"_race_return_error_for_held_permit", 1)
		}
	}
	c.Sig(true, "over-return-race", p, n, rd.K, rd.M, mask)
	return cont
}

// ---------------------------------------------------------------- fx / mr worker options
//
// The statement speaks of "capacity n >= 1". The other ways to configure the workers:
//   workers-below-1   WithWorkers(n <= 0): both packages normalise to one worker
//                     (minWorkers); the gauge must stay <= max(1, n) = 1 and the call must
//                     neither panic nor stall
//   default-workers   no option: 16 workers (defaultWorkers), same oracle with n = 16
//   option-repeated   WithWorkers(a) followed by WithWorkers(n): the later one counts
//   unlimited         fx.UnlimitedWorkers(): no cap, nothing to assert but "no panic";
//                     the peak is recorded
// Their violations carry the class in the key (C05/fx-opt/cap-exceeded/<class>).

func genOptWorkers(r *kit.Rand) int {
	return kit.Choose(r, []int{0, 0, -1, -2, -16, math.MinInt})
}

func fxOptsCase(c *kit.Case) {
	if skipAfterLeak(c, "fx-opt") {
		return
	}
	r := c.R
	p := genPipePlan(r, "fx-opt", fxAPIs)
	var opts []fx.Option
	switch r.Pick(4, 2, 2, 2) {
	case 0:
		w := genOptWorkers(r)
		p.N, p.Class, p.Opt = 1, "workers-below-1", fmt.Sprintf("WithWorkers(%d)", w)
		opts = []fx.Option{fx.WithWorkers(w)}
	case 1:
		p.N, p.Class, p.Opt = 16, "default-workers", "none"
	case 2:
		// no cap: the monitor's n is the number of items (cannot be exceeded), no barrier
		p.N, p.Class, p.Opt, p.Barrier = len(p.Items), "unlimited", "UnlimitedWorkers()", false
		opts = []fx.Option{fx.UnlimitedWorkers()}
	default:
		a := kit.Choose(r, []int{0, -3, p.N + 1, p.N + 17, 64})
		p.Class, p.Opt = "option-repeated", fmt.Sprintf("WithWorkers(%d), WithWorkers(%d)", a, p.N)
		opts = []fx.Option{fx.WithWorkers(a), fx.WithWorkers(p.N)}
	}
	p.Up, p.Term = kit.Choose(r, fxUps), kit.Choose(r, fxTerms)
	if p.API == "Parallel" {
		p.Term = ""
	}
	if p.Up != "" || (p.Term != "" && p.Term != "Done") {
		c.Obs("fx-opt_calls_inside_a_longer_pipeline", 1)
	}
	c.Obs("fx-opt_calls_"+p.Class, 1)
	fxDrive(c, p, opts)
}

func mrOptsCase(c *kit.Case) {
	if skipAfterLeak(c, "mr-opt") {
		return
	}
	r := c.R
	var p pipePlan
	var opts []mr.Option
	switch r.Pick(4, 2, 2, 4) {
	case 0:
		p = genPipePlan(r, "mr-opt", mrAPIs)
		w := genOptWorkers(r)
		p.N, p.Class, p.Opt = 1, "workers-below-1", fmt.Sprintf("WithWorkers(%d)", w)
		opts = []mr.Option{mr.WithWorkers(w)}
	case 1:
		p = genPipePlan(r, "mr-opt", mrAPIs)
		p.N, p.Class, p.Opt = 16, "default-workers", "none"
	case 2:
		p = genPipePlan(r, "mr-opt", mrAPIs)
		a := kit.Choose(r, []int{0, -3, p.N + 1, p.N + 17, 64})
		p.Class, p.Opt = "option-repeated", fmt.Sprintf("WithWorkers(%d), WithWorkers(%d)", a, p.N)
		opts = []mr.Option{mr.WithWorkers(a), mr.WithWorkers(p.N)}
	default:
		// Finish / FinishVoid: the functions are the items, workers = their number
		k := kit.Choose(r, []int{0, 1, 2, 3, 5, 8, 16, 24})
		p = pipePlan{Prim: "mr-opt", API: kit.Choose(r, []string{"Finish", "FinishVoid"}), N: k, PanicPct: kit.Choose(r, []int{0, 0, 10, 40}),
			Class: "finish", Opt: fmt.Sprintf("WithWorkers(len(fns)=%d) set by %s", k, "Finish")}
		if k == 0 {
			p.N = 1
		}
		errPct := 0
		if p.API == "Finish" {
			errPct = kit.Choose(r, []int{0, 0, 10, 40})
		}
		for i := 0; i < k; i++ {
			p.Items = append(p.Items, pipeItem{H: genHold(r), Panic: r.Intn(100) < p.PanicPct, Cancel: r.Intn(100) < errPct})
		}
	}
	if p.Class != "finish" && r.Chance(0.3) {
		// a context that is never cancelled must not change anything (cancellation is C10's matter)
		opts = append(opts, mr.WithContext(context.Background()))
		p.Opt += " + WithContext(background)"
	}
	c.Obs("mr-opt_calls_"+p.Class, 1)
	mrDrive(c, p, opts)
}

// ---------------------------------------------------------------- MaxConnsHandler(n <= 0)
//
// "no limit" by the code, outside the statement (capacities n >= 1): only a panic of
// go-zero is a violation; admitted requests and 503s are counted (the floor on the
// admitted ones makes a run that stopped admitting a BROKEN-RUN, not a pass).

func maxConnsUnlimitedCase(c *kit.Case) {
	p, lk := genMcPlan(c.R, "direct")
	p.N = kit.Choose(c.R, []int{0, 0, -1, -100, math.MinInt})
	p.Via = "direct-unlimited"
	total := 0
	for _, its := range p.Iters {
		total += len(its)
	}
	s := newMcSite(newMon(c, "maxconns-unlimited", total+1, p))
	h := handler.MaxConnsHandler(p.N)(http.HandlerFunc(s.serve))
	s.do = func(id string) (int, error) {
		rec := httptest.NewRecorder()
		h.ServeHTTP(rec, httptest.NewRequest(http.MethodGet, "/x?id="+id, nil))
		return rec.Code, nil
	}
	if mcWorkload(c, p, lk, []*mcSite{s}) {
		c.Obs("maxconns-unlimited_requests_admitted", s.m.acquired.Load())
		if p.N == 0 {
			c.Obs("maxconns-unlimited_requests_admitted_with_n_0", s.m.acquired.Load())
		} else {
			c.Obs("maxconns-unlimited_requests_admitted_with_n_negative", s.m.acquired.Load())
		}
		c.Obs("maxconns-unlimited_peak_requests_inside", s.m.g.Max())
	}
	mcFinish(c, p, []*mcSite{s})
}

// ---------------------------------------------------------------- StableRunner
//
// NewStableRunner(handle) runs handle as tasks of a TaskRunner it creates itself (today with
// runtime.NumCPU() slots). That number is not configured by the caller nor documented, so it
// is no "capacity n" of the statement: nothing is demanded of the peak, it is only recorded
// (together with whether it stayed within NumCPU). What the family adds is reach (Schedule
// through its only in-tree wrapper, under the race detector) with concurrent Push / Get.

func stableRunnerCase(c *kit.Case) {
	r := c.R
	n := runtime.NumCPU()
	k := kit.Choose(r, []int{1, n, 2 * n, 4 * n})
	if lim := 10*n - 1; k > lim {
		k = lim // the ring has NumCPU*10 slots; a slot is reused only after its Get
	}
	holds := make([]hold, k)
	for i := range holds {
		holds[i] = genHold(r)
	}
	plan := map[string]any{"NumCPU": n, "messages": k, "holds": fmt.Sprint(holds)}
	m := newMon(c, "stablerunner", k+1, plan) // k+1: cannot be exceeded by k messages
	actors := make([]*kit.Actor, k)
	for i := range actors {
		actors[i] = m.actor()
	}
	sr := threading.NewStableRunner(func(i int) int {
		who := fmt.Sprintf("msg%d", i)
		m.acquired.Add(1)
		defer m.released.Add(1)
		m.enter(actors[i], who)
		defer m.exit(actors[i], who)
		holds[i].do(m)
		return i
	})
	done := make(chan struct{})
	var inOrder atomic.Int64
	go func() {
		defer close(done)
		pushed := make(chan struct{})
		go func() {
			defer close(pushed)
			for i := 0; i < k; i++ {
				if sr.Push(i) != nil {
					return
				}
			}
		}()
		for i := 0; i < k; i++ {
			v, err := sr.Get()
			if err != nil {
				return
			}
			if v == i {
				inOrder.Add(1)
			}
		}
		<-pushed
		sr.Wait()
	}()
	select {
	case <-done:
		c.Obs("stablerunner_messages_handled", m.released.Load())
		c.Obs("stablerunner_results_taken_in_push_order", inOrder.Load())
		if m.g.Max() <= int64(n) {
			c.Obs("stablerunner_histories_with_peak_within_NumCPU", 1)
		} else {
			c.Obs("stablerunner_histories_with_peak_above_NumCPU", 1)
		}
		if m.g.Max() == int64(n) {
			c.Obs("stablerunner_histories_with_peak_equal_to_NumCPU", 1)
		}
		if waitUntil(func() bool { return m.released.Load() == m.acquired.Load() && m.g.Cur() == 0 }, caseWatchdog) {
			m.finish(k)
		}
	case <-time.After(caseWatchdog):
		c.Inconclusive("StableRunner: push / get / wait did not finish")
	}
}

// ---------------------------------------------------------------- syncx odds and ends

func syncxMiscCase(c *kit.Case) {
	r := c.R
	// (a) NewPool(n <= 0): outside the statement; what happens is only recorded
	func() {
		defer func() {
			if recover() != nil {
				c.Obs("pool_new_with_n_below_1_panicked", 1)
			}
		}()
		syncx.NewPool(kit.Choose(r, []int{0, -1}), func() any { return 1 }, func(any) {})
		c.Obs("pool_new_with_n_below_1_returned", 1)
	}()

	// (b) Put(nil) is not a resource: with all n resources held it must not make room for a
	// further holder ("returning more than was borrowed ... never raises the capacity")
	n := pickN(r)
	nils := r.Range(1, 3)
	pm := &poolMon{mon: newMon(c, "pool", n, map[string]any{"n": n, "history": fmt.Sprintf("%d Gets, %d Put(nil), one more Get", n, nils)})}
	var opts []syncx.PoolOption
	if r.Bool() {
		opts = append(opts, syncx.WithMaxAge(time.Hour))
	}
	pool := syncx.NewPool(n, pm.create, pm.destroy, opts...)
	var got []*res
	for i := 0; i < n; i++ {
		if rs := pm.take(pool.Get(), fmt.Sprintf("h%d", i), i); rs != nil {
			got = append(got, rs)
		}
	}
	for i := 0; i < nils; i++ {
		pool.Put(nil)
	}
	var extraDone atomic.Bool
	extra := make(chan any, 1)
	go probeExtraGet(pool, &extraDone, extra)
	for i := 0; i < 100; i++ {
		runtime.Gosched()
	}
	if extraDone.Load() {
		pm.viol("inflated/after-put-nil", fmt.Sprintf("pool of %d: a further Get returned while all %d resources are held and only nil was put back", n, n), nil)
	} else {
		c.Obs("pool_put_nil_at_full_capacity_admitted_nobody", 1)
	}
	for _, rs := range got {
		pm.give(pool, rs, nil)
	}
	select {
	case x := <-extra:
		if rs, ok := x.(*res); ok && rs != nil {
			pool.Put(rs)
		}
	case <-time.After(caseWatchdog):
		c.Inconclusive("pool: a Get that blocked at full capacity did not return after everything was put back")
	}
	pm.mu.Lock()
	vs := pm.viols
	pm.viols = nil
	pm.mu.Unlock()
	for _, v := range vs {
		c.Viol(v.key, v.what, v.witness)
	}

	// (c) Cond.Wait / Signal / WaitWithTimeout (reach only; Cond is TimeoutLimit's wake-up
	// channel, its own behaviour is not part of the statement)
	cond := syncx.NewCond()
	w := r.Range(1, 4)
	var woken atomic.Int64
	for i := 0; i < w; i++ {
		go func() {
			cond.Wait()
			woken.Add(1)
		}()
	}
	signals := 0
	if waitUntil(func() bool {
		if woken.Load() == int64(w) {
			return true
		}
		cond.Signal()
		signals++
		return false
	}, caseWatchdog) {
		c.Obs("cond_waiters_woken_by_signal", int64(w))
	} else {
		c.Inconclusive("Cond: waiters were not woken by repeated Signal")
	}
	d := kit.Choose(r, []time.Duration{time.Second, time.Minute})
	sig := make(chan struct{})
	go func() {
		defer close(sig)
		if rem, ok := cond.WaitWithTimeout(d); ok {
			c.Obs("cond_wait_with_timeout_signalled", 1)
			if rem <= d {
				c.Obs("cond_remaining_time_not_above_the_timeout", 1)
			}
		}
	}()
	waitUntil(func() bool {
		select {
		case <-sig:
			return true
		default:
			cond.Signal()
			return false
		}
	}, caseWatchdog)
	c.Sig(false, "syncx-misc", n, nils, w)
}
