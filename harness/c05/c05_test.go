// Package c05: concurrency caps are never exceeded, capacity is never leaked
// (DESIGN.md §4 C05).
//
// Every primitive with a capacity n (syncx.Limit, syncx.TimeoutLimit, syncx.Pool,
// threading.TaskRunner, threading.WorkerGroup, mr WithWorkers, fx WithWorkers,
// rest/handler.MaxConnsHandler, rest.Server MaxConns) is driven by generated
// workloads whose holders run a harness callback INSIDE the guarded region. The
// callback increments an atomic gauge and checks "holders <= n" AT the increment.
// Pool resources carry a CAS owner flag. Refusals (false / ErrTaskRunnerBusy /
// 503 / ErrTimeout) are only counted. At quiescence (every holder has finished
// and released, also those that panicked) a deterministic probe requires that
// exactly n further acquisitions succeed, the (n+1)-th is refused (or stays
// blocked), an over-return yields ErrLimitReturn and the capacity is still n.
//
// No wall-clock value decides a verdict. Watchdogs only yield c.Inconclusive,
// except the "stable block" decision, which is a state-did-not-change decision:
// every live goroutine of the case is inside an acquire call, nobody holds a
// permit, every harness goroutine is parked, and nothing (logical clock,
// counters) moved between consecutive samples - then no release can ever happen
// although fewer than n units are out: the capacity is provably lost.
package c05

import (
	"fmt"
	"runtime"
	"strings"
	"sync"
	"sync/atomic"
	"testing"
	"time"

	"github.com/zeromicro/go-zero/core/logx"

	"verifharness/kit"
)

const (
	prop = "C05"

	// watchdogs, never a verdict by themselves
	caseWatchdog  = 120 * time.Second // whole concurrent phase
	stuckProbeAt  = 30 * time.Second  // when to start looking for a stable block
	shortPatience = 3 * time.Second   // the same, once a full patience has expired in this process
	stuckSamples  = 4                 // consecutive identical samples needed
	stuckEvery    = 1 * time.Second
)

var capSet = []int{1, 2, 3, 8}

// pickN returns a capacity: mostly the design's set, sometimes another small one.
func pickN(r *kit.Rand) int {
	if r.Chance(0.12) {
		return kit.Choose(r, []int{4, 5, 16})
	}
	return kit.Choose(r, capSet)
}

// pickG returns the number of competing goroutines for capacity n.
func pickG(r *kit.Rand, n int) int {
	g := kit.Choose(r, []int{n, 2 * n, 8 * n, 64})
	if g > 64 {
		g = 64
	}
	if g < 1 {
		g = 1
	}
	return g
}

type verifPanic struct{ who string }

func (p verifPanic) String() string { return "verif-holder-panic:" + p.who }

// ---------------------------------------------------------------- hold kinds

type holdKind int

const (
	holdNone holdKind = iota
	holdYield
	holdSpin
	holdRendezvous // stay inside until the region is saturated (or a bounded number of yields passed)
	holdSleep      // a few microseconds of real sleep so that blocked acquirers really park
)

func (h holdKind) String() string {
	return [...]string{"none", "yield", "spin", "rendezvous", "sleep"}[h]
}

type hold struct {
	K holdKind `json:"k"`
	A int      `json:"a"`
}

func (h hold) String() string { return fmt.Sprintf("%s(%d)", h.K, h.A) }

func genHold(r *kit.Rand) hold {
	switch r.Pick(2, 3, 3, 4, 1) {
	case 0:
		return hold{holdNone, 0}
	case 1:
		return hold{holdYield, r.Range(1, 4)}
	case 2:
		return hold{holdSpin, r.Range(20, 3000)}
	case 3:
		return hold{holdRendezvous, r.Range(20, 200)}
	default:
		return hold{holdSleep, r.Range(1, 150)}
	}
}

var spinSink atomic.Uint64

func (h hold) do(m *mon) {
	switch h.K {
	case holdYield:
		for i := 0; i < h.A; i++ {
			runtime.Gosched()
		}
	case holdSpin:
		var x uint64
		for i := 0; i < h.A; i++ {
			x = x*6364136223846793005 + 1442695040888963407
		}
		spinSink.Add(x)
	case holdRendezvous:
		for i := 0; i < h.A && m.g.Cur() < m.n; i++ {
			runtime.Gosched()
		}
		// once saturated, stay a little so that the others attempt while we are full
		for i := 0; i < 3; i++ {
			runtime.Gosched()
		}
	case holdSleep:
		time.Sleep(time.Duration(h.A) * time.Microsecond)
	}
}

// ---------------------------------------------------------------- monitor

// mon is the per-history monitor of one guarded region of capacity n.
type mon struct {
	c    *kit.Case
	prim string // primitive name used in keys and counters
	n    int64
	g    kit.Gauge
	plan any // the case parameters, part of every witness
	// class of the configuration, appended to the cap-exceeded key (extension families: a worker
	// option other than WithWorkers(n >= 1)); empty for the plain "capacity n" configurations
	class string

	enters   atomic.Int64
	sat      atomic.Int64 // enters that saw holders == n
	refused  atomic.Int64
	timeouts atomic.Int64
	panics   atomic.Int64

	// liveness bookkeeping for the stable-block decision
	running  atomic.Int64 // harness goroutines of the history that have not exited
	pending  atomic.Int64 // of those, how many are inside an acquire call right now
	acquired atomic.Int64 // successful acquisitions
	released atomic.Int64 // release calls that returned

	mu       sync.Mutex
	overSeen bool
	log      kit.EvLog
	viols    []pendingViol
}

type pendingViol struct {
	key, what string
	witness   map[string]any
}

func newMon(c *kit.Case, prim string, n int, plan any) *mon {
	return &mon{c: c, prim: prim, n: int64(n), plan: plan}
}

// viol queues a violation; it is emitted (with the recorded history) by finish.
// Safe for concurrent use (kit.Case.Viol is not).
func (m *mon) viol(kind, what string, extra map[string]any) {
	w := map[string]any{"primitive": m.prim, "capacity": m.n, "plan": m.plan}
	for k, v := range extra {
		w[k] = v
	}
	key := prop + "/" + m.prim + "/" + kind
	m.mu.Lock()
	if len(m.viols) < 8 {
		m.viols = append(m.viols, pendingViol{key, what, w})
	}
	m.mu.Unlock()
}

// enter is called by a holder as its first statement inside the guarded region.
func (m *mon) enter(a *kit.Actor, who string) {
	v := m.g.Enter()
	m.enters.Add(1)
	if a != nil {
		a.Rec("in", who, nil, v)
	}
	if v > m.n {
		m.mu.Lock()
		first := !m.overSeen
		m.overSeen = true
		m.mu.Unlock()
		if first {
			kind := "cap-exceeded"
			if m.class != "" {
				kind += "/" + m.class
			}
			m.viol(kind, fmt.Sprintf("%d holders inside the guarded region of a %s with capacity %d (seen at the increment by holder %s)",
				v, m.prim, m.n, who), map[string]any{"holders_inside": v, "holder": who})
		}
	} else if v == m.n {
		m.sat.Add(1)
	}
}

// exit is called by a holder as its last statement inside the guarded region
// (deferred, so that it also runs when the holder panics).
func (m *mon) exit(a *kit.Actor, who string) {
	if a != nil {
		a.Rec("out", who, nil, nil)
	}
	m.g.Exit()
}

func (m *mon) actor() *kit.Actor { return m.log.NewActor() }

// probeObs counts a quiescence probe, separately those made after holders panicked.
func (m *mon) probeObs() {
	m.c.Obs(m.prim+"_quiescence_probes", 1)
	if m.panics.Load() > 0 {
		m.c.Obs(m.prim+"_quiescence_probes_after_holder_panics", 1)
	}
}

// saturated reports whether the cap was reached at least once.
func (m *mon) saturated() bool { return m.sat.Load() > 0 }

// finish emits queued violations, the counters and the signature of the history.
func (m *mon) finish(extraSig ...any) {
	evs := m.log.Merge()
	// signature of a history = its occupancy trajectory: the merged sequence of event
	// types with, for every entry into the region, the number of holders it saw
	sig := kit.InterleavingSig(evs, func(e kit.Event) string {
		if e.Op == "in" {
			return fmt.Sprint(e.Res)
		}
		return ""
	})
	m.mu.Lock()
	vs := m.viols
	m.viols = nil
	m.mu.Unlock()
	for _, v := range vs {
		if len(evs) > 0 {
			tail := evs
			if len(tail) > 300 {
				tail = tail[len(tail)-300:]
			}
			v.witness["history_tail"] = tail
		}
		m.c.Viol(v.key, v.what, v.witness)
	}
	p := m.prim
	m.c.Obs(p+"_holders_observed_inside", m.enters.Load())
	m.c.Obs(p+"_holders_that_saw_the_cap_reached", m.sat.Load())
	if x := m.refused.Load(); x > 0 {
		m.c.Obs(p+"_refusals", x)
	}
	if x := m.timeouts.Load(); x > 0 {
		m.c.Obs(p+"_borrow_timeouts", x)
	}
	if x := m.panics.Load(); x > 0 {
		m.c.Obs(p+"_holder_panics", x)
	}
	if m.saturated() {
		m.c.Obs(p+"_histories_with_cap_reached", 1)
	}
	parts := append([]any{m.prim, m.n, sig, m.g.Max(), m.refused.Load(), m.panics.Load()}, extraSig...)
	m.c.Sig(m.saturated(), parts...)
}

// ---------------------------------------------------------------- waiting

// await waits for done. While waiting it looks for a stable block: every live
// goroutine of the history is inside an acquire call, nobody holds anything, and
// the logical clock and all counters are identical in stuckSamples consecutive
// samples. That is a deadlock no release can resolve: the capacity was lost.
// Returns true when done was closed.
func (m *mon) await(done <-chan struct{}, what string) bool {
	t0 := time.Now()
	select {
	case <-done:
		return true
	case <-time.After(patience()):
		patienceExpired()
	}
	type snap struct{ st, run, pend, acq, rel, in, ent int64 }
	take := func() snap {
		return snap{int64(kit.Stamp()), m.running.Load(), m.pending.Load(), m.acquired.Load(), m.released.Load(), m.g.Cur(), m.enters.Load()}
	}
	same := 0
	prev := take()
	for time.Since(t0) < caseWatchdog {
		select {
		case <-done:
			m.c.Obs("slow_histories_that_still_completed", 1)
			return true
		case <-time.After(stuckEvery):
		}
		cur := take()
		// Stamp() itself advances the clock by one per sample
		if cur.st == prev.st+1 && cur.run == prev.run && cur.pend == prev.pend && cur.acq == prev.acq &&
			cur.rel == prev.rel && cur.in == prev.in && cur.ent == prev.ent && !harnessGoroutineRunnable() {
			same++
		} else {
			same = 0
		}
		prev = cur
		if same >= stuckSamples && cur.run > 0 && cur.run == cur.pend && cur.acq-cur.rel < m.n && cur.in == 0 {
			m.viol("leak/acquirers-blocked-below-capacity",
				fmt.Sprintf("%s: %d acquirers are blocked although only %d of %d units are out (%d acquisitions, %d releases), every live goroutine of the history is inside an acquire call and no holder is inside; nothing moved in %d consecutive samples (%s)",
					m.prim, cur.pend, cur.acq-cur.rel, m.n, cur.acq, cur.rel, stuckSamples, what),
				map[string]any{"blocked_acquirers": cur.pend, "acquired": cur.acq, "released": cur.rel, "goroutines": stacksBrief()})
			leakVerdict(m.prim)
			return false
		}
	}
	m.c.Inconclusive(fmt.Sprintf("%s: %s did not finish within %v and no stable block could be established", m.prim, what, caseWatchdog))
	return false
}

// patience is how long a history is simply waited for before the monitor starts
// taking samples. It never decides anything: verdicts come from the state being
// identical in consecutive samples with every harness goroutine parked. Once a
// full patience has expired in this process the following cases look earlier, so
// that a run against a tree that really loses capacity ends in reasonable time.
var slowSeen atomic.Int64

func patience() time.Duration {
	if slowSeen.Load() > 0 {
		return shortPatience
	}
	return stuckProbeAt
}

func patienceExpired() { slowSeen.Add(1) }

// After a leak verdict for a primitive the remaining cases of that primitive in
// this process are skipped (each would sit out its patience for the same verdict).
var leakSeen sync.Map

func leakVerdict(prim string) { leakSeen.Store(prim, true) }

func skipAfterLeak(c *kit.Case, prim string) bool {
	if _, ok := leakSeen.Load(prim); ok {
		c.Obs(prim+"_cases_skipped_after_a_leak_verdict", 1)
		return true
	}
	return false
}

// harnessGoroutineRunnable reports whether any goroutine with a frame of this
// package (other than the caller) is runnable / running / in a syscall, i.e. not
// parked: a state with such a goroutine is not stable, whatever the counters say.
func harnessGoroutineRunnable() bool {
	for _, blk := range strings.Split(stacks(), "\n\n") {
		if !strings.Contains(blk, "verifharness/c05.") || strings.Contains(blk, "c05.harnessGoroutineRunnable") {
			continue
		}
		hdr := blk
		if i := strings.IndexByte(blk, '\n'); i >= 0 {
			hdr = blk[:i]
		}
		if strings.Contains(hdr, "[runnable") || strings.Contains(hdr, "[running") || strings.Contains(hdr, "[syscall") {
			return true
		}
	}
	return false
}

// stacksBrief is the dump cut to a size fit for a witness.
func stacksBrief() string {
	s := stacks()
	if len(s) > 48<<10 {
		s = s[:48<<10] + "\n...(cut)"
	}
	return s
}

func stacks() string {
	buf := make([]byte, 1<<20)
	k := runtime.Stack(buf, true)
	return string(buf[:k])
}

// waitUntil polls cond (yield first, then short sleeps) up to the watchdog.
func waitUntil(cond func() bool, max time.Duration) bool {
	for i := 0; i < 200; i++ {
		if cond() {
			return true
		}
		runtime.Gosched()
	}
	t0 := time.Now()
	for time.Since(t0) < max {
		if cond() {
			return true
		}
		time.Sleep(50 * time.Microsecond)
	}
	return cond()
}

// goHolder starts a harness goroutine of the history; panics of the holder are
// recovered here (go-zero does not see them).
func (m *mon) goHolder(wg *sync.WaitGroup, fn func()) {
	wg.Add(1)
	m.running.Add(1)
	go func() {
		defer wg.Done()
		defer m.running.Add(-1)
		defer func() {
			if p := recover(); p != nil {
				if _, ok := p.(verifPanic); !ok {
					m.viol("harness/unexpected-panic", fmt.Sprint(p), map[string]any{"stack": stacksBrief()})
				}
			}
		}()
		fn()
	}()
}

func closeWhenDone(wg *sync.WaitGroup) chan struct{} {
	done := make(chan struct{})
	go func() { wg.Wait(); close(done) }()
	return done
}

// ---------------------------------------------------------------- test entry

func TestVerifC05(t *testing.T) {
	logx.Disable()

	// a replay (VERIF_ONLY) repeats the one case: schedules are not reproducible, so the
	// witness' plan is re-run many times and the driver reports whether it hit again
	reps := 1
	if kit.GetEnv().Only != "" {
		reps = 100
	}
	for rep := 0; rep < reps; rep++ {
		kit.Run(t, prop, "limit-seq", kit.N(300, 6000), limitSeqCase)
		kit.Run(t, prop, "limit-conc", kit.N(4000, 100000), limitConcCase)
		kit.Run(t, prop, "limit-overreturn", kit.N(400, 8000), limitOverReturnCase)
		kit.Run(t, prop, "tlimit-seq", kit.N(100, 2000), tlimitSeqCase)
		kit.Run(t, prop, "tlimit-conc", kit.N(2400, 60000), tlimitConcCase)
		kit.Run(t, prop, "pool-conc", kit.N(3000, 72000), poolConcCase)
		kit.Run(t, prop, "pool-age-seq", kit.N(150, 3200), poolAgeSeqCase)
		kit.Run(t, prop, "pool-age-conc", kit.N(1200, 30000), poolAgeConcCase)
		kit.Run(t, prop, "taskrunner", kit.N(3000, 72000), taskRunnerCase)
		kit.Run(t, prop, "workergroup", kit.N(300, 6000), workerGroupCase)
		kit.Run(t, prop, "mr-workers", kit.N(2400, 60000), mrCase)
		kit.Run(t, prop, "fx-workers", kit.N(2400, 60000), fxCase)
		kit.Run(t, prop, "maxconns-direct", kit.N(3000, 72000), maxConnsDirectCase)
		kit.Run(t, prop, "maxconns-httptest", kit.N(500, 10000), maxConnsHTTPTestCase)
		kit.Run(t, prop, "maxconns-restserver", kit.N(128, 2000), maxConnsRestServerCase)
		// extension families (ext_test.go)
		kit.Run(t, prop, "overreturn-race", kit.N(1600, 40000), overReturnRaceCase)
		kit.Run(t, prop, "fx-options", kit.N(800, 20000), fxOptsCase)
		kit.Run(t, prop, "mr-options", kit.N(800, 20000), mrOptsCase)
		kit.Run(t, prop, "maxconns-unlimited", kit.N(300, 6000), maxConnsUnlimitedCase)
		kit.Run(t, prop, "stablerunner", kit.N(120, 2400), stableRunnerCase)
		kit.Run(t, prop, "syncx-misc", kit.N(120, 2400), syncxMiscCase)
	}

	kit.End()
}
