package c05

import (
	"fmt"
	"io"
	"log"
	"net"
	"net/http"
	"net/http/httptest"
	"sync"
	"sync/atomic"
	"time"

	"github.com/zeromicro/go-zero/core/logx"
	"github.com/zeromicro/go-zero/rest"
	"github.com/zeromicro/go-zero/rest/handler"

	"verifharness/kit"
)

// ---------------------------------------------------------------- MaxConnsHandler
//
// The guarded region is next.ServeHTTP. One mcSite stands for one middleware
// instance (one latch of capacity n): the handler behind it looks the request up
// by its id, enters the monitor, holds, answers (never with 503 itself) and
// possibly panics. A response 503 for a request whose handler was never entered
// is a refusal (only counted). The same workload and the same quiescence probe
// run over three transports: direct ServeHTTP calls on a recorder, a net/http
// test server, and a real rest.Server (RestConf.MaxConns) on loopback.

type mcIter struct {
	H      hold   `json:"hold"`
	Panic  string `json:"panic,omitempty"` // "", "value" (verifPanic), "abort" (http.ErrAbortHandler)
	Status int    `json:"status"`
	Body   int    `json:"body_bytes"`
	Route  int    `json:"route,omitempty"`
}

type mcPlan struct {
	Via         string     `json:"via"`
	N           int        `json:"n"`
	G           int        `json:"clients"`
	Launch      string     `json:"launch"`
	PanicPct    int        `json:"panic_pct"`
	NoKeepAlive bool       `json:"no_keep_alive,omitempty"`
	Routes      int        `json:"routes,omitempty"`
	Middlewares string     `json:"middlewares,omitempty"`
	Iters       [][]mcIter `json:"iterations"`
}

type mcReq struct {
	it      mcIter
	who     string
	a       *kit.Actor
	entered atomic.Int64
	release chan struct{} // probe requests stay inside until it is closed
}

type mcSite struct {
	m       *mon
	mu      sync.Mutex
	reqs    map[string]*mcReq
	probeIn atomic.Int64
	do      func(id string) (int, error) // performs one request, returns the status code
}

var mcBlockingSeen atomic.Int64

func newMcSite(m *mon) *mcSite { return &mcSite{m: m, reqs: map[string]*mcReq{}} }

func (s *mcSite) add(id string, q *mcReq) {
	q.a = s.m.actor()
	s.mu.Lock()
	s.reqs[id] = q
	s.mu.Unlock()
}

var mcBody = make([]byte, 4096)

// serve is the handler behind the middleware: the guarded region.
func (s *mcSite) serve(w http.ResponseWriter, r *http.Request) {
	s.mu.Lock()
	q := s.reqs[r.URL.Query().Get("id")]
	s.mu.Unlock()
	if q == nil {
		w.WriteHeader(http.StatusNoContent)
		return
	}
	m := s.m
	a := q.a
	if q.entered.Add(1) > 1 {
		// net/http's client replays an idempotent request whose reused connection was closed
		// without an answer (handler panic): the replay is a holder like any other, but it
		// must not share the first attempt's recorder
		a = nil
		m.c.Obs(m.prim+"_requests_replayed_by_the_http_client", 1)
	}
	m.acquired.Add(1)
	defer m.released.Add(1) // runs after m.exit: "released == acquired" orders every recorder write before the evaluation
	m.enter(a, q.who)
	defer m.exit(a, q.who)
	if q.release != nil {
		s.probeIn.Add(1)
		<-q.release
		return
	}
	q.it.H.do(m)
	if q.it.Status != http.StatusOK {
		w.WriteHeader(q.it.Status)
	}
	if q.it.Body > 0 {
		w.Write(mcBody[:q.it.Body])
	}
	switch q.it.Panic {
	case "value":
		m.panics.Add(1)
		panic(verifPanic{q.who})
	case "abort":
		m.panics.Add(1)
		panic(http.ErrAbortHandler)
	}
}

func genMcPlan(r *kit.Rand, via string) (mcPlan, int) {
	n := pickN(r)
	g := pickG(r, n)
	lk := launchGo
	maxIt := 4
	if via == "direct" {
		lk = r.Pick(4, 2, 2, 2)
	} else {
		if g > 32 {
			g = 32
		}
		maxIt = 3
	}
	p := mcPlan{Via: via, N: n, G: g, Launch: launchNames[lk], PanicPct: kit.Choose(r, []int{0, 0, 5, 15, 40}), Routes: 1}
	if via != "direct" {
		p.NoKeepAlive = r.Chance(0.3)
	}
	if via == "restserver" && r.Chance(0.4) {
		p.Routes = 2
	}
	for i := 0; i < g; i++ {
		its := make([]mcIter, r.Range(1, maxIt))
		for j := range its {
			it := mcIter{H: genHold(r), Status: kit.Choose(r, []int{200, 200, 201, 404, 500}), Body: kit.Choose(r, []int{0, 3, 700}), Route: r.Intn(p.Routes)}
			if r.Intn(100) < p.PanicPct {
				it.Panic = "value"
				if via != "direct" && r.Bool() {
					it.Panic = "abort"
				}
			}
			if it.Status == 404 || r.Chance(0.3) {
				// a body is written only sometimes; a panic before any write is the common leak scenario
				it.Body = 0
			}
			its[j] = it
		}
		p.Iters = append(p.Iters, its)
	}
	return p, lk
}

// mcWorkload runs the generated clients against the sites (one per route).
func mcWorkload(c *kit.Case, p mcPlan, lk int, sites []*mcSite) bool {
	l := newLauncher(lk)
	m0 := sites[0].m
	for gi := range p.Iters {
		its := p.Iters[gi]
		gname := fmt.Sprintf("g%d", gi)
		ids := make([]string, len(its))
		cas := make([]*kit.Actor, len(its))
		for j, it := range its {
			s := sites[it.Route]
			ids[j] = fmt.Sprintf("%s.r%d", gname, j)
			s.add(ids[j], &mcReq{it: it, who: ids[j]})
			cas[j] = s.m.actor()
		}
		l.start(m0, func() {
			for j, it := range its {
				j, it := j, it
				s := sites[it.Route]
				l.iteration(s.m, func() {
					code, err := s.do(ids[j])
					s.mu.Lock()
					q := s.reqs[ids[j]]
					s.mu.Unlock()
					entered := q.entered.Load()
					switch {
					case err != nil:
						if it.Panic == "" {
							c.Obs(s.m.prim+"_transport_errors_without_a_panic", 1)
						}
					case code == http.StatusServiceUnavailable && entered == 0:
						cas[j].Rec("refused", ids[j], nil, nil)
						s.m.refused.Add(1)
					case code == http.StatusServiceUnavailable:
						c.Obs(s.m.prim+"_503_although_the_handler_ran", 1)
					case entered == 0:
						c.Obs(s.m.prim+"_answered_without_running_the_handler", 1)
					}
				})
			}
		})
	}
	return m0.await(l.done(), "the clients")
}

// mcProbe: every client has its answer, nobody is inside. n requests are sent one
// after another and held inside the handler: each must be admitted (a 503 means
// capacity was lost); with n inside, a further request must be answered 503.
func (s *mcSite) probe(n int, phase string) {
	m := s.m
	m.probeObs()
	release := make(chan struct{})
	var wg sync.WaitGroup
	defer func() {
		close(release)
		done := closeWhenDone(&wg)
		select {
		case <-done:
		case <-time.After(caseWatchdog):
			m.c.Inconclusive(m.prim + " probe: held requests did not return after their release")
		}
	}()
	for i := 0; i < n; i++ {
		id := fmt.Sprintf("probe%d", i)
		s.add(id, &mcReq{who: id, release: release})
		ret := make(chan int, 1)
		wg.Add(1)
		go func() {
			defer wg.Done()
			defer func() { recover() }()
			code, err := s.do(id)
			if err != nil {
				code = -1
			}
			ret <- code
		}()
		want := int64(i + 1)
		var code int
		returned := false
		ok := waitUntil(func() bool {
			if s.probeIn.Load() >= want {
				return true
			}
			select {
			case code = <-ret:
				returned = true
				return true
			default:
				return false
			}
		}, caseWatchdog)
		switch {
		case !ok:
			m.c.Inconclusive(fmt.Sprintf("%s probe: request #%d neither entered the handler nor returned", m.prim, i+1))
			return
		case returned && code == http.StatusServiceUnavailable:
			m.viol("leak/"+phase, fmt.Sprintf("at quiescence request #%d of %d was refused with 503 while only %d requests are inside: capacity was lost", i+1, n, i),
				map[string]any{"admitted": i})
			return
		case returned:
			m.c.Inconclusive(fmt.Sprintf("%s probe: request #%d returned %d without being held", m.prim, i+1, code))
			return
		}
	}
	// a middleware that blocks beyond the cap instead of refusing is within the statement; once
	// that was seen a few times in this process the extra request is no longer sat out
	if mcBlockingSeen.Load() >= 3 {
		m.c.Obs(m.prim+"_probe_extra_request_skipped_after_blocking_was_seen", 1)
		return
	}
	xq := &mcReq{who: "probe-extra", it: mcIter{Status: 200}}
	s.add("probe-extra", xq)
	type answer struct {
		code int
		err  error
	}
	ans := make(chan answer, 1)
	wg.Add(1)
	go func() {
		defer wg.Done()
		defer func() { recover() }()
		code, err := s.do("probe-extra")
		ans <- answer{code, err}
	}()
	var code int
	var err error
	select {
	case a := <-ans:
		code, err = a.code, a.err
	case <-time.After(patience()):
		patienceExpired()
		// "refused or blocked": a request that is neither answered nor inside the handler is blocked
		if xq.entered.Load() == 0 {
			m.c.Obs(m.prim+"_probe_extra_request_blocked_not_refused", 1)
			mcBlockingSeen.Add(1)
		} else {
			m.c.Inconclusive(m.prim + " probe: the extra request entered the handler but was not answered")
		}
		return
	}
	switch {
	case err != nil:
		m.c.Inconclusive(m.prim + " probe: the extra request failed: " + err.Error())
	case code != http.StatusServiceUnavailable:
		m.viol("inflated/"+phase, fmt.Sprintf("request #%d was answered %d (admitted) while %d requests are inside a MaxConnsHandler of %d", n+1, code, n, n), nil)
	default:
		m.c.Obs(m.prim+"_probe_refused_beyond_cap", 1)
	}
}

func mcPhase(m *mon) string {
	if m.panics.Load() > 0 {
		return "after-handler-panics"
	}
	return "after-normal-exits"
}

func mcFinish(c *kit.Case, p mcPlan, sites []*mcSite) {
	for _, s := range sites {
		m := s.m
		// the network is not a synchronisation edge: wait on the monitor's own atomics
		if !waitUntil(func() bool { return m.released.Load() == m.acquired.Load() && m.g.Cur() == 0 }, caseWatchdog) {
			c.Inconclusive(m.prim + ": handlers still running after every client returned; history not evaluated")
			return
		}
	}
	for _, s := range sites {
		s.m.finish(p.G, p.Via)
	}
	if c.Index < 2 {
		c.Sample("maxconns-"+p.Via, 2, map[string]any{"plan": p, "max_requests_inside_seen": sites[0].m.g.Max(), "refusals_503": sites[0].m.refused.Load()})
	}
}

// ---------------------------------------------------------------- direct

func maxConnsDirectCase(c *kit.Case) {
	p, lk := genMcPlan(c.R, "direct")
	s := newMcSite(newMon(c, "maxconns-direct", p.N, p))
	h := handler.MaxConnsHandler(p.N)(http.HandlerFunc(s.serve))
	s.do = func(id string) (int, error) {
		rec := httptest.NewRecorder()
		h.ServeHTTP(rec, httptest.NewRequest(http.MethodGet, "/x?id="+id, nil))
		return rec.Code, nil
	}
	if mcWorkload(c, p, lk, []*mcSite{s}) {
		s.probe(p.N, mcPhase(s.m))
	}
	mcFinish(c, p, []*mcSite{s})
}

// ---------------------------------------------------------------- net/http test server

var discardLog = log.New(io.Discard, "", 0)

func mcClient(noKeepAlive bool) *http.Client {
	return &http.Client{Timeout: 10 * time.Minute, Transport: &http.Transport{
		MaxIdleConnsPerHost: 64, DisableKeepAlives: noKeepAlive, DisableCompression: true}}
}

func httpDo(client *http.Client, url string) (int, error) {
	resp, err := client.Get(url)
	if err != nil {
		return 0, err
	}
	_, err = io.Copy(io.Discard, resp.Body)
	resp.Body.Close()
	if err != nil {
		return 0, err
	}
	return resp.StatusCode, nil
}

func maxConnsHTTPTestCase(c *kit.Case) {
	p, lk := genMcPlan(c.R, "httptest")
	s := newMcSite(newMon(c, "maxconns-httptest", p.N, p))
	srv := httptest.NewUnstartedServer(handler.MaxConnsHandler(p.N)(http.HandlerFunc(s.serve)))
	srv.Config.ErrorLog = discardLog
	srv.Start()
	client := mcClient(p.NoKeepAlive)
	s.do = func(id string) (int, error) { return httpDo(client, srv.URL+"/x?id="+id) }
	if mcWorkload(c, p, lk, []*mcSite{s}) {
		s.probe(p.N, mcPhase(s.m))
	}
	client.CloseIdleConnections()
	srv.Close() // waits for outstanding requests
	mcFinish(c, p, []*mcSite{s})
}

// ---------------------------------------------------------------- real rest.Server

func freePort() (int, error) {
	l, err := net.Listen("tcp", "127.0.0.1:0")
	if err != nil {
		return 0, err
	}
	defer l.Close()
	return l.Addr().(*net.TCPAddr).Port, nil
}

func maxConnsRestServerCase(c *kit.Case) {
	r := c.R
	p, lk := genMcPlan(r, "restserver")
	port, err := freePort()
	if err != nil {
		c.Inconclusive("no free port: " + err.Error())
		return
	}
	var conf rest.RestConf
	conf.Host = "127.0.0.1"
	conf.Port = port
	conf.Name = fmt.Sprintf("verifc05-%d", c.Index)
	conf.Log.Mode = "console"
	conf.Log.Level = "severe"
	conf.MaxConns = p.N
	conf.MaxBytes = 1 << 20
	// one hour: the timeout middleware (which would let a handler outlive its request and
	// answer 503 itself) and the derived http.Server read/write timeouts stay out of the way
	conf.Timeout = 3600 * 1000
	conf.Middlewares.MaxConns = true
	// breaker and shedder answer 503 on their own accord (after handler panics / under CPU
	// load): switched off so that a 503 at quiescence can only come from MaxConns
	conf.Middlewares.Breaker = false
	conf.Middlewares.Shedding = false
	conf.Middlewares.Recover = r.Bool()
	conf.Middlewares.Timeout = r.Bool()
	conf.Middlewares.Log = r.Bool()
	conf.Middlewares.Metrics = r.Bool()
	conf.Middlewares.MaxBytes = r.Bool()
	conf.Middlewares.Gunzip = r.Bool()
	p.Middlewares = fmt.Sprintf("recover=%v timeout=%v log=%v metrics=%v maxbytes=%v gunzip=%v", conf.Middlewares.Recover, conf.Middlewares.Timeout,
		conf.Middlewares.Log, conf.Middlewares.Metrics, conf.Middlewares.MaxBytes, conf.Middlewares.Gunzip)
	srv, err := rest.NewServer(conf)
	if err != nil {
		c.Inconclusive("rest.NewServer: " + err.Error())
		return
	}
	logx.Disable()

	// every route gets its own middleware instance, hence its own latch of n
	sites := make([]*mcSite, p.Routes)
	for i := range sites {
		sites[i] = newMcSite(newMon(c, "maxconns-restserver", p.N, p))
		srv.AddRoute(rest.Route{Method: http.MethodGet, Path: fmt.Sprintf("/route%d", i), Handler: sites[i].serve})
	}
	srv.AddRoute(rest.Route{Method: http.MethodGet, Path: "/whoami", Handler: func(w http.ResponseWriter, _ *http.Request) {
		io.WriteString(w, conf.Name)
	}})
	var hsMu sync.Mutex
	var hs *http.Server
	startPanic := make(chan any, 1)
	go func() {
		defer func() {
			if pv := recover(); pv != nil {
				startPanic <- pv
			}
		}()
		srv.StartWithOpts(func(s *http.Server) {
			s.ErrorLog = discardLog
			hsMu.Lock()
			hs = s
			hsMu.Unlock()
		})
	}()
	defer func() {
		hsMu.Lock()
		s := hs
		hsMu.Unlock()
		if s != nil {
			s.Close()
		}
	}()
	up := false
	for i := 0; i < 3000 && !up; i++ {
		select {
		case pv := <-startPanic:
			c.Inconclusive(fmt.Sprintf("rest.Server could not start (port taken?): %v", pv))
			return
		default:
		}
		conn, err := net.DialTimeout("tcp", fmt.Sprintf("127.0.0.1:%d", port), time.Second)
		if err == nil {
			conn.Close()
			up = true
			break
		}
		time.Sleep(10 * time.Millisecond)
	}
	if !up {
		c.Inconclusive("rest.Server did not start listening")
		return
	}
	client := mcClient(p.NoKeepAlive)
	defer client.CloseIdleConnections()
	base := fmt.Sprintf("http://127.0.0.1:%d", port)
	if resp, err := client.Get(base + "/whoami"); err != nil {
		c.Inconclusive("whoami request failed: " + err.Error())
		return
	} else {
		b, _ := io.ReadAll(resp.Body)
		resp.Body.Close()
		if string(b) != conf.Name {
			c.Inconclusive("the loopback port is not served by this case's rest.Server")
			return
		}
	}
	for i, s := range sites {
		url := fmt.Sprintf("%s/route%d?id=", base, i)
		s.do = func(id string) (int, error) { return httpDo(client, url+id) }
	}
	if mcWorkload(c, p, lk, sites) {
		for _, s := range sites {
			s.probe(p.N, mcPhase(s.m))
		}
	}
	mcFinish(c, p, sites)
}
