package c05

import (
	"errors"
	"fmt"
	"sync"
	"time"

	"github.com/zeromicro/go-zero/core/syncx"
	"github.com/zeromicro/go-zero/core/threading"

	"verifharness/kit"
)

// ---------------------------------------------------------------- launchers

// How the competing goroutines of a history are started. Kinds 2 and 3 let
// go-zero recover the holder's panic (the goroutine ends at its first panic);
// kinds 0 and 1 recover it in the harness, per iteration.
const (
	launchGo = iota
	launchRoutineGroupRun
	launchRoutineGroupRunSafe
	launchGoSafe
)

var launchNames = []string{"go", "RoutineGroup.Run", "RoutineGroup.RunSafe", "threading.GoSafe"}

type launcher struct {
	kind int
	wg   sync.WaitGroup
	rg   *threading.RoutineGroup
}

func newLauncher(kind int) *launcher {
	return &launcher{kind: kind, rg: threading.NewRoutineGroup()}
}

func (l *launcher) gozeroRecovers() bool {
	return l.kind == launchRoutineGroupRunSafe || l.kind == launchGoSafe
}

func recoverVerif(m *mon) {
	if p := recover(); p != nil {
		if _, ok := p.(verifPanic); !ok {
			m.viol("harness/unexpected-panic", fmt.Sprint(p), map[string]any{"stack": stacksBrief()})
		}
	}
}

func (l *launcher) start(m *mon, fn func()) {
	m.running.Add(1)
	wrapped := func() {
		defer m.running.Add(-1)
		fn()
	}
	switch l.kind {
	case launchGo:
		l.wg.Add(1)
		go func() {
			defer l.wg.Done()
			defer recoverVerif(m)
			wrapped()
		}()
	case launchRoutineGroupRun:
		l.rg.Run(func() {
			defer recoverVerif(m)
			wrapped()
		})
	case launchRoutineGroupRunSafe:
		l.rg.RunSafe(wrapped)
	default:
		l.wg.Add(1)
		threading.GoSafe(func() {
			defer l.wg.Done()
			wrapped()
		})
	}
}

func (l *launcher) done() chan struct{} {
	done := make(chan struct{})
	go func() {
		l.wg.Wait()
		l.rg.Wait()
		close(done)
	}()
	return done
}

// iteration runs one holder iteration; with a harness-recovering launcher a
// holder panic ends only this iteration, otherwise it ends the goroutine.
func (l *launcher) iteration(m *mon, fn func()) {
	if l.gozeroRecovers() {
		fn()
		return
	}
	func() {
		defer recoverVerif(m)
		fn()
	}()
}

// ---------------------------------------------------------------- Limit / TimeoutLimit adapter

// limAdapter hides the difference between syncx.Limit and syncx.TimeoutLimit.
type limAdapter struct {
	name   string
	try    func() bool
	ret    func() error
	borrow func(timeout time.Duration) error // Limit: blocks, always nil
	timed  bool
}

func adaptLimit(n int) limAdapter {
	l := syncx.NewLimit(n)
	return limAdapter{name: "limit", try: l.TryBorrow, ret: l.Return,
		borrow: func(time.Duration) error { l.Borrow(); return nil }}
}

func adaptTimeoutLimit(n int) limAdapter {
	l := syncx.NewTimeoutLimit(n)
	return limAdapter{name: "tlimit", try: l.TryBorrow, ret: l.Return, borrow: l.Borrow, timed: true}
}

// probeLimit is the quiescence probe: nobody holds a permit and nobody is calling.
// (1) exactly n TryBorrow succeed, the (n+1)-th is refused; (2) TimeoutLimit: a
// Borrow with a tiny timeout at full capacity times out; (3) after returning them,
// further Returns report ErrLimitReturn; (4) the capacity is still exactly n.
func probeLimit(m *mon, ad limAdapter, n int, r *kit.Rand, phase string) {
	m.probeObs()
	round := func(tag string) bool {
		leakKind, inflKind := "leak/"+phase, "inflated/"+phase
		if tag == "capacity-after-over-return" {
			leakKind, inflKind = "over-return/capacity-lost", "over-return/capacity-raised"
		}
		got := 0
		for i := 0; i < n; i++ {
			if !ad.try() {
				break
			}
			got++
		}
		ok := true
		if got < n {
			m.viol(leakKind, fmt.Sprintf("%s (%s): at quiescence only %d of %d permits can be borrowed - capacity was lost", tag, m.prim, got, n),
				map[string]any{"obtained": got, "probe": tag})
			ok = false
		} else {
			if ad.try() {
				got++
				m.viol(inflKind, fmt.Sprintf("%s (%s): at quiescence a %d-th permit was granted by a limit of %d", tag, m.prim, n+1, n),
					map[string]any{"probe": tag})
				ok = false
			} else {
				m.c.Obs(m.prim+"_probe_refused_beyond_cap", 1)
				if ad.timed {
					d := kit.Choose(r, []time.Duration{0, time.Nanosecond, 20 * time.Microsecond, time.Millisecond})
					if err := ad.borrow(d); err == nil {
						got++
						m.viol(inflKind, fmt.Sprintf("%s: Borrow(%v) succeeded although all %d permits are out", tag, d, n), map[string]any{"probe": tag})
						ok = false
					} else if !errors.Is(err, syncx.ErrTimeout) {
						m.c.Obs("tlimit_borrow_other_error", 1)
					} else {
						m.c.Obs("tlimit_probe_borrow_timed_out_at_full", 1)
					}
				}
			}
		}
		for i := 0; i < got; i++ {
			if err := ad.ret(); err != nil {
				m.c.Obs(m.prim+"_return_error_for_held_permit", 1)
			}
		}
		return ok
	}
	if !round("capacity-after-history") {
		return
	}
	extra := r.Range(1, 3)
	for i := 0; i < extra; i++ {
		err := ad.ret()
		if err == nil {
			m.viol("over-return/not-reported", fmt.Sprintf("%s: Return with nothing borrowed returned nil (extra return %d)", m.prim, i+1), map[string]any{"phase": phase})
		} else if !errors.Is(err, syncx.ErrLimitReturn) {
			m.viol("over-return/other-error", fmt.Sprintf("%s: Return with nothing borrowed returned %v, not ErrLimitReturn", m.prim, err), map[string]any{"phase": phase})
		} else {
			m.c.Obs(m.prim+"_over_returns_reported", 1)
		}
	}
	round("capacity-after-over-return")
}
