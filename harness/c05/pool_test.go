package c05

import (
	"fmt"
	"runtime"
	"sync/atomic"
	"time"

	"github.com/zeromicro/go-zero/core/syncx"

	"verifharness/kit"
)

// res is a pooled resource with an owner flag (two simultaneous owners = violation).
type res struct {
	id        int64
	owner     atomic.Int64 // 0 = idle / in the pool, else 1+holder index
	destroyed atomic.Bool
	lastPut   atomic.Pointer[putRec]
}

// putRec brackets the virtual time at which one Put stamped the item.
type putRec struct {
	lo int64        // virtual clock read before Put was called
	hi atomic.Int64 // virtual clock read after Put returned (0 = not yet known)
}

// poolMon adds the create/destroy accounting to the region monitor.
type poolMon struct {
	*mon
	created    atomic.Int64
	destroyedN atomic.Int64
	nextID     atomic.Int64
}

// create only counts. "More than limit resources alive at a create" is NOT a verdict:
// the statement bounds the users holding a resource (the gauge and the owner flag decide
// that), not the number of objects in existence - an implementation may, for instance,
// un-count an expired resource before its destroy callback has run.
func (pm *poolMon) create() any {
	live := pm.created.Add(1) - pm.destroyedN.Load()
	if live > pm.n {
		pm.c.Obs(pm.prim+"_creates_with_more_than_limit_resources_alive", 1)
	}
	return &res{id: pm.nextID.Add(1)}
}

func (pm *poolMon) destroy(x any) {
	rs, ok := x.(*res)
	if !ok {
		return
	}
	if rs.destroyed.Swap(true) {
		pm.c.Obs("pool_double_destroy", 1)
	}
	if rs.owner.Load() != 0 {
		pm.c.Obs("pool_destroyed_while_owned", 1)
	}
	pm.destroyedN.Add(1)
}

// take wraps the checks made on every resource a Get hands out.
func (pm *poolMon) take(x any, who string, idx int) *res {
	rs, ok := x.(*res)
	if !ok || rs == nil {
		pm.viol("pool-foreign-resource", fmt.Sprintf("Get returned %v, which create never produced", x), map[string]any{"holder": who})
		return nil
	}
	if rs.destroyed.Load() {
		pm.viol("pool-destroyed-resource-handed-out", fmt.Sprintf("Get handed out resource %d after destroy was called for it", rs.id), map[string]any{"holder": who})
	}
	if !rs.owner.CompareAndSwap(0, int64(idx)+1) {
		pm.viol("pool-double-owner", fmt.Sprintf("resource %d handed to %s while holder #%d still owns it", rs.id, who, rs.owner.Load()-1),
			map[string]any{"holder": who, "resource": rs.id})
	}
	return rs
}

func (pm *poolMon) give(p *syncx.Pool, rs *res, clk *kit.VClock) {
	rs.owner.Store(0)
	if clk == nil {
		p.Put(rs)
		return
	}
	rec := &putRec{lo: int64(clk.Now())}
	rs.lastPut.Store(rec)
	p.Put(rs)
	rec.hi.Store(int64(clk.Now()))
}

type poolIter struct {
	H       hold          `json:"hold"`
	Panic   bool          `json:"panic,omitempty"`
	Advance time.Duration `json:"advance,omitempty"` // virtual time added while holding (age families)
}

type poolPlan struct {
	N        int           `json:"n"`
	G        int           `json:"goroutines"`
	Launch   string        `json:"launch"`
	MaxAge   time.Duration `json:"max_age,omitempty"`
	PanicPct int           `json:"panic_pct"`
	Iters    [][]poolIter  `json:"iterations"`
}

func genPoolPlan(r *kit.Rand, aged bool) (poolPlan, int) {
	n := pickN(r)
	g := pickG(r, n)
	lk := r.Pick(4, 2, 2, 2)
	p := poolPlan{N: n, G: g, Launch: launchNames[lk], PanicPct: kit.Choose(r, []int{0, 0, 5, 15, 40})}
	if aged {
		p.MaxAge = kit.Choose(r, []time.Duration{time.Nanosecond, time.Microsecond, time.Millisecond, time.Second, time.Hour})
	}
	for i := 0; i < g; i++ {
		its := make([]poolIter, r.Range(1, 4))
		for j := range its {
			its[j] = poolIter{H: genHold(r), Panic: r.Intn(100) < p.PanicPct}
			if aged && r.Chance(0.6) {
				its[j].Advance = ageStep(r, p.MaxAge)
			}
		}
		p.Iters = append(p.Iters, its)
	}
	return p, lk
}

func ageStep(r *kit.Rand, maxAge time.Duration) time.Duration {
	switch r.Pick(2, 2, 2, 2, 2, 1) {
	case 0:
		return 1
	case 1:
		return maxAge / 2
	case 2:
		return maxAge
	case 3:
		return maxAge + 1
	case 4:
		return 2*maxAge + time.Duration(r.Intn(5))
	default:
		return 0
	}
}

func poolConc(c *kit.Case, aged bool) {
	if skipAfterLeak(c, map[bool]string{false: "pool", true: "pool-age"}[aged]) {
		return
	}
	p, lk := genPoolPlan(c.R, aged)
	prim := "pool"
	var clk *kit.VClock
	if aged {
		prim = "pool-age"
		clk = kit.InstallVClock()
		defer kit.UninstallVClock()
	}
	pm := &poolMon{mon: newMon(c, prim, p.N, p)}
	m := pm.mon
	var opts []syncx.PoolOption
	if aged {
		opts = append(opts, syncx.WithMaxAge(p.MaxAge))
	}
	pool := syncx.NewPool(p.N, pm.create, pm.destroy, opts...)
	l := newLauncher(lk)
	for gi := range p.Iters {
		gi := gi
		its := p.Iters[gi]
		who := fmt.Sprintf("g%d", gi)
		a := m.actor()
		l.start(m, func() {
			for _, it := range its {
				it := it
				l.iteration(m, func() {
					var t0 int64
					if clk != nil {
						t0 = int64(clk.Now())
					}
					m.pending.Add(1)
					x := pool.Get()
					m.pending.Add(-1)
					m.acquired.Add(1)
					a.Rec("acq", who, nil, nil)
					rs := pm.take(x, who, gi)
					if rs == nil {
						m.released.Add(1)
						return
					}
					defer func() {
						pm.give(pool, rs, clk)
						m.released.Add(1)
					}()
					if clk != nil {
						pm.checkAge(rs, t0, p.MaxAge, who)
					}
					m.enter(a, who)
					defer m.exit(a, who)
					it.H.do(m)
					if it.Advance > 0 && clk != nil {
						clk.Advance(it.Advance)
					}
					if it.Panic {
						m.panics.Add(1)
						panic(verifPanic{who})
					}
				})
			}
		})
	}
	if m.await(l.done(), "the competing pool users") {
		phase := "after-normal-exits"
		if m.panics.Load() > 0 {
			phase = "after-holder-panics"
		}
		pm.probe(pool, p.N, phase, clk)
	}
	c.Obs(prim+"_creates", pm.created.Load())
	if d := pm.destroyedN.Load(); d > 0 {
		c.Obs(prim+"_expired_resources_destroyed", d)
	}
	m.finish(p.G, pm.created.Load(), pm.destroyedN.Load())
	if c.Index < 2 {
		c.Sample(prim+"-conc", 2, map[string]any{"plan": p, "max_holders_seen": m.g.Max(), "created": pm.created.Load(), "destroyed": pm.destroyedN.Load()})
	}
}

func poolConcCase(c *kit.Case)    { poolConc(c, false) }
func poolAgeConcCase(c *kit.Case) { poolConc(c, true) }

// checkAge: the item was certainly expired during the whole Get if even the latest
// possible stamp (clock after Put returned) plus maxAge lies before the earliest
// possible check (clock before Get was called).
func (pm *poolMon) checkAge(rs *res, getInvokedAt int64, maxAge time.Duration, who string) {
	rec := rs.lastPut.Load()
	if rec == nil {
		return // freshly created
	}
	hi := rec.hi.Load()
	if hi == 0 {
		pm.c.Obs("pool-age_put_bracket_unknown", 1)
		return
	}
	pm.c.Obs("pool-age_idle_resources_handed_out_age_checked", 1)
	if hi+int64(maxAge) < getInvokedAt {
		pm.viol("pool-expired-resource-handed-out", fmt.Sprintf("resource %d was put back no later than t=%d, max age %v, and handed out by a Get invoked at t=%d (idle for at least %v)",
			rs.id, hi, maxAge, getInvokedAt, time.Duration(getInvokedAt-hi)), map[string]any{"holder": who})
	}
}

// probe: at quiescence n Gets must succeed without blocking, all on distinct live
// resources; an (n+1)-th Get must not return before something is put back.
func (pm *poolMon) probe(pool *syncx.Pool, n int, phase string, clk *kit.VClock) {
	m := pm.mon
	m.probeObs()
	got := make([]*res, 0, n)
	done := make(chan struct{})
	m.running.Add(1)
	go func() {
		defer close(done)
		defer m.running.Add(-1)
		for i := 0; i < n; i++ {
			m.pending.Add(1)
			x := pool.Get()
			m.pending.Add(-1)
			m.acquired.Add(1)
			if rs := pm.take(x, fmt.Sprintf("probe%d", i), 1000+i); rs != nil {
				got = append(got, rs)
			}
		}
	}()
	if !m.await(done, "quiescence probe ("+phase+"): "+fmt.Sprint(n)+" Gets with nothing held") {
		return
	}
	var extraDone atomic.Bool
	extra := make(chan any, 1)
	go probeExtraGet(pool, &extraDone, extra)
	for i := 0; i < 100; i++ {
		runtime.Gosched()
	}
	if extraDone.Load() {
		m.viol("inflated/"+phase, fmt.Sprintf("pool of %d: an (n+1)-th Get returned while %d resources are held and nothing was put back", n, len(got)), nil)
	} else {
		m.c.Obs(m.prim+"_probe_extra_get_still_blocked_before_put", 1)
	}
	for _, rs := range got {
		pm.give(pool, rs, clk)
		m.released.Add(1)
	}
	taken := func(x any) {
		if rs, ok := x.(*res); ok {
			pm.give(pool, rs, clk)
		}
	}
	select {
	case x := <-extra:
		taken(x)
		return
	case <-time.After(patience()):
		patienceExpired()
	}
	// all n resources are idle again and nobody else uses the pool: a Get that is still
	// parked (consecutive dumps) can never be served - the capacity is not available to it
	t0 := time.Now()
	parked := 0
	for time.Since(t0) < caseWatchdog {
		select {
		case x := <-extra:
			taken(x)
			return
		case <-time.After(stuckEvery):
		}
		if goroutineParked("c05.probeExtraGet") {
			parked++
		} else {
			parked = 0
		}
		if parked >= stuckSamples {
			m.viol("leak/blocked-get-not-served-after-put", fmt.Sprintf("pool of %d: a Get that blocked while all %d resources were held is still parked after all of them were put back and nobody else uses the pool (%s)", n, n, phase),
				map[string]any{"goroutines": stacksBrief()})
			leakVerdict(m.prim)
			return
		}
	}
	m.c.Inconclusive("pool probe: the (n+1)-th Get did not return after everything was put back")
}

func probeExtraGet(pool *syncx.Pool, done *atomic.Bool, out chan<- any) {
	x := pool.Get()
	done.Store(true)
	out <- x
}
