package c05

import (
	"fmt"
	"strings"
	"sync/atomic"
	"time"

	"github.com/zeromicro/go-zero/core/syncx"

	"verifharness/kit"
)

// poolAgeSeqCase: one goroutine drives Get / Put / Advance sequences on a Pool
// with a max age under the virtual clock (installed only in the pool-age
// families). Asserted: a resource handed out was idle for at most maxAge, was not
// destroyed, is not owned; a Get with
// fewer than n resources out never blocks (expired idle resources do not count
// against the limit) - decided by the stable-block rule, the sequence being the
// only goroutine that could ever put something back.
func poolAgeSeqCase(c *kit.Case) {
	const seqs = 40
	c.Evals(seqs)
	clk := kit.InstallVClock()
	defer kit.UninstallVClock()
	r := c.R
	for s := 0; s < seqs; s++ {
		if skipAfterLeak(c, "pool-age") {
			return
		}
		n := pickN(r)
		maxAge := kit.Choose(r, []time.Duration{time.Nanosecond, 7 * time.Nanosecond, time.Millisecond, time.Second, time.Hour})
		L := r.Range(6, 80)
		type step struct {
			op  byte // G P A
			arg int64
		}
		steps := make([]step, L)
		for i := range steps {
			switch r.Pick(5, 5, 4) {
			case 0:
				steps[i] = step{'G', 0}
			case 1:
				steps[i] = step{'P', int64(r.Intn(1 << 20))}
			default:
				steps[i] = step{'A', int64(ageStep(r, maxAge))}
			}
		}
		var sb strings.Builder
		for _, st := range steps {
			if st.op == 'A' {
				fmt.Fprintf(&sb, "A%d ", st.arg)
			} else {
				sb.WriteByte(st.op)
				sb.WriteByte(' ')
			}
		}
		plan := map[string]any{"n": n, "max_age_ns": int64(maxAge), "ops": sb.String()}
		pm := &poolMon{mon: newMon(c, "pool-age", n, plan)}
		m := pm.mon
		pool := syncx.NewPool(n, pm.create, pm.destroy, syncx.WithMaxAge(maxAge))

		type idleRec struct {
			rs *res
			at int64
		}
		var idle []idleRec
		var held []*res
		var expiredSeen atomic.Bool
		done := make(chan struct{})
		m.running.Add(1)
		go func() {
			defer close(done)
			defer m.running.Add(-1)
			for i, st := range steps {
				switch st.op {
				case 'A':
					clk.Advance(time.Duration(st.arg))
				case 'P':
					if len(held) == 0 {
						continue
					}
					k := int(st.arg) % len(held)
					rs := held[k]
					held = append(held[:k], held[k+1:]...)
					at := int64(clk.Now())
					pm.give(pool, rs, clk)
					m.released.Add(1)
					idle = append(idle, idleRec{rs, at})
				case 'G':
					if len(held) >= n {
						continue // would legitimately block
					}
					now := int64(clk.Now())
					for _, ir := range idle {
						if now-ir.at > int64(maxAge) {
							expiredSeen.Store(true)
						}
					}
					m.pending.Add(1)
					x := pool.Get()
					m.pending.Add(-1)
					m.acquired.Add(1)
					rs := pm.take(x, fmt.Sprintf("step%d", i), i)
					if rs == nil {
						m.released.Add(1)
						continue
					}
					held = append(held, rs)
					keep := idle[:0]
					for _, ir := range idle {
						switch {
						case ir.rs == rs:
							c.Obs("pool-age_idle_resources_handed_out_age_checked", 1)
							if now-ir.at > int64(maxAge) {
								pm.viol("pool-expired-resource-handed-out", fmt.Sprintf("step %d: Get at t=%d handed out resource %d put back at t=%d (idle %v > max age %v)",
									i, now, rs.id, ir.at, time.Duration(now-ir.at), maxAge), map[string]any{"step": i})
							}
						case ir.rs.destroyed.Load():
							if now-ir.at <= int64(maxAge) {
								c.Obs("pool-age_unexpired_idle_resource_destroyed", 1)
							}
						default:
							keep = append(keep, ir)
						}
					}
					idle = keep
				}
			}
			for _, rs := range held {
				pm.give(pool, rs, clk)
				m.released.Add(1)
			}
			held = nil
		}()
		if m.await(done, "sequential Get/Put/Advance history") {
			if r.Bool() {
				clk.Advance(ageStep(r, maxAge))
			}
			pm.probe(pool, n, "after-sequential-aged-history", clk)
		}
		c.Obs("pool-age_creates", pm.created.Load())
		if d := pm.destroyedN.Load(); d > 0 {
			c.Obs("pool-age_expired_resources_destroyed", d)
		}
		m.mu.Lock()
		vs := m.viols
		m.mu.Unlock()
		for _, v := range vs {
			c.Viol(v.key, v.what, v.witness)
		}
		nontrivial := expiredSeen.Load() && pm.destroyedN.Load() > 0
		c.Sig(nontrivial, "pool-age-seq", n, int64(maxAge), sb.String())
		if s == 0 && c.Index < 2 {
			c.Sample("pool-age-seq", 2, map[string]any{"plan": plan, "created": pm.created.Load(), "destroyed": pm.destroyedN.Load()})
		}
	}
}
