package c05

import (
	"errors"
	"fmt"
	"strings"
	"sync/atomic"
	"time"

	"github.com/zeromicro/go-zero/core/syncx"

	"verifharness/kit"
)

// ---------------------------------------------------------------- sequential model

// One goroutine, random TryBorrow / Borrow / Return sequences against a counter
// model. Only necessary conditions are asserted while the sequence runs:
// admitted at held==n, Return()==nil at held==0; a refusal below the cap or an
// error for a held permit is counted and ends the in-sequence assertions (the
// model no longer knows the real state). Every sequence ends at quiescence with
// the capacity probe.
func seqBatch(c *kit.Case, timed bool, seqs int) {
	r := c.R
	c.Evals(int64(seqs))
	for s := 0; s < seqs; s++ {
		if skipAfterLeak(c, map[bool]string{false: "limit", true: "tlimit"}[timed]) {
			return
		}
		n := pickN(r)
		var ad limAdapter
		if timed {
			ad = adaptTimeoutLimit(n)
		} else {
			ad = adaptLimit(n)
		}
		L := r.Range(4, 60)
		ops := make([]string, 0, L)
		m := newMon(c, ad.name, n, nil)
		held, desync, nontrivial := 0, false, false
		fail := func(kind, what string) {
			m.plan = map[string]any{"n": n, "ops": strings.Join(ops, " ")}
			m.viol(kind, what, map[string]any{"op_index": len(ops) - 1, "model_held": held})
		}
		for i := 0; i < L && !desync; i++ {
			switch r.Pick(5, 3, 5) {
			case 0: // TryBorrow
				ops = append(ops, "T")
				ok := ad.try()
				if ok && held == n {
					fail("seq/admitted-beyond-cap", fmt.Sprintf("TryBorrow returned true with %d of %d permits out", held, n))
					desync = true
				} else if !ok && held < n {
					c.Obs(ad.name+"_seq_refused_below_cap", 1)
					desync = true
				} else if ok {
					held++
				} else {
					nontrivial = true
					c.Obs(ad.name+"_seq_refused_at_cap", 1)
				}
			case 1: // blocking Borrow; for Limit only when the model says it cannot block
				if !timed {
					if held == n {
						continue
					}
					ops = append(ops, "B")
					if !borrowWatched(ad) {
						// one goroutine, fewer than n permits out by the model, nobody else can ever
						// return one: a Borrow parked in its channel send is blocked for good
						leakVerdict(ad.name)
						fail("seq/borrow-blocked-below-cap", fmt.Sprintf("blocking Borrow is parked although only %d of %d permits are out in a sequential history - capacity was lost", held, n))
						desync = true
						continue
					}
					held++
					continue
				}
				d := kit.Choose(r, []time.Duration{-time.Second, 0, time.Nanosecond, 5 * time.Microsecond, 300 * time.Microsecond})
				if held < n && r.Chance(0.5) {
					d = 2 * time.Second
				}
				ops = append(ops, fmt.Sprintf("B(%v)", d))
				err := ad.borrow(d)
				switch {
				case err == nil && held == n:
					fail("seq/admitted-beyond-cap", fmt.Sprintf("Borrow(%v) returned nil with %d of %d permits out", d, held, n))
					desync = true
				case err == nil:
					held++
				case held < n:
					c.Obs(ad.name+"_seq_refused_below_cap", 1)
					desync = true
				default:
					nontrivial = true
					c.Obs(ad.name+"_seq_borrow_timed_out_at_cap", 1)
					if !errors.Is(err, syncx.ErrTimeout) {
						c.Obs("tlimit_borrow_other_error", 1)
					}
				}
			default: // Return
				ops = append(ops, "R")
				err := ad.ret()
				if held == 0 {
					nontrivial = true
					if err == nil {
						fail("seq/over-return-not-reported", "Return returned nil although nothing is borrowed")
						desync = true
					} else if !errors.Is(err, syncx.ErrLimitReturn) {
						fail("seq/over-return-other-error", fmt.Sprintf("Return with nothing borrowed returned %v, not ErrLimitReturn", err))
					} else {
						c.Obs(ad.name+"_over_returns_reported", 1)
					}
				} else if err != nil {
					c.Obs(ad.name+"_return_error_for_held_permit", 1)
					desync = true
				} else {
					held--
				}
			}
		}
		// bring the limit to quiescence: give back what the model holds
		if !desync {
			for ; held > 0; held-- {
				ops = append(ops, "R")
				if err := ad.ret(); err != nil {
					c.Obs(ad.name+"_return_error_for_held_permit", 1)
				}
			}
			m.plan = map[string]any{"n": n, "ops": strings.Join(ops, " ")}
			probeLimit(m, ad, n, r, "after-sequential-history")
		}
		m.mu.Lock()
		vs := m.viols
		m.mu.Unlock()
		for _, v := range vs {
			c.Viol(v.key, v.what, v.witness)
		}
		c.Sig(nontrivial, ad.name+"-seq", n, strings.Join(ops, ""))
		if s == 0 && c.Index < 2 {
			c.Sample(ad.name+"-seq", 2, map[string]any{"n": n, "ops": strings.Join(ops, " "), "nontrivial": nontrivial})
		}
	}
}

// borrowWatched runs the blocking Borrow of a sequential history. It returns false
// only if the call is parked (goroutine state, consecutive dumps)
// after a generous patience: with no other goroutine able to return a permit that
// state is permanent. A goroutine that is merely slow keeps being waited for.
func borrowWatched(ad limAdapter) bool {
	done := make(chan struct{})
	go func() {
		defer close(done)
		ad.borrow(0)
	}()
	select {
	case <-done:
		return true
	case <-time.After(patience()):
		patienceExpired()
	}
	parked := 0
	for {
		select {
		case <-done:
			return true
		case <-time.After(stuckEvery):
		}
		if goroutineParked("c05.borrowWatched.func1") {
			parked++
		} else {
			parked = 0
		}
		if parked >= stuckSamples {
			return false
		}
	}
}

// goroutineParked reports whether a goroutine whose stack contains fn exists and is
// parked (not runnable / running / in a syscall).
func goroutineParked(fn string) bool {
	for _, blk := range strings.Split(stacks(), "\n\n") {
		if strings.Contains(blk, fn) {
			hdr := blk
			if i := strings.IndexByte(blk, '\n'); i >= 0 {
				hdr = blk[:i]
			}
			if !strings.Contains(hdr, "[runnable") && !strings.Contains(hdr, "[running") && !strings.Contains(hdr, "[syscall") {
				return true
			}
		}
	}
	return false
}

func limitSeqCase(c *kit.Case)  { seqBatch(c, false, 200) }
func tlimitSeqCase(c *kit.Case) { seqBatch(c, true, 40) }

// ---------------------------------------------------------------- concurrent holders

type limIter struct {
	Acq   string        `json:"acq"` // try | borrow | borrow(timeout)
	D     time.Duration `json:"timeout,omitempty"`
	H     hold          `json:"hold"`
	Panic bool          `json:"panic,omitempty"`
}

type limPlan struct {
	Prim     string      `json:"primitive"`
	N        int         `json:"n"`
	G        int         `json:"goroutines"`
	Launch   string      `json:"launch"`
	PanicPct int         `json:"panic_pct"`
	Iters    [][]limIter `json:"iterations"`
}

func genLimPlan(r *kit.Rand, timed bool) (limPlan, int) {
	n := pickN(r)
	g := pickG(r, n)
	lk := r.Pick(4, 2, 2, 2)
	p := limPlan{N: n, G: g, Launch: launchNames[lk], Prim: "limit"}
	if timed {
		p.Prim = "tlimit"
	}
	p.PanicPct = kit.Choose(r, []int{0, 0, 5, 15, 40})
	tryPct := kit.Choose(r, []int{0, 20, 50, 100})
	for i := 0; i < g; i++ {
		k := r.Range(1, 4)
		its := make([]limIter, k)
		for j := range its {
			it := limIter{H: genHold(r), Panic: r.Intn(100) < p.PanicPct}
			switch {
			case r.Intn(100) < tryPct:
				it.Acq = "try"
			case timed:
				it.Acq = "borrow(timeout)"
				if r.Bool() {
					it.D = kit.Choose(r, []time.Duration{0, time.Nanosecond, time.Microsecond, 20 * time.Microsecond, 200 * time.Microsecond, 2 * time.Millisecond})
				} else {
					it.D = 2 * time.Second
				}
			default:
				it.Acq = "borrow"
			}
			its[j] = it
		}
		p.Iters = append(p.Iters, its)
	}
	return p, lk
}

func limConc(c *kit.Case, timed bool) {
	if skipAfterLeak(c, map[bool]string{false: "limit", true: "tlimit"}[timed]) {
		return
	}
	p, lk := genLimPlan(c.R, timed)
	var ad limAdapter
	if timed {
		ad = adaptTimeoutLimit(p.N)
	} else {
		ad = adaptLimit(p.N)
	}
	m := newMon(c, ad.name, p.N, p)
	l := newLauncher(lk)
	for gi := range p.Iters {
		its := p.Iters[gi]
		who := fmt.Sprintf("g%d", gi)
		a := m.actor()
		l.start(m, func() {
			for _, it := range its {
				it := it
				l.iteration(m, func() {
					switch it.Acq {
					case "try":
						if !ad.try() {
							a.Rec("refused", who, nil, nil)
							m.refused.Add(1)
							return
						}
					case "borrow":
						m.pending.Add(1)
						ad.borrow(0)
						m.pending.Add(-1)
					default:
						if err := ad.borrow(it.D); err != nil {
							a.Rec("timeout", who, nil, nil)
							m.timeouts.Add(1)
							if !errors.Is(err, syncx.ErrTimeout) {
								m.c.Obs("tlimit_borrow_other_error", 1)
							}
							return
						}
					}
					a.Rec("acq", who, nil, nil)
					m.acquired.Add(1)
					defer func() {
						err := ad.ret()
						m.released.Add(1)
						if err != nil {
							m.c.Obs(ad.name+"_return_error_for_held_permit", 1)
						}
					}()
					m.enter(a, who)
					defer m.exit(a, who)
					it.H.do(m)
					if it.Panic {
						m.panics.Add(1)
						panic(verifPanic{who})
					}
				})
			}
		})
	}
	if m.await(l.done(), "the competing holders") {
		phase := "after-normal-exits"
		if m.panics.Load() > 0 {
			phase = "after-holder-panics"
		} else if m.timeouts.Load() > 0 {
			phase = "after-borrow-timeouts"
		}
		probeLimit(m, ad, p.N, c.R, phase)
	}
	m.finish(p.G)
	if c.Index < 2 {
		c.Sample(ad.name+"-conc", 2, map[string]any{"plan": p, "max_holders_seen": m.g.Max(), "refusals": m.refused.Load(), "timeouts": m.timeouts.Load()})
	}
}

func limitConcCase(c *kit.Case)  { limConc(c, false) }
func tlimitConcCase(c *kit.Case) { limConc(c, true) }

// ---------------------------------------------------------------- concurrent over-return

// h permits are out (nobody is inside a region), then h+k goroutines call Return
// at once: at most h of them may succeed, the capacity afterwards is exactly n.
func limitOverReturnCase(c *kit.Case) {
	r := c.R
	n := pickN(r)
	timed := r.Chance(0.4)
	var ad limAdapter
	if timed {
		ad = adaptTimeoutLimit(n)
	} else {
		ad = adaptLimit(n)
	}
	h := r.Range(0, n)
	k := r.Range(1, 8)
	plan := map[string]any{"primitive": ad.name, "n": n, "held_before": h, "returns": h + k}
	m := newMon(c, ad.name, n, plan)
	if skipAfterLeak(c, ad.name+"/over-return-race") {
		return
	}
	for i := 0; i < h; i++ {
		if r.Bool() {
			ad.borrow(time.Second)
		} else if !ad.try() {
			c.Obs(ad.name+"_seq_refused_below_cap", 1)
			m.finish()
			return
		}
	}
	// every Return has to return: one that does not is decided by state (orrAwait, ext_test.go),
	// not by sitting out the watchdog
	start := make(chan struct{})
	var nils, errs, other = new(int64), new(int64), new(int64)
	res := make([]error, h+k)
	var ready, done atomic.Int64
	for i := 0; i < h+k; i++ {
		go func(i int) {
			<-start
			orrReturner(ad.ret, &ready, &done, 0, &res[i])
		}(i)
	}
	close(start)
	switch orrAwait(&done, int64(h+k)) {
	case "watchdog":
		c.Inconclusive(fmt.Sprintf("%s: concurrent Returns did not finish within %v and no stable state was reached", ad.name, caseWatchdog))
		m.finish()
		return
	case "blocked":
		d := done.Load()
		stuck := int(int64(h+k) - d)
		m.viol("over-return/return-blocks", fmt.Sprintf("%s of %d with %d permits out and %d concurrent Returns: %d returned, %d are parked inside Return although nobody else uses the limit (identical state in %d consecutive dumps) - an excess Return has to report ErrLimitReturn, it must not wait for the next borrower",
			ad.name, n, h, h+k, d, stuck, stuckSamples), map[string]any{"returned": d, "parked_in_return": stuck, "goroutines": stacksBrief()})
		leakVerdict(ad.name + "/over-return-race")
		for i := 0; i < stuck; i++ {
			ad.try() // wakes a parked Return (which takes the permit away again)
		}
		waitUntil(func() bool { return done.Load() == int64(h+k) }, 20*time.Second)
		m.finish()
		return
	}
	for _, e := range res {
		switch {
		case e == nil:
			*nils++
		case errors.Is(e, syncx.ErrLimitReturn):
			*errs++
		default:
			*other++
		}
	}
	c.Obs(ad.name+"_concurrent_over_returns_reported", *errs)
	if int(*nils) > h {
		m.viol("over-return/not-reported", fmt.Sprintf("%d permits were out, %d concurrent Returns: %d returned nil", h, h+k, *nils),
			map[string]any{"nil": *nils, "ErrLimitReturn": *errs, "other": *other})
	}
	if *other > 0 {
		m.viol("over-return/other-error", "a Return beyond the borrowed permits returned an error that is not ErrLimitReturn", map[string]any{"other": *other})
	}
	probeLimit(m, ad, n, r, "after-concurrent-over-return")
	m.finish()
	c.Sig(true, "over-return", ad.name, n, h, k)
}
