package c05

import (
	"errors"
	"fmt"
	"runtime"
	"strings"
	"sync"
	"sync/atomic"
	"time"

	"github.com/zeromicro/go-zero/core/fx"
	"github.com/zeromicro/go-zero/core/mr"

	"verifharness/kit"
)

// ---------------------------------------------------------------- worker pipelines (mr / fx)
//
// The guarded region of a worker pool is the caller-supplied function (mapper /
// WalkFunc / ParallelFunc / MapFunc / FilterFunc): at most `workers` invocations
// may be inside at once. The harness generator feeds K items with generated holds
// and panics. "Full capacity available again after all holders have finished" is
// decided causally inside the same call (every call owns a fresh pool): after all
// K regular items have LEFT the region the generator feeds n barrier items that
// stay inside until n of them are inside together. If that happens the full
// capacity was available. If it does not happen the decision is a stable-state
// one (nothing moved in consecutive samples, nobody but waiting barrier items is
// inside, the generator cannot hand over its next item).

type pipeItem struct {
	H      hold `json:"hold"`
	Panic  bool `json:"panic,omitempty"`
	Cancel bool `json:"cancel,omitempty"` // mr only: the mapper calls cancel(err) inside the region
	Writes int  `json:"writes,omitempty"` // outputs written inside the region
}

type pipePlan struct {
	Prim     string     `json:"primitive"`
	API      string     `json:"api"`
	N        int        `json:"workers"`
	PanicPct int        `json:"panic_pct"`
	Barrier  bool       `json:"barrier"`
	Items    []pipeItem `json:"items"`
	// the extension families (fx-options / mr-options): the worker option actually passed, when it is
	// not WithWorkers(N); N is then the capacity the option stands for (see fxOptsCase / mrOptsCase)
	Opt   string `json:"option,omitempty"`
	Class string `json:"-"`
	// fx-options: the worker-limited stage sits in a longer pipeline
	Up   string `json:"upstream_stage,omitempty"`
	Term string `json:"terminal,omitempty"`
}

var errVerifCancel = errors.New("verif-cancel")

type pipe struct {
	m *mon
	p pipePlan
	k int

	actors    []*kit.Actor
	exited    atomic.Int64 // regular items that left the region
	barrierIn atomic.Int64
	emitted   atomic.Int64
	genDone   atomic.Bool
	full      chan struct{}
	fullOnce  sync.Once
	abort     chan struct{}
	abortOnce sync.Once

	// bodies that start after the history was sealed do nothing (mr may start a
	// mapper after the call already returned by panic / cancel)
	sealed atomic.Bool
	live   atomic.Int64
}

func newPipe(c *kit.Case, p pipePlan) *pipe {
	pp := &pipe{m: newMon(c, p.Prim, p.N, p), p: p, k: len(p.Items), full: make(chan struct{}), abort: make(chan struct{})}
	pp.m.class = p.Class
	total := pp.k
	if p.Barrier {
		total += p.N
	}
	pp.actors = make([]*kit.Actor, total)
	for i := range pp.actors {
		pp.actors[i] = pp.m.actor()
	}
	return pp
}

func (pp *pipe) doAbort() { pp.abortOnce.Do(func() { close(pp.abort) }) }

// gen is the generator body; emit hands one item index to go-zero (false = aborted).
func (pp *pipe) gen(emit func(int) bool) {
	defer pp.genDone.Store(true)
	for i := 0; i < pp.k; i++ {
		if !emit(i) {
			return
		}
		pp.emitted.Add(1)
	}
	if !pp.p.Barrier {
		return
	}
	// all regular holders must have finished before the capacity is probed
	for i := 0; pp.exited.Load() < int64(pp.k); i++ {
		select {
		case <-pp.abort:
			return
		default:
		}
		if i < 100 {
			runtime.Gosched()
		} else {
			time.Sleep(50 * time.Microsecond)
		}
	}
	for b := 0; b < pp.p.N; b++ {
		if !emit(pp.k + b) {
			return
		}
		pp.emitted.Add(1)
	}
}

// body is the worker function. inside (optional) runs inside the region after the
// hold (writes to the output / cancel).
func (pp *pipe) body(idx int, inside func(it pipeItem)) {
	pp.live.Add(1)
	defer pp.live.Add(-1)
	if pp.sealed.Load() || idx < 0 || idx >= len(pp.actors) {
		return
	}
	m := pp.m
	a := pp.actors[idx]
	if idx >= pp.k { // barrier item
		who := fmt.Sprintf("barrier%d", idx-pp.k)
		m.enter(a, who)
		defer m.exit(a, who)
		if pp.barrierIn.Add(1) >= m.n {
			pp.fullOnce.Do(func() { close(pp.full) })
		}
		select {
		case <-pp.full:
		case <-pp.abort:
		}
		return
	}
	it := pp.p.Items[idx]
	who := fmt.Sprintf("item%d", idx)
	m.acquired.Add(1)
	defer pp.exited.Add(1)
	defer m.released.Add(1)
	m.enter(a, who)
	defer m.exit(a, who)
	it.H.do(m)
	if inside != nil {
		inside(it)
	}
	if it.Panic {
		m.panics.Add(1)
		panic(verifPanic{who})
	}
}

// run executes invoke (the go-zero call) and decides the history.
func (pp *pipe) run(invoke func()) {
	m := pp.m
	c := m.c
	done := make(chan struct{})
	var pv any
	go func() {
		defer close(done)
		defer func() { pv = recover() }()
		invoke()
	}()
	returned := pp.await(done)
	if returned {
		if pv != nil {
			if _, ok := pv.(verifPanic); ok {
				c.Obs(m.prim+"_calls_ended_by_the_holder_panic", 1)
			} else {
				// e.g. a runtime error raised inside mr (C10's matter), only counted here
				c.Obs(m.prim+"_calls_ended_by_another_panic", 1)
				if pp.p.Class != "" {
					// extension families: a worker option outside "capacity n >= 1" (or none at all)
					// - the statement is silent there except that the call must not blow up
					m.viol("panic/"+pp.p.Class, fmt.Sprintf("%s %s with option %s panicked: %v", m.prim, pp.p.API, pp.p.Opt, pv), nil)
				}
			}
		}
		if pp.p.Barrier {
			if pp.barrierIn.Load() == m.n {
				c.Obs(m.prim+"_full_capacity_proven_after_all_holders_left", 1)
				if m.panics.Load() > 0 {
					c.Obs(m.prim+"_full_capacity_proven_after_holder_panics", 1)
				}
			} else if !c.Violated() {
				c.Obs(m.prim+"_call_returned_without_running_the_barrier", 1)
			}
		}
	}
	// quiescence of the harness side: generator returned, nobody inside; then seal
	waitUntil(func() bool { return pp.genDone.Load() && m.g.Cur() == 0 }, 20*time.Second)
	pp.doAbort()
	pp.sealed.Store(true)
	if !waitUntil(func() bool { return pp.live.Load() == 0 }, 20*time.Second) {
		// a body is still running: its recorder must not be read
		c.Inconclusive(m.prim + ": a worker function was still running after the call ended; history not evaluated")
		return
	}
	c.Obs(m.prim+"_items_processed", pp.exited.Load())
	m.finish(pp.p.API, pp.k)
}

// await waits for the call to return. Stable-state decision otherwise, see above.
func (pp *pipe) await(done <-chan struct{}) bool {
	m := pp.m
	t0 := time.Now()
	select {
	case <-done:
		return true
	case <-time.After(patience()):
		patienceExpired()
	}
	type snap struct{ st, ent, ex, bar, in, em int64 }
	take := func() snap {
		return snap{int64(kit.Stamp()), m.enters.Load(), pp.exited.Load(), pp.barrierIn.Load(), m.g.Cur(), pp.emitted.Load()}
	}
	prev, same := take(), 0
	decided := false
	for time.Since(t0) < caseWatchdog && !decided {
		select {
		case <-done:
			m.c.Obs("slow_histories_that_still_completed", 1)
			return true
		case <-time.After(stuckEvery):
		}
		cur := take()
		if cur.st == prev.st+1 && cur.ent == prev.ent && cur.ex == prev.ex && cur.bar == prev.bar && cur.in == prev.in && cur.em == prev.em && !harnessGoroutineRunnable() {
			same++
		} else {
			same = 0
		}
		prev = cur
		if same < stuckSamples {
			continue
		}
		decided = true
		if pp.p.Barrier && cur.in == cur.bar && cur.bar < m.n {
			leakVerdict(m.prim)
			phase := "after-normal-exits"
			if m.panics.Load() > 0 {
				phase = "after-holder-panics"
			}
			m.viol("leak/"+phase, fmt.Sprintf("%s %s with %d workers: %d of %d regular items have left the region (%d panicked), nobody else is inside, yet only %d of %d further items are admitted together (%d items handed over so far); nothing moved in %d consecutive samples - worker capacity was lost",
				m.prim, pp.p.API, m.n, cur.ex, pp.k, m.panics.Load(), cur.bar, m.n, cur.em, stuckSamples),
				map[string]any{"items_left_region": cur.ex, "barrier_items_inside": cur.bar, "items_handed_over": cur.em, "goroutines": stacksBrief()})
		} else {
			m.c.Inconclusive(fmt.Sprintf("%s %s: the call did not return and the state is stable (entered %d, left %d, inside %d, handed over %d) - not a capacity question this monitor can decide", m.prim, pp.p.API, cur.ent, cur.ex, cur.in, cur.em))
		}
	}
	if !decided {
		m.c.Inconclusive(fmt.Sprintf("%s %s: the call did not return within %v and no stable state was reached", m.prim, pp.p.API, caseWatchdog))
	}
	pp.doAbort()
	select {
	case <-done:
		return true
	case <-time.After(3 * time.Second):
		return false
	}
}

func genPipePlan(r *kit.Rand, prim string, apis []string) pipePlan {
	n := pickN(r)
	k := kit.Choose(r, []int{n, 2 * n, 8 * n, 64})
	if k > 64 {
		k = 64
	}
	p := pipePlan{Prim: prim, API: kit.Choose(r, apis), N: n, PanicPct: kit.Choose(r, []int{0, 0, 5, 15, 40}), Barrier: true}
	cancelPct := 0
	isMr := strings.HasPrefix(prim, "mr")
	if isMr && p.API != "ForEach" && r.Chance(0.2) {
		cancelPct = kit.Choose(r, []int{3, 10})
	}
	for i := 0; i < k; i++ {
		it := pipeItem{H: genHold(r), Panic: r.Intn(100) < p.PanicPct, Cancel: r.Intn(100) < cancelPct}
		if r.Chance(0.5) {
			it.Writes = r.Range(1, 2)
		}
		if isMr && (it.Panic || it.Cancel) {
			p.Barrier = false // the call ends at the first panic / cancel: no quiescence inside the call
		}
		p.Items = append(p.Items, it)
	}
	return p
}

// ---------------------------------------------------------------- mr

func mrCase(c *kit.Case) {
	if skipAfterLeak(c, "mr") {
		return
	}
	p := genPipePlan(c.R, "mr", mrAPIs)
	mrDrive(c, p, []mr.Option{mr.WithWorkers(p.N)})
}

var mrAPIs = []string{"ForEach", "MapReduce", "MapReduceVoid", "MapReduceChan"}

// mrDrive runs one generated plan through the mr API it names, with the given options.
func mrDrive(c *kit.Case, p pipePlan, opts []mr.Option) {
	pp := newPipe(c, p)
	generate := func(source chan<- int) {
		pp.gen(func(i int) bool {
			select {
			case source <- i:
				return true
			case <-pp.abort:
				return false
			}
		})
	}
	mapper := func(i int, w mr.Writer[int], cancel func(error)) {
		pp.body(i, func(it pipeItem) {
			for k := 0; k < it.Writes; k++ {
				w.Write(i)
			}
			if it.Cancel {
				cancel(errVerifCancel)
			}
		})
	}
	reducer := func(pipe <-chan int, w mr.Writer[int], cancel func(error)) {
		cnt := 0
		for range pipe {
			cnt++
		}
		w.Write(cnt)
	}
	if p.API == "Finish" || p.API == "FinishVoid" {
		pp.genDone.Store(true) // Finish owns the generator: the functions ARE the items
	}
	pp.run(func() {
		var err error
		switch p.API {
		case "Finish":
			fns := make([]func() error, len(p.Items))
			for i := range fns {
				i := i
				fns[i] = func() (e error) {
					pp.body(i, func(it pipeItem) {
						if it.Cancel {
							e = errVerifCancel
						}
					})
					return
				}
			}
			err = mr.Finish(fns...)
		case "FinishVoid":
			fns := make([]func(), len(p.Items))
			for i := range fns {
				i := i
				fns[i] = func() { pp.body(i, nil) }
			}
			mr.FinishVoid(fns...)
		case "ForEach":
			mr.ForEach(generate, func(i int) { pp.body(i, nil) }, opts...)
		case "MapReduce":
			_, err = mr.MapReduce(generate, mapper, reducer, opts...)
		case "MapReduceVoid":
			err = mr.MapReduceVoid(generate, mapper, func(pipe <-chan int, cancel func(error)) {
				for range pipe {
				}
			}, opts...)
		default:
			source := make(chan int)
			go func() {
				defer close(source)
				generate(source)
			}()
			_, err = mr.MapReduceChan(source, mapper, reducer, opts...)
		}
		if err != nil {
			c.Obs(p.Prim+"_calls_ended_with_an_error", 1)
		}
	})
	if c.Index < 2 {
		c.Sample(p.Prim, 2, map[string]any{"plan": p, "max_mappers_inside_seen": pp.m.g.Max(), "items_processed": pp.exited.Load()})
	}
}

// ---------------------------------------------------------------- fx

func fxCase(c *kit.Case) {
	if skipAfterLeak(c, "fx") {
		return
	}
	p := genPipePlan(c.R, "fx", fxAPIs)
	fxDrive(c, p, []fx.Option{fx.WithWorkers(p.N)})
}

var fxAPIs = []string{"Walk", "Parallel", "Map", "Filter"}

// fxDrive runs one generated plan through the fx stage it names, with the given options.
func fxDrive(c *kit.Case, p pipePlan, opts []fx.Option) {
	pp := newPipe(c, p)
	src := func() fx.Stream {
		return fx.From(func(source chan<- any) {
			pp.gen(func(i int) bool {
				select {
				case source <- i:
					return true
				case <-pp.abort:
					return false
				}
			})
		})
	}
	// an unrelated stream stage run earlier in the same process with other worker options must not
	// change the cap of this one (options are per call, not process state)
	if c.R.Chance(0.5) {
		var prev fx.Option
		if c.R.Bool() {
			prev = fx.UnlimitedWorkers()
		} else {
			prev = fx.WithWorkers(p.N + c.R.Range(1, 64))
		}
		fx.Just(1, 2, 3, 4, 5, 6, 7, 8).Walk(func(item any, pipe chan<- any) { pipe <- item }, prev).Done()
		c.Obs(p.Prim+"_unrelated_stage_with_other_worker_options_ran_before", 1)
	}
	in := func() fx.Stream { return fxUpstream(p.Up, src()) }
	pp.run(func() {
		switch p.API {
		case "Walk":
			fxTerminal(p.Term, in().Walk(func(item any, pipe chan<- any) {
				pp.body(item.(int), func(it pipeItem) {
					for k := 0; k < it.Writes; k++ {
						pipe <- item
					}
				})
			}, opts...))
		case "Parallel":
			in().Parallel(func(item any) { pp.body(item.(int), nil) }, opts...)
		case "Map":
			fxTerminal(p.Term, in().Map(func(item any) any {
				pp.body(item.(int), nil)
				return item
			}, opts...))
		default:
			fxTerminal(p.Term, in().Filter(func(item any) bool {
				pp.body(item.(int), nil)
				return item.(int)%2 == 0
			}, opts...))
		}
	})
	if c.Index < 2 {
		c.Sample(p.Prim, 2, map[string]any{"plan": p, "max_workers_inside_seen": pp.m.g.Max(), "items_processed": pp.exited.Load()})
	}
}

// Stages around the worker-limited one (fx-options). All of them hand every item on and
// consume the whole stream, so the barrier items still arrive after the regular ones left.
var fxUps = []string{"", "", "Buffer(0)", "Buffer(3)", "Buffer(-1)", "Concat(empty)", "Distinct(identity)", "Head(huge)", "Skip(0)", "fx.Concat"}

var fxTerms = []string{"Done", "Done", "Count", "ForEach", "ForAll(drain)", "Last", "Max", "Min", "Merge.Done", "Reverse.Done", "Sort.Done",
	"Group.Done", "Split(3).Done", "Tail(2).Done", "AllMatch(true)", "NoneMatch(false)", "AnyMatch(false)", "Reduce(drain)", "Skip(2).Done", "Head(huge).Done"}

func fxUpstream(kind string, s fx.Stream) fx.Stream {
	switch kind {
	case "Buffer(0)":
		return s.Buffer(0)
	case "Buffer(3)":
		return s.Buffer(3)
	case "Buffer(-1)":
		return s.Buffer(-1)
	case "Concat(empty)":
		return s.Concat(fx.Just())
	case "fx.Concat":
		return fx.Concat(s, fx.Just(), fx.Just())
	case "Distinct(identity)":
		return s.Distinct(func(item any) any { return item })
	case "Head(huge)":
		return s.Head(1 << 40)
	case "Skip(0)":
		return s.Skip(0)
	}
	return s
}

func fxTerminal(kind string, s fx.Stream) {
	less := func(a, b any) bool { return a.(int) < b.(int) }
	switch kind {
	case "Count":
		s.Count()
	case "ForEach":
		s.ForEach(func(any) {})
	case "ForAll(drain)":
		s.ForAll(func(pipe <-chan any) {
			for range pipe {
			}
		})
	case "Last":
		s.Last()
	case "Max":
		s.Max(less)
	case "Min":
		s.Min(less)
	case "Merge.Done":
		s.Merge().Done()
	case "Reverse.Done":
		s.Reverse().Done()
	case "Sort.Done":
		s.Sort(less).Done()
	case "Group.Done":
		s.Group(func(item any) any { return item.(int) % 3 }).Done()
	case "Split(3).Done":
		s.Split(3).Done()
	case "Tail(2).Done":
		s.Tail(2).Done()
	case "AllMatch(true)":
		s.AllMatch(func(any) bool { return true })
	case "NoneMatch(false)":
		s.NoneMatch(func(any) bool { return false })
	case "AnyMatch(false)":
		s.AnyMatch(func(any) bool { return false })
	case "Reduce(drain)":
		s.Reduce(func(pipe <-chan any) (any, error) {
			for range pipe {
			}
			return nil, nil
		})
	case "Skip(2).Done":
		s.Skip(2).Done()
	case "Head(huge).Done":
		s.Head(1 << 40).Done()
	default:
		s.Done()
	}
}
