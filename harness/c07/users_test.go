package c07

// The USERS of SingleFlight named in the property's anchors:
//
//	node-take: cache.NewNode(redis, barrier, ...).Take / TakeWithExpire (core/stores/cache/cachenode.go,
//	           doTake runs the cache read + the loader + the cache write inside barrier.DoEx) over an
//	           in-process miniredis whose SET family is, per key and phase, stored / refused with an
//	           error reply (READONLY replica, OOM) / acknowledged and dropped at once (eviction);
//	mem-take:  collection.Cache.Take (core/collection/cache.go, fetch runs inside barrier.Do).
//
// One evaluation = one concurrent history: 1-3 parallel phases of 2-32 goroutines x 1-4 operations
// (Take, TakeWithExpire, Del) over 1-3 keys that were never used before, then a sequential tail. Every
// call is stamped at the client boundary, every run of a loader at its first and last statement; a
// loader returns a value that carries the unique id of that run, an error object that carries it, or
// the cache's not-found error.
//
// Oracle = the statement's SingleFlight clause seen through the user:
//
//   - per key at most one loader is in progress at any time;
//   - a call whose own loader ran receives exactly that run's result;
//   - a value names a run of a loader of the same key that started before the call returned, and -
//     as long as no value can have been stored for the key (no SET of a value was accepted before the
//     call returned) - a run whose owning call overlaps the caller's call (else: a retained result);
//   - a loader error is the error object of a run whose owning call is the caller or overlaps it
//     (errors are never cached);
//   - the not-found error needs a run that returned not-found: one whose owning call is the caller /
//     overlaps it, or (node-take only) an earlier one provided a not-found placeholder can have been
//     stored before the call returned. A de-duplicated caller that is told "not found" although every
//     loader of its key returned a row received neither its own nor an overlapping execution's result.
//
// Errors that come from the store (none is injected on reads; a loaded machine may produce a timeout)
// are counted and never judged.

import (
	"errors"
	"fmt"
	"runtime"
	"sort"
	"strings"
	"sync"
	"sync/atomic"
	"testing"
	"time"

	"github.com/alicebob/miniredis/v2"
	"github.com/alicebob/miniredis/v2/server"
	"github.com/zeromicro/go-zero/core/collection"
	"github.com/zeromicro/go-zero/core/logx"
	"github.com/zeromicro/go-zero/core/stores/cache"
	"github.com/zeromicro/go-zero/core/stores/redis"
	"github.com/zeromicro/go-zero/core/syncx"

	"verifharness/kit"
)

const (
	famNodeTake = "node-take"
	famMemTake  = "mem-take"
)

const (
	uTake = iota
	uTakeExpire
	uDel
)

const (
	uResVal = iota
	uResErr
	uResNF
)

const (
	modeStore    = iota // SET is executed
	modeRefuse          // SET / SETEX / SETNX answer "OOM command not allowed ...", reads work
	modeEvict           // SET is acknowledged and the entry is gone at once
	modeReadonly        // SET / SETEX / SETNX answer "READONLY ..." (the driver retries those with a back-off), reads work
)

var modeNames = [4]string{"store", "refuse-writes(OOM)", "ack-and-drop", "refuse-writes(READONLY)"}

type uOp struct {
	Kind, Key, Body, N, Res int
}

func (o uOp) String() string {
	if o.Kind == uDel {
		return fmt.Sprintf("Del(k%d)", o.Key)
	}
	cs := callSpec{Key: o.Key, Body: o.Body, N: o.N}
	s := cs.String()
	s = s[:strings.LastIndex(s, ":")]
	r := "val"
	switch o.Res {
	case uResErr:
		r = "err"
	case uResNF:
		r = "notfound"
	}
	name := "Take"
	if o.Kind == uTakeExpire {
		name = "TakeWithExpire"
	}
	return name + ":" + s + ":" + r
}

type uGor struct {
	Chaser bool
	Ops    []uOp
}

type uSpec struct {
	Fam    string
	Keys   int
	Limit  bool    // mem-take: the cache with WithLimit(2)
	Modes  [][]int // node-take: [phase][key] store mode
	Phases [][]uGor
}

func (s *uSpec) render() map[string]any {
	ph := make([]any, len(s.Phases))
	for i, p := range s.Phases {
		gs := make([]string, len(p))
		for j, g := range p {
			parts := make([]string, len(g.Ops))
			for k, o := range g.Ops {
				parts[k] = o.String()
			}
			pre := ""
			if g.Chaser {
				pre = "chaser "
			}
			gs[j] = pre + strings.Join(parts, " ")
		}
		ph[i] = gs
	}
	m := map[string]any{"family": s.Fam, "keys": s.Keys, "phases(last=sequential tail)": ph,
		"legend": "<op>:k<key>:<loader body>:<loader result>; one string per goroutine, operations in program order; chaser = starts each operation right after it saw a loader of that key end"}
	if s.Fam == famNodeTake {
		modes := make([]string, len(s.Modes))
		for i, pm := range s.Modes {
			parts := make([]string, len(pm))
			for k, md := range pm {
				parts[k] = fmt.Sprintf("k%d=%s", k, modeNames[md])
			}
			modes[i] = strings.Join(parts, " ")
		}
		m["store_mode_per_phase"] = modes
	} else {
		m["cache_with_limit_2"] = s.Limit
	}
	return m
}

func genUsers(r *kit.Rand, fam string) *uSpec {
	s := &uSpec{Fam: fam, Keys: kit.Choose(r, []int{1, 1, 2, 3})}
	if fam == famMemTake {
		s.Limit = r.Chance(0.3)
	}
	// loader result profile per key: 0 always a value, 1 value|notfound, 2 value|error, 3 all three
	prof := make([]int, s.Keys)
	for k := range prof {
		prof[k] = r.Pick(5, 2, 2, 2)
	}
	badP := kit.Choose(r, []float64{0.2, 0.5, 0.8})
	delP := kit.Choose(r, []float64{0, 0, 0.1, 0.25})
	chaserP := kit.Choose(r, []float64{0, 0.2, 0.4})
	bodyW := kit.Choose(r, [][4]int{{2, 5, 1, 0}, {1, 1, 6, 0}, {3, 3, 3, 1}, {2, 2, 2, 4}, {1, 0, 0, 1}, {0, 0, 0, 1}, {1, 1, 1, 6}})
	mkOp := func(key int, allowWait, allowDel bool) uOp {
		k := key
		if k < 0 {
			k = r.Intn(s.Keys)
		}
		if allowDel && r.Chance(delP) {
			return uOp{Kind: uDel, Key: k}
		}
		cs := genCall(r, famSfDo, s.Keys, false, bodyW, 0, allowWait)
		o := uOp{Kind: uTake, Key: k, Body: cs.Body, N: cs.N}
		if fam == famNodeTake && r.Chance(0.35) {
			o.Kind = uTakeExpire
		}
		if prof[k] != 0 && r.Chance(badP) {
			switch prof[k] {
			case 1:
				o.Res = uResNF
			case 2:
				o.Res = uResErr
			default:
				o.Res = uResNF
				if r.Bool() {
					o.Res = uResErr
				}
			}
		}
		return o
	}
	nph := r.Pick(5, 3, 2) + 1
	for p := 0; p < nph; p++ {
		n := gorCounts[r.Pick(10, 15, 15, 12, 12, 8, 8, 4, 4)]
		gors := make([]uGor, n)
		for i := range gors {
			gors[i].Chaser = i > 0 && r.Chance(chaserP)
			nc := r.Pick(40, 25, 15, 10) + 1
			for j := 0; j < nc; j++ {
				gors[i].Ops = append(gors[i].Ops, mkOp(-1, !gors[i].Chaser, true))
			}
		}
		s.Phases = append(s.Phases, gors)
	}
	var tail uGor
	for _, k := range r.Perm(s.Keys) {
		tail.Ops = append(tail.Ops, mkOp(k, false, false))
		if r.Chance(0.3) {
			tail.Ops = append(tail.Ops, mkOp(k, false, true))
		}
	}
	s.Phases = append(s.Phases, []uGor{tail})
	if fam == famNodeTake {
		// store mode: per key one of "never stores" (refuse / drop throughout), "stores", or changing per phase
		base := make([]int, s.Keys)
		vary := make([]bool, s.Keys)
		for k := range base {
			switch r.Pick(6, 6, 4, 4, 1) {
			case 0:
				base[k] = modeRefuse
			case 1:
				base[k] = modeEvict
			case 2:
				base[k] = modeStore
			case 3:
				vary[k] = true
			default:
				base[k] = modeReadonly
			}
		}
		for range s.Phases {
			pm := make([]int, s.Keys)
			for k := range pm {
				pm[k] = base[k]
				if vary[k] {
					pm[k] = r.Intn(3)
				}
			}
			s.Modes = append(s.Modes, pm)
		}
	}
	return s
}

// ---------------------------------------------------------------- the process-wide stores

// kstate is what the miniredis hook knows about one key of the running history.
type kstate struct {
	mode       atomic.Int32
	valStores  atomic.Int64  // value SETs handed to miniredis
	nfStores   atomic.Int64  // placeholder SETs handed to miniredis
	firstVal   atomic.Uint64 // stamp taken before the first of them was handed over (0 = none)
	firstNF    atomic.Uint64
	refused    atomic.Int64
	dropped    atomic.Int64
	gets, dels atomic.Int64
}

var (
	uOnce    sync.Once
	uMr      *miniredis.Miniredis
	uRds     *redis.Redis
	uStat    *cache.Stat
	uVC      *kit.VClock
	uKeys    sync.Map // redis key -> *kstate
	uMem     *collection.Cache
	uMemLim  *collection.Cache
	uHistSeq atomic.Int64
	uSetupEr error
)

var errUNotFound = errors.New("c07: row not found")

func uHook(c *server.Peer, cmd string, args ...string) bool {
	if len(args) == 0 {
		return false
	}
	v, ok := uKeys.Load(args[0])
	if !ok {
		return false
	}
	ks := v.(*kstate)
	switch cmd {
	case "GET":
		ks.gets.Add(1)
	case "DEL", "UNLINK":
		ks.dels.Add(1)
	case "SET", "SETEX", "PSETEX", "SETNX":
		val := ""
		if cmd == "SETEX" || cmd == "PSETEX" {
			if len(args) > 2 {
				val = args[2]
			}
		} else if len(args) > 1 {
			val = args[1]
		}
		switch ks.mode.Load() {
		case modeRefuse:
			ks.refused.Add(1)
			c.WriteError("OOM command not allowed when used memory > 'maxmemory'.")
			return true
		case modeReadonly:
			ks.refused.Add(1)
			c.WriteError("READONLY You can't write against a read only replica.")
			return true
		case modeEvict:
			ks.dropped.Add(1)
			if cmd == "SETNX" {
				c.WriteInt(1)
			} else {
				c.WriteOK()
			}
			return true
		}
		// the stamp is taken (by every SET) before the command is handed to miniredis: whatever
		// can be read back was stamped before it was stored
		if val == "*" {
			if ks.firstNF.Load() == 0 {
				ks.firstNF.CompareAndSwap(0, kit.Stamp())
			}
			ks.nfStores.Add(1)
		} else {
			if ks.firstVal.Load() == 0 {
				ks.firstVal.CompareAndSwap(0, kit.Stamp())
			}
			ks.valStores.Add(1)
		}
	}
	return false
}

func uSetup() error {
	uOnce.Do(func() {
		mr, err := miniredis.Run()
		if err != nil {
			uSetupEr = err
			return
		}
		uMr = mr
		mr.Server().SetPreHook(uHook)
		// the redis client of go-zero sits behind a circuit breaker that counts error replies; the
		// refused SETs of this workload must not make it reject the reads: a virtual clock behind
		// core/timex is moved past the breaker's window at every call and every loader run
		uVC = kit.InstallVClock()
		uRds = redis.New(mr.Addr())
		ok := false
		for i := 0; i < 3000 && !ok; i++ {
			if ok = uRds.Ping(); !ok {
				time.Sleep(10 * time.Millisecond)
			}
		}
		if !ok {
			uSetupEr = errors.New("miniredis does not answer PING")
			return
		}
		uStat = cache.NewStat("c07")
		if uMem, err = collection.NewCache(time.Hour, collection.WithName("c07")); err != nil {
			uSetupEr = err
			return
		}
		if uMemLim, err = collection.NewCache(time.Hour, collection.WithName("c07lim"), collection.WithLimit(2)); err != nil {
			uSetupEr = err
		}
	})
	return uSetupEr
}

const breakerWindow = 15 * time.Second

// ---------------------------------------------------------------- records

type uVal struct {
	H int64 `json:"h"` // history nonce
	K int   `json:"k"`
	E int   `json:"e"` // 1-based id of the loader run
}

type uExec struct {
	h          *uHist
	id         int
	rec        *uRec
	key        int
	start, end uint64
	res        int
}

func (e *uExec) name() string { return fmt.Sprintf("e%d", e.id) }

type uErr struct{ e *uExec }

func (x *uErr) Error() string { return "loader error of run " + x.e.name() }

const (
	gotNothing = iota
	gotValue
	gotLoaderErr
	gotNotFound
	gotStoreErr
	gotGarbage
)

type uRec struct {
	id, g, phase int
	op           uOp
	inv, ret     uint64
	runs         atomic.Int32
	ex           *uExec // first run of this call's loader
	got          int
	gotExec      *uExec
	gotDesc      string
	panicked     any
}

func (c *uRec) desc() string {
	return fmt.Sprintf("c%d(phase %d goroutine %d %s inv@%d ret@%d)", c.id, c.phase, c.g, c.op.String(), c.inv, c.ret)
}

type uHist struct {
	spec   *uSpec
	nonce  int64
	names  [maxKeys]string
	kst    [maxKeys]*kstate
	node   cache.Cache
	mem    *collection.Cache
	gauge  [maxKeys]kit.Gauge
	fnEnds [maxKeys]atomic.Int64
	abort  atomic.Bool
	mu     sync.Mutex
	execs  []*uExec
	recs   []*uRec
}

// loader is the common part of every loader: gauge, stamps, body; it returns the run.
func (h *uHist) loader(cr *uRec, ph *phaseRt) *uExec {
	if uVC != nil {
		uVC.Advance(breakerWindow)
	}
	n := cr.runs.Add(1)
	e := &uExec{h: h, rec: cr, key: cr.op.Key, res: cr.op.Res}
	h.mu.Lock()
	h.execs = append(h.execs, e)
	e.id = len(h.execs)
	h.mu.Unlock()
	if n == 1 {
		cr.ex = e
	}
	h.gauge[e.key].Enter()
	e.start = kit.Stamp()
	switch cr.op.Body {
	case bodyGosched:
		for i := 0; i < cr.op.N; i++ {
			runtime.Gosched()
		}
	case bodySpin:
		spin(cr.op.N)
	case bodyWaitAll:
		if ph != nil {
			for ph.invoked.Load() < ph.nonChasers && !h.abort.Load() {
				runtime.Gosched()
			}
			// let the callers that have invoked get queued behind this flight
			for i := 0; i < 3; i++ {
				runtime.Gosched()
			}
		}
	}
	e.end = kit.Stamp()
	h.gauge[e.key].Exit()
	h.fnEnds[e.key].Add(1)
	return e
}

func (h *uHist) classify(cr *uRec, v uVal, err error) {
	var le *uErr
	switch {
	case err == nil:
		if v.H == h.nonce && v.E >= 1 {
			h.mu.Lock()
			if v.E <= len(h.execs) {
				cr.gotExec = h.execs[v.E-1]
			}
			h.mu.Unlock()
		}
		if cr.gotExec != nil && cr.gotExec.key == v.K {
			cr.got = gotValue
		} else {
			cr.got, cr.gotExec = gotGarbage, nil
			cr.gotDesc = fmt.Sprintf("no error and value %+v (history nonce %d)", v, h.nonce)
		}
	case errors.As(err, &le) && le.e != nil && le.e.h == h:
		cr.got, cr.gotExec = gotLoaderErr, le.e
	case errors.Is(err, errUNotFound):
		cr.got = gotNotFound
	default:
		cr.got = gotStoreErr
		cr.gotDesc = err.Error()
	}
}

func (h *uHist) doOp(cr *uRec, ph *phaseRt) {
	defer func() {
		if r := recover(); r != nil {
			cr.panicked = r
		}
	}()
	key := h.names[cr.op.Key]
	if uVC != nil {
		uVC.Advance(breakerWindow)
	}
	if h.spec.Fam == famMemTake {
		if cr.op.Kind == uDel {
			h.mem.Del(key)
			return
		}
		val, err := h.mem.Take(key, func() (any, error) {
			e := h.loader(cr, ph)
			switch e.res {
			case uResVal:
				return &uVal{H: h.nonce, K: e.key, E: e.id}, nil
			case uResNF:
				return nil, errUNotFound
			}
			return nil, &uErr{e}
		})
		var v uVal
		if p, ok := val.(*uVal); ok && p != nil {
			v = *p
		} else if err == nil {
			cr.got = gotGarbage
			cr.gotDesc = fmt.Sprintf("no error and value %v", val)
			return
		}
		h.classify(cr, v, err)
		return
	}
	if cr.op.Kind == uDel {
		h.node.Del(key)
		return
	}
	var v uVal
	q := func(x any) error {
		e := h.loader(cr, ph)
		switch e.res {
		case uResVal:
			*x.(*uVal) = uVal{H: h.nonce, K: e.key, E: e.id}
			return nil
		case uResNF:
			return errUNotFound
		}
		return &uErr{e}
	}
	var err error
	if cr.op.Kind == uTakeExpire {
		err = h.node.TakeWithExpire(&v, key, func(x any, _ time.Duration) error { return q(x) })
	} else {
		err = h.node.Take(&v, key, q)
	}
	h.classify(cr, v, err)
}

func (h *uHist) runGor(ph *phaseRt, g *uGor, recs []*uRec) {
	var seen [maxKeys]int64
	for k := range seen {
		seen[k] = h.fnEnds[k].Load()
	}
	<-ph.start
	for i, cr := range recs {
		if g.Chaser {
			k := cr.op.Key
			for j := 0; ; j++ {
				if v := h.fnEnds[k].Load(); v != seen[k] {
					seen[k] = v
					break
				}
				if ph.ncDone.Load() >= ph.nonChasers || h.abort.Load() {
					break
				}
				if j&15 == 15 {
					runtime.Gosched()
				}
			}
		}
		cr.inv = kit.Stamp()
		if i == 0 && !g.Chaser {
			ph.invoked.Add(1)
		}
		h.doOp(cr, ph)
		cr.ret = kit.Stamp()
	}
	if !g.Chaser {
		ph.ncDone.Add(1)
	}
	if ph.remaining.Add(-1) == 0 {
		close(ph.done)
	}
}

func (h *uHist) run(c *kit.Case) bool {
	h.nonce = uHistSeq.Add(1)
	for k := 0; k < h.spec.Keys; k++ {
		h.names[k] = fmt.Sprintf("c07:%s:%d:k%d", c.ID, h.nonce, k)
		if h.spec.Fam == famNodeTake {
			h.kst[k] = &kstate{}
			uKeys.Store(h.names[k], h.kst[k])
		}
	}
	defer func() {
		if h.spec.Fam == famNodeTake {
			for k := 0; k < h.spec.Keys; k++ {
				uKeys.Delete(h.names[k])
				uMr.Del(h.names[k])
			}
		}
	}()
	if h.spec.Fam == famNodeTake {
		h.node = cache.NewNode(uRds, syncx.NewSingleFlight(), uStat, errUNotFound,
			cache.WithExpiry(time.Hour), cache.WithNotFoundExpiry(time.Hour))
	} else if h.spec.Limit {
		h.mem = uMemLim
	} else {
		h.mem = uMem
	}
	id := 0
	for pi, p := range h.spec.Phases {
		if h.spec.Fam == famNodeTake {
			for k := 0; k < h.spec.Keys; k++ {
				h.kst[k].mode.Store(int32(h.spec.Modes[pi][k]))
			}
		}
		ph := &phaseRt{start: make(chan struct{}), done: make(chan struct{})}
		ph.remaining.Store(int64(len(p)))
		all := make([][]*uRec, len(p))
		for gi := range p {
			if !p[gi].Chaser {
				ph.nonChasers++
			}
			for _, op := range p[gi].Ops {
				cr := &uRec{id: id, g: gi, phase: pi, op: op}
				id++
				all[gi] = append(all[gi], cr)
				h.recs = append(h.recs, cr)
			}
		}
		for gi := range p {
			go h.runGor(ph, &p[gi], all[gi])
		}
		close(ph.start)
		tm := time.NewTimer(phaseWatchdog)
		select {
		case <-ph.done:
			tm.Stop()
		case <-tm.C:
			h.abort.Store(true)
			tm.Reset(abortGrace)
			select {
			case <-ph.done:
				tm.Stop()
				c.Inconclusive(fmt.Sprintf("%s: phase %d needed more than %v; harness waits were aborted, the history completed and was still checked", h.spec.Fam, pi, phaseWatchdog))
			case <-tm.C:
				c.Inconclusive(fmt.Sprintf("%s: phase %d did not finish within %v (+%v): calls never returned; history abandoned, no verdict", h.spec.Fam, pi, phaseWatchdog, abortGrace))
				return false
			}
		}
	}
	return true
}

// ---------------------------------------------------------------- oracle

type uStats struct {
	calls, dels, runs                        int64
	values, loaderErrs, notFounds, storeErrs int64
	dedup, dedupUnstored, dedupErr, dedupNF  int64
	fromCacheOrShared, nfFromPlaceholder     int64
	whileLoader, followers                   int64
	refused, dropped, stored, storedNF       int64
	nontrivial                               bool
}

func (h *uHist) dump(key, max int) []string {
	type ev struct {
		s uint64
		t string
	}
	var evs []ev
	for _, c := range h.recs {
		if key >= 0 && c.op.Key != key {
			continue
		}
		evs = append(evs, ev{c.inv, fmt.Sprintf("c%d p%d/g%d inv %s", c.id, c.phase, c.g, c.op.String())})
		got := ""
		switch {
		case c.panicked != nil:
			got = " PANIC " + fmt.Sprint(c.panicked)
		case c.got == gotValue:
			got = " value of " + c.gotExec.name()
		case c.got == gotLoaderErr:
			got = " error of " + c.gotExec.name()
		case c.got == gotNotFound:
			got = " not-found error"
		case c.got == gotStoreErr:
			got = " store error: " + c.gotDesc
		case c.got == gotGarbage:
			got = " " + c.gotDesc
		}
		evs = append(evs, ev{c.ret, fmt.Sprintf("c%d ret%s", c.id, got)})
	}
	for _, e := range h.execs {
		if key >= 0 && e.key != key {
			continue
		}
		evs = append(evs, ev{e.start, fmt.Sprintf("c%d loader start %s", e.rec.id, e.name())})
		evs = append(evs, ev{e.end, fmt.Sprintf("c%d loader end %s returns %s", e.rec.id, e.name(), [3]string{"value", "error", "not-found"}[e.res])})
	}
	if key >= 0 && h.kst[key] != nil {
		ks := h.kst[key]
		if s := ks.firstVal.Load(); s != 0 {
			evs = append(evs, ev{s, "redis: first SET of a value accepted for storing"})
		}
		if s := ks.firstNF.Load(); s != 0 {
			evs = append(evs, ev{s, "redis: first SET of the not-found placeholder accepted for storing"})
		}
	}
	sort.Slice(evs, func(i, j int) bool { return evs[i].s < evs[j].s })
	var out []string
	for i, e := range evs {
		if i >= max {
			out = append(out, fmt.Sprintf("... %d more events", len(evs)-max))
			break
		}
		out = append(out, fmt.Sprintf("%d %s", e.s, e.t))
	}
	return out
}

func (h *uHist) signature() uint64 {
	type ev struct{ s, b uint64 }
	var evs []ev
	for _, c := range h.recs {
		b := uint64(c.op.Key)<<4 | uint64(c.op.Kind)<<8
		if c.runs.Load() > 0 {
			b |= 1 << 3
		}
		evs = append(evs, ev{c.inv, b}, ev{c.ret, b | 1 | uint64(c.got)<<12})
	}
	for _, e := range h.execs {
		b := uint64(e.key)<<4 | uint64(e.res)<<16
		evs = append(evs, ev{e.start, b | 2}, ev{e.end, b | 3})
	}
	sort.Slice(evs, func(i, j int) bool { return evs[i].s < evs[j].s })
	x := uint64(14695981039346656037)
	for _, e := range evs {
		x = (x ^ e.b) * 1099511628211
	}
	return x
}

func checkUsers(c *kit.Case, h *uHist) (st uStats) {
	kind := h.spec.Fam
	seen := map[string]bool{}
	viol := func(class, what string, key int, extra map[string]any) {
		k := "C07/" + kind + "/" + class
		if seen[k] {
			return
		}
		seen[k] = true
		violCount++
		w := map[string]any{"history": h.spec.render(), "events_of_key": h.dump(key, 600), "key": fmt.Sprintf("k%d", key)}
		if ks := h.kst[key]; ks != nil {
			w["redis_for_this_key"] = map[string]any{"GET": ks.gets.Load(), "DEL": ks.dels.Load(), "SET_of_value_stored": ks.valStores.Load(),
				"SET_of_placeholder_stored": ks.nfStores.Load(), "SET_refused_with_error": ks.refused.Load(), "SET_acknowledged_and_dropped": ks.dropped.Load()}
		}
		for a, b := range extra {
			w[a] = b
		}
		c.Viol(k, what, w)
	}
	overlaps := func(a, b *uRec) bool { return a.inv < b.ret && b.inv < a.ret }
	var byKey [maxKeys][]*uExec
	for _, e := range h.execs {
		byKey[e.key] = append(byKey[e.key], e)
		st.runs++
	}
	for k := range byKey {
		sort.Slice(byKey[k], func(i, j int) bool { return byKey[k][i].start < byKey[k][j].start })
		var prev *uExec
		for _, e := range byKey[k] {
			if prev != nil && e.start < prev.end {
				viol("overlapping-executions", "two loaders of the same key overlapped in time", k,
					map[string]any{"first": fmt.Sprintf("%s of %s ran [%d,%d]", prev.name(), prev.rec.desc(), prev.start, prev.end),
						"second": fmt.Sprintf("%s of %s ran [%d,%d]", e.name(), e.rec.desc(), e.start, e.end)})
			}
			if prev == nil || e.end > prev.end {
				prev = e
			}
		}
		if m := h.gauge[k].Max(); m > 1 {
			viol("overlapping-executions", "loaders of the same key were in progress simultaneously (online gauge)", k, map[string]any{"max_simultaneous": m})
		}
		if ks := h.kst[k]; ks != nil {
			st.refused += ks.refused.Load()
			st.dropped += ks.dropped.Load()
			st.stored += ks.valStores.Load()
			st.storedNF += ks.nfStores.Load()
		}
	}
	for _, cl := range h.recs {
		k := cl.op.Key
		if cl.op.Kind == uDel {
			st.dels++
			if cl.panicked != nil {
				viol("panic/Del", "Del panicked", k, map[string]any{"call": cl.desc(), "panic": fmt.Sprint(cl.panicked)})
			}
			continue
		}
		st.calls++
		for _, e := range byKey[k] {
			if e.rec != cl && cl.inv > e.start && cl.inv < e.end {
				st.whileLoader++
				st.nontrivial = true
				break
			}
		}
		if cl.panicked != nil {
			viol("panic", "the call panicked although no loader did", k, map[string]any{"call": cl.desc(), "panic": fmt.Sprint(cl.panicked)})
			continue
		}
		if n := cl.runs.Load(); n > 1 {
			viol("loader-run-more-than-once-by-one-call", "one call ran its loader more than once", k, map[string]any{"call": cl.desc(), "runs": n})
			continue
		}
		// could a value / a placeholder have been stored for this key before the call returned?
		valStorable, nfStorable := kind == famMemTake, false
		if ks := h.kst[k]; ks != nil {
			if s := ks.firstVal.Load(); s != 0 && s < cl.ret {
				valStorable = true
			}
			if s := ks.firstNF.Load(); s != 0 && s < cl.ret {
				nfStorable = true
			}
		}
		own := cl.ex
		switch cl.got {
		case gotStoreErr:
			st.storeErrs++
			continue
		case gotGarbage:
			viol("value-of-no-execution", "the call returned no error and a value no loader of this history produced", k, map[string]any{"call": cl.desc(), "got": cl.gotDesc})
			continue
		case gotValue, gotLoaderErr:
			x := cl.gotExec
			what := "value"
			if cl.got == gotLoaderErr {
				what = "error"
				st.loaderErrs++
			} else {
				st.values++
			}
			if x.key != k {
				viol(what+"-of-other-key", "the call received the "+what+" of a loader run for a different key", k, map[string]any{"call": cl.desc(), "run": x.name(), "run_key": x.key})
				continue
			}
			if (cl.got == gotValue) != (x.res == uResVal) || (cl.got == gotLoaderErr) != (x.res == uResErr) {
				viol("result-not-as-executed", "the call received a "+what+" from a loader run that returned something else", k, map[string]any{"call": cl.desc(), "run": x.name()})
				continue
			}
			if own != nil && own != x {
				viol("own-result-not-returned", "the call's own loader ran, and the call received the result of another run", k,
					map[string]any{"call": cl.desc(), "own_run": own.name(), "received": what + " of " + x.name() + " run by " + x.rec.desc()})
				continue
			}
			if own == x {
				continue
			}
			if x.start > cl.ret {
				viol("result-from-later-call", "the call received the "+what+" of a loader run that started after the call had returned", k, map[string]any{"call": cl.desc(), "run": x.name()})
				continue
			}
			if overlaps(x.rec, cl) {
				st.followers++
				if cl.got == gotLoaderErr {
					st.dedupErr++
				} else if !valStorable {
					st.dedup++
					st.dedupUnstored++
				} else {
					st.fromCacheOrShared++
				}
				continue
			}
			// the owner of the run does not overlap the caller: only a stored value explains it
			if cl.got == gotLoaderErr {
				viol("stale-error", "the call received the error of a loader run whose owning call does not overlap it (errors are never stored: a retained result)", k,
					map[string]any{"caller": cl.desc(), "leading_call": x.rec.desc(), "run": x.name()})
			} else if !valStorable {
				viol("stale-result", "the call received the value of a loader run whose owning call had returned before it was invoked, although no value had been accepted for storing for this key (a retained result)", k,
					map[string]any{"caller": cl.desc(), "leading_call": x.rec.desc(), "run": x.name()})
			} else {
				st.fromCacheOrShared++
			}
		case gotNotFound:
			st.notFounds++
			if own != nil {
				if own.res != uResNF {
					viol("own-result-not-returned", "the call's own loader ran and did not return not-found, yet the call returned the not-found error", k,
						map[string]any{"call": cl.desc(), "own_run": own.name()})
				}
				continue
			}
			explained, shared := false, false
			for _, e := range byKey[k] {
				if e.res != uResNF || e.start > cl.ret {
					continue
				}
				if overlaps(e.rec, cl) {
					explained, shared = true, true
					break
				}
				if nfStorable {
					explained = true
				}
			}
			switch {
			case shared:
				st.dedupNF++
				st.followers++
			case explained:
				st.nfFromPlaceholder++
			default:
				// which run did the caller overlap, if any?
				var over []string
				for _, e := range byKey[k] {
					if overlaps(e.rec, cl) {
						over = append(over, fmt.Sprintf("%s (returned %s) run by %s", e.name(), [3]string{"a value", "an error", "not-found"}[e.res], e.rec.desc()))
					}
				}
				class := "not-found-of-no-execution"
				if !valStorable {
					class += "/nothing-stored-for-key"
				}
				viol(class, "the call ran no loader and returned the not-found error, although no loader run that it overlaps returned not-found and no earlier not-found can have been stored: it received neither its own nor an overlapping execution's result", k,
					map[string]any{"caller": cl.desc(), "overlapping_runs": over})
			}
		case gotNothing:
			viol("value-of-no-execution", "the call returned nothing identifiable", k, map[string]any{"call": cl.desc()})
		}
	}
	if st.followers > 0 {
		st.nontrivial = true
	}
	return st
}

func runUsers(c *kit.Case, fam string) {
	if err := uSetup(); err != nil {
		c.Inconclusive("users: stores could not be started: " + err.Error())
		return
	}
	spec := genUsers(c.R, fam)
	reps := 1
	if kit.GetEnv().Only != "" {
		reps = 50
	}
	hits := 0
	for rep := 0; rep < reps; rep++ {
		before := violCount
		h := &uHist{spec: spec}
		if !h.run(c) {
			c.Obs("histories_abandoned", 1)
			return
		}
		c.Obs("histories_"+fam, 1)
		st := checkUsers(c, h)
		if violCount > before {
			hits++
		}
		p := strings.ReplaceAll(fam, "-", "_") + "_"
		c.Obs(p+"calls", st.calls)
		c.Obs(p+"del_calls", st.dels)
		c.Obs(p+"loader_runs", st.runs)
		c.Obs(p+"values_received", st.values)
		c.Obs(p+"loader_errors_received", st.loaderErrs)
		c.Obs(p+"not_found_received", st.notFounds)
		c.Obs(p+"store_errors_unconstrained", st.storeErrs)
		c.Obs(p+"calls_invoked_while_same_key_loader_running", st.whileLoader)
		c.Obs(p+"callers_without_own_run_given_result_of_overlapping_run", st.followers)
		c.Obs(p+"dedup_callers_sharing_an_error", st.dedupErr)
		c.Obs(p+"dedup_callers_sharing_not_found", st.dedupNF)
		c.Obs(p+"callers_given_value_of_overlapping_or_stored_run", st.fromCacheOrShared)
		if fam == famNodeTake {
			c.Obs(p+"dedup_callers_given_value_while_nothing_stored", st.dedupUnstored)
			c.Obs(p+"not_found_explained_by_placeholder", st.nfFromPlaceholder)
			c.Obs(p+"redis_set_refused", st.refused)
			c.Obs(p+"redis_set_acknowledged_and_dropped", st.dropped)
			c.Obs(p+"redis_set_value_stored", st.stored)
			c.Obs(p+"redis_set_placeholder_stored", st.storedNF)
		}
		if st.nontrivial {
			c.Obs("nontrivial_"+fam, 1)
		}
		c.Sig(st.nontrivial, fam, h.signature())
		if rep == 0 && len(h.recs) <= 24 {
			cls := fam + "/trivial"
			if st.nontrivial {
				cls = fam + "/nontrivial"
			}
			c.Sample(cls, 1, map[string]any{"history": spec.render(), "events": h.dump(-1, 200), "calls": st.calls, "loader_runs": st.runs,
				"invoked_while_same_key_loader_running": st.whileLoader})
		}
	}
	if reps > 1 {
		c.Obs("replay_runs", int64(reps))
		c.Obs("replay_runs_with_violation", int64(hits))
	}
}

func TestVerifC07Users(t *testing.T) {
	logx.Disable()
	kit.Run(t, "C07", famNodeTake, kit.N(1600, 30000), func(c *kit.Case) { runUsers(c, famNodeTake) })
	kit.Run(t, "C07", famMemTake, kit.N(3000, 60000), func(c *kit.Case) { runUsers(c, famMemTake) })
	kit.Run(t, "C07", famMemShapes, kit.N(600, 12000), func(c *kit.Case) { runBurst(c, famMemShapes) })
	kit.Run(t, "C07", famNodeShapes, kit.N(600, 12000), func(c *kit.Case) { runBurst(c, famNodeShapes) })
	kit.Run(t, "C07", famNodeReuse, kit.N(200, 4000), func(c *kit.Case) { runBurst(c, famNodeReuse) })
	kit.End()
}
