package c07

// Result shapes with parked followers (families sf-shapes, rm-shapes, mem-take-shapes,
// node-take-shapes, node-take-leader-reuse).
//
// One evaluation = one "burst" history on a fresh SingleFlight / ResourceManager / cache node
// (or the process-wide collection.Cache with never-used keys): 1-3 rounds on 1-2 keys, then a
// sequential tail. A round is
//
//	1. a LEADING call whose supplied function (create, loader, query) is held on a channel only
//	   the harness closes;
//	2. 1-16 (leader-reuse: 1-32) FOLLOWERS invoked while it is held. The harness waits until each
//	   of them is parked inside syncx.(*flightGroup).createCall (goroutine dump by pprof label:
//	   a state, not a duration), has started a function of its own, or has returned;
//	3. 0-4 LATE callers that invoke right after they saw the leading function end, and 0-3 AFTER
//	   callers that invoke right after they saw the leading call return;
//	4. the release of the leading function, which then ends with one of the result shapes below.
//
// Result shapes of a supplied function: (value, nil), (nil, nil), a harness error object, the bare
// context.Canceled / context.DeadlineExceeded, those wrapped with %w, joined with errors.Join,
// behind a custom Unwrap, io.EOF, io.ErrUnexpectedEOF, sql.ErrNoRows bare and wrapped (the cache
// node is built with sql.ErrNoRows as its not-found error, as sqlc does), net.ErrClosed,
// os.ErrDeadlineExceeded, a nil-valued typed error, an error of a comparable value type, an error
// of a NON-comparable value type, (value, error) both set, (value, context.Canceled).
//
// Oracle (offline, after every goroutine has been joined; stamps only order events):
//
//   - per key at most one supplied function (of ANY caller, whoever runs it) is in progress at any
//     time: online gauge + pairwise disjoint stamped intervals;
//   - SingleFlight: the (value, error) pair a caller received is IDENTICAL (==, same error object)
//     to the pair returned by one of its own executions or by an execution whose leading call
//     overlaps the caller's call; DoEx: at most one caller of an execution is reported fresh, and
//     in an all-DoEx history #fresh reports = #executions;
//   - ResourceManager: at most one successful create per key, every successful GetResource of a key
//     hands out that identical instance, an error is the identical error object of an own / an
//     overlapping failed create;
//   - collection.Cache.Take: a value is the identical value of a successful fetch that started
//     before the call returned, an error the identical error object of an own / overlapping fetch;
//   - cache node Take / TakeWithExpire / sqlc.CachedConn.QueryRow: a loader error is the identical
//     error object of an own / overlapping query; not-found needs an own / overlapping query that
//     returned (or wrapped) sql.ErrNoRows or a placeholder that can have been stored; a value is,
//     byte for byte after canonical JSON, the document an own / an overlapping query produced (or
//     any earlier one if a value can have been stored for the key).
//
// node-take-leader-reuse: every query succeeds with a document of strings, slices, maps and
// pointers (2-30 KB of JSON); the caller that led the flight, immediately after ITS Take returned, either
// overwrites every field of its own result object (in place: slice elements, map entries,
// pointees), or passes the same object to a Take of another key (cached or not), or leaves it
// alone - load-modify-write code does exactly that - while the sharers of the flight are still on
// their way out. Every sharer's document must still be what the overlapping query produced.
// Nothing is decided by elapsed time.

import (
	"bytes"
	"context"
	"database/sql"
	"encoding/json"
	"errors"
	"fmt"
	"io"
	"net"
	"os"
	"reflect"
	"runtime"
	"sort"
	"strings"
	"sync"
	"sync/atomic"
	"time"

	"github.com/zeromicro/go-zero/core/collection"
	"github.com/zeromicro/go-zero/core/stores/cache"
	"github.com/zeromicro/go-zero/core/stores/sqlc"
	"github.com/zeromicro/go-zero/core/stores/sqlx"
	"github.com/zeromicro/go-zero/core/syncx"

	"verifharness/kit"
)

const (
	famSfShapes   = "sf-shapes"
	famRmShapes   = "rm-shapes"
	famMemShapes  = "mem-take-shapes"
	famNodeShapes = "node-take-shapes"
	famNodeReuse  = "node-take-leader-reuse"
)

// the API a burst drives
const (
	bSF = iota // SingleFlight.Do / DoEx (per call)
	bRM        // ResourceManager.GetResource
	bMem       // collection.Cache.Take
	bNode      // cache node Take / TakeWithExpire (per call), or sqlc.CachedConn.QueryRow
)

var bKinds = [4]string{"sf", "rm", "mem-take", "node-take"}

// ---------------------------------------------------------------- result shapes

type shape int

const (
	shVal shape = iota
	shNilNil
	shHarnessErr
	shCanceled
	shDeadline
	shWrapCanceled
	shWrapDeadline
	shJoinCanceled
	shJoinDeadline
	shCauseCanceled
	shEOF
	shUnexpectedEOF
	shNoRows
	shWrapNoRows
	shNetClosed
	shOSDeadline
	shTypedNil
	shValueErr
	shUncomparableErr
	shValAndErr
	shValAndCanceled
	nShapes
)

var shapeNames = [nShapes]string{"(value,nil)", "(nil,nil)", "(nil,harness-error)", "(nil,context.Canceled)", "(nil,context.DeadlineExceeded)",
	"(nil,%w context.Canceled)", "(nil,%w context.DeadlineExceeded)", "(nil,errors.Join(harness-error,context.Canceled))",
	"(nil,errors.Join(harness-error,context.DeadlineExceeded))", "(nil,custom error unwrapping to context.Canceled)", "(nil,io.EOF)",
	"(nil,io.ErrUnexpectedEOF)", "(nil,sql.ErrNoRows)", "(nil,%w sql.ErrNoRows)", "(nil,net.ErrClosed)", "(nil,os.ErrDeadlineExceeded)",
	"(nil,nil-valued typed error)", "(nil,error of a comparable value type)", "(nil,error of a non-comparable value type)",
	"(value,harness-error)", "(value,context.Canceled)"}

func (s shape) String() string { return shapeNames[s] }

func (s shape) hasVal() bool { return s == shVal || s == shValAndErr || s == shValAndCanceled }

func (s shape) notFound() bool { return s == shNoRows || s == shWrapNoRows }

// class is the coarse class used in violation keys and observation counters.
func (s shape) class() string {
	switch s {
	case shVal, shNilNil:
		return "no-error"
	case shCanceled, shDeadline, shWrapCanceled, shWrapDeadline, shJoinCanceled, shJoinDeadline, shCauseCanceled, shValAndCanceled:
		return "context-error"
	case shEOF, shUnexpectedEOF, shNoRows, shWrapNoRows, shNetClosed, shOSDeadline:
		return "well-known-sentinel"
	case shTypedNil:
		return "typed-nil-error"
	case shValAndErr:
		return "value-and-error"
	}
	return "harness-error"
}

var shapeClasses = []string{"no-error", "context-error", "well-known-sentinel", "harness-error", "typed-nil-error", "value-and-error"}

type bErr struct{ e *bExec }

func (x *bErr) Error() string { return "error of execution " + x.e.name() }

type bCauseErr struct{ e *bExec }

func (x *bCauseErr) Error() string { return "request of execution " + x.e.name() + " went away" }
func (x *bCauseErr) Unwrap() error { return context.Canceled }

type bNilErr struct{ id int }

func (x *bNilErr) Error() string {
	if x == nil {
		return "nil-valued *bNilErr"
	}
	return fmt.Sprint("bNilErr ", x.id)
}

type bValueErr struct {
	Nonce int64
	ID    int
}

func (x bValueErr) Error() string { return fmt.Sprintf("value error of execution e%d (history %d)", x.ID, x.Nonce) }

type bSliceErr struct {
	Nonce int64
	IDs   []int
}

func (x bSliceErr) Error() string { return fmt.Sprintf("non-comparable error of execution e%v (history %d)", x.IDs, x.Nonce) }

func shapeErr(sh shape, e *bExec) error {
	switch sh {
	case shHarnessErr, shValAndErr:
		return &bErr{e}
	case shCanceled, shValAndCanceled:
		return context.Canceled
	case shDeadline:
		return context.DeadlineExceeded
	case shWrapCanceled:
		return fmt.Errorf("query of %s: %w", e.name(), context.Canceled)
	case shWrapDeadline:
		return fmt.Errorf("query of %s: %w", e.name(), context.DeadlineExceeded)
	case shJoinCanceled:
		return errors.Join(&bErr{e}, context.Canceled)
	case shJoinDeadline:
		return errors.Join(&bErr{e}, context.DeadlineExceeded)
	case shCauseCanceled:
		return &bCauseErr{e}
	case shEOF:
		return io.EOF
	case shUnexpectedEOF:
		return io.ErrUnexpectedEOF
	case shNoRows:
		return sql.ErrNoRows
	case shWrapNoRows:
		return fmt.Errorf("row of %s: %w", e.name(), sql.ErrNoRows)
	case shNetClosed:
		return net.ErrClosed
	case shOSDeadline:
		return os.ErrDeadlineExceeded
	case shTypedNil:
		var p *bNilErr
		return p
	case shValueErr:
		return bValueErr{e.h.nonce, e.id}
	case shUncomparableErr:
		return bSliceErr{e.h.nonce, []int{e.id}}
	}
	return nil
}

// same reports a == b for interface values, without panicking on non-comparable dynamic types
// (those are compared by content; they carry the id of their execution).
func same(a, b any) (eq bool) {
	defer func() {
		if recover() != nil {
			eq = reflect.DeepEqual(a, b)
		}
	}()
	return a == b
}

func errText(err error) (s string) {
	defer func() {
		if r := recover(); r != nil {
			s = fmt.Sprint("<Error() panicked: ", r, ">")
		}
	}()
	if err == nil {
		return "<nil>"
	}
	return fmt.Sprintf("%T(%s)", err, err.Error())
}

// ---------------------------------------------------------------- documents (cache node values)

type bSub struct {
	ID    int      `json:"id"`
	Label string   `json:"label"`
	Path  []string `json:"path"`
}

type bDoc struct {
	H     int64             `json:"h"` // history nonce
	K     int               `json:"k"`
	E     int               `json:"e"` // 1-based id of the query run that produced the document
	Name  string            `json:"name"`
	Tags  []string          `json:"tags"`
	Attrs map[string]string `json:"attrs"`
	Nums  []int64           `json:"nums"`
	Sub   *bSub             `json:"sub"`
	Subs  []bSub            `json:"subs"`
	Refs  map[string]*bSub  `json:"refs"`
	Blob  string            `json:"blob"`
}

// mkDoc is a pure function of its arguments: the oracle recomputes what a query produced.
func mkDoc(nonce int64, k, e, size int) *bDoc {
	d := &bDoc{H: nonce, K: k, E: e, Name: fmt.Sprintf("row-%d-%d-%d", nonce, k, e), Attrs: map[string]string{}, Refs: map[string]*bSub{}}
	n := 2 + size
	for i := 0; i < n; i++ {
		d.Tags = append(d.Tags, fmt.Sprintf("tag-%d-%d", e, i))
		d.Nums = append(d.Nums, int64(e)*1000003+int64(i))
	}
	for i := 0; i < 2+size/4; i++ {
		d.Attrs[fmt.Sprintf("attr%d", i)] = fmt.Sprintf("v-%d-%d-%d", k, e, i)
		d.Refs[fmt.Sprintf("ref%d", i)] = &bSub{ID: e*100 + i, Label: fmt.Sprintf("ref-%d-%d", e, i), Path: []string{"r", fmt.Sprint(e), fmt.Sprint(i)}}
		d.Subs = append(d.Subs, bSub{ID: e*10 + i, Label: fmt.Sprintf("sub-%d-%d", e, i), Path: []string{"s", fmt.Sprint(i)}})
	}
	d.Sub = &bSub{ID: e, Label: fmt.Sprintf("main-%d-%d", k, e), Path: []string{"a", "b", fmt.Sprint(e)}}
	d.Blob = strings.Repeat(fmt.Sprintf("<%d:%d:%d>", nonce, k, e), 1+size*size*3)
	return d
}

// scribble overwrites every field of d, in place where the type allows it (what load-modify-write
// code does with the object it owns). maps=false leaves the two maps' own entries alone (their
// pointees are still overwritten).
func scribble(d *bDoc, maps bool) {
	const o = "overwritten by the caller that led the flight"
	d.Blob = o
	d.H, d.K, d.E = -7, -7, -7
	d.Name = o
	for i := range d.Tags {
		d.Tags[i] = o
	}
	d.Tags = append(d.Tags, "appended")
	for i := range d.Nums {
		d.Nums[i] = -7
	}
	if d.Sub != nil {
		d.Sub.ID, d.Sub.Label = -7, o
		for i := range d.Sub.Path {
			d.Sub.Path[i] = o
		}
	}
	for i := range d.Subs {
		d.Subs[i].ID, d.Subs[i].Label = -7, o
		for j := range d.Subs[i].Path {
			d.Subs[i].Path[j] = o
		}
	}
	for _, p := range d.Refs {
		if p != nil {
			p.ID, p.Label = -7, o
		}
	}
	if maps {
		for k := range d.Attrs {
			d.Attrs[k] = o
		}
		if d.Attrs != nil {
			d.Attrs["added"] = o
		}
		if d.Refs != nil {
			d.Refs["added"] = &bSub{ID: -7, Label: o}
		}
	}
}

// what the caller that led a flight does with its own result object right after its Take returned
const (
	postNone           = iota
	postScribble       // overwrite every field, map entries left alone
	postScribbleMaps   // overwrite every field including the map entries
	postReuseCached    // Take(sameObject, otherKey) with otherKey present in the cache
	postReuseNotCached // Take(sameObject, otherKey) with otherKey absent: its query fills the object
	nPosts
)

var postNames = [nPosts]string{"leaves-its-result-alone", "overwrites-its-result", "overwrites-its-result-and-maps", "reuses-target-for-cached-other-key", "reuses-target-for-uncached-other-key"}

var postClass = [nPosts]string{"leader-left-its-result-alone", "leader-mutated-its-result", "leader-mutated-its-result", "leader-reused-its-target-for-another-key", "leader-reused-its-target-for-another-key"}

// ---------------------------------------------------------------- specification

type bCallSpec struct {
	Sh     shape
	Ex     bool // sf: DoEx; node: TakeWithExpire
	Linger int  // a function that is not held yields up to Linger times while it is alone in progress
}

func (s bCallSpec) String() string {
	x := ""
	if s.Ex {
		x = ":Ex"
	}
	return fmt.Sprintf("%s%s", s.Sh, x)
}

type bRoundSpec struct {
	Key       int
	Garbage   bool // node: an undecodable entry is put under the key before the round
	Post      int
	Leader    bCallSpec
	Followers []bCallSpec
	Late      []bCallSpec
	After     []bCallSpec
}

type bTailSpec struct {
	Key  int
	Call bCallSpec
}

type bSpec struct {
	Fam    string
	API    int
	Sqlc   bool // node: through sqlc.CachedConn.QueryRow
	Limit  bool // mem: the cache with WithLimit(2)
	Keys   int
	Mode   []int // node: store mode per key
	Size   int   // node: document size parameter
	Rounds []bRoundSpec
	Tail   []bTailSpec
}

func (s *bSpec) render() map[string]any {
	rs := make([]any, len(s.Rounds))
	list := func(cs []bCallSpec) []string {
		out := make([]string, len(cs))
		for i, c := range cs {
			out[i] = c.String()
		}
		return out
	}
	for i, r := range s.Rounds {
		m := map[string]any{"key": fmt.Sprintf("k%d", r.Key), "leader(held until the followers are parked)": r.Leader.String(),
			"followers(own function returns, if it ever runs)": list(r.Followers), "late(invoke after the leading function ended)": list(r.Late),
			"after(invoke after the leading call returned)": list(r.After)}
		if s.API == bNode {
			m["leader_after_its_take_returned"] = postNames[r.Post]
			if r.Garbage {
				m["undecodable_entry_cached_before_round"] = true
			}
		}
		rs[i] = m
	}
	tl := make([]string, len(s.Tail))
	for i, t := range s.Tail {
		tl[i] = fmt.Sprintf("k%d:%s", t.Key, t.Call)
	}
	m := map[string]any{"family": s.Fam, "api": bKinds[s.API], "keys": s.Keys, "rounds": rs, "sequential_tail": tl}
	if s.API == bNode {
		ms := make([]string, len(s.Mode))
		for k, md := range s.Mode {
			ms[k] = fmt.Sprintf("k%d=%s", k, modeNames[md])
		}
		m["store_mode"], m["through_sqlc"], m["doc_size"] = ms, s.Sqlc, s.Size
	}
	if s.API == bMem {
		m["cache_with_limit_2"] = s.Limit
	}
	return m
}

func famAPI(fam string) int {
	switch fam {
	case famRmShapes:
		return bRM
	case famMemShapes:
		return bMem
	case famNodeShapes, famNodeReuse:
		return bNode
	}
	return bSF
}

func genBurst(r *kit.Rand, fam string) *bSpec {
	s := &bSpec{Fam: fam, API: famAPI(fam), Keys: r.Pick(3, 1) + 1}
	reuse := fam == famNodeReuse
	exMode := r.Intn(3) // 0 never, 1 always, 2 per call
	var shapes []shape
	for sh := shape(0); sh < nShapes; sh++ {
		if sh == shNilNil && s.API != bSF {
			continue // (nil, nil) of a create / fetch / query: the users' behaviour is outside the statement
		}
		shapes = append(shapes, sh)
	}
	call := func() bCallSpec {
		c := bCallSpec{Sh: kit.Choose(r, shapes), Linger: kit.Choose(r, []int{0, 3, 40})}
		if reuse || r.Chance(0.25) {
			c.Sh = shVal
		}
		switch exMode {
		case 1:
			c.Ex = true
		case 2:
			c.Ex = r.Bool()
		}
		return c
	}
	calls := func(n int) []bCallSpec {
		cs := make([]bCallSpec, n)
		for i := range cs {
			cs[i] = call()
		}
		return cs
	}
	if s.API == bNode {
		s.Sqlc = r.Chance(0.25)
		if s.Sqlc {
			exMode = 0
		}
		s.Size = r.Pick(5, 3, 1) // 0..2
		if reuse {
			s.Size = kit.Choose(r, []int{6, 10, 16, 24})
		}
		s.Mode = make([]int, s.Keys)
		for k := range s.Mode {
			s.Mode[k] = kit.Choose(r, []int{modeRefuse, modeEvict, modeEvict, modeStore})
			if reuse {
				s.Mode[k] = kit.Choose(r, []int{modeRefuse, modeEvict, modeEvict, modeEvict, modeStore})
			}
		}
	}
	if s.API == bMem {
		s.Limit = r.Chance(0.3)
	}
	nr := r.Pick(3, 4, 2) + 1
	if reuse {
		nr = r.Pick(5, 3) + 1
	}
	for i := 0; i < nr; i++ {
		rd := bRoundSpec{Key: r.Intn(s.Keys), Leader: call()}
		if !reuse {
			rd.Leader.Sh = kit.Choose(r, shapes) // every shape equally often in the leading position
		}
		nf := kit.Choose(r, []int{1, 2, 2, 3, 4, 6, 8, 12, 16})
		if reuse {
			nf = kit.Choose(r, []int{1, 2, 4, 8, 12, 16, 24, 32})
		}
		rd.Followers = calls(nf)
		rd.Late = calls(r.Pick(3, 2, 2, 1, 1))
		rd.After = calls(r.Pick(3, 2, 2, 1))
		if s.API == bNode {
			switch {
			case reuse:
				rd.Post = r.Pick(1, 4, 3, 4, 3)
			case r.Chance(0.3):
				rd.Post = r.Intn(nPosts)
			}
			rd.Garbage = !reuse && r.Chance(0.1)
		}
		s.Rounds = append(s.Rounds, rd)
	}
	for _, k := range r.Perm(s.Keys) {
		for j := r.Range(1, 2); j > 0; j-- {
			s.Tail = append(s.Tail, bTailSpec{Key: k, Call: call()})
		}
	}
	return s
}

// ---------------------------------------------------------------- records

const (
	roleLeader = iota
	roleFollower
	roleLate
	roleAfter
	roleTail
)

var roleNames = [5]string{"leader", "follower", "late", "after", "tail"}

const bMaxKeys = 2

type bExec struct {
	h          *bHist
	id         int // 1-based
	call       *bCall
	key        int
	start, end uint64
	sh         shape
	val        any   // what the function returned as its value (sf: the *bExec itself or nil; rm: *bRes; mem: the *bExec)
	err        error // the very error object it returned
}

func (e *bExec) name() string { return fmt.Sprintf("e%d", e.id) }

type bRes struct{ e *bExec }

func (*bRes) Close() error { return nil }

type bCall struct {
	id, round, key, role int
	spec                 bCallSpec
	post                 int
	inv, ret             uint64
	invA, retA           atomic.Uint64
	runs                 atomic.Int32
	ownStarted           atomic.Bool
	execs                []*bExec // guarded by bHist.mu
	started, release     chan struct{}

	gotVal   any
	gotErr   error
	gotFresh bool
	panicked any
	doc      *bDoc
	// node, leader with a post action: what the object held when its Take returned (read before it is touched)
	peekH       int64
	peekK, peek int
	peekName    string
	otherErr    error
}

func (c *bCall) desc() string {
	return fmt.Sprintf("c%d(round %d %s k%d %s inv@%d ret@%d)", c.id, c.round, roleNames[c.role], c.key, c.spec.String(), c.inv, c.ret)
}

type bRoundRt struct {
	leader    *bCall
	followers []*bCall
	held      bool
	parked    int // followers observed parked inside createCall when the leading function was released
	dumps     int
}

type bHist struct {
	spec   *bSpec
	nonce  int64
	label  string
	sf     syncx.SingleFlight
	rm     *syncx.ResourceManager
	mem    *collection.Cache
	node   cache.Cache
	sq     sqlc.CachedConn
	names  [bMaxKeys]string
	others [bMaxKeys]string
	kst    [bMaxKeys]*kstate
	gauge  [bMaxKeys]kit.Gauge
	fnEnds [bMaxKeys]atomic.Int64
	abort  atomic.Bool
	mu     sync.Mutex
	execs  []*bExec
	calls  []*bCall
	rounds []*bRoundRt
}

func (h *bHist) newCall(round, key, role int, spec bCallSpec) *bCall {
	c := &bCall{id: len(h.calls), round: round, key: key, role: role, spec: spec}
	h.calls = append(h.calls, c)
	return c
}

// enter / leave bracket every run of a supplied function, whoever runs it.
func (h *bHist) enter(cr *bCall) *bExec {
	if uVC != nil {
		uVC.Advance(breakerWindow)
	}
	n := cr.runs.Add(1)
	e := &bExec{h: h, call: cr, key: cr.key, sh: cr.spec.Sh}
	h.mu.Lock()
	h.execs = append(h.execs, e)
	e.id = len(h.execs)
	cr.execs = append(cr.execs, e)
	h.mu.Unlock()
	h.gauge[e.key].Enter()
	e.start = kit.Stamp()
	cr.ownStarted.Store(true)
	if cr.started != nil && n == 1 {
		close(cr.started)
		<-cr.release
	} else {
		for i := 0; i < cr.spec.Linger && h.gauge[e.key].Cur() < 2; i++ {
			runtime.Gosched()
		}
	}
	return e
}

func (h *bHist) leave(e *bExec) {
	e.end = kit.Stamp()
	h.gauge[e.key].Exit()
	h.fnEnds[e.key].Add(1)
}

func (h *bHist) otherQuery(k int) func(any) error {
	return func(x any) error {
		*x.(*bDoc) = *mkDoc(h.nonce, 100+k, 0, h.spec.Size)
		return nil
	}
}

func (h *bHist) take(cr *bCall, doc *bDoc, key string, q func(any) error) error {
	switch {
	case h.spec.Sqlc:
		return h.sq.QueryRow(doc, key, func(_ sqlx.SqlConn, v any) error { return q(v) })
	case cr.spec.Ex:
		return h.node.TakeWithExpire(doc, key, func(v any, _ time.Duration) error { return q(v) })
	}
	return h.node.Take(doc, key, q)
}

func (h *bHist) invoke(cr *bCall) {
	defer func() {
		if r := recover(); r != nil {
			cr.panicked = r
		}
	}()
	if uVC != nil {
		uVC.Advance(breakerWindow)
	}
	key := h.names[cr.key]
	switch h.spec.API {
	case bSF:
		fn := func() (any, error) {
			e := h.enter(cr)
			if e.sh.hasVal() {
				e.val = e
			}
			e.err = shapeErr(e.sh, e)
			h.leave(e)
			return e.val, e.err
		}
		if cr.spec.Ex {
			cr.gotVal, cr.gotFresh, cr.gotErr = h.sf.DoEx(key, fn)
		} else {
			cr.gotVal, cr.gotErr = h.sf.Do(key, fn)
		}
	case bRM:
		res, err := h.rm.GetResource(key, func() (io.Closer, error) {
			e := h.enter(cr)
			var r io.Closer
			if e.sh.hasVal() {
				br := &bRes{e}
				e.val, r = br, br
			}
			e.err = shapeErr(e.sh, e)
			h.leave(e)
			return r, e.err
		})
		if res != nil {
			cr.gotVal = res
		}
		cr.gotErr = err
	case bMem:
		cr.gotVal, cr.gotErr = h.mem.Take(key, func() (any, error) {
			e := h.enter(cr)
			if e.sh.hasVal() {
				e.val = e
			}
			e.err = shapeErr(e.sh, e)
			h.leave(e)
			return e.val, e.err
		})
	case bNode:
		doc := &bDoc{}
		cr.doc = doc
		err := h.take(cr, doc, key, func(x any) error {
			e := h.enter(cr)
			if e.sh.hasVal() {
				*x.(*bDoc) = *mkDoc(h.nonce, e.key, e.id, h.spec.Size)
			}
			e.err = shapeErr(e.sh, e)
			h.leave(e)
			return e.err
		})
		if cr.post != postNone {
			// the object is this caller's own again: look at it, then use it
			cr.peekH, cr.peekK, cr.peek, cr.peekName = doc.H, doc.K, doc.E, doc.Name
			switch cr.post {
			case postScribble:
				scribble(doc, false)
			case postScribbleMaps:
				scribble(doc, true)
			case postReuseCached, postReuseNotCached:
				cr.otherErr = h.take(cr, doc, h.others[cr.key], h.otherQuery(cr.key))
				if cr.otherErr == nil {
					cr.otherErr = h.take(cr, doc, h.others[cr.key], h.otherQuery(cr.key)) // and once more: a cache hit now
				}
			}
		}
		cr.gotErr = err
	}
}

func (h *bHist) runCall(cr *bCall, wg *sync.WaitGroup, wait func()) {
	defer wg.Done()
	if wait != nil {
		wait()
	}
	cr.inv = kit.Stamp()
	cr.invA.Store(cr.inv)
	h.invoke(cr)
	cr.ret = kit.Stamp()
	cr.retA.Store(cr.ret)
}

const (
	parkWatchdog  = 30 * time.Second
	roundWatchdog = 90 * time.Second
)

// parkedInFlight counts the goroutines of this history that have joined a flight: they are inside
// flightGroup.createCall, in (or about to park in) WaitGroup.Wait.
func (h *bHist) parkedInFlight() int {
	n := 0
	for _, g := range kit.LabelledGoroutines(h.label) {
		if strings.Contains(g.Stack, "syncx.(*flightGroup).createCall") && strings.Contains(g.Stack, "sync.(*WaitGroup).Wait") {
			n += g.Count
		}
	}
	return n
}

// waitParked returns once every follower is parked on the flight, has started a function of its
// own or has returned (states, not durations); the watchdog only ends the waiting.
func (h *bHist) waitParked(rt *bRoundRt) {
	deadline := time.Now().Add(parkWatchdog)
	for i := 0; ; i++ {
		moved, invoked := 0, 0
		for _, f := range rt.followers {
			if f.ownStarted.Load() || f.retA.Load() != 0 {
				moved++
			}
			if f.invA.Load() != 0 {
				invoked++
			}
		}
		if moved >= len(rt.followers) {
			return
		}
		if invoked >= len(rt.followers) && i >= 2 {
			rt.parked = h.parkedInFlight()
			rt.dumps++
			if rt.parked+moved >= len(rt.followers) {
				if rt.parked > len(rt.followers) {
					rt.parked = len(rt.followers)
				}
				return
			}
		}
		if h.abort.Load() || time.Now().After(deadline) {
			return
		}
		if i < 6 {
			runtime.Gosched()
		} else {
			time.Sleep(time.Duration(20*(1+i%50)) * time.Microsecond)
		}
	}
}

func waitWG(wg *sync.WaitGroup, d time.Duration) bool {
	done := make(chan struct{})
	go func() { wg.Wait(); close(done) }()
	tm := time.NewTimer(d)
	defer tm.Stop()
	select {
	case <-done:
		return true
	case <-tm.C:
		return false
	}
}

func (h *bHist) run(c *kit.Case) bool {
	ok := false
	kit.WithLabel(h.label, func() { ok = h.run1(c) })
	return ok
}

func (h *bHist) run1(c *kit.Case) bool {
	s := h.spec
	h.nonce = uHistSeq.Add(1)
	for k := 0; k < s.Keys; k++ {
		h.names[k] = fmt.Sprintf("c07b:%s:%d:k%d", c.ID, h.nonce, k)
		h.others[k] = h.names[k] + ":other"
	}
	switch s.API {
	case bSF:
		h.sf = syncx.NewSingleFlight()
	case bRM:
		h.rm = syncx.NewResourceManager()
	case bMem:
		h.mem = uMem
		if s.Limit {
			h.mem = uMemLim
		}
	case bNode:
		for k := 0; k < s.Keys; k++ {
			h.kst[k] = &kstate{}
			h.kst[k].mode.Store(int32(s.Mode[k]))
			uKeys.Store(h.names[k], h.kst[k])
		}
		defer func() {
			for k := 0; k < s.Keys; k++ {
				uKeys.Delete(h.names[k])
				uMr.Del(h.names[k])
				uMr.Del(h.others[k])
			}
		}()
		if s.Sqlc {
			h.sq = sqlc.NewNodeConn(nil, uRds, cache.WithExpiry(time.Hour), cache.WithNotFoundExpiry(time.Hour))
		} else {
			h.node = cache.NewNode(uRds, syncx.NewSingleFlight(), uStat, sql.ErrNoRows, cache.WithExpiry(time.Hour), cache.WithNotFoundExpiry(time.Hour))
		}
	}
	for ri := range s.Rounds {
		rd := &s.Rounds[ri]
		rt := &bRoundRt{}
		h.rounds = append(h.rounds, rt)
		if s.API == bNode {
			if rd.Garbage {
				uMr.Set(h.names[rd.Key], `{"h":12,"k":"not a number`)
			}
			other := h.others[rd.Key]
			switch rd.Post {
			case postReuseCached:
				od := mkDoc(h.nonce, 100+rd.Key, 0, s.Size)
				var err error
				if s.Sqlc {
					err = h.sq.SetCache(other, od)
				} else if ri%2 == 0 {
					err = h.node.Set(other, od)
				} else {
					err = h.node.SetWithExpire(other, od, time.Hour)
				}
				if err != nil {
					c.Obs("node_take_other_key_could_not_be_cached", 1)
				}
			case postReuseNotCached:
				uMr.Del(other)
			}
		}
		var wg sync.WaitGroup
		ld := h.newCall(ri, rd.Key, roleLeader, rd.Leader)
		ld.post = rd.Post
		ld.started, ld.release = make(chan struct{}), make(chan struct{})
		rt.leader = ld
		released := false
		release := func() {
			if !released {
				released = true
				close(ld.release)
			}
		}
		wg.Add(1)
		ldDone := make(chan struct{})
		go func() {
			defer close(ldDone)
			h.runCall(ld, &wg, nil)
		}()
		tm := time.NewTimer(roundWatchdog)
		select {
		case <-ld.started:
			rt.held = true
		case <-ldDone: // served without running its function (stored value / instance)
		case <-tm.C:
			h.abort.Store(true)
			release()
			c.Inconclusive(fmt.Sprintf("%s: the leading call of round %d neither started its function nor returned within %v; history abandoned, no verdict", s.Fam, ri, roundWatchdog))
			return false
		}
		tm.Stop()
		for _, cs := range rd.Followers {
			f := h.newCall(ri, rd.Key, roleFollower, cs)
			rt.followers = append(rt.followers, f)
			wg.Add(1)
			go h.runCall(f, &wg, nil)
		}
		if rt.held {
			h.waitParked(rt)
		}
		seen := h.fnEnds[rd.Key].Load()
		key := rd.Key
		for _, cs := range rd.Late {
			l := h.newCall(ri, rd.Key, roleLate, cs)
			wg.Add(1)
			go h.runCall(l, &wg, func() {
				for j := 0; h.fnEnds[key].Load() == seen && ld.retA.Load() == 0 && !h.abort.Load(); j++ {
					if j&15 == 15 {
						runtime.Gosched()
					}
				}
			})
		}
		for _, cs := range rd.After {
			a := h.newCall(ri, rd.Key, roleAfter, cs)
			wg.Add(1)
			go h.runCall(a, &wg, func() {
				for j := 0; ld.retA.Load() == 0 && !h.abort.Load(); j++ {
					if j&15 == 15 {
						runtime.Gosched()
					}
				}
			})
		}
		release()
		if !waitWG(&wg, roundWatchdog) {
			h.abort.Store(true)
			c.Inconclusive(fmt.Sprintf("%s: round %d did not finish within %v after the leading function was released: calls never returned; history abandoned, no verdict", s.Fam, ri, roundWatchdog))
			return false
		}
	}
	for _, t := range s.Tail {
		var wg sync.WaitGroup
		wg.Add(1)
		cr := h.newCall(len(s.Rounds), t.Key, roleTail, t.Call)
		go h.runCall(cr, &wg, nil)
		if !waitWG(&wg, roundWatchdog) {
			h.abort.Store(true)
			c.Inconclusive(fmt.Sprintf("%s: a call of the sequential tail did not return within %v; history abandoned, no verdict", s.Fam, roundWatchdog))
			return false
		}
	}
	return true
}

// ---------------------------------------------------------------- oracle

type bStats struct {
	calls, execs                              int64
	roundsHeld, parked, dumps                 int64
	parkedByClass                             map[string]int64
	parkedGivenLeaders                        int64 // parked followers (ran nothing) whose result is the held leading execution's
	arrivals, arrivalsAfresh, arrivalsJoined  int64
	fresh                                     int64
	tailAfresh                                int64
	sharedErrs, sharedByIdentity              int64
	sharersByteChecked, sharersOfOverlapping  int64
	scribbleRounds, reuseRounds, aloneRounds  int64
	notFoundShared, valuesFromStore, storeErr int64
	reuseOtherOK                              int64
	nontrivial                                bool
}

func (h *bHist) dump(key, max int) []string {
	type ev struct {
		s uint64
		t string
	}
	var evs []ev
	for _, c := range h.calls {
		if key >= 0 && c.key != key {
			continue
		}
		evs = append(evs, ev{c.inv, fmt.Sprintf("c%d r%d %s k%d inv %s", c.id, c.round, roleNames[c.role], c.key, c.spec.String())})
		got := ""
		switch {
		case c.panicked != nil:
			got = "PANIC " + fmt.Sprint(c.panicked)
		case h.spec.API == bNode:
			if c.post != postNone {
				got = fmt.Sprintf("err=%s doc{h:%d k:%d e:%d name:%q} then %s", errText(c.gotErr), c.peekH, c.peekK, c.peek, c.peekName, postNames[c.post])
			} else {
				got = fmt.Sprintf("err=%s doc{h:%d k:%d e:%d name:%q}", errText(c.gotErr), c.doc.H, c.doc.K, c.doc.E, c.doc.Name)
			}
		default:
			v := fmt.Sprint(c.gotVal)
			switch x := c.gotVal.(type) {
			case *bExec:
				v = "value of " + x.name()
			case *bRes:
				v = "instance of " + x.e.name()
			}
			got = fmt.Sprintf("val=%s err=%s", v, errText(c.gotErr))
			if h.spec.API == bSF && c.spec.Ex {
				got += fmt.Sprint(" fresh=", c.gotFresh)
			}
		}
		evs = append(evs, ev{c.ret, fmt.Sprintf("c%d ret %s", c.id, got)})
	}
	for _, e := range h.execs {
		if key >= 0 && e.key != key {
			continue
		}
		evs = append(evs, ev{e.start, fmt.Sprintf("c%d fnstart %s", e.call.id, e.name())})
		evs = append(evs, ev{e.end, fmt.Sprintf("c%d fnend %s returns %s", e.call.id, e.name(), e.sh)})
	}
	sort.Slice(evs, func(i, j int) bool { return evs[i].s < evs[j].s })
	var out []string
	for i, e := range evs {
		if i >= max {
			out = append(out, fmt.Sprintf("... %d more events", len(evs)-max))
			break
		}
		out = append(out, fmt.Sprintf("%d %s", e.s, e.t))
	}
	return out
}

func (h *bHist) signature() uint64 {
	type ev struct{ s, b uint64 }
	var evs []ev
	for _, c := range h.calls {
		b := uint64(c.key)<<4 | uint64(c.role)<<8
		if c.runs.Load() > 0 {
			b |= 1 << 3
		}
		evs = append(evs, ev{c.inv, b}, ev{c.ret, b | 1})
	}
	for _, e := range h.execs {
		b := uint64(e.key)<<4 | uint64(e.sh)<<16
		evs = append(evs, ev{e.start, b | 2}, ev{e.end, b | 3})
	}
	sort.Slice(evs, func(i, j int) bool { return evs[i].s < evs[j].s })
	x := uint64(14695981039346656037)
	for _, e := range evs {
		x = (x ^ e.b) * 1099511628211
	}
	return x
}

// flightClass: the result class of the leading execution of the flight a call took part in - its
// own execution if it ran one, else the held leading execution of its round.
func (h *bHist) flightClass(c *bCall) string {
	if len(c.execs) > 0 {
		return "leader-result=" + c.execs[0].sh.class()
	}
	if j := h.joined(c); j != nil {
		return "leader-result=" + j.sh.class()
	}
	return h.leaderClass(c)
}

// joined: the execution of another call whose flight was registered for the key at the moment
// c was invoked (its function had started and its leading call had not returned yet); the latest
// started one if several qualify.
func (h *bHist) joined(c *bCall) *bExec {
	var j *bExec
	for _, e := range h.execs {
		if e.key == c.key && e.call != c && e.start < c.inv && c.inv < e.call.ret && (j == nil || e.start > j.start) {
			j = e
		}
	}
	return j
}

// overlapClass: the class of the failing input of two overlapping executions = the result of the
// flight their callers had joined before they ran functions of their own.
func (h *bHist) overlapClass(first, second *bExec) string {
	var root *bExec
	for _, e := range []*bExec{second, first} {
		// the earlier one: an execution outside the group is itself "joined" by later callers
		if j := h.joined(e.call); j != nil && (root == nil || j.start < root.start) {
			root = j
		}
	}
	if root == nil {
		return "no-flight-joined"
	}
	return "leader-result=" + root.sh.class()
}

// leaderClass: the result class of the leading execution of the round a call belongs to.
func (h *bHist) leaderClass(c *bCall) string {
	if c.round < len(h.rounds) {
		ld := h.rounds[c.round].leader
		if len(ld.execs) > 0 {
			return "leader-result=" + ld.execs[0].sh.class()
		}
		return "leader-ran-nothing"
	}
	return "sequential-tail"
}

func bOverlaps(a, b *bCall) bool { return a.inv < b.ret && b.inv < a.ret }

func checkBurst(c *kit.Case, h *bHist) (st bStats) {
	kind := bKinds[h.spec.API]
	st.parkedByClass = map[string]int64{}
	seen := map[string]bool{}
	viol := func(class, what string, key int, extra map[string]any) {
		k := "C07/" + kind + "/" + class
		if seen[k] {
			return
		}
		seen[k] = true
		violCount++
		w := map[string]any{"history": h.spec.render(), "events_of_key": h.dump(key, 600), "key": fmt.Sprintf("k%d", key)}
		if key >= 0 && key < bMaxKeys && h.kst[key] != nil {
			ks := h.kst[key]
			w["redis_for_this_key"] = map[string]any{"GET": ks.gets.Load(), "DEL": ks.dels.Load(), "SET_of_value_stored": ks.valStores.Load(),
				"SET_of_placeholder_stored": ks.nfStores.Load(), "SET_refused_with_error": ks.refused.Load(), "SET_acknowledged_and_dropped": ks.dropped.Load()}
		}
		for a, b := range extra {
			w[a] = b
		}
		c.Viol(k, what, w)
	}

	// ---- at most one supplied function per key in progress
	var byKey [bMaxKeys][]*bExec
	for _, e := range h.execs {
		byKey[e.key] = append(byKey[e.key], e)
		st.execs++
	}
	for k := range byKey {
		sort.Slice(byKey[k], func(i, j int) bool { return byKey[k][i].start < byKey[k][j].start })
		var prev *bExec
		reported := false
		for _, e := range byKey[k] {
			if prev != nil && e.start < prev.end && !reported {
				reported = true
				viol("overlapping-executions/"+h.overlapClass(prev, e), "two supplied functions of the same key were in progress at the same time", k,
					map[string]any{"first": fmt.Sprintf("%s of %s ran [%d,%d]", prev.name(), prev.call.desc(), prev.start, prev.end),
						"second": fmt.Sprintf("%s of %s ran [%d,%d]", e.name(), e.call.desc(), e.start, e.end), "max_simultaneous(online gauge)": h.gauge[k].Max()})
			}
			if prev == nil || e.end > prev.end {
				prev = e
			}
		}
		if m := h.gauge[k].Max(); m > 1 && !reported {
			viol("overlapping-executions/stamps-do-not-overlap", "supplied functions of the same key were in progress simultaneously (online gauge)", k, map[string]any{"max_simultaneous": m})
		}
	}

	// ---- rounds (coverage)
	for _, rt := range h.rounds {
		st.dumps += int64(rt.dumps)
		if !rt.held {
			continue
		}
		st.roundsHeld++
		st.parked += int64(rt.parked)
		if rt.parked > 0 {
			st.nontrivial = true
			if len(rt.leader.execs) > 0 {
				st.parkedByClass[rt.leader.execs[0].sh.class()] += int64(rt.parked)
			}
		}
		switch postClass[rt.leader.post] {
		case "leader-mutated-its-result":
			st.scribbleRounds++
		case "leader-reused-its-target-for-another-key":
			st.reuseRounds++
			if rt.leader.otherErr == nil {
				st.reuseOtherOK++
			}
		default:
			st.aloneRounds++
		}
	}

	// ---- what every caller received
	freshOf := map[*bExec]int{}
	allEx := true
	for _, cl := range h.calls {
		st.calls++
		k := cl.key
		if !cl.spec.Ex {
			allEx = false
		}
		lc := h.flightClass(cl)
		if cl.panicked != nil {
			viol("panic/"+lc, "the call panicked although no supplied function did", k, map[string]any{"call": cl.desc(), "panic": fmt.Sprint(cl.panicked)})
			continue
		}
		if n := cl.runs.Load(); n > 1 {
			viol("own-function-run-more-than-once/"+lc, "one call ran its supplied function more than once", k, map[string]any{"call": cl.desc(), "runs": n})
			continue
		}
		arrival := cl.role == roleLate || cl.role == roleAfter
		if arrival {
			st.arrivals++
			if cl.runs.Load() > 0 {
				st.arrivalsAfresh++
			} else {
				st.arrivalsJoined++
			}
		}
		if cl.role == roleTail && cl.runs.Load() > 0 {
			st.tailAfresh++
		}
		// candidate executions: own ones, and those whose leading call overlaps this call
		cand := func(e *bExec) bool { return e.call == cl || bOverlaps(e.call, cl) }
		heldLeaderExec := func() *bExec {
			if cl.role == roleFollower && cl.runs.Load() == 0 && h.rounds[cl.round].held && len(h.rounds[cl.round].leader.execs) > 0 {
				return h.rounds[cl.round].leader.execs[0]
			}
			return nil
		}
		switch h.spec.API {
		case bSF:
			var match, ok *bExec
			for _, e := range byKey[k] {
				if same(cl.gotVal, e.val) && same(cl.gotErr, e.err) {
					if match == nil {
						match = e
					}
					if cand(e) && ok == nil {
						ok = e
					}
				}
			}
			api := "Do"
			if cl.spec.Ex {
				api = "DoEx"
			}
			switch {
			case match == nil:
				viol("result-of-no-execution/"+api+"/"+lc, "the caller received a (value, error) pair that is not identical to the pair any execution of its key returned (error identity included)", k,
					map[string]any{"call": cl.desc(), "value": fmt.Sprint(cl.gotVal), "error": errText(cl.gotErr), "fresh": cl.gotFresh})
				continue
			case ok == nil && match.call.ret < cl.inv:
				viol("stale-result/"+api+"/"+lc, "the caller received the result of an execution whose leading call had already returned before the caller was invoked", k,
					map[string]any{"caller": cl.desc(), "leading_call": match.call.desc(), "execution": match.name()})
				continue
			case ok == nil:
				viol("result-from-later-call/"+api+"/"+lc, "the caller received the result of an execution whose leading call was invoked after the caller had returned", k,
					map[string]any{"caller": cl.desc(), "leading_call": match.call.desc(), "execution": match.name()})
				continue
			}
			// unique attribution where the pair identifies the execution
			nm := 0
			for _, e := range byKey[k] {
				if cand(e) && same(cl.gotVal, e.val) && same(cl.gotErr, e.err) {
					nm++
				}
			}
			if ok.call != cl && cl.runs.Load() == 0 && ok.err != nil {
				st.sharedErrs++
				if nm == 1 {
					st.sharedByIdentity++
				}
			}
			if le := heldLeaderExec(); le != nil && same(cl.gotVal, le.val) && same(cl.gotErr, le.err) {
				st.parkedGivenLeaders++
			}
			if cl.spec.Ex && cl.gotFresh {
				st.fresh++
				if nm == 1 {
					freshOf[ok]++
					if freshOf[ok] == 2 {
						viol("fresh-reported-to-several-callers/"+lc, "more than one caller of one execution was reported fresh", k,
							map[string]any{"execution": ok.name(), "leading_call": ok.call.desc(), "second_fresh_caller": cl.desc()})
					}
				}
			}
		case bRM, bMem:
			what := "GetResource"
			if h.spec.API == bMem {
				what = "Cache.Take"
			}
			if cl.gotErr == nil {
				// a value: the identical value of a successful execution that started before the call returned
				var src *bExec
				for _, e := range byKey[k] {
					if e.err == nil && e.val != nil && same(cl.gotVal, e.val) {
						src = e
					}
				}
				switch {
				case src == nil:
					viol("value-of-no-execution/"+lc, what+" returned no error and something no successful supplied function of this key produced", k,
						map[string]any{"call": cl.desc(), "got": fmt.Sprint(cl.gotVal)})
				case src.start > cl.ret:
					viol("result-from-later-call/"+lc, what+" returned the value of an execution that started after the call had returned", k,
						map[string]any{"call": cl.desc(), "execution": src.name()})
				default:
					if src.call != cl && !bOverlaps(src.call, cl) {
						st.valuesFromStore++
					}
					if le := heldLeaderExec(); le == src {
						st.parkedGivenLeaders++
					}
				}
				continue
			}
			var match, ok *bExec
			nm := 0
			for _, e := range byKey[k] {
				if e.err != nil && same(cl.gotErr, e.err) {
					if match == nil {
						match = e
					}
					if cand(e) {
						nm++
						if ok == nil {
							ok = e
						}
					}
				}
			}
			switch {
			case match == nil:
				viol("error-of-no-execution/"+lc, what+" returned an error that is not identical to the error any supplied function of its key returned", k,
					map[string]any{"call": cl.desc(), "error": errText(cl.gotErr)})
			case ok == nil:
				viol("stale-error/"+lc, what+" returned the error of an execution whose leading call does not overlap the caller (a failure was retained)", k,
					map[string]any{"caller": cl.desc(), "leading_call": match.call.desc(), "execution": match.name()})
			default:
				if ok.call != cl && cl.runs.Load() == 0 {
					st.sharedErrs++
					if nm == 1 {
						st.sharedByIdentity++
					}
				}
				if le := heldLeaderExec(); le != nil && same(cl.gotErr, le.err) {
					st.parkedGivenLeaders++
				}
			}
		case bNode:
			h.checkNodeCall(cl, byKey[k], cand, heldLeaderExec(), lc, viol, &st)
		}
	}

	// ---- ResourceManager: created successfully at most once, one instance for everyone
	if h.spec.API == bRM {
		for k := range byKey {
			var created *bExec
			for _, e := range byKey[k] {
				if e.err == nil && e.val != nil {
					if created != nil {
						viol("resource-created-successfully-more-than-once", "create succeeded more than once for one key", k,
							map[string]any{"first": created.name() + " of " + created.call.desc(), "second": e.name() + " of " + e.call.desc()})
						break
					}
					created = e
				}
			}
			var first *bCall
			for _, cl := range h.calls {
				if cl.key != k || cl.gotErr != nil || cl.gotVal == nil || cl.panicked != nil {
					continue
				}
				if first == nil {
					first = cl
				} else if !same(first.gotVal, cl.gotVal) {
					viol("different-instances", "two callers of one key were handed different instances", k,
						map[string]any{"one": first.desc(), "other": cl.desc()})
					break
				}
			}
		}
	}
	// ---- DoEx: #fresh = #executions when everybody used DoEx
	if h.spec.API == bSF && allEx && st.fresh != st.execs && len(seen) == 0 {
		viol("fresh-reports-differ-from-executions", "every caller used DoEx, yet the number of callers reported fresh differs from the number of executions", 0,
			map[string]any{"fresh_reports": st.fresh, "executions": st.execs})
	}
	return st
}

// checkNodeCall judges one Take / TakeWithExpire / QueryRow.
func (h *bHist) checkNodeCall(cl *bCall, execs []*bExec, cand func(*bExec) bool, heldLeader *bExec, lc string,
	viol func(class, what string, key int, extra map[string]any), st *bStats) {
	k := cl.key
	ks := h.kst[k]
	valStorable, nfStorable := false, false
	if s := ks.firstVal.Load(); s != 0 && s < cl.ret {
		valStorable = true
	}
	if s := ks.firstNF.Load(); s != 0 && s < cl.ret {
		nfStorable = true
	}
	own := cl.runs.Load() > 0
	// the post action of the leading call whose flight this call shared (class of the failing input)
	sharedPost := func(e *bExec) string {
		if e != nil {
			return postClass[e.call.post]
		}
		if cl.round < len(h.rounds) {
			return postClass[h.rounds[cl.round].leader.post]
		}
		return postClass[postNone]
	}
	if cl.gotErr == nil {
		// the document as the caller holds it (a leader with a post action looked at it before touching it)
		dH, dK, dE := cl.doc.H, cl.doc.K, cl.doc.E
		if cl.post != postNone {
			dH, dK, dE = cl.peekH, cl.peekK, cl.peek
		}
		var src *bExec
		if dH == h.nonce && dE >= 1 && dE <= len(h.execs) && h.execs[dE-1].key == k && dK == k {
			src = h.execs[dE-1]
		}
		if src != nil && cl.post == postNone {
			got, err := json.Marshal(cl.doc)
			want, _ := json.Marshal(mkDoc(h.nonce, k, src.id, h.spec.Size))
			if err != nil || !bytes.Equal(got, want) {
				src = nil
			} else if !own {
				st.sharersByteChecked++
			}
		} else if src != nil && cl.peekName != mkDoc(h.nonce, k, src.id, 0).Name {
			src = nil
		}
		switch {
		case src == nil || !src.sh.hasVal() || src.err != nil:
			class := "value-of-no-execution/" + lc
			what := "the call returned no error and a document no query of this key produced"
			if !own {
				class = "sharer-value-of-no-execution/" + sharedPost(nil)
				what = "a call that ran no query itself returned no error and a document that no query of this key produced (compared byte for byte after canonical JSON)"
			}
			g, _ := json.Marshal(cl.doc)
			if len(g) > 700 {
				g = append(g[:700], "..."...)
			}
			viol(class, what, k, map[string]any{"call": cl.desc(), "document_received": string(g),
				"leader_of_this_round_after_its_take_returned": sharedPost(nil)})
		case src.start > cl.ret:
			viol("result-from-later-call/"+lc, "the call returned the document of a query that started after the call had returned", k, map[string]any{"call": cl.desc(), "query": src.name()})
		case cand(src):
			if !own {
				st.sharersOfOverlapping++
				if heldLeader == src {
					st.parkedGivenLeaders++
				}
			}
		case valStorable:
			st.valuesFromStore++
		default:
			viol("stale-result/"+lc, "the call returned the document of a query whose owning call does not overlap it, although no value had been accepted for storing for this key (a retained result)", k,
				map[string]any{"caller": cl.desc(), "leading_call": src.call.desc(), "query": src.name()})
		}
		return
	}
	isNF := errors.Is(cl.gotErr, sql.ErrNoRows)
	if h.node != nil {
		isNF = h.node.IsNotFound(cl.gotErr)
	}
	if isNF {
		explained, shared := false, false
		for _, e := range execs {
			if !e.sh.notFound() || e.start > cl.ret {
				continue
			}
			if cand(e) {
				explained, shared = true, e.call != cl
				break
			}
			if nfStorable {
				explained = true
			}
		}
		switch {
		case shared:
			st.notFoundShared++
			if heldLeader != nil && heldLeader.sh.notFound() {
				st.parkedGivenLeaders++
			}
		case explained:
		default:
			viol("not-found-of-no-execution/"+lc, "the call returned the not-found error although no own / overlapping query returned sql.ErrNoRows and no placeholder can have been stored", k,
				map[string]any{"call": cl.desc(), "error": errText(cl.gotErr)})
		}
		return
	}
	var match, ok *bExec
	nm := 0
	for _, e := range execs {
		if e.err != nil && !e.sh.notFound() && same(cl.gotErr, e.err) {
			if match == nil {
				match = e
			}
			if cand(e) {
				nm++
				if ok == nil {
					ok = e
				}
			}
		}
	}
	switch {
	case ok != nil:
		if ok.call != cl && !own {
			st.sharedErrs++
			if nm == 1 {
				st.sharedByIdentity++
			}
			if heldLeader != nil && same(cl.gotErr, heldLeader.err) {
				st.parkedGivenLeaders++
			}
		}
	case match != nil:
		switch match.sh {
		case shEOF, shUnexpectedEOF, shNetClosed, shOSDeadline:
			st.storeErr++ // the store's driver can produce these sentinels itself: not judged
		default:
			viol("stale-error/"+lc, "the call returned the error of a query whose owning call does not overlap it (errors are never stored: a retained result)", k,
				map[string]any{"caller": cl.desc(), "leading_call": match.call.desc(), "query": match.name()})
		}
	default:
		// not the error object of any query: an error of the store (never judged), unless it is a copy of a query's error
		txt := errText(cl.gotErr)
		if strings.Contains(txt, "(string: `") {
			// core/jsonx could not decode what go-zero itself had serialised for the callers of a flight
			// (an undecodable cache entry never surfaces: processCache turns it into a miss)
			cls := "value-of-no-execution/" + lc
			if !own {
				cls = "sharer-value-of-no-execution/" + sharedPost(nil)
			}
			if len(txt) > 600 {
				txt = txt[:300] + " ... " + txt[len(txt)-250:]
			}
			viol(cls, "the call returned a JSON decoding error for the document go-zero handed it: it received neither a document nor an error any query produced", k,
				map[string]any{"call": cl.desc(), "error": txt, "leader_of_this_round_after_its_take_returned": sharedPost(nil)})
			return
		}
		for _, e := range execs {
			if e.err != nil && e.sh.class() != "well-known-sentinel" && e.sh != shCanceled && e.sh != shDeadline && e.sh != shValAndCanceled && errText(e.err) == txt {
				viol("error-of-no-execution/"+lc, "the call returned an error that reads like the error of a query but is not that error object", k,
					map[string]any{"call": cl.desc(), "error": txt, "query": e.name()})
				return
			}
		}
		st.storeErr++
	}
}

// ---------------------------------------------------------------- one evaluation

var bLabelSeq atomic.Int64

func runBurst(c *kit.Case, fam string) {
	api := famAPI(fam)
	if api == bMem || api == bNode {
		if err := uSetup(); err != nil {
			c.Inconclusive("users: stores could not be started: " + err.Error())
			return
		}
	}
	spec := genBurst(c.R, fam)
	reps := 1
	if kit.GetEnv().Only != "" {
		reps = 50
	}
	hits := 0
	p := strings.ReplaceAll(fam, "-", "_") + "_"
	for rep := 0; rep < reps; rep++ {
		before := violCount
		h := &bHist{spec: spec, label: fmt.Sprintf("%s#b%d", c.ID, bLabelSeq.Add(1))}
		if !h.run(c) {
			c.Obs("histories_abandoned", 1)
			return
		}
		c.Obs("histories_"+fam, 1)
		st := checkBurst(c, h)
		if violCount > before {
			hits++
		}
		c.Obs(p+"calls", st.calls)
		c.Obs(p+"executions", st.execs)
		c.Obs(p+"rounds_with_held_leader", st.roundsHeld)
		c.Obs(p+"followers_parked_on_the_flight_at_release", st.parked)
		for _, cls := range shapeClasses {
			if n := st.parkedByClass[cls]; n > 0 {
				c.Obs(p+"followers_parked_when_leader_ended_with_"+strings.ReplaceAll(cls, "-", "_"), n)
			}
		}
		c.Obs(p+"parked_followers_given_exactly_the_leaders_result", st.parkedGivenLeaders)
		c.Obs(p+"followers_sharing_an_error", st.sharedErrs)
		c.Obs(p+"of_those_error_object_identifies_the_execution", st.sharedByIdentity)
		c.Obs(p+"arrivals_right_after_the_flight", st.arrivals)
		c.Obs(p+"of_those_ran_afresh", st.arrivalsAfresh)
		c.Obs(p+"of_those_joined_a_flight_or_were_served", st.arrivalsJoined)
		c.Obs(p+"tail_calls_executed_afresh", st.tailAfresh)
		c.Obs(p+"goroutine_dumps_for_parking", st.dumps)
		if api == bSF {
			c.Obs(p+"fresh_reports", st.fresh)
		}
		if api != bSF {
			c.Obs(p+"values_explained_by_store", st.valuesFromStore)
		}
		if api == bNode {
			c.Obs(p+"sharers_compared_byte_for_byte", st.sharersByteChecked)
			c.Obs(p+"sharers_given_document_of_overlapping_query", st.sharersOfOverlapping)
			c.Obs(p+"rounds_leader_overwrote_its_result", st.scribbleRounds)
			c.Obs(p+"rounds_leader_reused_its_target_for_another_key", st.reuseRounds)
			c.Obs(p+"of_those_second_take_succeeded", st.reuseOtherOK)
			c.Obs(p+"rounds_leader_left_its_result_alone", st.aloneRounds)
			c.Obs(p+"sharers_given_not_found_of_overlapping_query", st.notFoundShared)
			c.Obs(p+"store_errors_unconstrained", st.storeErr)
		}
		if st.nontrivial {
			c.Obs("nontrivial_"+fam, 1)
		}
		var parts []any
		parts = append(parts, fam, spec.Sqlc)
		for i, rt := range h.rounds {
			cls := "-"
			if len(rt.leader.execs) > 0 {
				cls = rt.leader.execs[0].sh.String()
			}
			parts = append(parts, i, cls, rt.parked, rt.leader.post, rt.leader.spec.Ex)
		}
		parts = append(parts, h.signature())
		c.Sig(st.nontrivial, parts...)
		if rep == 0 && len(h.calls) <= 16 {
			cls := fam + "/trivial"
			if st.nontrivial {
				cls = fam + "/nontrivial"
			}
			c.Sample(cls, 1, map[string]any{"history": spec.render(), "events": h.dump(-1, 120), "calls": st.calls, "executions": st.execs,
				"followers_parked_on_the_flight_at_release": st.parked})
		}
	}
	if reps > 1 {
		c.Obs("replay_runs", int64(reps))
		c.Obs("replay_runs_with_violation", int64(hits))
	}
}
