package c07

// rm-life: histories that mix ResourceManager.GetResource, Inject and (at the very
// end, when nothing else is in progress) Close.
//
// What the code documents and the statement implies, and nothing more:
//
//   - per key at most one create function is in progress at any time, and create
//     succeeds at most once (nothing ever removes a key before Close, Inject only
//     overwrites);
//   - a GetResource call that was invoked after a write of its key had completed (a
//     successful create whose call returned, or an Inject that returned) never calls
//     create again;
//   - the instance a GetResource call hands out is the register value of its key: the
//     instance its own / an overlapping call's create just produced, or the instance of
//     a write (Inject / successful create) that started before the call returned and
//     was not *definitely* overwritten (by a write that began after it had completed and
//     itself completed before the earliest moment the flight this call can have joined
//     could have looked the key up). For an Inject that no GetResource of the key
//     overlaps this collapses to "every later GetResource returns the injected instance
//     without calling create"; where writes and lookups overlap only these necessary
//     conditions are asserted (a follower may legally be handed what its leader looked
//     up before the Inject);
//   - an error is the error of a failed create whose call overlaps the caller's;
//   - Close (called once, after every other call has returned) closes the instance that
//     is current for each key exactly once and reports the errors those Close calls
//     returned (errorx.BatchError = errors.Join). What happens to instances that were
//     overwritten by Inject, a second Close and any use after Close ("Don't use the
//     ResourceManager after Close() called") are only observed, never judged - except
//     that a second Close must not panic (go-zero's own tests defer one).

import (
	"errors"
	"fmt"
	"io"
	"runtime"
	"sort"
	"strings"
	"sync/atomic"
	"time"

	"github.com/zeromicro/go-zero/core/syncx"

	"verifharness/kit"
)

const famRmLife = "rm-life"

const (
	lifeGet = iota
	lifeInject
)

type lifeOp struct {
	Kind     int
	Key      int
	Body, N  int
	Fail     bool // create returns an error
	CloseErr bool // the instance this op produces / injects fails to close
}

func (o lifeOp) String() string {
	if o.Kind == lifeInject {
		s := fmt.Sprintf("Inject(k%d)", o.Key)
		if o.CloseErr {
			s += ":closefails"
		}
		return s
	}
	cs := callSpec{Key: o.Key, Body: o.Body, N: o.N}
	if o.Fail {
		cs.Res = resErr
	}
	s := "Get:" + cs.String()
	if o.CloseErr {
		s += ":closefails"
	}
	return s
}

type lifeGor struct {
	Chaser bool
	Ops    []lifeOp
}

type lifeSpec struct {
	Keys        int
	Phases      [][]lifeGor // phase 0 may be a sequential prologue of Injects; the last one is the sequential tail
	SecondClose bool
	UseAfter    bool
}

func (s *lifeSpec) render() map[string]any {
	ph := make([]any, len(s.Phases))
	for i, p := range s.Phases {
		gs := make([]string, len(p))
		for j, g := range p {
			parts := make([]string, len(g.Ops))
			for k, o := range g.Ops {
				parts[k] = o.String()
			}
			pre := ""
			if g.Chaser {
				pre = "chaser "
			}
			gs[j] = pre + strings.Join(parts, " ")
		}
		ph[i] = gs
	}
	return map[string]any{"family": famRmLife, "keys": s.Keys, "phases(last=sequential tail, then Close)": ph,
		"second_close": s.SecondClose, "use_after_close": s.UseAfter,
		"legend": "Get:k<key>:<create body>:<val|err> = GetResource whose create succeeds|fails; Inject(k) injects a fresh instance; one string per goroutine"}
}

func genLife(r *kit.Rand) *lifeSpec {
	s := &lifeSpec{Keys: kit.Choose(r, []int{1, 1, 2, 3, 4})}
	s.SecondClose = r.Chance(0.4)
	s.UseAfter = r.Chance(0.3)
	failP := kit.Choose(r, []float64{0, 0.2, 0.5, 0.8})
	injP := kit.Choose(r, []float64{0, 0.05, 0.15, 0.3})
	closeErrP := kit.Choose(r, []float64{0, 0.2, 0.5})
	chaserP := kit.Choose(r, []float64{0, 0.2, 0.4})
	bodyW := kit.Choose(r, [][4]int{{1, 0, 0, 0}, {2, 5, 1, 0}, {1, 1, 6, 0}, {3, 3, 3, 1}, {2, 2, 2, 4}, {1, 0, 0, 1}})
	mkGet := func(key int, allowWait bool) lifeOp {
		cs := genCall(r, famRm, s.Keys, false, bodyW, failP, allowWait)
		if key >= 0 {
			cs.Key = key
		}
		return lifeOp{Kind: lifeGet, Key: cs.Key, Body: cs.Body, N: cs.N, Fail: cs.Res == resErr, CloseErr: r.Chance(closeErrP)}
	}
	// sequential prologue: Injects nobody overlaps (the usual way Inject is used: before the
	// component under test asks for the resource)
	if r.Chance(0.5) {
		var g lifeGor
		for _, k := range r.Perm(s.Keys) {
			if r.Chance(0.6) {
				g.Ops = append(g.Ops, lifeOp{Kind: lifeInject, Key: k, CloseErr: r.Chance(closeErrP)})
			}
		}
		if len(g.Ops) > 0 {
			s.Phases = append(s.Phases, []lifeGor{g})
		}
	}
	nph := r.Pick(5, 3, 2) + 1
	for p := 0; p < nph; p++ {
		n := gorCounts[r.Pick(20, 15, 15, 10, 12, 8, 8, 4)]
		gors := make([]lifeGor, n)
		for i := range gors {
			gors[i].Chaser = i > 0 && r.Chance(chaserP)
			nc := r.Pick(30, 20, 15, 10, 8, 6) + 1
			for j := 0; j < nc; j++ {
				if r.Chance(injP) {
					gors[i].Ops = append(gors[i].Ops, lifeOp{Kind: lifeInject, Key: r.Intn(s.Keys), CloseErr: r.Chance(closeErrP)})
				} else {
					gors[i].Ops = append(gors[i].Ops, mkGet(-1, !gors[i].Chaser))
				}
			}
		}
		s.Phases = append(s.Phases, gors)
		// now and then a sequential Inject between two concurrent phases
		if r.Chance(0.25) {
			s.Phases = append(s.Phases, []lifeGor{{Ops: []lifeOp{{Kind: lifeInject, Key: r.Intn(s.Keys), CloseErr: r.Chance(closeErrP)}}}})
		}
	}
	// tail: every key is asked for once more after everything returned (reveals the current instance)
	var tail lifeGor
	for _, k := range r.Perm(s.Keys) {
		tail.Ops = append(tail.Ops, mkGet(k, false))
		if r.Chance(0.3) {
			tail.Ops = append(tail.Ops, mkGet(k, false))
		}
	}
	s.Phases = append(s.Phases, []lifeGor{tail})
	return s
}

// ---------------------------------------------------------------- records

type lifeRes struct {
	h        *lifeHist
	rec      *lifeRec // the Inject / the GetResource whose create produced it
	key      int
	closeErr error
	closes   atomic.Int32
}

func (r *lifeRes) Close() error {
	r.closes.Add(1)
	return r.closeErr
}

func (r *lifeRes) name() string {
	if r.rec.op.Kind == lifeInject {
		return fmt.Sprintf("i%d", r.rec.id)
	}
	return fmt.Sprintf("r%d", r.rec.id)
}

type lifeErr struct{ rec *lifeRec }

func (e *lifeErr) Error() string { return fmt.Sprintf("create of c%d failed", e.rec.id) }

type lifeCloseErr struct{ res *lifeRes }

func (e *lifeCloseErr) Error() string { return "close of " + e.res.name() + " failed" }

type lifeRec struct {
	id, g, phase int
	op           lifeOp
	inv, ret     uint64
	runs         atomic.Int32
	cStart, cEnd uint64   // first run of this call's create
	res          *lifeRes // the instance this op wrote (Inject: always; Get: successful create)
	gotRes       io.Closer
	gotErr       error
	panicked     any
}

func (c *lifeRec) desc() string {
	what := "GetResource"
	if c.op.Kind == lifeInject {
		what = "Inject"
	}
	return fmt.Sprintf("c%d(phase %d goroutine %d %s k%d inv@%d ret@%d)", c.id, c.phase, c.g, what, c.op.Key, c.inv, c.ret)
}

type lifeHist struct {
	spec   *lifeSpec
	rm     *syncx.ResourceManager
	names  [maxKeys]string
	gauge  [maxKeys]kit.Gauge
	fnEnds [maxKeys]atomic.Int64
	abort  atomic.Bool
	recs   []*lifeRec
	multi  atomic.Int32 // creates that ran more than once for one call (never on correct code)
}

func (h *lifeHist) doOp(cr *lifeRec, ph *phaseRt) {
	defer func() {
		if r := recover(); r != nil {
			cr.panicked = r
		}
	}()
	key := h.names[cr.op.Key]
	if cr.op.Kind == lifeInject {
		res := &lifeRes{h: h, rec: cr, key: cr.op.Key}
		if cr.op.CloseErr {
			res.closeErr = &lifeCloseErr{res}
		}
		cr.res = res
		h.rm.Inject(key, res)
		return
	}
	cr.gotRes, cr.gotErr = h.rm.GetResource(key, func() (io.Closer, error) {
		n := cr.runs.Add(1)
		k := cr.op.Key
		h.gauge[k].Enter()
		start := kit.Stamp()
		switch cr.op.Body {
		case bodyGosched:
			for i := 0; i < cr.op.N; i++ {
				runtime.Gosched()
			}
		case bodySpin:
			spin(cr.op.N)
		case bodyWaitAll:
			if ph != nil {
				for ph.invoked.Load() < ph.nonChasers && !h.abort.Load() {
					runtime.Gosched()
				}
			}
		}
		var res *lifeRes
		if !cr.op.Fail {
			res = &lifeRes{h: h, rec: cr, key: k}
			if cr.op.CloseErr {
				res.closeErr = &lifeCloseErr{res}
			}
		}
		if n == 1 {
			cr.cStart = start
			cr.res = res
			cr.cEnd = kit.Stamp()
		} else {
			h.multi.Add(1)
		}
		h.gauge[k].Exit()
		h.fnEnds[k].Add(1)
		if res == nil {
			return nil, &lifeErr{cr}
		}
		return res, nil
	})
}

func (h *lifeHist) runGor(ph *phaseRt, g *lifeGor, recs []*lifeRec) {
	var seen [maxKeys]int64
	for k := range seen {
		seen[k] = h.fnEnds[k].Load()
	}
	<-ph.start
	for i, cr := range recs {
		if g.Chaser {
			k := cr.op.Key
			for j := 0; ; j++ {
				if v := h.fnEnds[k].Load(); v != seen[k] {
					seen[k] = v
					break
				}
				if ph.ncDone.Load() >= ph.nonChasers || h.abort.Load() {
					break
				}
				if j&15 == 15 {
					runtime.Gosched()
				}
			}
		}
		cr.inv = kit.Stamp()
		if i == 0 && !g.Chaser {
			ph.invoked.Add(1)
		}
		h.doOp(cr, ph)
		cr.ret = kit.Stamp()
	}
	if !g.Chaser {
		ph.ncDone.Add(1)
	}
	if ph.remaining.Add(-1) == 0 {
		close(ph.done)
	}
}

func (h *lifeHist) run(c *kit.Case) bool {
	for k := range h.names {
		h.names[k] = fmt.Sprintf("k%d", k)
	}
	h.rm = syncx.NewResourceManager()
	id := 0
	for pi, p := range h.spec.Phases {
		ph := &phaseRt{start: make(chan struct{}), done: make(chan struct{})}
		ph.remaining.Store(int64(len(p)))
		all := make([][]*lifeRec, len(p))
		for gi := range p {
			if !p[gi].Chaser {
				ph.nonChasers++
			}
			for _, op := range p[gi].Ops {
				cr := &lifeRec{id: id, g: gi, phase: pi, op: op}
				id++
				all[gi] = append(all[gi], cr)
				h.recs = append(h.recs, cr)
			}
		}
		for gi := range p {
			go h.runGor(ph, &p[gi], all[gi])
		}
		close(ph.start)
		tm := time.NewTimer(phaseWatchdog)
		select {
		case <-ph.done:
			tm.Stop()
		case <-tm.C:
			h.abort.Store(true)
			tm.Reset(abortGrace)
			select {
			case <-ph.done:
				tm.Stop()
				c.Inconclusive(fmt.Sprintf("rm-life: phase %d needed more than %v; harness waits were aborted, the history completed and was still checked", pi, phaseWatchdog))
			case <-tm.C:
				c.Inconclusive(fmt.Sprintf("rm-life: phase %d did not finish within %v (+%v): calls never returned; history abandoned, no verdict (Close not called)", pi, phaseWatchdog, abortGrace))
				return false
			}
		}
	}
	return true
}

// ---------------------------------------------------------------- oracle

type lifeWrite struct {
	res    *lifeRes
	lo, hi uint64 // the map write happened inside (lo, hi)
}

type lifeStats struct {
	gets, injects, creates, okCreates     int64
	injOverlapGet, whileCreate            int64
	definite, handedInjected, afterInject int64
	nontrivial                            bool
}

func (h *lifeHist) dump(key, max int) []string {
	type ev struct {
		s uint64
		t string
	}
	var evs []ev
	for _, c := range h.recs {
		if key >= 0 && c.op.Key != key {
			continue
		}
		what := "GetResource"
		if c.op.Kind == lifeInject {
			what = "Inject " + c.res.name()
		}
		evs = append(evs, ev{c.inv, fmt.Sprintf("c%d p%d/g%d k%d inv %s", c.id, c.phase, c.g, c.op.Key, what)})
		got := ""
		if c.op.Kind == lifeGet {
			switch {
			case c.panicked != nil:
				got = " PANIC " + fmt.Sprint(c.panicked)
			case c.gotErr != nil:
				got = " err=" + c.gotErr.Error()
			default:
				if r, ok := c.gotRes.(*lifeRes); ok && r != nil {
					got = " instance " + r.name()
				} else {
					got = fmt.Sprint(" res=", c.gotRes)
				}
			}
		}
		evs = append(evs, ev{c.ret, fmt.Sprintf("c%d ret%s", c.id, got)})
		if c.runs.Load() > 0 {
			evs = append(evs, ev{c.cStart, fmt.Sprintf("c%d create start", c.id)})
			how := "fails"
			if c.res != nil {
				how = "returns instance " + c.res.name()
			}
			evs = append(evs, ev{c.cEnd, fmt.Sprintf("c%d create end %s", c.id, how)})
		}
	}
	sort.Slice(evs, func(i, j int) bool { return evs[i].s < evs[j].s })
	var out []string
	for i, e := range evs {
		if i >= max {
			out = append(out, fmt.Sprintf("... %d more events", len(evs)-max))
			break
		}
		out = append(out, fmt.Sprintf("%d %s", e.s, e.t))
	}
	return out
}

func (h *lifeHist) signature() uint64 {
	type ev struct {
		s uint64
		b uint64
	}
	var evs []ev
	for _, c := range h.recs {
		b := uint64(c.op.Key)<<4 | uint64(c.op.Kind)<<3
		evs = append(evs, ev{c.inv, b}, ev{c.ret, b | 1})
		if c.runs.Load() > 0 {
			evs = append(evs, ev{c.cStart, b | 2}, ev{c.cEnd, b | 3})
		}
	}
	sort.Slice(evs, func(i, j int) bool { return evs[i].s < evs[j].s })
	x := uint64(14695981039346656037)
	for _, e := range evs {
		x = (x ^ e.b) * 1099511628211
	}
	return x
}

func checkLife(c *kit.Case, h *lifeHist) (st lifeStats, current [maxKeys]*lifeRes) {
	seen := map[string]bool{}
	viol := func(kind, what string, key int, extra map[string]any) {
		k := "C07/rm-life/" + kind
		if seen[k] {
			return
		}
		seen[k] = true
		violCount++
		w := map[string]any{"history": h.spec.render(), "events_of_key": h.dump(key, 600), "key": fmt.Sprintf("k%d", key)}
		for a, b := range extra {
			w[a] = b
		}
		c.Viol(k, what, w)
	}
	var gets, creates [maxKeys][]*lifeRec
	var writes [maxKeys][]lifeWrite
	for _, cr := range h.recs {
		k := cr.op.Key
		if cr.op.Kind == lifeInject {
			st.injects++
			if cr.panicked != nil {
				viol("panic/Inject", "Inject panicked", k, map[string]any{"call": cr.desc(), "panic": fmt.Sprint(cr.panicked)})
				continue
			}
			writes[k] = append(writes[k], lifeWrite{cr.res, cr.inv, cr.ret})
			continue
		}
		st.gets++
		gets[k] = append(gets[k], cr)
		if n := cr.runs.Load(); n > 0 {
			creates[k] = append(creates[k], cr)
			if n > 1 {
				viol("create-run-more-than-once-by-one-call", "one GetResource call ran its create function more than once", k, map[string]any{"call": cr.desc(), "runs": n})
			}
			if cr.res != nil {
				writes[k] = append(writes[k], lifeWrite{cr.res, cr.cEnd, cr.ret})
			}
		}
	}
	overlaps := func(a, b *lifeRec) bool { return a.inv < b.ret && b.inv < a.ret }
	for k := 0; k < maxKeys; k++ {
		// (a) at most one create in progress, (b) at most one successful create
		sort.Slice(creates[k], func(i, j int) bool { return creates[k][i].cStart < creates[k][j].cStart })
		var prev, ok *lifeRec
		for _, e := range creates[k] {
			st.creates++
			if prev != nil && e.cStart < prev.cEnd {
				viol("overlapping-executions", "two create functions of the same key overlapped in time", k,
					map[string]any{"first": fmt.Sprintf("create of %s ran [%d,%d]", prev.desc(), prev.cStart, prev.cEnd), "second": fmt.Sprintf("create of %s ran [%d,%d]", e.desc(), e.cStart, e.cEnd)})
			}
			if prev == nil || e.cEnd > prev.cEnd {
				prev = e
			}
			if e.res != nil {
				st.okCreates++
				if ok != nil {
					viol("resource-created-successfully-more-than-once", "create succeeded more than once for one key (nothing removes a key before Close)", k,
						map[string]any{"first": ok.desc(), "second": e.desc()})
				}
				ok = e
			}
			// (b') a call invoked after a write of the key had completed finds the key and never creates
			for _, w := range writes[k] {
				if w.res.rec != e && w.hi < e.inv {
					kind := "create-called-although-resource-present"
					if w.res.rec.op.Kind == lifeInject {
						kind = "create-called-after-inject"
					}
					viol(kind, "a GetResource call invoked after an instance had been stored for its key (Inject returned / a successful create's call returned) called create again", k,
						map[string]any{"call": e.desc(), "create_ran": fmt.Sprintf("[%d,%d]", e.cStart, e.cEnd), "earlier_write": w.res.rec.desc() + " stored instance " + w.res.name()})
					break
				}
			}
		}
		if m := h.gauge[k].Max(); m > 1 {
			viol("overlapping-executions", "create functions of the same key were in progress simultaneously (online gauge)", k, map[string]any{"max_simultaneous": m})
		}
		// coverage
		for _, w := range writes[k] {
			if w.res.rec.op.Kind != lifeInject {
				continue
			}
			for _, g := range gets[k] {
				if overlaps(g, w.res.rec) {
					st.injOverlapGet++
					st.nontrivial = true
				}
			}
		}
		for _, e := range creates[k] {
			for _, g := range gets[k] {
				if g != e && g.inv > e.cStart && g.inv < e.cEnd {
					st.whileCreate++
					st.nontrivial = true
				}
			}
		}
		// results
		for _, cl := range gets[k] {
			if cl.panicked != nil {
				viol("panic/GetResource", "GetResource panicked although no create function did and Close had not been called", k,
					map[string]any{"call": cl.desc(), "panic": fmt.Sprint(cl.panicked)})
				continue
			}
			if cl.gotErr != nil {
				x, isx := cl.gotErr.(*lifeErr)
				switch {
				case !isx || x.rec == nil || x.rec.res != nil || x.rec.runs.Load() == 0:
					viol("error-of-no-create", "GetResource returned an error no failed create function of this history returned", k,
						map[string]any{"call": cl.desc(), "error": fmt.Sprint(cl.gotErr)})
				case x.rec.op.Key != k:
					viol("error-of-other-key", "GetResource returned the error of a create for a different key", k, map[string]any{"call": cl.desc(), "error_of": x.rec.desc()})
				case x.rec != cl && !overlaps(x.rec, cl):
					viol("failed-create-cached", "GetResource returned the error of a create whose call does not overlap this call", k,
						map[string]any{"caller": cl.desc(), "leading_call": x.rec.desc()})
				}
				continue
			}
			res, isr := cl.gotRes.(*lifeRes)
			if !isr || res == nil || res.h != h {
				viol("instance-of-no-write", "GetResource returned no error and something that was neither created nor injected in this history", k,
					map[string]any{"call": cl.desc(), "got": fmt.Sprint(cl.gotRes)})
				continue
			}
			if res.key != k {
				viol("instance-of-other-key", "GetResource handed out an instance created / injected for a different key", k,
					map[string]any{"call": cl.desc(), "instance": res.name(), "instance_key": res.key})
				continue
			}
			if res.rec.op.Kind == lifeInject {
				st.handedInjected++
			}
			// earliest moment the flight this call can have joined could have looked the key up
			lookupLo := cl.inv
			for _, g := range gets[k] {
				if overlaps(g, cl) && g.inv < lookupLo {
					lookupLo = g.inv
				}
			}
			var w lifeWrite
			for _, x := range writes[k] {
				if x.res == res {
					w = x
				}
			}
			if w.res == nil {
				viol("instance-of-no-write", "GetResource handed out an instance of a create that did not complete", k, map[string]any{"call": cl.desc(), "instance": res.name()})
				continue
			}
			// candidates: what a correct register could hold at the lookup
			var cands []string
			for _, x := range writes[k] {
				if x.lo >= cl.ret {
					continue
				}
				over := false
				for _, y := range writes[k] {
					if y.res != x.res && x.hi < y.lo && y.hi < lookupLo {
						over = true
						break
					}
				}
				if !over {
					cands = append(cands, x.res.name())
				}
			}
			if len(cands) == 1 {
				st.definite++
			}
			if res.rec.op.Kind == lifeGet && (res.rec == cl || overlaps(res.rec, cl)) {
				continue // handed over by the flight that created it
			}
			if w.lo >= cl.ret {
				viol("instance-from-later-write", "GetResource handed out an instance that was stored only after the call had returned", k,
					map[string]any{"call": cl.desc(), "instance": res.name(), "written_by": res.rec.desc()})
				continue
			}
			for _, y := range writes[k] {
				if y.res != res && w.hi < y.lo && y.hi < lookupLo {
					kind := "overwritten-instance-handed-out"
					if y.res.rec.op.Kind == lifeInject {
						kind = "injected-instance-not-handed-out"
					}
					viol(kind, "GetResource handed out an instance that had definitely been replaced before this call (or any call overlapping it) was invoked: callers of one key are not handed the same instance", k,
						map[string]any{"call": cl.desc(), "got_instance": res.name() + " stored by " + res.rec.desc(), "replaced_by": y.res.name() + " stored by " + y.res.rec.desc(),
							"possible_instances": cands})
					break
				}
			}
			for _, y := range writes[k] {
				if y.res.rec.op.Kind == lifeInject && y.hi < cl.inv {
					st.afterInject++
					break
				}
			}
		}
	}
	// the instance current for each key = what the sequential tail was handed last
	last := len(h.spec.Phases) - 1
	for _, cl := range h.recs {
		if cl.phase == last && cl.op.Kind == lifeGet && cl.panicked == nil && cl.gotErr == nil {
			if r, ok := cl.gotRes.(*lifeRes); ok && r != nil && r.h == h && r.key == cl.op.Key {
				current[cl.op.Key] = r
			}
		}
	}
	return st, current
}

func runLife(c *kit.Case) {
	spec := genLife(c.R)
	h := &lifeHist{spec: spec}
	if !h.run(c) {
		c.Obs("histories_abandoned", 1)
		return
	}
	c.Obs("histories_"+famRmLife, 1)
	st, current := checkLife(c, h)
	viol := func(kind, what string, extra map[string]any) {
		violCount++
		w := map[string]any{"history": spec.render(), "events": h.dump(-1, 400)}
		for a, b := range extra {
			w[a] = b
		}
		c.Viol("C07/rm-life/"+kind, what, w)
	}
	// ---- Close: nothing else is in progress
	var wantErrs []error
	var all []*lifeRes
	for _, cr := range h.recs {
		if cr.res != nil {
			all = append(all, cr.res)
		}
	}
	for k := 0; k < spec.Keys; k++ {
		if r := current[k]; r != nil && r.closeErr != nil {
			wantErrs = append(wantErrs, r.closeErr)
		}
	}
	doClose := func() (err error, p any) {
		defer func() { p = recover() }()
		return h.rm.Close(), nil
	}
	err, p := doClose()
	c.Obs("rm_life_close_calls", 1)
	switch {
	case p != nil:
		viol("close-panicked", "Close panicked", map[string]any{"panic": fmt.Sprint(p)})
	default:
		var notClosed, twice []string
		for k := 0; k < spec.Keys; k++ {
			r := current[k]
			if r == nil {
				continue
			}
			c.Obs("rm_life_current_instances_at_close", 1)
			switch n := r.closes.Load(); {
			case n == 0:
				notClosed = append(notClosed, fmt.Sprintf("k%d:%s", k, r.name()))
			case n > 1:
				twice = append(twice, fmt.Sprintf("k%d:%s closed %d times", k, r.name(), n))
			default:
				c.Obs("rm_life_instances_closed_exactly_once", 1)
			}
		}
		if len(notClosed) > 0 {
			viol("resource-not-closed", "Close returned without having closed the instance that every caller of the key was being handed", map[string]any{"not_closed": notClosed, "close_error": fmt.Sprint(err)})
		}
		if len(twice) > 0 {
			viol("resource-closed-more-than-once", "one Close call closed an instance more than once", map[string]any{"instances": twice})
		}
		if len(notClosed) == 0 {
			if len(wantErrs) == 0 && err != nil {
				viol("close-error-of-no-resource", "Close returned an error although every instance it closed closed without error", map[string]any{"close_error": err.Error()})
			}
			for _, we := range wantErrs {
				if err == nil || !(errors.Is(err, we) || strings.Contains(err.Error(), we.Error())) {
					viol("close-error-lost", "the error a resource's Close returned is not reported by ResourceManager.Close", map[string]any{"lost": we.Error(), "close_error": fmt.Sprint(err)})
					break
				}
			}
			if len(wantErrs) > 0 {
				c.Obs("rm_life_close_calls_reporting_resource_errors", 1)
			}
		}
		for _, r := range all {
			cur := false
			for k := 0; k < spec.Keys; k++ {
				if current[k] == r {
					cur = true
				}
			}
			if !cur {
				c.Obs("rm_life_replaced_instances", 1)
				if r.closes.Load() > 0 {
					c.Obs("rm_life_replaced_instances_closed_observed_only", 1)
				}
			}
		}
	}
	if spec.SecondClose && p == nil {
		_, p2 := doClose()
		c.Obs("rm_life_second_close_calls", 1)
		if p2 != nil {
			viol("close-panicked", "a second Close panicked", map[string]any{"panic": fmt.Sprint(p2), "which": "second Close"})
		}
		for _, r := range all {
			if r.closes.Load() > 1 {
				c.Obs("rm_life_instances_closed_again_by_second_close_observed_only", 1)
			}
		}
	}
	if spec.UseAfter && p == nil {
		// documented as not allowed: observed only
		func() {
			defer func() {
				if r := recover(); r != nil {
					c.Obs("rm_life_use_after_close_panicked_observed_only", 1)
				}
			}()
			_, e := h.rm.GetResource(h.names[0], func() (io.Closer, error) { return &lifeRes{h: h, key: 0, rec: &lifeRec{}}, nil })
			if e == nil {
				c.Obs("rm_life_use_after_close_returned_instance_observed_only", 1)
			}
		}()
	}
	c.Obs("rm_life_get_calls", st.gets)
	c.Obs("rm_life_inject_calls", st.injects)
	c.Obs("rm_life_creates", st.creates)
	c.Obs("rm_life_creates_ok", st.okCreates)
	c.Obs("rm_life_inject_overlapping_get_of_same_key", st.injOverlapGet)
	c.Obs("rm_life_calls_invoked_while_same_key_create_running", st.whileCreate)
	c.Obs("rm_life_gets_with_exactly_one_possible_instance", st.definite)
	c.Obs("rm_life_gets_handed_injected_instance", st.handedInjected)
	c.Obs("rm_life_gets_invoked_after_inject_returned", st.afterInject)
	if st.nontrivial {
		c.Obs("nontrivial_"+famRmLife, 1)
	}
	c.Sig(st.nontrivial, famRmLife, h.signature())
	if len(h.recs) <= 30 {
		cls := famRmLife + "/trivial"
		if st.nontrivial {
			cls = famRmLife + "/nontrivial"
		}
		c.Sample(cls, 1, map[string]any{"history": spec.render(), "events": h.dump(-1, 200), "close_error": fmt.Sprint(err),
			"gets": st.gets, "injects": st.injects, "creates": st.creates, "inject_overlapping_get": st.injOverlapGet})
	}
}
