package c07

// lc-indep-wide: "calls on different keys never wait for each other" over MANY
// keys at once. The function of key "held" blocks on a channel only the harness
// closes; 200-1500 calls on pairwise different keys (one goroutine each, trivial
// functions, optionally a nested Do on yet another key from inside the function)
// must all return while it is held (causal release, patience doubled twice).
// An implementation that shares anything between keys (lock striping, a pool of
// slots, a global queue) is exposed by the sheer number of keys.

import (
	"fmt"
	"sync"
	"sync/atomic"
	"time"

	"github.com/zeromicro/go-zero/core/syncx"

	"verifharness/kit"
)

const famIndepWide = "lc-indep-wide"

func runIndepWide(c *kit.Case) {
	if indepConfirmed.Load() {
		c.Obs("lc_indep_skipped_after_confirmed_violation", 1)
		return
	}
	r := c.R
	nKeys := kit.Choose(r, []int{200, 400, 800, 1500})
	nested := r.Chance(0.4)
	var notes []string
	for attempt := 0; attempt < 3; attempt++ {
		patience := indepPatience << attempt
		lc := syncx.NewLockedCalls()
		hold := make(chan struct{})
		started := make(chan struct{})
		heldDone := make(chan struct{})
		go func() {
			defer close(heldDone)
			lc.Do("held", func() (any, error) {
				close(started)
				<-hold
				return nil, nil
			})
		}()
		select {
		case <-started:
		case <-time.After(phaseWatchdog):
			close(hold)
			c.Inconclusive("lc-indep-wide: the holder's function never started")
			return
		}
		var done atomic.Int64
		var runs atomic.Int64
		var wg sync.WaitGroup
		for i := 0; i < nKeys; i++ {
			wg.Add(1)
			go func(i int) {
				defer wg.Done()
				lc.Do(fmt.Sprintf("w%d-%d", c.Index, i), func() (any, error) {
					runs.Add(1)
					if nested {
						lc.Do(fmt.Sprintf("n%d-%d", c.Index, i), func() (any, error) { runs.Add(1); return nil, nil })
					}
					return nil, nil
				})
				done.Add(1)
			}(i)
		}
		all := make(chan struct{})
		go func() { wg.Wait(); close(all) }()
		select {
		case <-all:
			close(hold)
			<-heldDone
			want := int64(nKeys)
			if nested {
				want *= 2
			}
			if runs.Load() != want {
				c.Viol("C07/lc/wide/function-runs", fmt.Sprintf("%d functions ran for %d calls on pairwise different keys", runs.Load(), want),
					map[string]any{"keys": nKeys, "nested": nested})
			}
			c.Obs("lc_indep_wide_calls_completed_while_held", int64(nKeys))
			c.Obs("histories_"+famIndepWide, 1)
			c.Sig(true, famIndepWide, nKeys, nested)
			if attempt > 0 {
				c.Inconclusive(fmt.Sprintf("lc-indep-wide: cross-key wait seen once but not reproduced: %v", notes))
			}
			return
		case <-time.After(patience):
			before := done.Load()
			close(hold)
			select {
			case <-all:
				notes = append(notes, fmt.Sprintf("attempt %d patience %v: %d of %d calls had returned while the function of key \"held\" was held; all returned after its release", attempt+1, patience, before, nKeys))
			case <-time.After(abortGrace):
				c.Inconclusive(fmt.Sprintf("lc-indep-wide: %d of %d calls returned while held, and not all returned even after the release", before, nKeys))
				return
			}
			<-heldDone
		}
	}
	indepConfirmed.Store(true)
	c.Viol("C07/lc/cross-key-wait", "calls on other keys did not return while the function of another key was held, and returned once it was released (3 attempts, patience doubled each time)",
		map[string]any{"family": famIndepWide, "keys": nKeys, "nested": nested, "attempts": notes})
}
