// Package c07: SingleFlight / LockedCalls / ResourceManager (DESIGN.md §4 C07).
//
// One evaluation = one concurrent history executed on a fresh, real
// syncx.SingleFlight (families sf-do / sf-doex / sf-mixed), syncx.LockedCalls
// (lc, lc-indep) or syncx.ResourceManager (rm). Every call is stamped with the
// process-wide logical clock (kit.Stamp) right before it is invoked and right
// after it returned, at the client boundary; every run of a supplied function is
// stamped at its first and last statement by the function itself. The only
// inference ever drawn from stamps is "a really happened before b" when
// stamp(a) < stamp(b), a taken after the first thing and b before the second.
//
// The verdict is produced offline, after every goroutine of the history has been
// joined, by an interval checker over the stamped records (see checkSF, checkLC,
// checkRM). No wall-clock value decides a verdict: the per-phase watchdog only
// yields c.Inconclusive, and the cross-key independence family (lc-indep) uses
// causal release (DESIGN.md §3.5).
package c07

import (
	"fmt"
	"io"
	"runtime"
	"sort"
	"strings"
	"sync"
	"sync/atomic"
	"testing"
	"time"

	"github.com/zeromicro/go-zero/core/logx"
	"github.com/zeromicro/go-zero/core/syncx"

	"verifharness/kit"
)

const (
	famSfDo  = "sf-do"
	famSfEx  = "sf-doex"
	famSfMix = "sf-mixed"
	famLc    = "lc"
	famRm    = "rm"
	famIndep = "lc-indep"

	// families in which some supplied functions exit abnormally (panic recovered by the
	// harness in the caller's goroutine, or runtime.Goexit in a goroutine of its own)
	famSfAbn = "sf-abnormal"
	famLcAbn = "lc-abnormal"
	famRmAbn = "rm-abnormal"

	maxKeys = 5

	// watchdogs (never a verdict): a phase that has not finished after phaseWatchdog
	// gets its harness-side waits aborted; if it still has not finished after
	// abortGrace more the history is abandoned as inconclusive.
	phaseWatchdog = 90 * time.Second
	abortGrace    = 45 * time.Second

	// abnormal families only: a phase that has not finished after blockProbeAfter is examined
	// for a *stable block* (decided by "nothing changed", never by elapsed time): harness waits
	// are released, then blockStableDumps consecutive goroutine dumps blockProbeEvery apart must
	// be identical, show every goroutine of the history parked in a sync wait inside core/syncx,
	// with no harness function running and not a single event stamped in between.
	blockProbeAfter  = 5 * time.Second
	blockProbeEvery  = 2 * time.Second
	blockStableDumps = 5
)

// body kinds of a supplied function
const (
	bodyNone = iota
	bodyGosched
	bodySpin
	bodyWaitAll // until every non-chasing goroutine of the phase has invoked its first call
)

// result kinds of a supplied function
const (
	resVal    = iota // (value, nil)           rm: create succeeds
	resErr           // (nil, error)           rm: create fails
	resBoth          // (value, error)         (SingleFlight / LockedCalls only)
	resPanic         // the function panics; the harness recovers in the caller's goroutine
	resGoexit        // the function calls runtime.Goexit; the call runs in a goroutine of its own
)

// ---------------------------------------------------------------- specification of a history

type callSpec struct {
	Key  int
	Body int
	N    int
	Res  int
	Ex   bool // SingleFlight: DoEx instead of Do
}

func (s callSpec) String() string {
	b := "0"
	switch s.Body {
	case bodyGosched:
		b = fmt.Sprintf("gosched%d", s.N)
	case bodySpin:
		b = fmt.Sprintf("spin%d", s.N)
	case bodyWaitAll:
		b = "waitall"
	}
	r := "val"
	switch s.Res {
	case resErr:
		r = "err"
	case resBoth:
		r = "val+err"
	case resPanic:
		r = "PANIC"
	case resGoexit:
		r = "GOEXIT"
	}
	x := ""
	if s.Ex {
		x = ":DoEx"
	}
	return fmt.Sprintf("k%d:%s:%s%s", s.Key, b, r, x)
}

type gorSpec struct {
	Chaser bool
	Calls  []callSpec
}

type histSpec struct {
	Fam    string
	Keys   int
	Phases [][]gorSpec // the last phase is the sequential tail (one goroutine)
}

func (hs *histSpec) render() map[string]any {
	ph := make([]any, len(hs.Phases))
	for i, p := range hs.Phases {
		gs := make([]string, len(p))
		for j, g := range p {
			parts := make([]string, len(g.Calls))
			for k, cs := range g.Calls {
				parts[k] = cs.String()
			}
			pre := ""
			if g.Chaser {
				pre = "chaser "
			}
			gs[j] = pre + strings.Join(parts, " ")
		}
		ph[i] = gs
	}
	return map[string]any{"family": hs.Fam, "keys": hs.Keys, "phases(last=sequential tail)": ph,
		"legend": "k<key>:<function body>:<function result>[:DoEx]; one string per goroutine, calls in program order; chaser = invokes right after it saw a function of its key end"}
}

var gorCounts = []int{2, 3, 4, 6, 8, 12, 16, 24, 32, 48, 64}
var spinCounts = []int{20, 60, 200, 600, 1500, 3000}

func genCall(r *kit.Rand, fam string, keys int, hot bool, bodyW [4]int, errP float64, allowWait bool) callSpec {
	var cs callSpec
	if hot && r.Chance(0.7) {
		cs.Key = 0
	} else {
		cs.Key = r.Intn(keys)
	}
	w := bodyW
	if !allowWait {
		w[bodyWaitAll] = 0
		if w[0]+w[1]+w[2] == 0 {
			w[0] = 1
		}
	}
	cs.Body = r.Pick(w[0], w[1], w[2], w[3])
	switch cs.Body {
	case bodyGosched:
		cs.N = r.Range(1, 4)
	case bodySpin:
		cs.N = kit.Choose(r, spinCounts)
	}
	if r.Chance(errP) {
		cs.Res = resErr
		if fam != famRm && r.Bool() {
			cs.Res = resBoth
		}
	}
	switch fam {
	case famSfEx:
		cs.Ex = true
	case famSfMix:
		cs.Ex = r.Bool()
	}
	return cs
}

// baseFam maps a family to the API family it drives.
func baseFam(fam string) (base string, abnormal bool) {
	switch fam {
	case famSfAbn:
		return famSfMix, true
	case famLcAbn:
		return famLc, true
	case famRmAbn:
		return famRm, true
	}
	return fam, false
}

func genHist(r *kit.Rand, name string) *histSpec {
	hs := &histSpec{Fam: name}
	fam, abnormal := baseFam(name)
	abnP := 0.0
	if abnormal {
		abnP = kit.Choose(r, []float64{0.04, 0.1, 0.2, 0.35})
	}
	mkAbn := func(cs *callSpec) {
		if abnP > 0 && r.Chance(abnP) {
			cs.Res = resPanic
			if r.Chance(0.35) {
				cs.Res = resGoexit
			}
		}
	}
	hs.Keys = kit.Choose(r, []int{1, 1, 2, 2, 5})
	hot := hs.Keys > 1 && r.Chance(0.4)
	bodyProfiles := [][4]int{
		{1, 0, 0, 0}, // all instantaneous
		{2, 5, 1, 0}, // mostly Gosched
		{1, 1, 6, 0}, // mostly spin
		{3, 3, 3, 1}, // mixed
		{2, 2, 2, 4}, // rendezvous heavy
		{1, 0, 0, 1}, // instantaneous or rendezvous
		{0, 0, 1, 0}, // all spin
		{4, 1, 1, 0}, // mostly instantaneous
	}
	bodyW := kit.Choose(r, bodyProfiles)
	var errP float64
	if fam == famRm {
		errP = kit.Choose(r, []float64{0, 0.3, 0.6, 0.9, 1})
	} else {
		errP = kit.Choose(r, []float64{0, 0, 0.2, 0.5})
	}
	chaserP := kit.Choose(r, []float64{0, 0.15, 0.3, 0.5})
	nph := r.Pick(5, 3, 2) + 1
	for p := 0; p < nph; p++ {
		g := gorCounts[r.Pick(20, 15, 15, 10, 12, 8, 8, 4, 4, 2, 2)]
		gors := make([]gorSpec, g)
		for i := range gors {
			gors[i].Chaser = i > 0 && r.Chance(chaserP)
			nc := r.Pick(30, 20, 15, 10, 8, 6, 6, 5) + 1
			gors[i].Calls = make([]callSpec, nc)
			for j := range gors[i].Calls {
				gors[i].Calls[j] = genCall(r, fam, hs.Keys, hot, bodyW, errP, true)
				mkAbn(&gors[i].Calls[j])
			}
		}
		hs.Phases = append(hs.Phases, gors)
	}
	// sequential tail: invoked after everything returned
	nt := r.Range(1, 2*hs.Keys+1)
	tail := gorSpec{Calls: make([]callSpec, nt)}
	for j := range tail.Calls {
		tail.Calls[j] = genCall(r, fam, hs.Keys, false, [4]int{3, 1, 1, 0}, errP, false)
	}
	if abnormal {
		// the tail visits every key after all abnormal exits (normal calls), then may exit
		// abnormally itself and come back once more
		for _, k := range r.Perm(hs.Keys) {
			cs := genCall(r, fam, hs.Keys, false, [4]int{3, 1, 1, 0}, errP, false)
			cs.Key = k
			tail.Calls = append(tail.Calls, cs)
		}
		if r.Chance(0.5) {
			cs := genCall(r, fam, hs.Keys, false, [4]int{1, 0, 0, 0}, 0, false)
			mkAbn(&cs)
			if cs.Res != resPanic && cs.Res != resGoexit {
				cs.Res = resPanic
			}
			after := genCall(r, fam, hs.Keys, false, [4]int{1, 0, 0, 0}, errP, false)
			after.Key = cs.Key
			tail.Calls = append(tail.Calls, cs, after)
		}
	}
	hs.Phases = append(hs.Phases, []gorSpec{tail})
	return hs
}

// ---------------------------------------------------------------- records

// exec is one run of a supplied function. Its address is the value the function
// returns, so that results identify executions.
type exec struct {
	h      *hist
	call   *callRec
	run    int32
	key    int
	start  uint64
	end    uint64
	retVal bool
	retErr bool
	abn    int       // 0 normal, resPanic, resGoexit: how the function exited
	res    *resource // rm: the instance a successful create produced
}

// execPanic is the value an abnormal function panics with.
type execPanic struct{ e *exec }

func (p *execPanic) String() string { return "harness panic of execution " + p.e.name() }

func (e *exec) name() string {
	if e.run > 1 {
		return fmt.Sprintf("e%d#%d", e.call.id, e.run)
	}
	return fmt.Sprintf("e%d", e.call.id)
}

type execErr struct{ e *exec }

func (x *execErr) Error() string { return "error of execution " + x.e.name() }

type resource struct{ e *exec }

func (*resource) Close() error { return nil }

// callRec is one call of the API under test. inv/ret and the got* fields are
// written by the calling goroutine only and read after it has been joined.
type callRec struct {
	id    int
	g     int
	phase int
	spec  callSpec
	inv   uint64
	ret   uint64
	invA  atomic.Uint64 // mirrors of inv/ret readable while the history is still running (block probe)
	retA  atomic.Uint64
	runs  atomic.Int32
	ex0   exec
	extra []*exec // runs beyond the first (never on correct code); guarded by hist.mu

	gotVal   any
	gotErr   error
	gotFresh bool
	gotRes   io.Closer
	panicked any
	goexited bool // the call neither returned nor panicked: its goroutine was ended by runtime.Goexit
}

// abnormal reports whether the call's own function ran and exited abnormally (as specified).
func (c *callRec) abnormal() bool {
	return (c.spec.Res == resPanic || c.spec.Res == resGoexit) && c.runs.Load() >= 1
}

// ownAbnormalExit: the call ended the way its own abnormal function dictates.
func (c *callRec) ownAbnormalExit() bool {
	if !c.abnormal() {
		return false
	}
	if c.spec.Res == resGoexit {
		return c.goexited
	}
	p, ok := c.panicked.(*execPanic)
	return ok && p.e.call == c
}

func (c *callRec) api(fam string) string {
	switch fam {
	case famLc, famIndep:
		return "LockedCalls.Do"
	case famRm:
		return "GetResource"
	}
	if c.spec.Ex {
		return "DoEx"
	}
	return "Do"
}

type phaseRt struct {
	start      chan struct{}
	done       chan struct{}
	remaining  atomic.Int64
	invoked    atomic.Int64 // non-chasing goroutines that have invoked their first call
	ncDone     atomic.Int64 // non-chasing goroutines that have finished
	nonChasers int64
}

type hist struct {
	spec    *histSpec
	fam     string // API family: sf-do | sf-doex | sf-mixed | lc | rm
	abn     bool   // abnormal family
	label   string // pprof label of the goroutines of this history (abnormal families)
	blocked *blockInfo
	sf      syncx.SingleFlight
	lc      syncx.LockedCalls
	rm      *syncx.ResourceManager
	gauge   [maxKeys]kit.Gauge
	fnEnds  [maxKeys]atomic.Int64
	abort   atomic.Bool
	mu      sync.Mutex
	calls   []*callRec
	names   [maxKeys]string
}

var sink atomic.Uint64

func spin(n int) {
	var x uint64 = 88172645463325252
	for i := 0; i < n; i++ {
		x ^= x << 13
		x ^= x >> 7
		x ^= x << 17
	}
	if x == 42 {
		sink.Add(1)
	}
}

// body is the common part of every supplied function: it brackets the run with
// the per-key gauge and the two stamps.
func (h *hist) body(cr *callRec, ph *phaseRt) *exec {
	n := cr.runs.Add(1)
	var e *exec
	if n == 1 {
		e = &cr.ex0
	} else {
		e = &exec{}
		h.mu.Lock()
		cr.extra = append(cr.extra, e)
		h.mu.Unlock()
	}
	e.h, e.call, e.run, e.key = h, cr, n, cr.spec.Key
	h.gauge[e.key].Enter()
	e.start = kit.Stamp()
	switch cr.spec.Body {
	case bodyGosched:
		for i := 0; i < cr.spec.N; i++ {
			runtime.Gosched()
		}
	case bodySpin:
		spin(cr.spec.N)
	case bodyWaitAll:
		if ph != nil {
			for i := 0; ph.invoked.Load() < ph.nonChasers && !h.abort.Load(); i++ {
				runtime.Gosched()
			}
		}
	}
	e.end = kit.Stamp()
	h.gauge[e.key].Exit()
	h.fnEnds[e.key].Add(1)
	return e
}

// exitAbnormally ends a supplied function the way the spec asks for (after its last stamp).
func exitAbnormally(e *exec, how int) {
	e.abn = how
	if how == resGoexit {
		runtime.Goexit()
	}
	panic(&execPanic{e})
}

func (h *hist) invoke(cr *callRec, ph *phaseRt) {
	completed := false
	defer func() {
		if r := recover(); r != nil {
			cr.panicked = r
		} else if !completed {
			cr.goexited = true
		}
	}()
	h.invoke1(cr, ph)
	completed = true
}

func (h *hist) invoke1(cr *callRec, ph *phaseRt) {
	key := h.names[cr.spec.Key]
	if h.fam == famRm {
		cr.gotRes, cr.gotErr = h.rm.GetResource(key, func() (io.Closer, error) {
			e := h.body(cr, ph)
			if cr.spec.Res == resPanic || cr.spec.Res == resGoexit {
				exitAbnormally(e, cr.spec.Res)
			}
			if cr.spec.Res == resVal {
				e.res = &resource{e}
				e.retVal = true
				return e.res, nil
			}
			e.retErr = true
			return nil, &execErr{e}
		})
		return
	}
	fn := func() (any, error) {
		e := h.body(cr, ph)
		switch cr.spec.Res {
		case resVal:
			e.retVal = true
			return e, nil
		case resErr:
			e.retErr = true
			return nil, &execErr{e}
		case resPanic, resGoexit:
			exitAbnormally(e, cr.spec.Res)
			return nil, nil
		default:
			e.retVal, e.retErr = true, true
			return e, &execErr{e}
		}
	}
	switch {
	case h.fam == famLc:
		cr.gotVal, cr.gotErr = h.lc.Do(key, fn)
	case cr.spec.Ex:
		cr.gotVal, cr.gotFresh, cr.gotErr = h.sf.DoEx(key, fn)
	default:
		cr.gotVal, cr.gotErr = h.sf.Do(key, fn)
	}
}

// waitGoexitChild is a function of its own so that the waiting parent is recognisable in a
// goroutine dump (runtime frames are not shown there).
//
//go:noinline
func waitGoexitChild(fin chan struct{}) { <-fin }

func (h *hist) runGor(ph *phaseRt, gs *gorSpec, recs []*callRec) {
	var seen [maxKeys]int64
	for k := range seen {
		seen[k] = h.fnEnds[k].Load()
	}
	<-ph.start
	for i, cr := range recs {
		if gs.Chaser {
			k := cr.spec.Key
			for j := 0; ; j++ {
				if v := h.fnEnds[k].Load(); v != seen[k] {
					seen[k] = v
					break
				}
				if ph.ncDone.Load() >= ph.nonChasers || h.abort.Load() {
					break
				}
				if j&15 == 15 {
					runtime.Gosched()
				}
			}
		}
		cr.inv = kit.Stamp()
		cr.invA.Store(cr.inv)
		if i == 0 && !gs.Chaser {
			ph.invoked.Add(1)
		}
		if cr.spec.Res == resGoexit {
			fin := make(chan struct{})
			go func() {
				defer close(fin)
				h.invoke(cr, ph)
			}()
			waitGoexitChild(fin)
		} else {
			h.invoke(cr, ph)
		}
		cr.ret = kit.Stamp()
		cr.retA.Store(cr.ret)
	}
	if !gs.Chaser {
		ph.ncDone.Add(1)
	}
	if ph.remaining.Add(-1) == 0 {
		close(ph.done)
	}
}

// run executes the history; false = abandoned (watchdog), records must not be read.
func (h *hist) run(c *kit.Case) bool {
	if !h.abn {
		return h.run1(c)
	}
	ok := false
	kit.WithLabel(h.label, func() { ok = h.run1(c) })
	return ok
}

func (h *hist) run1(c *kit.Case) bool {
	for k := range h.names {
		h.names[k] = fmt.Sprintf("k%d", k)
	}
	switch h.fam {
	case famLc:
		h.lc = syncx.NewLockedCalls()
	case famRm:
		h.rm = syncx.NewResourceManager()
	default:
		h.sf = syncx.NewSingleFlight()
	}
	id := 0
	for pi, p := range h.spec.Phases {
		ph := &phaseRt{start: make(chan struct{}), done: make(chan struct{})}
		ph.remaining.Store(int64(len(p)))
		all := make([][]*callRec, len(p))
		for gi := range p {
			if !p[gi].Chaser {
				ph.nonChasers++
			}
			recs := make([]*callRec, len(p[gi].Calls))
			for ci, cs := range p[gi].Calls {
				recs[ci] = &callRec{id: id, g: gi, phase: pi, spec: cs}
				id++
			}
			all[gi] = recs
			h.calls = append(h.calls, recs...)
		}
		for gi := range p {
			go h.runGor(ph, &p[gi], all[gi])
		}
		close(ph.start)
		if h.abn {
			pt := time.NewTimer(blockProbeAfter)
			select {
			case <-ph.done:
				pt.Stop()
				continue
			case <-pt.C:
			}
			bi, done := h.probeBlock(ph, pi)
			if done {
				continue
			}
			if bi != nil {
				h.blocked = bi
				return false
			}
			c.Inconclusive(fmt.Sprintf("phase %d did not finish within %v and no stable block could be established; history abandoned, no verdict", pi, phaseWatchdog))
			return false
		}
		tm := time.NewTimer(phaseWatchdog)
		select {
		case <-ph.done:
			tm.Stop()
		case <-tm.C:
			h.abort.Store(true)
			tm.Reset(abortGrace)
			select {
			case <-ph.done:
				tm.Stop()
				c.Inconclusive(fmt.Sprintf("phase %d needed more than %v; harness waits were aborted, the history completed and was still checked", pi, phaseWatchdog))
			case <-tm.C:
				c.Inconclusive(fmt.Sprintf("phase %d did not finish within %v (+%v after aborting harness waits): calls never returned; history abandoned, no verdict", pi, phaseWatchdog, abortGrace))
				return false
			}
		}
	}
	return true
}

// ---------------------------------------------------------------- stable-block probe (abnormal families)

type blockInfo struct {
	afterAbnormal bool // some blocked call was invoked after an abnormal leader's call on its key had ended
	witness       map[string]any
}

// parkedInSyncx classifies the goroutines of the history: every one must be parked in a
// sync wait (WaitGroup / Mutex / RWMutex semaphore) below a core/syncx frame, or be the
// harness goroutine waiting for the goroutine it started for a Goexit call.
func parkedInSyncx(gs []kit.Goroutine) (fingerprint string, parked bool) {
	parts := make([]string, 0, len(gs))
	parked = len(gs) > 0
	for _, g := range gs {
		st := g.Stack
		inSyncx := strings.Contains(st, "go-zero/core/syncx.")
		switch {
		case inSyncx && strings.Contains(st, "sync.runtime_Semacquire"):
		case !inSyncx && strings.Contains(st, "c07.waitGoexitChild"):
		default:
			parked = false
		}
		parts = append(parts, fmt.Sprintf("%d*%s", g.Count, st))
	}
	sort.Strings(parts)
	return strings.Join(parts, "|"), parked
}

// probeBlock decides by stability, never by elapsed time: done=true if the phase finished
// meanwhile; a blockInfo if blockStableDumps consecutive dumps were identical, all parked
// inside core/syncx, no harness function running, and not one event stamped in between;
// (nil,false) if that could not be established before the watchdog.
func (h *hist) probeBlock(ph *phaseRt, pi int) (*blockInfo, bool) {
	h.abort.Store(true) // release every harness-side wait first
	deadline := time.Now().Add(phaseWatchdog)
	prev, same := "", 0
	var prevStamp uint64
	for time.Now().Before(deadline) {
		tm := time.NewTimer(blockProbeEvery)
		select {
		case <-ph.done:
			tm.Stop()
			return nil, true
		case <-tm.C:
		}
		gs := kit.LabelledGoroutines(h.label)
		s := kit.Stamp()
		fp, parked := parkedInSyncx(gs)
		for k := range h.gauge {
			if h.gauge[k].Cur() != 0 {
				parked = false // a harness function is still running
			}
		}
		switch {
		case parked && same > 0 && fp == prev && s == prevStamp+1:
			same++
		case parked:
			same = 1
		default:
			same = 0
		}
		prev, prevStamp = fp, s
		if same >= blockStableDumps {
			return h.blockReport(gs, pi), false
		}
	}
	return nil, false
}

// blockReport reads only immutable specs and atomics (the history is still "running").
func (h *hist) blockReport(gs []kit.Goroutine, pi int) *blockInfo {
	bi := &blockInfo{}
	var abnEnded [maxKeys][]*callRec
	for _, cl := range h.calls {
		if cl.abnormal() && cl.retA.Load() != 0 {
			abnEnded[cl.spec.Key] = append(abnEnded[cl.spec.Key], cl)
		}
	}
	var blocked, abn []string
	for _, cl := range h.calls {
		inv, ret := cl.invA.Load(), cl.retA.Load()
		if cl.abnormal() && ret != 0 {
			abn = append(abn, fmt.Sprintf("c%d p%d/g%d k%d %s function exited by %s; call inv@%d ended@%d", cl.id, cl.phase, cl.g, cl.spec.Key, cl.api(h.fam), cl.spec.String(), inv, ret))
		}
		if inv == 0 || ret != 0 {
			continue
		}
		after := ""
		for _, a := range abnEnded[cl.spec.Key] {
			if a.retA.Load() < inv {
				after = fmt.Sprintf(" - invoked after abnormal call c%d had ended @%d", a.id, a.retA.Load())
				bi.afterAbnormal = true
				break
			}
		}
		blocked = append(blocked, fmt.Sprintf("c%d p%d/g%d k%d %s inv@%d never returned (own function ran %d times)%s", cl.id, cl.phase, cl.g, cl.spec.Key, cl.api(h.fam), inv, cl.runs.Load(), after))
	}
	var stacks []string
	for _, g := range gs {
		stacks = append(stacks, fmt.Sprintf("%d goroutine(s): %s", g.Count, kit.TopFrames(g.Stack, 6)))
	}
	bi.witness = map[string]any{"history": h.spec.render(), "blocked_in_phase": pi, "blocked_calls": blocked, "abnormal_exits_before": abn,
		"goroutines": stacks, "decision": fmt.Sprintf("%d consecutive goroutine dumps %v apart identical, all parked in sync waits inside core/syncx, no harness function running, no event stamped in between, harness waits released", blockStableDumps, blockProbeEvery)}
	return bi
}

// ---------------------------------------------------------------- offline checker helpers

func (h *hist) execs() [maxKeys][]*exec {
	var by [maxKeys][]*exec
	for _, c := range h.calls {
		if c.runs.Load() >= 1 {
			by[c.ex0.key] = append(by[c.ex0.key], &c.ex0)
		}
		for _, e := range c.extra {
			by[e.key] = append(by[e.key], e)
		}
	}
	for k := range by {
		sort.Slice(by[k], func(i, j int) bool { return by[k][i].start < by[k][j].start })
	}
	return by
}

type checker struct {
	c    *kit.Case
	h    *hist
	fam  string // key prefix: sf | lc | rm
	seen map[string]bool
}

// violCount counts violations reported by this process (cases run one after another).
var violCount int

// viol reports at most one violation per key and history.
func (ck *checker) viol(kind, what string, key int, extra map[string]any) {
	k := "C07/" + ck.fam + "/" + kind
	if ck.seen[k] {
		return
	}
	ck.seen[k] = true
	violCount++
	w := map[string]any{"history": ck.h.spec.render(), "events_of_key": ck.h.dump(key, 600), "key": fmt.Sprintf("k%d", key)}
	for a, b := range extra {
		w[a] = b
	}
	ck.c.Viol(k, what, w)
}

func callDesc(fam string, c *callRec) string {
	return fmt.Sprintf("c%d(phase %d goroutine %d %s k%d inv@%d ret@%d)", c.id, c.phase, c.g, c.api(fam), c.spec.Key, c.inv, c.ret)
}

// disjoint checks "at most one execution per key in progress at any time".
func (ck *checker) disjoint(by [maxKeys][]*exec, what string) {
	for k := range by {
		var prev *exec
		for _, e := range by[k] {
			if prev != nil && e.start < prev.end {
				ck.viol("overlapping-executions", what+" of the same key overlapped in time", k, map[string]any{
					"first":  fmt.Sprintf("%s of %s ran [%d,%d]", prev.name(), callDesc(ck.h.fam, prev.call), prev.start, prev.end),
					"second": fmt.Sprintf("%s of %s ran [%d,%d]", e.name(), callDesc(ck.h.fam, e.call), e.start, e.end)})
			}
			if prev == nil || e.end > prev.end {
				prev = e
			}
		}
		if m := ck.h.gauge[k].Max(); m > 1 {
			ck.viol("overlapping-executions", what+" of the same key were in progress simultaneously (online gauge)", k, map[string]any{"max_simultaneous": m})
		}
	}
}

type invEntry struct {
	s uint64
	c *callRec
}

func (h *hist) invsByKey() [maxKeys][]invEntry {
	var by [maxKeys][]invEntry
	for _, c := range h.calls {
		by[c.spec.Key] = append(by[c.spec.Key], invEntry{c.inv, c})
	}
	for k := range by {
		sort.Slice(by[k], func(i, j int) bool { return by[k][i].s < by[k][j].s })
	}
	return by
}

// between returns the calls other than `not` invoked strictly between lo and hi.
func between(invs []invEntry, lo, hi uint64, not *callRec) []*callRec {
	i := sort.Search(len(invs), func(i int) bool { return invs[i].s > lo })
	var res []*callRec
	for ; i < len(invs) && invs[i].s < hi; i++ {
		if invs[i].c != not {
			res = append(res, invs[i].c)
		}
	}
	return res
}

// ---------------------------------------------------------------- abnormal exits (shared by the three oracles)

type abnStats struct {
	panics, goexits int64 // calls whose own function exited abnormally
	after           int64 // other calls invoked after an abnormal call of their key had ended
	unconstrained   int64 // calls overlapping an abnormal call that got no identifiable result (outside the statement)
}

type abnView struct {
	by [maxKeys][]*callRec
	st abnStats
}

func newAbnView(h *hist) *abnView {
	v := &abnView{}
	if !h.abn {
		return v
	}
	for _, cl := range h.calls {
		if cl.abnormal() {
			v.by[cl.spec.Key] = append(v.by[cl.spec.Key], cl)
			if cl.spec.Res == resGoexit {
				v.st.goexits++
			} else {
				v.st.panics++
			}
		}
	}
	for _, cl := range h.calls {
		if !cl.abnormal() {
			if _, a := v.rel(cl); a != nil {
				v.st.after++
			}
		}
	}
	return v
}

// rel relates a call to the abnormal calls of its key: overlaps = its call interval overlaps
// the call of an abnormal leader (then what it receives is outside the statement); after = an
// abnormal leader whose call had ended before this call was invoked.
func (v *abnView) rel(cl *callRec) (overlaps bool, after *callRec) {
	for _, a := range v.by[cl.spec.Key] {
		if a == cl {
			continue
		}
		if a.ret < cl.inv {
			if after == nil {
				after = a
			}
		} else if a.inv < cl.ret {
			overlaps = true
		}
	}
	return
}

// unidentified handles a call that ended without an identifiable result (panic, Goexit, a
// (value, error) pair no execution returned). Returns true if it was reported or exempted.
func (v *abnView) unidentified(ck *checker, cl *callRec, api, kind, what string, extra map[string]any) {
	overlaps, after := v.rel(cl)
	k := cl.spec.Key
	switch {
	case overlaps:
		v.st.unconstrained++
	case after != nil:
		extra["abnormal_leading_call"] = callDesc(ck.h.fam, after) + " function exited by " + after.spec.String()
		extra["caller_own_function_ran"] = cl.runs.Load()
		ck.viol("stale-result-after-abnormal-exit"+api, "a call invoked after an abnormally ended call of its key had already returned neither ran afresh nor joined a live flight: "+what, k, extra)
	default:
		ck.viol(kind+api, what, k, extra)
	}
}

// ---------------------------------------------------------------- SingleFlight oracle

type sfStats struct {
	abn                                                    abnStats
	nontrivial                                             bool
	calls, execs, followers, window, joinedInWindow, fresh int64
	sharedErrs, tailAfresh                                 int64
}

func checkSF(c *kit.Case, h *hist) (st sfStats) {
	ck := &checker{c: c, h: h, fam: "sf", seen: map[string]bool{}}
	by := h.execs()
	ck.disjoint(by, "two executions of supplied functions")
	freshCount := map[*exec]int{}
	result := map[*callRec]*exec{}
	lastPhase := len(h.spec.Phases) - 1
	av := newAbnView(h)
	defer func() { st.abn = av.st }()
	for _, cl := range h.calls {
		st.calls++
		k := cl.spec.Key
		api := cl.api(h.fam)
		if cl.abnormal() {
			continue // its own function exited abnormally: what this call itself gets is outside the statement
		}
		if cl.panicked != nil || cl.goexited {
			av.unidentified(ck, cl, "/"+api, "panic", "the call panicked instead of returning the result of an execution",
				map[string]any{"call": callDesc(h.fam, cl), "panic": fmt.Sprint(cl.panicked), "goexit": cl.goexited})
			continue
		}
		var ve, ee *exec
		foreign := false
		if cl.gotVal != nil {
			if x, ok := cl.gotVal.(*exec); ok && x.h == h {
				ve = x
			} else {
				foreign = true
			}
		}
		if cl.gotErr != nil {
			if x, ok := cl.gotErr.(*execErr); ok && x.e.h == h {
				ee = x.e
			} else {
				foreign = true
			}
		}
		if foreign || (ve == nil && ee == nil) {
			av.unidentified(ck, cl, "/"+api, "result-of-no-execution", "the caller received a (value, error) pair that no execution of this history returned",
				map[string]any{"call": callDesc(h.fam, cl), "value": fmt.Sprint(cl.gotVal), "error": fmt.Sprint(cl.gotErr), "fresh": cl.gotFresh})
			continue
		}
		if ve != nil && ee != nil && ve != ee {
			ck.viol("value-and-error-of-different-executions/"+api, "the caller received the value of one execution together with the error of another", k,
				map[string]any{"call": callDesc(h.fam, cl), "value_of": ve.name(), "error_of": ee.name()})
			continue
		}
		r := ve
		if r == nil {
			r = ee
		}
		if r.retVal != (ve != nil) || r.retErr != (ee != nil) {
			ck.viol("result-not-as-executed/"+api, "the caller did not receive both the value and the error its execution returned", k,
				map[string]any{"call": callDesc(h.fam, cl), "execution": r.name(), "execution_returned_value": r.retVal, "execution_returned_error": r.retErr,
					"caller_got_value": ve != nil, "caller_got_error": ee != nil})
			continue
		}
		if r.key != k {
			ck.viol("result-of-other-key/"+api, "the caller received the result of an execution for a different key", k,
				map[string]any{"call": callDesc(h.fam, cl), "execution": r.name(), "execution_key": r.key})
			continue
		}
		result[cl] = r
		lead := r.call
		if lead != cl {
			st.followers++
			if r.retErr {
				st.sharedErrs++
			}
			if cl.inv > lead.ret {
				ck.viol("stale-result/"+api, "the caller received the result of an execution whose leading call had already returned before the caller was invoked", k,
					map[string]any{"caller": callDesc(h.fam, cl), "leading_call": callDesc(h.fam, lead), "execution": r.name(),
						"caller_own_function_ran": cl.runs.Load()})
			} else if lead.inv > cl.ret {
				ck.viol("result-from-later-call/"+api, "the caller received the result of an execution whose leading call was invoked after the caller had returned", k,
					map[string]any{"caller": callDesc(h.fam, cl), "leading_call": callDesc(h.fam, lead), "execution": r.name()})
			}
		} else if cl.phase == lastPhase {
			st.tailAfresh++
		}
		if cl.spec.Ex && cl.gotFresh {
			freshCount[r]++
			st.fresh++
		}
	}
	invs := h.invsByKey()
	for k := range by {
		for _, e := range by[k] {
			st.execs++
			lead := e.call
			// "exactly one caller per execution is reported fresh": only DoEx callers are
			// reported anything, so a Do leader makes 0 legal; more than one never is.
			if n := freshCount[e]; n > 1 {
				ck.viol("fresh-reported-to-several-callers", "more than one caller of one execution was reported fresh", k,
					map[string]any{"execution": e.name(), "leading_call": callDesc(h.fam, lead), "fresh_callers": n})
			} else if n == 0 && lead.spec.Ex && result[lead] == e {
				// all DoEx callers of e said "not fresh", including the one that executed it
				allEx := true
				for _, cl := range h.calls {
					if result[cl] == e && !cl.spec.Ex {
						allEx = false
					}
				}
				if allEx {
					ck.viol("fresh-reported-to-nobody", "no caller of an execution was reported fresh although all of them used DoEx", k,
						map[string]any{"execution": e.name(), "leading_call": callDesc(h.fam, lead)})
				}
			}
			// coverage: calls invoked between the leader's function end and the leader's return
			for _, cl := range between(invs[k], e.end, lead.ret, lead) {
				st.window++
				st.nontrivial = true
				if result[cl] == e {
					st.joinedInWindow++
				}
			}
		}
	}
	return st
}

// ---------------------------------------------------------------- LockedCalls oracle

type lcStats struct {
	abn                   abnStats
	nontrivial            bool
	calls, execs, whileFn int64
}

func checkLC(c *kit.Case, h *hist) (st lcStats) {
	ck := &checker{c: c, h: h, fam: "lc", seen: map[string]bool{}}
	by := h.execs()
	ck.disjoint(by, "two executions of callers' functions")
	av := newAbnView(h)
	defer func() { st.abn = av.st }()
	for _, cl := range h.calls {
		st.calls++
		k := cl.spec.Key
		if (cl.panicked != nil || cl.goexited) && !cl.ownAbnormalExit() {
			// LockedCalls never shares anything between callers: a call may only end abnormally
			// because its own function did
			ck.viol("panic", "LockedCalls.Do panicked (or its goroutine was ended) although the caller's own function did not do that", k,
				map[string]any{"call": callDesc(h.fam, cl), "panic": fmt.Sprint(cl.panicked), "goexit": cl.goexited})
			continue
		}
		switch n := cl.runs.Load(); {
		case n == 0:
			ck.viol("own-function-not-run", "the call returned without having run the caller's own function", k, map[string]any{"call": callDesc(h.fam, cl)})
		case n > 1:
			ck.viol("own-function-run-more-than-once", "the caller's own function ran more than once", k, map[string]any{"call": callDesc(h.fam, cl), "runs": n})
		default:
			e := &cl.ex0
			if !(cl.inv < e.start && e.end < cl.ret) {
				ck.viol("own-function-outside-own-call", "the caller's function did not run inside the caller's own call", k,
					map[string]any{"call": callDesc(h.fam, cl), "ran": fmt.Sprintf("[%d,%d]", e.start, e.end)})
			}
		}
	}
	invs := h.invsByKey()
	for k := range by {
		for _, e := range by[k] {
			st.execs++
			if n := len(between(invs[k], e.start, e.end, e.call)); n > 0 {
				st.whileFn += int64(n)
				st.nontrivial = true
			}
		}
	}
	return st
}

// ---------------------------------------------------------------- ResourceManager oracle

type rmStats struct {
	abn                                                     abnStats
	nontrivial                                              bool
	calls, creates, okCreates, failCreates, whileFn, shared int64
	recreatedAfterFailure, tailErrFresh                     int64
}

func checkRM(c *kit.Case, h *hist) (st rmStats) {
	ck := &checker{c: c, h: h, fam: "rm", seen: map[string]bool{}}
	av := newAbnView(h)
	defer func() { st.abn = av.st }()
	by := h.execs()
	ck.disjoint(by, "two create functions")
	var created [maxKeys]*exec
	for k := range by {
		failedBefore := false
		for _, e := range by[k] {
			st.creates++
			if e.res != nil {
				st.okCreates++
				if failedBefore {
					st.recreatedAfterFailure++
				}
				if created[k] != nil {
					ck.viol("resource-created-successfully-more-than-once", "create succeeded more than once for one key", k,
						map[string]any{"first": created[k].name() + " of " + callDesc(h.fam, created[k].call), "second": e.name() + " of " + callDesc(h.fam, e.call)})
				} else {
					created[k] = e
				}
			} else {
				st.failCreates++
				failedBefore = true
			}
		}
	}
	var first [maxKeys]*callRec
	lastPhase := len(h.spec.Phases) - 1
	for _, cl := range h.calls {
		st.calls++
		k := cl.spec.Key
		if cl.abnormal() {
			continue // its own create exited abnormally: what this call itself gets is outside the statement
		}
		if cl.panicked != nil || cl.goexited {
			av.unidentified(ck, cl, "", "panic", "GetResource panicked instead of handing out the instance or an error",
				map[string]any{"call": callDesc(h.fam, cl), "panic": fmt.Sprint(cl.panicked), "goexit": cl.goexited})
			continue
		}
		if cl.gotErr == nil {
			res, ok := cl.gotRes.(*resource)
			if !ok || res == nil || res.e.h != h {
				av.unidentified(ck, cl, "", "instance-of-no-create", "GetResource returned no error and something no create function of this history produced",
					map[string]any{"call": callDesc(h.fam, cl), "got": fmt.Sprint(cl.gotRes)})
				continue
			}
			if res.e.key != k {
				ck.viol("instance-of-other-key", "GetResource handed out the instance created for a different key", k,
					map[string]any{"call": callDesc(h.fam, cl), "instance_of": res.e.name(), "instance_key": res.e.key})
				continue
			}
			if res.e.call != cl {
				st.shared++
			}
			if first[k] == nil {
				first[k] = cl
			} else if first[k].gotRes.(*resource) != res {
				ck.viol("different-instances", "two callers of one key were handed different instances", k,
					map[string]any{"one": callDesc(h.fam, first[k]) + " got the instance of " + first[k].gotRes.(*resource).e.name(),
						"other": callDesc(h.fam, cl) + " got the instance of " + res.e.name()})
			}
			continue
		}
		// error result: must be the error of a failed create whose leading call overlaps the
		// caller (the SingleFlight clause applied to the flight GetResource runs create in):
		// an error retained from a call that had already returned = a cached failure.
		x, ok := cl.gotErr.(*execErr)
		if !ok || x.e.h != h || x.e.res != nil {
			ck.viol("error-of-no-create", "GetResource returned an error no failed create function of this history returned", k,
				map[string]any{"call": callDesc(h.fam, cl), "error": fmt.Sprint(cl.gotErr)})
			continue
		}
		if x.e.key != k {
			ck.viol("error-of-other-key", "GetResource returned the error of a create for a different key", k,
				map[string]any{"call": callDesc(h.fam, cl), "error_of": x.e.name()})
			continue
		}
		if lead := x.e.call; lead != cl {
			if cl.inv > lead.ret {
				ck.viol("failed-create-cached", "GetResource returned the error of a create whose call had already returned before this call was invoked (a failed create was retained)", k,
					map[string]any{"caller": callDesc(h.fam, cl), "leading_call": callDesc(h.fam, lead), "create": x.e.name(), "caller_own_create_ran": cl.runs.Load()})
			} else if lead.inv > cl.ret {
				ck.viol("error-from-later-call", "GetResource returned the error of a create whose call was invoked after this call had returned", k,
					map[string]any{"caller": callDesc(h.fam, cl), "leading_call": callDesc(h.fam, lead)})
			}
		} else if cl.phase == lastPhase {
			st.tailErrFresh++
		}
	}
	invs := h.invsByKey()
	for k := range by {
		for _, e := range by[k] {
			if n := len(between(invs[k], e.start, e.end, e.call)); n > 0 {
				st.whileFn += int64(n)
				st.nontrivial = true
			}
		}
	}
	return st
}

// ---------------------------------------------------------------- event view (signature, witness)

type event struct {
	s    uint64
	kind uint8 // 0 inv 1 ret 2 fnstart 3 fnend
	c    *callRec
	e    *exec
}

var evNames = [4]string{"inv", "ret", "fnstart", "fnend"}

func (h *hist) events(key int) []event {
	var evs []event
	for _, c := range h.calls {
		if key >= 0 && c.spec.Key != key {
			continue
		}
		evs = append(evs, event{c.inv, 0, c, nil}, event{c.ret, 1, c, nil})
		if c.runs.Load() >= 1 {
			evs = append(evs, event{c.ex0.start, 2, c, &c.ex0}, event{c.ex0.end, 3, c, &c.ex0})
		}
		for _, e := range c.extra {
			evs = append(evs, event{e.start, 2, c, e}, event{e.end, 3, c, e})
		}
	}
	sort.Slice(evs, func(i, j int) bool { return evs[i].s < evs[j].s })
	return evs
}

// signature hashes the merged (key, leader|follower, event) sequence.
func (h *hist) signature() uint64 {
	const prime = 1099511628211
	x := uint64(14695981039346656037)
	for _, ev := range h.events(-1) {
		b := uint64(ev.c.spec.Key)<<3 | uint64(ev.kind)<<1
		if ev.c.runs.Load() > 0 {
			b |= 1
		}
		if ev.e != nil {
			b |= uint64(ev.e.abn) << 8
		}
		x = (x ^ b) * prime
	}
	return x
}

func (h *hist) dump(key, max int) []string {
	evs := h.events(key)
	var out []string
	for i, ev := range evs {
		if i >= max {
			out = append(out, fmt.Sprintf("... %d more events", len(evs)-max))
			break
		}
		c := ev.c
		switch ev.kind {
		case 0:
			out = append(out, fmt.Sprintf("%d c%d p%d/g%d k%d inv %s", ev.s, c.id, c.phase, c.g, c.spec.Key, c.api(h.fam)))
		case 1:
			got := ""
			switch {
			case c.goexited:
				got = "goroutine ended by runtime.Goexit"
			case c.panicked != nil:
				got = "panic " + fmt.Sprint(c.panicked)
			case h.fam == famRm:
				if r, ok := c.gotRes.(*resource); ok && r != nil {
					got = "instance of " + r.e.name()
				} else {
					got = fmt.Sprint("res=", c.gotRes)
				}
				if c.gotErr != nil {
					got += " err=" + c.gotErr.Error()
				}
			default:
				if v, ok := c.gotVal.(*exec); ok {
					got = "val of " + v.name()
				} else {
					got = fmt.Sprint("val=", c.gotVal)
				}
				if c.gotErr != nil {
					got += " err=(" + c.gotErr.Error() + ")"
				}
				if c.spec.Ex {
					got += fmt.Sprint(" fresh=", c.gotFresh)
				}
			}
			out = append(out, fmt.Sprintf("%d c%d ret %s", ev.s, c.id, got))
		case 2:
			out = append(out, fmt.Sprintf("%d c%d fnstart %s", ev.s, c.id, ev.e.name()))
		case 3:
			how := fmt.Sprintf("returns(value=%v,error=%v)", ev.e.retVal, ev.e.retErr)
			switch ev.e.abn {
			case resPanic:
				how = "then PANICS"
			case resGoexit:
				how = "then calls runtime.Goexit"
			}
			out = append(out, fmt.Sprintf("%d c%d fnend %s %s", ev.s, c.id, ev.e.name(), how))
		}
	}
	return out
}

// ---------------------------------------------------------------- one evaluation

// blockedConfirmed: family -> a reproduced stable block after an abnormal exit was reported in
// this process; its remaining cases are skipped (each would cost two full stability probes and
// leak its goroutines, and the run already reports the violation).
var blockedConfirmed = map[string]bool{}

var labelSeq int

func runHistory(c *kit.Case, name string) {
	if blockedConfirmed[name] {
		c.Obs("abn_histories_skipped_after_confirmed_block", 1)
		return
	}
	spec := genHist(c.R, name)
	reps := 1
	if kit.GetEnv().Only != "" {
		reps = 200 // replay: schedules are not reproducible, re-run the same history and report the hit count
	}
	hits := 0
	for rep := 0; rep < reps && !blockedConfirmed[name]; rep++ {
		before := violCount
		runOnce(c, spec, name, nil)
		if violCount > before {
			hits++
		}
	}
	if reps > 1 {
		c.Obs("replay_runs", int64(reps))
		c.Obs("replay_runs_with_violation", int64(hits))
	}
}

// runOnce executes and checks one history. firstBlock != nil: this is the re-run after a
// stable block was seen on the first attempt.
func runOnce(c *kit.Case, spec *histSpec, name string, firstBlock *blockInfo) {
	fam, abn := baseFam(name)
	h := &hist{spec: spec, fam: fam, abn: abn}
	pre := ""
	kind := "sf"
	switch fam {
	case famLc:
		kind = "lc"
	case famRm:
		kind = "rm"
	}
	if abn {
		pre = "abn_"
		labelSeq++
		h.label = fmt.Sprintf("%s#%d", c.ID, labelSeq)
	}
	if !h.run(c) {
		c.Obs("histories_abandoned", 1)
		bi := h.blocked
		switch {
		case bi == nil:
		case !bi.afterAbnormal:
			c.Inconclusive("stable block, but every blocked call had been invoked before the abnormally ended call of its key returned (what already waiting callers get is outside the statement)")
		case firstBlock == nil:
			runOnce(c, spec, name, bi) // must reproduce on a fresh instance
		default:
			blockedConfirmed[name] = true
			violCount++
			c.Viol("C07/"+kind+"/blocked-after-abnormal-exit",
				"calls invoked after an abnormally ended call (function panicked / runtime.Goexit) of their key had returned never return: stable block inside core/syncx, reproduced on a fresh instance",
				map[string]any{"first_attempt": firstBlock.witness, "second_attempt": bi.witness})
		}
		return
	}
	if firstBlock != nil {
		c.Inconclusive("a stable block after an abnormal exit was seen once and did not reproduce on a fresh instance")
	}
	c.Obs("histories_"+name, 1)
	nontrivial := false
	var sample map[string]any
	var ast abnStats
	switch fam {
	case famLc:
		st := checkLC(c, h)
		nontrivial, ast = st.nontrivial, st.abn
		c.Obs(pre+"lc_calls", st.calls)
		c.Obs(pre+"lc_executions", st.execs)
		c.Obs(pre+"lc_calls_invoked_while_same_key_fn_running", st.whileFn)
		sample = map[string]any{"calls": st.calls, "executions": st.execs, "invoked_while_same_key_fn_running": st.whileFn}
	case famRm:
		st := checkRM(c, h)
		nontrivial, ast = st.nontrivial, st.abn
		c.Obs(pre+"rm_calls", st.calls)
		c.Obs(pre+"rm_creates", st.creates)
		c.Obs(pre+"rm_creates_ok", st.okCreates)
		c.Obs(pre+"rm_creates_failed", st.failCreates)
		c.Obs(pre+"rm_create_ok_after_failed_create", st.recreatedAfterFailure)
		c.Obs(pre+"rm_calls_invoked_while_same_key_create_running", st.whileFn)
		c.Obs(pre+"rm_calls_handed_instance_created_by_other_call", st.shared)
		c.Obs(pre+"rm_tail_calls_failed_with_own_fresh_create", st.tailErrFresh)
		sample = map[string]any{"calls": st.calls, "creates": st.creates, "ok": st.okCreates, "failed": st.failCreates,
			"invoked_while_same_key_create_running": st.whileFn, "shared": st.shared}
	default:
		st := checkSF(c, h)
		nontrivial, ast = st.nontrivial, st.abn
		c.Obs(pre+"sf_calls", st.calls)
		c.Obs(pre+"sf_executions", st.execs)
		c.Obs(pre+"sf_followers", st.followers)
		c.Obs(pre+"sf_followers_sharing_an_error", st.sharedErrs)
		c.Obs(pre+"sf_calls_invoked_between_leader_fnend_and_leader_return", st.window)
		c.Obs(pre+"sf_of_those_joined_the_ending_flight", st.joinedInWindow)
		c.Obs(pre+"sf_fresh_reports", st.fresh)
		c.Obs(pre+"sf_tail_calls_executed_afresh", st.tailAfresh)
		sample = map[string]any{"calls": st.calls, "executions": st.execs, "followers": st.followers,
			"invoked_between_leader_fnend_and_return": st.window, "of_those_joined_the_ending_flight": st.joinedInWindow}
	}
	if abn {
		// abnormal families: non-trivial iff a call was invoked after an abnormally ended call of
		// its key had returned (the calls the statement speaks about)
		nontrivial = ast.after > 0
		c.Obs("abn_"+kind+"_function_exits_by_panic", ast.panics)
		c.Obs("abn_"+kind+"_function_exits_by_goexit", ast.goexits)
		c.Obs("abn_"+kind+"_calls_invoked_after_abnormal_exit_of_same_key", ast.after)
		c.Obs("abn_"+kind+"_waiting_followers_unconstrained", ast.unconstrained)
		sample["function_exits_by_panic"], sample["function_exits_by_goexit"] = ast.panics, ast.goexits
		sample["calls_invoked_after_abnormal_exit_of_same_key"] = ast.after
	}
	if nontrivial {
		c.Obs("nontrivial_"+name, 1)
	}
	c.Sig(nontrivial, name, h.signature())
	cls := name + "/trivial"
	if nontrivial {
		cls = name + "/nontrivial"
	}
	if len(h.calls) <= 40 {
		sample["history"] = spec.render()
		sample["events"] = h.dump(-1, 200)
		c.Sample(cls, 1, sample)
	}
}

// ---------------------------------------------------------------- lc-indep: calls on different keys never wait for each other

// indepConfirmed is set once a causal cross-key wait has been established in this
// process; the remaining lc-indep cases are then skipped (each would cost the full
// patience three times and add nothing to a run that already reports a violation).
var indepConfirmed atomic.Bool

const indepPatience = 5 * time.Second // doubled per attempt: 5 s, 10 s, 20 s

type indepSpec struct {
	OtherKeys int
	Gors      [][]callSpec // calls on keys 1..OtherKeys
	OnHeld    int          // extra callers on the held key k0 (these legitimately wait)
}

const (
	indepProven  = iota // every other-key call returned while k0's function was held
	indepSuspect        // not within patience, but after the release
	indepStuck          // not even after the release
)

func runIndep(c *kit.Case) {
	if indepConfirmed.Load() {
		c.Obs("lc_indep_skipped_after_confirmed_violation", 1)
		return
	}
	r := c.R
	sp := &indepSpec{OtherKeys: r.Range(1, 4), OnHeld: r.Pick(3, 2, 1, 1)}
	ng := kit.Choose(r, []int{1, 2, 3, 4, 8, 16})
	bodyW := kit.Choose(r, [][4]int{{1, 0, 0, 0}, {2, 3, 1, 0}, {1, 1, 4, 0}, {1, 1, 1, 0}})
	for i := 0; i < ng; i++ {
		nc := r.Range(1, 4)
		calls := make([]callSpec, nc)
		for j := range calls {
			calls[j] = genCall(r, famLc, sp.OtherKeys, false, bodyW, 0.2, false)
			calls[j].Key++ // k0 is the held key
		}
		sp.Gors = append(sp.Gors, calls)
	}
	render := func() map[string]any {
		gs := make([]string, len(sp.Gors))
		for i, g := range sp.Gors {
			parts := make([]string, len(g))
			for j, cs := range g {
				parts[j] = cs.String()
			}
			gs[i] = strings.Join(parts, " ")
		}
		return map[string]any{"family": famIndep, "held_key": "k0 (its function blocks on a channel only the harness closes)",
			"extra_callers_on_held_key": sp.OnHeld, "other_key_goroutines": gs}
	}
	var log []string
	for attempt := 0; attempt < 3; attempt++ {
		patience := indepPatience << attempt
		out, h, note := indepAttempt(c, sp, patience)
		log = append(log, fmt.Sprintf("attempt %d patience %v: %s", attempt+1, patience, note))
		switch out {
		case indepProven:
			c.Obs("histories_"+famIndep, 1)
			st := checkLC(c, h)
			c.Obs("lc_calls", st.calls)
			c.Obs("lc_executions", st.execs)
			c.Obs("lc_indep_other_key_calls_completed_while_k0_held", int64(countOther(h)))
			c.Obs("nontrivial_"+famIndep, 1)
			c.Sig(true, famIndep, h.signature())
			if attempt > 0 {
				c.Inconclusive("cross-key wait seen once but not reproduced: " + strings.Join(log, "; "))
			} else if len(h.calls) <= 30 {
				c.Sample(famIndep+"/nontrivial", 1, map[string]any{"history": render(), "events": h.dump(-1, 200)})
			}
			return
		case indepStuck:
			c.Inconclusive("lc-indep: calls did not return even after the held function was released: " + strings.Join(log, "; "))
			return
		}
	}
	indepConfirmed.Store(true)
	c.Viol("C07/lc/cross-key-wait", "calls on other keys did not return while the function of key k0 was held, and returned once it was released (3 attempts, patience doubled each time)",
		map[string]any{"history": render(), "attempts": log})
}

func countOther(h *hist) int {
	n := 0
	for _, cl := range h.calls {
		if cl.spec.Key != 0 {
			n++
		}
	}
	return n
}

// indepAttempt runs one causal-release experiment on a fresh LockedCalls.
func indepAttempt(c *kit.Case, sp *indepSpec, patience time.Duration) (int, *hist, string) {
	h := &hist{fam: famLc, spec: &histSpec{Fam: famIndep, Keys: sp.OtherKeys + 1}}
	onHeld := make([]gorSpec, 1+sp.OnHeld) // rendering only: the holder and the extra callers of k0
	for i := range onHeld {
		onHeld[i].Calls = []callSpec{{Key: 0}}
	}
	others := make([]gorSpec, len(sp.Gors))
	for i := range others {
		others[i].Calls = sp.Gors[i]
	}
	h.spec.Phases = [][]gorSpec{onHeld, others}
	for k := range h.names {
		h.names[k] = fmt.Sprintf("k%d", k)
	}
	h.lc = syncx.NewLockedCalls()
	hold := make(chan struct{})
	started := make(chan struct{})
	id := 0
	newRec := func(g int, cs callSpec) *callRec {
		cr := &callRec{id: id, g: g, spec: cs}
		id++
		h.calls = append(h.calls, cr)
		return cr
	}
	// the holder
	holder := newRec(0, callSpec{Key: 0})
	var heldWG sync.WaitGroup // holder + extra callers on k0
	heldDone := make(chan struct{})
	heldWG.Add(1 + sp.OnHeld)
	callHeld := func(cr *callRec, first bool) {
		defer heldWG.Done()
		cr.inv = kit.Stamp()
		func() {
			defer func() {
				if r := recover(); r != nil {
					cr.panicked = r
				}
			}()
			cr.gotVal, cr.gotErr = h.lc.Do(h.names[0], func() (any, error) {
				n := cr.runs.Add(1)
				e := &cr.ex0
				if n > 1 {
					e = &exec{}
					h.mu.Lock()
					cr.extra = append(cr.extra, e)
					h.mu.Unlock()
				}
				e.h, e.call, e.run, e.key = h, cr, n, 0
				h.gauge[0].Enter()
				e.start = kit.Stamp()
				if first && n == 1 {
					close(started)
				}
				<-hold
				e.end = kit.Stamp()
				h.gauge[0].Exit()
				e.retVal = true
				return e, nil
			})
		}()
		cr.ret = kit.Stamp()
	}
	go callHeld(holder, true)
	go func() { heldWG.Wait(); close(heldDone) }()
	release := func() { close(hold) }
	join := func() bool {
		select {
		case <-heldDone:
			return true
		case <-time.After(abortGrace):
			return false
		}
	}
	select {
	case <-started:
	case <-time.After(phaseWatchdog):
		release()
		for i := 0; i < sp.OnHeld; i++ {
			heldWG.Done()
		}
		join()
		return indepStuck, nil, "the holder's function never started"
	}
	for i := 0; i < sp.OnHeld; i++ {
		go callHeld(newRec(1+i, callSpec{Key: 0}), false)
	}
	// the other keys
	ph := &phaseRt{start: make(chan struct{}), done: make(chan struct{})}
	ph.remaining.Store(int64(len(sp.Gors)))
	ph.nonChasers = int64(len(sp.Gors))
	for gi, g := range sp.Gors {
		recs := make([]*callRec, len(g))
		for ci, cs := range g {
			recs[ci] = newRec(100+gi, cs)
		}
		go h.runGor(ph, &gorSpec{Calls: g}, recs)
	}
	close(ph.start)
	tm := time.NewTimer(patience)
	defer tm.Stop()
	select {
	case <-ph.done:
		releasedAt := kit.Stamp()
		release()
		if !join() {
			return indepStuck, nil, "other keys completed while k0 was held, but the calls on k0 did not return after the release"
		}
		// belt and braces: every other-key call really returned before the release
		for _, cl := range h.calls {
			if cl.spec.Key != 0 && cl.ret > releasedAt {
				return indepStuck, nil, "harness error: other-key return stamped after the release"
			}
		}
		return indepProven, h, "all other-key calls returned while k0's function was held"
	case <-tm.C:
		release()
		select {
		case <-ph.done:
			join()
			return indepSuspect, nil, "other-key calls had not returned after the patience period, and returned after k0's function was released"
		case <-time.After(phaseWatchdog):
			h.abort.Store(true)
			return indepStuck, nil, "other-key calls did not return even after the release"
		}
	}
}

// ---------------------------------------------------------------- entry point

func TestVerifC07(t *testing.T) {
	logx.Disable()
	fams := []struct {
		name     string
		quick, t int
	}{
		{famSfDo, 6000, 130000},
		{famSfEx, 6000, 130000},
		{famSfMix, 4800, 100000},
		{famLc, 5600, 120000},
		{famRm, 5000, 110000},
		{famSfAbn, 2400, 50000},
		{famLcAbn, 1600, 32000},
		{famRmAbn, 1600, 32000},
	}
	for _, f := range fams {
		f := f
		kit.Run(t, "C07", f.name, kit.N(f.quick, f.t), func(c *kit.Case) { runHistory(c, f.name) })
	}
	kit.Run(t, "C07", famIndep, kit.N(800, 12000), runIndep)
	kit.Run(t, "C07", famIndepWide, kit.N(24, 400), runIndepWide)
	kit.Run(t, "C07", famRmLife, kit.N(4000, 80000), runLife)
	kit.Run(t, "C07", famSfShapes, kit.N(1200, 24000), func(c *kit.Case) { runBurst(c, famSfShapes) })
	kit.Run(t, "C07", famRmShapes, kit.N(600, 12000), func(c *kit.Case) { runBurst(c, famRmShapes) })
	kit.End()
}
