// C01, integration site core/stores/sqlx: the breaker plumbing of sqlconn.go / stmt.go
// (ExecCtx, PrepareCtx, QueryRow*/QueryRows* via queryRows, TransactCtx, prepared statements,
// acceptable(), WithAcceptable, the scanFailed rule). Black-box: a sqlx.SqlConn made with
// NewSqlConnFromDB over a *sql.DB whose database/sql/driver is scripted by this file.
//
// Every sqlx call is one call on the breaker of its SqlConn. The admission model of c01_test.go
// is stepped with the classification sqlconn.go documents: nil, sql.ErrNoRows, sql.ErrTxDone,
// context.Canceled, errors accepted by a WithAcceptable option (options accumulate with OR) and
// scan failures of query results are successes, every other error is a failure, a panic is a
// failure. Checked per call: (1) rejection only where the statement allows it, never for a
// must-admit call; (2) admitted => the driver executed the statement exactly once (transactions:
// one BEGIN, the body once) and the driver's error / the result comes back unchanged; rejected =>
// nothing reached the driver and ErrServiceUnavailable comes back; done context => nothing ran and
// the context's error came back, or the admitted/rejected rules hold; (3) through the model a
// success class recorded as failure shows as an illegal rejection (families sqlx, sqlx-flood), a
// failure class recorded as success as missing effectiveness (family sqlx-effect); (4) one breaker
// per SqlConn: two SqlConns over one *sql.DB have separate windows (a second connection is probed
// while the first one is throttling), prepared statements and transactions of a SqlConn share its
// window (family sqlx-shared).
package c01

import (
	"context"
	"database/sql"
	"database/sql/driver"
	"errors"
	"fmt"
	"io"
	"sync"
	"time"

	"github.com/zeromicro/go-zero/core/breaker"
	"github.com/zeromicro/go-zero/core/stores/sqlx"

	"verifharness/kit"
)

// ------------------------------------------------------------------ scripted driver

// sqlAns scripts the next driver call of one kind; driver calls of every other kind succeed.
type sqlAns struct {
	kind     string // exec | query | prepare | stmt-exec | stmt-query | begin | commit | tx-exec
	err      error
	pan      any
	lat      time.Duration
	cols     []string
	rows     [][]driver.Value
	lastID   int64
	affected int64
}

type sqlScript struct {
	mu  sync.Mutex
	vc  *kit.VClock
	ans *sqlAns
	n   map[string]int // driver calls per kind
}

// hit counts a driver call and returns the scripted answer if it is meant for this kind.
func (s *sqlScript) hit(kind string) *sqlAns {
	s.mu.Lock()
	defer s.mu.Unlock()
	s.n[kind]++
	a := s.ans
	if a == nil || a.kind != kind {
		return nil
	}
	if a.lat > 0 {
		s.vc.Advance(a.lat)
	}
	return a
}

func (s *sqlScript) count(kind string) int {
	s.mu.Lock()
	defer s.mu.Unlock()
	return s.n[kind]
}

func (s *sqlScript) set(a *sqlAns) {
	s.mu.Lock()
	s.ans = a
	s.mu.Unlock()
}

type sqlConnector struct{ s *sqlScript }

func (c sqlConnector) Connect(context.Context) (driver.Conn, error) { return &sqlDConn{s: c.s}, nil }
func (c sqlConnector) Driver() driver.Driver                        { return sqlDrv{} }

type sqlDrv struct{}

func (sqlDrv) Open(string) (driver.Conn, error) { return nil, errors.New("verif: use the connector") }

type sqlDConn struct{ s *sqlScript }

type sqlResult struct{ lastID, affected int64 }

func (r sqlResult) LastInsertId() (int64, error) { return r.lastID, nil }
func (r sqlResult) RowsAffected() (int64, error) { return r.affected, nil }

func (c *sqlDConn) Close() error { return nil }

func (c *sqlDConn) Prepare(q string) (driver.Stmt, error) {
	if a := c.s.hit("prepare"); a != nil && a.err != nil {
		return nil, a.err
	}
	return &sqlDStmt{s: c.s}, nil
}

func (c *sqlDConn) Begin() (driver.Tx, error) {
	if a := c.s.hit("begin"); a != nil && a.err != nil {
		return nil, a.err
	}
	return &sqlDTx{s: c.s}, nil
}

func sqlExecAnswer(a *sqlAns) (driver.Result, error) {
	if a == nil {
		return sqlResult{0, 1}, nil
	}
	if a.pan != nil {
		panic(a.pan)
	}
	if a.err != nil {
		return nil, a.err
	}
	return sqlResult{a.lastID, a.affected}, nil
}

func sqlQueryAnswer(a *sqlAns) (driver.Rows, error) {
	if a == nil {
		return &sqlDRows{cols: []string{"v"}, rows: [][]driver.Value{{int64(1)}}}, nil
	}
	if a.err != nil {
		return nil, a.err
	}
	return &sqlDRows{cols: a.cols, rows: a.rows}, nil
}

func (c *sqlDConn) ExecContext(_ context.Context, q string, _ []driver.NamedValue) (driver.Result, error) {
	kind := "exec"
	if len(q) >= 6 && q[:6] == "TXEXEC" {
		kind = "tx-exec"
	}
	return sqlExecAnswer(c.s.hit(kind))
}

func (c *sqlDConn) QueryContext(_ context.Context, _ string, _ []driver.NamedValue) (driver.Rows, error) {
	return sqlQueryAnswer(c.s.hit("query"))
}

type sqlDStmt struct{ s *sqlScript }

func (st *sqlDStmt) Close() error  { return nil }
func (st *sqlDStmt) NumInput() int { return -1 }
func (st *sqlDStmt) Exec([]driver.Value) (driver.Result, error) {
	return sqlExecAnswer(st.s.hit("stmt-exec"))
}
func (st *sqlDStmt) Query([]driver.Value) (driver.Rows, error) {
	return sqlQueryAnswer(st.s.hit("stmt-query"))
}

type sqlDTx struct{ s *sqlScript }

func (t *sqlDTx) Commit() error {
	if a := t.s.hit("commit"); a != nil {
		return a.err
	}
	return nil
}
func (t *sqlDTx) Rollback() error { t.s.hit("rollback"); return nil }

type sqlDRows struct {
	cols []string
	rows [][]driver.Value
	i    int
}

func (r *sqlDRows) Columns() []string { return r.cols }
func (r *sqlDRows) Close() error      { return nil }
func (r *sqlDRows) Next(dest []driver.Value) error {
	if r.i >= len(r.rows) {
		return io.EOF
	}
	copy(dest, r.rows[r.i])
	r.i++
	return nil
}

// ------------------------------------------------------------------ outcome classes

var (
	errSqlOpt1 = errors.New("verif: error accepted by the first WithAcceptable option")
	errSqlOpt2 = errors.New("verif: error accepted by the second WithAcceptable option")
	errSqlOpt3 = errors.New("verif: error accepted by no option")
)

// sqlOptCfgs: which WithAcceptable options a SqlConn is made with.
// cfg 0: none, cfg 1: [accept errSqlOpt1], cfg 2: [accept errSqlOpt1, accept errSqlOpt2].
func sqlOpts(cfg int) []sqlx.SqlOption {
	var o []sqlx.SqlOption
	if cfg >= 1 {
		o = append(o, sqlx.WithAcceptable(func(err error) bool { return errors.Is(err, errSqlOpt1) }))
	}
	if cfg >= 2 {
		o = append(o, sqlx.WithAcceptable(func(err error) bool { return errors.Is(err, errSqlOpt2) }))
	}
	return o
}

type sqlClass struct {
	name string
	mk   func(id int64) error // the error the driver / the transaction body ends with (nil: none)
	cfgs []int                // option configurations under which the class is what `fail` says
	fail bool
	scan string // query entries: which scan failure ("" none)
	pan  bool   // exec: the driver panics; transact: the body panics
	// error-value shape of one of the predicate's sentinels (c01_shapes_sites_test.go); nil for the plain classes
	shape *vfC01ShCombo
	// dial: the error arises when the SqlConn acquires its *sql.DB (connProv: sql.Open + Ping of a
	// sqlx.NewSqlConn over the registered scripted driver, c01_sqlx_dial_test.go), not in the statement
	dial bool
}

func sqlFixed(e error) func(int64) error { return func(int64) error { return e } }

var sqlAllCfgs = []int{0, 1, 2}

var sqlOkClasses = []sqlClass{
	{name: "nil", mk: sqlFixed(nil), cfgs: sqlAllCfgs},
	{name: "sql.ErrNoRows", mk: sqlFixed(sql.ErrNoRows), cfgs: sqlAllCfgs},
	{name: "sql.ErrTxDone", mk: sqlFixed(sql.ErrTxDone), cfgs: sqlAllCfgs},
	{name: "context.Canceled", mk: sqlFixed(context.Canceled), cfgs: sqlAllCfgs},
	{name: "accepted-by-first-option", mk: sqlFixed(errSqlOpt1), cfgs: []int{1, 2}},
	{name: "accepted-by-second-option", mk: sqlFixed(errSqlOpt2), cfgs: []int{2}},
	{name: "scan-conversion-error", mk: sqlFixed(nil), cfgs: sqlAllCfgs, scan: "conversion"},
	{name: "scan-not-matching-destination", mk: sqlFixed(nil), cfgs: sqlAllCfgs, scan: "not-matching"},
	{name: "scan-no-rows", mk: sqlFixed(nil), cfgs: sqlAllCfgs, scan: "no-rows"},
	{name: "scan-unsupported-destination-type", mk: sqlFixed(nil), cfgs: sqlAllCfgs, scan: "unsupported-type"},
}

var sqlFailClasses = []sqlClass{
	{name: "plain-error", fail: true, cfgs: sqlAllCfgs, mk: func(id int64) error { return fmt.Errorf("verif: scripted sql failure #%d", id) }},
	{name: "sql.ErrConnDone", fail: true, cfgs: sqlAllCfgs, mk: sqlFixed(sql.ErrConnDone)},
	{name: "context.DeadlineExceeded", fail: true, cfgs: sqlAllCfgs, mk: sqlFixed(context.DeadlineExceeded)},
	{name: "io.ErrUnexpectedEOF", fail: true, cfgs: sqlAllCfgs, mk: sqlFixed(io.ErrUnexpectedEOF)},
	{name: "refused-by-every-option", fail: true, cfgs: sqlAllCfgs, mk: sqlFixed(errSqlOpt3)},
	{name: "accepted-only-by-an-option-not-installed", fail: true, cfgs: []int{1}, mk: sqlFixed(errSqlOpt2)},
	{name: "panic", fail: true, cfgs: sqlAllCfgs, pan: true, mk: sqlFixed(nil)},
}

var sqlEntries = []string{"exec", "query", "prepare", "stmt-exec", "stmt-query", "transact"}

// sqlApplies: can this class be produced through this entry point.
func sqlApplies(entry string, cl *sqlClass) bool {
	switch {
	case cl.scan != "":
		return entry == "query" || entry == "stmt-query"
	case cl.pan:
		return entry == "exec" || entry == "transact"
	}
	return true
}

func sqlHasCfg(cl *sqlClass, cfg int) bool {
	for _, c := range cl.cfgs {
		if c == cfg {
			return true
		}
	}
	return false
}

type sqlCombo struct {
	entry string
	cl    *sqlClass
}

func sqlCombos(classes []sqlClass) []sqlCombo {
	var out []sqlCombo
	for _, e := range sqlEntries {
		for i := range classes {
			if sqlApplies(e, &classes[i]) {
				out = append(out, sqlCombo{e, &classes[i]})
			}
		}
	}
	return out
}

var sqlFailCombos = sqlCombos(sqlFailClasses)
var sqlOkCombos = sqlCombos(sqlOkClasses)

// ------------------------------------------------------------------ histories

type sqlRow struct {
	A int64  `db:"a"`
	B string `db:"b"`
}

type sqlSide struct {
	label string
	conn  sqlx.SqlConn
	cfg   int
	m     *model
	stmt  sqlx.StmtSession
}

type sqlHist struct {
	c     *kit.Case
	vc    *kit.VClock
	kind  string
	s     *sqlScript
	db    *sql.DB
	sides []*sqlSide
	union *model
	log   []string
	calls int64
	rej   int64
	legal int64
	must  int64
	sig   []any
	// relabel: when set (shape floods), the key of every illegal rejection on a single connection
	relabel string
	// dsn: set for histories over sqlx.NewSqlConn(sqlDialDriver, dsn) (c01_sqlx_dial_test.go)
	dsn string
}

type sqlOp struct {
	side    int
	entry   string
	cl      *sqlClass
	ctx     ctxMode
	variant int // query: 0 row strict, 1 row partial, 2 rows strict, 3 rows partial; transact: where the error arises
	gap     time.Duration
	lat     time.Duration
}

// newSqlHist: one scripted *sql.DB, nSides SqlConns over it (each has its own breaker).
func newSqlHist(c *kit.Case, vc *kit.VClock, kind string, cfgs ...int) *sqlHist {
	vc.Set(kit.VClockStart + time.Duration(c.R.Int63n(int64(3*time.Second))))
	h := &sqlHist{c: c, vc: vc, kind: kind, s: &sqlScript{vc: vc, n: map[string]int{}}}
	h.db = sql.OpenDB(sqlConnector{h.s})
	for i, cfg := range cfgs {
		h.sides = append(h.sides, &sqlSide{
			label: fmt.Sprintf("conn%c(%d WithAcceptable options)", 'A'+i, cfg),
			conn:  sqlx.NewSqlConnFromDB(h.db, sqlOpts(cfg)...),
			cfg:   cfg,
			m:     newModel(vc.Now()),
		})
	}
	h.union = newModel(vc.Now())
	return h
}

func (h *sqlHist) close() {
	for _, sd := range h.sides {
		if sd.stmt != nil {
			sd.stmt.Close()
		}
	}
	if h.db != nil {
		h.db.Close()
	}
	if h.dsn != "" {
		// the *sql.DB of a NewSqlConn belongs to go-zero's connection manager (cached per DSN for the
		// life of the process; DSNs are never reused): close it so that its goroutine and connection go away
		if h.s.count("dial-ok") > 0 {
			if db, err := h.sides[0].conn.RawDB(); err == nil {
				db.Close()
			}
		}
		sqlDialScripts.Delete(h.dsn)
	}
}

func (h *sqlHist) witness(detail string) map[string]any {
	var sides []string
	for _, sd := range h.sides {
		sides = append(sides, sd.label)
	}
	return map[string]any{"family": h.kind, "sql_conns (all over one *sql.DB with a scripted driver)": sides, "bucket": bucketDur.String(),
		"history (gap before call, connection, entry point, driver/body outcome -> decision [window of that connection before the call])": h.log,
		"detail": detail}
}

var sqlTxWhere = []string{"body-returns", "begin-fails", "commit-fails", "statement-in-tx-fails"}

// step performs one sqlx call and judges it. Returns the verdict (vBroken after a violation, and
// -1 if the op could not be made because no prepared statement exists).
func (h *sqlHist) step(op sqlOp) verdict {
	c, vc, s := h.c, h.vc, h.s
	sd := h.sides[op.side]
	cl := op.cl
	if (op.entry == "stmt-exec" || op.entry == "stmt-query") && sd.stmt == nil {
		return -1
	}
	vc.Advance(op.gap)
	t := vc.Now()
	p := sd.m.pre(t)
	id := errSeq.Add(1)
	e := cl.mk(id)
	tok := &panicTok{int(id)}
	fail := cl.fail

	var ctx context.Context
	cancel := func() {}
	switch op.ctx {
	case cNone:
		ctx = context.Background()
	case cLive:
		ctx, cancel = context.WithCancel(context.Background())
	case cCancelled:
		ctx, cancel = context.WithCancel(context.Background())
		cancel()
	default:
		ctx, cancel = context.WithDeadline(context.Background(), time.Now().Add(-time.Hour))
	}
	defer cancel()
	useCtx := op.ctx != cNone

	// ---- script the driver and pick the sqlx method
	var call func() error
	var checkResult func() string // "" = result as scripted
	runKind := op.entry
	fnRuns := 0
	beginFails := false
	desc := fmt.Sprintf("+%v %s %s ctx=%s outcome:%s", op.gap, sd.label, op.entry, []string{"none(non-Ctx method)", "live", "cancelled", "expired"}[op.ctx], cl.name)
	switch op.entry {
	case "exec", "stmt-exec":
		a := &sqlAns{kind: op.entry, err: e, lat: op.lat, lastID: id, affected: id % 7}
		if cl.pan {
			a.pan = tok
		}
		s.set(a)
		var res sql.Result
		call = func() (err error) {
			switch {
			case op.entry == "exec" && useCtx:
				res, err = sd.conn.ExecCtx(ctx, "EXEC verif SET v = ? WHERE k = ?", id, "k")
			case op.entry == "exec":
				res, err = sd.conn.Exec("EXEC verif SET v = ? WHERE k = ?", id, "k")
			case useCtx:
				res, err = sd.stmt.ExecCtx(ctx, id)
			default:
				res, err = sd.stmt.Exec(id)
			}
			return
		}
		checkResult = func() string {
			if res == nil {
				return "nil sql.Result with a nil error"
			}
			li, _ := res.LastInsertId()
			ra, _ := res.RowsAffected()
			if li != id || ra != id%7 {
				return fmt.Sprintf("driver answered LastInsertId=%d RowsAffected=%d, caller got %d/%d", id, id%7, li, ra)
			}
			return ""
		}
	case "query", "stmt-query":
		variant := op.variant & 3
		switch cl.scan {
		case "not-matching": // needs a strict method
			variant &^= 1
		case "no-rows": // needs a single-row method
			variant &^= 2
		}
		rowsMethod, partial := variant&2 != 0, variant&1 != 0
		structDest := id%2 == 0 || cl.scan == "not-matching"
		a := &sqlAns{kind: op.entry, err: e, lat: op.lat}
		nrows := 1
		if rowsMethod {
			nrows = int(id % 4) // 0..3 rows
			if cl.scan == "conversion" && nrows == 0 {
				nrows = 2
			}
		}
		if structDest {
			a.cols = []string{"a", "b"}
			for i := 0; i < nrows; i++ {
				a.rows = append(a.rows, []driver.Value{id + int64(i), fmt.Sprintf("s%d", id+int64(i))})
			}
		} else {
			a.cols = []string{"v"}
			for i := 0; i < nrows; i++ {
				a.rows = append(a.rows, []driver.Value{id + int64(i)})
			}
		}
		switch cl.scan {
		case "conversion":
			a.rows[len(a.rows)-1][0] = "not-a-number"
		case "not-matching":
			a.cols = []string{"a"}
			for i := range a.rows {
				a.rows[i] = a.rows[i][:1]
			}
			if len(a.rows) == 0 { // the column check needs no row for QueryRows, but QueryRow looks at a row first
				a.rows = [][]driver.Value{{id}}
			}
		case "no-rows":
			a.rows = nil
		}
		s.set(a)
		var dest any
		var one int64
		var oneRow sqlRow
		var many []int64
		var manyRows []sqlRow
		switch {
		case cl.scan == "unsupported-type":
			dest = &map[string]any{}
		case rowsMethod && structDest:
			dest = &manyRows
		case rowsMethod:
			dest = &many
		case structDest:
			dest = &oneRow
		default:
			dest = &one
		}
		desc += fmt.Sprintf(" method=%s%s%s dest=%T", map[bool]string{false: "QueryRow", true: "QueryRows"}[rowsMethod],
			map[bool]string{false: "", true: "Partial"}[partial], map[bool]string{false: "", true: "Ctx"}[useCtx], dest)
		const q = "QUERY v FROM verif WHERE k = ?"
		call = func() error {
			if op.entry == "query" {
				cn := sd.conn
				switch {
				case !rowsMethod && !partial && !useCtx:
					return cn.QueryRow(dest, q, id)
				case !rowsMethod && !partial:
					return cn.QueryRowCtx(ctx, dest, q, id)
				case !rowsMethod && !useCtx:
					return cn.QueryRowPartial(dest, q, id)
				case !rowsMethod:
					return cn.QueryRowPartialCtx(ctx, dest, q, id)
				case !partial && !useCtx:
					return cn.QueryRows(dest, q, id)
				case !partial:
					return cn.QueryRowsCtx(ctx, dest, q, id)
				case !useCtx:
					return cn.QueryRowsPartial(dest, q, id)
				}
				return cn.QueryRowsPartialCtx(ctx, dest, q, id)
			}
			st := sd.stmt
			switch {
			case !rowsMethod && !partial && !useCtx:
				return st.QueryRow(dest, id)
			case !rowsMethod && !partial:
				return st.QueryRowCtx(ctx, dest, id)
			case !rowsMethod && !useCtx:
				return st.QueryRowPartial(dest, id)
			case !rowsMethod:
				return st.QueryRowPartialCtx(ctx, dest, id)
			case !partial && !useCtx:
				return st.QueryRows(dest, id)
			case !partial:
				return st.QueryRowsCtx(ctx, dest, id)
			case !useCtx:
				return st.QueryRowsPartial(dest, id)
			}
			return st.QueryRowsPartialCtx(ctx, dest, id)
		}
		checkResult = func() string {
			switch {
			case rowsMethod && structDest:
				if len(manyRows) != nrows {
					return fmt.Sprintf("driver answered %d rows, caller got %d", nrows, len(manyRows))
				}
				for i, r := range manyRows {
					if r.A != id+int64(i) || r.B != fmt.Sprintf("s%d", id+int64(i)) {
						return fmt.Sprintf("row %d: driver answered (%d, s%d), caller got %+v", i, id+int64(i), id+int64(i), r)
					}
				}
			case rowsMethod:
				if len(many) != nrows {
					return fmt.Sprintf("driver answered %d rows, caller got %d", nrows, len(many))
				}
				for i, v := range many {
					if v != id+int64(i) {
						return fmt.Sprintf("row %d: driver answered %d, caller got %d", i, id+int64(i), v)
					}
				}
			case structDest:
				if oneRow.A != id || oneRow.B != fmt.Sprintf("s%d", id) {
					return fmt.Sprintf("driver answered (%d, s%d), caller got %+v", id, id, oneRow)
				}
			default:
				if one != id {
					return fmt.Sprintf("driver answered %d, caller got %d", id, one)
				}
			}
			return ""
		}
	case "prepare":
		s.set(&sqlAns{kind: "prepare", err: e, lat: op.lat})
		var st sqlx.StmtSession
		call = func() (err error) {
			if useCtx {
				st, err = sd.conn.PrepareCtx(ctx, "STMT verif WHERE k = ?")
			} else {
				st, err = sd.conn.Prepare("STMT verif WHERE k = ?")
			}
			return
		}
		checkResult = func() string {
			if st == nil {
				return "nil StmtSession with a nil error"
			}
			if sd.stmt != nil {
				sd.stmt.Close()
			}
			sd.stmt = st
			return ""
		}
	case "transact":
		runKind = "begin"
		where := op.variant & 3
		if e == nil || cl.pan || cl.dial {
			where = 0
		}
		desc += " error-arises:" + sqlTxWhere[where]
		switch where {
		case 1:
			s.set(&sqlAns{kind: "begin", err: e, lat: op.lat})
		case 2:
			s.set(&sqlAns{kind: "commit", err: e, lat: op.lat})
		case 3:
			s.set(&sqlAns{kind: "tx-exec", err: e, lat: op.lat})
		default:
			s.set(nil)
		}
		body := func(bctx context.Context, sess sqlx.Session) error {
			fnRuns++
			switch where {
			case 0:
				if op.lat > 0 {
					vc.Advance(op.lat)
				}
				if cl.pan {
					panic(tok)
				}
				return e
			case 3:
				_, err := sess.ExecCtx(bctx, "TXEXEC verif SET v = ?", id)
				return err
			}
			// a statement inside the transaction: not a breaker call of its own
			if id%3 == 0 {
				if _, err := sess.ExecCtx(bctx, "TXEXEC verif SET v = ?", id); err != nil {
					return err
				}
			}
			return nil
		}
		call = func() error {
			if useCtx {
				return sd.conn.TransactCtx(ctx, body)
			}
			return sd.conn.Transact(func(sess sqlx.Session) error { return body(context.Background(), sess) })
		}
		checkResult = func() string { return "" }
		beginFails = where == 1
	}
	if cl.dial {
		// the database cannot be reached: the driver's Open fails, so does the Ping of the lazily created
		// *sql.DB, connProv() returns that error inside the breaker-protected closure; the "request" of
		// this call is the dial attempt
		s.set(&sqlAns{kind: "dial", err: e, lat: op.lat})
		runKind = "dial"
		beginFails = true // no transaction is begun, its body is not demanded
		desc += " [the connection cannot be acquired: driver Open fails]"
	}
	if op.lat > 0 {
		desc += fmt.Sprintf(" lat=%v", op.lat)
	}

	// ---- run
	before := s.count(runKind)
	var ret error
	var panicked bool
	var panicVal any
	func() {
		defer func() {
			if v := recover(); v != nil {
				panicked, panicVal = true, v
			}
		}()
		ret = call()
	}()
	s.set(nil)
	tRet := vc.Now()
	runs := s.count(runKind) - before
	// a transaction whose BEGIN succeeded must have run its body (once)
	bodyDemanded := op.entry == "transact" && !beginFails
	bodyRuns := fnRuns

	viol := func(kind, what string) {
		h.log = append(h.log, desc+" -> BROKEN")
		c.Viol("C01/exactly-once/sqlx/"+kind, what, h.witness(what))
	}
	done := op.ctx == cCancelled || op.ctx == cExpired
	v := vBroken
	switch {
	case done && runs == 0 && bodyRuns == 0 && !panicked && ret != nil &&
		(errors.Is(ret, context.Canceled) || errors.Is(ret, context.DeadlineExceeded)):
		v = vNothing
	case runs > 1:
		viol("statement-ran-more-than-once", fmt.Sprintf("one %s call reached the driver (%s) %d times", op.entry, runKind, runs))
	case bodyRuns > 1:
		viol("statement-ran-more-than-once", fmt.Sprintf("one Transact call ran its body %d times", bodyRuns))
	case runs == 1 && bodyDemanded && bodyRuns != 1:
		viol("transaction-body-not-run", fmt.Sprintf("the transaction began but its body ran %d times", bodyRuns))
	case runs == 1 && cl.pan && op.entry == "exec":
		switch {
		case !panicked:
			viol("panic-swallowed", fmt.Sprintf("the driver panicked but the call returned %v", ret))
		case panicVal != any(tok):
			viol("panic-changed", fmt.Sprintf("the driver panicked with %p, the caller recovered %v", tok, panicVal))
		default:
			v = vAdmitted
		}
	case runs == 1 && panicked:
		viol("unexpected-panic", fmt.Sprintf("the call panicked with %v", panicVal))
	case runs == 1 && cl.pan: // transaction body panicked: the transaction layer turns it into an error (C14's matter)
		v = vAdmitted
	case runs == 1 && cl.scan != "":
		if ret == nil {
			viol("scan-failure-lost", "the result could not be scanned into the destination but the call returned nil")
		} else {
			v = vAdmitted
		}
	case runs == 1 && ret != e:
		viol("error-changed", fmt.Sprintf("the driver/body ended with %v, the call returned %v", e, ret))
	case runs == 1:
		if e == nil {
			if msg := checkResult(); msg != "" {
				viol("result-changed", msg)
				break
			}
		}
		v = vAdmitted
	case bodyRuns != 0:
		viol("body-ran-without-begin", "the transaction body ran although no transaction was begun")
	case panicked:
		viol("unexpected-panic", fmt.Sprintf("the call panicked with %v without reaching the driver", panicVal))
	case !errors.Is(ret, breaker.ErrServiceUnavailable):
		if done {
			viol("done-ctx-wrong-error", fmt.Sprintf("done context: nothing ran and the call returned %v", ret))
		} else {
			viol("rejected-wrong-error", fmt.Sprintf("nothing reached the driver and the call returned %v, not ErrServiceUnavailable", ret))
		}
	default:
		v = vRejected
	}

	h.calls++
	c.Obs("sqlx_calls", 1)
	c.Obs("sqlx_calls_"+op.entry, 1)
	if p.legal {
		h.legal++
	}
	if p.must {
		h.must++
		c.Obs("sqlx_must_admit_situations", 1)
	}
	switch v {
	case vAdmitted:
		h.log = append(h.log, fmt.Sprintf("%s -> executed, returned %v [A=%d N=%d]", desc, ret, p.A, p.N))
		sd.m.admitted(p)
		k := 0
		if fail {
			k = 1
		}
		sd.m.mark(k, tRet)
		h.union.mark(k, tRet)
		c.Obs("sqlx_admitted", 1)
		switch {
		case cl.scan != "":
			c.Obs("sqlx_scan_failures_admitted", 1)
		case cl.pan && op.entry == "exec":
			c.Obs("sqlx_panics_reraised", 1)
		}
	case vRejected:
		h.log = append(h.log, fmt.Sprintf("%s -> rejected [A=%d N=%d]", desc, p.A, p.N))
		h.rej++
		c.Obs("sqlx_rejected", 1)
		if !p.legal {
			up := h.union.pre(t)
			if up.legal && len(h.sides) > 1 {
				c.Viol("C01/identity/sqlx/window-shared-across-connections",
					fmt.Sprintf("%s call on %s rejected although the window of that SqlConn holds accepted=%d, non-accepted=%d; only together with the calls on the other SqlConn (accepted=%d, non-accepted=%d) would a rejection be allowed", op.entry, sd.label, p.A, p.N, up.A, up.N),
					h.witness("one breaker per SqlConn"))
			} else {
				key := "C01/illegal-reject/sqlx/" + p.illegalKey()
				if h.relabel != "" {
					key = h.relabel
				}
				c.Viol(key,
					fmt.Sprintf("sqlx %s rejected although the window of the SqlConn holds accepted=%d, non-accepted=%d: %d does not exceed 5 + 10%% of %d", op.entry, p.A, p.N, p.N, p.A),
					h.witness(fmt.Sprintf("accepted=%d nonaccepted=%d at the rejected (last) call", p.A, p.N)))
			}
		}
		if p.must {
			c.Viol("C01/must-admit-rejected/sqlx",
				fmt.Sprintf("sqlx %s rejected %v after the latest admission that can have been throttled", op.entry, t-sd.m.lastPoss),
				h.witness(fmt.Sprintf("since_last_throttled_admission=%v", t-sd.m.lastPoss)))
		}
		sd.m.mark(2, t)
		h.union.mark(2, t)
	case vNothing:
		h.log = append(h.log, desc+" -> context error, nothing ran")
		c.Obs("sqlx_done_ctx_short_circuit", 1)
	}
	h.sig = append(h.sig, op.side, op.entry, cl.name, int(op.ctx), op.variant, int64(op.gap), int64(op.lat), int(v))
	return v
}

func (h *sqlHist) finish() {
	c := h.c
	c.Obs("sqlx_histories", 1)
	if h.legal > 0 {
		c.Obs("sqlx_histories_reaching_legal_rejection", 1)
	}
	c.Sig(h.legal > 0, append([]any{h.kind}, h.sig...)...)
	if h.legal > 0 && h.rej > 0 {
		n := len(h.log)
		if n > 40 {
			n = 40
		}
		c.Sample(h.kind, 1, map[string]any{"calls": h.calls, "rejections": h.rej, "calls_in_legal_state": h.legal,
			"must_admit": h.must, "first_calls": h.log[:n]})
	}
	h.close()
}

// ensureStmt prepares a statement on the side (a judged call like any other) until one exists.
func (h *sqlHist) ensureStmt(side int) bool {
	for i := 0; i < 50 && h.sides[side].stmt == nil && !h.c.Violated(); i++ {
		h.step(sqlOp{side: side, entry: "prepare", cl: &sqlOkClasses[0], gap: time.Millisecond})
	}
	return h.sides[side].stmt != nil
}

func sqlPickClass(r *kit.Rand, classes []sqlClass, entry string, cfg int) *sqlClass {
	for {
		cl := &classes[r.Intn(len(classes))]
		if sqlApplies(entry, cl) && sqlHasCfg(cl, cfg) {
			return cl
		}
	}
}

// runSqlx: random history over one or two SqlConns of one *sql.DB; connA carries most of the
// (mostly failing) traffic, connB sees mostly successes.
func runSqlx(c *kit.Case, vc *kit.VClock) {
	r := c.R
	cfgs := []int{r.Intn(3)}
	if r.Chance(0.5) {
		cfgs = append(cfgs, r.Intn(3))
	}
	h := newSqlHist(c, vc, "sqlx", cfgs...)
	defer h.finish()
	L := r.Range(20, 200)
	pFail := kit.Choose(r, []float64{0.3, 0.6, 0.9, 1})
	pCtx := kit.Choose(r, []float64{0, 0.3, 1})
	pDone := kit.Choose(r, []float64{0, 0.05, 0.2})
	pLat := kit.Choose(r, []float64{0, 0.1})
	pShape := kit.Choose(r, []float64{0, 0.3, 0.6})
	g := newGen(r)
	for i := 0; i < L && !c.Violated(); i++ {
		op := sqlOp{gap: g.gap(), variant: r.Intn(4)}
		if len(cfgs) > 1 && r.Chance(0.3) {
			op.side = 1
		}
		sd := h.sides[op.side]
		op.entry = sqlEntries[r.Pick(25, 25, 6, 12, 12, 20)]
		if (op.entry == "stmt-exec" || op.entry == "stmt-query") && sd.stmt == nil {
			op.entry = "prepare"
		}
		pf := pFail
		if op.side == 1 {
			pf = 0.03
		}
		if r.Chance(pf) {
			op.cl = sqlPickClass(r, sqlFailClasses, op.entry, sd.cfg)
			if r.Chance(pShape) { // a negative control / a shape of a sentinel the predicate refuses
				op.cl = &sqlShFail[r.Intn(len(sqlShFail))]
			}
		} else if r.Chance(0.35) {
			op.cl = &sqlOkClasses[0]
		} else {
			op.cl = sqlPickClass(r, sqlOkClasses, op.entry, sd.cfg)
			if r.Chance(pShape) { // sql.ErrNoRows / sql.ErrTxDone / context.Canceled in one of the errors.Is shapes
				op.cl = &sqlShOk[r.Intn(len(sqlShOk))]
			}
		}
		if op.cl.shape != nil {
			c.Obs("sqlx_shape_calls_in_random_histories", 1)
		}
		if r.Chance(pCtx) {
			op.ctx = cLive
			if r.Chance(pDone) {
				op.ctx = cCancelled
				if r.Bool() {
					op.ctx = cExpired
				}
			}
		}
		if sd.m.sureSeen && r.Chance(0.08) {
			target := sd.m.lastPoss + forcePass + kit.Choose(r, []time.Duration{-1, 0, 1, time.Millisecond})
			if d := target - vc.Now(); d >= 0 {
				op.gap = d
			}
		}
		if r.Chance(pLat) {
			op.lat = kit.Choose(r, []time.Duration{1, bucketDur, time.Second + 1})
		}
		h.step(op)
	}
	if len(cfgs) > 1 {
		c.Obs("sqlx_two_conn_histories", 1)
	}
}

func sqlCfgFor(r *kit.Rand, cl *sqlClass) int { return cl.cfgs[r.Intn(len(cl.cfgs))] }

// runSqlxEffect: every call goes through ONE entry point and fails with ONE failure class.
func runSqlxEffect(c *kit.Case, vc *kit.VClock) {
	cb := sqlFailCombos[c.Index%len(sqlFailCombos)]
	h := newSqlHist(c, vc, "sqlx-effect", sqlCfgFor(c.R, cb.cl))
	defer h.finish()
	if (cb.entry == "stmt-exec" || cb.entry == "stmt-query") && !h.ensureStmt(0) {
		return
	}
	rej := 0
	const warm, n = 60, 1000
	for i := 0; i < warm+n && !c.Violated(); i++ {
		op := sqlOp{entry: cb.entry, cl: cb.cl, gap: 10 * time.Millisecond, variant: c.R.Intn(4)}
		if c.R.Chance(0.3) {
			op.ctx = cLive
		}
		if h.step(op) == vRejected && i >= warm {
			rej++
		}
	}
	c.Obs("sqlx_effectiveness_runs", 1)
	c.Obs("sqlx_effectiveness_rejected", int64(rej))
	if !c.Violated() && rej*100 < n*80 {
		c.Viol("C01/effectiveness/sqlx-"+cb.entry+"/"+cb.cl.name,
			fmt.Sprintf("after a 60-call warm-up, %d consecutive %s calls that fail with %s at 100 per virtual second: only %d rejected", n, cb.entry, cb.cl.name, rej),
			map[string]any{"calls": n, "rejected": rej, "entry": cb.entry, "failure_class": cb.cl.name, "conn": h.sides[0].label, "statistical": true, "first_calls": h.log[:80]})
	}
	c.Sample("sqlx-effect", 1, map[string]any{"entry": cb.entry, "failure_class": cb.cl.name, "failing_calls": n, "rejected": rej})
}

// runSqlxFlood: every call goes through ONE entry point and ends with ONE success class (at most 5
// genuine failures first): no call may ever be rejected.
func runSqlxFlood(c *kit.Case, vc *kit.VClock) {
	r := c.R
	cb := sqlOkCombos[c.Index%len(sqlOkCombos)]
	h := newSqlHist(c, vc, "sqlx-flood", sqlCfgFor(r, cb.cl))
	defer h.finish()
	if (cb.entry == "stmt-exec" || cb.entry == "stmt-query") && !h.ensureStmt(0) {
		return
	}
	pre := r.Intn(6)
	for i := 0; i < pre && !c.Violated(); i++ {
		h.step(sqlOp{entry: "exec", cl: &sqlFailClasses[0], gap: time.Millisecond})
	}
	n := r.Range(80, 200)
	gap := kit.Choose(r, []time.Duration{0, time.Millisecond, 10 * time.Millisecond, 60 * time.Millisecond})
	for i := 0; i < n && !c.Violated(); i++ {
		op := sqlOp{entry: cb.entry, cl: cb.cl, gap: gap, variant: r.Intn(4)}
		if r.Bool() {
			op.ctx = cLive
		}
		h.step(op)
	}
	c.Obs("sqlx_success_class_floods", 1)
	c.Sig(true, "sqlx-flood", cb.entry, cb.cl.name, h.sides[0].cfg, pre, n, int64(gap), h.rej)
}

// runSqlxShared: connA fails every Exec at 100 per virtual second. Every 2.5 s one probe goes
// through ANOTHER entry point of connA (prepared statement, transaction, query, prepare): these
// share connA's breaker, so most of them must be rejected (each is admitted with probability of
// about 2 %; at least half of >= 20 probes rejected has a false-alarm probability < 1e-10). Every
// 2.5 s another failing probe goes to connB, a second SqlConn over the same *sql.DB: its own
// window never holds more than 4 failures, so it may never be rejected.
func runSqlxShared(c *kit.Case, vc *kit.VClock) {
	r := c.R
	entry := []string{"stmt-exec", "stmt-query", "transact", "query", "prepare"}[c.Index%5]
	h := newSqlHist(c, vc, "sqlx-shared", r.Intn(3), r.Intn(3))
	defer h.finish()
	if (entry == "stmt-exec" || entry == "stmt-query") && !h.ensureStmt(0) {
		return
	}
	failA := &sqlFailClasses[0]
	probes, probeRej, otherProbes, execRej := 0, 0, 0, 0
	const warm = 300
	n := warm + 250*r.Range(20, 24)
	for i := 0; i < n && !c.Violated(); i++ {
		if h.step(sqlOp{entry: "exec", cl: failA, gap: 10 * time.Millisecond}) == vRejected && i >= warm {
			execRej++
		}
		if i >= warm && i%250 == 0 {
			cl := sqlPickClass(r, sqlFailClasses, entry, h.sides[0].cfg)
			if cl.pan {
				cl = failA
			}
			probes++
			if h.step(sqlOp{entry: entry, cl: cl, variant: r.Intn(4), ctx: ctxMode(r.Intn(2))}) == vRejected {
				probeRej++
			}
		}
		if i >= warm && i%250 == 125 {
			e2 := kit.Choose(r, []string{"exec", "query", "transact"})
			otherProbes++
			h.step(sqlOp{side: 1, entry: e2, cl: sqlPickClass(r, sqlFailClasses, e2, h.sides[1].cfg), variant: r.Intn(4)})
		}
	}
	c.Obs("sqlx_shared_breaker_runs", 1)
	c.Obs("sqlx_shared_breaker_probes", int64(probes))
	c.Obs("sqlx_shared_breaker_probes_rejected", int64(probeRej))
	c.Obs("sqlx_other_conn_probes", int64(otherProbes))
	if !c.Violated() && execRej*100 < (n-warm)*80 {
		// the premise of the probe check does not hold: the failing Exec calls themselves are not rejected
		c.Viol("C01/effectiveness/sqlx-exec/"+failA.name,
			fmt.Sprintf("after a %d-call warm-up, %d consecutive Exec calls that fail with %s at 100 per virtual second: only %d rejected", warm, n-warm, failA.name, execRej),
			map[string]any{"calls": n - warm, "rejected": execRej, "entry": "exec", "failure_class": failA.name, "conn": h.sides[0].label, "statistical": true})
		return
	}
	if !c.Violated() && probeRej*2 < probes {
		c.Viol("C01/identity/sqlx/breaker-not-shared-with-"+entry,
			fmt.Sprintf("connA rejects its failing Exec calls, but of %d %s probes made through the same SqlConn meanwhile only %d were rejected: that entry point does not use the SqlConn's breaker", probes, entry, probeRej),
			map[string]any{"probes": probes, "probes_rejected": probeRej, "entry": entry, "statistical": true, "conn": h.sides[0].label})
	}
	c.Sample("sqlx-shared", 1, map[string]any{"entry": entry, "probes": probes, "probes_rejected": probeRej, "probes_on_second_conn": otherProbes})
}
