// C01, integration site core/stores/sqlx, connection acquisition: a SqlConn made with
// sqlx.NewSqlConn(driverName, dsn) opens its *sql.DB lazily - connProv() = sql.Open + Ping through
// go-zero's per-DSN connection manager - INSIDE the breaker-protected closure of ExecCtx, PrepareCtx,
// queryRows and TransactCtx. When the database cannot be reached that is the request's failure: an
// admitted call makes exactly one dial attempt, gets the driver's error back unchanged and is recorded
// as a failure; a rejected call makes no dial attempt at all; sustained total failure must make the
// breaker reject the overwhelming majority of calls (so the dead database is dialled rarely); once the
// database is reachable again the calls run and the breaker closes as the window law demands.
//
// A database/sql driver is registered under sqlDialDriver; its Open looks the DSN up in a table of
// scripts (one fresh DSN per history: the connection manager caches the *sql.DB per DSN for the life of
// the process) and fails as the script says. The SqlConns of c01_sqlx_test.go are all made with
// NewSqlConnFromDB, whose connProv cannot fail.
package c01

import (
	"context"
	"database/sql"
	"database/sql/driver"
	"errors"
	"fmt"
	"strings"
	"sync"
	"time"

	"github.com/zeromicro/go-zero/core/stores/sqlx"

	"verifharness/kit"
)

const sqlDialDriver = "verif-c01-dial"

var sqlDialScripts sync.Map // dsn -> *sqlScript

type sqlDialDrv struct{}

func (sqlDialDrv) Open(dsn string) (driver.Conn, error) {
	v, ok := sqlDialScripts.Load(dsn)
	if !ok {
		return nil, errors.New("verif: no script for dsn " + dsn)
	}
	s := v.(*sqlScript)
	if a := s.hit("dial"); a != nil && a.err != nil {
		return nil, a.err
	}
	s.hit("dial-ok")
	return &sqlDConn{s: s}, nil
}

func init() { sql.Register(sqlDialDriver, sqlDialDrv{}) }

// the class of a call whose connection acquisition fails: the error is none of the accepted ones
var sqlDialFail = sqlClass{name: "connection-failure", fail: true, dial: true, cfgs: sqlAllCfgs,
	mk: func(id int64) error { return fmt.Errorf("verif: dial tcp: database unreachable (attempt #%d)", id) }}

// the same with an error value the predicate ACCEPTS when a statement ends with it: a cancelled dial
// (context.Canceled through the Is method of the real net error, or bare) is recorded as a success
var sqlDialCancelled = sqlClass{name: "connection-attempt-cancelled", dial: true, cfgs: sqlAllCfgs,
	mk: func(id int64) error {
		if vfC01ShDialCanceled != nil && id%2 == 0 {
			return vfC01ShDialCanceled
		}
		return fmt.Errorf("verif: dial #%d: %w", id, context.Canceled)
	}}

// the entry points through which a SqlConn acquires its connection
var sqlDialEntries = []string{"exec", "query", "prepare", "transact"}

// newSqlDialHist: one SqlConn made with sqlx.NewSqlConn over the registered driver and a fresh DSN.
func newSqlDialHist(c *kit.Case, vc *kit.VClock, kind string, cfg int) *sqlHist {
	vc.Set(kit.VClockStart + time.Duration(c.R.Int63n(int64(3*time.Second))))
	h := &sqlHist{c: c, vc: vc, kind: kind, s: &sqlScript{vc: vc, n: map[string]int{}}}
	h.dsn = strings.ReplaceAll(freshName(c), "/", "_") // not a parsable mysql DSN: the manager then skips its pool metrics
	sqlDialScripts.Store(h.dsn, h.s)
	h.sides = append(h.sides, &sqlSide{
		label: fmt.Sprintf("connA(sqlx.NewSqlConn over a registered scripted driver, %d WithAcceptable options)", cfg),
		conn:  sqlx.NewSqlConn(sqlDialDriver, h.dsn, sqlOpts(cfg)...),
		cfg:   cfg,
		m:     newModel(vc.Now()),
	})
	h.union = newModel(vc.Now())
	return h
}

func (h *sqlHist) opened() bool { return h.s.count("dial-ok") > 0 }

// sqlDialPolicy says, before a call, whether a dial attempt made by that call would fail.
type sqlDialPolicy struct {
	name  string
	k     int     // first-k: dial attempts that fail; until-call: index of the first call whose dial succeeds
	p     float64 // intermittent: probability that an attempt fails
	r     *kit.Rand
	calls int
}

func (p *sqlDialPolicy) fails(h *sqlHist) bool {
	defer func() { p.calls++ }()
	switch p.name {
	case "always":
		return true
	case "first-k-attempts":
		return h.s.count("dial") < p.k
	case "until-call":
		return p.calls < p.k
	case "intermittent":
		return p.r.Chance(p.p)
	}
	return false // "never"
}

// runSqlxDial: random history. Until the first dial succeeds every call either fails in the connection
// acquisition (a failure mark if admitted) or - the policy lets the dial through - opens the database and
// ends with a statement-level class; afterwards the history goes on like those of runSqlx (the *sql.DB is
// cached, connProv cannot fail any more).
func runSqlxDial(c *kit.Case, vc *kit.VClock) {
	r := c.R
	h := newSqlDialHist(c, vc, "sqlx-dial", r.Intn(3))
	defer h.finish()
	pol := &sqlDialPolicy{r: r}
	switch r.Pick(15, 30, 30, 20, 5) {
	case 0:
		pol.name = "always"
	case 1:
		pol.name, pol.k = "first-k-attempts", kit.Choose(r, []int{1, 3, 6, 7, 12, 30})
	case 2:
		pol.name, pol.k = "until-call", kit.Choose(r, []int{5, 20, 60, 150})
	case 3:
		pol.name, pol.p = "intermittent", kit.Choose(r, []float64{0.5, 0.9, 0.97})
	default:
		pol.name = "never"
	}
	L := r.Range(40, 250)
	pFail := kit.Choose(r, []float64{0, 0.1, 0.5, 0.9})
	pCtx := kit.Choose(r, []float64{0, 0.3, 1})
	pDone := kit.Choose(r, []float64{0, 0.05, 0.2})
	pCancelledDial := kit.Choose(r, []float64{0, 0, 0.2})
	g := newGen(r)
	dialFailures, afterOpen := 0, 0
	for i := 0; i < L && !c.Violated(); i++ {
		op := sqlOp{gap: g.gap(), variant: r.Intn(4)}
		sd := h.sides[0]
		op.entry = sqlDialEntries[r.Intn(len(sqlDialEntries))]
		if h.opened() && r.Chance(0.3) {
			op.entry = kit.Choose(r, []string{"stmt-exec", "stmt-query"})
			if sd.stmt == nil {
				op.entry = "prepare"
			}
		}
		switch {
		case !h.opened() && pol.fails(h):
			op.cl = &sqlDialFail
			if r.Chance(pCancelledDial) {
				op.cl = &sqlDialCancelled
			}
			dialFailures++
		case r.Chance(pFail):
			op.cl = sqlPickClass(r, sqlFailClasses, op.entry, sd.cfg)
		case r.Chance(0.5):
			op.cl = &sqlOkClasses[0]
		default:
			op.cl = sqlPickClass(r, sqlOkClasses, op.entry, sd.cfg)
		}
		if r.Chance(pCtx) {
			op.ctx = cLive
			if r.Chance(pDone) {
				op.ctx = cCancelled
				if r.Bool() {
					op.ctx = cExpired
				}
			}
		}
		if sd.m.sureSeen && r.Chance(0.08) {
			target := sd.m.lastPoss + forcePass + kit.Choose(r, []time.Duration{-1, 0, 1, time.Millisecond})
			if d := target - vc.Now(); d >= 0 {
				op.gap = d
			}
		}
		if r.Chance(0.05) {
			op.lat = kit.Choose(r, []time.Duration{1, bucketDur, time.Second + 1})
		}
		was := h.opened()
		v := h.step(op)
		if op.cl.dial && v == vAdmitted {
			c.Obs("sqlx_dial_failures_admitted", 1)
		}
		if op.cl.dial && v == vRejected {
			c.Obs("sqlx_dial_failures_rejected_without_dialling", 1)
		}
		if !was && h.opened() {
			c.Obs("sqlx_dial_recoveries", 1)
		}
		if was {
			afterOpen++
		}
	}
	c.Obs("sqlx_dial_histories", 1)
	c.Obs("sqlx_dial_histories_"+pol.name, 1)
	c.Obs("sqlx_dial_calls_after_recovery", int64(afterOpen))
	h.sig = append(h.sig, pol.name, pol.k, pol.p, dialFailures)
}

// runSqlxDialEffect: the database is down. Every call goes through ONE entry point and fails in the
// connection acquisition: after the warm-up at least 80 % of 1000 calls must be rejected - each rejected
// call without a dial attempt (checked per call), so the number of dial attempts stays small. Then the
// database comes back: 1300 successful calls at 100 per virtual second; the model demands that the
// force-pass probes are admitted and that nothing is rejected any more once the failures have left the
// window.
func runSqlxDialEffect(c *kit.Case, vc *kit.VClock) {
	r := c.R
	entry := sqlDialEntries[c.Index%len(sqlDialEntries)]
	h := newSqlDialHist(c, vc, "sqlx-dial-effect", r.Intn(3))
	defer h.finish()
	rej := 0
	const warm, n = 60, 1000
	for i := 0; i < warm+n && !c.Violated(); i++ {
		op := sqlOp{entry: entry, cl: &sqlDialFail, gap: 10 * time.Millisecond, variant: r.Intn(4)}
		if r.Chance(0.3) {
			op.ctx = cLive
		}
		if h.step(op) == vRejected && i >= warm {
			rej++
		}
	}
	dials := h.s.count("dial")
	c.Obs("sqlx_dial_effectiveness_runs", 1)
	c.Obs("sqlx_dial_effectiveness_runs_"+entry, 1)
	c.Obs("sqlx_dial_effectiveness_rejected", int64(rej))
	c.Obs("sqlx_dial_effectiveness_dial_attempts", int64(dials))
	if c.Violated() {
		return
	}
	if rej*100 < n*80 {
		c.Viol("C01/effectiveness/sqlx-"+entry+"/connection-failure",
			fmt.Sprintf("the database is unreachable (driver Open fails): after a 60-call warm-up, %d consecutive %s calls at 100 per virtual second: only %d rejected by the breaker, the dead database was dialled %d times", n, entry, rej, dials),
			map[string]any{"calls": n, "rejected": rej, "dial_attempts": dials, "entry": entry, "failure_class": sqlDialFail.name, "conn": h.sides[0].label, "statistical": true, "first_calls": h.log[:80]})
		return
	}
	// recovery
	recRej, late := 0, 0
	for i := 0; i < 1300 && !c.Violated(); i++ {
		op := sqlOp{entry: entry, cl: &sqlOkClasses[0], gap: 10 * time.Millisecond, variant: r.Intn(4)}
		if h.step(op) == vRejected {
			recRej++
			if i >= 1100 {
				late++
			}
		}
	}
	if !c.Violated() && !h.opened() {
		c.Viol("C01/effectiveness/sqlx-"+entry+"/never-probes-after-recovery",
			fmt.Sprintf("the database is reachable again but none of 1300 %s calls over 13 virtual seconds reached it", entry),
			map[string]any{"entry": entry, "rejected_during_recovery": recRej, "conn": h.sides[0].label})
	}
	c.Obs("sqlx_dial_recoveries", 1)
	c.Obs("sqlx_dial_rejected_during_recovery", int64(recRej))
	c.Sig(true, "sqlx-dial-effect", entry, rej, dials, recRej, late)
	c.Sample("sqlx-dial-effect", 1, map[string]any{"entry": entry, "failing_calls": n, "rejected": rej, "dial_attempts": dials, "rejected_during_recovery": recRej})
}
