// Package c01: circuit breaker — admission law, exactly-once execution, guaranteed
// probing, statistical effectiveness (DESIGN.md §4 C01). Black-box part: only the
// public breaker API (and rest/handler.BreakerHandler) is used; time is the virtual
// clock behind timex.Now/Since.
//
// The oracle is an online reference model stepped per call. It keeps the marks the
// statement says must have been recorded (admitted+acceptable => accepted, admitted+
// unacceptable or panic => failure, rejected => rejection) in 250 ms buckets aligned at
// the breaker's creation time; "the preceding 10 s window" at time t is the last 40
// bucket indices. Because the drop decision is random, only necessary conditions are
// asserted:
//
//	(1) a rejection is legal only if 10*(nonAccepted) > 50 + accepted (exact integers);
//	(2) admitted => req ran once, no fallback, req's error/panic value passed through
//	    unchanged; rejected => req did not run, fallback (if any) ran once with
//	    ErrServiceUnavailable and its result is returned, else ErrServiceUnavailable;
//	(4) a call is must-admit if some earlier admission was made while surely throttling
//	    (total-5-1.5*accepted > 0) and every admission that may have been throttled
//	    (total-5-1.1*accepted > 0) lies more than 1 s before it;
//	(5) sustained total failure => at least 80 % of >= 1000 calls rejected.
//
// (3) exact accounting is the white-box part (whitebox/core/breaker).
package c01

import (
	"context"
	"errors"
	"fmt"
	"hash/fnv"
	"net/http"
	"net/http/httptest"
	"runtime"
	"sort"
	"strings"
	"sync"
	"sync/atomic"
	"testing"
	"time"

	red "github.com/redis/go-redis/v9"
	"github.com/zeromicro/go-zero/core/breaker"
	"github.com/zeromicro/go-zero/core/logx"
	"github.com/zeromicro/go-zero/core/stat"
	"github.com/zeromicro/go-zero/core/stores/redis"
	"github.com/zeromicro/go-zero/rest/handler"

	"verifharness/kit"
)

const (
	bucketDur = 250 * time.Millisecond
	nBuckets  = 40
	forcePass = time.Second
)

// ------------------------------------------------------------------ script

type outcome int

const (
	oOK       outcome = iota // req returns nil
	oUnacc                   // req returns an error the predicate refuses
	oAcc                     // req returns an error the predicate accepts (default predicate: refuses)
	oPanic                   // req panics
	oNilUnacc                // req returns nil but the custom predicate refuses it (default predicate: accepts)
)

var outNames = []string{"ok", "unacc", "acc", "panic", "nil-unacc"}

type entry int

const (
	eDo entry = iota
	eDoAcc
	eDoFb
	eDoFbAcc
	eAllow
)

var entNames = []string{"Do", "DoWithAcceptable", "DoWithFallback", "DoWithFallbackAcceptable", "Allow"}

type ctxMode int

const (
	cNone      ctxMode = iota // non-Ctx entry point
	cLive                     // Ctx entry point, live context
	cCancelled                // Ctx entry point, already cancelled
	cExpired                  // Ctx entry point, deadline already exceeded
)

var ctxNames = []string{"", "Ctx(live)", "Ctx(cancelled)", "Ctx(expired)"}

type call struct {
	Gap     time.Duration // virtual time advanced before the call
	E       entry
	Ctx     ctxMode
	Named   bool // through the package-level breaker.Do*(name, …) / GetBreaker(name)
	Out     outcome
	Lat     time.Duration // virtual latency inside req (Allow: between Allow and Accept/Reject)
	FbRet   int           // fallback returns 0: nil, 1: its argument, 2: an error of its own
	FbLat   time.Duration // virtual latency inside the fallback
	Abandon bool          // Allow only: the promise is dropped without Accept/Reject
}

func (cl *call) family() string {
	switch {
	case cl.E == eAllow:
		return "allow"
	case cl.E == eDoFb || cl.E == eDoFbAcc:
		return "do-fallback"
	}
	return "do"
}

func (cl *call) String() string {
	s := fmt.Sprintf("+%v %s%s", cl.Gap, entNames[cl.E], ctxNames[cl.Ctx])
	if cl.Named {
		s += "[named]"
	}
	s += " out=" + outNames[cl.Out]
	if cl.Lat > 0 {
		s += fmt.Sprintf(" lat=%v", cl.Lat)
	}
	if cl.E == eDoFb || cl.E == eDoFbAcc {
		s += fmt.Sprintf(" fb=%d", cl.FbRet)
		if cl.FbLat > 0 {
			s += fmt.Sprintf(" fblat=%v", cl.FbLat)
		}
	}
	if cl.Abandon {
		s += " abandon"
	}
	return s
}

// success says how an ADMITTED call must be recorded.
func (cl *call) success() bool {
	switch cl.E {
	case eDo, eDoFb: // default predicate: err == nil
		return cl.Out == oOK || cl.Out == oNilUnacc
	case eAllow: // ok/acc => Accept, everything else => Reject
		return cl.Out == oOK || cl.Out == oAcc
	}
	return cl.Out == oOK || cl.Out == oAcc
}

type scriptErr struct{ id int }

func (e *scriptErr) Error() string { return fmt.Sprintf("scripted error #%d", e.id) }

type panicTok struct{ id int }

type res struct {
	reqRuns  int32
	fbRuns   int32
	fbArg    error
	ret      error
	want     error // what req returned (nil for ok)
	fbWant   error // what the fallback returned
	panicked bool
	panicVal any
	tok      *panicTok
	allowErr error
	promise  bool
	tDecide  time.Duration // virtual time when the breaker was entered
	tMark    time.Duration // virtual time when req returned / the promise was resolved
}

var errSeq atomic.Int64

// latency is how virtual latency is realised: sequential histories advance the clock,
// concurrent ones only yield (the clock there is frozen or advanced by its own goroutine).
type latency func(d time.Duration)

func doCall(b breaker.Breaker, name string, cl *call, now func() time.Duration, lat latency) (r res) {
	var serr error
	if cl.Out == oUnacc || cl.Out == oAcc {
		serr = &scriptErr{int(errSeq.Add(1))}
		// now and then the request's own error IS (or wraps) breaker.ErrServiceUnavailable - what a
		// nested, open downstream breaker returns. It is an error like any other: the call was
		// admitted, req ran once, the fallback must not run, the error comes back unchanged.
		// (the choice is a pure function of the call's description)
		h := fnv.New32a()
		fmt.Fprintf(h, "%+v", *cl)
		switch h.Sum32() % 8 {
		case 0:
			serr = breaker.ErrServiceUnavailable
			kit.Obs("req_returned_ErrServiceUnavailable_itself", 1)
		case 1:
			serr = fmt.Errorf("downstream breaker: %w", breaker.ErrServiceUnavailable)
			kit.Obs("req_returned_wrapped_ErrServiceUnavailable", 1)
		}
	}
	r.want = serr
	r.tok = &panicTok{int(errSeq.Add(1))}
	fbOwn := &scriptErr{int(errSeq.Add(1))}
	req := func() error {
		atomic.AddInt32(&r.reqRuns, 1)
		lat(cl.Lat)
		r.tMark = now()
		if cl.Out == oPanic {
			panic(r.tok)
		}
		return serr
	}
	acc := func(err error) bool { return cl.Out == oOK || cl.Out == oAcc }
	fb := func(err error) error {
		atomic.AddInt32(&r.fbRuns, 1)
		r.fbArg = err
		lat(cl.FbLat)
		switch cl.FbRet {
		case 1:
			r.fbWant = err
		case 2:
			r.fbWant = fbOwn
		}
		return r.fbWant
	}
	var ctx context.Context
	cancel := func() {}
	switch cl.Ctx {
	case cLive:
		ctx, cancel = context.WithCancel(context.Background())
	case cCancelled:
		ctx, cancel = context.WithCancel(context.Background())
		cancel()
	case cExpired:
		ctx, cancel = context.WithDeadline(context.Background(), time.Now().Add(-time.Hour))
	}
	defer cancel()
	defer func() {
		if v := recover(); v != nil {
			r.panicked = true
			r.panicVal = v
		}
	}()
	r.tDecide = now()
	r.tMark = r.tDecide
	switch cl.E {
	case eAllow:
		var p breaker.Promise
		var err error
		bb := b
		if cl.Named {
			bb = breaker.GetBreaker(name)
		}
		if cl.Ctx == cNone {
			p, err = bb.Allow()
		} else {
			p, err = bb.AllowCtx(ctx)
		}
		r.allowErr = err
		r.ret = err
		if err == nil {
			r.promise = p != nil
			if p != nil && !cl.Abandon {
				lat(cl.Lat)
				r.tMark = now()
				if cl.success() {
					p.Accept()
				} else {
					p.Reject("scripted reject")
				}
			}
		}
	case eDo:
		switch {
		case cl.Named && cl.Ctx == cNone:
			r.ret = breaker.Do(name, req)
		case cl.Named:
			r.ret = breaker.DoCtx(ctx, name, req)
		case cl.Ctx == cNone:
			r.ret = b.Do(req)
		default:
			r.ret = b.DoCtx(ctx, req)
		}
	case eDoAcc:
		switch {
		case cl.Named && cl.Ctx == cNone:
			r.ret = breaker.DoWithAcceptable(name, req, acc)
		case cl.Named:
			r.ret = breaker.DoWithAcceptableCtx(ctx, name, req, acc)
		case cl.Ctx == cNone:
			r.ret = b.DoWithAcceptable(req, acc)
		default:
			r.ret = b.DoWithAcceptableCtx(ctx, req, acc)
		}
	case eDoFb:
		switch {
		case cl.Named && cl.Ctx == cNone:
			r.ret = breaker.DoWithFallback(name, req, fb)
		case cl.Named:
			r.ret = breaker.DoWithFallbackCtx(ctx, name, req, fb)
		case cl.Ctx == cNone:
			r.ret = b.DoWithFallback(req, fb)
		default:
			r.ret = b.DoWithFallbackCtx(ctx, req, fb)
		}
	case eDoFbAcc:
		switch {
		case cl.Named && cl.Ctx == cNone:
			r.ret = breaker.DoWithFallbackAcceptable(name, req, fb, acc)
		case cl.Named:
			r.ret = breaker.DoWithFallbackAcceptableCtx(ctx, name, req, fb, acc)
		case cl.Ctx == cNone:
			r.ret = b.DoWithFallbackAcceptable(req, fb, acc)
		default:
			r.ret = b.DoWithFallbackAcceptableCtx(ctx, req, fb, acc)
		}
	}
	return r
}

// verdict of one call as far as the boundary shows it.
type verdict int

const (
	vAdmitted verdict = iota
	vRejected
	vNothing // done context: nothing ran, context error returned, nothing to record
	vBroken  // neither of the statement's outcomes (already reported)
)

// classify checks clause (2) on one call and says what the breaker decided.
// viol(kind, what) reports with key C01/exactly-once/<family>/<kind>.
func classify(cl *call, r *res, viol func(kind, what string)) verdict {
	done := cl.Ctx == cCancelled || cl.Ctx == cExpired
	if done && r.reqRuns == 0 && r.fbRuns == 0 && !r.panicked && r.ret != nil &&
		(errors.Is(r.ret, context.Canceled) || errors.Is(r.ret, context.DeadlineExceeded)) {
		return vNothing
	}
	if cl.E == eAllow {
		if r.panicked {
			viol("allow-panicked", fmt.Sprintf("Allow/Accept/Reject panicked with %v", r.panicVal))
			return vBroken
		}
		if r.allowErr == nil {
			if !r.promise {
				viol("allow-nil-promise", "Allow returned neither a promise nor an error")
				return vBroken
			}
			return vAdmitted
		}
		if !errors.Is(r.allowErr, breaker.ErrServiceUnavailable) {
			viol("rejected-wrong-error", fmt.Sprintf("Allow refused with %v, not ErrServiceUnavailable", r.allowErr))
			return vBroken
		}
		return vRejected
	}
	hasFb := cl.E == eDoFb || cl.E == eDoFbAcc
	switch {
	case r.reqRuns > 1:
		viol("req-ran-more-than-once", fmt.Sprintf("req ran %d times", r.reqRuns))
		return vBroken
	case r.reqRuns == 1:
		if r.fbRuns != 0 {
			viol("req-and-fallback", fmt.Sprintf("req ran and the fallback ran %d times", r.fbRuns))
			return vBroken
		}
		if cl.Out == oPanic {
			if !r.panicked {
				viol("panic-swallowed", fmt.Sprintf("req panicked but the call returned %v", r.ret))
				return vBroken
			}
			if r.panicVal != any(r.tok) {
				viol("panic-changed", fmt.Sprintf("req panicked with %p, the caller recovered %v", r.tok, r.panicVal))
				return vBroken
			}
			return vAdmitted
		}
		if r.panicked {
			viol("unexpected-panic", fmt.Sprintf("the call panicked with %v although req returned normally", r.panicVal))
			return vBroken
		}
		if r.ret != r.want {
			viol("error-changed", fmt.Sprintf("req returned %v, the call returned %v", r.want, r.ret))
			return vBroken
		}
		return vAdmitted
	}
	// req did not run: must be a rejection
	if r.panicked {
		viol("unexpected-panic", fmt.Sprintf("the call panicked with %v without running req", r.panicVal))
		return vBroken
	}
	if hasFb {
		if r.fbRuns != 1 {
			viol("fallback-not-once", fmt.Sprintf("req did not run and the fallback ran %d times (returned %v)", r.fbRuns, r.ret))
			return vBroken
		}
		if !errors.Is(r.fbArg, breaker.ErrServiceUnavailable) {
			viol("fallback-arg", fmt.Sprintf("fallback received %v, not ErrServiceUnavailable", r.fbArg))
			return vBroken
		}
		if r.ret != r.fbWant {
			viol("fallback-result-changed", fmt.Sprintf("fallback returned %v, the call returned %v", r.fbWant, r.ret))
			return vBroken
		}
		return vRejected
	}
	if r.fbRuns != 0 {
		viol("fallback-ran-unasked", "a fallback ran on an entry point without fallback")
		return vBroken
	}
	if !errors.Is(r.ret, breaker.ErrServiceUnavailable) {
		if done {
			viol("done-ctx-wrong-error", fmt.Sprintf("done context: nothing ran and the call returned %v", r.ret))
		} else {
			viol("rejected-wrong-error", fmt.Sprintf("req did not run and the call returned %v, not ErrServiceUnavailable", r.ret))
		}
		return vBroken
	}
	return vRejected
}

// ------------------------------------------------------------------ model

type model struct {
	t0       time.Duration
	bk       map[int64]*[3]int64 // bucket index -> accepted, failed, rejected
	sureSeen bool                // an admission was made while surely throttling
	lastPoss time.Duration       // time of the latest admission that may have been throttled
}

func newModel(t0 time.Duration) *model { return &model{t0: t0, bk: map[int64]*[3]int64{}} }

func (m *model) idx(t time.Duration) int64 { return int64((t - m.t0) / bucketDur) }

func (m *model) mark(kind int, t time.Duration) {
	i := m.idx(t)
	b := m.bk[i]
	if b == nil {
		b = new([3]int64)
		m.bk[i] = b
	}
	b[kind]++
}

type pre struct {
	t     time.Duration
	A, N  int64 // accepted / non-accepted (failures + rejections) in the window
	legal bool  // rejection allowed by the statement: N > 5 + 10% of A  (same as total-5-1.1*A > 0)
	sure  bool  // total-5-1.5*A > 0: throttling for every weight the anchored mechanism can use
	must  bool  // clause (4)
}

func (m *model) pre(t time.Duration) pre {
	c := m.idx(t)
	p := pre{t: t}
	for i := c - nBuckets + 1; i <= c; i++ {
		if b := m.bk[i]; b != nil {
			p.A += b[0]
			p.N += b[1] + b[2]
		}
	}
	p.legal = 10*p.N > 50+p.A
	p.sure = 2*p.N-10 > p.A
	p.must = m.sureSeen && t-m.lastPoss > forcePass
	return p
}

func (p pre) class() string {
	d := 10*p.N - 50 - p.A // > 0 <=> rejection legal; one more failure adds 10, one more accept subtracts 1
	switch {
	case p.N == 0 && p.A == 0:
		return "empty"
	case d <= -10:
		return "below"
	case d <= 0:
		return "boundary-below"
	case d <= 10 && !p.sure:
		return "boundary-above"
	case !p.sure:
		return "between-weights"
	}
	return "throttling"
}

func (p pre) illegalKey() string {
	if p.N <= 5 {
		return "nonaccepted<=5"
	}
	return "nonaccepted<=5+10%accepted"
}

func (m *model) admitted(p pre) {
	if p.sure {
		m.sureSeen = true
	}
	if p.legal {
		m.lastPoss = p.t
	}
}

// ------------------------------------------------------------------ sequential histories

type hist struct {
	c     *kit.Case
	vc    *kit.VClock
	b     breaker.Breaker
	name  string
	named bool // the breaker lives in the process-wide registry under name
	m     *model
	log   []string
	kind  string // family label for witnesses
	calls int64
	rej   int64
	legal int64 // calls made in a state where rejection was legal
	bnd   int64 // calls made within +-1 call of the admission boundary
	must  int64 // must-admit situations
	sigH  []any
}

var nameSeq atomic.Int64

func freshName(c *kit.Case) string {
	return fmt.Sprintf("verif-c01-%d-%s-%d", kit.GetEnv().Seed, c.ID, nameSeq.Add(1))
}

// newHist resets the clock to an arbitrary (unaligned) instant and creates a fresh breaker.
func newHist(c *kit.Case, vc *kit.VClock, kind string, named bool) *hist {
	vc.Set(kit.VClockStart + time.Duration(c.R.Int63n(int64(3*time.Second))))
	h := &hist{c: c, vc: vc, kind: kind, named: named}
	h.name = freshName(c)
	if named {
		h.b = breaker.GetBreaker(h.name)
	} else {
		h.b = breaker.NewBreaker(breaker.WithName(h.name))
	}
	h.m = newModel(vc.Now())
	return h
}

func (h *hist) witness(extra string) map[string]any {
	return map[string]any{"family": h.kind, "breaker_created_at": "t0", "bucket": bucketDur.String(),
		"history (gap before call, entry point, scripted outcome -> decision)": h.log, "detail": extra}
}

// step performs one call and checks clauses (1), (2), (4).
func (h *hist) step(cl *call) verdict {
	if !h.named {
		cl.Named = false
	}
	h.vc.Advance(cl.Gap)
	t := h.vc.Now()
	p := h.m.pre(t)
	r := doCall(h.b, h.name, cl, h.vc.Now, func(d time.Duration) {
		if d > 0 {
			h.vc.Advance(d)
		}
	})
	desc := cl.String()
	v := classify(cl, &r, func(kind, what string) {
		h.log = append(h.log, desc+" -> BROKEN")
		h.c.Viol("C01/exactly-once/"+cl.family()+"/"+kind, what, h.witness(what))
	})
	h.calls++
	cls := p.class()
	h.c.Obs("calls", 1)
	h.c.Obs("calls_window_"+cls, 1)
	if p.legal {
		h.legal++
	}
	if strings.HasPrefix(cls, "boundary") {
		h.bnd++
	}
	if p.must {
		h.must++
		h.c.Obs("must_admit_situations", 1)
	}
	switch v {
	case vAdmitted:
		h.log = append(h.log, fmt.Sprintf("%s -> admitted [A=%d N=%d]", desc, p.A, p.N))
		h.m.admitted(p)
		if !(cl.E == eAllow && cl.Abandon) {
			if cl.success() {
				h.m.mark(0, r.tMark)
			} else {
				h.m.mark(1, r.tMark)
			}
		}
		h.c.Obs("admitted", 1)
	case vRejected:
		h.log = append(h.log, fmt.Sprintf("%s -> rejected [A=%d N=%d]", desc, p.A, p.N))
		h.rej++
		h.c.Obs("rejected", 1)
		if !p.legal {
			h.c.Viol("C01/illegal-reject/"+p.illegalKey(),
				fmt.Sprintf("call rejected although the window holds accepted=%d, non-accepted=%d: %d does not exceed 5 + 10%% of %d", p.A, p.N, p.N, p.A),
				h.witness(fmt.Sprintf("accepted=%d nonaccepted=%d at the rejected (last) call", p.A, p.N)))
		}
		if p.must {
			h.c.Viol("C01/must-admit-rejected/sequential",
				fmt.Sprintf("call rejected %v after the latest admission that can have been throttled (a throttled admission exists)", t-h.m.lastPoss),
				h.witness(fmt.Sprintf("since_last_throttled_admission=%v", t-h.m.lastPoss)))
		}
		h.m.mark(2, r.tDecide)
	case vNothing:
		h.log = append(h.log, desc+" -> context error, nothing ran")
		h.c.Obs("done_ctx_short_circuit", 1)
	}
	h.sigH = append(h.sigH, cl.E, cl.Ctx, cl.Out, int64(cl.Gap), int64(cl.Lat), cl.Abandon, int(v))
	return v
}

func (h *hist) finish() {
	h.c.Obs("histories", 1)
	if h.legal > 0 {
		h.c.Obs("histories_reaching_legal_rejection", 1)
	}
	h.c.Obs("calls_within_1_of_boundary", h.bnd)
	nontrivial := h.legal > 0
	h.c.Sig(nontrivial, append([]any{h.kind}, h.sigH...)...)
	if nontrivial && h.rej > 0 {
		n := len(h.log)
		if n > 60 {
			n = 60
		}
		h.c.Sample(h.kind, 1, map[string]any{"calls": h.calls, "rejections": h.rej, "calls_in_legal_state": h.legal,
			"must_admit": h.must, "first_calls": h.log[:n]})
	}
}

var gapSet = []time.Duration{0, 1, bucketDur - 1, bucketDur, bucketDur + 1, time.Second, time.Second + 1,
	2500 * time.Millisecond, 10*time.Second - 1, 10 * time.Second, 10*time.Second + 1, 25 * time.Second}

// gen draws calls; profile parameters are fixed per phase of a history.
type gen struct {
	r        *kit.Rand
	pFail    float64
	pPanic   float64 // share of failures that are panics
	pAccErr  float64 // share of successes that are acceptable errors
	gapMode  int     // 0 burst, 1 steady, 2 bucket edges, 3 slow, 4 mixed
	steady   time.Duration
	entMode  int // 0 any, 1..5 fixed entry point
	pCtx     float64
	pDone    float64
	pNamed   float64
	pLat     float64
	pAbandon float64
}

func newGen(r *kit.Rand) *gen {
	g := &gen{r: r}
	g.pFail = kit.Choose(r, []float64{0, 0.05, 0.1, 0.3, 0.5, 0.7, 0.9, 0.95, 1})
	g.pPanic = kit.Choose(r, []float64{0, 0.1, 0.5})
	g.pAccErr = kit.Choose(r, []float64{0, 0.2, 0.6})
	g.gapMode = r.Pick(30, 25, 25, 8, 12)
	g.steady = time.Duration(r.Range(1, 120)) * time.Millisecond
	if r.Chance(0.6) {
		g.entMode = 0
	} else {
		g.entMode = 1 + r.Intn(5)
	}
	g.pCtx = kit.Choose(r, []float64{0, 0.3, 1})
	g.pDone = kit.Choose(r, []float64{0, 0, 0.05, 0.2})
	g.pNamed = kit.Choose(r, []float64{0, 0, 0.3})
	g.pLat = kit.Choose(r, []float64{0, 0.1, 0.5})
	g.pAbandon = kit.Choose(r, []float64{0, 0.05, 0.3})
	return g
}

func (g *gen) gap() time.Duration {
	r := g.r
	mode := g.gapMode
	if mode == 4 {
		mode = r.Intn(4)
	}
	switch mode {
	case 0:
		return kit.Choose(r, []time.Duration{0, 0, 0, 1, 1000, time.Millisecond})
	case 1:
		return g.steady
	case 2:
		return gapSet[r.Pick(10, 6, 12, 12, 12, 10, 10, 8, 6, 6, 6, 2)]
	}
	return kit.Choose(r, []time.Duration{time.Second - 1, time.Second, time.Second + 1, 1100 * time.Millisecond, 2500 * time.Millisecond, 5 * time.Second})
}

func (g *gen) next() *call {
	r := g.r
	cl := &call{Gap: g.gap()}
	if g.entMode == 0 {
		cl.E = entry(r.Pick(25, 20, 20, 20, 15))
	} else {
		cl.E = entry(g.entMode - 1)
	}
	if r.Chance(g.pCtx) {
		cl.Ctx = cLive
		if r.Chance(g.pDone) {
			cl.Ctx = cCancelled
			if r.Bool() {
				cl.Ctx = cExpired
			}
		}
	}
	cl.Named = r.Chance(g.pNamed)
	if r.Chance(g.pFail) {
		cl.Out = oUnacc
		if r.Chance(g.pPanic) {
			cl.Out = oPanic
		} else if r.Chance(0.1) {
			cl.Out = oNilUnacc
		}
	} else {
		cl.Out = oOK
		if r.Chance(g.pAccErr) {
			cl.Out = oAcc
		}
	}
	if r.Chance(g.pLat) {
		cl.Lat = kit.Choose(r, []time.Duration{1, bucketDur - 1, bucketDur, 300 * time.Millisecond, time.Second + 1, 3 * time.Second, 10 * time.Second})
	}
	cl.FbRet = r.Intn(3)
	if r.Chance(0.1) {
		cl.FbLat = kit.Choose(r, []time.Duration{bucketDur, 2 * time.Second})
	}
	if cl.E == eAllow {
		cl.Abandon = r.Chance(g.pAbandon)
	}
	return cl
}

// pump picks the outcome that drives total-5 towards 1.1*accepted (or 1.5*accepted).
func (h *hist) pump(g *gen, times15 bool) *call {
	cl := g.next()
	cl.Ctx = kit.Choose(g.r, []ctxMode{cNone, cLive})
	cl.Abandon = false
	cl.Lat, cl.FbLat = 0, 0
	p := h.m.pre(h.vc.Now() + cl.Gap)
	above := p.legal
	if times15 {
		above = p.sure
	}
	if above {
		cl.Out = oOK
	} else {
		cl.Out = oUnacc
	}
	return cl
}

func runRandomHistory(c *kit.Case, vc *kit.VClock) {
	r := c.R
	h := newHist(c, vc, "random", r.Chance(0.15))
	L := 0
	switch r.Pick(35, 40, 25) {
	case 0:
		L = r.Range(1, 30)
	case 1:
		L = r.Range(30, 120)
	default:
		L = r.Range(120, 400)
	}
	phases := r.Range(1, 4)
	g := newGen(r)
	pumpMode := r.Pick(70, 20, 10) // 0 none, 1 pump 1.1, 2 pump 1.5
	for i := 0; i < L && !c.Violated(); i++ {
		if phases > 1 && i > 0 && i%(L/phases+1) == 0 {
			g = newGen(r)
			pumpMode = r.Pick(60, 25, 15)
		}
		var cl *call
		if pumpMode != 0 && r.Chance(0.85) {
			cl = h.pump(g, pumpMode == 2)
		} else {
			cl = g.next()
		}
		// sometimes aim exactly at the 1 s force-pass edge or at a bucket edge
		if h.m.sureSeen && r.Chance(0.08) {
			target := h.m.lastPoss + forcePass + kit.Choose(r, []time.Duration{-1, 0, 1, time.Millisecond})
			if d := target - vc.Now(); d >= 0 {
				cl.Gap = d
			}
		} else if r.Chance(0.05) {
			el := vc.Now() - h.m.t0
			toEdge := bucketDur - el%bucketDur
			cl.Gap = toEdge + kit.Choose(r, []time.Duration{-1, 0, 1})
		}
		h.step(cl)
	}
	h.finish()
}

// ------------------------------------------------------------------ weight floor

// runWeightFloor builds the state in which the anchored mechanism uses its smallest
// weight: all accepted calls in the oldest bucket of the window, followed by f buckets
// that hold only failures. The number of accepted calls is placed within a few calls of
// 10*(nonAccepted-5), i.e. on the statement's "5 + 10%" boundary, then probes follow.
func runWeightFloor(c *kit.Case, vc *kit.VClock) {
	r := c.R
	h := newHist(c, vc, "weight-floor", false)
	f := r.Range(6, 39)
	if r.Chance(0.5) {
		f = r.Range(30, 39)
	}
	per := make([]int, f)
	n := 0
	for i := range per {
		per[i] = 1
		if r.Chance(0.15) {
			per[i] = r.Range(2, 3)
		}
		n += per[i]
	}
	a := 10*(n-5) + kit.Choose(r, []int{-11, -3, -1, 0, 0, 1, 1, 5, 40})
	okEntry := func() *call {
		cl := &call{E: entry(r.Intn(5)), Out: oOK, FbRet: r.Intn(3)}
		if r.Chance(0.2) && cl.E != eDo && cl.E != eDoFb {
			cl.Out = oAcc
		}
		return cl
	}
	for i := 0; i < a && !c.Violated(); i++ {
		h.step(okEntry())
	}
	for i := 0; i < f && !c.Violated(); i++ {
		gap := bucketDur
		for j := 0; j < per[i] && !c.Violated(); j++ {
			cl := &call{Gap: gap, E: entry(r.Intn(5)), Out: kit.Choose(r, []outcome{oUnacc, oUnacc, oPanic}), FbRet: r.Intn(3)}
			gap = 0
			h.step(cl)
		}
	}
	probes := r.Range(1, 6)
	for i := 0; i < probes && !c.Violated(); i++ {
		cl := okEntry()
		if r.Chance(0.3) {
			cl.Out = oUnacc
		}
		cl.Gap = kit.Choose(r, []time.Duration{0, 0, 1, time.Millisecond})
		h.step(cl)
	}
	c.Obs("weight_floor_histories", 1)
	h.finish()
}

// ------------------------------------------------------------------ bounded-exhaustive

var exhGaps = []time.Duration{0, bucketDur, 39 * bucketDur}
var exhOuts = []outcome{oOK, oUnacc, oAcc, oPanic}

func exhCall(fam int, sym int) *call {
	cl := &call{Gap: exhGaps[sym%3], Out: exhOuts[sym/3], FbRet: 2}
	switch fam {
	case 0:
		cl.E = eDoAcc
	case 1:
		cl.E, cl.Ctx = eDoFbAcc, cLive
	default:
		cl.E = eAllow
	}
	return cl
}

func runExhaustive(c *kit.Case, vc *kit.VClock, preload, fam, L, idx int) {
	h := newHist(c, vc, fmt.Sprintf("exhaustive-pre%d-fam%d-L%d", preload, fam, L), false)
	for i := 0; i < preload; i++ {
		h.step(&call{E: eDo, Out: oUnacc})
	}
	syms := make([]int, L)
	x := idx
	for i := L - 1; i >= 0; i-- {
		syms[i] = x % 12
		x /= 12
	}
	for _, s := range syms {
		if c.Violated() {
			break
		}
		h.step(exhCall(fam, s))
	}
	h.finish()
}

// ------------------------------------------------------------------ effectiveness (statistical)

func runEffectiveness(c *kit.Case, vc *kit.VClock) {
	r := c.R
	h := newHist(c, vc, "effectiveness", r.Chance(0.2))
	kind := r.Intn(4) // 0 unacceptable error, 1 panic, 2 promise.Reject, 3 mixture
	rate := kit.Choose(r, []int{50, 100, 100, 200})
	gap := time.Second / time.Duration(rate)
	mk := func() *call {
		cl := &call{Gap: gap, FbRet: r.Intn(3)}
		k := kind
		if k == 3 {
			k = r.Intn(3)
		}
		switch k {
		case 0:
			cl.E = entry(r.Intn(4))
			cl.Out = oUnacc
		case 1:
			cl.E = entry(r.Intn(4))
			cl.Out = oPanic
		default:
			cl.E = eAllow
			cl.Out = oUnacc
		}
		if r.Chance(0.3) {
			cl.Ctx = cLive
		}
		return cl
	}
	for i := 0; i < 60 && !c.Violated(); i++ {
		h.step(mk())
	}
	n := 1000 + r.Intn(500)
	rej := 0
	for i := 0; i < n && !c.Violated(); i++ {
		if h.step(mk()) == vRejected {
			rej++
		}
	}
	c.Obs("effectiveness_runs", 1)
	c.Obs("effectiveness_calls", int64(n))
	c.Obs("effectiveness_rejected", int64(rej))
	if !c.Violated() && rej*100 < n*80 {
		kn := []string{"unacceptable-error", "panic", "promise-reject", "mixture"}[kind]
		c.Viol("C01/effectiveness/"+kn,
			fmt.Sprintf("after a 60-call warm-up, %d consecutive failing calls (%s) at %d per virtual second: only %d rejected (%.1f%%), the law gives >= 88%% per call", n, kn, rate, rej, 100*float64(rej)/float64(n)),
			map[string]any{"calls": n, "rejected": rej, "rate_per_s": rate, "failure_kind": kn, "statistical": true,
				"first_calls": h.log[:80]})
	}
	c.Sample("effectiveness", 1, map[string]any{"failing_calls": n, "rejected": rej, "rate_per_s": rate})
	h.finish()
}

// ------------------------------------------------------------------ concurrent histories

type crec struct {
	g          int
	cl         *call
	inv, ret   uint64
	tInv, tRet time.Duration
	v          verdict
	kind       int // 0 accepted, 1 failure, 2 rejection, -1 nothing recorded
}

type concRun struct {
	c    *kit.Case
	vc   *kit.VClock
	b    breaker.Breaker
	name string
	recs []crec
	desc map[string]any
}

// burst runs G goroutines with n calls each against the breaker and appends their records.
// Returns false if the watchdog fired.
func (cr *concRun) burst(G, n int, g0 *gen, advancing bool, budget time.Duration) bool {
	c := cr.c
	type wres struct {
		recs  []crec
		viols []func()
	}
	out := make([]wres, G)
	gens := make([]*gen, G)
	for i := range gens {
		gg := *g0
		gg.r = kit.NewRand(c.R.Uint64())
		gens[i] = &gg
	}
	var start sync.WaitGroup
	var wg sync.WaitGroup
	start.Add(1)
	var stop atomic.Bool
	if advancing {
		steps := make([]time.Duration, 64)
		for i := range steps {
			steps[i] = kit.Choose(c.R, []time.Duration{time.Microsecond, time.Millisecond, 10 * time.Millisecond, bucketDur / 2, bucketDur})
		}
		wg.Add(1)
		go func() {
			defer wg.Done()
			start.Wait()
			spent := time.Duration(0)
			for i := 0; !stop.Load(); i++ {
				s := steps[i%len(steps)]
				if spent+s <= budget {
					cr.vc.Advance(s)
					spent += s
				}
				for k := 0; k < 20; k++ {
					runtime.Gosched()
				}
			}
		}()
	}
	var workers sync.WaitGroup
	for w := 0; w < G; w++ {
		workers.Add(1)
		go func(w int) {
			defer workers.Done()
			gn := gens[w]
			start.Wait()
			for i := 0; i < n; i++ {
				cl := gn.next()
				cl.Gap = 0
				cl.FbLat = 0
				yield := func(d time.Duration) {
					if d > 0 {
						for k := 0; k < 3; k++ {
							runtime.Gosched()
						}
					}
				}
				rc := crec{g: w, cl: cl}
				rc.tInv = cr.vc.Now()
				rc.inv = kit.Stamp()
				r := doCall(cr.b, cr.name, cl, cr.vc.Now, yield)
				rc.ret = kit.Stamp()
				rc.tRet = cr.vc.Now()
				desc := cl.String()
				rc.v = classify(cl, &r, func(kind, what string) {
					out[w].viols = append(out[w].viols, func() {
						c.Viol("C01/exactly-once/"+cl.family()+"/"+kind, what+" (concurrent)", map[string]any{"call": desc, "setup": cr.desc})
					})
				})
				rc.kind = -1
				switch rc.v {
				case vAdmitted:
					if !(cl.E == eAllow && cl.Abandon) {
						if cl.success() {
							rc.kind = 0
						} else {
							rc.kind = 1
						}
					}
				case vRejected:
					rc.kind = 2
				}
				out[w].recs = append(out[w].recs, rc)
			}
		}(w)
	}
	done := make(chan struct{})
	go func() { workers.Wait(); close(done) }()
	start.Done()
	ok := true
	select {
	case <-done:
	case <-time.After(120 * time.Second):
		ok = false
	}
	stop.Store(true)
	if !ok {
		c.Inconclusive("concurrent burst did not finish within the 120 s watchdog (machine overloaded?)")
		return false
	}
	wg.Wait()
	for w := range out {
		cr.recs = append(cr.recs, out[w].recs...)
		for _, f := range out[w].viols {
			f()
		}
	}
	return true
}

// probe makes one sequential call at quiescence.
func (cr *concRun) probe(cl *call) {
	rc := crec{g: -1, cl: cl}
	rc.tInv = cr.vc.Now()
	rc.inv = kit.Stamp()
	r := doCall(cr.b, cr.name, cl, cr.vc.Now, func(time.Duration) {})
	rc.ret = kit.Stamp()
	rc.tRet = cr.vc.Now()
	desc := cl.String()
	rc.v = classify(cl, &r, func(kind, what string) {
		cr.c.Viol("C01/exactly-once/"+cl.family()+"/"+kind, what+" (probe at quiescence)", map[string]any{"call": desc, "setup": cr.desc})
	})
	rc.kind = -1
	switch rc.v {
	case vAdmitted:
		if cl.success() {
			rc.kind = 0
		} else {
			rc.kind = 1
		}
	case vRejected:
		rc.kind = 2
	}
	cr.recs = append(cr.recs, rc)
}

func countLess(sorted []uint64, x uint64) int64 {
	return int64(sort.Search(len(sorted), func(i int) bool { return sorted[i] >= x }))
}

// check applies clauses (1) and (4) with happens-before bounds. Precondition: the whole
// run spans less than the window, so no mark expires.
func (cr *concRun) check() (rejections, legalStates, mustAdmit int64) {
	recs := cr.recs
	var nInv, nRet, aInv, aRet []uint64 // stamps of calls whose mark is non-accepted / accepted
	for i := range recs {
		switch recs[i].kind {
		case 1, 2:
			nInv = append(nInv, recs[i].inv)
			nRet = append(nRet, recs[i].ret)
		case 0:
			aInv = append(aInv, recs[i].inv)
			aRet = append(aRet, recs[i].ret)
		}
	}
	for _, s := range [][]uint64{nInv, nRet, aInv, aRet} {
		sort.Slice(s, func(i, j int) bool { return s[i] < s[j] })
	}
	type bnd struct{ nMax, nMin, aMax, aMin int64 }
	bs := make([]bnd, len(recs))
	for i := range recs {
		rc := &recs[i]
		b := bnd{
			nMax: countLess(nInv, rc.ret), nMin: countLess(nRet, rc.inv),
			aMax: countLess(aInv, rc.ret), aMin: countLess(aRet, rc.inv),
		}
		if rc.kind == 1 || rc.kind == 2 {
			b.nMax-- // its own mark is recorded after its own decision
		}
		if rc.kind == 0 {
			b.aMax--
		}
		bs[i] = b
	}
	// admissions that were surely throttled / may have been throttled
	type adm struct {
		ret, inv uint64
		tRet     time.Duration
	}
	var sure, poss []adm
	for i := range recs {
		if recs[i].v != vAdmitted {
			continue
		}
		b := bs[i]
		if 2*b.nMin-10 > b.aMax {
			sure = append(sure, adm{recs[i].ret, recs[i].inv, recs[i].tRet})
		}
		if 10*b.nMax-50 > b.aMin {
			poss = append(poss, adm{recs[i].ret, recs[i].inv, recs[i].tRet})
		}
	}
	minSureRet := ^uint64(0)
	for _, a := range sure {
		if a.ret < minSureRet {
			minSureRet = a.ret
		}
	}
	sort.Slice(poss, func(i, j int) bool { return poss[i].inv < poss[j].inv })
	// prefix maximum of tRet over poss ordered by inv
	pmax := make([]time.Duration, len(poss))
	for i := range poss {
		pmax[i] = poss[i].tRet
		if i > 0 && pmax[i-1] > pmax[i] {
			pmax[i] = pmax[i-1]
		}
	}
	for i := range recs {
		rc := &recs[i]
		b := bs[i]
		if rc.v != vAdmitted && rc.v != vRejected {
			continue
		}
		legal := 10*b.nMax > 50+b.aMin
		if legal {
			legalStates++
		}
		must := false
		if minSureRet < rc.inv {
			// every possibly-throttled admission that can precede this decision (other than itself)
			k := sort.Search(len(poss), func(j int) bool { return poss[j].inv >= rc.ret })
			latest := time.Duration(-1 << 62)
			if k > 0 {
				latest = pmax[k-1]
			}
			if rc.v == vAdmitted {
				// it may itself be in poss; recompute without it (rare path, linear)
				latest = time.Duration(-1 << 62)
				for j := 0; j < k; j++ {
					if poss[j].inv != rc.inv && poss[j].tRet > latest {
						latest = poss[j].tRet
					}
				}
			}
			must = rc.tInv-latest > forcePass
		}
		if must {
			mustAdmit++
		}
		if rc.v != vRejected {
			continue
		}
		rejections++
		if !legal {
			key := "nonaccepted<=5"
			if b.nMax > 5 {
				key = "nonaccepted<=5+10%accepted"
			}
			cr.c.Viol("C01/illegal-reject/"+key,
				fmt.Sprintf("concurrent: call rejected although at most %d non-accepted calls had been invoked before it returned and at least %d accepted calls had returned before it was invoked", b.nMax, b.aMin),
				cr.witness(i))
		}
		if must {
			cr.c.Viol("C01/must-admit-rejected/concurrent",
				"concurrent: call rejected although a surely-throttled admission had returned before it and every admission that can have been throttled lies more than 1 s (virtual) before its invocation",
				cr.witness(i))
		}
	}
	return
}

func (cr *concRun) witness(i int) map[string]any {
	recs := append([]crec(nil), cr.recs...)
	sort.Slice(recs, func(a, b int) bool { return recs[a].inv < recs[b].inv })
	var lines []string
	for _, rc := range recs {
		if rc.inv > cr.recs[i].ret {
			break
		}
		mark := []string{"none", "accepted", "failure", "rejection"}[rc.kind+1]
		lines = append(lines, fmt.Sprintf("g%d inv=%d ret=%d t=[%v,%v] %s -> %s", rc.g, rc.inv, rc.ret, rc.tInv, rc.tRet, rc.cl.String(), mark))
	}
	if len(lines) > 600 {
		lines = lines[len(lines)-600:]
	}
	f := cr.recs[i]
	return map[string]any{"setup": cr.desc, "failing_call": fmt.Sprintf("g%d inv=%d ret=%d %s", f.g, f.inv, f.ret, f.cl.String()),
		"calls invoked before the failing call returned (logical stamps)": lines}
}

func runConcurrent(c *kit.Case, vc *kit.VClock) {
	r := c.R
	vc.Set(kit.VClockStart + time.Duration(r.Int63n(int64(3*time.Second))))
	cr := &concRun{c: c, vc: vc, name: freshName(c)}
	G := kit.Choose(r, []int{2, 2, 3, 4, 4, 8, 8, 16, 32})
	n := r.Range(5, 60)
	if G >= 16 {
		n = r.Range(5, 25)
	}
	advancing := r.Bool()
	named := r.Chance(0.25)
	phases := r.Range(1, 3)
	cr.desc = map[string]any{"goroutines": G, "calls_per_goroutine_per_phase": n, "clock": map[bool]string{false: "frozen", true: "advanced by a separate goroutine"}[advancing],
		"phases": phases, "named_registry": named}
	if named {
		// racing creation through the registry: everybody must get the same breaker
		got := make([]breaker.Breaker, G)
		var wg sync.WaitGroup
		for i := 0; i < G; i++ {
			wg.Add(1)
			go func(i int) { defer wg.Done(); got[i] = breaker.GetBreaker(cr.name) }(i)
		}
		wg.Wait()
		for i := 1; i < G; i++ {
			if got[i] != got[0] {
				c.Viol("C01/registry/two-breakers-for-one-name", "concurrent GetBreaker(name) returned different breakers", cr.desc)
			}
		}
		cr.b = got[0]
		c.Obs("registry_racing_creations", 1)
	} else {
		cr.b = breaker.NewBreaker(breaker.WithName(cr.name))
	}
	for ph := 0; ph < phases && !c.Violated(); ph++ {
		g := newGen(r)
		if ph == 0 || r.Chance(0.6) {
			g.pFail = kit.Choose(r, []float64{0.5, 0.8, 0.95, 1})
		}
		g.pNamed = 0
		if named {
			g.pNamed = 0.5
		}
		if !cr.burst(G, n, g, advancing, 1500*time.Millisecond) {
			return
		}
		// quiescence: one failing probe now, one more than 1 s later (must-admit if throttled admissions exist)
		cr.probe(&call{E: eDo, Out: oUnacc})
		vc.Advance(forcePass + kit.Choose(r, []time.Duration{1, time.Millisecond}))
		cr.probe(&call{E: entry(r.Intn(5)), Out: oUnacc, FbRet: r.Intn(3)})
	}
	rej, legal, must := cr.check()
	c.Obs("concurrent_runs", 1)
	c.Obs("concurrent_calls", int64(len(cr.recs)))
	c.Obs("concurrent_rejections", rej)
	c.Obs("concurrent_calls_in_legal_state", legal)
	c.Obs("concurrent_must_admit_situations", must)
	// interleaving signature: merged order of invocation/return events by goroutine
	type ev struct {
		s uint64
		g int
		k byte
	}
	evs := make([]ev, 0, 2*len(cr.recs))
	for _, rc := range cr.recs {
		evs = append(evs, ev{rc.inv, rc.g, 'i'}, ev{rc.ret, rc.g, byte('0' + rc.v)})
	}
	sort.Slice(evs, func(i, j int) bool { return evs[i].s < evs[j].s })
	var sb strings.Builder
	for _, e := range evs {
		fmt.Fprintf(&sb, "%d%c", e.g, e.k)
	}
	c.Sig(legal > 0, "concurrent", G, n, advancing, sb.String())
	if rej > 0 {
		c.Sample("concurrent", 1, map[string]any{"setup": cr.desc, "calls": len(cr.recs), "rejections": rej, "calls_in_legal_state": legal, "must_admit": must})
	}
}

// ------------------------------------------------------------------ rest/handler.BreakerHandler

var sharedMetrics = stat.NewMetrics("verif-c01")

func runHandler(c *kit.Case, vc *kit.VClock) {
	r := c.R
	vc.Set(kit.VClockStart + time.Duration(r.Int63n(int64(3*time.Second))))
	h := &hist{c: c, vc: vc, kind: "rest-breakerhandler"}
	path := "/" + freshName(c)
	var code int
	var lat time.Duration
	var runs int
	var pan any        // when set, the handler panics with it: after having answered with `code` ...
	var panBefore bool // ... or before writing anything
	next := http.HandlerFunc(func(w http.ResponseWriter, req *http.Request) {
		runs++
		if lat > 0 {
			vc.Advance(lat)
		}
		if pan != nil && panBefore {
			panic(pan) // nothing written at all
		}
		w.WriteHeader(code)
		w.Write([]byte("body"))
		if pan != nil {
			panic(pan)
		}
	})
	hd := handler.BreakerHandler(http.MethodGet, path, sharedMetrics)(next)
	h.m = newModel(vc.Now())
	effect := r.Chance(0.3)
	L := r.Range(20, 200)
	pFail := kit.Choose(r, []float64{0.3, 0.6, 0.9, 1})
	g := newGen(r)
	effectPanic := 0 // effectiveness runs: 0 = answers 5xx, 1 = 5xx then panic, 2 = panic before writing, 3 = 2xx/4xx then panic
	if effect {
		L, pFail = 1060, 1
		effectPanic = r.Intn(4)
	}
	rejTail := 0
	for i := 0; i < L && !c.Violated(); i++ {
		gap := g.gap()
		if effect {
			gap = 10 * time.Millisecond
		}
		vc.Advance(gap)
		fail := r.Chance(pFail)
		if fail {
			code = kit.Choose(r, []int{500, 502, 503, 504})
		} else {
			code = kit.Choose(r, []int{200, 201, 204, 301, 400, 404, 499})
		}
		lat = 0
		if !effect && r.Chance(0.1) {
			lat = kit.Choose(r, []time.Duration{bucketDur, time.Second + 1})
		}
		runs = 0
		// a handler that answers 5xx and then panics: the panic passes through the breaker
		// middleware (no recover middleware in between), must come back unchanged and the
		// request still counts as one failure
		// (a panic counts as a failure whatever the handler had answered before: a 5xx, a 2xx or nothing)
		pan, panBefore = nil, false
		if fail && (effectPanic > 0 || (!effect && r.Chance(0.25))) {
			pan = &panicTok{id: i}
			kind := effectPanic
			if kind == 0 {
				kind = 1 + r.Intn(3)
			}
			switch kind {
			case 2:
				panBefore = true
			case 3:
				code = kit.Choose(r, []int{200, 201, 404})
			}
		}
		t := vc.Now()
		p := h.m.pre(t)
		rec := httptest.NewRecorder()
		var recovered any
		func() {
			defer func() { recovered = recover() }()
			hd.ServeHTTP(rec, httptest.NewRequest(http.MethodGet, path, nil))
		}()
		desc := fmt.Sprintf("+%v GET -> handler answers %d lat=%v panics=%v", gap, code, lat, pan != nil)
		if runs == 1 && pan != nil {
			c.Obs("handler_panics_through_middleware", 1)
			if recovered != pan {
				c.Viol("C01/handler/panic-not-reraised", fmt.Sprintf("handler panicked with %v, the caller of the middleware recovered %v", pan, recovered), h.witness(""))
			}
		} else if recovered != nil {
			panic(recovered)
		}
		c.Obs("handler_requests", 1)
		if p.legal {
			h.legal++
		}
		switch {
		case runs == 1:
			h.log = append(h.log, fmt.Sprintf("%s -> served [A=%d N=%d]", desc, p.A, p.N))
			if !panBefore && (rec.Code != code || rec.Body.String() != "body") {
				c.Viol("C01/handler/response-changed", fmt.Sprintf("handler answered %d, client saw %d %q", code, rec.Code, rec.Body.String()), h.witness(""))
			}
			h.m.admitted(p)
			if code < 500 && pan == nil {
				h.m.mark(0, vc.Now())
			} else {
				h.m.mark(1, vc.Now())
			}
		case runs == 0:
			h.log = append(h.log, fmt.Sprintf("%s -> 503 dropped [A=%d N=%d]", desc, p.A, p.N))
			h.rej++
			c.Obs("handler_rejected", 1)
			if i >= 60 {
				rejTail++
			}
			if rec.Code != http.StatusServiceUnavailable {
				c.Viol("C01/handler/rejected-without-503", fmt.Sprintf("next handler not run but status is %d", rec.Code), h.witness(""))
			}
			if !p.legal {
				c.Viol("C01/illegal-reject/"+p.illegalKey(),
					fmt.Sprintf("BreakerHandler dropped a request although the window holds accepted=%d, non-accepted=%d", p.A, p.N), h.witness("rest/handler.BreakerHandler"))
			}
			if p.must {
				c.Viol("C01/must-admit-rejected/sequential", "BreakerHandler dropped a must-admit request", h.witness("rest/handler.BreakerHandler"))
			}
			h.m.mark(2, t)
		default:
			c.Viol("C01/handler/next-ran-more-than-once", fmt.Sprintf("next handler ran %d times for one request", runs), h.witness(""))
		}
		h.sigH = append(h.sigH, code, int64(gap), runs)
	}
	if effect && !c.Violated() {
		c.Obs("effectiveness_runs", 1)
		if rejTail*100 < 1000*80 {
			cls := []string{"", "/5xx-then-panic", "/panic-before-any-write", "/non-5xx-then-panic"}[effectPanic]
			c.Viol("C01/effectiveness/rest-breakerhandler"+cls, fmt.Sprintf("1000 consecutive failing requests (5xx answers resp. panicking handlers: %q) at 100 per virtual second after a 60-request warm-up: only %d requests dropped", cls, rejTail),
				map[string]any{"dropped": rejTail, "statistical": true, "failure_kind": cls})
		}
	}
	h.calls = int64(L)
	h.finish()
}

// ------------------------------------------------------------------ core/stores/redis breakerHook

// redisHook is added with redis.WithHook, i.e. INSIDE go-zero's breakerHook: it runs iff
// the breaker admitted the command, and it answers the command itself (nothing is dialled
// on the command path; the address is an unused loopback address).
type redisHook struct{ fn func() error }

func (h redisHook) DialHook(next red.DialHook) red.DialHook { return next }
func (h redisHook) ProcessHook(next red.ProcessHook) red.ProcessHook {
	return func(ctx context.Context, cmd red.Cmder) error { return h.fn() }
}
func (h redisHook) ProcessPipelineHook(next red.ProcessPipelineHook) red.ProcessPipelineHook {
	return func(ctx context.Context, cmds []red.Cmder) error { return h.fn() }
}

var redisSeq atomic.Int64

func runRedis(c *kit.Case, vc *kit.VClock) {
	r := c.R
	vc.Set(kit.VClockStart + time.Duration(r.Int63n(int64(3*time.Second))))
	h := &hist{c: c, vc: vc, kind: "redis-breakerhook"}
	var runs int
	var answer error
	var lat time.Duration
	hook := redisHook{fn: func() error {
		runs++
		if lat > 0 {
			vc.Advance(lat)
		}
		return answer
	}}
	// one go-redis client (and one breaker) per address: use a fresh unused loopback address
	// (process id in the second octet keeps shards apart; port 1 refuses connections at once)
	n := redisSeq.Add(1)
	addr := fmt.Sprintf("127.%d.%d.%d:1", 1+kit.GetEnv().Shard%250, 1+(n/250)%250, 1+n%250)
	rds := redis.New(addr, redis.WithHook(hook))
	h.m = newModel(vc.Now())
	effect := r.Chance(0.3)
	L := r.Range(20, 200)
	pFail := kit.Choose(r, []float64{0.3, 0.6, 0.9, 1})
	g := newGen(r)
	if effect {
		L, pFail = 1060, 1
	}
	boom := errors.New("ERR scripted redis failure")
	rejTail := 0
	for i := 0; i < L && !c.Violated(); i++ {
		gap := g.gap()
		if effect {
			gap = 10 * time.Millisecond
		}
		vc.Advance(gap)
		success := true
		switch {
		case r.Chance(pFail):
			answer, success = boom, false
			if !effect && r.Chance(0.25) { // a negative control / a deadline error (c01_shapes_sites_test.go): refused as well
				answer = redisShFail[r.Intn(len(redisShFail))].mk(errSeq.Add(1))
				c.Obs("redis_shape_calls_in_random_histories", 1)
			}
		case r.Chance(0.3):
			answer = red.Nil // acceptable for go-zero's redis client
			if r.Chance(0.6) { // red.Nil / context.Canceled in one of the errors.Is shapes: accepted as well
				answer = redisShOk[r.Intn(len(redisShOk))].mk(errSeq.Add(1))
				c.Obs("redis_shape_calls_in_random_histories", 1)
			}
		default:
			answer = nil
		}
		lat = 0
		if !effect && r.Chance(0.1) {
			lat = kit.Choose(r, []time.Duration{bucketDur, time.Second + 1})
		}
		runs = 0
		t := vc.Now()
		p := h.m.pre(t)
		var err error
		op := r.Intn(3)
		opName := []string{"Get", "Set", "Pipelined"}[op]
		switch op {
		case 0:
			_, err = rds.Get("k")
		case 1:
			err = rds.Set("k", "v")
		default:
			err = rds.Pipelined(func(pipe redis.Pipeliner) error {
				pipe.Get(context.Background(), "a")
				pipe.Incr(context.Background(), "b")
				return nil
			})
		}
		desc := fmt.Sprintf("+%v %s -> server answers %v lat=%v", gap, opName, answer, lat)
		c.Obs("redis_commands", 1)
		if p.legal {
			h.legal++
		}
		switch {
		case runs == 1:
			h.log = append(h.log, fmt.Sprintf("%s -> executed, client got %v [A=%d N=%d]", desc, err, p.A, p.N))
			if errors.Is(err, breaker.ErrServiceUnavailable) {
				c.Viol("C01/redis/executed-and-unavailable", "command reached the server side and the client still got ErrServiceUnavailable", h.witness(""))
			}
			h.m.admitted(p)
			if success {
				h.m.mark(0, vc.Now())
			} else {
				h.m.mark(1, vc.Now())
			}
		case runs == 0:
			h.log = append(h.log, fmt.Sprintf("%s -> not executed, client got %v [A=%d N=%d]", desc, err, p.A, p.N))
			if !errors.Is(err, breaker.ErrServiceUnavailable) {
				// not the breaker (client-side failure of some other kind): nothing to judge
				c.Inconclusive(fmt.Sprintf("redis command neither executed nor rejected by the breaker: %v", err))
				h.finish()
				return
			}
			h.rej++
			c.Obs("redis_rejected", 1)
			if i >= 60 {
				rejTail++
			}
			if !p.legal {
				c.Viol("C01/illegal-reject/"+p.illegalKey(),
					fmt.Sprintf("redis breakerHook rejected a command although the window holds accepted=%d, non-accepted=%d", p.A, p.N), h.witness("core/stores/redis breakerHook"))
			}
			if p.must {
				c.Viol("C01/must-admit-rejected/sequential", "redis breakerHook rejected a must-admit command", h.witness("core/stores/redis breakerHook"))
			}
			h.m.mark(2, t)
		default:
			c.Viol("C01/redis/executed-more-than-once", fmt.Sprintf("one command ran the inner hook %d times", runs), h.witness(""))
		}
		h.sigH = append(h.sigH, op, success, int64(gap), runs)
	}
	if effect && !c.Violated() {
		c.Obs("effectiveness_runs", 1)
		if rejTail*100 < 1000*80 {
			c.Viol("C01/effectiveness/redis-breakerhook", fmt.Sprintf("1000 consecutive failing commands at 100 per virtual second after a 60-command warm-up: only %d rejected", rejTail),
				map[string]any{"rejected": rejTail, "statistical": true})
		}
	}
	h.calls = int64(L)
	h.finish()
}

// ------------------------------------------------------------------ test

func TestVerifC01(t *testing.T) {
	logx.Disable()
	vc := kit.InstallVClock()
	defer kit.UninstallVClock()

	// (a) random sequential histories, 10 per case
	kit.Run(t, "C01", "random", kit.N(1200, 20000), func(c *kit.Case) {
		for i := 0; i < 10 && !c.Violated(); i++ {
			runRandomHistory(c, vc)
			c.Evals(1)
		}
	})

	// (b) bounded-exhaustive: preload x entry-point family x all sequences of L symbols
	// (4 outcomes x 3 gaps {0, one bucket, 39 buckets}); 500 histories per case
	L := 3
	if kit.Thorough() {
		L = 5
	}
	total := 1
	for i := 0; i < L; i++ {
		total *= 12
	}
	const batch = 500
	for _, preload := range []int{0, 5, 7} {
		for fam := 0; fam < 3; fam++ {
			famName := fmt.Sprintf("exh-pre%d-fam%d-L%d", preload, fam, L)
			kit.Run(t, "C01", famName, (total+batch-1)/batch, func(c *kit.Case) {
				lo, hi := c.Index*batch, (c.Index+1)*batch
				if hi > total {
					hi = total
				}
				for idx := lo; idx < hi && !c.Violated(); idx++ {
					runExhaustive(c, vc, preload, fam, L, idx)
					c.Evals(1)
				}
				if c.Index == 0 {
					c.Sample("exhaustive", 1, map[string]any{"family": famName, "preload_failing_calls": preload, "alphabet": 12, "length": L, "histories": total})
				}
			})
		}
	}

	// (a') accepted calls in the oldest bucket, then only failures: smallest weight, 10% boundary
	kit.Run(t, "C01", "weight-floor", kit.N(400, 6000), func(c *kit.Case) { runWeightFloor(c, vc) })

	// (5) statistical effectiveness
	kit.Run(t, "C01", "effectiveness", kit.N(48, 600), func(c *kit.Case) { runEffectiveness(c, vc) })

	// (c)+(d) concurrent histories, registry races
	kit.Run(t, "C01", "concurrent", kit.N(800, 8000), func(c *kit.Case) { runConcurrent(c, vc) })

	// (d) integration site: rest/handler.BreakerHandler
	kit.Run(t, "C01", "handler", kit.N(120, 2000), func(c *kit.Case) { runHandler(c, vc) })

	// (d) integration site: core/stores/redis breakerHook (commands answered by an inner go-redis hook)
	kit.Run(t, "C01", "redis", kit.N(60, 1000), func(c *kit.Case) { runRedis(c, vc) })

	// (d) integration site: core/stores/sqlx breaker plumbing over a scripted database/sql driver (c01_sqlx_test.go)
	kit.Run(t, "C01", "sqlx", kit.N(400, 6000), func(c *kit.Case) { runSqlx(c, vc) })
	kit.Run(t, "C01", "sqlx-effect", kit.N(len(sqlFailCombos), 10*len(sqlFailCombos)), func(c *kit.Case) { runSqlxEffect(c, vc) })
	kit.Run(t, "C01", "sqlx-flood", kit.N(len(sqlOkCombos), 10*len(sqlOkCombos)), func(c *kit.Case) { runSqlxFlood(c, vc) })
	kit.Run(t, "C01", "sqlx-shared", kit.N(5, 50), func(c *kit.Case) { runSqlxShared(c, vc) })

	// (d) sqlx: SqlConns made with sqlx.NewSqlConn over a registered scripted driver whose connection
	// acquisition fails (c01_sqlx_dial_test.go)
	kit.Run(t, "C01", "sqlx-dial", kit.N(120, 2000), func(c *kit.Case) { runSqlxDial(c, vc) })
	kit.Run(t, "C01", "sqlx-dial-effect", kit.N(2*len(sqlDialEntries), 10*len(sqlDialEntries)), func(c *kit.Case) { runSqlxDialEffect(c, vc) })

	// error-value shapes of the sentinels the redis / sqlx predicates name (c01_shapes_test.go,
	// c01_shapes_sites_test.go): one flood per (accepted sentinel, shape), one all-failing run per
	// (negative control | refused sentinel, shape)
	if err := vfC01ShSelfCheck(redisShSens...); err != nil {
		t.Fatalf("redis sentinels: %v", err)
	}
	if err := vfC01ShSelfCheck(sqlShSens...); err != nil {
		t.Fatalf("sqlx sentinels: %v", err)
	}
	if vfC01ShDialTimeout == nil || vfC01ShDialCanceled == nil {
		kit.Obs("real_net_errors_unavailable", 1)
	}
	kit.Run(t, "C01", "redis-shape-flood", kit.N(len(redisShOk), 6*len(redisShOk)), func(c *kit.Case) { runRedisShapeFlood(c, vc) })
	kit.Run(t, "C01", "redis-shape-effect", kit.N(len(redisShFail), 6*len(redisShFail)), func(c *kit.Case) { runRedisShapeEffect(c, vc) })
	kit.Run(t, "C01", "sqlx-shape-flood", kit.N(2*len(sqlShOk), 12*len(sqlShOk)), func(c *kit.Case) { runSqlxShapeFlood(c, vc) })
	kit.Run(t, "C01", "sqlx-shape-effect", kit.N(2*len(sqlShFail), 12*len(sqlShFail)), func(c *kit.Case) { runSqlxShapeEffect(c, vc) })

	kit.End()
}
