// C01, error-value shapes (c01_shapes_test.go) at the black-box integration sites:
//
//   - core/stores/redis breakerHook: predicate `acceptable` = nil or errors.Is red.Nil / context.Canceled;
//   - core/stores/sqlx: commonSqlConn.acceptable = nil or errors.Is sql.ErrNoRows / sql.ErrTxDone /
//     context.Canceled (+ WithAcceptable options, + scan failures), reached through every entry point
//     that hands it to the breaker (Exec, Query*, Prepare, prepared statements, Transact).
//
// For every sentinel of a site and every shape one never-rejected flood (shapes the site must record
// as success) or one all-failing effectiveness run (shapes it must record as failure: the negative
// controls, and context.DeadlineExceeded - bare and as the real error of a timed-out dial - which
// neither site accepts). The window model and the laws are those of c01_test.go; only the violation
// key differs, so that a misclassified shape is named: C01/<site>/misclassified/<sentinel>/<shape class>.
package c01

import (
	"context"
	"database/sql"
	"errors"
	"fmt"
	"time"

	red "github.com/redis/go-redis/v9"
	"github.com/zeromicro/go-zero/core/breaker"
	"github.com/zeromicro/go-zero/core/stores/redis"

	"verifharness/kit"
)

const (
	shapeWarm   = 60  // warm-up calls of a shape effectiveness run
	shapeEffect = 400 // judged calls of a shape effectiveness run (>= 80 % must be rejected)
)

// The law gives every call of an all-failing run, after the warm-up, a rejection probability of at
// least (60-5)/61 > 0.9 (rising to 0.98 within the run); fewer than 80 % rejections among 400 has
// probability < (e*12/80)^80 < 1e-30 (Chernoff, expected number of admissions <= 12+4 forced).

var (
	redisShSens = []vfC01ShSentinel{
		{name: "red.Nil", err: red.Nil, accept: true},
		{name: "context.Canceled", err: context.Canceled, accept: true},
		{name: "context.DeadlineExceeded", err: context.DeadlineExceeded, only: []string{"bare", "real-net-dial-timeout"}},
	}
	sqlShSens = []vfC01ShSentinel{
		{name: "sql.ErrNoRows", err: sql.ErrNoRows, accept: true},
		{name: "sql.ErrTxDone", err: sql.ErrTxDone, accept: true},
		{name: "context.Canceled", err: context.Canceled, accept: true},
		{name: "context.DeadlineExceeded", err: context.DeadlineExceeded, only: []string{"bare", "real-net-dial-timeout"}},
	}
	redisShOk, redisShFail = vfC01ShCombos(true, redisShSens...)
	sqlShOkCombos, sqlShFailCombos = vfC01ShCombos(true, sqlShSens...)
	sqlShOk, sqlShFail             []sqlClass
)

func init() {
	mk := func(cbs []vfC01ShCombo) (out []sqlClass) {
		for i := range cbs {
			cb := &cbs[i]
			out = append(out, sqlClass{name: "shape:" + cb.name(), mk: cb.mk, cfgs: sqlAllCfgs, fail: cb.fail, shape: cb})
		}
		return
	}
	sqlShOk, sqlShFail = mk(sqlShOkCombos), mk(sqlShFailCombos)
}

// ------------------------------------------------------------------ redis

type redisRun struct {
	h       *hist
	rds     *redis.Redis
	runs    int
	answer  error
	lat     time.Duration
	relabel string // when set: the key of every illegal rejection
}

func newRedisRun(c *kit.Case, vc *kit.VClock, kind string) *redisRun {
	vc.Set(kit.VClockStart + time.Duration(c.R.Int63n(int64(3*time.Second))))
	rr := &redisRun{h: &hist{c: c, vc: vc, kind: kind}}
	hook := redisHook{fn: func() error {
		rr.runs++
		if rr.lat > 0 {
			vc.Advance(rr.lat)
		}
		return rr.answer
	}}
	n := redisSeq.Add(1)
	addr := fmt.Sprintf("127.%d.%d.%d:1", 1+kit.GetEnv().Shard%250, 1+(n/250)%250, 1+n%250)
	rr.rds = redis.New(addr, redis.WithHook(hook))
	rr.h.m = newModel(vc.Now())
	return rr
}

// step sends one command (Get / Set / a pipeline) whose inner hook answers `answer`; `success` is how
// the site must record it when admitted. Returns the verdict, or -1 if the case became inconclusive.
func (rr *redisRun) step(gap time.Duration, answer error, ansName string, success bool, op int) verdict {
	h, c, vc := rr.h, rr.h.c, rr.h.vc
	vc.Advance(gap)
	rr.answer, rr.runs = answer, 0
	t := vc.Now()
	p := h.m.pre(t)
	var err error
	opName := []string{"Get", "Set", "Pipelined"}[op]
	switch op {
	case 0:
		_, err = rr.rds.Get("k")
	case 1:
		err = rr.rds.Set("k", "v")
	default:
		err = rr.rds.Pipelined(func(pipe redis.Pipeliner) error {
			pipe.Get(context.Background(), "a")
			pipe.Incr(context.Background(), "b")
			return nil
		})
	}
	desc := fmt.Sprintf("+%v %s -> server answers %s (%v)", gap, opName, ansName, answer)
	c.Obs("redis_commands", 1)
	h.calls++
	if p.legal {
		h.legal++
	}
	v := vBroken
	switch {
	case rr.runs == 1:
		h.log = append(h.log, fmt.Sprintf("%s -> executed, client got %v [A=%d N=%d]", desc, err, p.A, p.N))
		if errors.Is(err, breaker.ErrServiceUnavailable) {
			c.Viol("C01/redis/executed-and-unavailable", "command reached the server side and the client still got ErrServiceUnavailable", h.witness(""))
			break
		}
		v = vAdmitted
		h.m.admitted(p)
		if success {
			h.m.mark(0, vc.Now())
		} else {
			h.m.mark(1, vc.Now())
		}
	case rr.runs == 0:
		h.log = append(h.log, fmt.Sprintf("%s -> not executed, client got %v [A=%d N=%d]", desc, err, p.A, p.N))
		if !errors.Is(err, breaker.ErrServiceUnavailable) {
			c.Inconclusive(fmt.Sprintf("redis command neither executed nor rejected by the breaker: %v", err))
			return -1
		}
		v = vRejected
		h.rej++
		c.Obs("redis_rejected", 1)
		if !p.legal {
			key := "C01/illegal-reject/" + p.illegalKey()
			if rr.relabel != "" {
				key = rr.relabel
			}
			c.Viol(key, fmt.Sprintf("redis breakerHook rejected a command although the window holds accepted=%d, non-accepted=%d", p.A, p.N), h.witness("core/stores/redis breakerHook"))
		}
		if p.must {
			c.Viol("C01/must-admit-rejected/sequential", "redis breakerHook rejected a must-admit command", h.witness("core/stores/redis breakerHook"))
		}
		h.m.mark(2, t)
	default:
		c.Viol("C01/redis/executed-more-than-once", fmt.Sprintf("one command ran the inner hook %d times", rr.runs), h.witness(""))
	}
	h.sigH = append(h.sigH, op, ansName, int64(gap), rr.runs)
	return v
}

func shapeObs(c *kit.Case, site string, cb *vfC01ShCombo, calls int64) {
	c.Obs(site+"_shape_calls", calls)
	c.Obs(site+"_shape_calls_"+cb.sh.class, calls)
}

// runRedisShapeFlood: up to 5 genuine failures, then 60-120 commands all answered with ONE shape of a
// sentinel the redis predicate accepts: recorded as successes, so no command may ever be rejected.
func runRedisShapeFlood(c *kit.Case, vc *kit.VClock) {
	r := c.R
	cb := &redisShOk[c.Index%len(redisShOk)]
	rr := newRedisRun(c, vc, "redis-shape-flood")
	rr.relabel = cb.key("redis-breakerhook")
	boom := errors.New("ERR scripted redis failure")
	pre := r.Intn(6)
	for i := 0; i < pre && !c.Violated(); i++ {
		if rr.step(time.Millisecond, boom, "plain-error", false, r.Intn(3)) < 0 {
			return
		}
	}
	n := r.Range(60, 120)
	gap := kit.Choose(r, []time.Duration{0, time.Millisecond, 10 * time.Millisecond, 60 * time.Millisecond})
	for i := 0; i < n && !c.Violated(); i++ {
		if rr.step(gap, cb.mk(errSeq.Add(1)), cb.name(), true, r.Intn(3)) < 0 {
			return
		}
	}
	if c.Violated() {
		c.Sample("shape-misclassified", 2, map[string]any{"site": "redis-breakerhook", "shape": cb.name(), "reference": cb.what()})
	}
	c.Obs("redis_shape_success_floods", 1)
	shapeObs(c, "redis", cb, int64(n))
	c.Sig(true, "redis-shape-flood", cb.name(), pre, n, int64(gap), rr.h.rej)
	if c.Index == 0 {
		c.Sample("redis-shape-flood", 1, map[string]any{"shape": cb.name(), "reference": cb.what(), "commands": n, "rejected": rr.h.rej})
	}
	rr.h.finish()
}

// runRedisShapeEffect: every command is answered with ONE shape the redis predicate must refuse.
func runRedisShapeEffect(c *kit.Case, vc *kit.VClock) {
	r := c.R
	cb := &redisShFail[c.Index%len(redisShFail)]
	rr := newRedisRun(c, vc, "redis-shape-effect")
	rej := 0
	for i := 0; i < shapeWarm+shapeEffect && !c.Violated(); i++ {
		v := rr.step(10*time.Millisecond, cb.mk(errSeq.Add(1)), cb.name(), false, r.Intn(3))
		if v < 0 {
			return
		}
		if v == vRejected && i >= shapeWarm {
			rej++
		}
	}
	c.Obs("redis_shape_effectiveness_runs", 1)
	shapeObs(c, "redis", cb, shapeWarm+shapeEffect)
	if !c.Violated() && rej*100 < shapeEffect*80 {
		c.Viol(cb.key("redis-breakerhook"),
			fmt.Sprintf("after a %d-command warm-up, %d consecutive commands answered with %s at 100 per virtual second: only %d rejected - they are recorded as successes (%s)", shapeWarm, shapeEffect, cb.name(), rej, cb.what()),
			map[string]any{"commands": shapeEffect, "rejected": rej, "shape": cb.name(), "reference": cb.what(), "statistical": true, "first_calls": rr.h.log[:80]})
	}
	c.Sig(true, "redis-shape-effect", cb.name(), rej)
	if c.Index == 0 {
		c.Sample("redis-shape-effect", 1, map[string]any{"shape": cb.name(), "reference": cb.what(), "commands": shapeEffect, "rejected": rej})
	}
	rr.h.finish()
}

// ------------------------------------------------------------------ sqlx

// sqlShapeEntry spreads the entry points over the (sentinel, shape) pairs: pair k is driven through
// entry (k + 3*round + round/2) mod 6 in round `round` (2 rounds in the quick tier: each pair through
// two entry points, each entry point with a third of the pairs; 12 rounds in the thorough tier: all).
func sqlShapeEntry(k, round int) string { return sqlEntries[(k+3*round+round/2)%len(sqlEntries)] }

func runSqlxShapeFlood(c *kit.Case, vc *kit.VClock) {
	r := c.R
	k, round := c.Index%len(sqlShOk), c.Index/len(sqlShOk)
	cl := &sqlShOk[k]
	entry := sqlShapeEntry(k, round)
	h := newSqlHist(c, vc, "sqlx-shape-flood", r.Intn(3))
	h.relabel = cl.shape.key("sqlx")
	defer h.finish()
	if (entry == "stmt-exec" || entry == "stmt-query") && !h.ensureStmt(0) {
		return
	}
	pre := r.Intn(6)
	for i := 0; i < pre && !c.Violated(); i++ {
		h.step(sqlOp{entry: "exec", cl: &sqlFailClasses[0], gap: time.Millisecond})
	}
	n := r.Range(60, 120)
	gap := kit.Choose(r, []time.Duration{0, time.Millisecond, 10 * time.Millisecond, 60 * time.Millisecond})
	for i := 0; i < n && !c.Violated(); i++ {
		op := sqlOp{entry: entry, cl: cl, gap: gap, variant: r.Intn(4)}
		if r.Bool() {
			op.ctx = cLive
		}
		h.step(op)
	}
	if c.Violated() {
		c.Sample("shape-misclassified", 2, map[string]any{"site": "sqlx", "entry": entry, "shape": cl.shape.name(), "reference": cl.shape.what()})
	}
	c.Obs("sqlx_shape_success_floods", 1)
	c.Obs("sqlx_shape_success_floods_"+entry, 1)
	shapeObs(c, "sqlx", cl.shape, int64(n))
	c.Sig(true, "sqlx-shape-flood", entry, cl.name, h.sides[0].cfg, pre, n, int64(gap), h.rej)
	if c.Index == 0 {
		c.Sample("sqlx-shape-flood", 1, map[string]any{"entry": entry, "shape": cl.shape.name(), "reference": cl.shape.what(), "calls": n, "rejected": h.rej})
	}
}

func runSqlxShapeEffect(c *kit.Case, vc *kit.VClock) {
	k, round := c.Index%len(sqlShFail), c.Index/len(sqlShFail)
	cl := &sqlShFail[k]
	entry := sqlShapeEntry(k, round)
	h := newSqlHist(c, vc, "sqlx-shape-effect", c.R.Intn(3))
	defer h.finish()
	if (entry == "stmt-exec" || entry == "stmt-query") && !h.ensureStmt(0) {
		return
	}
	rej := 0
	for i := 0; i < shapeWarm+shapeEffect && !c.Violated(); i++ {
		op := sqlOp{entry: entry, cl: cl, gap: 10 * time.Millisecond, variant: c.R.Intn(4)}
		if c.R.Chance(0.3) {
			op.ctx = cLive
		}
		if h.step(op) == vRejected && i >= shapeWarm {
			rej++
		}
	}
	c.Obs("sqlx_shape_effectiveness_runs", 1)
	c.Obs("sqlx_shape_effectiveness_runs_"+entry, 1)
	shapeObs(c, "sqlx", cl.shape, shapeWarm+shapeEffect)
	if !c.Violated() && rej*100 < shapeEffect*80 {
		c.Viol(cl.shape.key("sqlx"),
			fmt.Sprintf("after a %d-call warm-up, %d consecutive %s calls that end with %s at 100 per virtual second: only %d rejected - they are recorded as successes (%s)", shapeWarm, shapeEffect, entry, cl.shape.name(), rej, cl.shape.what()),
			map[string]any{"calls": shapeEffect, "rejected": rej, "entry": entry, "shape": cl.shape.name(), "reference": cl.shape.what(), "conn": h.sides[0].label, "statistical": true, "first_calls": h.log[:80]})
	}
	c.Sig(true, "sqlx-shape-effect", entry, cl.name, rej)
	if c.Index == 0 {
		c.Sample("sqlx-shape-effect", 1, map[string]any{"entry": entry, "shape": cl.shape.name(), "reference": cl.shape.what(), "calls": shapeEffect, "rejected": rej})
	}
}
