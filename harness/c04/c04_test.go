// Package c04: timeout control — deadlines only shrink, outcomes all-or-nothing
// (DESIGN.md §4 C04). Black-box part: rest/handler.TimeoutHandler, fx.DoWithTimeout and
// an end-to-end family through a real rest.Server on loopback.
//
// How an execution is observed. The wrapped work is a harness-owned *script*
// (set/add header, WriteHeader, Write chunk …, then return or panic). The
// http.ResponseWriter handed to go-zero is a harness-owned recorder that stamps
// (kit.Stamp) every call it receives and emulates what a net/http connection would
// send (first WriteHeader / first Write fixes the status and snapshots the headers).
// The expiry of the deadline is placed
//   - logically: the caller's context is cancelled by the work goroutine itself right
//     before action k ("inline"), by a second goroutine released right before action k
//     ("concurrent"), before the wrapper is called ("pre"), followed by the work
//     blocking until the wrapper has returned ("block": causal release, DESIGN §3.5) or
//     until the wrapper is inside the recorder's WriteHeader/Write ("stall": the
//     copy-out under the wrapper's mutex is in progress while the work keeps acting);
//   - by real timers of 1–20 ms with work durations around the timeout ("timer").
//
// Verdicts never depend on a wall-clock threshold: an outcome is legal iff the events
// that make it possible were stamped before the wrapper's return stamp (complete
// result: the work had returned; timeout result: the caller's context had been
// cancelled, or the monotonic clock had passed the earliest deadline; panic: the work
// had panicked). Everything the harness shares between the work goroutine and the
// calling goroutine is guarded by a mutex, a channel or an atomic.
package c04

import (
	"bytes"
	"context"
	"errors"
	"fmt"
	"io"
	"net"
	"net/http"
	"runtime"
	"sort"
	"strings"
	"sync"
	"sync/atomic"
	"testing"
	"time"

	"github.com/zeromicro/go-zero/core/fx"
	"github.com/zeromicro/go-zero/core/logx"
	"github.com/zeromicro/go-zero/rest"
	"github.com/zeromicro/go-zero/rest/handler"

	"verifharness/kit"
)

const (
	timeoutBody = "Request Timeout"
	// patience of the causal "does not wait" check (DESIGN §3.5); doubled on the confirming re-run
	basePatience = 5 * time.Second
	// watchdog for joining harness-owned goroutines; firing => inconclusive
	joinWatchdog = 60 * time.Second
	// watchdog for the wrapper call itself (it runs on its own goroutine); firing => inconclusive,
	// and the rest of this process's cases are skipped (a wrapper that never returns cannot be joined)
	wrapWatchdog = 40 * time.Second
)

// stuck is set when a wrapper call did not return within wrapWatchdog.
var stuck atomic.Bool

// leakReports counts the cases of this process that reported leaked goroutines.
var leakReports atomic.Int32

func skipIfStuck(c *kit.Case) bool {
	if stuck.Load() {
		c.Inconclusive("skipped: an earlier wrapper call in this process never returned")
		return true
	}
	return false
}

// awaitWrapper waits for the goroutine that called the wrapper.
func awaitWrapper(ch <-chan struct{}) bool {
	t := time.NewTimer(wrapWatchdog)
	defer t.Stop()
	select {
	case <-ch:
		return true
	case <-t.C:
		stuck.Store(true)
		return false
	}
}

// waitBroken is set once a "wrapper waits for the work" violation has been established
// in this process: later executions then release blocked work after a short patience
// so that a broken tree does not cost (cases × patience) of wall time.
var waitBroken atomic.Bool

func patience() time.Duration {
	if waitBroken.Load() {
		return 30 * time.Millisecond
	}
	return basePatience
}

// blockUntil waits for ch; false = patience ran out (the blocked party releases itself).
func blockUntil(ch <-chan struct{}, p time.Duration) bool {
	select {
	case <-ch:
		return true
	default:
	}
	t := time.NewTimer(p)
	defer t.Stop()
	select {
	case <-ch:
		return true
	case <-t.C:
		return false
	}
}

// ---------------------------------------------------------------- scripts and plans

type action struct {
	K     string        `json:"k"` // set | add | status | write | sleep | yield | flush | push | hijack
	Key   string        `json:"key,omitempty"`
	Val   string        `json:"val,omitempty"`
	Code  int           `json:"code,omitempty"`
	Chunk string        `json:"chunk,omitempty"`
	Dur   time.Duration `json:"dur,omitempty"`
}

func (a action) short() string {
	switch a.K {
	case "set", "add":
		return a.K + ":" + a.Key
	case "status":
		return fmt.Sprintf("status:%d", a.Code)
	case "write":
		return fmt.Sprintf("write:%d", len(a.Chunk))
	case "sleep":
		return "sleep"
	}
	return a.K
}

type script struct {
	Actions []action `json:"actions"`
	Panic   bool     `json:"panic"` // terminal: panic instead of return
	Tag     string   `json:"tag"`
}

func (s script) shape() string {
	var sb strings.Builder
	for _, a := range s.Actions {
		sb.WriteString(a.short())
		sb.WriteByte(' ')
	}
	if s.Panic {
		sb.WriteString("PANIC")
	} else {
		sb.WriteString("RET")
	}
	return sb.String()
}

type plan struct {
	Mode        string        `json:"mode"` // none | pre | inline | concurrent | block | stall | timer | timer-block
	Pos         int           `json:"pos"`  // the expiry is placed before action Pos (len(actions) = before the terminal)
	StallAt     int           `json:"stall_at,omitempty"`
	Jitter      int           `json:"jitter,omitempty"`
	Timeout     time.Duration `json:"timeout"`
	ParentAfter time.Duration `json:"parent_deadline_after,omitempty"` // 0 = caller has no deadline
	Exempt      string        `json:"exempt,omitempty"`                // "" | websocket | sse
	// InCopy (mode block, action Pos is a write): the chunk is written with io.Copy(w, reader) and the
	// reader expires the context and blocks in the MIDDLE of the stream - a writer that offers
	// io.ReaderFrom is inside that one call while the deadline fires and the wrapper has to return.
	InCopy bool `json:"in_copy,omitempty"`
	// extensions (ext_test.go)
	ParentKind  string              `json:"parent_kind,omitempty"`  // grid families: none | earlier | later | cancelled-before | cancelled-during | value
	WorkKind    string              `json:"work_kind,omitempty"`    // grid families: fast | honours | ignores | panic-before | panic-after
	ParentValue bool                `json:"parent_value,omitempty"` // the caller's context carries a value
	Writer      string              `json:"writer,omitempty"`       // client writer variant: "" (plain) | flusher | full | push-hijack
	ReqHeader   map[string][]string `json:"req_header,omitempty"`   // extra request headers (odd spellings of the exemption headers)
	MaybeExempt bool                `json:"maybe_exempt,omitempty"` // the statement does not say whether this spelling is exempt: either treatment is legal
	PreCancel   bool                `json:"pre_cancel,omitempty"`   // the caller's context is cancelled before the call (Mode then only says what the work does)
}

var statusPool = []int{200, 201, 202, 301, 400, 403, 404, 418, 429, 500, 502, 503, 599}
var hdrKeys = []string{"X-Verif-A", "X-Verif-B", "X-Verif-C", "Content-Type", "Set-Cookie"}

func filler(r *kit.Rand, n int) string {
	b := make([]byte, n)
	for i := range b {
		b[i] = byte('a' + r.Intn(26))
	}
	return string(b)
}

// genScript: 0–6 writes, 0–3 header operations (mostly before the first write, sometimes
// late), explicit or implicit status, occasionally a superfluous second status.
func genScript(r *kit.Rand, tag string, withSleeps bool) script {
	var s script
	s.Tag = tag
	nh := r.Pick(3, 3, 2, 1)
	nw := r.Pick(2, 4, 3, 2, 1, 1, 1)
	explicit := r.Chance(0.55)
	var pre, post []action
	for i := 0; i < nh; i++ {
		k := "set"
		if r.Chance(0.3) {
			k = "add"
		}
		a := action{K: k, Key: kit.Choose(r, hdrKeys), Val: fmt.Sprintf("%s-h%d-%s", tag, i, filler(r, 3))}
		if r.Chance(0.15) && nw > 0 {
			post = append(post, a)
		} else {
			pre = append(pre, a)
		}
	}
	s.Actions = append(s.Actions, pre...)
	if explicit {
		s.Actions = append(s.Actions, action{K: "status", Code: kit.Choose(r, statusPool)})
	}
	sizes := []int{0, 1, 7, 64, 700, 5000}
	for i := 0; i < nw; i++ {
		n := sizes[r.Pick(1, 3, 4, 3, 2, 1)]
		s.Actions = append(s.Actions, action{K: "write", Chunk: fmt.Sprintf("[%s-w%d:%s]", tag, i, filler(r, n))})
		if len(post) > 0 && r.Chance(0.6) {
			s.Actions = append(s.Actions, post[0])
			post = post[1:]
		}
		if r.Chance(0.04) {
			s.Actions = append(s.Actions, action{K: "status", Code: kit.Choose(r, statusPool)}) // superfluous
		}
	}
	s.Actions = append(s.Actions, post...)
	if r.Chance(0.1) {
		// a yield somewhere shuffles the schedule
		i := r.Intn(len(s.Actions) + 1)
		s.Actions = append(s.Actions[:i], append([]action{{K: "yield"}}, s.Actions[i:]...)...)
	}
	s.Panic = r.Chance(0.15)
	_ = withSleeps
	return s
}

// expected is the complete result of a script under net/http semantics.
type expected struct {
	Status int
	Early  http.Header // header operations before the commit point (first status/write)
	Full   http.Header // all header operations (go-zero buffers headers until completion)
	Body   string
	// AltStatus: other statuses the statement leaves open. A script whose first status is an
	// informational 1xx code: net/http would send it as an interim response and the first
	// non-1xx status (or the implicit 200) as the final one, go-zero buffers the first code.
	AltStatus []int
}

func (e expected) statusOK(code int) bool {
	if code == e.Status {
		return true
	}
	for _, a := range e.AltStatus {
		if a == code {
			return true
		}
	}
	return false
}

func expect(s script) expected {
	e := expected{Status: 200, Early: http.Header{}, Full: http.Header{}}
	committed := false
	var body strings.Builder
	for _, a := range s.Actions {
		switch a.K {
		case "set":
			if !committed {
				e.Early.Set(a.Key, a.Val)
			}
			e.Full.Set(a.Key, a.Val)
		case "add":
			if !committed {
				e.Early.Add(a.Key, a.Val)
			}
			e.Full.Add(a.Key, a.Val)
		case "status":
			if !committed {
				e.Status = a.Code
				committed = true
			}
		case "write":
			committed = true
			body.WriteString(a.Chunk)
		}
	}
	e.Body = body.String()
	if e.Status >= 100 && e.Status < 200 && e.Status != 101 {
		final := 200
		seenFirst := false
		for _, a := range s.Actions {
			if a.K == "write" {
				break
			}
			if a.K == "status" {
				if !seenFirst {
					seenFirst = true
					continue
				}
				if a.Code >= 200 || a.Code == 101 {
					final = a.Code
					break
				}
			}
		}
		e.AltStatus = append(e.AltStatus, final)
	}
	return e
}

// ---------------------------------------------------------------- recorder

type recCall struct {
	S    uint64 `json:"s"`
	Kind string `json:"kind"` // header | status | write | flush
	Code int    `json:"code,omitempty"`
	N    int    `json:"n,omitempty"`
	W    bool   `json:"work_bytes,omitempty"`   // write: the payload contains bytes of the work's chunks
	TO   bool   `json:"timeout_body,omitempty"` // write: the payload is exactly the timeout body
}

type stallCtl struct {
	at       int // stall inside the at-th status/write call (1-based)
	entered  chan struct{}
	proceed  chan struct{}
	workDone <-chan struct{}
	extra    int // yields after being released, still inside the call
	once     sync.Once
	gaveUp   atomic.Bool
	// onTO: stall inside the at-th call of the TIMEOUT RESULT (1 = its status 499/503, 2 = its body) instead
	// of the at-th status/write call overall (scripts that stream with Flush make earlier calls themselves)
	onTO bool
}

// recorder is the harness-owned http.ResponseWriter ("the client"). All of its state is
// guarded by mu; the header map it hands out is read only from inside WriteHeader/Write
// (i.e. on the goroutine of whoever writes to the client) and after all parties joined.
type recorder struct {
	mu     sync.Mutex
	hdr    http.Header
	calls  []recCall
	nwrite int // status+write calls so far
	wrote  bool
	status int
	sent   http.Header
	body   bytes.Buffer
	stall  *stallCtl
	jitter int
	mark   string // "[<tag>-w": prefix of every chunk of the work
	// lazyHdr (Flusher variants of ext_test.go): the header map is not read at the commit point but only
	// after all parties were joined. go-zero's Flush writes into this map without any lock; the harness
	// reading it concurrently would turn that defect into a fatal "concurrent map iteration and map write"
	// of the whole child process (as net/http's WriteHeader, which clones the map, does in production).
	lazyHdr bool
	pushes int
	hijack int
}

func newRecorder() *recorder { return &recorder{hdr: http.Header{}} }

func (r *recorder) Header() http.Header {
	r.mu.Lock()
	r.calls = append(r.calls, recCall{S: kit.Stamp(), Kind: "header"})
	r.mu.Unlock()
	return r.hdr
}

func (r *recorder) commitLocked(code int) {
	if !r.wrote {
		r.wrote = true
		r.status = code
		if !r.lazyHdr {
			r.sent = r.hdr.Clone()
		}
	}
}

func (r *recorder) pause(n, toCall int) {
	for i := 0; i < r.jitter; i++ {
		runtime.Gosched()
	}
	st := r.stall
	if st == nil {
		return
	}
	if st.onTO {
		if toCall != st.at {
			return
		}
	} else if n != st.at {
		return
	}
	st.once.Do(func() { close(st.entered) })
	t := time.NewTimer(10 * time.Second)
	select {
	case <-st.proceed:
	case <-st.workDone:
	case <-t.C:
		st.gaveUp.Store(true)
	}
	t.Stop()
	for i := 0; i < st.extra; i++ {
		runtime.Gosched()
	}
	if st.extra > 3 {
		time.Sleep(time.Duration(st.extra) * 20 * time.Microsecond)
	}
}

func (r *recorder) WriteHeader(code int) {
	r.mu.Lock()
	r.calls = append(r.calls, recCall{S: kit.Stamp(), Kind: "status", Code: code})
	r.commitLocked(code)
	r.nwrite++
	n := r.nwrite
	r.mu.Unlock()
	to := 0
	if code == 499 || code == 503 {
		to = 1
	}
	r.pause(n, to)
}

func (r *recorder) Write(p []byte) (int, error) {
	isTO := string(p) == timeoutBody
	r.mu.Lock()
	r.calls = append(r.calls, recCall{S: kit.Stamp(), Kind: "write", N: len(p), TO: isTO,
		W: r.mark != "" && bytes.Contains(p, []byte(r.mark))})
	r.commitLocked(200)
	r.body.Write(p)
	r.nwrite++
	n := r.nwrite
	r.mu.Unlock()
	to := 0
	if isTO {
		to = 2
	}
	r.pause(n, to)
	return len(p), nil
}

// flushed records a Flush that reached "the connection" (writer variants of ext_test.go).
func (r *recorder) flushed() {
	r.mu.Lock()
	r.calls = append(r.calls, recCall{S: kit.Stamp(), Kind: "flush"})
	r.commitLocked(200)
	r.mu.Unlock()
}

type recState struct {
	Wrote  bool
	Status int
	Sent   http.Header
	Body   string
	Calls  []recCall
	Live   http.Header
}

// snapshot must only be called after the wrapper returned and the work goroutine was joined.
func (r *recorder) snapshot() recState {
	r.mu.Lock()
	defer r.mu.Unlock()
	if r.lazyHdr && r.wrote {
		r.sent = r.hdr.Clone()
	}
	return recState{Wrote: r.wrote, Status: r.status, Sent: r.sent.Clone(), Body: r.body.String(),
		Calls: append([]recCall(nil), r.calls...), Live: r.hdr.Clone()}
}

// ---------------------------------------------------------------- one REST execution

type workEv struct {
	S0, S1 uint64 // stamps before / after the action
	I      int
	K      string
	Err    string
}

type restExec struct {
	sc  script
	pl  plan
	exp expected
	rec *recorder
	w   http.ResponseWriter // what is handed to the wrapper: rec itself or a writer variant around it (ext_test.go)

	parent       context.Context
	cancel       context.CancelFunc
	parentDl     time.Time
	hasParentDl  bool
	wrapperRet   chan struct{}
	workDone     chan struct{}
	flag         chan struct{} // concurrent mode: raised by the work right before action Pos
	cancellerEnd chan struct{}
	giveUp       chan struct{}
	cancelS      atomic.Uint64
	patience     time.Duration

	// written by the work goroutine before close(workDone), read after <-workDone
	started                bool
	t1                     time.Time
	seenDl                 time.Time
	seenOk                 bool
	sameWriter             bool
	sameCtx                bool
	ctxErrAfter            string // ctx.Err() seen by the work right after an inline cancel
	evs                    []workEv
	workRetS               uint64
	workPanicS             uint64
	blockTimeout           bool
	blockKind              string
	lateOK                 int
	lateRejected           int
	copiesWithExpiryInside int
	valueSeen              bool

	// written by the calling goroutine
	t0, tRet time.Time
	retS     uint64
	panicked bool
	panicVal any
	joined   bool
}

func (x *restExec) panicValue() string { return "verif-panic-" + x.sc.Tag }

func (x *restExec) expire(ctx context.Context) {
	switch x.pl.Mode {
	case "inline":
		x.cancelS.Store(kit.Stamp())
		x.cancel()
		if err := ctx.Err(); err != nil {
			x.ctxErrAfter = err.Error()
		} else {
			x.ctxErrAfter = "nil"
		}
	case "concurrent":
		close(x.flag)
		for i := 0; i < x.pl.Jitter; i++ {
			runtime.Gosched()
		}
	case "block":
		x.cancelS.Store(kit.Stamp())
		x.cancel()
		x.blockKind = "wrapper-return"
		if !blockUntil(x.wrapperRet, x.patience) {
			x.blockTimeout = true
		}
	case "timer-block":
		x.blockKind = "wrapper-return"
		if !blockUntil(x.wrapperRet, x.patience) {
			x.blockTimeout = true
		}
	case "timer-wait-ctx":
		// work that honours its context: goes on once it is done (a real deadline, nobody cancels)
		x.blockKind = "work-context-done"
		t := time.NewTimer(x.patience)
		select {
		case <-ctx.Done():
		case <-x.wrapperRet:
		case <-t.C:
			x.blockTimeout = true
		}
		t.Stop()
	case "stall":
		x.cancelS.Store(kit.Stamp())
		x.cancel()
		x.blockKind = "wrapper-in-writer"
		st := x.rec.stall
		t := time.NewTimer(x.patience)
		select {
		case <-st.entered:
		case <-x.wrapperRet:
		case <-t.C:
			x.blockTimeout = true
		}
		t.Stop()
		close(st.proceed)
	}
}

// midCopyReader hands out the first half of data, then expires the context the way the plan says
// (mode block: cancel, then wait until the wrapper has returned), then the rest.
type midCopyReader struct {
	x     *restExec
	ctx   context.Context
	data  []byte
	state int
}

func (m *midCopyReader) Read(p []byte) (int, error) {
	switch m.state {
	case 0:
		m.state = 1
		n := copy(p, m.data[:len(m.data)/2])
		m.data = m.data[n:]
		if n > 0 {
			return n, nil
		}
		fallthrough
	case 1:
		m.state = 2
		m.x.expire(m.ctx)
		n := copy(p, m.data)
		m.data = m.data[n:]
		if n > 0 {
			return n, nil
		}
		return 0, io.EOF
	}
	if len(m.data) > 0 {
		n := copy(p, m.data)
		m.data = m.data[n:]
		return n, nil
	}
	return 0, io.EOF
}

func (x *restExec) serve(w http.ResponseWriter, r *http.Request) {
	defer close(x.workDone)
	x.started = true
	x.t1 = time.Now()
	ctx := r.Context()
	x.seenDl, x.seenOk = ctx.Deadline()
	x.sameWriter = sameWriter(w, x.w)
	x.sameCtx = ctx == x.parent
	x.valueSeen = ctx.Value(ctxKey{}) == any(x.sc.Tag)
	expired := false
	for i, a := range x.sc.Actions {
		inCopy := x.pl.InCopy && x.pl.Pos == i && a.K == "write"
		if x.pl.Pos == i && !inCopy {
			x.expire(ctx)
			expired = true
		}
		ev := workEv{I: i, K: a.K, S0: kit.Stamp()}
		switch a.K {
		case "set":
			w.Header().Set(a.Key, a.Val)
		case "add":
			w.Header().Add(a.Key, a.Val)
		case "status":
			w.WriteHeader(a.Code)
		case "write":
			var err error
			if inCopy {
				_, err = io.Copy(w, &midCopyReader{x: x, ctx: ctx, data: []byte(a.Chunk)})
				expired = true
				x.copiesWithExpiryInside++
			} else {
				_, err = w.Write([]byte(a.Chunk))
			}
			if err != nil {
				ev.Err = err.Error()
			}
			if expired && !inCopy && (x.pl.Mode == "block" || x.pl.Mode == "timer-block") {
				if err != nil {
					x.lateRejected++
				} else {
					x.lateOK++
				}
			}
		case "sleep":
			time.Sleep(a.Dur)
		case "yield":
			runtime.Gosched()
		case "flush":
			if f, ok := w.(http.Flusher); ok {
				f.Flush()
			} else {
				ev.Err = "not a Flusher"
			}
		case "push":
			if p, ok := w.(http.Pusher); ok {
				if err := p.Push("/verif-push/"+x.sc.Tag, nil); err != nil {
					ev.Err = err.Error()
				}
			} else {
				ev.Err = "not a Pusher"
			}
		case "hijack":
			if h, ok := w.(http.Hijacker); ok {
				if _, _, err := h.Hijack(); err != nil {
					ev.Err = err.Error()
				}
			} else {
				ev.Err = "not a Hijacker"
			}
		}
		ev.S1 = kit.Stamp()
		x.evs = append(x.evs, ev)
	}
	if x.pl.Pos >= len(x.sc.Actions) {
		x.expire(ctx)
	}
	if x.sc.Panic {
		x.workPanicS = kit.Stamp()
		panic(x.panicValue())
	}
	x.workRetS = kit.Stamp()
}

func newRestExec(sc script, pl plan) *restExec {
	x := &restExec{sc: sc, pl: pl, exp: expect(sc), rec: newRecorder(),
		wrapperRet: make(chan struct{}), workDone: make(chan struct{}), flag: make(chan struct{}),
		cancellerEnd: make(chan struct{}), giveUp: make(chan struct{}), patience: patience()}
	x.rec.jitter = pl.Jitter
	x.rec.mark = "[" + sc.Tag + "-w"
	x.w = writerVariant(pl.Writer, x.rec)
	if pl.Mode == "stall" {
		at := pl.StallAt
		if at < 1 {
			at = 1
		}
		x.rec.stall = &stallCtl{at: at, entered: make(chan struct{}), proceed: make(chan struct{}), workDone: x.workDone, extra: pl.Jitter}
	}
	return x
}

// run performs the execution against h (the go-zero wrapper around x.serve). It returns
// false if the harness could not join its own goroutines (inconclusive).
func (x *restExec) run(h http.Handler) bool {
	base := context.Background()
	var cancels []context.CancelFunc
	if x.pl.ParentAfter > 0 {
		x.parentDl = time.Now().Add(x.pl.ParentAfter)
		x.hasParentDl = true
		c, cf := context.WithDeadline(base, x.parentDl)
		base = c
		cancels = append(cancels, cf)
	}
	if x.pl.ParentValue {
		base = context.WithValue(base, ctxKey{}, x.sc.Tag)
	}
	x.parent, x.cancel = context.WithCancel(base)
	defer func() {
		x.cancel()
		for _, cf := range cancels {
			cf()
		}
	}()
	req, _ := http.NewRequestWithContext(x.parent, http.MethodGet, "http://verif.local/c04", nil)
	for k, vv := range x.pl.ReqHeader {
		req.Header[k] = append([]string(nil), vv...)
	}
	switch x.pl.Exempt {
	case "websocket":
		req.Header.Set("Upgrade", "websocket")
	case "sse":
		req.Header.Set("Accept", "text/event-stream")
	}
	if x.pl.Mode == "concurrent" {
		go func() {
			defer close(x.cancellerEnd)
			select {
			case <-x.flag:
			case <-x.giveUp:
				return
			}
			x.cancelS.Store(kit.Stamp())
			x.cancel()
		}()
	} else {
		close(x.cancellerEnd)
	}
	if x.pl.Mode == "pre" || x.pl.PreCancel {
		x.cancelS.Store(kit.Stamp())
		x.cancel()
	}
	x.t0 = time.Now()
	go func() {
		defer func() {
			if p := recover(); p != nil {
				x.panicked = true
				x.panicVal = p
			}
			x.retS = kit.Stamp()
			x.tRet = time.Now()
			close(x.wrapperRet)
		}()
		h.ServeHTTP(x.w, req)
	}()
	if !awaitWrapper(x.wrapperRet) {
		close(x.giveUp)
		return false
	}
	t := time.NewTimer(joinWatchdog)
	defer t.Stop()
	select {
	case <-x.workDone:
		x.joined = true
	case <-t.C:
		stuck.Store(true)
		close(x.giveUp)
		return false
	}
	close(x.giveUp)
	select {
	case <-x.cancellerEnd:
	case <-t.C:
		stuck.Store(true)
		return false
	}
	return true
}

func hdrEq(a, b []string) bool {
	if len(a) != len(b) {
		return false
	}
	for i := range a {
		if a[i] != b[i] {
			return false
		}
	}
	return true
}

// headersMatch: every key carries either the value list it had at the commit point or the
// one it had when the work returned (headers set after the first write may or may not be
// sent: the statement does not say), and no other key is present.
func headersMatch(sent http.Header, e expected) bool {
	keys := map[string]bool{}
	for k, v := range sent {
		if len(v) > 0 {
			keys[k] = true
		}
	}
	for k := range e.Early {
		keys[k] = true
	}
	for k := range e.Full {
		keys[k] = true
	}
	for k := range keys {
		obs := sent[k]
		if len(obs) == 0 {
			obs = nil
		}
		if !hdrEq(obs, e.Early[k]) && !hdrEq(obs, e.Full[k]) {
			return false
		}
	}
	return true
}

func hasWorkHeader(sent http.Header, e expected) bool {
	for k, v := range sent {
		if len(v) == 0 {
			continue
		}
		if _, ok := e.Full[k]; ok {
			return true
		}
	}
	return false
}

type verdict struct {
	Outcome   string // complete | timeout | panic | none
	Contended bool
	Sig       string
}

type reporter struct {
	c      *kit.Case
	family string
}

func (rp reporter) viol(kind, class, what string, w any) {
	rp.c.Viol("C04/"+rp.family+"/"+kind+"/"+class, what, w)
}

func (x *restExec) witness(st recState) map[string]any {
	return map[string]any{
		"script": x.sc, "plan": x.pl, "expected_complete": map[string]any{"status": x.exp.Status, "headers_at_commit": x.exp.Early, "headers_all": x.exp.Full, "body_len": len(x.exp.Body)},
		"client_saw":     map[string]any{"wrote": st.Wrote, "status": st.Status, "headers": st.Sent, "body": clip(st.Body, 400), "body_len": len(st.Body), "live_header_map_after_join": st.Live},
		"recorder_calls": st.Calls, "work_events": x.evs, "cancel_stamp": x.cancelS.Load(), "wrapper_return_stamp": x.retS,
		"work_return_stamp": x.workRetS, "work_panic_stamp": x.workPanicS, "wrapper_panicked": x.panicked, "wrapper_panic_value": fmt.Sprint(x.panicVal),
		"deadline_seen": fmtDl(x.seenDl, x.seenOk), "t0": x.t0.Format(time.RFC3339Nano), "t1": x.t1.Format(time.RFC3339Nano),
		"elapsed_at_return": x.tRet.Sub(x.t0).String(), "block_patience_ran_out": x.blockTimeout,
	}
}

func fmtDl(t time.Time, ok bool) string {
	if !ok {
		return "none"
	}
	return t.Format(time.RFC3339Nano)
}

func clip(s string, n int) string {
	if len(s) <= n {
		return s
	}
	return s[:n] + fmt.Sprintf("…(+%d bytes)", len(s)-n)
}

// earliestDeadline is the earliest instant at which a deadline (the caller's, or
// t0+timeout) may legally have expired; t0 was read before the wrapper was called, so the
// wrapper's own deadline cannot be earlier than t0+timeout.
func earliestDeadline(t0 time.Time, timeout time.Duration, parentDl time.Time, hasParent bool) time.Time {
	d := t0.Add(timeout)
	if hasParent && parentDl.Before(d) {
		d = parentDl
	}
	return d
}

// evaluate applies the oracle to one joined execution.
func (x *restExec) evaluate(rp reporter) verdict {
	c := rp.c
	st := x.rec.snapshot()
	mode := x.pl.Mode
	if x.pl.Exempt != "" {
		mode = "exempt-" + x.pl.Exempt + "-" + mode
	}
	var v verdict
	cancelS := x.cancelS.Load()
	cancelled := cancelS != 0 && cancelS < x.retS
	deadlinePassed := !x.tRet.Before(earliestDeadline(x.t0, x.pl.Timeout, x.parentDl, x.hasParentDl))
	workReturned := x.workRetS != 0 && x.workRetS < x.retS
	workPanicked := x.workPanicS != 0 && x.workPanicS < x.retS

	// (1) deadline shrink
	if x.pl.Exempt == "" {
		c.Obs("deadline_checks", 1)
		switch {
		case !x.seenOk:
			rp.viol("deadline", "none-seen", "the work ran under a context without any deadline", x.witness(st))
		case x.hasParentDl && x.seenDl.After(x.parentDl):
			rp.viol("deadline", "later-than-caller", fmt.Sprintf("the work saw deadline %s, later than the caller's %s", fmtDl(x.seenDl, true), fmtDl(x.parentDl, true)), x.witness(st))
		case x.seenDl.After(x.t1.Add(x.pl.Timeout)):
			rp.viol("deadline", "later-than-now+timeout", fmt.Sprintf("the work saw deadline %s, later than (time the work started)+timeout = %s", fmtDl(x.seenDl, true), fmtDl(x.t1.Add(x.pl.Timeout), true)), x.witness(st))
		}
		if x.hasParentDl && x.seenOk && x.seenDl.Equal(x.parentDl) {
			c.Obs("deadline_clamped_to_caller", 1)
		}
		if x.ctxErrAfter == "nil" {
			c.Obs("work_ctx_not_cancelled_by_caller_cancel", 1)
		}
	} else {
		// exempt requests get the caller's context and the raw writer
		c.Obs("exempt_checks", 1)
		if x.seenOk != x.hasParentDl || (x.seenOk && !x.seenDl.Equal(x.parentDl)) {
			rp.viol("exempt", "deadline-imposed-"+x.pl.Exempt, fmt.Sprintf("exempt request (%s) ran under deadline %s, caller's was %s", x.pl.Exempt, fmtDl(x.seenDl, x.seenOk), fmtDl(x.parentDl, x.hasParentDl)), x.witness(st))
		}
		if x.pl.Exempt == "nonpositive" {
			// a timeout <= 0 disables the wrapper: nothing may be held back (decided from the stamps: every
			// write of the work reached the client writer before the write returned)
			if i := x.firstBufferedWrite(st); i >= 0 {
				rp.viol("exempt", "buffered-nonpositive", fmt.Sprintf("timeout %s <= 0: write action %d of the work had not reached the client writer when it returned", x.pl.Timeout, i), x.witness(st))
			}
		} else if !x.sameWriter {
			rp.viol("exempt", "writer-wrapped-"+x.pl.Exempt, "exempt request did not get the raw ResponseWriter", x.witness(st))
		}
	}

	// (3) nothing reaches the client after the wrapper returned
	for _, cl := range st.Calls {
		if cl.S > x.retS && cl.Kind != "header" {
			rp.viol("after-return", cl.Kind+"/"+mode, fmt.Sprintf("the underlying writer received %s (stamp %d) after the wrapper had returned (stamp %d)", cl.Kind, cl.S, x.retS), x.witness(st))
			break
		}
	}

	if x.pl.Exempt != "" && !st.Wrote && !x.panicked {
		// raw writer and a work that never wrote: net/http sends an implicit 200 with the
		// headers present when the handler returns
		st.Wrote, st.Status, st.Sent = true, 200, st.Live
	}

	// (2) all-or-nothing
	isTimeoutStatus := st.Status == 499 || st.Status == 503
	matchComplete := st.Wrote && x.exp.statusOK(st.Status) && st.Body == x.exp.Body && headersMatch(st.Sent, x.exp)
	matchTimeout := st.Wrote && isTimeoutStatus && st.Body == timeoutBody && len(nonEmpty(st.Sent)) == 0
	switch {
	case x.panicked:
		v.Outcome = "panic"
		if !workPanicked {
			rp.viol("panic", "unexpected/"+mode, fmt.Sprintf("the wrapper panicked (%v) although the work had not panicked", x.panicVal), x.witness(st))
		} else if s, ok := x.panicVal.(string); !ok || !strings.Contains(s, x.panicValue()) {
			rp.viol("panic", "value-lost/"+mode, fmt.Sprintf("the wrapper re-raised %v, the work panicked with %q", x.panicVal, x.panicValue()), x.witness(st))
		}
		if st.Wrote && x.pl.Exempt == "" {
			rp.viol("mixture", "output-before-panic/"+mode, "the wrapper re-raised the work's panic but had written to the client", x.witness(st))
		}
	case !st.Wrote:
		v.Outcome = "none"
		rp.viol("no-result", mode, "the wrapper returned normally without writing anything to the client", x.witness(st))
	case matchComplete:
		v.Outcome = "complete"
		if !workReturned {
			rp.viol("complete-before-work-returned", mode, "the client saw the complete result although the work had not returned when the wrapper returned", x.witness(st))
		}
	case matchTimeout && x.pl.Exempt == "":
		v.Outcome = "timeout"
		switch {
		case !cancelled && !deadlinePassed:
			rp.viol("timeout-result-without-expiry", mode, fmt.Sprintf("the client saw %d %q but the caller's context was not cancelled and no deadline had passed (elapsed %s, timeout %s)", st.Status, st.Body, x.tRet.Sub(x.t0), x.pl.Timeout), x.witness(st))
		case cancelled && !deadlinePassed && st.Status != 499:
			rp.viol("timeout-status", fmt.Sprintf("%d-on-cancel", st.Status), "the caller's context was cancelled (no deadline had passed) but the status is not 499", x.witness(st))
		case !cancelled && deadlinePassed && st.Status != 503:
			rp.viol("timeout-status", fmt.Sprintf("%d-on-deadline", st.Status), "a deadline passed (no cancellation) but the status is not 503", x.witness(st))
		}
	default:
		v.Outcome = "mixture"
		kind := "other"
		hasTO := strings.Contains(st.Body, timeoutBody)
		workBytes := strings.Contains(st.Body, "["+x.sc.Tag+"-w")
		switch {
		case isTimeoutStatus && st.Body == timeoutBody && hasWorkHeader(st.Sent, x.exp):
			kind = "work-headers-on-timeout-result"
		case hasTO && workBytes:
			kind = "work-body-and-timeout-body"
		case hasTO && st.Status == x.exp.Status && !isTimeoutStatus:
			kind = "work-status-with-timeout-body"
		case !hasTO && st.Status == x.exp.Status && headersMatch(st.Sent, x.exp) && strings.HasPrefix(x.exp.Body, st.Body):
			kind = "partial-body"
		case !hasTO && st.Status == x.exp.Status && st.Body == x.exp.Body:
			kind = "headers-differ"
		case !hasTO && st.Body == x.exp.Body && headersMatch(st.Sent, x.exp):
			kind = "status-differs"
		}
		rp.viol("mixture", kind+"/"+mode, fmt.Sprintf("the client saw neither the complete result (%d, %d body bytes) nor the timeout result: status %d, headers %v, body %q", x.exp.Status, len(x.exp.Body), st.Status, st.Sent, clip(st.Body, 120)), x.witness(st))
	}
	c.Obs("outcome_"+v.Outcome, 1)
	c.Obs("outcome_"+v.Outcome+"_"+x.pl.Mode, 1)

	// the live header map must not change after the response was committed by anything
	// but the wrapper's own copy (checked after all parties joined)
	if v.Outcome == "timeout" && len(nonEmpty(st.Live)) != 0 {
		rp.viol("mixture", "work-headers-in-writer-map-after-timeout/"+mode, fmt.Sprintf("after a timeout result the underlying writer's header map holds %v", st.Live), x.witness(st))
	}

	// contended: a work action (or the work's return/panic) was stamped between the expiry and the wrapper's return
	expS := cancelS
	if expS == 0 && v.Outcome == "timeout" {
		for _, cl := range st.Calls {
			if cl.Kind != "header" {
				expS = cl.S
				break
			}
		}
	}
	if expS != 0 && expS < x.retS {
		for _, e := range x.evs {
			if (e.S0 > expS && e.S0 < x.retS) || (e.S1 > expS && e.S1 < x.retS) {
				v.Contended = true
				break
			}
		}
		if (x.workRetS > expS && x.workRetS < x.retS) || (x.workPanicS > expS && x.workPanicS < x.retS) {
			v.Contended = true
		}
	}
	if expS == 0 && v.Outcome == "complete" && deadlinePassed {
		v.Contended = true // the deadline had passed, completion won
	}
	if v.Contended {
		c.Obs("contended", 1)
	}
	if v.Outcome == "timeout" && expS != 0 {
		for _, e := range x.evs {
			if e.K == "write" && e.S0 > expS {
				if e.Err == "" {
					c.Obs("write_after_expiry_accepted_then_discarded", 1)
				} else {
					c.Obs("write_after_expiry_rejected", 1)
				}
			}
		}
	}
	c.Obs("late_write_rejected", int64(x.lateRejected))
	c.Obs("rest_io_copy_with_expiry_inside_the_stream", int64(x.copiesWithExpiryInside))
	c.Obs("late_write_accepted_discarded", int64(x.lateOK))
	if x.rec.stall != nil {
		select {
		case <-x.rec.stall.entered:
			c.Obs("stalled_inside_writer", 1)
		default:
		}
		if x.rec.stall.gaveUp.Load() {
			c.Obs("stall_gave_up", 1)
		}
	}
	v.Sig = x.interleaving(st)
	return v
}

func nonEmpty(h http.Header) http.Header {
	o := http.Header{}
	for k, v := range h {
		if len(v) > 0 {
			o[k] = v
		}
	}
	return o
}

// interleaving is the merged order of (actor, event) pairs of this execution.
func (x *restExec) interleaving(st recState) string {
	type ev struct {
		s uint64
		n string
	}
	var all []ev
	for _, e := range x.evs {
		all = append(all, ev{e.S0, "w:" + e.K}, ev{e.S1, "w:/" + e.K})
	}
	for _, cl := range st.Calls {
		all = append(all, ev{cl.S, "c:" + cl.Kind})
	}
	if s := x.cancelS.Load(); s != 0 {
		all = append(all, ev{s, "x:cancel"})
	}
	if x.workRetS != 0 {
		all = append(all, ev{x.workRetS, "w:ret"})
	}
	if x.workPanicS != 0 {
		all = append(all, ev{x.workPanicS, "w:panic"})
	}
	all = append(all, ev{x.retS, "r:ret"})
	sort.Slice(all, func(i, j int) bool { return all[i].s < all[j].s })
	var sb strings.Builder
	for _, e := range all {
		sb.WriteString(e.n)
		sb.WriteByte(';')
	}
	return sb.String()
}

// waitCheck handles an execution whose blocked work ran out of patience: the wrapper had
// not returned (or not reached the client writer) although the context was done. The
// dependency is confirmed by re-running the same execution with doubled patience
// (DESIGN §3.5); reproduced => violation, otherwise inconclusive.
func waitCheck(rp reporter, what string, again func(p time.Duration) (timedOut, ok bool), witness func() any) {
	c := rp.c
	if waitBroken.Load() {
		c.Obs("wait_dependency_after_first_report", 1)
		return
	}
	timedOut, ok := again(2 * basePatience)
	switch {
	case !ok:
		c.Inconclusive("does-not-wait re-run could not be joined")
	case timedOut:
		waitBroken.Store(true)
		rp.viol("waits-for-work", what, fmt.Sprintf("the wrapper did not return while the work was blocked although the context was done: patience %s and again %s ran out, the wrapper returned only after the work was released", basePatience, 2*basePatience), witness())
	default:
		c.Inconclusive("wrapper did not return within patience once, not reproduced with doubled patience")
	}
}

// ---------------------------------------------------------------- REST families

func farTimeout(r *kit.Rand) (time.Duration, time.Duration) {
	t := kit.Choose(r, []time.Duration{time.Hour, 2 * time.Hour, 90 * time.Minute})
	p := kit.Choose(r, []time.Duration{0, 0, 30 * time.Minute, 3 * time.Hour, 61 * time.Minute})
	return t, p
}

func runRest(c *kit.Case, rp reporter, sc script, pl plan) (verdict, bool) {
	x := newRestExec(sc, pl)
	h := handler.TimeoutHandler(pl.Timeout)(http.HandlerFunc(x.serve))
	if !x.run(h) {
		c.Inconclusive(fmt.Sprintf("could not join the wrapper call or the work goroutine (mode %s)", pl.Mode))
		return verdict{}, false
	}
	v := x.evaluate(rp)
	if x.blockTimeout {
		st := x.rec.snapshot()
		waitCheck(rp, x.blockKind+"/"+pl.Mode, func(p time.Duration) (bool, bool) {
			y := newRestExec(sc, pl)
			y.patience = p
			hy := handler.TimeoutHandler(pl.Timeout)(http.HandlerFunc(y.serve))
			if !y.run(hy) {
				return false, false
			}
			return y.blockTimeout, true
		}, func() any { return x.witness(st) })
	}
	return v, true
}

// restCancelCase: one script, every expiry mode at every position.
func restCancelCase(c *kit.Case) {
	if skipIfStuck(c) {
		return
	}
	r := c.R
	rp := reporter{c, "rest"}
	tag := fmt.Sprintf("c%d", c.Index)
	sc := genScript(r, tag, false)
	n := len(sc.Actions)
	var plans []plan
	add := func(mode string, pos int) {
		t, p := farTimeout(r)
		pl := plan{Mode: mode, Pos: pos, Timeout: t, ParentAfter: p, Jitter: r.Pick(4, 2, 1, 1)}
		if mode == "stall" {
			pl.StallAt = 1 + r.Intn(2)
			pl.Jitter = r.Intn(6)
		}
		plans = append(plans, pl)
	}
	add("none", -1)
	add("pre", -1)
	for pos := 0; pos <= n; pos++ {
		add("inline", pos)
		add("concurrent", pos)
		add("concurrent", pos)
		add("block", pos)
		add("stall", pos)
		if pos < n && sc.Actions[pos].K == "write" {
			add("block", pos)
			plans[len(plans)-1].InCopy = true
		}
	}
	evals := int64(0)
	kit.WithLabel(c.ID, func() {
		for _, pl := range plans {
			v, ok := runRest(c, rp, sc, pl)
			if !ok {
				return
			}
			evals++
			c.Sig(v.Contended, "rest", sc.shape(), pl.Mode, pl.Pos, v.Outcome, v.Sig)
			if v.Contended {
				c.Sample("rest-contended", 1, map[string]any{"script": sc, "plan": pl, "outcome": v.Outcome, "interleaving": v.Sig})
			}
		}
	})
	c.Sample("rest-script", 1, map[string]any{"script": sc, "plans": len(plans)})
	c.Evals(evals)
	census(c, rp)
}

// leakKey names the innermost non-runtime frames of a leaked goroutine (the label line of
// the profile is dropped).
func leakKey(stack string) string {
	var keep []string
	for _, ln := range strings.Split(stack, "\n") {
		if !strings.Contains(ln, "verif_case") {
			keep = append(keep, ln)
		}
	}
	return kit.KeyPart(kit.TopFrames(strings.Join(keep, "\n"), 2))
}

func census(c *kit.Case, rp reporter) {
	if stuck.Load() {
		return // an unjoined wrapper call is reported as inconclusive, not as a leak
	}
	if leakReports.Load() >= 3 {
		c.Obs("census_skipped_after_leak_reports", 1) // a leaking tree would otherwise cost seconds per case
		return
	}
	// all harness-owned goroutines were joined; what is left of go-zero's goroutines is the
	// tail after the work function returned. Give it time to run (the machine may be heavily
	// loaded) before asking for a *stable* set of parked goroutines.
	for i := 0; i < 2000 && len(kit.LabelledGoroutines(c.ID)) != 0; i++ {
		time.Sleep(time.Millisecond)
	}
	leaked, conclusive := kit.Census(c.ID, 500*time.Millisecond, 5, 40*time.Second)
	c.Obs("census", 1)
	if !conclusive {
		c.Inconclusive("goroutine census did not stabilise")
		return
	}
	if len(leaked) > 0 {
		leakReports.Add(1)
	}
	for _, g := range leaked {
		rp.viol("leak", leakKey(g.Stack), fmt.Sprintf("%d goroutine(s) still parked with an identical stack after the work returned", g.Count), map[string]any{"stack": g.Stack, "count": g.Count})
	}
}

// restExemptCase: websocket-upgrade / event-stream requests bypass the timeout.
func restExemptCase(c *kit.Case) {
	if skipIfStuck(c) {
		return
	}
	r := c.R
	rp := reporter{c, "rest"}
	sc := genScript(r, fmt.Sprintf("x%d", c.Index), false)
	n := len(sc.Actions)
	evals := int64(0)
	kit.WithLabel(c.ID, func() {
		for _, ex := range []string{"websocket", "sse"} {
			for _, mode := range []string{"none", "pre", "inline", "concurrent"} {
				t, p := farTimeout(r)
				pl := plan{Mode: mode, Pos: r.Intn(n + 1), Timeout: t, ParentAfter: p, Exempt: ex}
				if r.Chance(0.3) {
					pl.Timeout = time.Duration(1+r.Intn(3)) * time.Millisecond // would fire if it were applied
				}
				v, ok := runRest(c, rp, sc, pl)
				if !ok {
					return
				}
				evals++
				c.Sig(false, "rest-exempt", sc.shape(), ex, mode, pl.Pos, v.Outcome)
			}
		}
	})
	c.Evals(evals)
	census(c, rp)
}

// restTimerCase: real timeouts of 1–20 ms, work durations around the timeout; several
// executions run concurrently (they mostly sleep). Both outcomes are legal at the boundary.
func restTimerCase(c *kit.Case) {
	if skipIfStuck(c) {
		return
	}
	r := c.R
	rp := reporter{c, "rest"}
	type job struct {
		sc script
		pl plan
		x  *restExec
		ok bool
	}
	const par = 8
	jobs := make([]*job, par)
	for i := range jobs {
		tag := fmt.Sprintf("t%d-%d", c.Index, i)
		sc := genScript(r, tag, true)
		sc.Panic = sc.Panic && r.Chance(0.5)
		timeout := time.Duration(1000+r.Intn(19000)) * time.Microsecond
		// total work duration = timeout * f, split into sleeps between the actions
		var f float64
		switch r.Pick(1, 1, 6, 1, 1) {
		case 0:
			f = 0
		case 1:
			f = 0.5
		case 2:
			f = 0.9 + 0.2*r.Float64()
		case 3:
			f = 1.5
		case 4:
			f = 1.02
		}
		total := time.Duration(float64(timeout)*f) / (10 * time.Microsecond) * (10 * time.Microsecond)
		pl := plan{Mode: "timer", Pos: -1, Timeout: timeout, Jitter: r.Pick(4, 1, 1)}
		if r.Chance(0.15) {
			pl.Mode, pl.Pos = "timer-block", r.Intn(len(sc.Actions)+1)
			total = 0
		}
		switch r.Pick(5, 2, 2) {
		case 1:
			pl.ParentAfter = timeout / 2 // caller's deadline earlier
		case 2:
			pl.ParentAfter = timeout * 3 // later
		}
		if total > 0 {
			k := 1 + r.Intn(3)
			var acts []action
			cuts := map[int]int{}
			for j := 0; j < k; j++ {
				cuts[r.Intn(len(sc.Actions)+1)]++
			}
			for j := 0; j <= len(sc.Actions); j++ {
				for q := 0; q < cuts[j]; q++ {
					acts = append(acts, action{K: "sleep", Dur: total / time.Duration(k)})
				}
				if j < len(sc.Actions) {
					acts = append(acts, sc.Actions[j])
				}
			}
			sc.Actions = acts
			if pl.Mode == "timer-block" {
				pl.Pos = r.Intn(len(sc.Actions) + 1)
			}
		}
		jobs[i] = &job{sc: sc, pl: pl}
	}
	kit.WithLabel(c.ID, func() {
		var wg sync.WaitGroup
		for _, j := range jobs {
			wg.Add(1)
			go func(j *job) {
				defer wg.Done()
				j.x = newRestExec(j.sc, j.pl)
				h := handler.TimeoutHandler(j.pl.Timeout)(http.HandlerFunc(j.x.serve))
				j.ok = j.x.run(h)
			}(j)
		}
		wg.Wait()
	})
	evals := int64(0)
	for _, j := range jobs {
		if !j.ok {
			c.Inconclusive("could not join the work goroutine (timer)")
			continue
		}
		v := j.x.evaluate(rp)
		evals++
		c.Sig(v.Contended, "rest-timer", j.sc.shape(), j.pl.Mode, v.Outcome, v.Sig)
		if j.x.blockTimeout {
			sc, pl, x := j.sc, j.pl, j.x
			st := x.rec.snapshot()
			waitCheck(rp, x.blockKind+"/"+pl.Mode, func(p time.Duration) (bool, bool) {
				y := newRestExec(sc, pl)
				y.patience = p
				hy := handler.TimeoutHandler(pl.Timeout)(http.HandlerFunc(y.serve))
				if !y.run(hy) {
					return false, false
				}
				return y.blockTimeout, true
			}, func() any { return x.witness(st) })
		}
	}
	c.Evals(evals)
	census(c, rp)
}

// ---------------------------------------------------------------- fx.DoWithTimeout

type fxPlan struct {
	Mode        string        `json:"mode"` // none | pre | inline | concurrent | block | timer | timer-block
	Timeout     time.Duration `json:"timeout"`
	ParentAfter time.Duration `json:"parent_deadline_after,omitempty"`
	NoOption    bool          `json:"no_option,omitempty"` // call without fx.WithContext
	Work        time.Duration `json:"work,omitempty"`      // timer: duration of fn
	Ret         string        `json:"ret"`                 // nil | err | panic
	Jitter      int           `json:"jitter,omitempty"`
	// extensions (ext_test.go, grid family)
	ParentKind  string `json:"parent_kind,omitempty"`
	WorkKind    string `json:"work_kind,omitempty"`
	ParentValue bool   `json:"parent_value,omitempty"`
	PreCancel   bool   `json:"pre_cancel,omitempty"`
}

type fxExec struct {
	pl       fxPlan
	tag      string
	workErr  error
	cancel   context.CancelFunc
	parent   context.Context
	cancelS  atomic.Uint64
	wrapRet  chan struct{}
	workDone chan struct{}
	flag     chan struct{}
	cEnd     chan struct{}
	giveUp   chan struct{}
	patience time.Duration

	started      bool
	workRetS     uint64
	workPanicS   uint64
	blockTimeout bool

	t0, tRet    time.Time
	parentDl    time.Time
	hasParentDl bool
	retS        uint64
	got         error
	panicked    bool
	panicVal    any
}

func (x *fxExec) fn() error {
	defer close(x.workDone)
	x.started = true
	switch x.pl.Mode {
	case "inline":
		x.cancelS.Store(kit.Stamp())
		x.cancel()
	case "concurrent":
		close(x.flag)
		for i := 0; i < x.pl.Jitter; i++ {
			runtime.Gosched()
		}
	case "block":
		x.cancelS.Store(kit.Stamp())
		x.cancel()
		if !blockUntil(x.wrapRet, x.patience) {
			x.blockTimeout = true
		}
	case "timer-block":
		if !blockUntil(x.wrapRet, x.patience) {
			x.blockTimeout = true
		}
	case "timer":
		if x.pl.Work > 0 {
			time.Sleep(x.pl.Work)
		}
	case "timer-wait-parent":
		// fn gets no context from DoWithTimeout; work that "honours" cancellation can only watch the caller's
		t := time.NewTimer(x.patience)
		select {
		case <-x.parent.Done():
		case <-x.wrapRet:
		case <-t.C:
			x.blockTimeout = true
		}
		t.Stop()
	}
	if x.pl.Ret == "panic" {
		x.workPanicS = kit.Stamp()
		panic("verif-panic-" + x.tag)
	}
	x.workRetS = kit.Stamp()
	return x.workErr
}

func newFxExec(pl fxPlan, tag string) *fxExec {
	x := &fxExec{pl: pl, tag: tag, wrapRet: make(chan struct{}), workDone: make(chan struct{}), flag: make(chan struct{}),
		cEnd: make(chan struct{}), giveUp: make(chan struct{}), patience: patience()}
	if pl.Ret == "err" {
		x.workErr = errors.New("verif-err-" + tag)
	}
	return x
}

func (x *fxExec) run() bool {
	base := context.Background()
	var cancels []context.CancelFunc
	if x.pl.ParentAfter > 0 {
		x.parentDl = time.Now().Add(x.pl.ParentAfter)
		x.hasParentDl = true
		c, cf := context.WithDeadline(base, x.parentDl)
		base = c
		cancels = append(cancels, cf)
	}
	if x.pl.ParentValue {
		base = context.WithValue(base, ctxKey{}, x.tag)
	}
	parent, cancel := context.WithCancel(base)
	x.cancel = cancel
	x.parent = parent
	defer func() {
		cancel()
		for _, cf := range cancels {
			cf()
		}
	}()
	if x.pl.Mode == "concurrent" {
		go func() {
			defer close(x.cEnd)
			select {
			case <-x.flag:
			case <-x.giveUp:
				return
			}
			x.cancelS.Store(kit.Stamp())
			cancel()
		}()
	} else {
		close(x.cEnd)
	}
	if x.pl.Mode == "pre" || x.pl.PreCancel {
		x.cancelS.Store(kit.Stamp())
		cancel()
	}
	x.t0 = time.Now()
	go func() {
		defer func() {
			if p := recover(); p != nil {
				x.panicked = true
				x.panicVal = p
			}
			x.retS = kit.Stamp()
			x.tRet = time.Now()
			close(x.wrapRet)
		}()
		if x.pl.NoOption {
			x.got = fx.DoWithTimeout(x.fn, x.pl.Timeout)
		} else {
			x.got = fx.DoWithTimeout(x.fn, x.pl.Timeout, fx.WithContext(parent))
		}
	}()
	if !awaitWrapper(x.wrapRet) {
		close(x.giveUp)
		return false
	}
	t := time.NewTimer(joinWatchdog)
	defer t.Stop()
	select {
	case <-x.workDone:
	case <-t.C:
		stuck.Store(true)
		close(x.giveUp)
		return false
	}
	close(x.giveUp)
	select {
	case <-x.cEnd:
	case <-t.C:
		stuck.Store(true)
		return false
	}
	return true
}

func (x *fxExec) witness() map[string]any {
	return map[string]any{"plan": x.pl, "returned": fmt.Sprint(x.got), "work_error": fmt.Sprint(x.workErr), "wrapper_panicked": x.panicked,
		"wrapper_panic_value": clip(fmt.Sprint(x.panicVal), 300), "cancel_stamp": x.cancelS.Load(), "work_return_stamp": x.workRetS,
		"work_panic_stamp": x.workPanicS, "wrapper_return_stamp": x.retS, "elapsed_at_return": x.tRet.Sub(x.t0).String(), "block_patience_ran_out": x.blockTimeout}
}

func (x *fxExec) evaluate(rp reporter) verdict {
	c := rp.c
	var v verdict
	mode := x.pl.Mode
	cancelS := x.cancelS.Load()
	cancelled := cancelS != 0 && cancelS < x.retS && !x.pl.NoOption
	deadlinePassed := !x.tRet.Before(earliestDeadline(x.t0, x.pl.Timeout, x.parentDl, x.hasParentDl && !x.pl.NoOption))
	workReturned := x.workRetS != 0 && x.workRetS < x.retS
	workPanicked := x.workPanicS != 0 && x.workPanicS < x.retS
	switch {
	case x.panicked:
		v.Outcome = "panic"
		if !workPanicked {
			rp.viol("panic", "unexpected/"+mode, "DoWithTimeout panicked although fn had not panicked", x.witness())
		} else if !strings.Contains(fmt.Sprint(x.panicVal), "verif-panic-"+x.tag) {
			rp.viol("panic", "value-lost/"+mode, "the re-raised panic does not carry fn's panic value", x.witness())
		}
	case x.got == x.workErr && workReturned && x.pl.Ret != "panic":
		v.Outcome = "complete"
	case x.got != nil && errors.Is(x.got, context.Canceled) && x.got != x.workErr:
		v.Outcome = "timeout"
		if !cancelled {
			rp.viol("timeout-result-without-expiry", "canceled/"+mode, "DoWithTimeout returned context.Canceled but the caller's context had not been cancelled", x.witness())
		}
	case x.got != nil && errors.Is(x.got, context.DeadlineExceeded) && x.got != x.workErr:
		v.Outcome = "timeout"
		if !deadlinePassed {
			rp.viol("timeout-result-without-expiry", "deadline/"+mode, fmt.Sprintf("DoWithTimeout returned DeadlineExceeded after %s, before any deadline could have passed (timeout %s)", x.tRet.Sub(x.t0), x.pl.Timeout), x.witness())
		}
	default:
		v.Outcome = "mixture"
		kind := "other"
		if x.pl.Ret == "panic" && x.got == nil {
			kind = "nil-although-fn-panicked"
		} else if x.got == x.workErr {
			kind = "work-result-before-work-returned"
		}
		rp.viol("mixture", kind+"/"+mode, fmt.Sprintf("DoWithTimeout returned %v: neither fn's result (%v, fn returned before the wrapper: %v) nor a context error", x.got, x.workErr, workReturned), x.witness())
	}
	c.Obs("fx_outcome_"+v.Outcome, 1)
	expS := cancelS
	if expS != 0 && expS < x.retS && ((x.workRetS > expS && x.workRetS < x.retS) || (x.workPanicS > expS && x.workPanicS < x.retS)) {
		v.Contended = true
	}
	if expS == 0 && deadlinePassed && v.Outcome != "timeout" {
		v.Contended = true
	}
	if expS == 0 && v.Outcome == "timeout" && x.workRetS != 0 && x.pl.Mode == "timer" && x.pl.Work > 0 && x.pl.Work < 2*x.pl.Timeout {
		v.Contended = true // fn of about the timeout's length lost against the timer
	}
	if v.Contended {
		c.Obs("fx_contended", 1)
	}
	seq := "r"
	if x.workRetS != 0 && x.workRetS < x.retS {
		seq = "w<r"
	}
	if cancelS != 0 {
		switch {
		case cancelS < x.workRetS || cancelS < x.workPanicS:
			seq += ";x<w"
		default:
			seq += ";w<x"
		}
	}
	v.Sig = seq
	return v
}

func runFx(c *kit.Case, rp reporter, pl fxPlan, tag string) (verdict, bool) {
	x := newFxExec(pl, tag)
	if !x.run() {
		c.Inconclusive("could not join fn (fx, mode " + pl.Mode + ")")
		return verdict{}, false
	}
	v := x.evaluate(rp)
	if x.blockTimeout {
		waitCheck(rp, "wrapper-return/"+pl.Mode, func(p time.Duration) (bool, bool) {
			y := newFxExec(pl, tag)
			y.patience = p
			if !y.run() {
				return false, false
			}
			return y.blockTimeout, true
		}, func() any { return x.witness() })
	}
	return v, true
}

func fxCancelCase(c *kit.Case) {
	if skipIfStuck(c) {
		return
	}
	r := c.R
	rp := reporter{c, "fx"}
	evals := int64(0)
	kit.WithLabel(c.ID, func() {
		i := 0
		for _, ret := range []string{"nil", "err", "panic"} {
			for _, mode := range []string{"none", "pre", "inline", "concurrent", "concurrent", "block"} {
				t, p := farTimeout(r)
				pl := fxPlan{Mode: mode, Timeout: t, ParentAfter: p, Ret: ret, Jitter: r.Pick(4, 2, 1, 1)}
				if mode == "none" && r.Chance(0.5) {
					pl.NoOption = true
				}
				i++
				v, ok := runFx(c, rp, pl, fmt.Sprintf("f%d-%d", c.Index, i))
				if !ok {
					return
				}
				evals++
				c.Sig(v.Contended, "fx", ret, mode, v.Outcome, v.Sig, pl.ParentAfter > 0)
			}
		}
	})
	c.Evals(evals)
	census(c, rp)
}

func fxTimerCase(c *kit.Case) {
	if skipIfStuck(c) {
		return
	}
	r := c.R
	rp := reporter{c, "fx"}
	const par = 8
	type job struct {
		pl  fxPlan
		tag string
		x   *fxExec
		ok  bool
	}
	jobs := make([]*job, par)
	for i := range jobs {
		timeout := time.Duration(1000+r.Intn(19000)) * time.Microsecond
		if r.Chance(0.05) {
			timeout = 0
		}
		f := []float64{0, 0.5, 0.9 + 0.2*r.Float64(), 0.9 + 0.2*r.Float64(), 0.9 + 0.2*r.Float64(), 1.02, 1.5}[r.Intn(7)]
		pl := fxPlan{Mode: "timer", Timeout: timeout, Work: time.Duration(float64(timeout)*f) / (10 * time.Microsecond) * (10 * time.Microsecond),
			Ret: kit.Choose(r, []string{"nil", "err", "err", "panic"})}
		if r.Chance(0.15) {
			pl.Mode, pl.Work = "timer-block", 0
		}
		switch r.Pick(5, 2, 2) {
		case 1:
			pl.ParentAfter = timeout/2 + time.Microsecond
		case 2:
			pl.ParentAfter = timeout*3 + time.Millisecond
		}
		jobs[i] = &job{pl: pl, tag: fmt.Sprintf("ft%d-%d", c.Index, i)}
	}
	kit.WithLabel(c.ID, func() {
		var wg sync.WaitGroup
		for _, j := range jobs {
			wg.Add(1)
			go func(j *job) {
				defer wg.Done()
				j.x = newFxExec(j.pl, j.tag)
				j.ok = j.x.run()
			}(j)
		}
		wg.Wait()
	})
	evals := int64(0)
	for _, j := range jobs {
		if !j.ok {
			c.Inconclusive("could not join fn (fx timer)")
			continue
		}
		v := j.x.evaluate(rp)
		evals++
		c.Sig(v.Contended, "fx-timer", j.pl.Mode, j.pl.Ret, v.Outcome, v.Sig, j.pl.Timeout/(500*time.Microsecond), j.pl.Work/(500*time.Microsecond))
		if j.x.blockTimeout {
			pl, tag, x := j.pl, j.tag, j.x
			waitCheck(rp, "wrapper-return/"+pl.Mode, func(p time.Duration) (bool, bool) {
				y := newFxExec(pl, tag)
				y.patience = p
				if !y.run() {
					return false, false
				}
				return y.blockTimeout, true
			}, func() any { return x.witness() })
		}
	}
	c.Evals(evals)
	census(c, rp)
}

// ---------------------------------------------------------------- end to end through rest.Server

func freePort() (int, error) {
	l, err := net.Listen("tcp", "127.0.0.1:0")
	if err != nil {
		return 0, err
	}
	defer l.Close()
	return l.Addr().(*net.TCPAddr).Port, nil
}

type e2eReq struct {
	Route    string `json:"route"` // g (global timeout) | r (per-route timeout)
	Mode     string `json:"mode"`  // fast | ignore (blocks until the client has the response) | wait-ctx (returns when its context is done, then writes)
	Exempt   string `json:"exempt,omitempty"`
	Tag      string `json:"tag"`
	Status   int    `json:"status"`
	Chunks   int    `json:"chunks"`
	release  chan struct{}
	done     chan struct{}
	patience time.Duration

	mu        sync.Mutex
	t1        time.Time
	seenDl    time.Time
	seenOk    bool
	blockedTO bool
	lateErrs  int
	ran       bool
	bailed    bool
}

func e2eCase(c *kit.Case) {
	if skipIfStuck(c) {
		return
	}
	r := c.R
	rp := reporter{c, "e2e"}
	// one timeout is large so that http.Server.WriteTimeout (1.1 × the largest route timeout) is out of the way
	type cfg struct{ G, R time.Duration }
	cf := kit.Choose(r, []cfg{
		{60 * time.Second, 25 * time.Millisecond}, // per-route shorter than global
		{30 * time.Millisecond, 60 * time.Second}, // per-route longer than global
		{40 * time.Millisecond, 15 * time.Millisecond},
	})
	port, err := freePort()
	if err != nil {
		c.Inconclusive("no free port: " + err.Error())
		return
	}
	var conf rest.RestConf
	conf.Host = "127.0.0.1"
	conf.Port = port
	conf.Name = fmt.Sprintf("verifc04-%d", c.Index)
	conf.Log.Mode = "console"
	conf.Log.Level = "severe"
	conf.Timeout = int64(cf.G / time.Millisecond)
	conf.MaxBytes = 1 << 20
	conf.Middlewares.Timeout = true
	conf.Middlewares.Recover = true
	conf.Middlewares.Log = true
	conf.Middlewares.MaxBytes = true
	conf.Middlewares.Gunzip = true
	srv, err := rest.NewServer(conf)
	if err != nil {
		c.Inconclusive("rest.NewServer: " + err.Error())
		return
	}
	logx.Disable()

	var mu sync.Mutex
	reqs := map[string]*e2eReq{}
	eff := map[string]time.Duration{"g": cf.G, "r": cf.R}
	serve := func(route string) http.HandlerFunc {
		return func(w http.ResponseWriter, req *http.Request) {
			mu.Lock()
			q := reqs[req.URL.Query().Get("id")]
			mu.Unlock()
			if q == nil {
				io.WriteString(w, "probe:"+conf.Name)
				return
			}
			defer close(q.done)
			ctx := req.Context()
			t1 := time.Now()
			dl, ok := ctx.Deadline()
			q.mu.Lock()
			q.ran, q.t1, q.seenDl, q.seenOk = true, t1, dl, ok
			q.mu.Unlock()
			write := func() {
				w.Header().Set("X-Verif-Tag", q.Tag)
				w.Header().Set("X-Verif-Route", route)
				if q.Status != 200 {
					w.WriteHeader(q.Status)
				}
				for i := 0; i < q.Chunks; i++ {
					if _, err := fmt.Fprintf(w, "[%s-w%d:%s]", q.Tag, i, strings.Repeat("z", 50*i)); err != nil {
						q.mu.Lock()
						q.lateErrs++
						q.mu.Unlock()
					}
				}
			}
			// a deadline later than configured is reported by the oracle; do not sit it out
			sane := q.Exempt != "" || (ok && !dl.After(t1.Add(eff[route])))
			switch q.Mode {
			case "fast":
				write()
			case "ignore":
				if !sane {
					q.mu.Lock()
					q.bailed = true
					q.mu.Unlock()
					write()
					return
				}
				if !blockUntil(q.release, q.patience) {
					q.mu.Lock()
					q.blockedTO = true
					q.mu.Unlock()
				}
				write()
			case "wait-ctx":
				if !sane {
					q.mu.Lock()
					q.bailed = true
					q.mu.Unlock()
					write()
					return
				}
				select {
				case <-ctx.Done():
				case <-q.release:
				}
				write()
			}
		}
	}
	srv.AddRoute(rest.Route{Method: http.MethodGet, Path: "/g", Handler: serve("g")})
	srv.AddRoute(rest.Route{Method: http.MethodGet, Path: "/r", Handler: serve("r")}, rest.WithTimeout(cf.R))
	srv.AddRoute(rest.Route{Method: http.MethodGet, Path: "/big", Handler: serve("big")}, rest.WithTimeout(60*time.Second))
	startPanic := make(chan any, 1)
	go func() {
		defer func() {
			if p := recover(); p != nil {
				startPanic <- p
			}
		}()
		srv.Start()
	}()
	defer srv.Stop()
	up := false
	for i := 0; i < 600 && !up; i++ {
		select {
		case p := <-startPanic:
			c.Inconclusive(fmt.Sprintf("rest.Server could not start (port taken?): %v", p))
			return
		default:
		}
		conn, err := net.DialTimeout("tcp", fmt.Sprintf("127.0.0.1:%d", port), 100*time.Millisecond)
		if err == nil {
			conn.Close()
			up = true
			break
		}
		time.Sleep(10 * time.Millisecond)
	}
	if !up {
		c.Inconclusive("rest.Server did not start listening")
		return
	}
	client := &http.Client{Timeout: 45 * time.Second, Transport: &http.Transport{MaxIdleConnsPerHost: 4}}
	defer client.CloseIdleConnections()
	// make sure it is our server that owns the port
	if resp, err := client.Get(fmt.Sprintf("http://127.0.0.1:%d/big?id=probe", port)); err != nil {
		c.Inconclusive("probe request failed: " + err.Error())
		return
	} else {
		b, _ := io.ReadAll(resp.Body)
		resp.Body.Close()
		if string(b) != "probe:"+conf.Name {
			c.Inconclusive("the loopback port is not served by this case's rest.Server")
			return
		}
	}

	type result struct {
		q      *e2eReq
		status int
		hdr    http.Header
		body   string
		t0     time.Time
		tResp  time.Time
		err    error
		joined bool
	}
	do := func(q *e2eReq) result {
		mu.Lock()
		reqs[q.Tag] = q
		mu.Unlock()
		hreq, _ := http.NewRequest(http.MethodGet, fmt.Sprintf("http://127.0.0.1:%d/%s?id=%s", port, q.Route, q.Tag), nil)
		switch q.Exempt {
		case "websocket":
			hreq.Header.Set("Upgrade", "websocket")
		case "sse":
			hreq.Header.Set("Accept", "text/event-stream")
		}
		res := result{q: q, t0: time.Now()}
		resp, err := client.Do(hreq)
		if err == nil {
			var body []byte
			body, err = io.ReadAll(resp.Body)
			resp.Body.Close()
			res.status, res.hdr, res.body = resp.StatusCode, resp.Header, string(body)
		}
		res.err = err
		res.tResp = time.Now()
		close(q.release) // causal release: the handler is let go only after the client has its response
		wd := joinWatchdog
		if err != nil {
			wd = 2 * time.Second // the request may never have reached the handler
		}
		t := time.NewTimer(wd)
		select {
		case <-q.done:
			res.joined = true
		case <-t.C:
			res.joined = err != nil
		}
		t.Stop()
		return res
	}
	n := 14
	evals := int64(0)
	for i := 0; i < n; i++ {
		q := &e2eReq{Route: kit.Choose(r, []string{"g", "r", "r"}), Mode: kit.Choose(r, []string{"fast", "ignore", "ignore", "wait-ctx"}),
			Tag: fmt.Sprintf("e%d-%d", c.Index, i), Status: kit.Choose(r, []int{200, 201, 404, 500}), Chunks: r.Intn(4),
			release: make(chan struct{}), done: make(chan struct{}), patience: patience()}
		if r.Chance(0.12) {
			q.Exempt = kit.Choose(r, []string{"websocket", "sse"})
			q.Mode = "fast"
		}
		// requests whose effective timeout is the 60 s one are only sent in "fast" mode
		if eff[q.Route] > time.Second {
			q.Mode = "fast"
		}
		res := do(q)
		if !res.joined {
			c.Inconclusive("e2e handler did not finish")
			return
		}
		if res.err != nil {
			c.Inconclusive("e2e request failed: " + res.err.Error())
			c.Obs("e2e_transport_errors", 1)
			continue
		}
		evals++
		c.Obs("e2e_requests", 1)
		q.mu.Lock()
		wit := map[string]any{"global_timeout": cf.G.String(), "route_timeout": cf.R.String(), "request": q, "status": res.status,
			"x_verif_tag": res.hdr.Get("X-Verif-Tag"), "body": clip(res.body, 300), "deadline_seen": fmtDl(q.seenDl, q.seenOk),
			"work_started": q.t1.Format(time.RFC3339Nano), "elapsed_at_response": res.tResp.Sub(res.t0).String(), "handler_patience_ran_out": q.blockedTO}
		var expBody strings.Builder
		for k := 0; k < q.Chunks; k++ {
			fmt.Fprintf(&expBody, "[%s-w%d:%s]", q.Tag, k, strings.Repeat("z", 50*k))
		}
		complete := res.status == q.Status && res.body == expBody.String() && res.hdr.Get("X-Verif-Tag") == q.Tag && res.hdr.Get("X-Verif-Route") == q.Route
		timeout := res.status == 503 && res.body == timeoutBody && res.hdr.Get("X-Verif-Tag") == "" && res.hdr.Get("X-Verif-Route") == ""
		d := eff[q.Route]
		cls := "route-" + q.Route + "/" + q.Mode
		if q.Exempt != "" {
			cls = "exempt-" + q.Exempt
		}
		if q.Exempt == "" {
			c.Obs("e2e_deadline_checks", 1)
			switch {
			case !q.seenOk:
				rp.viol("deadline", "none-seen/route-"+q.Route, "the handler ran without a deadline although a timeout is configured", wit)
			case q.seenDl.After(q.t1.Add(d)):
				rp.viol("deadline", "later-than-configured/route-"+q.Route, fmt.Sprintf("the handler saw a deadline %s after it started; the effective timeout of this route is %s", q.seenDl.Sub(q.t1), d), wit)
			}
		} else if q.seenOk {
			rp.viol("exempt", "deadline-imposed-"+q.Exempt, "exempt request ran under a deadline", wit)
		}
		outcome := "mixture"
		switch {
		case complete:
			outcome = "complete"
			if q.Mode == "ignore" && !q.bailed && !q.blockedTO {
				// the handler was blocked until the client had read the response
				rp.viol("complete-before-work-returned", cls, "the client received the complete result while the handler was still blocked", wit)
			}
		case timeout && q.Exempt == "":
			outcome = "timeout"
			if res.tResp.Before(res.t0.Add(d)) {
				rp.viol("timeout-result-without-expiry", cls, fmt.Sprintf("503 after %s, before the effective timeout %s could have passed", res.tResp.Sub(res.t0), d), wit)
			}
		default:
			kind := "other"
			switch {
			case (res.status == 503 || res.status == 499) && res.hdr.Get("X-Verif-Tag") != "":
				kind = "work-headers-on-timeout-result"
			case strings.Contains(res.body, timeoutBody) && strings.Contains(res.body, "["+q.Tag):
				kind = "work-body-and-timeout-body"
			case res.body == expBody.String() && res.status == q.Status:
				kind = "headers-differ"
			case strings.HasPrefix(expBody.String(), res.body) && res.status == q.Status:
				kind = "partial-body"
			}
			rp.viol("mixture", kind+"/"+cls, fmt.Sprintf("neither the complete result nor the timeout result: status %d body %q", res.status, clip(res.body, 100)), wit)
		}
		blockedTO := q.blockedTO
		q.mu.Unlock()
		if blockedTO {
			// the handler's patience ran out before the client had a response: the server seems to
			// wait for a handler that ignores its context. Confirm with doubled patience (DESIGN §3.5).
			if waitBroken.Load() {
				c.Obs("wait_dependency_after_first_report", 1)
			} else {
				q2 := &e2eReq{Route: q.Route, Mode: "ignore", Tag: q.Tag + "-again", Status: q.Status, Chunks: q.Chunks,
					release: make(chan struct{}), done: make(chan struct{}), patience: 2 * basePatience}
				res2 := do(q2)
				q2.mu.Lock()
				again := q2.blockedTO
				q2.mu.Unlock()
				switch {
				case !res2.joined || res2.err != nil:
					c.Inconclusive("e2e does-not-wait re-run failed")
				case again:
					waitBroken.Store(true)
					rp.viol("waits-for-work", "route-"+q.Route, fmt.Sprintf("no response while a handler that ignores its context was blocked (effective timeout %s): patience %s and again %s ran out, the response arrived only after the handler gave up", d, basePatience, 2*basePatience), wit)
				default:
					c.Inconclusive("e2e: no response within patience once, not reproduced with doubled patience")
				}
			}
		}
		c.Obs("e2e_outcome_"+outcome, 1)
		contended := outcome == "timeout" || (outcome == "complete" && q.Mode == "wait-ctx")
		c.Sig(contended, "e2e", cf.G, cf.R, q.Route, q.Mode, q.Exempt, q.Status, q.Chunks, outcome)
	}
	c.Evals(evals)
}

// ---------------------------------------------------------------- test

func TestVerifC04(t *testing.T) {
	logx.Disable()
	kit.Run(t, "C04", "rest-cancel", kit.N(8000, 100000), restCancelCase)
	kit.Run(t, "C04", "rest-exempt", kit.N(300, 4000), restExemptCase)
	kit.Run(t, "C04", "rest-timer", kit.N(2000, 30000), restTimerCase)
	kit.Run(t, "C04", "fx-cancel", kit.N(4000, 50000), fxCancelCase)
	kit.Run(t, "C04", "fx-timer", kit.N(1000, 15000), fxTimerCase)
	kit.Run(t, "C04", "e2e", kit.N(24, 160), e2eCase)
	// extensions (ext_test.go)
	kit.Run(t, "C04", "rest-grid", kit.N(160, 2000), restGridCase)
	kit.Run(t, "C04", "fx-grid", kit.N(160, 2000), fxGridCase)
	kit.Run(t, "C04", "rest-status", kit.N(500, 8000), restStatusCase)
	kit.Run(t, "C04", "rest-flush", kit.N(600, 10000), restFlushCase)
	kit.Run(t, "C04", "rest-odd-exempt", kit.N(120, 1500), restOddExemptCase)
	kit.Run(t, "C04", "e2e-config", kit.N(40, 200), e2eConfigCase)
	// slow works that finish in time behind really started servers (slow_test.go)
	kit.Run(t, "C04", "e2e-slow", kit.N(16, 120), e2eSlowCase)
	// accumulation: many calls whose works stay parked past their deadlines (many_test.go)
	kit.Run(t, "C04", "fx-many", kit.N(24, 240), fxManyCase)
	kit.Run(t, "C04", "rest-many", kit.N(16, 160), restManyCase)
	// hostile use of the ResponseWriter behind TimeoutHandler -> RecoverHandler (hostile_test.go)
	kit.Run(t, "C04", "rest-hostile", kit.N(240, 3000), restHostileCase)
	kit.End()
}
