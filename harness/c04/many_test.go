package c04

// fx-many / rest-many: accumulation. MANY calls of a timeout wrapper whose works ignore the
// deadline and stay parked on a channel that the harness closes only after it has observed that
// EVERY call has returned (causal release, DESIGN §3.5) - so the works of earlier / concurrent
// calls are all still running past their deadlines while the later calls are made. The clause:
// "the REST, zRPC-server and fx wrappers return at that deadline without waiting for work that
// ignores it" - a shared resource that the parked works hold (a worker pool, a semaphore, a
// pooled writer) must not make another call wait.
//
// Two phases: "concurrent" (all calls started at once) and "accumulated" (calls made one after
// the other, each one with the works of ALL earlier calls still parked). The expiry of a call is
// a real 1-20 ms timeout, the caller's own earlier deadline, a later (1 h) caller deadline over a
// real short timeout, a caller context cancelled before the call, cancelled by the work itself
// before it parks, or cancelled from outside once the work has started.
//
// Verdict: a call that has not returned within the patience (5 s) while the works are parked, and
// returns once they are released, is re-run together with the whole accumulation with doubled
// patience; reproduced => waits-for-work. Calls that returned while the works were parked must
// have returned the timeout result (the work had not returned), and only if the expiry had
// happened (cancel stamped before the return / monotonic clock past the earliest deadline).

import (
	"context"
	"errors"
	"fmt"
	"net/http"
	"net/http/httptest"
	"strings"
	"sync"
	"sync/atomic"
	"time"

	"github.com/zeromicro/go-zero/core/fx"
	"github.com/zeromicro/go-zero/rest/handler"

	"verifharness/kit"
)

type manyCall struct {
	Idx         int           `json:"idx"`
	Expiry      string        `json:"expiry"` // timer | parent-earlier | parent-later | pre | inline | external
	Timeout     time.Duration `json:"timeout"`
	ParentAfter time.Duration `json:"parent_deadline_after,omitempty"`
	Tag         string        `json:"tag"`

	parent      context.Context
	cancel      context.CancelFunc
	cleanup     []context.CancelFunc
	parentDl    time.Time
	hasParentDl bool

	started  chan struct{} // closed when the work was entered
	returned chan struct{} // closed when the wrapper returned
	workDone chan struct{} // closed when the work returned
	cancelS  atomic.Uint64
	workRetS atomic.Uint64
	heldTO   atomic.Bool

	// written by the calling goroutine before close(returned)
	t0, tRet time.Time
	retS     uint64
	got      error
	workErr  error
	panicVal any
	rec      *recorder
}

func (mc *manyCall) expiryClass() string {
	if mc.Expiry == "timer" || mc.Expiry == "parent-earlier" || mc.Expiry == "parent-later" {
		return "timer"
	}
	return "cancel"
}

type manyHold struct {
	release  chan struct{}
	releaseS atomic.Uint64
}

const manyHoldWatchdog = 120 * time.Second

// work is the body of every wrapped work: it ignores every deadline and stays parked until the
// harness has seen all calls return.
func (mc *manyCall) work(h *manyHold) {
	defer close(mc.workDone)
	close(mc.started)
	if mc.Expiry == "inline" {
		mc.cancelS.Store(kit.Stamp())
		mc.cancel()
	}
	t := time.NewTimer(manyHoldWatchdog)
	select {
	case <-h.release:
	case <-t.C:
		mc.heldTO.Store(true)
	}
	t.Stop()
	mc.workRetS.Store(kit.Stamp())
}

func (mc *manyCall) prepare() {
	base := context.Background()
	if mc.ParentAfter > 0 {
		mc.parentDl = time.Now().Add(mc.ParentAfter)
		mc.hasParentDl = true
		c, cf := context.WithDeadline(base, mc.parentDl)
		base = c
		mc.cleanup = append(mc.cleanup, cf)
	}
	mc.parent, mc.cancel = context.WithCancel(base)
	if mc.Expiry == "pre" {
		mc.cancelS.Store(kit.Stamp())
		mc.cancel()
	}
}

func genManyCalls(r *kit.Rand, n int, tagPrefix string, sequential bool) []*manyCall {
	calls := make([]*manyCall, n)
	for i := range calls {
		mc := &manyCall{Idx: i, Tag: fmt.Sprintf("%s-%d", tagPrefix, i), started: make(chan struct{}), returned: make(chan struct{}), workDone: make(chan struct{})}
		short := time.Duration(1000+r.Intn(19000)) * time.Microsecond
		if sequential {
			short = time.Duration(500+r.Intn(2500)) * time.Microsecond // the calls of this phase are made one after the other
		}
		w := []int{3, 2, 2, 2, 3, 2}
		if sequential {
			w = []int{2, 1, 1, 3, 4, 2}
		}
		switch r.Pick(w...) {
		case 0:
			mc.Expiry, mc.Timeout = "timer", short
		case 1:
			mc.Expiry, mc.Timeout, mc.ParentAfter = "parent-earlier", time.Hour, short
		case 2:
			mc.Expiry, mc.Timeout, mc.ParentAfter = "parent-later", short, time.Hour
		case 3:
			mc.Expiry, mc.Timeout = "pre", time.Hour
		case 4:
			mc.Expiry, mc.Timeout = "inline", time.Hour
		case 5:
			mc.Expiry, mc.Timeout = "external", time.Hour
		}
		calls[i] = mc
	}
	return calls
}

type manyRun struct {
	calls     []*manyCall
	hold      *manyHold
	suspects  []*manyCall // had not returned when the patience ran out
	notMade   int         // accumulated phase: calls not made any more after the first suspect
	joined    bool
	lateAfter []*manyCall // suspects that returned once the works were released
}

// runMany makes the calls (invoke performs one wrapper call and fills got/panicVal/rec), waits
// until all have returned or the patience has run out, then releases the parked works and joins
// everything.
func runMany(calls []*manyCall, phase string, p time.Duration, invoke func(mc *manyCall, h *manyHold)) *manyRun {
	run := &manyRun{calls: calls, hold: &manyHold{release: make(chan struct{})}}
	h := run.hold
	launch := func(mc *manyCall) {
		mc.prepare()
		if mc.Expiry == "external" {
			go func() {
				// cancelled from outside once the work has started (or, if it never starts, half a patience later)
				t := time.NewTimer(p / 2)
				select {
				case <-mc.started:
				case <-t.C:
				case <-h.release:
				}
				t.Stop()
				mc.cancelS.Store(kit.Stamp())
				mc.cancel()
			}()
		}
		go func() {
			defer func() {
				if pv := recover(); pv != nil {
					mc.panicVal = pv
				}
				mc.retS = kit.Stamp()
				mc.tRet = time.Now()
				close(mc.returned)
			}()
			mc.t0 = time.Now()
			invoke(mc, h)
		}()
	}
	made := len(calls)
	if phase == "concurrent" {
		for _, mc := range calls {
			launch(mc)
		}
		t := time.NewTimer(p)
		expired := false
		for _, mc := range calls {
			if expired {
				select {
				case <-mc.returned:
				default:
					run.suspects = append(run.suspects, mc)
				}
				continue
			}
			select {
			case <-mc.returned:
			case <-t.C:
				expired = true
				run.suspects = append(run.suspects, mc)
			}
		}
		t.Stop()
	} else {
		for i, mc := range calls {
			launch(mc)
			if !blockUntil(mc.returned, p) {
				run.suspects = append(run.suspects, mc)
				made = i + 1
				break
			}
		}
	}
	run.notMade = len(calls) - made
	run.calls = calls[:made]
	h.releaseS.Store(kit.Stamp())
	close(h.release)
	// join: every wrapper call, every work
	t := time.NewTimer(wrapWatchdog)
	defer t.Stop()
	for _, mc := range run.calls {
		select {
		case <-mc.returned:
		case <-t.C:
			stuck.Store(true)
			return run
		}
	}
	t2 := time.NewTimer(joinWatchdog)
	defer t2.Stop()
	for _, mc := range run.calls {
		select {
		case <-mc.workDone:
		case <-t2.C:
			return run
		}
	}
	for _, mc := range run.calls {
		mc.cancel()
		for _, cf := range mc.cleanup {
			cf()
		}
	}
	for _, mc := range run.suspects {
		if mc.retS > h.releaseS.Load() {
			run.lateAfter = append(run.lateAfter, mc)
		}
	}
	run.joined = true
	return run
}

func (mc *manyCall) witness(run *manyRun, phase string) map[string]any {
	parked := 0
	for _, o := range run.calls {
		if o != mc {
			select {
			case <-o.started:
				if rs := o.workRetS.Load(); rs == 0 || rs > run.hold.releaseS.Load() {
					parked++
				}
			default:
			}
		}
	}
	started := false
	select {
	case <-mc.started:
		started = true
	default:
	}
	return map[string]any{"phase": phase, "call": mc, "calls_made": len(run.calls), "calls_not_made_any_more": run.notMade, "works_of_other_calls_parked_until_release": parked,
		"calls_not_returned_within_patience": len(run.suspects), "of_these_returned_after_release": len(run.lateAfter), "returned": fmt.Sprint(mc.got), "wrapper_panic_value": clip(fmt.Sprint(mc.panicVal), 300),
		"cancel_stamp": mc.cancelS.Load(), "wrapper_return_stamp": mc.retS, "release_stamp": run.hold.releaseS.Load(), "work_return_stamp": mc.workRetS.Load(),
		"own_work_started": started, "elapsed_at_return": mc.tRet.Sub(mc.t0).String()}
}

// manyCase drives one accumulation; judge decides a call that returned while the works were parked.
func manyCase(c *kit.Case, rp reporter, obsPrefix string, n int, phase string, invoke func(mc *manyCall, h *manyHold),
	judge func(mc *manyCall, run *manyRun) string) {
	r := c.R
	seq := phase == "accumulated"
	seedCalls := r.Split("calls")
	mk := func() []*manyCall {
		return genManyCalls(kit.NewRand(seedCalls.At(0)), n, fmt.Sprintf("m%d", c.Index), seq)
	}
	var run *manyRun
	kit.WithLabel(c.ID, func() { run = runMany(mk(), phase, patience(), invoke) })
	if !run.joined {
		c.Inconclusive(obsPrefix + ": could not join every call and every work")
		return
	}
	c.Obs(obsPrefix+"_runs_"+phase, 1)
	c.Obs(obsPrefix+"_calls", int64(len(run.calls)))
	evals := int64(0)
	outcomes := map[string]int{}
	for _, mc := range run.calls {
		if mc.heldTO.Load() {
			c.Inconclusive(obsPrefix + ": a parked work was never released")
			return
		}
		if mc.retS > run.hold.releaseS.Load() {
			continue // a suspect: decided below
		}
		evals++
		o := judge(mc, run)
		outcomes[mc.Expiry+"/"+o]++
		c.Obs(obsPrefix+"_returned_while_all_works_parked", 1)
		c.Obs(obsPrefix+"_returned_while_all_works_parked_"+mc.Expiry, 1)
		c.Obs(obsPrefix+"_outcome_"+o, 1)
	}
	if len(run.calls) > 128 && len(run.suspects) == 0 {
		c.Obs(obsPrefix+"_runs_with_more_than_128_parked_works", 1)
	}
	if len(run.lateAfter) > 0 {
		mc := run.lateAfter[0]
		wit := mc.witness(run, phase)
		waitCheck(rp, phase+"/"+mc.expiryClass(), func(p time.Duration) (bool, bool) {
			var again *manyRun
			kit.WithLabel(c.ID, func() { again = runMany(mk(), phase, p, invoke) })
			if !again.joined {
				return false, false
			}
			return len(again.lateAfter) > 0, true
		}, func() any { return wit })
	} else if len(run.suspects) > 0 && waitBroken.Load() {
		c.Obs("wait_dependency_after_first_report", 1) // the patience is 30 ms once a dependency has been reported
	} else if len(run.suspects) > 0 {
		c.Inconclusive(obsPrefix + ": calls had not returned within the patience but had before the works were released")
	}
	c.Sig(len(run.calls) > 128 && len(run.suspects) == 0, obsPrefix, phase, len(run.calls)/25, len(run.suspects) > 0, len(outcomes))
	c.Sample(obsPrefix, 1, map[string]any{"phase": phase, "calls": len(run.calls), "outcomes": outcomes, "first_calls": run.calls[:3]})
	c.Evals(evals)
	census(c, rp)
}

func manyN(r *kit.Rand) int {
	if kit.Thorough() {
		return r.Range(150, 1200)
	}
	return r.Range(150, 400)
}

func fxManyCase(c *kit.Case) {
	if skipIfStuck(c) {
		return
	}
	rp := reporter{c, "fx-many"}
	phase := []string{"concurrent", "accumulated"}[c.Index%2]
	invoke := func(mc *manyCall, h *manyHold) {
		mc.workErr = errors.New("verif-err-" + mc.Tag)
		fn := func() error {
			mc.work(h)
			return mc.workErr
		}
		if mc.Expiry == "timer" && mc.Idx%2 == 0 {
			mc.got = fx.DoWithTimeout(fn, mc.Timeout) // no caller context at all
			return
		}
		mc.got = fx.DoWithTimeout(fn, mc.Timeout, fx.WithContext(mc.parent))
	}
	judge := func(mc *manyCall, run *manyRun) string {
		cs := mc.cancelS.Load()
		cancelled := cs != 0 && cs < mc.retS
		noCtx := mc.Expiry == "timer" && mc.Idx%2 == 0
		deadlinePassed := !mc.tRet.Before(earliestDeadline(mc.t0, mc.Timeout, mc.parentDl, mc.hasParentDl && !noCtx))
		cls := mc.Expiry
		switch {
		case mc.panicVal != nil:
			rp.viol("panic", "unexpected/"+cls, "DoWithTimeout panicked although fn had not panicked (it was still parked)", mc.witness(run, phase))
			return "panic"
		case mc.got != nil && mc.got != mc.workErr && errors.Is(mc.got, context.Canceled):
			if !cancelled {
				rp.viol("timeout-result-without-expiry", "canceled/"+cls, "DoWithTimeout returned context.Canceled but the caller's context had not been cancelled", mc.witness(run, phase))
			}
			return "timeout"
		case mc.got != nil && mc.got != mc.workErr && errors.Is(mc.got, context.DeadlineExceeded):
			if !deadlinePassed {
				rp.viol("timeout-result-without-expiry", "deadline/"+cls, fmt.Sprintf("DoWithTimeout returned DeadlineExceeded after %s, before any deadline could have passed (timeout %s)", mc.tRet.Sub(mc.t0), mc.Timeout), mc.witness(run, phase))
			}
			return "timeout"
		}
		kind := "other"
		if mc.got == mc.workErr || mc.got == nil {
			kind = "work-result-before-work-returned"
		}
		rp.viol("mixture", kind+"/"+cls, fmt.Sprintf("DoWithTimeout returned %v while fn was still parked: not a context error", mc.got), mc.witness(run, phase))
		return "mixture"
	}
	manyCase(c, rp, "fxm", manyN(c.R), phase, invoke, judge)
}

type manyKey struct{}

func restManyCase(c *kit.Case) {
	if skipIfStuck(c) {
		return
	}
	rp := reporter{c, "rest-many"}
	phase := []string{"concurrent", "accumulated"}[c.Index%2]
	// ONE handler instance per configured timeout, shared by all calls with that timeout
	var hmu sync.Mutex
	handlers := map[time.Duration]http.Handler{}
	var holdNow atomic.Pointer[manyHold]
	handlerFor := func(d time.Duration) http.Handler {
		hmu.Lock()
		defer hmu.Unlock()
		if h, ok := handlers[d]; ok {
			return h
		}
		h := handler.TimeoutHandler(d)(http.HandlerFunc(func(w http.ResponseWriter, req *http.Request) {
			mc := req.Context().Value(manyKey{}).(*manyCall)
			mc.work(holdNow.Load())
			// what the work writes after its deadline must not reach the client
			w.Header().Set("X-Verif-Tag", mc.Tag)
			w.WriteHeader(http.StatusCreated)
			fmt.Fprintf(w, "[%s-w0:late]", mc.Tag)
		}))
		handlers[d] = h
		return h
	}
	invoke := func(mc *manyCall, h *manyHold) {
		holdNow.Store(h)
		mc.rec = newRecorder()
		mc.rec.mark = "[" + mc.Tag + "-w"
		// real timeouts are rounded to whole milliseconds so that several calls share a handler instance
		d := mc.Timeout
		if d < time.Hour {
			d = (d/time.Millisecond + 1) * time.Millisecond
			mc.Timeout = d
		}
		req := httptest.NewRequest(http.MethodGet, "http://verif.local/many?id="+mc.Tag, nil)
		req = req.WithContext(context.WithValue(mc.parent, manyKey{}, mc))
		handlerFor(d).ServeHTTP(mc.rec, req)
	}
	judge := func(mc *manyCall, run *manyRun) string {
		st := mc.rec.snapshot()
		cs := mc.cancelS.Load()
		cancelled := cs != 0 && cs < mc.retS
		deadlinePassed := !mc.tRet.Before(earliestDeadline(mc.t0, mc.Timeout, mc.parentDl, mc.hasParentDl))
		cls := mc.Expiry
		wit := func() map[string]any {
			w := mc.witness(run, phase)
			w["client_saw"] = map[string]any{"wrote": st.Wrote, "status": st.Status, "headers": st.Sent, "body": clip(st.Body, 300)}
			w["recorder_calls"] = st.Calls
			return w
		}
		for _, rc := range st.Calls {
			if rc.S > mc.retS && rc.Kind != "header" {
				rp.viol("after-return", rc.Kind+"/"+cls, "the client writer was called after the wrapper had returned", wit())
				break
			}
		}
		switch {
		case mc.panicVal != nil:
			rp.viol("panic", "unexpected/"+cls, "TimeoutHandler panicked although the handler had not (it was still parked)", wit())
			return "panic"
		case st.Wrote && (st.Status == 503 || st.Status == 499) && st.Body == timeoutBody && st.Sent.Get("X-Verif-Tag") == "":
			if st.Status == 499 && !cancelled {
				rp.viol("timeout-result-without-expiry", "canceled/"+cls, "499 although the caller's context had not been cancelled", wit())
			}
			if st.Status == 503 && !deadlinePassed {
				rp.viol("timeout-result-without-expiry", "deadline/"+cls, fmt.Sprintf("503 after %s, before any deadline could have passed (timeout %s)", mc.tRet.Sub(mc.t0), mc.Timeout), wit())
			}
			return "timeout"
		}
		kind := "other"
		switch {
		case !st.Wrote:
			kind = "nothing-written"
		case strings.Contains(st.Body, "["+mc.Tag) || st.Sent.Get("X-Verif-Tag") != "":
			kind = "work-output-before-work-returned"
		}
		rp.viol("mixture", kind+"/"+cls, fmt.Sprintf("the wrapper returned while the handler was still parked and the client saw status %d body %q: not the timeout result", st.Status, clip(st.Body, 80)), wit())
		return "mixture"
	}
	manyCase(c, rp, "rm", manyN(c.R), phase, invoke, judge)
}
