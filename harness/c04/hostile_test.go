package c04

// rest-hostile: works that MISUSE the http.ResponseWriter in every way net/http tolerates or
// answers with a panic, run through the chain the rest engine builds by default:
//
//	TimeoutHandler(d) -> (a pass-through middleware of the harness) -> RecoverHandler -> work
//
// Misuse: WriteHeader with codes outside 100..599 (0, 1, 99, 600, 999, 1000, -1, a business error
// code), two different statuses, Write after 204/304, 1xx followed by a final status,
// panic(http.ErrAbortHandler), panic(value) before / after the first Write, header mutation after
// the status, nil / empty Write, empty Write followed by a panic - each finishing well before the
// deadline and with the expiry placed before every position of the script (inline cancel, cancel +
// work blocked until the wrapper has returned, real 3-12 ms timer + blocked work, cancelled before
// the call); the rest of the script (incl. its panic) then runs AFTER the deadline.
//
// Oracle (statement only, no model of net/http): the REFERENCE for "the work's complete result" is
// what the very same chain WITHOUT the timeout middleware (RecoverHandler -> work) yields on the same
// kind of client writer (httptest.ResponseRecorder, or over the wire of a real httptest.Server).
// The caller must observe exactly that (status, the work's headers, whole body) - legal only once the
// script had finished - or exactly the timeout result (499/503, "Request Timeout", none of the work's
// headers) - legal only once the context was done - never anything else; the wrapper must return once
// the context is done (causal: context cancelled, 5 s and on the confirming re-run 10 s without a return);
// nothing reaches the client writer after the wrapper returned; a later benign request through the
// same chain / server is served.
//
// Not judged (counted only): the status of scripts that pass a code in 600..999 - net/http's writers
// accept any three digits, go-zero's timeoutWriter panics above 599, so the reference itself differs by
// construction and the statement does not say which is "the work's result"; headers set after the
// first status / Write may or may not be part of the complete result (see props assumptions); for a
// script whose first status is informational (1xx) the buffered 1xx code and the implicit 200 are
// accepted next to the reference's final code (existing assumption of rest-status).

import (
	"context"
	"errors"
	"fmt"
	"io"
	"log"
	"net/http"
	"net/http/httptest"
	"sort"
	"strings"
	"sync"
	"sync/atomic"
	"time"

	"github.com/zeromicro/go-zero/rest/handler"

	"verifharness/kit"
)

const hWorkHdr = "X-Vf-"

type hOp struct {
	K     string `json:"k"` // set | status | write | panic
	Key   string `json:"key,omitempty"`
	Val   string `json:"val,omitempty"`
	Code  int    `json:"code,omitempty"`
	Chunk string `json:"chunk,omitempty"`
	Nil   bool   `json:"nil,omitempty"`   // Write(nil)
	Panic string `json:"panic,omitempty"` // abort | string | error | int
}

type hScript struct {
	Kind string `json:"kind"`
	Tag  string `json:"tag"`
	Ops  []hOp  `json:"ops"`
}

func (s hScript) shape() string {
	var sb strings.Builder
	sb.WriteString(s.Kind)
	for _, o := range s.Ops {
		switch o.K {
		case "status":
			fmt.Fprintf(&sb, ",s%d", o.Code)
		case "write":
			fmt.Fprintf(&sb, ",w%d", len(o.Chunk))
		case "set":
			sb.WriteString(",h")
		case "panic":
			sb.WriteString(",p" + o.Panic)
		}
	}
	return sb.String()
}

func (s hScript) has600to999() bool {
	for _, o := range s.Ops {
		if o.K == "status" && o.Code >= 600 && o.Code <= 999 {
			return true
		}
	}
	return false
}

func (s hScript) firstStatusInformational() (int, bool) {
	for _, o := range s.Ops {
		if o.K == "write" {
			return 0, false
		}
		if o.K == "status" {
			return o.Code, o.Code >= 100 && o.Code < 200
		}
	}
	return 0, false
}

var hKinds = []string{"invalid-status", "invalid-status", "invalid-status", "double-status", "no-body-status", "informational",
	"abort-panic", "value-panic", "late-header", "nil-write", "empty-write-panic", "panic-after-deadline"}

func genHostile(r *kit.Rand, tag string) hScript {
	kind := kit.Choose(r, hKinds)
	sc := hScript{Kind: kind, Tag: tag}
	nh := 0
	set := func() hOp {
		nh++
		return hOp{K: "set", Key: fmt.Sprintf("%s%s-%d", hWorkHdr, tag, r.Intn(2)), Val: fmt.Sprintf("v%d-%d", nh, r.Intn(1000))}
	}
	nw := 0
	write := func() hOp {
		nw++
		return hOp{K: "write", Chunk: fmt.Sprintf("[%s-w%d:%s]", tag, nw, filler(r, 1+r.Intn(40)))}
	}
	pv := func() hOp { return hOp{K: "panic", Panic: kit.Choose(r, []string{"string", "error", "int"})} }
	final := []int{200, 201, 202, 400, 404, 409, 500, 502}
	if r.Chance(0.6) {
		sc.Ops = append(sc.Ops, set())
	}
	switch kind {
	case "invalid-status":
		code := kit.Choose(r, []int{0, 1, 99, 600, 999, 1000, -1, 10001, 42, 700})
		if r.Chance(0.25) {
			sc.Ops = append(sc.Ops, write())
		}
		sc.Ops = append(sc.Ops, hOp{K: "status", Code: code})
		// never reached where the code panics
		sc.Ops = append(sc.Ops, write())
	case "double-status":
		a, b := kit.Choose(r, final), kit.Choose(r, final)
		sc.Ops = append(sc.Ops, hOp{K: "status", Code: a})
		if r.Bool() {
			sc.Ops = append(sc.Ops, write())
		}
		sc.Ops = append(sc.Ops, hOp{K: "status", Code: b})
		if r.Chance(0.3) {
			sc.Ops = append(sc.Ops, hOp{K: "status", Code: kit.Choose(r, []int{0, 1000, 99})})
		}
		sc.Ops = append(sc.Ops, write())
	case "no-body-status":
		sc.Ops = append(sc.Ops, hOp{K: "status", Code: kit.Choose(r, []int{204, 304})}, write())
		if r.Bool() {
			sc.Ops = append(sc.Ops, write())
		}
	case "informational":
		sc.Ops = append(sc.Ops, hOp{K: "status", Code: kit.Choose(r, []int{100, 102, 103})})
		if r.Bool() {
			sc.Ops = append(sc.Ops, set())
		}
		sc.Ops = append(sc.Ops, hOp{K: "status", Code: kit.Choose(r, final)}, write())
	case "abort-panic":
		if r.Bool() {
			sc.Ops = append(sc.Ops, write())
		} else if r.Bool() {
			sc.Ops = append(sc.Ops, hOp{K: "status", Code: kit.Choose(r, final)})
		}
		sc.Ops = append(sc.Ops, hOp{K: "panic", Panic: "abort"})
	case "value-panic":
		if r.Bool() {
			sc.Ops = append(sc.Ops, write())
			if r.Bool() {
				sc.Ops = append(sc.Ops, write())
			}
		} else if r.Bool() {
			sc.Ops = append(sc.Ops, hOp{K: "status", Code: kit.Choose(r, final)})
		}
		sc.Ops = append(sc.Ops, pv())
	case "late-header":
		if r.Bool() {
			sc.Ops = append(sc.Ops, hOp{K: "status", Code: kit.Choose(r, final)})
		} else {
			sc.Ops = append(sc.Ops, write())
		}
		sc.Ops = append(sc.Ops, set(), write(), set())
	case "nil-write":
		sc.Ops = append(sc.Ops, hOp{K: "write", Nil: r.Bool()})
		if r.Bool() {
			sc.Ops = append(sc.Ops, hOp{K: "status", Code: kit.Choose(r, final)})
		}
		if r.Bool() {
			sc.Ops = append(sc.Ops, write())
		}
	case "empty-write-panic":
		sc.Ops = append(sc.Ops, hOp{K: "write", Nil: r.Bool()})
		if r.Bool() {
			sc.Ops = append(sc.Ops, pv())
		} else {
			sc.Ops = append(sc.Ops, hOp{K: "panic", Panic: "abort"})
		}
	case "panic-after-deadline":
		// same shapes as the panics above; the plans of this kind place the expiry before the panic
		sc.Ops = append(sc.Ops, write())
		if r.Bool() {
			sc.Ops = append(sc.Ops, hOp{K: "status", Code: kit.Choose(r, []int{0, 1000, 302})})
		}
		sc.Ops = append(sc.Ops, pv())
	}
	return sc
}

type hPlan struct {
	Mode    string        `json:"mode"` // none | pre | inline | block | timer
	Pos     int           `json:"pos"`
	Timeout time.Duration `json:"timeout"`
}

type hResult struct {
	Err     string      `json:"err,omitempty"` // transport error (server driver) / panic value (recorder driver)
	Status  int         `json:"status"`
	Headers http.Header `json:"work_headers"`
	Body    string      `json:"body"`
}

func hWorkHeaders(h http.Header) http.Header {
	out := http.Header{}
	for k, v := range h {
		if strings.HasPrefix(k, hWorkHdr) {
			out[k] = append([]string(nil), v...)
		}
	}
	return out
}

// hExec is one request.
type hExec struct {
	id       int
	sc       hScript
	pl       hPlan
	patience time.Duration

	mu         sync.Mutex
	cancelFn   context.CancelFunc
	wantCancel bool

	cancelS     atomic.Uint64
	scriptDoneS atomic.Uint64
	retS        atomic.Uint64
	blockedS    atomic.Uint64
	blockTO     atomic.Bool
	wrapPanic   atomic.Bool
	panicVal    string // written before returned is closed
	returned    chan struct{}
	workRet     chan struct{} // RecoverHandler returned (or panicked through)
	entered     atomic.Bool
}

func newHExec(id int, sc hScript, pl hPlan) *hExec {
	return &hExec{id: id, sc: sc, pl: pl, patience: patience(), returned: make(chan struct{}), workRet: make(chan struct{})}
}

func (x *hExec) doCancel() {
	x.mu.Lock()
	defer x.mu.Unlock()
	x.wantCancel = true
	if x.cancelFn != nil {
		x.cancelS.CompareAndSwap(0, kit.Stamp())
		x.cancelFn()
	}
}

func (x *hExec) setCancel(f context.CancelFunc) {
	x.mu.Lock()
	defer x.mu.Unlock()
	x.cancelFn = f
	if x.wantCancel {
		x.cancelS.CompareAndSwap(0, kit.Stamp())
		f()
	}
}

func (x *hExec) at(i int) {
	if i != x.pl.Pos {
		return
	}
	switch x.pl.Mode {
	case "inline":
		x.doCancel()
	case "block":
		x.doCancel()
		x.blockedS.Store(kit.Stamp())
		if !blockUntil(x.returned, x.patience) {
			x.blockTO.Store(true)
		}
	case "timer":
		x.blockedS.Store(kit.Stamp())
		if !blockUntil(x.returned, x.patience) {
			x.blockTO.Store(true)
		}
	}
}

func (x *hExec) work(w http.ResponseWriter, r *http.Request) {
	x.entered.Store(true)
	defer func() { x.scriptDoneS.Store(kit.Stamp()) }() // also when the script panics; runs before RecoverHandler's recover
	for i, op := range x.sc.Ops {
		x.at(i)
		switch op.K {
		case "set":
			w.Header().Set(op.Key, op.Val)
		case "status":
			w.WriteHeader(op.Code)
		case "write":
			if op.Nil {
				_, _ = w.Write(nil)
			} else {
				_, _ = w.Write([]byte(op.Chunk))
			}
		case "panic":
			switch op.Panic {
			case "abort":
				panic(http.ErrAbortHandler)
			case "error":
				panic(errors.New("verif-hostile-" + x.sc.Tag))
			case "int":
				panic(42)
			default:
				panic("verif-hostile-" + x.sc.Tag)
			}
		}
	}
	x.at(len(x.sc.Ops))
}

// hChain is the set of handlers of one case; requests name their exec by ?x=<id>.
type hChain struct {
	mu    sync.Mutex
	execs map[string]*hExec
	far   http.Handler
	short map[time.Duration]http.Handler
	ref   http.Handler
}

func (hc *hChain) lookup(r *http.Request) *hExec {
	hc.mu.Lock()
	defer hc.mu.Unlock()
	return hc.execs[r.URL.Query().Get("x")]
}

func (hc *hChain) add(x *hExec) {
	hc.mu.Lock()
	hc.execs[fmt.Sprint(x.id)] = x
	hc.mu.Unlock()
}

func (hc *hChain) outer(next http.Handler) http.Handler {
	return http.HandlerFunc(func(w http.ResponseWriter, r *http.Request) {
		x := hc.lookup(r)
		if x == nil {
			http.Error(w, "no exec", 418)
			return
		}
		ctx, cancel := context.WithCancel(r.Context())
		defer cancel()
		x.setCancel(cancel)
		if x.pl.Mode == "pre" {
			x.doCancel()
		}
		defer func() {
			if p := recover(); p != nil {
				x.panicVal = fmt.Sprint(p)
				x.wrapPanic.Store(true)
				x.retS.Store(kit.Stamp())
				close(x.returned)
				panic(p)
			}
		}()
		next.ServeHTTP(w, r.WithContext(ctx))
		x.retS.Store(kit.Stamp())
		close(x.returned)
	})
}

func (hc *hChain) inner() http.Handler {
	rec := handler.RecoverHandler(http.HandlerFunc(func(w http.ResponseWriter, r *http.Request) {
		hc.lookup(r).work(w, r)
	}))
	return http.HandlerFunc(func(w http.ResponseWriter, r *http.Request) {
		x := hc.lookup(r)
		defer close(x.workRet)
		rec.ServeHTTP(w, r)
	})
}

var hShort = []time.Duration{3 * time.Millisecond, 5 * time.Millisecond, 8 * time.Millisecond, 12 * time.Millisecond}

func newHChain() *hChain {
	hc := &hChain{execs: map[string]*hExec{}, short: map[time.Duration]http.Handler{}}
	hc.far = hc.outer(handler.TimeoutHandler(time.Hour)(hc.inner()))
	for _, d := range hShort {
		hc.short[d] = hc.outer(handler.TimeoutHandler(d)(hc.inner()))
	}
	hc.ref = hc.outer(hc.inner())
	return hc
}

func (hc *hChain) handlerFor(pl hPlan) http.Handler {
	switch pl.Mode {
	case "ref":
		return hc.ref
	case "timer":
		return hc.short[pl.Timeout]
	}
	return hc.far
}

func (hc *hChain) mux() http.Handler {
	return http.HandlerFunc(func(w http.ResponseWriter, r *http.Request) {
		x := hc.lookup(r)
		if x == nil {
			http.Error(w, "no exec", 418)
			return
		}
		hc.handlerFor(x.pl).ServeHTTP(w, r)
	})
}

// hRun is what one request looked like from outside.
type hRun struct {
	x         *hExec
	got       hResult
	stuck     bool // context done, patience ran out, the wrapper had not returned
	lateWrite string
	joined    bool
	needed    bool // the harness had to cancel because the wrapper did not return on its own
}

// await waits for the wrapper (outer) to return; false = it did not although the context was cancelled.
func (x *hExec) await() (returned, harnessCancelled bool) {
	if blockUntil(x.returned, x.patience+x.patience/2) {
		return true, false
	}
	x.doCancel()
	return blockUntil(x.returned, x.patience), true
}

// hJoinWait: how long the harness waits for the work goroutine (RecoverHandler returned) after the wrapper returned.
func hJoinWait(x *hExec) time.Duration {
	if waitBroken.Load() {
		return 200 * time.Millisecond // a tree already shown to hang must not cost (requests x watchdog)
	}
	return x.patience + joinWatchdog/4
}

func recResult(rec *httptest.ResponseRecorder) hResult {
	res := rec.Result()
	b, _ := io.ReadAll(res.Body)
	return hResult{Status: res.StatusCode, Headers: hWorkHeaders(res.Header), Body: string(b)}
}

// runRec drives one exec through the handler level chain with an httptest.ResponseRecorder.
func (hc *hChain) runRec(x *hExec) hRun {
	hc.add(x)
	run := hRun{x: x}
	rec := httptest.NewRecorder()
	req := httptest.NewRequest(http.MethodGet, fmt.Sprintf("http://verif.local/h?x=%d", x.id), http.NoBody)
	h := hc.handlerFor(x.pl)
	callerDone := make(chan struct{})
	go func() {
		defer close(callerDone)
		defer func() { _ = recover() }() // recorded by outer
		h.ServeHTTP(rec, req)
	}()
	ret, needed := x.await()
	run.needed = needed
	if !ret {
		run.stuck = true
		return run // rec is still owned by go-zero: never read
	}
	<-callerDone
	if x.wrapPanic.Load() {
		run.got = hResult{Err: "panic: " + x.panicVal}
	} else {
		run.got = recResult(rec)
	}
	code0, body0, hdr0 := rec.Code, rec.Body.String(), rec.Header().Clone()
	run.joined = blockUntil(x.workRet, hJoinWait(x))
	if run.joined && x.entered.Load() && !x.wrapPanic.Load() {
		if rec.Code != code0 || rec.Body.String() != body0 || fmt.Sprint(nonEmpty(rec.Header())) != fmt.Sprint(nonEmpty(hdr0)) {
			run.lateWrite = fmt.Sprintf("at return: %d %q %v; after the work was joined: %d %q %v", code0, clip(body0, 200), hdr0, rec.Code, clip(rec.Body.String(), 200), rec.Header())
		}
	}
	return run
}

// runSrv drives one exec over the wire of a real httptest.Server.
func (hc *hChain) runSrv(x *hExec, base string, cl *http.Client) hRun {
	hc.add(x)
	run := hRun{x: x}
	ctx, cancel := context.WithTimeout(context.Background(), 4*wrapWatchdog)
	defer cancel()
	type cres struct {
		r   hResult
		err error
	}
	ch := make(chan cres, 1)
	go func() {
		req, _ := http.NewRequestWithContext(ctx, http.MethodGet, fmt.Sprintf("%s/h?x=%d", base, x.id), http.NoBody)
		resp, err := cl.Do(req)
		if err != nil {
			ch <- cres{err: err}
			return
		}
		b, err := io.ReadAll(resp.Body)
		resp.Body.Close()
		if err != nil {
			ch <- cres{err: err}
			return
		}
		ch <- cres{r: hResult{Status: resp.StatusCode, Headers: hWorkHeaders(resp.Header), Body: string(b)}}
	}()
	ret, needed := x.await()
	run.needed = needed
	if !ret {
		run.stuck = true
		cancel()
		return run
	}
	t := time.NewTimer(wrapWatchdog)
	defer t.Stop()
	select {
	case cr := <-ch:
		if cr.err != nil {
			run.got = hResult{Err: "transport: no response"}
		} else {
			run.got = cr.r
		}
	case <-t.C:
		run.got = hResult{Err: "watchdog"}
	}
	run.joined = blockUntil(x.workRet, hJoinWait(x))
	return run
}

func hIsTimeoutResult(g hResult) bool {
	return g.Err == "" && (g.Status == 499 || g.Status == 503) && g.Body == timeoutBody && len(g.Headers) == 0
}

// hMatches: got is the reference result (late headers may or may not be included).
func hMatches(sc hScript, got, ref hResult, statusFree bool) (bool, string) {
	if got.Err != "" || ref.Err != "" {
		if (got.Err != "") == (ref.Err != "") {
			return true, ""
		}
		return false, "one of reference / wrapped chain produced no response"
	}
	if got.Body != ref.Body {
		return false, "body"
	}
	if !statusFree && got.Status != ref.Status {
		ok := false
		if c1, inf := sc.firstStatusInformational(); inf && (got.Status == c1 || got.Status == 200) {
			ok = true
		}
		if !ok {
			return false, "status"
		}
	}
	scriptVals := map[string]map[string]bool{}
	for _, o := range sc.Ops {
		if o.K == "set" {
			k := http.CanonicalHeaderKey(o.Key)
			if scriptVals[k] == nil {
				scriptVals[k] = map[string]bool{}
			}
			scriptVals[k][o.Val] = true
		}
	}
	for k := range ref.Headers {
		if _, ok := got.Headers[k]; !ok {
			return false, "header-missing"
		}
	}
	for k, vv := range got.Headers {
		if rv, ok := ref.Headers[k]; ok && hdrEq(rv, vv) {
			continue
		}
		if len(vv) == 1 && scriptVals[k][vv[0]] {
			continue
		}
		return false, "header-value"
	}
	return true, ""
}

func (run hRun) witness(ref hResult, driver string) map[string]any {
	x := run.x
	return map[string]any{"driver": driver, "chain": "TimeoutHandler(d) -> pass-through -> RecoverHandler -> work", "script": x.sc, "plan": x.pl,
		"reference_without_timeout_middleware": ref, "client_saw": run.got, "wrapper_returned": !run.stuck, "wrapper_panicked": x.wrapPanic.Load(),
		"cancel_stamp": x.cancelS.Load(), "work_blocked_stamp": x.blockedS.Load(), "script_finished_stamp": x.scriptDoneS.Load(), "wrapper_return_stamp": x.retS.Load(),
		"work_block_patience_ran_out": x.blockTO.Load(), "harness_had_to_cancel": run.needed, "late": run.lateWrite, "patience": x.patience.String()}
}

// hJudge evaluates one run; returns the outcome name.
func hJudge(c *kit.Case, rp reporter, run hRun, ref hResult, driver string) string {
	x := run.x
	class := x.sc.Kind + "/" + driver
	if run.stuck {
		return "stuck"
	}
	retS := x.retS.Load()
	expired := x.pl.Mode == "timer" || (x.cancelS.Load() != 0 && x.cancelS.Load() < retS)
	finished := x.scriptDoneS.Load() != 0 && x.scriptDoneS.Load() < retS
	statusFree := x.sc.has600to999()
	out := "neither"
	switch {
	case hIsTimeoutResult(run.got):
		out = "timeout"
		if !expired {
			rp.viol("timeout-without-expiry", class, "the client holds the timeout result although the context was never done before the wrapper returned", run.witness(ref, driver))
		}
	case statusFree:
		// net/http's writers accept 600..999, go-zero's timeoutWriter panics (-> RecoverHandler's 500, rest of the
		// script not run): the reference differs by construction, the statement does not say whose reading is
		// "the work's result" - counted only
		out = "complete-not-compared"
		c.Obs("rh_status_600_999_not_compared", 1)
		if ok, _ := hMatches(x.sc, run.got, ref, false); !ok {
			c.Obs("rh_status_600_999_differs_from_reference", 1)
		}
	default:
		if ok, why := hMatches(x.sc, run.got, ref, false); ok {
			out = "complete"
			if !finished && x.entered.Load() {
				rp.viol("complete-before-work-finished", class, "the client holds the complete result although the script had not finished when the wrapper returned", run.witness(ref, driver))
			}
		} else if run.got.Err == "watchdog" {
			c.Inconclusive("the client did not get the response within the watchdog although the wrapper had returned")
			return "inconclusive"
		} else {
			w := run.witness(ref, driver)
			w["differs_in"] = why
			rp.viol("mixture", class, "the client observed neither the complete result of the recover+work chain (as the same chain yields it without the timeout middleware) nor the timeout result: differs in "+why, w)
		}
	}
	if run.lateWrite != "" {
		rp.viol("after-return", class, "the client writer changed after the wrapper had returned: "+run.lateWrite, run.witness(ref, driver))
	}
	if !run.joined {
		c.Obs("rh_work_not_joined", 1)
	}
	if (x.pl.Mode == "block" || x.pl.Mode == "timer") && x.blockedS.Load() != 0 && !x.blockTO.Load() {
		c.Obs("rh_returned_while_work_blocked", 1)
		if x.pl.Pos < len(x.sc.Ops) {
			c.Obs("rh_misuse_after_deadline", 1)
			for _, o := range x.sc.Ops[x.pl.Pos:] {
				if o.K == "panic" || (o.K == "status" && (o.Code < 100 || o.Code > 599)) {
					c.Obs("rh_panic_after_deadline", 1)
					break
				}
			}
		}
	}
	return out
}

func hPlans(r *kit.Rand, sc hScript) []hPlan {
	n := len(sc.Ops)
	pls := []hPlan{{Mode: "none", Pos: -1, Timeout: time.Hour}, {Mode: "pre", Pos: -1, Timeout: time.Hour}}
	for pos := 0; pos <= n; pos++ {
		pls = append(pls, hPlan{Mode: "inline", Pos: pos, Timeout: time.Hour}, hPlan{Mode: "block", Pos: pos, Timeout: time.Hour})
	}
	pls = append(pls, hPlan{Mode: "timer", Pos: r.Intn(n + 1), Timeout: kit.Choose(r, hShort)})
	if sc.Kind == "panic-after-deadline" || sc.Kind == "invalid-status" {
		pls = append(pls, hPlan{Mode: "timer", Pos: 0, Timeout: kit.Choose(r, hShort)})
	}
	return pls
}

func restHostileCase(c *kit.Case) {
	r := c.R
	rp := reporter{c, "rest-hostile"}
	tag := fmt.Sprintf("h%d", c.Index)
	sc := genHostile(r, tag)
	plans := hPlans(r, sc)
	c.Obs("rh_scripts_"+sc.Kind, 1)
	hc := newHChain()
	srv := httptest.NewUnstartedServer(hc.mux())
	srv.Config.ErrorLog = log.New(io.Discard, "", 0)
	srv.Start()
	tr := &http.Transport{MaxIdleConnsPerHost: 4}
	cl := &http.Client{Transport: tr}
	anyStuck := false
	defer func() {
		tr.CloseIdleConnections()
		done := make(chan struct{})
		go func() { srv.CloseClientConnections(); srv.Close(); close(done) }()
		if !anyStuck {
			blockUntil(done, 20*time.Second)
		}
	}()
	id := 0
	next := func(pl hPlan) *hExec { id++; return newHExec(id, sc, pl) }
	evals := int64(0)

	type driver struct {
		name string
		run  func(x *hExec) hRun
	}
	drivers := []driver{
		{"rec", func(x *hExec) hRun { return hc.runRec(x) }},
		{"srv", func(x *hExec) hRun { return hc.runSrv(x, srv.URL, cl) }},
	}
	for _, d := range drivers {
		refRun := d.run(next(hPlan{Mode: "ref", Pos: -1}))
		if refRun.stuck || !refRun.joined {
			c.Inconclusive("the reference chain (RecoverHandler + work, no timeout middleware) did not return")
			return
		}
		ref := refRun.got
		if ref.Err != "" {
			c.Obs("rh_reference_without_response", 1)
		}
		c.Obs(fmt.Sprintf("rh_reference_status_%dxx", ref.Status/100), 1)
		for _, pl := range plans {
			x := next(pl)
			run := d.run(x)
			evals++
			c.Obs("rh_requests_"+d.name, 1)
			if run.stuck {
				anyStuck = true
				class := sc.Kind + "/" + d.name
				wit := run.witness(ref, d.name)
				waitCheck(rp, "never-returns/"+class, func(p time.Duration) (bool, bool) {
					y := next(pl)
					y.patience = p
					ry := d.run(y)
					return ry.stuck, true
				}, func() any { return wit })
				c.Sig(false, "rest-hostile", d.name, sc.shape(), pl.Mode, pl.Pos, "stuck")
				continue
			}
			out := hJudge(c, rp, run, ref, d.name)
			c.Obs("rh_outcome_"+out, 1)
			if x.blockTO.Load() {
				wit := run.witness(ref, d.name)
				waitCheck(rp, "blocked-work/"+sc.Kind+"/"+d.name, func(p time.Duration) (bool, bool) {
					y := next(pl)
					y.patience = p
					ry := d.run(y)
					return y.blockTO.Load() || ry.stuck, true
				}, func() any { return wit })
			}
			contended := (pl.Mode == "block" || pl.Mode == "timer") && x.blockedS.Load() != 0 && !x.blockTO.Load()
			c.Sig(contended || out == "complete", "rest-hostile", d.name, sc.shape(), pl.Mode, pl.Pos, out, run.got.Status)
		}
		// a later benign request through the same chain / server is still served
		benign := hScript{Kind: "benign", Tag: tag + "b", Ops: []hOp{{K: "set", Key: hWorkHdr + tag + "-b", Val: "b"}, {K: "status", Code: 201}, {K: "write", Chunk: "[" + tag + "-benign]"}}}
		id++
		bx := newHExec(id, benign, hPlan{Mode: "none", Pos: -1, Timeout: time.Hour})
		brun := d.run(bx)
		want := hResult{Status: 201, Headers: http.Header{http.CanonicalHeaderKey(hWorkHdr + tag + "-b"): {"b"}}, Body: "[" + tag + "-benign]"}
		switch {
		case brun.stuck && anyStuck:
			c.Obs("rh_later_request_after_stuck_not_judged", 1)
		case brun.stuck:
			c.Inconclusive("the benign later request did not return")
		default:
			c.Obs("rh_later_request_served", 1)
			if ok, why := hMatches(benign, brun.got, want, false); !ok {
				w := brun.witness(want, d.name)
				w["hostile_script_before"] = sc
				rp.viol("later-request", sc.Kind+"/"+d.name, "a benign request after the hostile ones was not served with its complete result: differs in "+why, w)
			}
		}
	}
	keys := make([]string, 0, len(plans))
	for _, pl := range plans {
		keys = append(keys, fmt.Sprintf("%s@%d", pl.Mode, pl.Pos))
	}
	sort.Strings(keys)
	c.Sample("rest-hostile-"+sc.Kind, 1, map[string]any{"script": sc, "plans": keys})
	c.Evals(evals)
}
