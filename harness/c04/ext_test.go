package c04

// Extensions of the C04 check (same oracle, wider reach):
//
//   - rest-grid / fx-grid: the full configuration grid of a wrapper — caller's context ∈ {no
//     deadline, real deadline earlier than now+timeout, deadline (1 h) later than a real short
//     timeout, already cancelled, cancelled during the work, value-carrying} × work ∈ {finishes
//     at once, overruns and honours its context, overruns and ignores it until the wrapper has
//     returned (causal release, DESIGN §3.5), panics before / after the expiry}. A wrapper that
//     does not arm its own timer under a caller deadline (or waits on the wrong context) does
//     not return while the work is blocked → "waits-for-work".
//   - rest-status: scripts with several WriteHeader calls, WriteHeader after Write and
//     informational 1xx codes (first status wins; for 1xx the statement leaves the final status
//     open, see expected.AltStatus).
//   - rest-flush: scripts that call Flush / Push / Hijack on the writer they were given; client
//     writers that are (not) http.Flusher / Pusher / Hijacker; non-positive timeouts.
//   - rest-odd-exempt: odd spellings of the two exemption headers.
//   - e2e-config: rest.Server configurations (timeout middleware off, global timeout 0, several
//     route groups, SSE routes, odd header spellings over the wire).

import (
	"bufio"
	"context"
	"errors"
	"fmt"
	"io"
	"net"
	"net/http"
	"sort"
	"strings"
	"sync"
	"time"

	"github.com/zeromicro/go-zero/core/logx"
	"github.com/zeromicro/go-zero/rest"
	"github.com/zeromicro/go-zero/rest/handler"

	"verifharness/kit"
)

type ctxKey struct{}

// sameWriter: both are pointers (recorder, a writer variant, or go-zero's wrapper).
func sameWriter(got, want http.ResponseWriter) bool { return got == want }

// ---------------------------------------------------------------- client writer variants

// flushWriter is a connection-side ResponseWriter that is also an http.Flusher. Like net/http's
// response and httptest's ResponseRecorder it keeps state WITHOUT synchronisation (touched): the
// http.ResponseWriter contract does not allow concurrent calls, so two goroutines of go-zero
// inside this writer at the same time are a data race of go-zero (both stacks carry go-zero
// frames; the harness itself never touches the field). Everything the oracle reads is kept by
// the mutex-guarded recorder behind it.
type flushWriter struct {
	rec     *recorder
	touched int
}

func (w *flushWriter) Header() http.Header { w.touched++; return w.rec.Header() }
func (w *flushWriter) WriteHeader(code int) {
	w.touched++
	w.rec.WriteHeader(code)
}
func (w *flushWriter) Write(p []byte) (int, error) { w.touched++; return w.rec.Write(p) }
func (w *flushWriter) Flush()                      { w.touched++; w.rec.flushed() }

// fullWriter: Flusher + Pusher + Hijacker (Push succeeds, Hijack is refused: a hijacked
// connection is outside the oracle).
type fullWriter struct{ flushWriter }

func (w *fullWriter) Push(target string, opts *http.PushOptions) error {
	w.rec.mu.Lock()
	w.rec.pushes++
	w.rec.mu.Unlock()
	return nil
}

var errNoHijack = errors.New("verif: this connection cannot be hijacked")

func (w *fullWriter) Hijack() (net.Conn, *bufio.ReadWriter, error) {
	w.rec.mu.Lock()
	w.rec.hijack++
	w.rec.mu.Unlock()
	return nil, nil, errNoHijack
}

// pushHijackWriter: Pusher + Hijacker but NOT a Flusher (Flush on go-zero's writer is a no-op).
type pushHijackWriter struct{ *recorder }

func (w *pushHijackWriter) Push(target string, opts *http.PushOptions) error {
	w.recorder.mu.Lock()
	w.recorder.pushes++
	w.recorder.mu.Unlock()
	return nil
}

func (w *pushHijackWriter) Hijack() (net.Conn, *bufio.ReadWriter, error) {
	w.recorder.mu.Lock()
	w.recorder.hijack++
	w.recorder.mu.Unlock()
	return nil, nil, errNoHijack
}

func writerVariant(kind string, rec *recorder) http.ResponseWriter {
	switch kind {
	case "flusher":
		rec.lazyHdr = true
		return &flushWriter{rec: rec}
	case "full":
		rec.lazyHdr = true
		return &fullWriter{flushWriter{rec: rec}}
	case "push-hijack":
		return &pushHijackWriter{rec}
	}
	return rec
}

func isFlusherVariant(kind string) bool { return kind == "flusher" || kind == "full" }

// firstBufferedWrite: index of the first write action of the work that had not reached the
// client writer when it returned (-1: every write went straight through).
func (x *restExec) firstBufferedWrite(st recState) int {
	for _, e := range x.evs {
		if e.K != "write" {
			continue
		}
		found := false
		for _, cl := range st.Calls {
			if cl.Kind == "write" && cl.S > e.S0 && cl.S < e.S1 {
				found = true
				break
			}
		}
		if !found {
			return e.I
		}
	}
	return -1
}

// ---------------------------------------------------------------- scripts

type genOpts struct {
	statusHeavy bool
	flushes     bool
	pushHijack  bool
}

var infoCodes = []int{100, 102, 103, 199, 101}

func insertAt(as []action, i int, a action) []action {
	out := make([]action, 0, len(as)+1)
	out = append(out, as[:i]...)
	out = append(out, a)
	return append(out, as[i:]...)
}

// genScript2: a genScript script plus extra status calls (double WriteHeader, WriteHeader after
// Write, informational codes) and/or Flush / Push / Hijack calls at random positions.
func genScript2(r *kit.Rand, tag string, o genOpts) (script, map[string]bool) {
	s := genScript(r, tag, false)
	feat := map[string]bool{}
	if o.statusHeavy {
		if r.Chance(0.3) {
			// the FIRST status is informational
			code := kit.Choose(r, infoCodes)
			done := false
			for i, a := range s.Actions {
				if a.K == "write" {
					break
				}
				if a.K == "status" {
					s.Actions[i].Code = code
					done = true
					break
				}
			}
			if !done {
				i := 0
				for i < len(s.Actions) && s.Actions[i].K != "write" {
					i++
				}
				s.Actions = insertAt(s.Actions, r.Intn(i+1), action{K: "status", Code: code})
			}
			feat["informational"] = true
		}
		for k := r.Pick(1, 3, 2); k > 0; k-- {
			code := kit.Choose(r, statusPool)
			if r.Chance(0.1) {
				code = kit.Choose(r, infoCodes)
			}
			s.Actions = insertAt(s.Actions, r.Intn(len(s.Actions)+1), action{K: "status", Code: code})
		}
		nst, wrote := 0, false
		for _, a := range s.Actions {
			switch a.K {
			case "write":
				wrote = true
			case "status":
				nst++
				if wrote {
					feat["status-after-write"] = true
				}
				if nst > 1 {
					feat["superfluous-status"] = true
				}
			}
		}
	}
	if o.flushes {
		for k := 1 + r.Pick(3, 2, 1); k > 0; k-- {
			s.Actions = insertAt(s.Actions, r.Intn(len(s.Actions)+1), action{K: "flush"})
		}
		feat["flush"] = true
	}
	if o.pushHijack {
		if r.Chance(0.35) {
			s.Actions = insertAt(s.Actions, r.Intn(len(s.Actions)+1), action{K: "push"})
			feat["push"] = true
		}
		if r.Chance(0.25) {
			s.Actions = insertAt(s.Actions, r.Intn(len(s.Actions)+1), action{K: "hijack"})
			feat["hijack"] = true
		}
	}
	return s, feat
}

func stripActions(s script, kinds ...string) script {
	out := script{Panic: s.Panic, Tag: s.Tag}
	for _, a := range s.Actions {
		drop := false
		for _, k := range kinds {
			if a.K == k {
				drop = true
			}
		}
		if !drop {
			out.Actions = append(out.Actions, a)
		}
	}
	return out
}

// ---------------------------------------------------------------- rest-status

func cancelPlans(r *kit.Rand, n int, modes []string) []plan {
	var plans []plan
	add := func(mode string, pos int) {
		t, p := farTimeout(r)
		pl := plan{Mode: mode, Pos: pos, Timeout: t, ParentAfter: p, Jitter: r.Pick(4, 2, 1, 1)}
		if mode == "stall" {
			pl.StallAt = 1 + r.Intn(2)
			pl.Jitter = r.Intn(6)
		}
		plans = append(plans, pl)
	}
	add("none", -1)
	add("pre", -1)
	for pos := 0; pos <= n; pos++ {
		for _, m := range modes {
			add(m, pos)
		}
	}
	return plans
}

// restStatusCase: several WriteHeader calls / WriteHeader after Write / 1xx codes, every expiry
// mode at every position. "First status wins" is what net/http itself does; for a first status
// of 1xx both readings (go-zero's buffered first code, net/http's final code) are accepted.
func restStatusCase(c *kit.Case) {
	if skipIfStuck(c) {
		return
	}
	r := c.R
	rp := reporter{c, "rest-status"}
	sc, feat := genScript2(r, fmt.Sprintf("s%d", c.Index), genOpts{statusHeavy: true})
	for f := range feat {
		c.Obs("rs_scripts_"+f, 1)
	}
	plans := cancelPlans(r, len(sc.Actions), []string{"inline", "concurrent", "block", "stall"})
	evals := int64(0)
	kit.WithLabel(c.ID, func() {
		for _, pl := range plans {
			v, ok := runRest(c, rp, sc, pl)
			if !ok {
				return
			}
			evals++
			c.Obs("rs_outcome_"+v.Outcome, 1)
			if feat["informational"] {
				c.Obs("rs_informational_outcome_"+v.Outcome, 1)
			}
			c.Sig(v.Contended, "rest-status", sc.shape(), pl.Mode, pl.Pos, v.Outcome, v.Sig)
		}
	})
	c.Sample("rest-status-script", 1, map[string]any{"script": sc, "plans": len(plans)})
	c.Evals(evals)
	census(c, rp)
}

// ---------------------------------------------------------------- rest-flush

type flushVerdict struct {
	verdict
	Late     bool
	Streamed bool
}

// evaluateFlush judges an execution whose script calls Flush (and Push / Hijack).
//
// Streaming with Flush BEFORE the timeout result cannot be all-or-nothing by construction and
// is outside the oracle. What the statement does demand: once the client has been sent the
// timeout result, nothing of the work reaches it any more ("nothing the work writes after the
// timeout reaches the client") — so every call the client writer receives after the status of
// the timeout result, other than the timeout body itself, is a violation; and when no Flush got
// through before the timeout result (or the client writer is no Flusher, Flush being a no-op),
// the ordinary all-or-nothing oracle applies in full.
func (x *restExec) evaluateFlush(rp reporter) flushVerdict {
	c := rp.c
	st := x.rec.snapshot()
	var fv flushVerdict
	toIdx, statusIdx := -1, -1
	for i, cl := range st.Calls {
		if cl.Kind == "write" && cl.TO {
			toIdx = i
			break
		}
	}
	var T uint64
	if toIdx >= 0 {
		T = st.Calls[toIdx].S
		for j := toIdx - 1; j >= 0; j-- {
			if cl := st.Calls[j]; cl.Kind == "status" && (cl.Code == 499 || cl.Code == 503) {
				statusIdx, T = j, cl.S
				break
			}
		}
	}
	effective := isFlusherVariant(x.pl.Writer)
	early, lateFlushes, order := false, 0, ""
	for _, e := range x.evs {
		switch e.K {
		case "flush":
			c.Obs("flush_calls", 1)
			switch {
			case !effective:
				c.Obs("flush_noop_client_writer_is_no_flusher", 1)
				order += "n"
			case toIdx < 0:
				c.Obs("flush_without_timeout_result", 1)
				early = true
				order += "s"
			case e.S0 < T:
				c.Obs("flush_before_timeout_result", 1)
				early = true
				order += "b"
			default:
				c.Obs("flush_after_timeout_result", 1)
				lateFlushes++
				order += "a"
				if e.S0 > x.retS {
					c.Obs("flush_after_wrapper_return", 1)
					order += "r"
				}
			}
		case "push":
			c.Obs("push_calls", 1)
			switch e.Err {
			case "":
				c.Obs("push_passed_through", 1)
			case http.ErrNotSupported.Error():
				c.Obs("push_not_supported_by_client_writer", 1)
			default:
				c.Obs("push_other_error", 1)
			}
		case "hijack":
			c.Obs("hijack_calls", 1)
			switch e.Err {
			case errNoHijack.Error():
				c.Obs("hijack_passed_through", 1)
			default:
				c.Obs("hijack_refused_by_wrapper", 1)
			}
		}
	}
	// (A) after the timeout result only the timeout body may follow
	if toIdx >= 0 {
		var late []recCall
		for i, cl := range st.Calls {
			if cl.S > T && i != statusIdx && i != toIdx && cl.Kind != "header" {
				late = append(late, cl)
			}
		}
		if len(late) > 0 {
			fv.Late = true
			what := "calls"
			for _, cl := range late {
				if cl.W {
					what = "bytes of the work's body"
				}
			}
			w := x.witness(st)
			w["late_calls"] = late
			rp.viol("late-flush-reaches-client", x.pl.Mode, fmt.Sprintf("after the client had been sent the timeout result (stamp %d) its writer received %d more call(s) (%s) — Flush of the wrapped work writes through although the request has timed out", T, len(late), what), w)
		}
	}
	switch {
	case fv.Late:
		fv.Outcome = "late-flush"
		c.Obs("rf_outcome_late_flush", 1)
	case early:
		// streaming: outside the oracle (no verdict on the shape of the response)
		fv.Streamed = true
		fv.Outcome = "streamed"
		c.Obs("rf_outcome_streamed_outside_oracle", 1)
		if x.panicked {
			c.Obs("rf_streamed_then_panic", 1)
		}
	default:
		fv.verdict = x.evaluate(rp)
		c.Obs("rf_outcome_"+fv.Outcome, 1)
		if lateFlushes > 0 && fv.Outcome == "timeout" {
			c.Obs("rf_late_flush_suppressed", 1)
		}
	}
	if lateFlushes > 0 {
		fv.Contended = true
	}
	fv.Sig = fv.Sig + "|" + order
	return fv
}

// restFlushCase: one script with Flush / Push / Hijack calls, a client-writer variant, every
// expiry mode at every position; plus non-positive timeouts (the wrapper is disabled).
func restFlushCase(c *kit.Case) {
	if skipIfStuck(c) {
		return
	}
	r := c.R
	rp := reporter{c, "rest-flush"}
	sc, _ := genScript2(r, fmt.Sprintf("f%d", c.Index), genOpts{flushes: true, pushHijack: true, statusHeavy: r.Chance(0.2)})
	writer := kit.Choose(r, []string{"flusher", "flusher", "full", "full", "", "push-hijack"})
	plans := cancelPlans(r, len(sc.Actions), []string{"inline", "concurrent", "block", "stall"})
	// real deadlines: the work ignores its context until the wrapper has returned / goes on as soon as its
	// context is done (woken together with the wrapper), then reaches its Flush calls
	for _, mode := range []string{"timer-block", "timer-wait-ctx"} {
		plans = append(plans, plan{Mode: mode, Pos: r.Intn(len(sc.Actions) + 1), Timeout: time.Duration(2000+r.Intn(6000)) * time.Microsecond, Jitter: r.Pick(4, 2, 1)})
	}
	evals := int64(0)
	kit.WithLabel(c.ID, func() {
		for _, pl := range plans {
			pl.Writer = writer
			x := newRestExec(sc, pl)
			if x.rec.stall != nil {
				x.rec.stall.onTO = true
			}
			h := handler.TimeoutHandler(pl.Timeout)(http.HandlerFunc(x.serve))
			if !x.run(h) {
				c.Inconclusive(fmt.Sprintf("could not join the wrapper call or the work goroutine (flush, mode %s)", pl.Mode))
				return
			}
			fv := x.evaluateFlush(rp)
			if x.blockTimeout {
				st := x.rec.snapshot()
				pl := pl
				waitCheck(rp, x.blockKind+"/"+pl.Mode, func(p time.Duration) (bool, bool) {
					y := newRestExec(sc, pl)
					y.patience = p
					if y.rec.stall != nil {
						y.rec.stall.onTO = true
					}
					if !y.run(handler.TimeoutHandler(pl.Timeout)(http.HandlerFunc(y.serve))) {
						return false, false
					}
					return y.blockTimeout, true
				}, func() any { return x.witness(st) })
			}
			evals++
			c.Sig(fv.Contended, "rest-flush", sc.shape(), writer, pl.Mode, pl.Pos, fv.Outcome, fv.Sig)
			if fv.Contended {
				c.Sample("rest-flush-after-timeout", 1, map[string]any{"script": sc, "plan": pl, "outcome": fv.Outcome, "interleaving": fv.Sig})
			}
		}
		// non-positive timeout: TimeoutHandler hands the work through — no deadline may be imposed and
		// nothing may be held back (scripts without Flush: a raw writer commits on Flush)
		plain := stripActions(sc, "flush")
		for _, mode := range []string{"none", "pre", "inline", "concurrent"} {
			_, p := farTimeout(r)
			pl := plan{Mode: mode, Pos: r.Intn(len(plain.Actions) + 1), Timeout: kit.Choose(r, []time.Duration{0, -1, -time.Second, -time.Hour}),
				ParentAfter: p, Exempt: "nonpositive", Writer: writer}
			v, ok := runRest(c, rp, plain, pl)
			if !ok {
				return
			}
			evals++
			c.Obs("nonpositive_timeout_checks", 1)
			c.Obs("nonpositive_timeout_outcome_"+v.Outcome, 1)
			c.Sig(false, "rest-nonpositive", plain.shape(), writer, mode, pl.Pos, pl.Timeout, v.Outcome)
		}
	})
	c.Sample("rest-flush-script", 1, map[string]any{"script": sc, "client_writer": writer, "plans": len(plans)})
	c.Evals(evals)
	census(c, rp)
}

// ---------------------------------------------------------------- rest-odd-exempt

type oddHdr struct {
	Name string
	H    map[string][]string
	Must bool // the exact spelling: the statement says exempt
}

// Only canonical header NAMES are generated in process (a net/http server canonicalises names
// on the wire: the e2e-config family sends odd-case names over loopback). For other spellings of
// the VALUES the statement does not say whether the request counts as a websocket-upgrade /
// event-stream request: either treatment is accepted, which one go-zero chose is recorded.
var oddHdrs = []oddHdr{
	{"ws-exact+connection", map[string][]string{"Upgrade": {"websocket"}, "Connection": {"Upgrade"}, "Sec-Websocket-Version": {"13"}}, true},
	{"sse-exact+others", map[string][]string{"Accept": {"text/event-stream"}, "Cache-Control": {"no-cache"}, "Last-Event-Id": {"7"}}, true},
	{"ws+sse", map[string][]string{"Upgrade": {"websocket"}, "Accept": {"text/event-stream"}}, true},
	{"ws-capitalised", map[string][]string{"Upgrade": {"WebSocket"}, "Connection": {"Upgrade"}}, false},
	{"ws-upper", map[string][]string{"Upgrade": {"WEBSOCKET"}}, false},
	{"ws-list", map[string][]string{"Upgrade": {"websocket, h2c"}}, false},
	{"ws-padded", map[string][]string{"Upgrade": {" websocket"}}, false},
	{"ws-second-line", map[string][]string{"Upgrade": {"h2c", "websocket"}}, false},
	{"sse-with-fallback", map[string][]string{"Accept": {"text/event-stream, */*"}}, false},
	{"sse-with-q", map[string][]string{"Accept": {"text/event-stream;q=0.9"}}, false},
	{"sse-mixed-case", map[string][]string{"Accept": {"Text/Event-Stream"}}, false},
	{"sse-not-first", map[string][]string{"Accept": {"application/json, text/event-stream"}}, false},
	{"sse-second-line", map[string][]string{"Accept": {"text/html", "text/event-stream"}}, false},
	{"sse-first-line", map[string][]string{"Accept": {"text/event-stream", "text/html"}}, false},
}

func restOddExemptCase(c *kit.Case) {
	if skipIfStuck(c) {
		return
	}
	r := c.R
	rp := reporter{c, "rest-odd-exempt"}
	sc := genScript(r, fmt.Sprintf("o%d", c.Index), false)
	n := len(sc.Actions)
	evals := int64(0)
	kit.WithLabel(c.ID, func() {
		for _, oh := range oddHdrs {
			for _, mode := range []string{"none", kit.Choose(r, []string{"pre", "inline", "concurrent"})} {
				t, p := farTimeout(r)
				pl := plan{Mode: mode, Pos: r.Intn(n + 1), Timeout: t, ParentAfter: p, ReqHeader: oh.H}
				if oh.Must {
					pl.Exempt = "odd-" + oh.Name
				} else {
					pl.MaybeExempt = true
				}
				x := newRestExec(sc, pl)
				if !x.run(handler.TimeoutHandler(pl.Timeout)(http.HandlerFunc(x.serve))) {
					c.Inconclusive("could not join the wrapper call or the work goroutine (odd exempt)")
					return
				}
				treated := "must-exempt"
				if pl.MaybeExempt {
					if x.sameWriter {
						x.pl.Exempt = "odd-" + oh.Name
						treated = "recognised"
						c.Obs("odd_spelling_treated_as_exempt", 1)
						c.Obs("odd_spelling_treated_as_exempt_"+oh.Name, 1)
					} else {
						treated = "wrapped"
						c.Obs("odd_spelling_not_treated_as_exempt", 1)
					}
				} else {
					c.Obs("odd_must_exempt_checks", 1)
				}
				v := x.evaluate(rp)
				evals++
				c.Sig(false, "rest-odd-exempt", oh.Name, treated, mode, v.Outcome)
			}
		}
	})
	c.Evals(evals)
	census(c, rp)
}

// ---------------------------------------------------------------- grids

var gridParents = []string{"none", "earlier", "later", "cancelled-before", "cancelled-during", "value"}
var gridWorks = []string{"fast", "honours", "ignores", "panic-before", "panic-after"}

type gridCell struct {
	timerDriven bool
	timeout     time.Duration
	parentAfter time.Duration
	preCancel   bool
	value       bool
	base        string
}

func gridParent(r *kit.Rand, pk string) gridCell {
	short := time.Duration(2000+r.Intn(10000)) * time.Microsecond
	far := time.Hour
	g := gridCell{timerDriven: true, base: pk}
	if pk == "value" {
		g.value = true
		g.base = kit.Choose(r, []string{"none", "earlier", "later", "later", "cancelled-during"})
	}
	switch g.base {
	case "none":
		g.timeout = short
	case "earlier":
		g.timeout, g.parentAfter = kit.Choose(r, []time.Duration{far, 3 * short}), short
	case "later":
		g.timeout, g.parentAfter = short, far
	case "cancelled-before":
		g.timeout, g.preCancel = far, true
		if r.Bool() {
			g.parentAfter = kit.Choose(r, []time.Duration{far / 2, 2 * far})
		}
	case "cancelled-during":
		g.timerDriven, g.timeout = false, far
		if r.Bool() {
			g.parentAfter = kit.Choose(r, []time.Duration{far / 2, 2 * far})
		}
	}
	return g
}

func restGridCase(c *kit.Case) {
	if skipIfStuck(c) {
		return
	}
	r := c.R
	rp := reporter{c, "rest-grid"}
	base := genScript(r, fmt.Sprintf("g%d", c.Index), false)
	base.Panic = false
	n := len(base.Actions)
	type job struct {
		sc script
		pl plan
		x  *restExec
		ok bool
	}
	var jobs []*job
	for _, pk := range gridParents {
		for _, wk := range gridWorks {
			g := gridParent(r, pk)
			pl := plan{ParentKind: pk, WorkKind: wk, Pos: -1, Timeout: g.timeout, ParentAfter: g.parentAfter, PreCancel: g.preCancel, ParentValue: g.value}
			sc := base
			pos := r.Intn(n + 1)
			if g.timerDriven {
				switch wk {
				case "fast":
					pl.Mode = "timer"
				case "honours":
					pl.Mode, pl.Pos = "timer-wait-ctx", pos
				case "ignores":
					pl.Mode, pl.Pos = "timer-block", pos
				case "panic-before":
					pl.Mode, sc.Panic = "timer", true
				case "panic-after":
					pl.Mode, pl.Pos, sc.Panic = "timer-block", n, true
				}
			} else {
				switch wk {
				case "fast":
					pl.Mode, pl.Pos = "concurrent", pos
				case "honours":
					pl.Mode, pl.Pos = "inline", pos
				case "ignores":
					pl.Mode, pl.Pos = "block", pos
				case "panic-before":
					pl.Mode, sc.Panic = "none", true
				case "panic-after":
					pl.Mode, pl.Pos, sc.Panic = "block", n, true
				}
			}
			jobs = append(jobs, &job{sc: sc, pl: pl})
		}
	}
	kit.WithLabel(c.ID, func() {
		var wg sync.WaitGroup
		for _, j := range jobs {
			wg.Add(1)
			go func(j *job) {
				defer wg.Done()
				j.x = newRestExec(j.sc, j.pl)
				j.ok = j.x.run(handler.TimeoutHandler(j.pl.Timeout)(http.HandlerFunc(j.x.serve)))
			}(j)
		}
		wg.Wait()
	})
	evals := int64(0)
	for _, j := range jobs {
		if !j.ok {
			c.Inconclusive("could not join the work goroutine (rest grid)")
			continue
		}
		v := j.x.evaluate(rp)
		evals++
		cell := j.pl.ParentKind + "/" + j.pl.WorkKind
		c.Obs("rg_cells", 1)
		c.Obs("rg_outcome_"+v.Outcome, 1)
		c.Obs("rg_"+j.pl.ParentKind+"_"+v.Outcome, 1)
		if j.pl.WorkKind == "ignores" || j.pl.WorkKind == "panic-after" {
			c.Obs("rg_causal_release_checks", 1)
			if !j.x.blockTimeout {
				c.Obs("rg_returned_while_work_blocked", 1)
				c.Obs("rg_returned_while_work_blocked_"+j.pl.ParentKind, 1)
			}
		}
		if j.pl.ParentValue && j.x.valueSeen {
			c.Obs("rg_caller_value_visible_to_work", 1)
		}
		if j.x.hasParentDl && j.x.seenOk && j.x.seenDl.Equal(j.x.parentDl) {
			c.Obs("rg_deadline_is_callers", 1)
		}
		c.Sig(v.Contended || j.pl.WorkKind == "ignores" || j.pl.WorkKind == "panic-after", "rest-grid", cell, j.pl.Mode, j.pl.PreCancel, j.pl.ParentAfter > 0, j.pl.ParentAfter > j.pl.Timeout, j.sc.shape(), v.Outcome, v.Sig)
		if j.x.blockTimeout {
			sc, pl, x := j.sc, j.pl, j.x
			st := x.rec.snapshot()
			waitCheck(rp, x.blockKind+"/parent-"+pl.ParentKind+"/work-"+pl.WorkKind, func(p time.Duration) (bool, bool) {
				y := newRestExec(sc, pl)
				y.patience = p
				if !y.run(handler.TimeoutHandler(pl.Timeout)(http.HandlerFunc(y.serve))) {
					return false, false
				}
				return y.blockTimeout, true
			}, func() any { return x.witness(st) })
		}
	}
	c.Sample("rest-grid", 1, map[string]any{"script": base, "cells": len(jobs), "example_plan": jobs[12].pl})
	c.Evals(evals)
	census(c, rp)
}

func fxGridCase(c *kit.Case) {
	if skipIfStuck(c) {
		return
	}
	r := c.R
	rp := reporter{c, "fx-grid"}
	type job struct {
		pl  fxPlan
		tag string
		x   *fxExec
		ok  bool
	}
	var jobs []*job
	for _, pk := range gridParents {
		for _, wk := range gridWorks {
			g := gridParent(r, pk)
			pl := fxPlan{ParentKind: pk, WorkKind: wk, Timeout: g.timeout, ParentAfter: g.parentAfter, PreCancel: g.preCancel, ParentValue: g.value,
				Ret: kit.Choose(r, []string{"nil", "err"}), Jitter: r.Pick(4, 2, 1, 1)}
			if g.timerDriven {
				switch wk {
				case "fast":
					pl.Mode = "timer"
				case "honours":
					pl.Mode = "timer-wait-parent"
				case "ignores":
					pl.Mode = "timer-block"
				case "panic-before":
					pl.Mode, pl.Ret = "timer", "panic"
				case "panic-after":
					pl.Mode, pl.Ret = "timer-block", "panic"
				}
			} else {
				switch wk {
				case "fast":
					pl.Mode = "concurrent"
				case "honours":
					pl.Mode = "inline"
				case "ignores":
					pl.Mode = "block"
				case "panic-before":
					pl.Mode, pl.Ret = "none", "panic"
				case "panic-after":
					pl.Mode, pl.Ret = "block", "panic"
				}
			}
			if pk == "none" && r.Chance(0.4) {
				pl.NoOption = true // DoWithTimeout(fn, d) without fx.WithContext
			}
			jobs = append(jobs, &job{pl: pl, tag: fmt.Sprintf("fg%d-%d", c.Index, len(jobs))})
		}
	}
	kit.WithLabel(c.ID, func() {
		var wg sync.WaitGroup
		for _, j := range jobs {
			wg.Add(1)
			go func(j *job) {
				defer wg.Done()
				j.x = newFxExec(j.pl, j.tag)
				j.ok = j.x.run()
			}(j)
		}
		wg.Wait()
	})
	evals := int64(0)
	for _, j := range jobs {
		if !j.ok {
			c.Inconclusive("could not join fn (fx grid)")
			continue
		}
		v := j.x.evaluate(rp)
		evals++
		c.Obs("fg_cells", 1)
		c.Obs("fg_outcome_"+v.Outcome, 1)
		c.Obs("fg_"+j.pl.ParentKind+"_"+v.Outcome, 1)
		if j.pl.WorkKind == "ignores" || j.pl.WorkKind == "panic-after" {
			c.Obs("fg_causal_release_checks", 1)
			if !j.x.blockTimeout {
				c.Obs("fg_returned_while_work_blocked", 1)
				c.Obs("fg_returned_while_work_blocked_"+j.pl.ParentKind, 1)
			}
		}
		c.Sig(v.Contended || j.pl.WorkKind == "ignores" || j.pl.WorkKind == "panic-after", "fx-grid", j.pl.ParentKind, j.pl.WorkKind, j.pl.Mode, j.pl.Ret, j.pl.NoOption, j.pl.ParentAfter > 0, j.pl.ParentAfter > j.pl.Timeout, v.Outcome, v.Sig)
		if j.x.blockTimeout {
			pl, tag, x := j.pl, j.tag, j.x
			waitCheck(rp, "parent-"+pl.ParentKind+"/work-"+pl.WorkKind, func(p time.Duration) (bool, bool) {
				y := newFxExec(pl, tag)
				y.patience = p
				if !y.run() {
					return false, false
				}
				return y.blockTimeout, true
			}, func() any { return x.witness() })
		}
	}
	c.Sample("fx-grid", 1, map[string]any{"cells": len(jobs), "example_plan": jobs[12].pl})
	c.Evals(evals)
	census(c, rp)
}

// ---------------------------------------------------------------- e2e-config

type xRoute struct {
	Path    string        `json:"path"`
	Class   string        `json:"class"` // default | short | mid | long | sse | sse-timeout
	Group   int           `json:"group"`
	Timeout time.Duration `json:"route_timeout,omitempty"` // rest.WithTimeout of its group (0: none)
	SSE     bool          `json:"sse,omitempty"`           // rest.WithSSE of its group
	Eff     time.Duration `json:"effective_timeout"`       // what applies to a non-exempt request (0: no timeout at all)
}

type xCfg struct {
	Name      string        `json:"name"`
	Global    time.Duration `json:"global_timeout"`
	MwTimeout bool          `json:"timeout_middleware"`
	Small     time.Duration `json:"smallest_configured_timeout"` // an "overrun" handler works 3 × this long, ignoring its context
	Routes    []xRoute      `json:"routes"`
}

const bigTimeout = 60 * time.Second // keeps http.Server.WriteTimeout (1.1 × the largest route timeout) out of the way

func e2eConfigs() []xCfg {
	ms := time.Millisecond
	return []xCfg{
		{Name: "middleware-off", Global: 20 * ms, MwTimeout: false, Small: 15 * ms, Routes: []xRoute{
			{Path: "/d", Class: "default", Group: 0}, {Path: "/s", Class: "short", Group: 1, Timeout: 15 * ms}, {Path: "/big", Class: "long", Group: 2, Timeout: bigTimeout}}},
		{Name: "global-zero", Global: 0, MwTimeout: true, Small: 25 * ms, Routes: []xRoute{
			{Path: "/d", Class: "default", Group: 0}, {Path: "/d2", Class: "default", Group: 0}, {Path: "/s", Class: "short", Group: 1, Timeout: 25 * ms, Eff: 25 * ms},
			{Path: "/big", Class: "long", Group: 2, Timeout: bigTimeout, Eff: bigTimeout}}},
		{Name: "groups", Global: 30 * ms, MwTimeout: true, Small: 15 * ms, Routes: []xRoute{
			{Path: "/d1", Class: "default", Group: 0, Eff: 30 * ms}, {Path: "/d2", Class: "default", Group: 0, Eff: 30 * ms},
			{Path: "/s", Class: "short", Group: 1, Timeout: 15 * ms, Eff: 15 * ms},
			{Path: "/m1", Class: "mid", Group: 2, Timeout: 45 * ms, Eff: 45 * ms}, {Path: "/m2", Class: "mid", Group: 2, Timeout: 45 * ms, Eff: 45 * ms},
			{Path: "/big", Class: "long", Group: 3, Timeout: bigTimeout, Eff: bigTimeout}}},
		{Name: "global-long", Global: bigTimeout, MwTimeout: true, Small: 15 * ms, Routes: []xRoute{
			{Path: "/s", Class: "short", Group: 0, Timeout: 15 * ms, Eff: 15 * ms},
			{Path: "/d1", Class: "default", Group: 1, Eff: bigTimeout},
			{Path: "/m", Class: "mid", Group: 2, Timeout: 40 * ms, Eff: 40 * ms},
			{Path: "/d2", Class: "default", Group: 3, Eff: bigTimeout}}},
		{Name: "sse", Global: 20 * ms, MwTimeout: true, Small: 15 * ms, Routes: []xRoute{
			{Path: "/sse", Class: "sse", Group: 0, SSE: true, Eff: 20 * ms},
			{Path: "/sse-t", Class: "sse-timeout", Group: 1, SSE: true, Timeout: 15 * ms, Eff: 15 * ms},
			{Path: "/d", Class: "default", Group: 2, Eff: 20 * ms},
			{Path: "/big", Class: "long", Group: 3, Timeout: bigTimeout, Eff: bigTimeout}}},
	}
}

type xReq struct {
	Route  int                 `json:"route"`
	Mode   string              `json:"mode"` // fast | ignore | wait-ctx | overrun | sse-stream
	Tag    string              `json:"tag"`
	Status int                 `json:"status"`
	Chunks int                 `json:"chunks"`
	Header map[string][]string `json:"header,omitempty"`
	Exempt string              `json:"exempt,omitempty"` // "" | must (the statement says exempt) | maybe (either treatment is legal)
	HName  string              `json:"header_spelling,omitempty"`

	release   chan struct{}
	firstRead chan struct{}
	done      chan struct{}
	patience  time.Duration
	overrun   time.Duration

	mu        sync.Mutex
	ran       bool
	t1        time.Time
	seenDl    time.Time
	seenOk    bool
	blockedTO bool
	ackTO     bool
	bailed    bool
	lateErrs  int
	flusher   bool
}

func (q *xReq) chunk(i int) string {
	return fmt.Sprintf("[%s-w%d:%s]", q.Tag, i, strings.Repeat("z", 40*i+3))
}

func (q *xReq) fullBody() string {
	var sb strings.Builder
	for i := 0; i < q.Chunks; i++ {
		sb.WriteString(q.chunk(i))
	}
	return sb.String()
}

type xResult struct {
	status int
	hdr    http.Header
	body   string
	t0     time.Time
	tResp  time.Time
	err    error
	joined bool
}

type xServer struct {
	cfg    xCfg
	port   int
	name   string
	client *http.Client
	mu     sync.Mutex
	reqs   map[string]*xReq
}

func (s *xServer) serve(ri int) http.HandlerFunc {
	rt := s.cfg.Routes[ri]
	return func(w http.ResponseWriter, req *http.Request) {
		s.mu.Lock()
		q := s.reqs[req.URL.Query().Get("id")]
		s.mu.Unlock()
		if q == nil {
			io.WriteString(w, "probe:"+s.name)
			return
		}
		defer close(q.done)
		ctx := req.Context()
		t1 := time.Now()
		dl, ok := ctx.Deadline()
		fl, isFl := w.(http.Flusher)
		q.mu.Lock()
		q.ran, q.t1, q.seenDl, q.seenOk, q.flusher = true, t1, dl, ok, isFl
		q.mu.Unlock()
		head := func() {
			w.Header().Set("X-Verif-Tag", q.Tag)
			w.Header().Set("X-Verif-Route", rt.Path)
			if q.Status != 200 {
				w.WriteHeader(q.Status)
			}
		}
		put := func(i int) {
			if _, err := io.WriteString(w, q.chunk(i)); err != nil {
				q.mu.Lock()
				q.lateErrs++
				q.mu.Unlock()
			}
		}
		write := func() {
			head()
			for i := 0; i < q.Chunks; i++ {
				put(i)
			}
		}
		// "ignore"/"wait-ctx" sit out a deadline only if it is the configured one (a later or missing
		// deadline is reported by the oracle)
		sane := ok && rt.Eff > 0 && rt.Eff < time.Second && !dl.After(t1.Add(rt.Eff))
		switch q.Mode {
		case "fast":
			write()
		case "overrun":
			time.Sleep(q.overrun)
			write()
		case "ignore":
			if !sane {
				q.mu.Lock()
				q.bailed = true
				q.mu.Unlock()
				write()
				return
			}
			if !blockUntil(q.release, q.patience) {
				q.mu.Lock()
				q.blockedTO = true
				q.mu.Unlock()
			}
			write()
		case "wait-ctx":
			if !sane {
				q.mu.Lock()
				q.bailed = true
				q.mu.Unlock()
				write()
				return
			}
			select {
			case <-ctx.Done():
			case <-q.release:
			}
			write()
		case "sse-stream":
			// first event, flushed; then wait until the client HAS it (causal: shows write-through),
			// then outlive every configured timeout, then the remaining events
			head()
			put(0)
			if isFl {
				fl.Flush()
			}
			if !blockUntil(q.firstRead, q.patience) {
				q.mu.Lock()
				q.ackTO = true
				q.mu.Unlock()
			}
			time.Sleep(q.overrun)
			for i := 1; i < q.Chunks; i++ {
				put(i)
				if isFl {
					fl.Flush()
				}
			}
		}
	}
}

func startXServer(c *kit.Case, cfg xCfg) *xServer {
	port, err := freePort()
	if err != nil {
		c.Inconclusive("no free port: " + err.Error())
		return nil
	}
	s := &xServer{cfg: cfg, port: port, name: fmt.Sprintf("verifc04x-%d", c.Index), reqs: map[string]*xReq{}}
	var conf rest.RestConf
	conf.Host = "127.0.0.1"
	conf.Port = port
	conf.Name = s.name
	conf.Log.Mode = "console"
	conf.Log.Level = "severe"
	conf.Timeout = int64(cfg.Global / time.Millisecond)
	conf.MaxBytes = 1 << 20
	conf.Middlewares.Timeout = cfg.MwTimeout
	conf.Middlewares.Recover = true
	conf.Middlewares.Log = true
	conf.Middlewares.MaxBytes = true
	conf.Middlewares.Gunzip = true
	srv, err := rest.NewServer(conf)
	if err != nil {
		c.Inconclusive("rest.NewServer: " + err.Error())
		return nil
	}
	logx.Disable()
	groups := map[int][]int{}
	var order []int
	for i, rt := range cfg.Routes {
		if _, ok := groups[rt.Group]; !ok {
			order = append(order, rt.Group)
		}
		groups[rt.Group] = append(groups[rt.Group], i)
	}
	sort.Ints(order)
	for _, g := range order {
		var rs []rest.Route
		var opts []rest.RouteOption
		for _, i := range groups[g] {
			rs = append(rs, rest.Route{Method: http.MethodGet, Path: cfg.Routes[i].Path, Handler: s.serve(i)})
		}
		first := cfg.Routes[groups[g][0]]
		// WithSSE first: it also resets the group's timeout, so rest.WithTimeout has to come after it to
		// take effect (the last option wins; the statement says nothing about the order of options)
		if first.SSE {
			opts = append(opts, rest.WithSSE())
		}
		if first.Timeout > 0 {
			opts = append(opts, rest.WithTimeout(first.Timeout))
		}
		srv.AddRoutes(rs, opts...)
	}
	startPanic := make(chan any, 1)
	go func() {
		defer func() {
			if p := recover(); p != nil {
				startPanic <- p
			}
		}()
		srv.Start()
	}()
	up := false
	for i := 0; i < 600 && !up; i++ {
		select {
		case p := <-startPanic:
			c.Inconclusive(fmt.Sprintf("rest.Server could not start (port taken?): %v", p))
			return nil
		default:
		}
		conn, err := net.DialTimeout("tcp", fmt.Sprintf("127.0.0.1:%d", port), 100*time.Millisecond)
		if err == nil {
			conn.Close()
			up = true
			break
		}
		time.Sleep(10 * time.Millisecond)
	}
	if !up {
		c.Inconclusive("rest.Server did not start listening")
		return nil
	}
	s.client = &http.Client{Timeout: 45 * time.Second, Transport: &http.Transport{MaxIdleConnsPerHost: 4}}
	resp, err := s.client.Get(fmt.Sprintf("http://127.0.0.1:%d%s?id=probe", port, cfg.Routes[len(cfg.Routes)-1].Path))
	if err != nil {
		c.Inconclusive("probe request failed: " + err.Error())
		return nil
	}
	b, _ := io.ReadAll(resp.Body)
	resp.Body.Close()
	if string(b) != "probe:"+s.name {
		c.Inconclusive("the loopback port is not served by this case's rest.Server")
		return nil
	}
	return s
}

func (s *xServer) do(q *xReq) xResult {
	s.mu.Lock()
	s.reqs[q.Tag] = q
	s.mu.Unlock()
	hreq, _ := http.NewRequest(http.MethodGet, fmt.Sprintf("http://127.0.0.1:%d%s?id=%s", s.port, s.cfg.Routes[q.Route].Path, q.Tag), nil)
	for k, vv := range q.Header {
		hreq.Header[k] = append([]string(nil), vv...) // as spelled (the client does not canonicalise map keys)
	}
	res := xResult{t0: time.Now()}
	resp, err := s.client.Do(hreq)
	if err == nil {
		var body []byte
		if q.Mode == "sse-stream" {
			first := make([]byte, len(q.chunk(0)))
			n, _ := io.ReadFull(resp.Body, first)
			body = append(body, first[:n]...)
			close(q.firstRead) // the client holds the first event (or the stream ended)
			var rest []byte
			rest, err = io.ReadAll(resp.Body)
			body = append(body, rest...)
		} else {
			body, err = io.ReadAll(resp.Body)
		}
		resp.Body.Close()
		res.status, res.hdr, res.body = resp.StatusCode, resp.Header, string(body)
	} else if q.Mode == "sse-stream" {
		close(q.firstRead)
	}
	res.err = err
	res.tResp = time.Now()
	close(q.release) // causal release: a blocked handler is let go only after the client has its response
	wd := joinWatchdog
	if err != nil {
		wd = 2 * time.Second
	}
	t := time.NewTimer(wd)
	select {
	case <-q.done:
		res.joined = true
	case <-t.C:
		res.joined = err != nil
	}
	t.Stop()
	return res
}

type xPick struct {
	route  int
	hdr    map[string][]string
	hname  string
	exempt string
	modes  []string
}

func e2eConfigCase(c *kit.Case) {
	if skipIfStuck(c) {
		return
	}
	r := c.R
	rp := reporter{c, "e2e-config"}
	cfgs := e2eConfigs()
	cfg := cfgs[c.Index%len(cfgs)]
	s := startXServer(c, cfg)
	if s == nil {
		return
	}
	defer s.client.CloseIdleConnections()
	c.Obs("e2ec_servers_"+cfg.Name, 1)

	wsExact := map[string][]string{"Upgrade": {"websocket"}}
	sseExact := map[string][]string{"Accept": {"text/event-stream"}}
	var menu []xPick
	for i, rt := range cfg.Routes {
		switch {
		case rt.SSE:
			// only through the entries below: what rest.WithSSE changes for a request that does not
			// announce itself as an event-stream request is not part of the statement
		case rt.Eff == 0:
			menu = append(menu, xPick{route: i, modes: []string{"fast", "overrun", "overrun"}})
			menu = append(menu, xPick{route: i, hdr: sseExact, hname: "sse-exact", exempt: "must", modes: []string{"overrun", "sse-stream"}})
		case rt.Eff >= time.Second:
			menu = append(menu, xPick{route: i, modes: []string{"fast", "overrun", "overrun"}})
		default:
			menu = append(menu, xPick{route: i, modes: []string{"fast", "ignore", "ignore", "wait-ctx", "overrun"}})
			menu = append(menu, xPick{route: i, modes: []string{"ignore", "wait-ctx", "overrun"}})
		}
		if cfg.Name == "sse" && rt.Eff < time.Second {
			menu = append(menu,
				xPick{route: i, hdr: sseExact, hname: "sse-exact", exempt: "must", modes: []string{"sse-stream", "sse-stream", "overrun", "fast"}},
				xPick{route: i, hdr: wsExact, hname: "ws-exact", exempt: "must", modes: []string{"overrun", "fast", "sse-stream"}},
				xPick{route: i, hdr: map[string][]string{"accept": {"text/event-stream"}}, hname: "sse-lowercase-name", exempt: "must", modes: []string{"overrun", "sse-stream"}},
				xPick{route: i, hdr: map[string][]string{"UPGRADE": {"websocket"}, "connection": {"upgrade"}}, hname: "ws-uppercase-name", exempt: "must", modes: []string{"overrun", "fast"}},
				xPick{route: i, hdr: map[string][]string{"Accept": {"text/event-stream  "}}, hname: "sse-trailing-blanks", exempt: "maybe", modes: []string{"overrun", "fast"}},
				xPick{route: i, hdr: map[string][]string{"Upgrade": {"WebSocket"}, "Connection": {"Upgrade"}}, hname: "ws-capitalised", exempt: "maybe", modes: []string{"overrun", "fast"}},
				xPick{route: i, hdr: map[string][]string{"Accept": {"text/event-stream, */*"}}, hname: "sse-with-fallback", exempt: "maybe", modes: []string{"overrun", "fast"}},
				xPick{route: i, hdr: map[string][]string{"Accept": {"text/html", "text/event-stream"}}, hname: "sse-second-line", exempt: "maybe", modes: []string{"overrun"}},
			)
			if rt.SSE {
				// a request to an SSE route that does not announce itself: the statement exempts event-stream
				// REQUESTS, it does not say what a route option changes — either treatment is accepted
				menu = append(menu, xPick{route: i, hname: "sse-route-plain-request", exempt: "maybe", modes: []string{"fast", "overrun"}})
			}
		}
	}
	nreq := 14
	evals := int64(0)
	for i := 0; i < nreq; i++ {
		pk := menu[r.Intn(len(menu))]
		if i < len(menu) && r.Chance(0.5) {
			pk = menu[(i+c.Index/len(cfgs))%len(menu)] // walk the menu as well, so that every entry is reached
		}
		q := &xReq{Route: pk.route, Mode: kit.Choose(r, pk.modes), Tag: fmt.Sprintf("x%d-%d", c.Index, i), Status: kit.Choose(r, []int{200, 200, 201, 404, 500}),
			Chunks: r.Intn(4), Header: pk.hdr, Exempt: pk.exempt, HName: pk.hname,
			release: make(chan struct{}), firstRead: make(chan struct{}), done: make(chan struct{}), patience: patience(), overrun: 3 * cfg.Small}
		if q.Mode == "sse-stream" {
			q.Chunks = 2 + r.Intn(2)
			q.Status = 200
		}
		rt := cfg.Routes[q.Route]
		res := s.do(q)
		if !res.joined {
			c.Inconclusive("e2e-config handler did not finish")
			return
		}
		if res.err != nil {
			c.Inconclusive("e2e-config request failed: " + res.err.Error())
			c.Obs("e2ec_transport_errors", 1)
			continue
		}
		evals++
		c.Obs("e2ec_requests", 1)
		q.mu.Lock()
		wit := map[string]any{"config": cfg, "route": rt, "request": q, "status": res.status, "x_verif_tag": res.hdr.Get("X-Verif-Tag"), "content_type": res.hdr.Get("Content-Type"),
			"body": clip(res.body, 300), "deadline_seen": fmtDl(q.seenDl, q.seenOk), "work_started": q.t1.Format(time.RFC3339Nano),
			"elapsed_at_response": res.tResp.Sub(res.t0).String(), "handler_patience_ran_out": q.blockedTO, "first_event_not_read_while_handler_waited": q.ackTO}
		cls := cfg.Name + "/" + rt.Class
		// which treatment applies
		treat := "wrapped"
		switch {
		case q.Exempt == "must":
			treat = "exempt"
		case rt.Eff == 0:
			treat = "no-timeout"
		case q.Exempt == "maybe" && !q.seenOk:
			treat = "exempt"
			c.Obs("e2ec_maybe_exempt_treated_as_exempt_"+q.HName, 1)
		case q.Exempt == "maybe":
			c.Obs("e2ec_maybe_exempt_treated_as_wrapped_"+q.HName, 1)
		}
		c.Obs("e2ec_treat_"+treat, 1)
		complete := res.status == q.Status && res.body == q.fullBody() && res.hdr.Get("X-Verif-Tag") == q.Tag && res.hdr.Get("X-Verif-Route") == rt.Path
		timeout := res.status == 503 && res.body == timeoutBody && res.hdr.Get("X-Verif-Tag") == "" && res.hdr.Get("X-Verif-Route") == ""
		outcome := "mixture"
		mixKind := func() string {
			switch {
			case (res.status == 503 || res.status == 499) && res.hdr.Get("X-Verif-Tag") != "":
				return "work-headers-on-timeout-result"
			case strings.Contains(res.body, timeoutBody) && strings.Contains(res.body, "["+q.Tag):
				return "work-body-and-timeout-body"
			case res.body == q.fullBody() && res.status == q.Status:
				return "headers-differ"
			case strings.HasPrefix(q.fullBody(), res.body) && res.status == q.Status:
				return "partial-body"
			}
			return "other"
		}
		if treat != "wrapped" {
			// no timeout wrapper applies: the caller's context (net/http's: no deadline), the complete result
			c.Obs("e2ec_no_deadline_checks", 1)
			if q.seenOk {
				kind := "imposed-although-disabled"
				if treat == "exempt" {
					kind = "imposed-on-exempt-request"
				}
				rp.viol("deadline", kind+"/"+cls, fmt.Sprintf("the handler ran under a deadline %s after it started although no timeout applies (%s)", q.seenDl.Sub(q.t1), treat), wit)
			}
			switch {
			case complete:
				outcome = "complete"
			case timeout:
				outcome = "timeout"
				rp.viol("timeout-result-without-expiry", treat+"/"+cls, "503 Request Timeout although no timeout applies to this request", wit)
			default:
				rp.viol("mixture", mixKind()+"/"+treat, fmt.Sprintf("not the complete result: status %d body %q", res.status, clip(res.body, 100)), wit)
			}
			if q.Mode == "sse-stream" {
				c.Obs("e2ec_sse_streams", 1)
				if q.flusher && !q.ackTO {
					c.Obs("e2ec_sse_first_event_read_while_handler_waited", 1)
				}
				if rt.SSE && res.hdr.Get("Content-Type") == "text/event-stream" {
					c.Obs("e2ec_sse_route_content_type_set", 1)
				}
			}
		} else {
			d := rt.Eff
			c.Obs("e2ec_deadline_checks", 1)
			switch {
			case !q.seenOk:
				rp.viol("deadline", "none-seen/"+cls, "the handler ran without a deadline although a timeout is configured", wit)
			case q.seenDl.After(q.t1.Add(d)):
				rp.viol("deadline", "later-than-configured/"+cls, fmt.Sprintf("the handler saw a deadline %s after it started; the effective timeout of this route is %s", q.seenDl.Sub(q.t1), d), wit)
			}
			switch {
			case complete:
				outcome = "complete"
				if q.Mode == "ignore" && !q.bailed && !q.blockedTO {
					rp.viol("complete-before-work-returned", cls, "the client received the complete result while the handler was still blocked", wit)
				}
			case timeout:
				outcome = "timeout"
				if res.tResp.Before(res.t0.Add(d)) {
					rp.viol("timeout-result-without-expiry", "wrapped/"+cls, fmt.Sprintf("503 after %s, before the effective timeout %s could have passed", res.tResp.Sub(res.t0), d), wit)
				}
			default:
				rp.viol("mixture", mixKind()+"/wrapped", fmt.Sprintf("neither the complete result nor the timeout result: status %d body %q", res.status, clip(res.body, 100)), wit)
			}
		}
		blockedTO, ackTO := q.blockedTO, q.ackTO
		q.mu.Unlock()
		if (blockedTO || (ackTO && treat != "wrapped")) && !waitBroken.Load() {
			// a blocked handler ran out of patience before the client had (the first part of) its response:
			// confirm the dependency with doubled patience (DESIGN §3.5)
			q2 := &xReq{Route: q.Route, Mode: q.Mode, Tag: q.Tag + "-again", Status: q.Status, Chunks: q.Chunks, Header: q.Header, Exempt: q.Exempt, HName: q.HName,
				release: make(chan struct{}), firstRead: make(chan struct{}), done: make(chan struct{}), patience: 2 * basePatience, overrun: q.overrun}
			res2 := s.do(q2)
			q2.mu.Lock()
			again := (blockedTO && q2.blockedTO) || (ackTO && q2.ackTO)
			q2.mu.Unlock()
			switch {
			case !res2.joined || res2.err != nil:
				c.Inconclusive("e2e-config does-not-wait re-run failed")
			case again && blockedTO:
				waitBroken.Store(true)
				rp.viol("waits-for-work", cls, fmt.Sprintf("no response while a handler that ignores its context was blocked (effective timeout %s): patience %s and again %s ran out", rt.Eff, basePatience, 2*basePatience), wit)
			case again:
				waitBroken.Store(true)
				rp.viol("exempt", "buffered/"+cls, fmt.Sprintf("the first flushed event of a request no timeout applies to (%s) did not reach the client while the handler waited for it (%s and again %s): the response is held back", treat, basePatience, 2*basePatience), wit)
			default:
				c.Inconclusive("e2e-config: a blocked handler ran out of patience once, not reproduced with doubled patience")
			}
		} else if blockedTO || ackTO {
			c.Obs("wait_dependency_after_first_report", 1)
		}
		c.Obs("e2ec_outcome_"+outcome, 1)
		c.Obs("e2ec_"+cfg.Name+"_"+outcome, 1)
		contended := outcome == "timeout" || (outcome == "complete" && (q.Mode == "wait-ctx" || q.Mode == "overrun" || q.Mode == "sse-stream"))
		c.Sig(contended, "e2e-config", cfg.Name, rt.Path, q.Mode, q.HName, treat, q.Status, q.Chunks, outcome)
		if contended {
			c.Sample("e2e-config", 1, map[string]any{"config": cfg.Name, "route": rt, "request": q, "treatment": treat, "outcome": outcome})
		}
	}
	c.Evals(evals)
}

var _ = context.Background
