package c04

// e2e-slow: works that are slow but finish IN TIME (and works that clearly overrun), end to end
// through really started rest servers.
//
// One case = one set of 2-4 route groups (no option / rest.WithTimeout(T) for T from well below to
// well above the server-wide RestConf.Timeout / rest.WithSSE) registered on 2-3 servers in DIFFERENT
// ORDERS (through AddRoutes or route by route through AddRoute), every server started for real on a
// loopback port (http.Server with the Read/WriteTimeout go-zero derives from its routes). All
// requests of a case run concurrently, each on a connection of its own. The work of a request runs
// for a REAL duration chosen relative to the deadlines: clearly inside the effective timeout of its
// route but longer than 1.1 x / 2 x the server-wide timeout and longer than the timeouts of other
// groups ("slow-in-time", "late-in-time", "early-late": part of the body first, the rest at the
// end), or clearly beyond it ("overrun", ignoring its context; "overrun-honour", returning when
// the context is done), or about as long ("near").
//
// Oracle (the statement's): a request to a route a timeout applies to is answered with the work's
// complete result (status, headers, whole body) or with the timeout result (503, "Request
// Timeout", none of the work's headers); anything else that arrives is a mixture. Which of the two
// is decided from the harness's own monotonic stamps, never from the plan:
//
//   - the timeout result is legal only if the configured timeout can have passed: the client holds
//     it no earlier than (stamp before the request was sent) + effective timeout — sound without
//     any tolerance (timers do not fire early);
//   - in time: the handler's stamp after its last write is at least `band` before (stamp before the
//     request was sent) + effective timeout  => the complete result is required;
//   - overran: that stamp is at least `band` after (handler entry) + effective timeout => a result
//     must still ARRIVE (the 503 is due at the deadline);
//   - otherwise (within the band, or "overrun-honour"): either result.
//
// band = max(effective timeout / 8, 300 ms) before, max(effective timeout / 8, 100 ms) after the
// deadline. A work that clearly overran and still got its result through is only counted (whether a
// wrapper waits for its work is decided causally by the e2e / e2e-config families, not from sleeps).
// A transport error / EOF / torn body is neither result
// ("no-result"). Every verdict that rests on the band (and every no-result verdict) is reported
// only if the same request, repeated twice more on the same server, shows the same symptom
// again both times: a loaded machine may delay a goroutine by more than the band once, go-zero
// cutting the connection of a route with a larger timeout does it every time. A no-result of a
// request whose answer is due AT its deadline (overran) is judged only on servers whose largest
// configured timeout is >= 2.5 s (the connection's write deadline is a multiple of it; with a small
// one a stalled machine alone may cut the 503).
//
// Exempt requests (Accept: text/event-stream, also to rest.WithSSE routes) and requests to routes
// no timeout applies to run next to the others; nothing is asserted about them except that a
// route without any timeout never answers with the timeout result.

import (
	"context"
	"errors"
	"fmt"
	"io"
	"net"
	"net/http"
	"strings"
	"sync"
	"sync/atomic"
	"time"

	"github.com/zeromicro/go-zero/core/logx"
	"github.com/zeromicro/go-zero/rest"

	"verifharness/kit"
)

type sGroup struct {
	Kind    string        `json:"kind"` // default | short | mid | long | sse
	Timeout time.Duration `json:"route_timeout,omitempty"`
	SSE     bool          `json:"sse,omitempty"`
	Paths   []string      `json:"paths"`
	Via     string        `json:"via"`               // AddRoutes (one call) | AddRoute (one call per path)
	Eff     time.Duration `json:"effective_timeout"` // what applies to a non-exempt request (0: none)
}

type sCfg struct {
	Global time.Duration `json:"global_timeout"`
	Groups []sGroup      `json:"groups"`
}

func (cf sCfg) maxTimeout() time.Duration {
	m := cf.Global
	for _, g := range cf.Groups {
		if g.Timeout > m {
			m = g.Timeout
		}
	}
	return m
}

type sReq struct {
	Server  int           `json:"server"`
	Group   int           `json:"group"`
	Path    string        `json:"path"`
	Kind    string        `json:"kind"` // fast | slow-in-time | late-in-time | early-late | overrun | overrun-honour | near | stream
	Work    time.Duration `json:"planned_work"`
	Tag     string        `json:"tag"`
	Status  int           `json:"status"`
	Chunks  int           `json:"chunks"`
	Treat   string        `json:"treatment"` // wrapped | unwrapped | exempt
	Accept  string        `json:"accept,omitempty"`
	Upgrade string        `json:"upgrade,omitempty"`

	done    chan struct{}
	entered atomic.Bool
	dups    atomic.Int32

	mu        sync.Mutex
	ran       bool
	t1, tEnd  time.Time
	seenDl    time.Time
	seenOk    bool
	ctxErrEnd string
	writeErrs int
	waitTO    bool
}

func (q *sReq) chunk(i int) string {
	return fmt.Sprintf("[%s-w%d:%s]", q.Tag, i, strings.Repeat("y", 60*i+5))
}

func (q *sReq) fullBody() string {
	var sb strings.Builder
	for i := 0; i < q.Chunks; i++ {
		sb.WriteString(q.chunk(i))
	}
	return sb.String()
}

// clone: the same request once more (confirming re-run).
func (q *sReq) clone(suffix string) *sReq {
	return &sReq{Server: q.Server, Group: q.Group, Path: q.Path, Kind: q.Kind, Work: q.Work, Tag: q.Tag + suffix, Status: q.Status,
		Chunks: q.Chunks, Treat: q.Treat, Accept: q.Accept, Upgrade: q.Upgrade, done: make(chan struct{})}
}

type sResult struct {
	status   int
	hdr      http.Header
	body     string
	t0       time.Time
	tResp    time.Time
	err      error
	errPhase string // request | body
	gaveUp   bool   // the client's own watchdog fired
	joined   bool
}

type sServer struct {
	idx    int
	cfg    sCfg
	order  []int
	port   int
	name   string
	hs     *http.Server
	wt, rt time.Duration // http.Server.WriteTimeout / ReadTimeout as started (witness only)
	client *http.Client
	mu     sync.Mutex
	reqs   map[string]*sReq
}

const sHonourWatchdog = 20 * time.Second

func (s *sServer) serve(gi int, path string) http.HandlerFunc {
	return func(w http.ResponseWriter, req *http.Request) {
		s.mu.Lock()
		q := s.reqs[req.URL.Query().Get("id")]
		s.mu.Unlock()
		if q == nil {
			io.WriteString(w, "probe:"+s.name)
			return
		}
		if !q.entered.CompareAndSwap(false, true) {
			q.dups.Add(1) // the same request delivered twice (a client retry): answered, not recorded
			io.WriteString(w, "dup:"+q.Tag)
			return
		}
		defer close(q.done)
		ctx := req.Context()
		t1 := time.Now()
		dl, ok := ctx.Deadline()
		fl, isFl := w.(http.Flusher)
		q.mu.Lock()
		q.ran, q.t1, q.seenDl, q.seenOk = true, t1, dl, ok
		q.mu.Unlock()
		nerr := 0
		head := func() {
			w.Header().Set("X-Verif-Tag", q.Tag)
			w.Header().Set("X-Verif-Route", path)
			if q.Status != 200 {
				w.WriteHeader(q.Status)
			}
		}
		put := func(i int) {
			if _, err := io.WriteString(w, q.chunk(i)); err != nil {
				nerr++
			}
		}
		waitTO := false
		switch q.Kind {
		case "early-late":
			head()
			if q.Chunks > 0 {
				put(0)
			}
			time.Sleep(q.Work)
			for i := 1; i < q.Chunks; i++ {
				put(i)
			}
		case "overrun-honour":
			t := time.NewTimer(q.Work + sHonourWatchdog)
			select {
			case <-ctx.Done():
			case <-t.C:
				waitTO = true
			}
			t.Stop()
			head()
			for i := 0; i < q.Chunks; i++ {
				put(i)
			}
		case "stream":
			head()
			for i := 0; i < q.Chunks; i++ {
				put(i)
				if isFl {
					fl.Flush()
				}
				time.Sleep(q.Work / time.Duration(q.Chunks))
			}
		default: // fast, slow-in-time, late-in-time, overrun, near: work first (ignoring the context), result at the end
			if q.Work > 0 {
				time.Sleep(q.Work)
			}
			head()
			for i := 0; i < q.Chunks; i++ {
				put(i)
			}
		}
		tEnd := time.Now()
		ce := ""
		if err := ctx.Err(); err != nil {
			ce = err.Error()
		}
		q.mu.Lock()
		q.tEnd, q.ctxErrEnd, q.writeErrs, q.waitTO = tEnd, ce, nerr, waitTO
		q.mu.Unlock()
	}
}

func startSServer(c *kit.Case, idx int, cfg sCfg, order []int) *sServer {
	port, err := freePort()
	if err != nil {
		c.Inconclusive("no free port: " + err.Error())
		return nil
	}
	s := &sServer{idx: idx, cfg: cfg, order: order, port: port, name: fmt.Sprintf("verifc04s-%d-%d", c.Index, idx), reqs: map[string]*sReq{}}
	var conf rest.RestConf
	conf.Host = "127.0.0.1"
	conf.Port = port
	conf.Name = s.name
	conf.Log.Mode = "console"
	conf.Log.Level = "severe"
	conf.Timeout = int64(cfg.Global / time.Millisecond)
	conf.MaxBytes = 1 << 20
	conf.Middlewares.Timeout = true
	conf.Middlewares.Recover = true
	conf.Middlewares.Log = true
	conf.Middlewares.MaxBytes = true
	conf.Middlewares.Gunzip = true
	srv := rest.MustNewServer(conf)
	logx.Disable()
	for _, gi := range order {
		g := cfg.Groups[gi]
		var opts []rest.RouteOption
		if g.SSE {
			opts = append(opts, rest.WithSSE())
		}
		if g.Timeout > 0 {
			opts = append(opts, rest.WithTimeout(g.Timeout))
		}
		if g.Via == "AddRoute" {
			for _, p := range g.Paths {
				srv.AddRoute(rest.Route{Method: http.MethodGet, Path: p, Handler: s.serve(gi, p)}, opts...)
			}
		} else {
			var rs []rest.Route
			for _, p := range g.Paths {
				rs = append(rs, rest.Route{Method: http.MethodGet, Path: p, Handler: s.serve(gi, p)})
			}
			srv.AddRoutes(rs, opts...)
		}
	}
	started := make(chan *http.Server, 1)
	startPanic := make(chan any, 1)
	go func() {
		defer func() {
			if p := recover(); p != nil {
				startPanic <- p
			}
		}()
		srv.StartWithOpts(func(hs *http.Server) { started <- hs })
	}()
	t := time.NewTimer(30 * time.Second)
	defer t.Stop()
	select {
	case s.hs = <-started:
		s.wt, s.rt = s.hs.WriteTimeout, s.hs.ReadTimeout
	case p := <-startPanic:
		c.Inconclusive(fmt.Sprintf("rest.Server could not start: %v", p))
		return nil
	case <-t.C:
		c.Inconclusive("rest.Server did not start")
		return nil
	}
	up := false
	for i := 0; i < 600 && !up; i++ {
		select {
		case p := <-startPanic:
			c.Inconclusive(fmt.Sprintf("rest.Server could not start (port taken?): %v", p))
			return nil
		default:
		}
		conn, err := net.DialTimeout("tcp", fmt.Sprintf("127.0.0.1:%d", port), 100*time.Millisecond)
		if err == nil {
			conn.Close()
			up = true
			break
		}
		time.Sleep(10 * time.Millisecond)
	}
	if !up {
		c.Inconclusive("rest.Server did not start listening")
		s.hs.Close()
		return nil
	}
	// a connection of its own for every request: no reuse, hence no silent retry of a GET by the transport
	s.client = &http.Client{Transport: &http.Transport{DisableKeepAlives: true, MaxConnsPerHost: 0}}
	probePath := cfg.Groups[order[0]].Paths[0]
	resp, err := s.client.Get(fmt.Sprintf("http://127.0.0.1:%d%s?id=probe", port, probePath))
	if err != nil {
		c.Inconclusive("probe request failed: " + err.Error())
		s.hs.Close()
		return nil
	}
	b, _ := io.ReadAll(resp.Body)
	resp.Body.Close()
	if string(b) != "probe:"+s.name {
		c.Inconclusive("the loopback port is not served by this case's rest.Server")
		s.hs.Close()
		return nil
	}
	return s
}

func (s *sServer) do(q *sReq) sResult {
	s.mu.Lock()
	s.reqs[q.Tag] = q
	s.mu.Unlock()
	ctx, cancel := context.WithTimeout(context.Background(), 60*time.Second) // watchdog only
	defer cancel()
	hreq, _ := http.NewRequestWithContext(ctx, http.MethodGet, fmt.Sprintf("http://127.0.0.1:%d%s?id=%s", s.port, q.Path, q.Tag), nil)
	if q.Accept != "" {
		hreq.Header.Set("Accept", q.Accept)
	}
	if q.Upgrade != "" {
		hreq.Header.Set("Upgrade", q.Upgrade)
	}
	res := sResult{t0: time.Now()}
	resp, err := s.client.Do(hreq)
	if err != nil {
		res.errPhase = "request"
	} else {
		var body []byte
		body, err = io.ReadAll(resp.Body)
		resp.Body.Close()
		res.status, res.hdr, res.body = resp.StatusCode, resp.Header, string(body)
		if err != nil {
			res.errPhase = "body"
		}
	}
	res.tResp = time.Now()
	res.err = err
	if err != nil && (errors.Is(err, context.DeadlineExceeded) || ctx.Err() != nil) {
		res.gaveUp = true
	}
	// the handler ends by itself (sleep / context / watchdog); join it
	wd := q.Work + sHonourWatchdog + 30*time.Second
	if err != nil && !q.entered.Load() {
		wd = 3 * time.Second // the request may never have reached the handler
	}
	t := time.NewTimer(wd)
	select {
	case <-q.done:
		res.joined = true
	case <-t.C:
		res.joined = !q.entered.Load()
	}
	t.Stop()
	return res
}

// sBand: how long before its deadline a work must have written its whole result to count as
// "clearly in time".
func sBand(eff time.Duration) time.Duration {
	b := eff / 8
	if b < 300*time.Millisecond {
		b = 300 * time.Millisecond
	}
	return b
}

// sBandAfter: how long after its deadline a work must still have been running to count as
// "clearly overran" (used only for: the timeout result must ARRIVE, see no-result/overran).
func sBandAfter(eff time.Duration) time.Duration {
	b := eff / 8
	if b < 100*time.Millisecond {
		b = 100 * time.Millisecond
	}
	return b
}

// slack of the connection's write deadline beyond the largest configured timeout below which a
// no-result of an answer that is due AT the deadline is not judged
const sMinMaxForDueAtDeadline = 2500 * time.Millisecond

type sVerdict struct {
	Outcome string // complete | timeout | timeout-499 | mixture | no-result | gave-up
	Decided string // in-time | overran | undecided | n/a
	Symptom string // "" or the violation kind+class that needs the confirming re-runs
	What    string
}

func sClass(cfg sCfg, order []int, gi int) string {
	g := cfg.Groups[gi]
	rel := "global-timeout"
	switch {
	case g.Timeout > 0 && g.Timeout > cfg.Global:
		rel = "route-timeout-above-global"
	case g.Timeout > 0:
		rel = "route-timeout-below-global"
	}
	pos := "registered-earlier"
	if order[len(order)-1] == gi {
		pos = "registered-last"
	}
	return rel + "/" + pos
}

// sJudge applies the oracle to one finished request. Sound violations (no band involved) are
// reported at once; the others are returned as a symptom for the confirming re-runs.
func sJudge(c *kit.Case, rp reporter, s *sServer, q *sReq, res sResult, report bool, wit map[string]any) sVerdict {
	g := s.cfg.Groups[q.Group]
	cls := sClass(s.cfg, s.order, q.Group)
	v := sVerdict{Decided: "n/a"}
	q.mu.Lock()
	ran, t1, tEnd, seenDl, seenOk := q.ran, q.t1, q.tEnd, q.seenDl, q.seenOk
	q.mu.Unlock()
	complete := res.err == nil && res.status == q.Status && res.body == q.fullBody() && res.hdr.Get("X-Verif-Tag") == q.Tag && res.hdr.Get("X-Verif-Route") == q.Path
	timeout := res.err == nil && res.status == 503 && res.body == timeoutBody && res.hdr.Get("X-Verif-Tag") == "" && res.hdr.Get("X-Verif-Route") == ""
	t499 := res.err == nil && res.status == 499 && res.body == timeoutBody && res.hdr.Get("X-Verif-Tag") == ""
	mixKind := func() string {
		switch {
		case (res.status == 503 || res.status == 499) && res.hdr.Get("X-Verif-Tag") != "":
			return "work-headers-on-timeout-result"
		case strings.Contains(res.body, timeoutBody) && strings.Contains(res.body, "["+q.Tag):
			return "work-body-and-timeout-body"
		case res.body == q.fullBody() && res.status == q.Status:
			return "headers-differ"
		case strings.HasPrefix(q.fullBody(), res.body) && res.status == q.Status:
			return "partial-body"
		}
		return "other"
	}
	switch {
	case res.gaveUp:
		v.Outcome = "gave-up"
	case res.err != nil:
		v.Outcome = "no-result"
	case complete:
		v.Outcome = "complete"
	case timeout:
		v.Outcome = "timeout"
	case t499:
		v.Outcome = "timeout-499"
	default:
		v.Outcome = "mixture"
	}
	if q.Treat != "wrapped" {
		// exempt / no timeout at all: nothing is asserted, except that without any timeout there is no timeout result
		if q.Treat == "unwrapped" && v.Outcome == "timeout" && report {
			rp.viol("timeout-result-without-expiry", "no-timeout/"+cls, "503 Request Timeout from a route no timeout applies to (server-wide timeout 0, no rest.WithTimeout)", wit)
		}
		return v
	}
	d := g.Eff
	band := sBand(d)
	if ran && report {
		switch {
		case !seenOk:
			rp.viol("deadline", "none-seen/"+cls, "the handler ran without a deadline although a timeout applies to its route", wit)
		case seenDl.After(t1.Add(d)):
			rp.viol("deadline", "later-than-configured/"+cls, fmt.Sprintf("the handler saw a deadline %s after it started; the effective timeout of its route is %s", seenDl.Sub(t1), d), wit)
		}
	}
	v.Decided = "undecided"
	if ran && !tEnd.IsZero() {
		switch {
		case q.Kind == "overrun-honour":
			// returned when its context was done: expiry and completion are concurrent, either result
		case !tEnd.After(res.t0.Add(d - band)):
			v.Decided = "in-time"
		case !tEnd.Before(t1.Add(d + sBandAfter(d))):
			v.Decided = "overran"
		}
	}
	dueAtDeadlineJudged := s.cfg.maxTimeout() >= sMinMaxForDueAtDeadline
	switch v.Outcome {
	case "gave-up":
		// the harness's own client watchdog: not a verdict
	case "mixture":
		if report {
			rp.viol("mixture", mixKind()+"/"+cls, fmt.Sprintf("neither the complete result nor the timeout result: status %d body %q", res.status, clip(res.body, 100)), wit)
		}
	case "timeout", "timeout-499":
		switch {
		case v.Outcome == "timeout" && res.tResp.Before(res.t0.Add(d)):
			if report {
				rp.viol("timeout-result-without-expiry", cls, fmt.Sprintf("503 Request Timeout held by the client %s after the request was sent: the effective timeout %s of this route cannot have passed", res.tResp.Sub(res.t0), d), wit)
			}
		case v.Outcome == "timeout" && v.Decided == "in-time":
			v.Symptom = "timeout-result-although-work-finished-in-time/" + cls
			v.What = fmt.Sprintf("the work wrote its whole result %s before its deadline could pass (effective timeout %s) and the client got the timeout result", res.t0.Add(d).Sub(tEnd), d)
		}
	case "complete":
		if v.Decided == "overran" {
			// the wrapper's timer was late by more than the band (or the wrapper waits for the work): whether a
			// wrapper waits is decided causally by the e2e / e2e-config families (handler blocked until the client
			// holds the response), not from sleeps - a loaded machine delays timers by hundreds of milliseconds
			c.Obs("e2es_overran_complete_not_judged", 1)
		}
	case "no-result":
		switch {
		case v.Decided == "in-time":
			v.Symptom = "no-result/in-time/" + cls
			v.What = fmt.Sprintf("the work wrote its whole result %s before its deadline could pass (effective timeout %s of this route) and the client got neither that result nor the timeout result: %v (%s)", res.t0.Add(d).Sub(tEnd), d, res.err, res.errPhase)
		case (v.Decided == "overran" || q.Kind == "overrun-honour") && dueAtDeadlineJudged:
			v.Symptom = "no-result/overran/" + cls
			v.What = fmt.Sprintf("the work overran the effective timeout %s of this route and the client got neither the timeout result nor the work's result: %v (%s)", d, res.err, res.errPhase)
		default:
			c.Obs("e2es_no_result_not_judged", 1)
		}
	}
	return v
}

// sReported: symptoms confirmed and reported once by this process (further occurrences are counted only)
var sReported sync.Map

func sPlanWork(r *kit.Rand, cfg sCfg, gi int, kind string) time.Duration {
	g := cfg.Groups[gi]
	d := g.Eff
	band := sBand(d)
	ms := time.Millisecond
	round := func(x time.Duration) time.Duration { return x / ms * ms }
	switch kind {
	case "fast":
		return 0
	case "late-in-time":
		w := d - band - 60*ms
		if w < 0 {
			w = 0
		}
		return round(w)
	case "overrun":
		return round(d + 2*sBandAfter(d) + 150*ms)
	case "overrun-honour":
		return d
	case "near":
		return round(time.Duration(float64(d) * (0.97 + 0.06*r.Float64())))
	}
	// slow-in-time / early-late: above 2.3 x the server-wide timeout and above the other groups' smaller
	// timeouts where the route's own timeout leaves room, capped to keep a case short
	hi := d - band - 100*ms
	if hi > 2400*ms {
		hi = 2400 * ms
	}
	if hi < 0 {
		hi = 0
	}
	lo := time.Duration(float64(cfg.Global) * 2.3)
	for _, o := range cfg.Groups {
		if o.Timeout > 0 && o.Timeout < d {
			if x := o.Timeout * 5 / 4; x > lo && x <= hi {
				lo = x
			}
		}
	}
	if lo > hi {
		lo = time.Duration(float64(cfg.Global) * 1.25)
	}
	if lo > hi {
		lo = hi
	}
	return round(lo + time.Duration(r.Float64()*float64(hi-lo)*0.6))
}

func sGenCfg(r *kit.Rand) sCfg {
	ms := time.Millisecond
	cfg := sCfg{Global: []time.Duration{0, 150 * ms, 250 * ms, 400 * ms}[r.Pick(1, 2, 2, 2)]}
	kinds := []string{"default", "short", "mid", "long", "sse"}
	n := 2 + r.Intn(3)
	perm := r.Perm(len(kinds))
	var pick []string
	for _, i := range perm[:n] {
		pick = append(pick, kinds[i])
	}
	has := func(k string) bool {
		for _, p := range pick {
			if p == k {
				return true
			}
		}
		return false
	}
	if !has("mid") && !has("long") && r.Chance(0.9) {
		pick[0] = kit.Choose(r, []string{"mid", "long", "long"})
	}
	if !has("default") && !has("short") && r.Chance(0.7) {
		// a group with a smaller (or no) timeout next to the larger ones
		for i, p := range pick {
			if p == "sse" {
				pick[i] = "default"
				break
			}
		}
	}
	for gi, k := range pick {
		g := sGroup{Kind: k, Via: kit.Choose(r, []string{"AddRoutes", "AddRoutes", "AddRoute"})}
		switch k {
		case "short":
			g.Timeout = kit.Choose(r, []time.Duration{100 * ms, 200 * ms})
		case "mid":
			g.Timeout = kit.Choose(r, []time.Duration{600 * ms, 900 * ms, 1200 * ms})
		case "long":
			g.Timeout = kit.Choose(r, []time.Duration{2000 * ms, 3500 * ms, 5000 * ms})
		case "sse":
			g.SSE = true
		}
		g.Eff = g.Timeout
		if g.Eff == 0 {
			g.Eff = cfg.Global
		}
		for p := 0; p < 1+r.Intn(2); p++ {
			g.Paths = append(g.Paths, fmt.Sprintf("/g%d%s/p%d", gi, k, p))
		}
		cfg.Groups = append(cfg.Groups, g)
	}
	return cfg
}

func e2eSlowCase(c *kit.Case) {
	if skipIfStuck(c) {
		return
	}
	r := c.R
	rp := reporter{c, "e2e-slow"}
	cfg := sGenCfg(r)
	ng := len(cfg.Groups)
	// registration orders: a random one, its reverse (every group is the last one somewhere and an
	// earlier one elsewhere), sometimes a third
	orders := [][]int{r.Perm(ng)}
	rev := make([]int, ng)
	for i, g := range orders[0] {
		rev[ng-1-i] = g
	}
	orders = append(orders, rev)
	if r.Chance(0.4) {
		orders = append(orders, r.Perm(ng))
	}
	var servers []*sServer
	defer func() {
		for _, s := range servers {
			s.client.CloseIdleConnections()
			s.hs.Close()
		}
	}()
	for i, o := range orders {
		s := startSServer(c, i, cfg, o)
		if s == nil {
			return
		}
		servers = append(servers, s)
		c.Obs("e2es_servers", 1)
	}
	// the requests
	type job struct {
		s   *sServer
		q   *sReq
		res sResult
	}
	var jobs []*job
	for si, s := range servers {
		for gi, g := range cfg.Groups {
			for _, p := range g.Paths {
				var kinds []string
				treat, accept := "wrapped", ""
				switch {
				case g.SSE:
					treat, accept = "exempt", "text/event-stream"
					kinds = []string{"stream"}
				case g.Eff == 0:
					treat = "unwrapped"
					kinds = []string{"fast", kit.Choose(r, []string{"slow-in-time", "early-late"})}
				default:
					kinds = []string{kit.Choose(r, []string{"slow-in-time", "slow-in-time", "early-late"})}
					if g.Eff <= 1200*time.Millisecond {
						kinds = append(kinds, kit.Choose(r, []string{"overrun", "overrun", "overrun-honour", "near"}))
					}
					if g.Eff >= 500*time.Millisecond && g.Eff <= 2000*time.Millisecond {
						kinds = append(kinds, kit.Choose(r, []string{"late-in-time", "late-in-time", "early-late", "fast"}))
					} else if g.Eff > 2000*time.Millisecond {
						kinds = append(kinds, kit.Choose(r, []string{"early-late", "slow-in-time", "fast"}))
					}
					if r.Chance(0.25) {
						kinds = append(kinds, "exempt")
					}
				}
				for _, k := range kinds {
					q := &sReq{Server: si, Group: gi, Path: p, Kind: k, Tag: fmt.Sprintf("s%d-%d-%d", c.Index, si, len(jobs)), Status: kit.Choose(r, []int{200, 200, 201, 404, 500}),
						Chunks: 1 + r.Intn(3), Treat: treat, Accept: accept, done: make(chan struct{})}
					switch {
					case k == "exempt":
						q.Kind, q.Treat = "slow-in-time", "exempt"
						if r.Bool() {
							q.Accept = "text/event-stream"
						} else {
							q.Upgrade = "websocket"
						}
						q.Work = time.Duration(300+r.Intn(900)) * time.Millisecond
					case treat == "exempt":
						q.Chunks = 2 + r.Intn(2)
						q.Status = 200
						q.Work = time.Duration(200+r.Intn(1300)) * time.Millisecond
					case treat == "unwrapped":
						if k != "fast" {
							q.Work = time.Duration(200+r.Intn(1300)) * time.Millisecond
						}
					default:
						q.Work = sPlanWork(r, cfg, gi, k)
						if k == "early-late" {
							q.Chunks = 2 + r.Intn(2)
						}
					}
					jobs = append(jobs, &job{s: s, q: q})
				}
			}
		}
	}
	var wg sync.WaitGroup
	for _, j := range jobs {
		wg.Add(1)
		go func(j *job) {
			defer wg.Done()
			j.res = j.s.do(j.q)
		}(j)
	}
	wg.Wait()

	witness := func(s *sServer, q *sReq, res sResult) map[string]any {
		q.mu.Lock()
		defer q.mu.Unlock()
		w := map[string]any{"config": s.cfg, "registration_order": s.order, "http_server_write_timeout": s.wt.String(), "http_server_read_timeout": s.rt.String(),
			"group": s.cfg.Groups[q.Group], "request": q, "status": res.status, "body": clip(res.body, 300), "error": fmt.Sprint(res.err), "error_phase": res.errPhase,
			"handler_ran": q.ran, "deadline_seen": fmtDl(q.seenDl, q.seenOk), "context_error_at_end": q.ctxErrEnd, "handler_write_errors": q.writeErrs,
			"elapsed_at_response": res.tResp.Sub(res.t0).String(), "delivered_twice": q.dups.Load()}
		if res.hdr != nil {
			w["x_verif_tag"] = res.hdr.Get("X-Verif-Tag")
		}
		if q.ran {
			w["handler_entry_after_send"] = q.t1.Sub(res.t0).String()
			if !q.tEnd.IsZero() {
				w["work_measured"] = q.tEnd.Sub(q.t1).String()
				w["work_end_after_send"] = q.tEnd.Sub(res.t0).String()
			}
			if q.seenOk {
				w["deadline_after_entry"] = q.seenDl.Sub(q.t1).String()
			}
		}
		return w
	}

	evals := int64(0)
	for _, j := range jobs {
		s, q, res := j.s, j.q, j.res
		g := cfg.Groups[q.Group]
		if !res.joined {
			c.Inconclusive("e2e-slow handler did not finish")
			stuck.Store(true)
			return
		}
		evals++
		c.Obs("e2es_requests", 1)
		c.Obs("e2es_treat_"+q.Treat, 1)
		if q.dups.Load() > 0 {
			c.Obs("e2es_delivered_twice", 1)
		}
		wit := witness(s, q, res)
		v := sJudge(c, rp, s, q, res, true, wit)
		c.Obs("e2es_outcome_"+v.Outcome, 1)
		if v.Outcome == "gave-up" {
			c.Inconclusive("e2e-slow: no answer within the client's 60 s watchdog")
		}
		if q.Treat != "wrapped" {
			c.Obs("e2es_"+q.Treat+"_"+v.Outcome, 1)
			c.Sig(false, "e2e-slow", cfg.Global, g.Kind, g.Timeout, q.Treat, q.Kind, v.Outcome)
			continue
		}
		c.Obs("e2es_decided_"+v.Decided, 1)
		c.Obs("e2es_"+v.Decided+"_"+v.Outcome, 1)
		cls := sClass(cfg, s.order, q.Group)
		q.mu.Lock()
		measured := q.tEnd.Sub(q.t1)
		q.mu.Unlock()
		if v.Decided == "in-time" && v.Outcome == "complete" {
			if cfg.Global > 0 && measured > cfg.Global*11/10 {
				c.Obs("e2es_in_time_complete_longer_than_1_1x_global", 1)
			}
			if cfg.Global > 0 && measured > cfg.Global*2 {
				c.Obs("e2es_in_time_complete_longer_than_2x_global", 1)
			}
			longerThanOther, longerThanLater := false, false
			seenSelf := false
			for _, gi := range s.order {
				o := cfg.Groups[gi]
				if gi == q.Group {
					seenSelf = true
					continue
				}
				ot := o.Timeout
				if ot == 0 {
					ot = cfg.Global
				}
				if ot > 0 && measured > ot*11/10 {
					longerThanOther = true
					if seenSelf {
						longerThanLater = true
					}
				}
			}
			if longerThanOther {
				c.Obs("e2es_in_time_complete_longer_than_1_1x_another_groups_timeout", 1)
			}
			if longerThanLater {
				c.Obs("e2es_in_time_complete_longer_than_1_1x_timeout_of_a_group_registered_later", 1)
			}
			if s.order[len(s.order)-1] != q.Group && measured > 0 {
				last := cfg.Groups[s.order[len(s.order)-1]]
				lt := last.Timeout
				if lt < cfg.Global {
					lt = cfg.Global
				}
				if lt > 0 && measured > lt*11/10 {
					c.Obs("e2es_in_time_complete_longer_than_1_1x_max_of_last_group_and_global", 1)
				}
			}
			if q.Kind == "early-late" {
				c.Obs("e2es_early_late_complete", 1)
			}
			if q.Kind == "late-in-time" {
				c.Obs("e2es_late_in_time_complete", 1)
			}
		}
		if v.Decided == "overran" && v.Outcome == "timeout" {
			c.Obs("e2es_overran_timeout_result", 1)
		}
		if v.Symptom != "" {
			if _, dup := sReported.Load(v.Symptom); dup {
				c.Obs("e2es_repeat_of_reported_symptom", 1)
			} else {
				// confirm: the same request twice more on the same server
				again := 0
				for k := 0; k < 2; k++ {
					q2 := q.clone(fmt.Sprintf("-again%d", k))
					res2 := s.do(q2)
					if !res2.joined {
						c.Inconclusive("e2e-slow re-run: handler did not finish")
						stuck.Store(true)
						return
					}
					v2 := sJudge(c, rp, s, q2, res2, false, nil)
					c.Obs("e2es_confirming_reruns", 1)
					if v2.Symptom == v.Symptom {
						again++
					} else {
						break
					}
				}
				if again == 2 {
					sReported.Store(v.Symptom, true)
					wit["reproduced"] = "the same request showed the same symptom in 2 of 2 further runs on the same server"
					c.Viol("C04/e2e-slow/"+v.Symptom, v.What, wit)
				} else {
					c.Inconclusive("e2e-slow: " + v.Symptom + " seen once, not reproduced in the confirming re-runs")
					c.Obs("e2es_symptom_not_reproduced", 1)
				}
			}
		}
		nontrivial := (v.Decided == "in-time" && cfg.Global > 0 && measured > cfg.Global*11/10) || v.Decided == "overran" || (v.Decided == "in-time" && q.Kind != "fast" && measured > 100*time.Millisecond)
		c.Sig(nontrivial, "e2e-slow", cfg.Global, g.Kind, g.Timeout, cls, q.Kind, q.Status, q.Chunks, v.Decided, v.Outcome, measured/(200*time.Millisecond))
		if nontrivial {
			c.Sample("e2e-slow", 2, map[string]any{"config": cfg, "registration_order": s.order, "request": q, "work_measured": measured.String(), "decided": v.Decided, "outcome": v.Outcome})
		}
	}
	c.Evals(evals)
}
