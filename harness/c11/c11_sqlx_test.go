package c11

// Family "sqlx-faults": sqlx.BulkInserter (a PeriodicalExecutor whose container is
// dbInserter, threshold 1000 rows, flush interval one REAL second) over a scripted
// connection that fails on demand.
//
// What is injected: the connection's Exec returns an error or PANICS for chosen
// batches; in a share of the cases a ResultHandler is installed that either is
// "sloppy" (calls result.RowsAffected() without looking at err - the result of a
// failed Exec is a nil interface, so it panics with a nil dereference) or "careful"
// (looks at err first) and panics on purpose for chosen batches. The executor
// swallows those panics (threading.RunSafe). Every such batch is directly followed
// by further Inserts, explicit Flushes, time-driven flushes (the real 1 s ticker),
// UpdateOrDelete / UpdateStmt (at quiet points), a 1000-row burst (threshold
// hand-over to the background goroutine), an idle quit + restart of the flusher,
// and a final Flush.
//
// Oracle (the statement at the level of the inserter: the execute callback is
// "one INSERT statement handed to the connection"):
//
//	well-formed   every statement text the connection receives is ONE insert:
//	              <prefix of a configured statement> <(..), (..), ...> [<its suffix>]
//	              - the prefix occurs exactly once, at the start
//	exactly-once  every row whose Insert returned nil occurs in the value lists of
//	              all statements exactly once over the whole history (the offline
//	              checker of the other families over the parsed row ids: lost /
//	              duplicate / phantom). All faults are injected AT or AFTER the point
//	              of observation (inside Exec, or in the handler that runs after
//	              Exec), so also the rows of a failing batch have been observed once;
//	              they must never show up again in another batch's statement.
//	containment   no injected panic comes out of Insert / Flush / UpdateOrDelete /
//	              UpdateStmt; nothing hangs (census-based, as elsewhere)
//
// Nothing is asserted about which result a handler is called with, nor about when a
// Flush returns relative to batches in flight: the statement is silent there.

import (
	"database/sql"
	"fmt"
	"runtime"
	"sort"
	"strconv"
	"strings"
	"sync"
	"sync/atomic"
	"time"

	"github.com/zeromicro/go-zero/core/stores/sqlx"

	"verifharness/kit"
)

// ---------------------------------------------------------------- statements

type sqlVariant struct{ full, prefix, suffix string }

// the documented forms: "insert ... values (?, ...)" with an optional statement suffix
var sqlVariants = []sqlVariant{
	{"insert into t (id, v) values (?, ?)", "insert into t (id, v) values", ""},
	{"INSERT INTO t(id,v) VALUES(?,?)", "INSERT INTO t(id,v) VALUES", ""},
	{"insert ignore into `t` (id, v) values (?, ?) on duplicate key update v = v + 1", "insert ignore into `t` (id, v) values", "on duplicate key update v = v + 1"},
	{"replace into t values (?, ?)   ", "replace into t values", ""},
	{"Insert Into t (id, v) Values (?, ?) ON DUPLICATE KEY UPDATE v = VALUES(v), id = id", "Insert Into t (id, v) Values", "ON DUPLICATE KEY UPDATE v = VALUES(v), id = id"},
}

var sqlPayloads = []string{
	"a", "", "it's", `say "hi"`, `back\slash`, "), (", "values (1, 'x')", "insert into t (id, v) values", "line\nbreak", "naïve",
	"?", ":1 $2", "nul\x00sub\x1a", `\'`, "' , ('", "on duplicate key update", "(((", ")))", ",,,", "`tick`",
}

const (
	fateOK = iota
	fateExecErr
	fateExecPanic
	fateHandlerPanic
)

var fateNames = []string{"ok", "exec-error", "exec-panic", "handler-panic"}

type sqlRow struct {
	id   int
	text string
	fate int
}

type sqlParsed struct {
	Variant  int    // the configured statement whose prefix the text starts with (-1: none)
	IDs      []int  // row ids of every value tuple found (over all segments)
	Segments int    // number of "<prefix> <value list>" segments found; 1 = one insert
	Bad      string // "" or the class of what is wrong with the text
	At       int    // offset of the first thing that is wrong
}

// scanTuple expects q[pos] == '(' and returns the offset after the matching ')'
// (quotes with backslash escapes are honoured) and the leading integer of the tuple.
func scanTuple(q string, pos int) (end, id int, ok bool) {
	depth := 0
	var quote byte
	end = -1
	for i := pos; i < len(q) && end < 0; i++ {
		ch := q[i]
		if quote != 0 {
			switch ch {
			case '\\':
				i++
			case quote:
				quote = 0
			}
			continue
		}
		switch ch {
		case '\'', '"', '`':
			quote = ch
		case '(':
			depth++
		case ')':
			depth--
			if depth == 0 {
				end = i + 1
			}
		}
	}
	if end < 0 {
		return 0, -1, false
	}
	inner := strings.TrimLeft(q[pos+1:end-1], " \t")
	k := 0
	for k < len(inner) && inner[k] >= '0' && inner[k] <= '9' {
		k++
	}
	id = -1
	if k > 0 && k < 10 {
		id, _ = strconv.Atoi(inner[:k])
	}
	return end, id, true
}

func skipSpace(q string, pos int) int {
	for pos < len(q) && (q[pos] == ' ' || q[pos] == '\t' || q[pos] == '\n' || q[pos] == '\r') {
		pos++
	}
	return pos
}

// parseInsert decides whether q is one insert of a configured form; when it is not,
// it keeps going where it can, so that the rows of a glued-on second statement are
// still accounted for (they were handed to the database, after all).
func parseInsert(q string, vs []sqlVariant) sqlParsed {
	p := sqlParsed{Variant: -1}
	bad := func(what string, at int) {
		if p.Bad == "" {
			p.Bad, p.At = what, at
		}
	}
	pos := 0
	for {
		v := -1
		for i := range vs {
			if strings.HasPrefix(q[pos:], vs[i].prefix) {
				v = i
			}
		}
		if v < 0 {
			bad("unknown-prefix", pos)
			return p
		}
		if p.Segments == 0 {
			p.Variant = v
		}
		p.Segments++
		pos = skipSpace(q, pos+len(vs[v].prefix))
		if pos >= len(q) || q[pos] != '(' {
			bad("bad-value-list", pos)
			return p
		}
		for {
			end, id, ok := scanTuple(q, pos)
			if !ok {
				bad("bad-value-list", pos)
				return p
			}
			p.IDs = append(p.IDs, id)
			pos = skipSpace(q, end)
			if pos < len(q) && q[pos] == ',' {
				pos = skipSpace(q, pos+1)
				if pos >= len(q) || q[pos] != '(' {
					bad("bad-value-list", pos)
					return p
				}
				continue
			}
			break
		}
		rest := strings.TrimSpace(q[pos:])
		if rest == vs[v].suffix {
			return p
		}
		// not one insert; find out what follows for the witness and the row accounting
		if vs[v].suffix != "" && strings.HasPrefix(rest, vs[v].suffix) {
			pos = skipSpace(q, pos) + len(vs[v].suffix)
			pos = skipSpace(q, pos)
		}
		glued := false
		for i := range vs {
			if strings.HasPrefix(q[pos:], vs[i].prefix) {
				glued = true
			}
		}
		if !glued {
			bad("bad-suffix", pos)
			return p
		}
		bad("concatenated-statements", pos)
	}
}

// ---------------------------------------------------------------- scripted connection

type sqlStmtRec struct {
	Enter, Exit     uint64
	Text            string
	P               sqlParsed
	Fate            int
	HandlerCalls    int
	HandlerPanicked string // "" | "on-purpose" | "nil-result-dereferenced"
}

type sqlRes struct {
	rec *sqlStmtRec
	n   int64
}

func (r *sqlRes) LastInsertId() (int64, error) { return 0, nil }
func (r *sqlRes) RowsAffected() (int64, error) { return r.n, nil }

type sqlErr struct{ rec *sqlStmtRec }

func (e *sqlErr) Error() string { return "verif: server has gone away" }

type faultConn struct {
	sqlx.SqlConn
	h        *hist
	tasks    []*tk
	rows     []*sqlRow
	variants []sqlVariant
	handler  string // "" | sloppy | careful
	shape    bool

	mu     sync.Mutex
	recs   []*sqlStmtRec
	seen   map[int]int
	inExec int
	hcalls int64
}

func (f *faultConn) Exec(q string, _ ...any) (sql.Result, error) {
	p := parseInsert(q, f.variants)
	rec := &sqlStmtRec{Text: q, P: p}
	b := make([]*tk, 0, len(p.IDs))
	for _, id := range p.IDs {
		if id < 0 || id >= len(f.tasks) {
			b = append(b, &tk{id: -1})
			continue
		}
		b = append(b, f.tasks[id])
		if ft := f.rows[id].fate; rec.Fate == fateOK && ft != fateOK && (ft != fateHandlerPanic || f.handler != "") {
			rec.Fate = ft
		}
	}
	f.mu.Lock()
	rec.Enter = kit.Stamp()
	f.recs = append(f.recs, rec)
	for _, id := range p.IDs {
		f.seen[id]++
	}
	f.inExec++
	f.mu.Unlock()
	defer func() {
		f.mu.Lock()
		f.inExec--
		rec.Exit = kit.Stamp()
		f.mu.Unlock()
	}()
	if f.shape {
		for i := 0; i <= len(b)%4; i++ {
			runtime.Gosched()
		}
	}
	via := "flush-or-tick"
	if len(b) >= 1000 {
		via = "threshold-add"
	}
	f.h.run(b, via) // hist.onExec panics for a batch with an exec-panic row
	if rec.Fate == fateExecErr {
		return nil, &sqlErr{rec}
	}
	return &sqlRes{rec, int64(len(b))}, nil
}

func (f *faultConn) resultHandler() sqlx.ResultHandler {
	return func(res sql.Result, err error) {
		atomic.AddInt64(&f.hcalls, 1)
		if f.handler == "sloppy" {
			if e, ok := err.(*sqlErr); ok {
				f.mu.Lock()
				e.rec.HandlerCalls++
				e.rec.HandlerPanicked = "nil-result-dereferenced"
				f.mu.Unlock()
			}
			if n, _ := res.RowsAffected(); n < 0 { // res is a nil interface after a failed Exec
				return
			}
		} else if err != nil {
			if e, ok := err.(*sqlErr); ok {
				f.mu.Lock()
				e.rec.HandlerCalls++
				f.mu.Unlock()
			}
			return
		}
		r, ok := res.(*sqlRes)
		if !ok {
			return
		}
		f.mu.Lock()
		r.rec.HandlerCalls++
		boom := r.rec.Fate == fateHandlerPanic
		if boom {
			r.rec.HandlerPanicked = "on-purpose"
		}
		f.mu.Unlock()
		if boom {
			panic("verif: poisoned task (result handler)")
		}
	}
}

func (f *faultConn) seenRows() int {
	f.mu.Lock()
	defer f.mu.Unlock()
	return len(f.seen)
}

func (f *faultConn) quiet() bool {
	f.mu.Lock()
	defer f.mu.Unlock()
	return f.inExec == 0
}

func (f *faultConn) snapshot() []sqlStmtRec {
	f.mu.Lock()
	defer f.mu.Unlock()
	out := make([]sqlStmtRec, len(f.recs))
	for i, r := range f.recs {
		out[i] = *r
	}
	return out
}

type sqlFaultTarget struct {
	bi   *sqlx.BulkInserter
	rows []*sqlRow
}

func (s *sqlFaultTarget) Add(t *tk) {
	if err := s.bi.Insert(t.id, s.rows[t.id].text); err != nil {
		panic("verif harness: Insert refused a well-formed row: " + err.Error())
	}
}
func (s *sqlFaultTarget) Flush()                 { s.bi.Flush() }
func (s *sqlFaultTarget) Wait()                  {}
func (s *sqlFaultTarget) HasWait() bool          { return false }
func (s *sqlFaultTarget) Kind() string           { return "sqlx-bulkinserter" }
func (s *sqlFaultTarget) Pending() ([]int, bool) { return nil, false }

// sqlEscaped: in this family every panic is injected by the harness below the
// inserter (Exec, result handler); one that comes out of an API call of the client
// was not contained.
func sqlEscaped(a *actor, api string) {
	if p := recover(); p != nil {
		if s, ok := p.(string); ok && strings.HasPrefix(s, "verif harness:") {
			panic(p)
		}
		a.rec("panic-escaped."+api, -1)
	}
}

// ---------------------------------------------------------------- programs

type sqlOp struct {
	K     string // ins | flush | yield | tickwait | uod | upd | idle
	Lo, N int    // ins: rows [Lo, Lo+N)
	V     int    // upd: index of the new statement
}

func (o sqlOp) String() string {
	switch o.K {
	case "ins":
		return fmt.Sprintf("ins[%d..%d)", o.Lo, o.Lo+o.N)
	case "upd":
		return "upd#" + strconv.Itoa(o.V)
	}
	return o.K
}

func runSQLFaults(c *kit.Case) {
	r := c.R
	base := runtime.NumGoroutine()
	h := &hist{}
	h.onExec = func(b []*tk) {
		for _, x := range b {
			if x.poison {
				panic(fmt.Sprintf("verif: poisoned task t%d", x.id))
			}
		}
	}

	producers := 1 + r.Pick(60, 25, 15)
	handler := []string{"", "sloppy", "careful"}[r.Pick(30, 40, 30)]
	pFault := kit.Choose(r, []float64{0.2, 0.4, 0.7})
	variant := r.Intn(len(sqlVariants))
	allowBurst := r.Chance(0.25)

	var tasks []*tk
	var rows []*sqlRow
	newRows := func(n int, faulty bool) (lo int) {
		lo = len(rows)
		for i := 0; i < n; i++ {
			rows = append(rows, &sqlRow{id: lo + i, text: kit.Choose(r, sqlPayloads)})
			tasks = append(tasks, &tk{id: lo + i})
		}
		if faulty {
			x := rows[lo+r.Intn(n)]
			x.fate = 1 + r.Pick(35, 30, 35)
			tasks[x.id].poison = x.fate == fateExecPanic
		}
		return lo
	}
	progs := make([][]sqlOp, producers)
	for p := range progs {
		steps := r.Range(10, 40)
		bursts, ticks, idles := 0, 0, 0
		burstAt := -1
		if allowBurst && p == 0 {
			burstAt = r.Intn(steps)
		}
		for i := 0; i < steps; i++ {
			k := r.Pick(45, 27, 3, 4, 5, 5, 2)
			if i == burstAt {
				k = 7
			}
			switch {
			case k == 0:
				n := r.Range(1, 6)
				progs[p] = append(progs[p], sqlOp{K: "ins", Lo: newRows(n, r.Chance(pFault)), N: n})
			case k == 1:
				progs[p] = append(progs[p], sqlOp{K: "flush"})
			case k == 2:
				progs[p] = append(progs[p], sqlOp{K: "yield"})
			case k == 3 && producers == 1 && ticks < 2:
				ticks++
				n := r.Range(1, 4)
				progs[p] = append(progs[p], sqlOp{K: "ins", Lo: newRows(n, r.Chance(pFault)), N: n}, sqlOp{K: "tickwait"})
			case k == 4 && producers == 1:
				progs[p] = append(progs[p], sqlOp{K: "uod"})
			case k == 5 && producers == 1:
				progs[p] = append(progs[p], sqlOp{K: "upd", V: r.Intn(len(sqlVariants))})
			case k == 6 && producers == 1 && idles < 1:
				idles++
				progs[p] = append(progs[p], sqlOp{K: "idle"})
			case k == 7 && allowBurst && bursts < 1:
				bursts++
				n := r.Range(1000, 1100)
				progs[p] = append(progs[p], sqlOp{K: "ins", Lo: newRows(n, r.Chance(0.6)), N: n})
			default:
				progs[p] = append(progs[p], sqlOp{K: "flush"})
			}
		}
	}

	conn := &faultConn{h: h, tasks: tasks, rows: rows, variants: sqlVariants, handler: handler, shape: producers > 1, seen: map[int]int{}}
	bi, err := sqlx.NewBulkInserter(conn, sqlVariants[variant].full)
	if err != nil {
		panic("verif harness: " + err.Error())
	}
	if handler != "" {
		bi.SetResultHandler(conn.resultHandler())
	}
	tg := &sqlFaultTarget{bi: bi, rows: rows}
	var faulty []string
	for _, x := range rows {
		if x.fate != fateOK {
			faulty = append(faulty, fmt.Sprintf("row%d:%s", x.id, fateNames[x.fate]))
		}
	}
	desc := map[string]any{"family": c.Family, "target": tg.Kind(), "producers": producers, "statement": sqlVariants[variant].full,
		"result_handler": handler, "programs": fmt.Sprint(progs), "faulty_rows": faulty}

	var inserted atomic.Int64
	var nUpd, nUod, nTickOK, nTickGivenUp, nIdle int64
	exec := func(a *actor, o sqlOp) {
		switch o.K {
		case "ins":
			for i := o.Lo; i < o.Lo+o.N; i++ {
				func() {
					defer sqlEscaped(a, "add")
					a.rec("add.inv", i)
					tg.Add(tasks[i])
					a.rec("add.ret", i)
				}()
				inserted.Add(1)
			}
		case "flush":
			func() {
				defer sqlEscaped(a, "flush")
				a.rec("flush.inv", -1)
				tg.Flush()
				a.rec("flush.ret", -1)
			}()
		case "uod":
			func() {
				defer sqlEscaped(a, "flush")
				a.rec("update-or-delete.inv", -1)
				bi.UpdateOrDelete(func() { a.rec("update-or-delete.fn", -1) })
				a.rec("update-or-delete.ret", -1)
			}()
		case "upd":
			func() {
				defer sqlEscaped(a, "flush")
				a.rec("update-stmt.inv", o.V)
				if err := bi.UpdateStmt(sqlVariants[o.V].full); err != nil {
					panic("verif harness: UpdateStmt refused a documented form: " + err.Error())
				}
				a.rec("update-stmt.ret", o.V)
			}()
		default:
			runtime.Gosched()
		}
	}
	allSeen := func() bool { return int64(conn.seenRows()) >= inserted.Load() && conn.quiet() }

	if producers == 1 {
		a := h.actor()
		for _, o := range progs[0] {
			o := o
			switch o.K {
			case "tickwait":
				// time-driven flush: nothing but the real ticker of the flusher moves the rows.
				// Giving up is not a verdict: the oracle decides at the end, by state.
				pending := !allSeen()
				if !waitUntil(allSeen, 5*time.Second) {
					nTickGivenUp++
				} else if pending {
					nTickOK++
				}
				continue
			case "idle":
				if waitUntil(allSeen, 5*time.Second) && quiesce(c.ID, base, 30*time.Second) {
					nIdle++
				}
				continue
			case "upd":
				// the statement is switched at a quiet point only (container empty, no Exec in
				// progress): SetResultHandler/UpdateStmt racing with a batch in flight is not
				// what this property is about
				if !awaitAPI(c.ID, h, async(func() { exec(a, sqlOp{K: "flush"}) })) {
					reportBlocked(c, h, desc, "Flush did not return")
					return
				}
				if !waitUntil(allSeen, 5*time.Second) {
					continue
				}
				nUpd++
			case "uod":
				nUod++
			}
			if !awaitAPI(c.ID, h, async(func() { exec(a, o) })) {
				reportBlocked(c, h, desc, o.K+" did not return")
				return
			}
		}
	} else {
		var wg sync.WaitGroup
		for p := range progs {
			a := h.actor()
			prog := progs[p]
			wg.Add(1)
			go func() {
				defer wg.Done()
				for _, o := range prog {
					exec(a, o)
				}
			}()
		}
		if !awaitAPI(c.ID, h, async(wg.Wait)) {
			reportBlocked(c, h, desc, "inserters did not finish")
			return
		}
	}

	// final Flush (the inserter has no Wait), then the flusher is retired: its ticker is a
	// real second, the idle time is virtual
	main := h.actor()
	if !awaitAPI(c.ID, h, async(func() { exec(main, sqlOp{K: "flush"}) })) {
		reportBlocked(c, h, desc, "final Flush did not return")
		return
	}
	q := quiesce(c.ID, base, 30*time.Second)
	if !q {
		c.Inconclusive("executor goroutines did not go away after the history ended")
	}
	v := check(c, h, tg, desc, q)
	nontrivial, sig := checkStatements(c, h, conn, desc)
	c.Sig(nontrivial, "sqlx-faults", v.sig, sig, handler, variant)

	c.Obs("sqlx_fault_histories", 1)
	c.Obs("sqlx_rows_inserted", inserted.Load())
	c.Obs("sqlx_result_handler_calls", atomic.LoadInt64(&conn.hcalls))
	c.Obs("sqlx_update_stmt_at_quiet_point", nUpd)
	c.Obs("sqlx_update_or_delete", nUod)
	c.Obs("sqlx_time_driven_flush_awaited", nTickOK)
	c.Obs("sqlx_time_driven_flush_given_up", nTickGivenUp)
	c.Obs("sqlx_flusher_idle_quit_then_restart", nIdle)
	if c.Index < 2 {
		c.Sample(c.Family, 2, desc)
	}
}

// checkStatements is the statement-level part of the oracle (one well-formed insert
// per Exec) plus the observation counters of the family.
func checkStatements(c *kit.Case, h *hist, conn *faultConn, desc map[string]any) (nontrivial bool, sig string) {
	recs := conn.snapshot()
	sort.Slice(recs, func(i, j int) bool { return recs[i].Enter < recs[j].Enter })
	clip := func(s string) string {
		if len(s) > 700 {
			return s[:350] + fmt.Sprintf(" ...[%d bytes]... ", len(s)-700) + s[len(s)-350:]
		}
		return s
	}
	var sb strings.Builder
	reported := map[string]bool{}
	var lastPanicExit uint64
	lastPanicKind := ""
	var nErr, nExecPanic, nHandlerPanic, nNilDeref, nAfterPanic, nBig int64
	variantsSeen := map[int]bool{}
	for i, x := range recs {
		panicked := ""
		switch {
		case x.Fate == fateExecPanic:
			panicked = "exec-panic"
			nExecPanic++
		case x.HandlerPanicked == "on-purpose":
			panicked = "handler-panic"
			nHandlerPanic++
		case x.HandlerPanicked != "":
			panicked = "handler-nil-result"
			nNilDeref++
		}
		if x.Fate == fateExecErr {
			nErr++
		}
		if len(x.P.IDs) >= 1000 {
			nBig++
		}
		variantsSeen[x.P.Variant] = true
		after := ""
		if lastPanicExit != 0 && x.Enter > lastPanicExit {
			after = lastPanicKind
			nAfterPanic++
			nontrivial = true
		}
		fmt.Fprintf(&sb, "%s/%s/%d/%v;", fateNames[x.Fate], x.HandlerPanicked, bucket(len(x.P.IDs)), after != "")
		if x.P.Bad != "" || x.P.Segments != 1 {
			what := x.P.Bad
			if what == "" {
				what = "bad-value-list"
			}
			key := "C11/malformed-statement/sqlx-bulkinserter/" + what
			if !reported[key] {
				reported[key] = true
				prev := "none"
				if i > 0 {
					prev = fmt.Sprintf("fate=%s handler_panic=%q text=%s", fateNames[recs[i-1].Fate], recs[i-1].HandlerPanicked, clip(recs[i-1].Text))
				}
				viol(c, key, fmt.Sprintf("the connection received a statement that is not ONE insert of a configured form (%s at offset %d, %d insert prefixes in the text); most recent panicked batch before it: %q",
					what, x.P.At, x.P.Segments, after),
					witness(h, desc, map[string]any{"statement": clip(x.Text), "rows_in_statement": clipInts(x.P.IDs), "previous_statement": prev, "statement_index": i}))
			}
		}
		if panicked != "" && x.Exit > lastPanicExit {
			lastPanicExit, lastPanicKind = x.Exit, panicked
		}
	}
	c.Obs("sqlx_statements", int64(len(recs)))
	c.Obs("sqlx_batches_exec_error", nErr)
	c.Obs("sqlx_batches_exec_panic", nExecPanic)
	c.Obs("sqlx_batches_handler_panic", nHandlerPanic)
	c.Obs("sqlx_batches_handler_nil_result_dereferenced", nNilDeref)
	c.Obs("sqlx_statements_after_a_panicked_batch", nAfterPanic)
	c.Obs("sqlx_threshold_batches", nBig)
	c.Obs("sqlx_statement_forms_seen", int64(len(variantsSeen)))
	return nontrivial, sb.String()
}

func bucket(n int) int {
	switch {
	case n <= 3:
		return n
	case n < 10:
		return 5
	case n < 1000:
		return 100
	}
	return 1000
}

func clipInts(xs []int) string {
	if len(xs) > 40 {
		return fmt.Sprintf("%v ... %v (%d rows)", xs[:20], xs[len(xs)-20:], len(xs))
	}
	return fmt.Sprint(xs)
}
