package c11

// Family "panic-followup" (periodical / bulk / chunk): a dense sequence of batches
// whose execute callback panics, each DIRECTLY followed by more Adds and one of
// explicit Flush / Wait / a time-driven flush (real 1 ms ticker) / nothing, with or
// without a second producer that keeps adding meanwhile. The clause judged is "a
// panicking callback loses only its own batch": the offline checker counts the
// panicking call as the one execution of its batch and requires everything else to be
// executed exactly once (so neither the panicked batch nor a part of it may come back
// with a later batch, and no later batch may be dropped or swallowed), no panic to
// reach the client, and nothing to hang.

import (
	"fmt"
	"runtime"
	"time"

	"verifharness/kit"
)

func runPanicFollowup(c *kit.Case, kind string) {
	r := c.R
	base := runtime.NumGoroutine()
	h := &hist{}
	sh := newShaping()
	h.onExec = sh.onExec

	thr := kit.Choose(r, []int{1, 2, 3, 10})
	chunkBytes := kit.Choose(r, []int{1, 4, 8, 30})
	var tg target
	switch kind {
	case "bulk":
		tg = newBulk(h, thr)
	case "chunk":
		tg = newChunk(h, chunkBytes)
	default:
		tg = newPE(h, thr)
	}
	rounds := r.Range(3, 10)
	pPoison := kit.Choose(r, []float64{0.3, 0.5, 0.8})
	second := r.Chance(0.3)
	desc := map[string]any{"family": c.Family, "target": tg.Kind(), "threshold": thr, "rounds": rounds, "second_producer": second}
	if kind == "chunk" {
		desc["chunk_bytes"] = chunkBytes
		delete(desc, "threshold")
	}

	id := 0
	newTask := func(poison bool) *tk {
		t := &tk{id: id, size: r.Range(1, 5), poison: poison}
		if r.Chance(0.25) {
			t.delay = uint8(r.Range(1, 2)) // yields / a short sleep inside the callback
		}
		id++
		return t
	}
	// the second producer's tasks are generated up front (all randomness on this goroutine)
	var side []*tk
	if second {
		nSide := r.Range(4, 30)
		for i := 0; i < nSide; i++ {
			side = append(side, &tk{id: 100000 + i, size: r.Range(1, 5)})
		}
	}
	var sideDone <-chan struct{}
	if second {
		a := h.actor()
		sideDone = async(func() {
			for i, t := range side {
				doAdd(a, tg, t)
				if i%3 == 2 {
					runtime.Gosched()
				}
			}
		})
	}

	main := h.actor()
	var plan []string
	var added, poisonedBatches, followedByAdd int64
	prevPoisoned := false
	blocked := func(what string) {
		desc["plan"] = plan
		reportBlocked(c, h, desc, what)
	}
	for round := 0; round < rounds; round++ {
		n := r.Range(1, thr+2)
		poisonAt := -1
		if r.Chance(pPoison) {
			poisonAt = r.Intn(n)
			poisonedBatches++
		}
		for i := 0; i < n; i++ {
			if !guardedAdd(c, h, main, tg, newTask(i == poisonAt)) {
				blocked("Add did not return")
				return
			}
			added++
		}
		if prevPoisoned {
			followedByAdd++
		}
		prevPoisoned = poisonAt >= 0
		follow := r.Pick(30, 20, 25, 25)
		plan = append(plan, fmt.Sprintf("add*%d(poison@%d),%s", n, poisonAt, []string{"flush", "wait", "tick", "none"}[follow]))
		switch follow {
		case 0:
			if !awaitAPI(c.ID, h, async(func() { doFlush(main, tg) })) {
				blocked("Flush did not return")
				return
			}
		case 1:
			if !awaitAPI(c.ID, h, async(func() { doWait(main, tg) })) {
				blocked("Wait did not return")
				return
			}
		case 2:
			// time-driven flush; giving up is not a verdict (the oracle decides by state at the end)
			want := added
			if waitUntil(func() bool { return h.done.Load() >= want }, 5*time.Second) {
				c.Obs("panic_followup_time_driven_flush_awaited", 1)
			} else {
				c.Obs("scenarios_given_up", 1)
			}
		}
	}
	desc["plan"] = plan
	if second && !awaitAPI(c.ID, h, sideDone) {
		reportBlocked(c, h, desc, "second producer did not finish")
		return
	}
	c.Obs("panic_followup_histories", 1)
	c.Obs("panic_followup_poisoned_batches", poisonedBatches)
	c.Obs("panic_followup_poisoned_batch_directly_followed_by_adds", followedByAdd)
	finish(c, h, tg, desc, base, r.Chance(0.7), idleJump, poisonedBatches > 0)
	if c.Index == 0 {
		c.Sample(c.Family, 1, desc)
	}
}
