// Package c11: periodical / bulk / chunk executors run every added task exactly
// once, Wait is a barrier, a panicking callback loses only its own batch
// (DESIGN.md §4 C11).
//
// Reach: executors.NewPeriodicalExecutor is driven with a harness TaskContainer
// (AddTask / RemoveAll / Execute are called BY the executor, so Execute is a
// natural stamped and delayable boundary), a real 1 ms ticker, and the virtual
// clock behind timex.Now/Since which alone decides when the background flusher
// goes idle and quits. The clock function is harness-owned, so it doubles as a
// delayable boundary INSIDE shallQuit (between the tick's Flush and the locked
// inflight/guarded decision): that is how "Add arrives while the flusher is
// quitting" is placed deterministically. BulkExecutor, ChunkExecutor and
// sqlx.BulkInserter are driven through their public API as sampled wrappers.
//
// Oracle (offline, over logical stamps taken at the client boundary and inside
// Execute; the only inference drawn is "a returned before b was invoked"):
//
//	exactly-once  after the history ended and the executor is quiescent (all
//	              flusher goroutines gone) every task whose Add returned was
//	              passed to Execute exactly once; never a task that was not added
//	wait barrier  for every Wait w and task x with stamp(Add(x).ret) < stamp(w.inv):
//	              the Execute call that got x has exit stamp < stamp(w.ret)
//	containment   a panicking Execute is one execution of its batch; everything
//	              else is still executed exactly once and nothing hangs
//	liveness      decided causally, never by a deadline: a task is "stranded" only
//	              if it is still in the container when no goroutine of the executor
//	              is left; an Add is "stuck" only if it is parked with an identical
//	              stack in consecutive dumps while no flusher goroutine exists
//
// AddTask/RemoveAll deliberately contain no atomics (no stamps), so the race
// detector sees the container exactly as go-zero's own locking protects it.
package c11

import (
	"bytes"
	"context"
	"database/sql"
	"fmt"
	"hash/fnv"
	"runtime"
	"runtime/pprof"
	"sort"
	"strconv"
	"strings"
	"sync"
	"sync/atomic"
	"testing"
	"time"

	"github.com/zeromicro/go-zero/core/executors"
	"github.com/zeromicro/go-zero/core/logx"
	"github.com/zeromicro/go-zero/core/stores/sqlx"
	"github.com/zeromicro/go-zero/core/timex"

	"verifharness/kit"
)

const (
	tickEvery = time.Millisecond
	idleJump  = 20 * time.Millisecond // > idleRound(10) * interval of virtual time
	watchdog  = 40 * time.Second      // per blocking step; firing is never a violation by itself
)

// ---------------------------------------------------------------- clock

var (
	vc        *kit.VClock
	clockHook atomic.Pointer[func()]
)

func installClock() {
	vc = kit.InstallVClock()
	timex.VerifSetClock(func() time.Duration {
		if f := clockHook.Load(); f != nil {
			(*f)()
		}
		return vc.Now()
	})
}

// ---------------------------------------------------------------- recording

type tk struct {
	id     int
	size   int    // chunk size (ChunkExecutor)
	via    string // which RemoveAll took it; written under the executor's lock
	poison bool   // Execute of the batch containing it panics
	delay  uint8  // schedule shaping of the batch it leads: 0 none, 1 yields, 2 sleep, 3 gate
}

type ev struct {
	S  uint64
	A  int
	Op string
	T  int
}

type actor struct {
	id  int
	mu  sync.Mutex
	evs []ev
}

func (a *actor) rec(op string, t int) uint64 {
	s := kit.Stamp()
	a.mu.Lock()
	a.evs = append(a.evs, ev{s, a.id, op, t})
	a.mu.Unlock()
	return s
}

type execRec struct {
	Enter, Exit uint64
	IDs         []int
	Via         string
	Panicked    bool
}

type hist struct {
	mu     sync.Mutex
	actors []*actor
	execs  []*execRec
	done   atomic.Int64     // tasks whose Execute call exited
	onExec func(b []*tk)    // schedule shaping inside Execute: may block, may panic
	onRem  func(via string) // scenario signal from inside RemoveAll (non-empty batches and wait-flushes)
	stuck  []string         // parked API calls found by deadlocked()
}

func (h *hist) actor() *actor {
	h.mu.Lock()
	defer h.mu.Unlock()
	a := &actor{id: len(h.actors)}
	h.actors = append(h.actors, a)
	return a
}

// run is the body of every execute callback.
func (h *hist) run(b []*tk, via string) {
	r := &execRec{Via: via}
	for _, t := range b {
		r.IDs = append(r.IDs, t.id)
	}
	r.Enter = kit.Stamp()
	h.mu.Lock()
	h.execs = append(h.execs, r)
	h.mu.Unlock()
	defer func() {
		p := recover()
		s := kit.Stamp() // taken before the callback returns
		h.mu.Lock()
		r.Exit = s
		r.Panicked = p != nil
		h.mu.Unlock()
		h.done.Add(int64(len(b)))
		if p != nil {
			panic(p)
		}
	}()
	if h.onExec != nil && len(b) > 0 {
		h.onExec(b)
	}
}

func (h *hist) merged() []ev {
	h.mu.Lock()
	as := append([]*actor(nil), h.actors...)
	h.mu.Unlock()
	var all []ev
	for _, a := range as {
		a.mu.Lock()
		all = append(all, a.evs...)
		a.mu.Unlock()
	}
	sort.Slice(all, func(i, j int) bool { return all[i].S < all[j].S })
	return all
}

func (h *hist) snapshot() []execRec {
	h.mu.Lock()
	defer h.mu.Unlock()
	out := make([]execRec, len(h.execs))
	for i, r := range h.execs {
		out[i] = *r
	}
	return out
}

// ---------------------------------------------------------------- targets

type target interface {
	Add(t *tk)
	Flush()
	Wait()
	HasWait() bool
	Pending() ([]int, bool) // ids still in the container (under the executor's lock), if observable
	Kind() string
}

// cont is the harness TaskContainer. No atomics, no locks: the executor's own
// lock is what has to make this safe.
type cont struct {
	thr   int
	tasks []*tk
	hit   bool
	h     *hist
}

func (c *cont) AddTask(v any) bool {
	c.tasks = append(c.tasks, v.(*tk))
	c.hit = len(c.tasks) >= c.thr
	return c.hit
}

func (c *cont) RemoveAll() any {
	via := ""
	if c.hit { // AddTask just asked for a flush under the same lock hold
		via = "threshold-add"
		c.hit = false
	} else {
		via = callerClass()
	}
	b := c.tasks
	c.tasks = nil
	for _, t := range b {
		t.via = via
	}
	if c.h.onRem != nil && (len(b) > 0 || via == "wait-flush") {
		c.h.onRem(via)
	}
	return b
}

func (c *cont) Execute(v any) {
	b := v.([]*tk)
	via := "unknown"
	if len(b) > 0 {
		via = b[0].via
	}
	c.h.run(b, via)
}

// callerClass tells which go-zero path called RemoveAll, by function names on
// the stack ("unknown" if go-zero was refactored).
func callerClass() string {
	var pcs [16]uintptr
	n := runtime.Callers(3, pcs[:])
	fr := runtime.CallersFrames(pcs[:n])
	cls := "unknown"
	for {
		f, more := fr.Next()
		switch {
		case strings.HasSuffix(f.Function, "(*PeriodicalExecutor).Wait"):
			return "wait-flush"
		case strings.Contains(f.Function, "(*PeriodicalExecutor).backgroundFlush"):
			return "background-flush"
		case strings.Contains(f.Function, "(*PeriodicalExecutor).addAndCheck"):
			return "threshold-add"
		case strings.HasSuffix(f.Function, "(*PeriodicalExecutor).Flush"):
			cls = "explicit-flush"
		}
		if !more {
			break
		}
	}
	return cls
}

type peTarget struct {
	pe *executors.PeriodicalExecutor
	c  *cont
}

func newPE(h *hist, thr int) *peTarget {
	c := &cont{thr: thr, h: h}
	return &peTarget{pe: executors.NewPeriodicalExecutor(tickEvery, c), c: c}
}
func (p *peTarget) Add(t *tk)     { p.pe.Add(t) }
func (p *peTarget) Flush()        { p.pe.Flush() }
func (p *peTarget) Wait()         { p.pe.Wait() }
func (p *peTarget) HasWait() bool { return true }
func (p *peTarget) Kind() string  { return "periodical" }
func (p *peTarget) Pending() (ids []int, ok bool) {
	p.pe.Sync(func() {
		for _, t := range p.c.tasks {
			ids = append(ids, t.id)
		}
	})
	return ids, true
}

func toTks(vals []any) []*tk {
	b := make([]*tk, len(vals))
	for i, v := range vals {
		b[i] = v.(*tk)
	}
	return b
}

type bulkTarget struct{ be *executors.BulkExecutor }

func newBulk(h *hist, thr int) *bulkTarget {
	return &bulkTarget{executors.NewBulkExecutor(func(vals []any) {
		// a batch taken by a flush is always below the threshold: reaching it
		// removes the batch under the same lock hold
		via := "flush-or-tick"
		if len(vals) >= thr {
			via = "threshold-add"
		}
		h.run(toTks(vals), via)
	}, executors.WithBulkTasks(thr), executors.WithBulkInterval(tickEvery))}
}
func (b *bulkTarget) Add(t *tk)              { b.be.Add(t) }
func (b *bulkTarget) Flush()                 { b.be.Flush() }
func (b *bulkTarget) Wait()                  { b.be.Wait() }
func (b *bulkTarget) HasWait() bool          { return true }
func (b *bulkTarget) Kind() string           { return "bulk" }
func (b *bulkTarget) Pending() ([]int, bool) { return nil, false }

type chunkTarget struct{ ce *executors.ChunkExecutor }

func newChunk(h *hist, bytes int) *chunkTarget {
	return &chunkTarget{executors.NewChunkExecutor(func(vals []any) {
		b := toTks(vals)
		sz := 0
		for _, t := range b {
			sz += t.size
		}
		via := "flush-or-tick"
		if sz >= bytes {
			via = "threshold-add"
		}
		h.run(b, via)
	}, executors.WithChunkBytes(bytes), executors.WithFlushInterval(tickEvery))}
}
func (b *chunkTarget) Add(t *tk)              { b.ce.Add(t, t.size) }
func (b *chunkTarget) Flush()                 { b.ce.Flush() }
func (b *chunkTarget) Wait()                  { b.ce.Wait() }
func (b *chunkTarget) HasWait() bool          { return true }
func (b *chunkTarget) Kind() string           { return "chunk" }
func (b *chunkTarget) Pending() ([]int, bool) { return nil, false }

// fakeConn is the SqlConn behind sqlx.BulkInserter: only Exec is ever called.
type fakeConn struct {
	sqlx.SqlConn
	h     *hist
	tasks []*tk
}

type fakeResult struct{ n int64 }

func (r fakeResult) LastInsertId() (int64, error) { return 0, nil }
func (r fakeResult) RowsAffected() (int64, error) { return r.n, nil }

func (f *fakeConn) Exec(q string, _ ...any) (sql.Result, error) {
	// insert into t (id) values (12), (13), ...
	var b []*tk
	rest := q[strings.Index(strings.ToLower(q), "values")+len("values"):]
	for _, part := range strings.Split(rest, ",") {
		part = strings.Trim(strings.TrimSpace(part), "()")
		id, err := strconv.Atoi(part)
		if err != nil || id < 0 || id >= len(f.tasks) {
			b = append(b, &tk{id: -1})
			continue
		}
		b = append(b, f.tasks[id])
	}
	via := "flush-or-tick"
	if len(b) >= 1000 {
		via = "threshold-add"
	}
	f.h.run(b, via)
	return fakeResult{int64(len(b))}, nil
}
func (f *fakeConn) ExecCtx(_ context.Context, q string, a ...any) (sql.Result, error) {
	return f.Exec(q, a...)
}

type sqlTarget struct{ bi *sqlx.BulkInserter }

func newSQL(h *hist, tasks []*tk) *sqlTarget {
	bi, err := sqlx.NewBulkInserter(&fakeConn{h: h, tasks: tasks}, "insert into t (id) values (?)")
	if err != nil {
		panic(err)
	}
	return &sqlTarget{bi}
}
func (s *sqlTarget) Add(t *tk) {
	if err := s.bi.Insert(t.id); err != nil {
		panic(err)
	}
}
func (s *sqlTarget) Flush()                 { s.bi.Flush() }
func (s *sqlTarget) Wait()                  {}
func (s *sqlTarget) HasWait() bool          { return false }
func (s *sqlTarget) Kind() string           { return "sqlx-bulkinserter" }
func (s *sqlTarget) Pending() ([]int, bool) { return nil, false }

// ---------------------------------------------------------------- waiting helpers

func waitUntil(cond func() bool, max time.Duration) bool {
	start := time.Now()
	for i := 0; ; i++ {
		if cond() {
			return true
		}
		switch {
		case i < 50:
			runtime.Gosched()
		case i < 2000:
			time.Sleep(50 * time.Microsecond)
		default:
			time.Sleep(time.Millisecond)
		}
		if i&15 == 15 && time.Since(start) > max {
			return cond()
		}
	}
}

func waitChan(ch <-chan struct{}, max time.Duration) bool {
	select {
	case <-ch:
		return true
	default:
	}
	t := time.NewTimer(max)
	defer t.Stop()
	select {
	case <-ch:
		return true
	case <-t.C:
		return false
	}
}

type gdump struct {
	stack string
	n     int
}

// labelled returns the goroutines carrying this case's pprof label (except the caller).
func labelled(id string) []gdump {
	var buf bytes.Buffer
	p := pprof.Lookup("goroutine")
	if p == nil || p.WriteTo(&buf, 1) != nil {
		return nil
	}
	want := `"verif_case":"` + id + `"`
	var res []gdump
	for _, blk := range strings.Split(buf.String(), "\n\n") {
		if !strings.Contains(blk, want) || strings.Contains(blk, "c11.labelled") {
			continue
		}
		n := 1
		if i := strings.Index(blk, " @"); i > 0 {
			if v, err := strconv.Atoi(strings.TrimSpace(blk[:i])); err == nil {
				n = v
			}
		}
		var sb strings.Builder
		for _, ln := range strings.Split(blk, "\n") {
			if strings.HasPrefix(ln, "#") {
				f := strings.Fields(ln)
				if len(f) >= 3 {
					name := f[2]
					if i := strings.Index(name, "+0x"); i >= 0 {
						name = name[:i]
					}
					sb.WriteString(name + "\n")
				}
			}
		}
		res = append(res, gdump{sb.String(), n})
	}
	return res
}

// quiesce advances the virtual clock until every goroutine of the case is gone
// (the background flusher quits on its next tick once it has been idle for more
// than ten intervals of VIRTUAL time and nothing is in flight).
func quiesce(id string, base int, jump time.Duration) bool {
	// the labelled census is authoritative (every goroutine the case spawned,
	// transitively, carries its label); the goroutine count only says when to look
	i := 0
	return waitUntil(func() bool {
		vc.Advance(jump)
		i++
		if runtime.NumGoroutine() <= base || i%400 == 0 {
			return len(labelled(id)) == 0
		}
		return false
	}, watchdog)
}

// deadlocked decides by STATE, not by elapsed time, that an API call of the case
// can never complete: in three dumps taken a second apart (1) the same goroutines
// are parked inside Add/Wait/Flush with identical stacks, (2) the set of all
// stacks of the case is identical, (3) no background flusher goroutine exists,
// (4) no Execute callback is in progress (so the harness holds nothing back).
// Returns the parked calls, or nil.
func deadlocked(id string, h *hist) []string {
	var first map[string]bool
	fingerprint := ""
	for d := 0; d < 3; d++ {
		if d > 0 {
			time.Sleep(time.Second)
		}
		h.mu.Lock()
		running := 0
		for _, x := range h.execs {
			if x.Exit == 0 {
				running++
			}
		}
		h.mu.Unlock()
		if running > 0 {
			return nil
		}
		cur := map[string]bool{}
		var all []string
		for _, g := range labelled(id) {
			if strings.Contains(g.stack, "backgroundFlush") {
				return nil
			}
			if !strings.Contains(g.stack, "/go-zero/core/") {
				continue // harness-only goroutine (controller, completion waiters)
			}
			all = append(all, strconv.Itoa(g.n)+"x"+g.stack)
			for _, api := range []string{"Add", "Wait", "Flush"} {
				if strings.Contains(g.stack, "(*PeriodicalExecutor)."+api+"\n") {
					cur[api+"\n"+g.stack] = true
				}
			}
		}
		sort.Strings(all)
		fp := strings.Join(all, "|")
		if len(cur) == 0 {
			return nil
		}
		if d == 0 {
			first, fingerprint = cur, fp
			continue
		}
		if fp != fingerprint || len(cur) != len(first) {
			return nil
		}
		for k := range cur {
			if !first[k] {
				return nil
			}
		}
	}
	var calls []string
	for k := range first {
		calls = append(calls, k)
	}
	sort.Strings(calls)
	return calls
}

// awaitAPI waits for API calls running in other goroutines. Elapsed time alone
// never yields a verdict: the wait ends early only when deadlocked() proves that
// the call cannot complete; the watchdog firing is merely inconclusive.
func awaitAPI(id string, h *hist, ch <-chan struct{}) bool {
	if waitChan(ch, 3*time.Second) {
		return true
	}
	deadline := time.Now().Add(watchdog)
	for time.Now().Before(deadline) {
		if calls := deadlocked(id, h); len(calls) > 0 {
			h.stuck = calls
			return false
		}
		if waitChan(ch, 2*time.Second) {
			return true
		}
	}
	return false
}

// reportBlocked is called when awaitAPI gave up.
func reportBlocked(c *kit.Case, h *hist, desc map[string]any, what string) {
	if len(h.stuck) == 0 {
		h.stuck = deadlocked(c.ID, h)
	}
	if calls := h.stuck; len(calls) > 0 {
		api := calls[0][:strings.Index(calls[0], "\n")]
		viol(c, "C11/stuck/"+api+"/no-flusher-alive",
			api+" can never return: it is parked with a stable stack, no background flusher goroutine exists and no callback is running ("+what+")",
			witness(h, desc, map[string]any{"parked": calls}))
		c.Obs("stuck_calls_detected", 1)
		return
	}
	c.Inconclusive("watchdog: " + what)
}

// ---------------------------------------------------------------- oracle

func witness(h *hist, desc map[string]any, extra map[string]any) map[string]any {
	evs := h.merged()
	var lines []string
	for i, e := range evs {
		if i >= 600 {
			lines = append(lines, fmt.Sprintf("... %d more", len(evs)-i))
			break
		}
		if e.T >= 0 {
			lines = append(lines, fmt.Sprintf("%d g%d %s t%d", e.S, e.A, e.Op, e.T))
		} else {
			lines = append(lines, fmt.Sprintf("%d g%d %s", e.S, e.A, e.Op))
		}
	}
	var xs []string
	for i, x := range h.snapshot() {
		if i >= 300 {
			xs = append(xs, "...")
			break
		}
		ids := fmt.Sprint(x.IDs)
		if len(x.IDs) > 24 {
			ids = fmt.Sprintf("%v..%v (%d tasks)", x.IDs[:3], x.IDs[len(x.IDs)-3:], len(x.IDs))
		}
		xs = append(xs, fmt.Sprintf("execute enter=%d exit=%d via=%s panicked=%v tasks=%s", x.Enter, x.Exit, x.Via, x.Panicked, ids))
	}
	w := map[string]any{"case": desc, "client_events": lines, "executions": xs}
	for k, v := range extra {
		w[k] = v
	}
	return w
}

type verdict struct {
	nontrivial bool
	sig        string
	waits      int
	lateSeen   bool
}

// check is the offline oracle. quiescent says that no goroutine of the executor
// is left (so whatever did not happen will never happen).
func check(c *kit.Case, h *hist, tg target, desc map[string]any, quiescent bool) verdict {
	evs := h.merged()
	execs := h.snapshot()
	kind := tg.Kind()

	addRet := map[int]uint64{}
	addInv := map[int]uint64{}
	type wt struct {
		inv, ret uint64
		a        int
	}
	var waits []wt
	open := map[int]uint64{}
	var escapes []string
	for _, e := range evs {
		switch e.Op {
		case "add.inv":
			addInv[e.T] = e.S
		case "add.ret":
			addRet[e.T] = e.S
		case "wait.inv":
			open[e.A] = e.S
		case "wait.ret":
			waits = append(waits, wt{open[e.A], e.S, e.A})
			delete(open, e.A)
		case "panic-escaped.add", "panic-escaped.wait", "panic-escaped.flush":
			escapes = append(escapes, e.Op)
		}
	}
	occ := map[int][]int{} // task -> indices of executions that got it (with multiplicity)
	running := 0
	for i, x := range execs {
		if x.Exit == 0 {
			running++
		}
		for _, id := range x.IDs {
			occ[id] = append(occ[id], i)
		}
	}
	type finding struct {
		key, what string
		extra     map[string]any
	}
	found := map[string]*finding{}
	add := func(key, what string, extra map[string]any) {
		if _, ok := found[key]; !ok {
			found[key] = &finding{key, what, extra}
		}
	}

	// ---- containment: the callback's panic never reaches the client
	if len(escapes) > 0 {
		add("C11/panic-escaped/"+kind+"/"+strings.TrimPrefix(escapes[0], "panic-escaped."),
			"the panic of an Execute callback came out of an API call of the client", map[string]any{"escaped": escapes})
	}

	// ---- never a task that was not added, never twice
	for id, xs := range occ {
		if _, ok := addInv[id]; !ok {
			add("C11/phantom/"+kind, fmt.Sprintf("task t%d was passed to Execute but never given to Add", id), map[string]any{"task": id})
		}
		if len(xs) > 1 {
			vias := map[string]bool{}
			for _, i := range xs {
				vias[execs[i].Via] = true
			}
			add("C11/duplicate/"+kind, fmt.Sprintf("task t%d was passed to Execute %d times", id, len(xs)),
				map[string]any{"task": id, "executions": xs, "vias": fmt.Sprint(vias)})
		}
	}

	// ---- wait barrier
	var v verdict
	for _, w := range waits {
		for id, ar := range addRet {
			if ar >= w.inv {
				continue
			}
			xs := occ[id]
			if len(xs) == 0 {
				continue // decided below (lost / stranded), once quiescent
			}
			x := execs[xs[0]]
			if x.Exit == 0 || x.Exit > w.ret {
				v.lateSeen = true
				add("C11/wait-barrier/batch-removed-by-"+x.Via,
					fmt.Sprintf("Wait (g%d, stamps %d..%d) returned before the Execute call for task t%d had returned (Add(t%d) returned at %d < Wait invoked at %d; Execute enter=%d exit=%d; batch left the container via %s)",
						w.a, w.inv, w.ret, id, id, ar, w.inv, x.Enter, x.Exit, x.Via),
					map[string]any{"target": kind, "task": id, "wait": []uint64{w.inv, w.ret}, "add_ret": ar, "execute": []uint64{x.Enter, x.Exit}, "via": x.Via})
			}
		}
	}

	// ---- exactly once (needs quiescence: a late task is a barrier violation, not a lost one)
	if quiescent {
		if running > 0 {
			c.Inconclusive(fmt.Sprintf("%d Execute calls still running at the end of a quiescent history", running))
		}
		var missing []int
		for id := range addRet {
			if len(occ[id]) == 0 {
				missing = append(missing, id)
			}
		}
		if len(missing) > 0 {
			sort.Ints(missing)
			pend, ok := tg.Pending()
			inCont := map[int]bool{}
			for _, id := range pend {
				inCont[id] = true
			}
			var stranded, lost []int
			for _, id := range missing {
				if ok && inCont[id] {
					stranded = append(stranded, id)
				} else {
					lost = append(lost, id)
				}
			}
			if len(stranded) > 0 {
				add("C11/stranded/"+kind, fmt.Sprintf("tasks %v: Add returned, never executed, still in the container although no goroutine of the executor is left to flush them", stranded),
					map[string]any{"tasks": stranded})
			}
			if len(lost) > 0 {
				add("C11/lost/"+kind, fmt.Sprintf("tasks %v: Add returned, never passed to Execute, not in the container any more", lost),
					map[string]any{"tasks": lost})
			}
		}
	}

	keys := make([]string, 0, len(found))
	for k := range found {
		keys = append(keys, k)
	}
	sort.Strings(keys)
	for _, k := range keys {
		f := found[k]
		viol(c, f.key, f.what, witness(h, desc, f.extra))
	}

	// ---- coverage: interleaving signature; non-trivial iff some Wait overlapped
	// foreign activity (an event of another client or an Execute enter/exit)
	type se struct {
		s  uint64
		tx string
	}
	var seq []se
	for _, e := range evs {
		seq = append(seq, se{e.S, fmt.Sprintf("g%d:%s", e.A, e.Op)})
	}
	for _, x := range execs {
		seq = append(seq, se{x.Enter, "x:enter:" + x.Via})
		if x.Exit > 0 {
			p := ""
			if x.Panicked {
				p = "!"
			}
			seq = append(seq, se{x.Exit, "x:exit" + p})
		}
	}
	sort.Slice(seq, func(i, j int) bool { return seq[i].s < seq[j].s })
	hs := fnv.New64a()
	fmt.Fprint(hs, kind, ";")
	for _, s := range seq {
		hs.Write([]byte(s.tx))
		hs.Write([]byte{';'})
	}
	v.sig = strconv.FormatUint(hs.Sum64(), 16)
	v.waits = len(waits)
	for _, w := range waits {
		for _, e := range evs {
			if e.A != w.a && e.S > w.inv && e.S < w.ret {
				v.nontrivial = true
			}
		}
		for _, x := range execs {
			if (x.Enter > w.inv && x.Enter < w.ret) || (x.Exit > w.inv && x.Exit < w.ret) {
				v.nontrivial = true
			}
		}
	}
	var nPanic, nTasks int64
	vias := map[string]int64{}
	for _, x := range execs {
		if x.Panicked {
			nPanic++
		}
		nTasks += int64(len(x.IDs))
		vias[x.Via]++
	}
	c.Obs("histories", 1)
	c.Obs("adds_returned", int64(len(addRet)))
	c.Obs("waits", int64(len(waits)))
	c.Obs("execute_calls", int64(len(execs)))
	c.Obs("tasks_executed", nTasks)
	c.Obs("execute_panics", nPanic)
	for k, n := range vias {
		c.Obs("batches_via_"+k, n)
	}
	if v.lateSeen {
		c.Obs("histories_with_early_wait_return", 1)
	}
	return v
}

// ---------------------------------------------------------------- client side

type clientOp struct {
	K string // add | flush | wait | yield
	T int
}

func (o clientOp) String() string {
	if o.K == "add" {
		return "add(t" + strconv.Itoa(o.T) + ")"
	}
	return o.K
}

// escaped records a harness poison panic that came out of an API call ("a panicking
// callback loses only its own batch": it must not reach the caller); any other panic
// is not ours to judge and is re-raised.
func escaped(a *actor, api string) {
	if p := recover(); p != nil {
		if s, ok := p.(string); ok && strings.HasPrefix(s, "verif: poisoned task") {
			a.rec("panic-escaped."+api, -1)
			return
		}
		panic(p)
	}
}

func doAdd(a *actor, tg target, t *tk) {
	defer escaped(a, "add")
	a.rec("add.inv", t.id)
	tg.Add(t)
	a.rec("add.ret", t.id)
}

func doWait(a *actor, tg target) {
	defer escaped(a, "wait")
	a.rec("wait.inv", -1)
	tg.Wait()
	a.rec("wait.ret", -1)
}

func doFlush(a *actor, tg target) {
	defer escaped(a, "flush")
	a.rec("flush.inv", -1)
	tg.Flush()
	a.rec("flush.ret", -1)
}

// async runs fn in a labelled goroutine of the case and returns its completion channel.
func async(fn func()) <-chan struct{} {
	ch := make(chan struct{})
	go func() {
		defer close(ch)
		fn()
	}()
	return ch
}

// guardedAdd runs one Add on behalf of the sequential client `a` under the watchdog.
func guardedAdd(c *kit.Case, h *hist, a *actor, tg target, t *tk) bool {
	return awaitAPI(c.ID, h, async(func() { doAdd(a, tg, t) }))
}

// finish ends a history: optional final Wait, quiescence, oracle.
func finish(c *kit.Case, h *hist, tg target, desc map[string]any, base int, finalWait bool, jump time.Duration, forceNontrivial bool) {
	main := h.actor()
	if finalWait && tg.HasWait() {
		done := async(func() { doWait(main, tg) })
		if !awaitAPI(c.ID, h, done) {
			reportBlocked(c, h, desc, "final Wait did not return")
			return
		}
	} else if !tg.HasWait() {
		done := async(func() { doFlush(main, tg) })
		if !awaitAPI(c.ID, h, done) {
			reportBlocked(c, h, desc, "final Flush did not return")
			return
		}
	}
	q := quiesce(c.ID, base, jump)
	if !q {
		c.Inconclusive("executor goroutines did not go away after the history ended")
	}
	v := check(c, h, tg, desc, q)
	c.Sig(v.nontrivial || forceNontrivial, v.sig)
}

// ---------------------------------------------------------------- family: random concurrent histories

type shaping struct {
	gate chan struct{}
	stop chan struct{}
}

func newShaping() *shaping { return &shaping{gate: make(chan struct{}), stop: make(chan struct{})} }

func (s *shaping) onExec(b []*tk) {
	t := b[0]
	switch t.delay {
	case 1:
		for i := 0; i <= t.id%4; i++ {
			runtime.Gosched()
		}
	case 2:
		time.Sleep(time.Duration(30+t.id*37%250) * time.Microsecond)
	case 3:
		select {
		case <-s.gate:
		case <-s.stop:
		case <-time.After(50 * time.Millisecond): // schedule shaping only
		}
	}
	for _, x := range b {
		if x.poison {
			panic(fmt.Sprintf("verif: poisoned task t%d", x.id))
		}
	}
}

// controller releases gated Execute calls and makes the flusher go idle at random points.
func (s *shaping) controller(r *kit.Rand, jumps bool) (stopped <-chan struct{}, nJumps *atomic.Int64) {
	nJumps = new(atomic.Int64)
	return async(func() {
		for {
			select {
			case <-s.stop:
				return
			default:
			}
			switch r.Pick(4, 3, 2) {
			case 0:
				select {
				case s.gate <- struct{}{}:
				default:
				}
			case 1:
				if jumps {
					vc.Advance(idleJump)
					nJumps.Add(1)
				}
			default:
				runtime.Gosched()
			}
			time.Sleep(time.Duration(r.Range(20, 500)) * time.Microsecond)
		}
	}), nJumps
}

func runRandom(c *kit.Case, kind string) {
	r := c.R
	base := runtime.NumGoroutine()
	h := &hist{}
	sh := newShaping()
	h.onExec = sh.onExec

	thr := kit.Choose(r, []int{1, 2, 3, 10})
	producers := r.Range(1, 8)
	if r.Chance(0.35) {
		producers = r.Range(1, 3)
	}
	heldMode := r.Chance(0.4)
	pPoison := 0.0
	if r.Chance(0.4) {
		pPoison = 0.04
	}
	jumps := r.Chance(0.6)
	finalWait := r.Chance(0.7)
	wWait, wFlush := r.Range(2, 20), r.Range(0, 12)

	var tasks []*tk
	progs := make([][]clientOp, producers)
	for p := range progs {
		n := r.Range(2, 14)
		for i := 0; i < n; i++ {
			switch r.Pick(70, wFlush, wWait, 6) {
			case 0:
				t := &tk{id: len(tasks), size: r.Range(1, 5), poison: r.Chance(pPoison)}
				switch {
				case heldMode && r.Chance(0.5):
					t.delay = 3
				case r.Chance(0.3):
					t.delay = uint8(r.Range(1, 2))
				}
				tasks = append(tasks, t)
				progs[p] = append(progs[p], clientOp{"add", t.id})
			case 1:
				progs[p] = append(progs[p], clientOp{K: "flush"})
			case 2:
				progs[p] = append(progs[p], clientOp{K: "wait"})
			default:
				progs[p] = append(progs[p], clientOp{K: "yield"})
			}
		}
	}
	chunkBytes := kit.Choose(r, []int{1, 4, 8, 30})

	var tg target
	switch kind {
	case "bulk":
		tg = newBulk(h, thr)
	case "chunk":
		tg = newChunk(h, chunkBytes)
	default:
		tg = newPE(h, thr)
	}
	desc := map[string]any{"family": c.Family, "target": tg.Kind(), "threshold": thr, "producers": producers,
		"held_mode": heldMode, "idle_jumps": jumps, "final_wait": finalWait, "programs": fmt.Sprint(progs)}
	if kind == "chunk" {
		desc["chunk_bytes"] = chunkBytes
		delete(desc, "threshold")
	}
	poisoned := []int{}
	for _, t := range tasks {
		if t.poison {
			poisoned = append(poisoned, t.id)
		}
	}
	desc["poisoned"] = poisoned

	ctl, nJumps := sh.controller(r.Split("controller"), jumps)
	var wg sync.WaitGroup
	for p := range progs {
		a := h.actor()
		prog := progs[p]
		wg.Add(1)
		go func() {
			defer wg.Done()
			for _, o := range prog {
				switch o.K {
				case "add":
					doAdd(a, tg, tasks[o.T])
				case "flush":
					doFlush(a, tg)
				case "wait":
					doWait(a, tg)
				default:
					runtime.Gosched()
				}
			}
		}()
	}
	ok := awaitAPI(c.ID, h, async(wg.Wait))
	close(sh.stop)
	<-ctl
	c.Obs("idle_jumps_injected", nJumps.Load())
	if !ok {
		reportBlocked(c, h, desc, "producers did not finish")
		return
	}
	finish(c, h, tg, desc, base, finalWait, idleJump, false)
	if c.Index < 3 {
		c.Sample(c.Family, 1, desc)
	}
}

// ---------------------------------------------------------------- family: hand-off window (Add reaches the threshold while a Wait starts)

// runHandoff places a Wait into the window in which a batch that Add removed
// from the container (threshold reached) is on its way to the background
// flusher. Variant "held": the flusher is kept inside Execute of an earlier
// batch, so the hand-off cannot complete before the Wait is in progress.
func runHandoff(c *kit.Case) {
	r := c.R
	base := runtime.NumGoroutine()
	h := &hist{}
	thr := kit.Choose(r, []int{2, 3, 10})
	held := r.Chance(0.7)
	holdSecond := r.Chance(0.3) // keep the handed-over batch inside Execute until the Wait returned (or patience ran out)
	extraWaiters := r.Range(0, 2)
	tg := newPE(h, thr)
	desc := map[string]any{"family": c.Family, "threshold": thr, "held_predecessor": held, "hold_handed_over_batch": holdSecond, "extra_waiters": extraWaiters}

	release0 := make(chan struct{})
	entered0 := make(chan struct{})
	waitReturned := make(chan struct{})
	var once0 sync.Once
	var thrBatches atomic.Int64
	h.onExec = func(b []*tk) {
		if b[0].via != "threshold-add" {
			return // a tick flushed a few tasks before the threshold was reached: not the batch we place
		}
		switch thrBatches.Add(1) {
		case 1:
			if held {
				once0.Do(func() { close(entered0) })
				select {
				case <-release0:
				case <-time.After(watchdog):
				}
			}
		case 2:
			if holdSecond {
				select {
				case <-waitReturned:
				case <-time.After(30 * time.Millisecond): // patience: on a correct executor the Wait is waiting for us
				}
			}
		}
	}
	var handoffs, waitFlushes atomic.Int64
	h.onRem = func(via string) {
		switch via {
		case "threshold-add":
			handoffs.Add(1)
		case "wait-flush":
			waitFlushes.Add(1)
		}
	}
	nextID := 0
	newTask := func() *tk { t := &tk{id: nextID}; nextID++; return t }
	main := h.actor()
	fail := func(what string) {
		once0.Do(func() { close(entered0) })
		select {
		case <-release0:
		default:
			close(release0)
		}
		reportBlocked(c, h, desc, what)
	}
	// a first batch through the threshold (a tick may flush a partial batch in between,
	// so add until one left that way); the flusher is then inside Execute of it
	for i := 0; handoffs.Load() < 1; i++ {
		if i > 50*thr {
			fail("no batch ever reached the threshold")
			return
		}
		if !guardedAdd(c, h, main, tg, newTask()) {
			fail("Add did not return")
			return
		}
	}
	if held && !waitChan(entered0, watchdog) {
		fail("Execute of the first batch was never entered")
		return
	}
	// the container is empty and (held) the flusher cannot flush: thr-1 tasks whose Add
	// returns, then the Add that reaches the threshold
	for i := 0; i < thr-1; i++ {
		if !guardedAdd(c, h, main, tg, newTask()) {
			fail("Add (below the threshold) did not return")
			return
		}
	}
	last := newTask()
	g := h.actor()
	gDone := async(func() { doAdd(g, tg, last) })
	if held {
		// the batch has left the container (RemoveAll under the lock, called by that Add)
		if !waitUntil(func() bool { return handoffs.Load() >= 2 }, watchdog) {
			fail("the second batch never left the container")
			return
		}
	} else if r.Bool() {
		runtime.Gosched()
	}
	var waiters []<-chan struct{}
	for i := 0; i <= extraWaiters; i++ {
		w := h.actor()
		first := i == 0
		waiters = append(waiters, async(func() {
			doWait(w, tg)
			if first {
				close(waitReturned)
			}
		}))
	}
	if held {
		// every waiter has run its own (empty) flush; it is now at, or about to reach, waitGroup.Wait
		// (further waiters queue up on the executor's barrier behind the first one)
		waitUntil(func() bool { return waitFlushes.Load() >= 1 }, 2*time.Second)
		for i := 0; i < r.Range(0, 20); i++ {
			runtime.Gosched()
		}
		if r.Chance(0.5) {
			time.Sleep(time.Duration(r.Range(50, 400)) * time.Microsecond)
		}
		close(release0)
	}
	for _, w := range waiters {
		if !awaitAPI(c.ID, h, w) {
			fail("Wait did not return")
			return
		}
	}
	if !awaitAPI(c.ID, h, gDone) {
		fail("the Add that reached the threshold did not return")
		return
	}
	c.Obs("handoff_scenarios", 1)
	finish(c, h, tg, desc, base, true, idleJump, true)
	if c.Index == 0 {
		c.Sample(c.Family, 1, desc)
	}
}

// ---------------------------------------------------------------- family: Add arrives while the flusher decides to quit

// runQuitRace parks the background flusher inside shallQuit (in the clock read
// that precedes the locked inflight/guarded decision) with the idle time
// exceeded, lets an Add complete (below the threshold: variant "below"; reaching
// it: variant "threshold"), then lets the flusher decide. No Wait is called
// before the verdict: the task must be executed by the flusher itself (its
// deferred flush on quitting, or the normal hand-off because it must not quit
// while a batch is in flight).
func runQuitRace(c *kit.Case) {
	r := c.R
	base := runtime.NumGoroutine()
	h := &hist{}
	thr := kit.Choose(r, []int{2, 3, 10})
	variant := kit.Choose(r, []string{"below", "threshold"})
	nBelow := r.Range(1, thr-1)
	tg := newPE(h, thr)
	desc := map[string]any{"family": c.Family, "threshold": thr, "variant": variant}
	var handoffs atomic.Int64
	h.onRem = func(via string) {
		if via == "threshold-add" {
			handoffs.Add(1)
		}
	}
	main := h.actor()
	nextID := 0
	newTask := func() *tk { t := &tk{id: nextID}; nextID++; return t }

	// start the flusher and let the periodic flush execute a first task (no Wait, no Flush)
	var reads atomic.Int64
	counting := func() { reads.Add(1) }
	clockHook.Store(&counting)
	defer clockHook.Store(nil)
	if !guardedAdd(c, h, main, tg, newTask()) {
		reportBlocked(c, h, desc, "first Add did not return")
		return
	}
	if !waitUntil(func() bool { return h.done.Load() >= 1 }, 5*time.Second) {
		// not a verdict: the scenario is given up and the history is ended WITHOUT a Wait;
		// finish() retires the flusher (virtual idle time) and only once no goroutine of
		// the executor is left decides whether the task was executed, stranded or lost
		c.Obs("scenarios_given_up", 1)
		finish(c, h, tg, desc, base, false, idleJump, true)
		return
	}
	c.Obs("tasks_executed_by_periodic_flush_alone", 1)
	// two more clock reads: the flusher is past `last = Now()` of that flush and back
	// in its loop; from now on only the idle check reads the clock
	n0 := reads.Load()
	if !waitUntil(func() bool { return reads.Load() >= n0+2 }, watchdog) {
		c.Inconclusive("the flusher stopped reading the clock")
		finish(c, h, tg, desc, base, true, idleJump, true)
		return
	}

	// park the flusher inside shallQuit
	parked := make(chan struct{})
	release := make(chan struct{})
	var once sync.Once
	hook := func() {
		first := false
		once.Do(func() { first = true })
		if first {
			close(parked)
			select {
			case <-release:
			case <-time.After(watchdog):
			}
		}
	}
	clockHook.Store(&hook)
	unhook := func() {
		clockHook.Store(nil)
		select {
		case <-release:
		default:
			close(release)
		}
	}
	if !waitChan(parked, watchdog) {
		unhook()
		c.Inconclusive("the flusher never read the clock (idle check not reached)")
		finish(c, h, tg, desc, base, true, idleJump, true)
		return
	}
	vc.Advance(idleJump) // idle time exceeded once the parked clock read returns
	c.Obs("flusher_parked_in_idle_check", 1)

	var want int64 = 1
	var gDone <-chan struct{}
	switch variant {
	case "below":
		for i := 0; i < nBelow; i++ {
			if !guardedAdd(c, h, main, tg, newTask()) {
				unhook()
				reportBlocked(c, h, desc, "Add below the threshold did not return")
				return
			}
			want++
		}
	default:
		for i := 0; i < thr-1; i++ {
			if !guardedAdd(c, h, main, tg, newTask()) {
				unhook()
				reportBlocked(c, h, desc, "Add below the threshold did not return")
				return
			}
			want++
		}
		g := h.actor()
		t := newTask()
		want++
		gDone = async(func() { doAdd(g, tg, t) })
		// inflight was incremented before RemoveAll was called, both under the lock
		if !waitUntil(func() bool { return handoffs.Load() >= 1 }, watchdog) {
			unhook()
			reportBlocked(c, h, desc, "the batch never left the container")
			return
		}
	}
	desc["tasks"] = want
	unhook()

	if variant == "threshold" {
		// either the Add returns (the flusher stayed and confirmed it), or the flusher is
		// gone and the Add is parked on a confirmation nobody can send
		if !awaitAPI(c.ID, h, gDone) {
			reportBlocked(c, h, desc, "the flusher was deciding to quit while an Add handed a batch over; that Add did not return")
			if len(h.stuck) > 0 {
				// rescue: another Add restarts a flusher, which picks the batch up
				if guardedAdd(c, h, main, tg, newTask()) && waitChan(gDone, watchdog) {
					h.stuck = nil
					finish(c, h, tg, desc, base, true, idleJump, true)
				}
			}
			return
		}
		c.Obs("quit_refused_while_batch_in_flight", 1)
	}
	// no Wait: the executor alone has to run everything; then it goes idle and quits
	finish(c, h, tg, desc, base, false, idleJump, true)
	if c.Index < 2 {
		c.Sample(c.Family, 2, desc)
	}
}

// ---------------------------------------------------------------- family: idle quit and restart, no Wait

func runIdleRestart(c *kit.Case) {
	r := c.R
	base := runtime.NumGoroutine()
	h := &hist{}
	thr := kit.Choose(r, []int{1, 2, 3, 10})
	tg := newPE(h, thr)
	cycles := r.Range(2, 4)
	desc := map[string]any{"family": c.Family, "threshold": thr, "cycles": cycles}
	main := h.actor()
	id := 0
	var plan []string
	for cy := 0; cy < cycles; cy++ {
		n := r.Range(1, thr+2)
		for i := 0; i < n; i++ {
			if !guardedAdd(c, h, main, tg, &tk{id: id}) {
				desc["plan"] = plan
				reportBlocked(c, h, desc, "Add did not return")
				return
			}
			id++
		}
		mode := r.Pick(5, 3, 2)
		plan = append(plan, fmt.Sprintf("add*%d,mode%d", n, mode))
		switch mode {
		case 0: // wait for the periodic flush, then for the confirmed quit, then Add at once
			want := int64(id)
			if !waitUntil(func() bool { return h.done.Load() >= want }, 5*time.Second) {
				// not a verdict: give the scenario up, retire the flusher, let the oracle decide by state
				c.Obs("scenarios_given_up", 1)
				desc["plan"] = plan
				finish(c, h, tg, desc, base, false, idleJump, true)
				return
			}
			if quiesce(c.ID, base, idleJump) {
				c.Obs("idle_quits_confirmed", 1)
			}
		case 1: // make it idle and Add immediately: the Add races with the quit
			vc.Advance(idleJump)
			for i := 0; i < r.Range(0, 30); i++ {
				runtime.Gosched()
			}
		default:
			vc.Advance(idleJump)
			time.Sleep(time.Duration(r.Range(200, 2500)) * time.Microsecond)
		}
	}
	desc["plan"] = plan
	finish(c, h, tg, desc, base, r.Chance(0.3), idleJump, true)
	if c.Index == 0 {
		c.Sample(c.Family, 1, desc)
	}
}

// ---------------------------------------------------------------- family: sqlx.BulkInserter

func runSQL(c *kit.Case) {
	r := c.R
	base := runtime.NumGoroutine()
	h := &hist{}
	producers := r.Range(1, 4)
	per := r.Range(300, 900) // 1000 rows is the (fixed) threshold
	tasks := make([]*tk, producers*per)
	for i := range tasks {
		tasks[i] = &tk{id: i}
	}
	tg := newSQL(h, tasks)
	desc := map[string]any{"family": c.Family, "producers": producers, "inserts_per_producer": per}
	var wg sync.WaitGroup
	for p := 0; p < producers; p++ {
		a := h.actor()
		lo := p * per
		flushAt := r.Range(0, per)
		wg.Add(1)
		go func() {
			defer wg.Done()
			for i := lo; i < lo+per; i++ {
				doAdd(a, tg, tasks[i])
				if i-lo == flushAt {
					doFlush(a, tg)
				}
			}
		}()
	}
	if !awaitAPI(c.ID, h, async(wg.Wait)) {
		reportBlocked(c, h, desc, "inserters did not finish")
		return
	}
	// interval is a fixed real second: the flusher needs real ticks to notice the (virtual) idle time
	finish(c, h, tg, desc, base, true, 30*time.Second, producers*per >= 1000)
	if c.Index == 0 {
		c.Sample(c.Family, 1, desc)
	}
}

// ---------------------------------------------------------------- family: unobserved stress for the race detector

// rawCont has no harness synchronisation at all (no stamps, no locks): the only
// thing between the goroutines is go-zero's own protocol.
type rawCont struct {
	thr   int
	tasks []int
	sum   *int64
	n     *int64
}

func (c *rawCont) AddTask(v any) bool {
	c.tasks = append(c.tasks, v.(int))
	return len(c.tasks) >= c.thr
}
func (c *rawCont) RemoveAll() any { b := c.tasks; c.tasks = nil; return b }
func (c *rawCont) Execute(v any) {
	for _, x := range v.([]int) {
		atomic.AddInt64(c.sum, int64(x))
		atomic.AddInt64(c.n, 1)
	}
}

func runRaw(c *kit.Case) {
	r := c.R
	base := runtime.NumGoroutine()
	thr := kit.Choose(r, []int{1, 2, 3, 10})
	producers := r.Range(2, 8)
	per := r.Range(20, 120)
	var sum, n int64
	pe := executors.NewPeriodicalExecutor(tickEvery, &rawCont{thr: thr, sum: &sum, n: &n})
	var wg sync.WaitGroup
	var want int64
	for p := 0; p < producers; p++ {
		lo := p * per
		for i := lo; i < lo+per; i++ {
			want += int64(i + 1)
		}
		flushEvery := r.Range(5, 40)
		jumpEvery := r.Range(10, 60)
		wg.Add(1)
		go func() {
			defer wg.Done()
			for i := lo; i < lo+per; i++ {
				pe.Add(i + 1)
				if i%flushEvery == 0 {
					pe.Flush()
				}
				if i%jumpEvery == 0 {
					vc.Advance(idleJump)
					runtime.Gosched()
				}
			}
		}()
	}
	desc := map[string]any{"family": c.Family, "threshold": thr, "producers": producers, "adds_per_producer": per}
	if !waitChan(async(wg.Wait), watchdog) {
		c.Inconclusive("raw stress: producers did not finish")
		return
	}
	if !waitChan(async(pe.Wait), watchdog) {
		c.Inconclusive("raw stress: Wait did not return")
		return
	}
	q := quiesce(c.ID, base, idleJump)
	gotN, gotSum := atomic.LoadInt64(&n), atomic.LoadInt64(&sum)
	if q && (gotN != int64(producers*per) || gotSum != want) {
		kind := "lost"
		if gotN > int64(producers*per) {
			kind = "duplicate"
		}
		viol(c, "C11/"+kind+"/periodical-unobserved", fmt.Sprintf("after Wait and quiescence %d tasks (sum %d) were executed, %d (sum %d) were added", gotN, gotSum, producers*per, want), desc)
	}
	c.Obs("raw_stress_histories", 1)
	c.Obs("raw_stress_tasks", gotN)
	c.Sig(false, "raw", thr, producers, per)
}

// ---------------------------------------------------------------- test

var violCount = map[*kit.Case]int{}

func viol(c *kit.Case, key, what string, w any) {
	violCount[c]++
	c.Viol(key, what, w)
}

func violations(c *kit.Case) int { return violCount[c] }

func TestVerifC11(t *testing.T) {
	logx.Disable()
	installClock()
	defer kit.UninstallVClock()
	runtime.Gosched()
	time.Sleep(10 * time.Millisecond)

	lab := func(fn func(c *kit.Case)) func(c *kit.Case) {
		return func(c *kit.Case) {
			runs := 1
			if kit.GetEnv().Only != "" {
				runs = 200 // --replay: schedules are not reproducible, so the case is repeated and the hits are counted
			}
			hits := 0
			for i := 0; i < runs; i++ {
				c.R = kit.NewRand(c.Seed)
				was := c.Violated()
				before := violations(c)
				kit.WithLabel(c.ID, func() { fn(c) })
				if violations(c) > before || (!was && c.Violated()) {
					hits++
				}
			}
			if runs > 1 {
				c.Obs("replay_runs", int64(runs))
				c.Obs("replay_runs_with_violation", int64(hits))
			}
		}
	}
	kit.Run(t, "C11", "random", kit.N(12000, 200000), lab(func(c *kit.Case) { runRandom(c, "periodical") }))
	kit.Run(t, "C11", "random-bulk", kit.N(2000, 30000), lab(func(c *kit.Case) { runRandom(c, "bulk") }))
	kit.Run(t, "C11", "random-chunk", kit.N(2000, 30000), lab(func(c *kit.Case) { runRandom(c, "chunk") }))
	kit.Run(t, "C11", "handoff", kit.N(800, 12000), lab(runHandoff))
	kit.Run(t, "C11", "quit-race", kit.N(600, 9000), lab(runQuitRace))
	kit.Run(t, "C11", "idle-restart", kit.N(600, 9000), lab(runIdleRestart))
	kit.Run(t, "C11", "raw-stress", kit.N(400, 6000), lab(runRaw))
	kit.Run(t, "C11", "sqlx-bulkinserter", kit.N(8, 64), lab(runSQL))
	kit.Run(t, "C11", "panic-followup", kit.N(500, 8000), lab(func(c *kit.Case) { runPanicFollowup(c, "periodical") }))
	kit.Run(t, "C11", "panic-followup-bulk", kit.N(500, 8000), lab(func(c *kit.Case) { runPanicFollowup(c, "bulk") }))
	kit.Run(t, "C11", "panic-followup-chunk", kit.N(500, 8000), lab(func(c *kit.Case) { runPanicFollowup(c, "chunk") }))
	kit.Run(t, "C11", "sqlx-faults", kit.N(24, 480), lab(runSQLFaults))
	kit.End()
}
