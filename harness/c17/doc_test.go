package c17

// doc_test.go: abstract document values, the generator of well-typed documents
// for a type descriptor, and single-mismatch mutations.

import (
	"math"
	"strings"

	"verifharness/kit"
)

type nkind int

const (
	nNull nkind = iota
	nBool
	nInt
	nBigUint // > MaxInt64: representable in JSON and YAML, not in TOML
	nFloat
	nStr
	nArr
	nMap
	nRawNum // JSON-only: a number literal given as text (encoding/json comparison family)
)

func (k nkind) String() string {
	return [...]string{"null", "bool", "int", "biguint", "float", "string", "array", "map", "rawnum"}[k]
}

type ent struct {
	key  string
	v    *node
	perm bool // key addresses a struct field: its letter case may be permuted
}

type node struct {
	k    nkind
	b    bool
	i    int64
	u    uint64
	f    float64
	fexp bool // spell the float with an exponent (same spelling in all three formats)
	// sp, when set, gives the number its own legal spelling per format (JSON, YAML, TOML); every
	// spelling denotes the same number (spell_test.go). nil: the canonical spelling.
	sp *[3]string
	s    string
	arr  []*node
	ents []ent
}

func (n *node) clone(keyMap func(e ent) string) *node {
	c := *n
	if n.arr != nil {
		c.arr = make([]*node, len(n.arr))
		for i, x := range n.arr {
			c.arr[i] = x.clone(keyMap)
		}
	}
	if n.ents != nil {
		c.ents = make([]ent, len(n.ents))
		for i, e := range n.ents {
			c.ents[i] = ent{key: keyMap(e), v: e.v.clone(keyMap), perm: e.perm}
		}
	}
	return &c
}

// has reports whether the tree contains a node of kind k.
func (n *node) has(k nkind) bool {
	if n.k == k {
		return true
	}
	for _, x := range n.arr {
		if x.has(k) {
			return true
		}
	}
	for _, e := range n.ents {
		if e.v.has(k) {
			return true
		}
	}
	return false
}

func (n *node) hasPermKeys() bool {
	for _, x := range n.arr {
		if x.hasPermKeys() {
			return true
		}
	}
	for _, e := range n.ents {
		if e.perm && strings.ToLower(e.key) != strings.ToUpper(e.key) {
			return true
		}
		if e.v.hasPermKeys() {
			return true
		}
	}
	return false
}

func (n *node) depth() int {
	d := 0
	for _, x := range n.arr {
		if k := x.depth(); k > d {
			d = k
		}
	}
	for _, e := range n.ents {
		if k := e.v.depth(); k > d {
			d = k
		}
	}
	if n.k == nArr || n.k == nMap {
		d++
	}
	return d
}

// permuteCase re-spells the letter case of a key. ASCII keys: byte-wise as ever; a key with
// non-ASCII letters: rune-wise with the unicode tables (permuteCaseU, unikeys_test.go), and only
// if every rune of it has a one-to-one case mapping.
func permuteCase(r *kit.Rand, s string) string {
	if !isASCII(s) {
		return permuteCaseU(r, s)
	}
	mode := r.Intn(4)
	b := []byte(s)
	for i, c := range b {
		isL := c >= 'a' && c <= 'z'
		isU := c >= 'A' && c <= 'Z'
		if !isL && !isU {
			continue
		}
		up := false
		switch mode {
		case 0:
			up = true
		case 1:
			up = false
		case 2:
			up = i == 0
		default:
			up = r.Bool()
		}
		if up && isL {
			b[i] = c - 32
		} else if !up && isU {
			b[i] = c + 32
		}
	}
	return string(b)
}

// ---------------------------------------------------------------- generator

type site struct {
	parent *node // container holding the value
	idx    int   // index into parent.arr or parent.ents
	t      *tdesc
	ctx    string // field | slice-elem | map-elem
}

type structSite struct {
	n *node
	t *tdesc
}

type dgen struct {
	r       *kit.Rand
	uni     bool // the type has non-ASCII keys: map data keys come from mapKeyPoolU
	sites   []site
	structs []structSite
}

var (
	mapKeyPool = []string{"a", "k1", "Key", "UPPER", "mixedCase", "with space", "dot.ted", "ünï", "1", "true", "name", "Host", "x-y", "ID", "port", "null"}
	strPool    = []string{"", "hello", "hello world", "true", "null", "1.0", "123", "~", "yes", "No", "a\"q\"b", "back\\slash", "line\nbreak", "tab\there",
		"héllo wörld", "中文", "🙂 ok", "  padded  ", "#notcomment", "key: value", "[1,2]", "{\"a\":1}", "'single'", "-", "- item", "0x1F", "1e3", "\u0001ctl", "a,b", "&anchor", "*alias", "!tag", "%dir", "@at", "`tick`", "2001-12-14", "12:30:45", "<<"}
	durPool   = []string{"1s", "300ms", "1h2m", "0s", "2h", "1.5s", "100us"}
	floatPool = []float64{0, 1, -1, 0.5, 1.5, -2.25, 3, 100, 1e-7, 123456.789, 1e21, 1e22, 3.0e10, 0.1, 2.5e-5, 1e15, 1e16, 9007199254740993, 3.4028234663852886e38, 1e39, 1.7976931348623157e308, 5e-324, math.Copysign(0, -1)}
)

func (g *dgen) intFor(t *tdesc) *node {
	bits := t.bits
	if t.k == tDuration {
		bits = 64
	}
	if t.k == tUint {
		var max uint64 = math.MaxUint64
		if bits < 64 {
			max = 1<<uint(bits) - 1
		}
		switch g.r.Pick(2, 2, 2, 4) {
		case 0:
			return &node{k: nInt, i: 0}
		case 1:
			return &node{k: nInt, i: 1}
		case 2:
			if max > math.MaxInt64 {
				if g.r.Chance(0.5) {
					return &node{k: nBigUint, u: max - uint64(g.r.Intn(3))}
				}
				return &node{k: nInt, i: math.MaxInt64}
			}
			return &node{k: nInt, i: int64(max)}
		default:
			if max > math.MaxInt64 {
				max = math.MaxInt64
			}
			return &node{k: nInt, i: int64(g.r.Uint64() % (max + 1))}
		}
	}
	var min, max int64 = math.MinInt64, math.MaxInt64
	if bits < 64 {
		min, max = -(1 << uint(bits-1)), 1<<uint(bits-1)-1
	}
	switch g.r.Pick(2, 2, 2, 1, 1, 4) {
	case 0:
		return &node{k: nInt, i: 0}
	case 1:
		return &node{k: nInt, i: 1}
	case 2:
		return &node{k: nInt, i: -1}
	case 3:
		return &node{k: nInt, i: min}
	case 4:
		return &node{k: nInt, i: max}
	default:
		if bits == 64 {
			return &node{k: nInt, i: int64(g.r.Uint64())}
		}
		return &node{k: nInt, i: min + int64(g.r.Uint64()%uint64(max-min+1))}
	}
}

func (g *dgen) floatFor(t *tdesc) *node {
	if t.bits == 32 && g.r.Chance(0.15) {
		// a float64 that lies exactly half-way between two adjacent float32 values (such a value
		// is a float64, hence representable in all three formats): its shortest decimal spelling
		// is usually not exactly the midpoint, so parsing the text with 32 bits and rounding the
		// parsed float64 to float32 may disagree
		x := float32(0.5 + g.r.Float64()*1000)
		y := math.Nextafter32(x, float32(math.Inf(1)))
		return &node{k: nFloat, f: (float64(x) + float64(y)) / 2}
	}
	switch g.r.Pick(6, 3, 2) {
	case 0:
		f := kit.Choose(g.r, floatPool)
		if t.bits == 32 && g.r.Chance(0.7) && (math.Abs(f) > 3e38 || (f != 0 && math.Abs(f) < 1e-40)) {
			f = 2.5
		}
		return &node{k: nFloat, f: f, fexp: g.r.Chance(0.15)}
	case 1:
		// random magnitude
		f := (g.r.Float64() - 0.5) * math.Pow(10, float64(g.r.Range(-8, 12)))
		if t.bits == 32 {
			f = float64(float32(f))
		}
		return &node{k: nFloat, f: f, fexp: g.r.Chance(0.15)}
	default:
		// an integer literal is a well-typed value for a float field
		return &node{k: nInt, i: int64(g.r.Range(-1000, 1000))}
	}
}

// value generates a well-typed document value for t.
func (g *dgen) value(t *tdesc, depth int) *node {
	switch t.k {
	case tPtr:
		return g.value(t.elem, depth)
	case tBool:
		return &node{k: nBool, b: g.r.Bool()}
	case tInt, tUint:
		return g.intFor(t)
	case tFloat:
		return g.floatFor(t)
	case tString:
		return &node{k: nStr, s: kit.Choose(g.r, strPool)}
	case tDuration:
		return &node{k: nStr, s: kit.Choose(g.r, durPool)}
	case tSlice:
		n := &node{k: nArr, arr: []*node{}}
		cnt := g.r.Pick(2, 4, 3, 2)
		if depth > 3 && cnt > 1 {
			cnt = 1
		}
		for i := 0; i < cnt; i++ {
			n.arr = append(n.arr, g.value(t.elem, depth+1))
			g.sites = append(g.sites, site{n, i, t.elem, "slice-elem"})
		}
		return n
	case tMap:
		n := &node{k: nMap, ents: []ent{}}
		cnt := g.r.Pick(2, 4, 3, 2)
		if depth > 3 && cnt > 1 {
			cnt = 1
		}
		used := map[string]bool{}
		for i := 0; i < cnt; i++ {
			pool := mapKeyPool
			if g.uni {
				pool = mapKeyPoolU
			}
			k := kit.Choose(g.r, pool)
			if used[k] {
				continue
			}
			used[k] = true
			n.ents = append(n.ents, ent{key: k, v: g.value(t.elem, depth+1)})
			g.sites = append(g.sites, site{n, len(n.ents) - 1, t.elem, "map-elem"})
		}
		return n
	case tStruct:
		n := &node{k: nMap, ents: []ent{}}
		fs := t.flatFields()
		for _, i := range g.r.Perm(len(fs)) {
			f := fs[i]
			if (f.optional || f.def != "") && g.r.Chance(0.5) {
				continue
			}
			var v *node
			if len(f.options) > 0 && g.r.Chance(0.8) {
				v = &node{k: nStr, s: kit.Choose(g.r, f.options)}
			} else {
				v = g.value(f.t, depth+1)
			}
			n.ents = append(n.ents, ent{key: f.key, v: v, perm: true})
			g.sites = append(g.sites, site{n, len(n.ents) - 1, f.t, "field"})
		}
		g.structs = append(g.structs, structSite{n, t})
		return n
	}
	panic("c17: unreachable")
}

func (s site) get() *node {
	if s.parent.k == nArr {
		return s.parent.arr[s.idx]
	}
	return s.parent.ents[s.idx].v
}

func (s site) set(v *node) {
	if s.parent.k == nArr {
		s.parent.arr[s.idx] = v
	} else {
		s.parent.ents[s.idx].v = v
	}
}

func (g *dgen) junk() *node {
	switch g.r.Intn(6) {
	case 0:
		return &node{k: nInt, i: int64(g.r.Range(-5, 500))}
	case 1:
		return &node{k: nStr, s: kit.Choose(g.r, strPool)}
	case 2:
		return &node{k: nFloat, f: kit.Choose(g.r, floatPool)}
	case 3:
		return &node{k: nBool, b: g.r.Bool()}
	case 4:
		return &node{k: nArr, arr: []*node{{k: nInt, i: 1}, {k: nStr, s: "x"}}}
	default:
		return &node{k: nMap, ents: []ent{{key: "Inner", v: &node{k: nInt, i: 1}}, {key: "mixedCase", v: &node{k: nMap, ents: []ent{{key: "DeepKey", v: &node{k: nStr, s: "v"}}}}}}}
	}
}

// mutate applies one mismatch to the generated document and returns its label
// (document value kind, expected kind, position), which the violation keys are built from.
// wantNull asks for a null mutation (only used outside the three-format oracle).
func (g *dgen) mutate(root *node, wantNull bool) string {
	r := g.r
	if wantNull && len(g.sites) > 0 {
		s := kit.Choose(r, g.sites)
		s.set(&node{k: nNull})
		return "null-for-" + s.t.deref().k.String() + "@" + s.ctx
	}
	choice := r.Pick(75, 10, 15)
	if len(g.sites) == 0 && choice == 0 {
		choice = 2
	}
	switch choice {
	case 1: // missing key
		var cands []structSite
		for _, ss := range g.structs {
			if len(ss.n.ents) > 0 {
				cands = append(cands, ss)
			}
		}
		if len(cands) > 0 {
			ss := kit.Choose(r, cands)
			i := r.Intn(len(ss.n.ents))
			key := ss.n.ents[i].key
			ss.n.ents = append(ss.n.ents[:i:i], ss.n.ents[i+1:]...)
			// sites recorded by index are stale now; a document gets exactly one mutation
			g.sites = nil
			lab := "missing-required-key"
			for _, f := range ss.t.flatFields() {
				if f.key == key && (f.optional || f.def != "") {
					lab = "missing-optional-key"
				}
			}
			return lab
		}
		fallthrough
	case 2: // extra key
		if len(g.structs) > 0 {
			ss := kit.Choose(r, g.structs)
			used := map[string]bool{}
			for _, f := range ss.t.flatFields() {
				used[strings.ToLower(f.key)] = true
			}
			for _, e := range ss.n.ents {
				used[strings.ToLower(e.key)] = true
			}
			for _, k := range []string{"Extra", "unKnown_Key", "zzz", "Other-key", "more"} {
				if !used[strings.ToLower(k)] {
					ss.n.ents = append(ss.n.ents, ent{key: k, v: g.junk()})
					return "extra-key"
				}
			}
		}
		return "well-typed"
	}
	s := kit.Choose(r, g.sites)
	t := s.t.deref()
	var v *node
	var what string
	str := func(x string) { v, what = &node{k: nStr, s: x}, "string" }
	intg := func(x int64) { v, what = &node{k: nInt, i: x}, "int" }
	// a number put where a string is expected is accepted by go-zero with its spelling, so the
	// canonical spelling (shortest digits, decimal point, no exponent) is used there: an exponent
	// is lexical detail that the YAML/TOML data models cannot carry
	fint := func(x float64) {
		v, what = &node{k: nFloat, f: x, fexp: t.k != tString && r.Chance(0.1)}, "float-integral"
	}
	ffrac := func(x float64) { v, what = &node{k: nFloat, f: x}, "float-fractional" }
	boolean := func() { v, what = &node{k: nBool, b: r.Bool()}, "bool" }
	arr := func() {
		v, what = &node{k: nArr, arr: []*node{{k: nInt, i: 1}, {k: nInt, i: 2}}}, "array"
		if r.Chance(0.3) {
			v.arr = []*node{}
			what = "empty-array"
		}
	}
	mp := func() {
		v, what = &node{k: nMap, ents: []ent{{key: "a", v: &node{k: nInt, i: 1}}}}, "map"
		if r.Chance(0.3) {
			v.ents = []ent{}
			what = "empty-map"
		}
	}
	switch t.k {
	case tInt, tUint:
		switch r.Pick(30, 10, 12, 6, 10, 6, 4, 4) {
		case 0:
			fint(kit.Choose(r, []float64{3, 0, 1, -1, 100, 12, math.Copysign(0, -1), 127, 1e3}))
			if t.k == tUint && v.f < 0 {
				v.f = 7
			}
		case 1:
			ffrac(kit.Choose(r, []float64{2.5, 0.5, -1.25, 1e-7}))
		case 2:
			str(kit.Choose(r, []string{"12", "abc", "", "1.0", " 5"}))
		case 3:
			boolean()
		case 4:
			// out of range for the width
			what = "int-out-of-range"
			switch {
			case t.k == tUint:
				v = &node{k: nInt, i: -1}
			case t.bits == 64:
				v = &node{k: nBigUint, u: math.MaxInt64 + 1}
			default:
				v = &node{k: nInt, i: 1 << uint(t.bits-1)}
			}
			if t.k == tUint && t.bits < 64 && r.Bool() {
				v = &node{k: nInt, i: 1 << uint(t.bits)}
			}
		case 5:
			fint(kit.Choose(r, []float64{1e20, 1e21, 3e9, 65536, 1e15}))
			what = "float-integral-big"
		case 6:
			arr()
		default:
			mp()
		}
	case tFloat:
		switch r.Pick(4, 2, 2, 1, 1) {
		case 0:
			str(kit.Choose(r, []string{"1.5", "abc", "", "1"}))
		case 1:
			boolean()
		case 2:
			v, what = &node{k: nFloat, f: kit.Choose(r, []float64{1e39, -1e39, 1e300})}, "float-huge"
		case 3:
			arr()
		default:
			mp()
		}
	case tString:
		switch r.Pick(3, 3, 3, 2, 1, 1) {
		case 0:
			intg(int64(r.Range(-3, 300)))
		case 1:
			fint(kit.Choose(r, []float64{1, 0, 12, -3}))
		case 2:
			ffrac(kit.Choose(r, []float64{1.5, 1e-7, 0.25, 1e21, 1e22, 123456.789}))
		case 3:
			boolean()
		case 4:
			arr()
		default:
			mp()
		}
	case tBool:
		switch r.Pick(3, 3, 1, 3, 1) {
		case 0:
			intg(int64(r.Range(0, 2)))
		case 1:
			fint(kit.Choose(r, []float64{1, 0}))
		case 2:
			ffrac(0.5)
		case 3:
			str(kit.Choose(r, []string{"true", "false", "yes", "1", "TRUE", ""}))
		default:
			arr()
		}
	case tDuration:
		switch r.Pick(3, 2, 3, 1, 3) {
		case 0:
			fint(kit.Choose(r, []float64{1000, 1, 0}))
		case 1:
			ffrac(1.5)
		case 2:
			str(kit.Choose(r, []string{"abc", "1", "", "5 s", "1d"}))
		case 3:
			boolean()
		default:
			intg(int64(r.Range(0, 5000000)))
		}
	case tStruct:
		switch r.Pick(2, 2, 2, 1, 1) {
		case 0:
			intg(1)
		case 1:
			str(kit.Choose(r, []string{"", "x", "{}", "{\"a\":1}"}))
		case 2:
			arr()
		case 3:
			boolean()
		default:
			ffrac(1.5)
		}
	case tSlice:
		switch r.Pick(2, 3, 2, 1, 1) {
		case 0:
			intg(1)
		case 1:
			str(kit.Choose(r, []string{"", "x", "[]", "[1,2]", "[\"a\",\"b\"]", "[1.0]", "AQID", "a,b"}))
		case 2:
			mp()
		case 3:
			boolean()
		default:
			fint(1)
		}
	case tMap:
		switch r.Pick(2, 3, 2, 1, 1) {
		case 0:
			intg(1)
		case 1:
			str(kit.Choose(r, []string{"", "x", "{}", "{\"a\":1}", "{\"a\":\"b\"}", "{\"a\":1.0}"}))
		case 2:
			arr()
		case 3:
			boolean()
		default:
			ffrac(2.5)
		}
	}
	s.set(v)
	return what + "-for-" + t.k.String() + "@" + s.ctx
}
