package c17

// history_test.go: the result of a load must not depend on what was loaded before.
//
// The statement makes the result a function of (document, type): "loading the same document ...
// yields identical results". The other families evaluate every (type, document) once and
// independently, and never feed input with bytes after the first JSON value; state kept between
// calls (a pooled decoder with a read-ahead buffer, a cached default, a memoised key) is invisible
// to them. Here
//
//   - repeat-after-scribble: an evaluation is repeated after an unrelated "scribble" call (another
//     document through one of the entry points: accepted, rejected, malformed, or with bytes after
//     the first JSON value) and must give the identical verdict and value;
//   - trailing input: JSON input followed by blanks, a second document, a stray bracket, NUL or
//     other bytes. encoding/json.Unmarshal rejects non-blank trailing data, go-zero's decoder-based
//     jsonx.Unmarshal stops after the first value: a verdict difference the statement's second
//     clause conditions away ("whenever both accept"), counted, not judged. With trailing blanks
//     both accept and all oracles apply.
//
// The goroutine is pinned to its OS thread while a sequence runs, so that per-P caches
// (sync.Pool) are hit with high probability; sequences are repeated often enough that a miss in
// one round does not matter.

import (
	"bytes"
	"reflect"
	"runtime"
	"strings"

	"github.com/zeromicro/go-zero/core/conf"
	"github.com/zeromicro/go-zero/core/jsonx"
	"github.com/zeromicro/go-zero/core/mapping"

	"verifharness/kit"
)

type scribT struct {
	Name string   `json:"name"`
	Port int      `json:"port"`
	Tags []string `json:"tags,optional"`
}

var scribRT = reflect.TypeOf(scribT{})

// trailing returns text followed by bytes of the given class.
func trailing(r *kit.Rand, text, class, second string) string {
	switch class {
	case "blank":
		return text + kit.Choose(r, []string{"\n", " ", "\n\n  \t\n", "\r\n", "   "})
	case "document":
		return text + kit.Choose(r, []string{"", "\n", " "}) + second
	case "garbage":
		return text + kit.Choose(r, []string{"}", "]", "\x00", " x", ",", "}}", "//c", "\n}", ":", "\"", " nul", "\x00\x00\x00", "]\n"})
	}
	return text
}

func pickTrailing(r *kit.Rand) string {
	return [...]string{"none", "blank", "document", "garbage"}[r.Pick(40, 20, 15, 25)]
}

// an entry point under test: text in the entry's format -> a value of the target type.
type entry struct {
	name string
	fmt  int // 0 JSON, 1 YAML, 2 TOML
	call func(text string, v any) error
}

var entries = []entry{
	{"conf.LoadFromJsonBytes", 0, func(s string, v any) error { return conf.LoadFromJsonBytes([]byte(s), v) }},
	{"conf.LoadFromYamlBytes", 1, func(s string, v any) error { return conf.LoadFromYamlBytes([]byte(s), v) }},
	{"conf.LoadFromTomlBytes", 2, func(s string, v any) error { return conf.LoadFromTomlBytes([]byte(s), v) }},
	{"mapping.UnmarshalJsonBytes", 0, func(s string, v any) error { return mapping.UnmarshalJsonBytes([]byte(s), v) }},
	{"mapping.UnmarshalJsonReader", 0, func(s string, v any) error { return mapping.UnmarshalJsonReader(strings.NewReader(s), v) }},
	{"mapping.UnmarshalYamlBytes", 1, func(s string, v any) error { return mapping.UnmarshalYamlBytes([]byte(s), v) }},
	{"mapping.UnmarshalYamlReader", 1, func(s string, v any) error { return mapping.UnmarshalYamlReader(strings.NewReader(s), v) }},
	{"mapping.UnmarshalTomlBytes", 2, func(s string, v any) error { return mapping.UnmarshalTomlBytes([]byte(s), v) }},
	{"mapping.UnmarshalTomlReader", 2, func(s string, v any) error { return mapping.UnmarshalTomlReader(bytes.NewReader([]byte(s)), v) }},
	{"jsonx.Unmarshal", 0, func(s string, v any) error { return jsonx.Unmarshal([]byte(s), v) }},
	{"jsonx.UnmarshalFromString", 0, func(s string, v any) error { return jsonx.UnmarshalFromString(s, v) }},
	{"jsonx.UnmarshalFromReader", 0, func(s string, v any) error { return jsonx.UnmarshalFromReader(strings.NewReader(s), v) }},
}

var (
	scribValid = texts{`{"name":"scribble","port":1,"tags":["s"]}`, "name: scribble\nport: 1\ntags: [s]\n", "name = \"scribble\"\nport = 1\ntags = [\"s\"]\n"}
	scribStale = `{"name":"stale","port":2}`
	scribBad   = texts{`{"name":"scribble","port":"nope"}`, "name: scribble\nport: nope\n", "name = \"scribble\"\nport = \"nope\"\n"}
	scribMalf  = texts{`{"name":"scribble","port":`, "name: [scribble\nport: 1\n", "name = \"scribble\nport = 1\n"}
)

// scribble makes one unrelated call into go-zero and returns its class. extra: further documents
// (in the three formats) that may be used instead of the fixed ones.
func scribble(c *kit.Case, r *kit.Rand, extra []texts) string {
	e := entries[r.Intn(len(entries))]
	valid := scribValid
	if len(extra) > 0 && r.Bool() {
		valid = kit.Choose(r, extra)
	}
	var text, class string
	switch r.Pick(20, 15, 10, 55) {
	case 0:
		text, class = valid[e.fmt], "accepted-document"
	case 1:
		text, class = scribBad[e.fmt], "rejected-document"
	case 2:
		text, class = scribMalf[e.fmt], "malformed-document"
	default:
		if e.fmt != 0 {
			e = entries[[]int{0, 3, 4, 9, 10, 11}[r.Intn(6)]]
		}
		tc := [...]string{"blank", "document", "garbage"}[r.Pick(15, 45, 40)]
		text, class = trailing(r, valid[0], tc, scribStale), "trailing-"+tc
	}
	o := load(scribRT, func(v any) error { return e.call(text, v) })
	c.Obs("scribbles_"+class, 1)
	if o.panic != "" {
		c.Viol(panicKey(o.panic), "go-zero panicked while loading a document",
			map[string]any{"type": typeText(scribRT), "entry_points": e.name, "document": text, "panic": o.panic})
	}
	return class
}

// repeatAfterScribble re-runs the three conf loaders after one scribble call (called from runPair
// on a fifth of the pairs: every family of types and documents gets a share).
func repeatAfterScribble(c *kit.Case, rt reflect.Type, label string, tx texts, res0 [3]outcome) {
	runtime.LockOSThread()
	defer runtime.UnlockOSThread()
	class := scribble(c, c.R, nil)
	res1 := loadAll(rt, tx)
	c.Obs("conf_loads", 3)
	c.Obs("repeats_after_scribble", 3)
	if reportPanics(c, rt, label, tx, res1) {
		return
	}
	for i := range res1 {
		if same, kind := sameOutcome(res0[i], res1[i]); !same {
			// (the scribble class is in the witness, not in the key: state left behind by an earlier
			// call may surface rounds later)
			c.Viol("C17/history-dependent/"+kind+"/"+fmtNames[i],
				"the same document loaded again after an unrelated call gives a different result",
				map[string]any{"type": typeText(rt), "label": label, "entry_points": entries[i].name, "document": tx[i],
					"scribble": class, "first_result": res0[i].describe(), "result_after_scribble": res1[i].describe()})
		}
	}
}

// runHistory: one type, a few documents, many rounds of (evaluate, scribble, evaluate again).
func runHistory(c *kit.Case) {
	runtime.LockOSThread()
	defer runtime.UnlockOSThread()
	r := c.R
	tg := &tgen{r: r, plain: true}
	td := descOf(tg.structT(r.Range(0, 2), 1))
	type hdoc struct {
		label string
		tx    texts
		base  string // JSON of the document without its mismatch ("" if none)
		inDom bool
	}
	var docs []hdoc
	var extra []texts
	for len(docs) < 3 {
		g := &dgen{r: r}
		d := g.value(td, 0)
		label, base := "well-typed", ""
		if r.Chance(0.4) {
			b := d.clone(func(e ent) string { return e.key })
			label = g.mutate(d, false)
			if label != "well-typed" && !b.has(nBigUint) {
				base = renderJSON(b, nil)
			}
		}
		if d.has(nBigUint) {
			continue
		}
		rs := kit.NewRand(r.Uint64())
		tx := renderAll(d, rs)
		if !selfCheck(c, d, tx) {
			return
		}
		docs = append(docs, hdoc{label, tx, base, true})
		extra = append(extra, tx)
	}
	rounds := 24
	c.Evals(int64(rounds))
	for round := 0; round < rounds; round++ {
		d := docs[r.Intn(len(docs))]
		e := entries[r.Intn(len(entries))]
		text, tc := d.tx[e.fmt], "none"
		if e.fmt == 0 {
			tc = pickTrailing(r)
			text = trailing(r, text, tc, kit.Choose(r, []string{scribStale, docs[r.Intn(len(docs))].tx[0], "[1,2]", "12", "null"}))
		}
		c.Obs("history_inputs_trailing_"+tc, 1)
		r1 := load(td.rt, func(v any) error { return e.call(text, v) })
		class := scribble(c, r, extra)
		r2 := load(td.rt, func(v any) error { return e.call(text, v) })
		c.Obs("history_rounds", 1)
		wit := func() map[string]any {
			return map[string]any{"type": typeText(td.rt), "label": d.label, "entry_points": e.name, "document": text, "trailing": tc,
				"scribble": class, "first_result": r1.describe(), "result_after_scribble": r2.describe()}
		}
		switch {
		case r1.panic != "":
			c.Viol(panicKey(r1.panic), "go-zero panicked while loading a document", wit())
			continue
		case r2.panic != "":
			c.Viol(panicKey(r2.panic), "go-zero panicked while loading a document", wit())
			continue
		}
		if same, kind := sameOutcome(r1, r2); !same {
			c.Viol("C17/history-dependent/"+kind+"/"+fmtNames[e.fmt],
				"the same document loaded again after an unrelated call gives a different result", wit())
			continue
		}
		if r1.ok() {
			c.Obs("history_rounds_accepted", 1)
		} else {
			c.Obs("history_rounds_rejected", 1)
		}
		// the oracles of the other families on input with trailing bytes
		if e.name == "mapping.UnmarshalJsonBytes" {
			// clause 2: encoding/json rejects non-blank trailing data (counted), accepts blanks (judged)
			stdjson(c, td.rt, d.label, text, d.base, d.inDom)
			c.Obs("stdjson_inputs_trailing_"+tc, 1)
		}
		if e.name == "conf.LoadFromJsonBytes" && (tc == "blank" || tc == "none") {
			// blanks (and comments where the format has them) after the document: the same document
			tx := texts{text, d.tx[1] + kit.Choose(r, []string{"", "\n", "\n\n", "# end\n", "...\n"}), d.tx[2] + kit.Choose(r, []string{"", "\n", "\n\n", "# end\n", "  \n"})}
			if _, _, dis := threeWay(c, td.rt, d.label, tx, false); dis != nil {
				dis.wit["label"] = d.label
				c.Viol("C17/"+dis.kind+"/"+labelClass(d.label)+"/"+dis.pattern, dis.what, dis.wit)
			}
			c.Obs("threeway_trailing_blank", 1)
		}
		if strings.HasPrefix(e.name, "jsonx.") && r1.ok() {
			// Marshal / MarshalToString: reach only (panic fence); MarshalToString is string(Marshal)
			v := r1.val.Interface()
			mo := load(td.rt, func(any) error {
				b, err := jsonx.Marshal(v)
				if err != nil {
					return err
				}
				s, err := jsonx.MarshalToString(v)
				if err == nil && s != string(b) {
					c.Obs("jsonx_marshal_string_differs_from_bytes", 1)
				}
				return err
			})
			c.Obs("jsonx_marshal_calls", 2)
			if mo.panic != "" {
				c.Viol(panicKey(mo.panic), "jsonx.Marshal panicked on a value that jsonx.Unmarshal produced", wit())
			}
		}
	}
	c.Sig(true, "history", typeText(td.rt), docs[0].tx[0], docs[1].tx[0], docs[2].tx[0])
}
