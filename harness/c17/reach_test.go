package c17

// reach_test.go: families for the parts of the anchor files the pair families never execute.
//
//   - malformed:  documents that the reference parser of the format (encoding/json, yaml.v2,
//     go-toml/v2 - the trusted base) rejects: every loader of that format must return an error,
//     never panic, never accept.
//   - odd:        documents that are NOT representable in all three formats (YAML maps with
//     non-string keys, inf/nan, TOML dates, "-0" for an unsigned field): outside the quantifier,
//     loaded under the panic fence, what the formats do is counted, nothing is compared.
//   - files:      conf.Load picks the loader by the file extension; a file whose extension names no
//     format gets the same verdict whatever its content is rendered as; a missing file is an
//     error; the deprecated aliases (LoadConfig, LoadConfigFromJsonBytes, LoadConfigFromYamlBytes)
//     and MustLoad give the result of the function they stand for.
//   - env-forms:  $VAR and ${VAR}, unset and empty variables, a literal '$': untouched without
//     conf.UseEnv(); with it the variable forms are replaced by the value (expected values
//     computed by the harness for forms whose end is unambiguous); for a literal '$' with UseEnv
//     only format independence is required.
//   - conflict:   configuration types with keys that are equal up to case, embedded structs/maps
//     that share keys with named fields, unsupported field kinds: the verdict is the same in all
//     three formats and does not change with the letter case of the keys.

import (
	"bytes"
	"encoding/json"
	"fmt"
	"os"
	"path/filepath"
	"reflect"
	"strings"

	toml "github.com/pelletier/go-toml/v2"
	yaml "gopkg.in/yaml.v2"

	"github.com/zeromicro/go-zero/core/conf"

	"verifharness/kit"
)

// refRejects: the reference parser of format f rejects the text.
func refRejects(f int, text string) bool {
	var v any
	switch f {
	case 0:
		dec := json.NewDecoder(strings.NewReader(text))
		dec.UseNumber()
		return dec.Decode(&v) != nil
	case 1:
		return yaml.Unmarshal([]byte(text), &v) != nil
	default:
		return toml.NewDecoder(bytes.NewReader([]byte(text))).Decode(&v) != nil
	}
}

func corrupt(r *kit.Rand, f int, s string) (string, string) {
	if len(s) < 3 {
		return s, ""
	}
	switch r.Pick(4, 2, 2, 2) {
	case 0:
		body := strings.TrimRight(s, " \n")
		cut := r.Range(1, len(body)-1)
		return s[:cut], "truncated"
	case 1:
		i := r.Intn(len(s))
		ins := kit.Choose(r, [][]string{{"}", "]", ",", ":", "\"", "{"}, {"\t", ": :", "[", "{", "- - :", "\"", "'", "&", "*x", "!!", "%"}, {"=", "[", "]", "\"", "'", "{", "}", "= ="}}[f])
		return s[:i] + ins + s[i:], "stray-" + kit.KeyPart(ins)
	case 2:
		i := r.Intn(len(s))
		return s[:i] + s[i+1:], "byte-dropped"
	default:
		lines := strings.SplitAfter(s, "\n")
		i := r.Intn(len(lines))
		return strings.Join(lines[:i+1], "") + lines[i] + strings.Join(lines[i+1:], ""), "line-doubled"
	}
}

func runMalformed(c *kit.Case, scratch string) {
	r := c.R
	tg := &tgen{r: r, plain: r.Bool()}
	td := descOf(tg.structT(r.Range(0, 2), 1))
	g := &dgen{r: r}
	d := g.value(td, 0)
	if d.has(nBigUint) || len(d.ents) == 0 {
		return
	}
	rs := kit.NewRand(r.Uint64())
	tx := renderAll(d, rs)
	if !selfCheck(c, d, tx) {
		return
	}
	for f := 0; f < 3; f++ {
		for k := 0; k < 3; k++ {
			text, how := corrupt(r, f, tx[f])
			if how == "" || !refRejects(f, text) {
				c.Obs("corruption_still_parses_"+fmtNames[f], 1)
				continue
			}
			c.Evals(1)
			c.Obs("malformed_documents_"+fmtNames[f], 1)
			file := filepath.Join(scratch, "malformed"+kit.Choose(r, fileExts[f]))
			if err := os.WriteFile(file, []byte(text), 0o644); err != nil {
				c.Inconclusive("cannot write scratch file: " + err.Error())
				return
			}
			calls := []struct {
				name string
				fn   func(v any) error
			}{
				{"conf.LoadFrom" + strings.Title(fmtNames[f]) + "Bytes", func(v any) error { return loaders[f]([]byte(text), v) }},
				{"mapping.Unmarshal" + strings.Title(fmtNames[f]) + "Bytes", func(v any) error { return mappingLoaders.fn[f]([]byte(text), v) }},
				{"conf.Load", func(v any) error { return conf.Load(file, v) }},
				{"conf.Load+UseEnv", func(v any) error { return conf.Load(file, v, conf.UseEnv()) }},
			}
			for _, call := range calls {
				o := load(td.rt, call.fn)
				c.Obs("malformed_loads", 1)
				wit := map[string]any{"type": typeText(td.rt), "format": fmtNames[f], "entry_points": call.name, "corruption": how,
					"document": text, "original": tx[f], "result": o.describe()}
				switch {
				case o.panic != "":
					c.Viol(panicKey(o.panic), "go-zero panicked while loading a malformed document", wit)
				case o.err == nil:
					c.Viol("C17/malformed-accepted/"+fmtNames[f], "a document that the format's parser rejects is accepted", wit)
				default:
					c.Obs("malformed_rejected", 1)
				}
			}
			os.Remove(file)
			c.Sig(true, "malformed", f, text)
		}
	}
}

// ---------------------------------------------------------------- odd documents (outside the quantifier)

type OddConf struct {
	M map[string]string `json:"m,optional"`
	N map[string]int    `json:"n,optional"`
	F float64           `json:"f,optional"`
	G []float64         `json:"g,optional"`
	U uint8             `json:"u,optional"`
	V uint64            `json:"v,optional"`
	S string            `json:"s,optional"`
	A []string          `json:"a,optional"`
	B map[string]bool   `json:"b,optional"`
}

func runOdd(c *kit.Case) {
	r := c.R
	rt := reflect.TypeOf(OddConf{})
	type odd struct {
		class string
		tx    texts // "" = the format cannot express it
	}
	k1, k2 := r.Range(0, 99), r.Range(100, 199)
	v1, v2 := kit.Choose(r, []string{"a", "x y", "1"}), kit.Choose(r, []string{"b", "true", ""})
	inf := kit.Choose(r, [][2]string{{".inf", "inf"}, {"-.inf", "-inf"}, {".Inf", "+inf"}, {".nan", "nan"}, {".NaN", "+nan"}, {"+.inf", "inf"}})
	docs := []odd{
		{"yaml-int-keys", texts{fmt.Sprintf(`{"m":{"%d":%q,"%d":%q}}`, k1, v1, k2, v2), fmt.Sprintf("m:\n  %d: %q\n  %d: %q\n", k1, v1, k2, v2), fmt.Sprintf("[m]\n%d = %q\n%d = %q\n", k1, v1, k2, v2)}},
		{"yaml-int-keys", texts{fmt.Sprintf(`{"n":{"%d":%d}}`, k1, k2), fmt.Sprintf("n: {%d: %d}\n", k1, k2), fmt.Sprintf("n = { %d = %d }\n", k1, k2)}},
		{"yaml-bool-float-null-keys", texts{"", fmt.Sprintf("m:\n  true: %q\n  1.5: %q\n  ~: x\n", v1, v2), ""}},
		{"yaml-top-level-int-key", texts{"", fmt.Sprintf("%d: %q\ns: %q\n", k1, v1, v2), ""}},
		{"yaml-int-key-and-equal-string-key", texts{"", fmt.Sprintf("m:\n  %d: %q\n  \"%d\": %q\n", k1, v1, k1, v2), ""}},
		{"yaml-hex-key", texts{"", fmt.Sprintf("m: {0x%x: %q}\n", k1, v1), ""}},
		{"yaml-list-key", texts{"", "m:\n  ? [1, 2]\n  : x\n", ""}},
		{"inf-nan", texts{"", "f: " + inf[0] + "\n", "f = " + inf[1] + "\n"}},
		{"inf-nan", texts{"", "g: [1.5, " + inf[0] + "]\n", "g = [1.5, " + inf[1] + "]\n"}},
		{"inf-nan-for-string", texts{"", "s: " + inf[0] + "\n", "s = " + inf[1] + "\n"}},
		{"toml-date", texts{"", "", "s = " + kit.Choose(r, []string{"2001-12-14", "2001-12-14T10:00:00Z", "10:00:00", "2001-12-14T10:00:00"}) + "\n"}},
		{"toml-date", texts{"", "", "a = [ 2001-12-14, 10:00:00 ]\n"}},
		{"minus-zero-for-unsigned", texts{`{"u":-0}`, "u: -0\n", "u = -0\n"}},
		{"minus-zero-for-unsigned", texts{`{"v":-0}`, "v: -0\n", "v = -0\n"}},
		{"minus-zero-for-bool-map-element", texts{`{"b":{"k":-0}}`, "b: {k: -0}\n", "b = { k = -0 }\n"}},
		{"yaml-second-document", texts{"", fmt.Sprintf("s: %q\n---\ns: other\n", v1), ""}},
		{"yaml-merge-key", texts{"", "base: &b {x: y}\nm:\n  <<: *b\n  k: v\n", ""}},
		{"yaml-binary-tag", texts{"", "s: !!binary aGVsbG8=\n", ""}},
		{"yaml-sexagesimal", texts{"", "n: {k: 1:30}\n", ""}},
	}
	for _, od := range docs {
		c.Evals(1)
		c.Obs("filtered_not_representable_"+od.class, 1)
		var pat []string
		for f := 0; f < 3; f++ {
			if od.tx[f] == "" {
				continue
			}
			for _, ls := range []loaderSet{confLoaders, mappingLoaders} {
				f, ls := f, ls
				o := load(rt, func(v any) error { return ls.fn[f]([]byte(od.tx[f]), v) })
				c.Obs("odd_loads", 1)
				if o.panic != "" {
					c.Viol(panicKey(o.panic), "go-zero panicked while loading a document",
						map[string]any{"type": typeText(rt), "class": od.class, "format": fmtNames[f], "entry_points": ls.name, "document": od.tx[f], "panic": o.panic})
					continue
				}
				if ls.name == confLoaders.name {
					pat = append(pat, fmtNames[f]+"-"+map[bool]string{true: "accepts", false: "rejects"}[o.ok()])
				}
			}
		}
		// what the formats did with it: an observation, not a verdict
		c.Obs("odd_"+od.class+"_"+strings.Join(pat, "_"), 1)
		c.Sig(true, "odd", od.class, od.tx[1], od.tx[2])
	}
}

// ---------------------------------------------------------------- conf.Load: extensions, aliases

var unknownExts = []string{".txt", ".ini", "", ".jsn", ".json.bak", ".yamll", ".conf", ".tml", ".json5", ".y", ".xml"}

func runFiles(c *kit.Case, scratch string) {
	r := c.R
	tg := &tgen{r: r, plain: r.Bool()}
	td := descOf(tg.structT(r.Range(0, 2), 1))
	g := &dgen{r: r}
	d := g.value(td, 0)
	label := "well-typed"
	if r.Chance(0.4) {
		label = g.mutate(d, false)
	}
	if d.has(nBigUint) {
		return
	}
	rs := kit.NewRand(r.Uint64())
	tx := renderAll(d, rs)
	if !selfCheck(c, d, tx) {
		return
	}
	c.Evals(1)
	want, comparable, _ := threeWay(c, td.rt, label, tx, false) // (a disagreement is reported by the pair families)
	if !comparable {
		return
	}
	panicOf := func(o outcome, entry, doc string) bool {
		if o.panic == "" {
			return false
		}
		c.Viol(panicKey(o.panic), "go-zero panicked", map[string]any{"type": typeText(td.rt), "label": label, "entry_points": entry, "document": doc, "panic": o.panic})
		return true
	}
	// 1. the deprecated aliases and MustLoad
	alias := func(name string, f int, fn func(v any) error) {
		o := load(td.rt, fn)
		c.Obs("alias_loads", 1)
		if panicOf(o, name, tx[f]) {
			return
		}
		if same, kind := sameOutcome(want[f], o); !same {
			c.Viol("C17/alias-differs-"+kind+"/"+name, name+" gives another result than the function it stands for",
				map[string]any{"type": typeText(td.rt), "label": label, "document": tx[f], "result": o.describe(), "reference": want[f].describe()})
		}
	}
	alias("conf.LoadConfigFromJsonBytes", 0, func(v any) error { return conf.LoadConfigFromJsonBytes([]byte(tx[0]), v) })
	alias("conf.LoadConfigFromYamlBytes", 1, func(v any) error { return conf.LoadConfigFromYamlBytes([]byte(tx[1]), v) })
	for f := 0; f < 3; f++ {
		f := f
		file := filepath.Join(scratch, "alias"+kit.Choose(r, fileExts[f]))
		if err := os.WriteFile(file, []byte(tx[f]), 0o644); err != nil {
			c.Inconclusive("cannot write scratch file: " + err.Error())
			return
		}
		alias("conf.LoadConfig", f, func(v any) error { return conf.LoadConfig(file, v) })
		if want[f].ok() {
			// MustLoad exits the process on an error: only called where Load is known to succeed
			// (a child that dies here is reported by the driver as a crash in this case)
			alias("conf.MustLoad", f, func(v any) error { conf.MustLoad(file, v); return nil })
			alias("conf.MustLoad+UseEnv", f, func(v any) error { conf.MustLoad(file, v, conf.UseEnv()); return nil })
		}
		os.Remove(file)
	}
	// 2. an extension that names no format: the verdict cannot depend on what the content is rendered as
	ext := kit.Choose(r, unknownExts)
	var acc [3]bool
	var got [3]outcome
	for f := 0; f < 3; f++ {
		file := filepath.Join(scratch, "unknown"+ext)
		if err := os.WriteFile(file, []byte(tx[f]), 0o644); err != nil {
			c.Inconclusive("cannot write scratch file: " + err.Error())
			return
		}
		got[f] = load(td.rt, func(v any) error { return conf.Load(file, v) })
		c.Obs("unknown_extension_loads", 1)
		os.Remove(file)
		if panicOf(got[f], "conf.Load("+ext+")", tx[f]) {
			return
		}
		acc[f] = got[f].ok()
	}
	if acc[0] != acc[1] || acc[0] != acc[2] {
		c.Viol("C17/file-unknown-extension-verdict/"+pattern(acc), "a file whose extension names no format is accepted or rejected depending on the format of its content",
			map[string]any{"type": typeText(td.rt), "extension": ext, "documents": tx.witness(), "json_result": got[0].describe(), "yaml_result": got[1].describe(), "toml_result": got[2].describe()})
	} else if acc[0] {
		c.Obs("unknown_extension_all_accepted", 1)
	} else {
		c.Obs("unknown_extension_all_rejected", 1)
	}
	// 3. a file that does not exist
	for f := 0; f < 3; f++ {
		file := filepath.Join(scratch, "does-not-exist"+fileExts[f][0])
		o := load(td.rt, func(v any) error { return conf.Load(file, v) })
		c.Obs("missing_file_loads", 1)
		if panicOf(o, "conf.Load(missing file)", "") {
			continue
		}
		if o.ok() {
			c.Viol("C17/file-missing-accepted/"+fmtNames[f], "conf.Load succeeds on a file that does not exist", map[string]any{"file": file, "result": o.describe()})
		}
	}
	// 4. FillDefault: reach only (panic fence); the statement says nothing about it
	fd := load(td.rt, func(v any) error { return conf.FillDefault(v) })
	c.Obs("filldefault_calls", 1)
	panicOf(fd, "conf.FillDefault", "")
	c.Sig(true, "files", typeText(td.rt), tx[0], ext)
}

// ---------------------------------------------------------------- $VAR forms

type EnvForms struct {
	A string            `json:"a"`
	B string            `json:"bee,optional"`
	L []string          `json:"list"`
	M map[string]string `json:"m"`
}

func runEnvForms(c *kit.Case, scratch string) {
	r := c.R
	a := kit.Choose(r, []string{"prod", "10.0.0.1:8080", "/var/data", "hello world", "x-y_z.1", "ü"})
	b := kit.Choose(r, []string{"b", "42", "true", "a b c"})
	os.Setenv("C17_A", a)
	os.Setenv("C17_B", b)
	os.Setenv("C17_EMPTY", "")
	os.Unsetenv("C17_UNSET")
	defer func() {
		for _, n := range []string{"C17_A", "C17_B", "C17_EMPTY"} {
			os.Unsetenv(n)
		}
	}()
	type form struct {
		lit, exp string
		judged   bool // the expanded value is unambiguous
	}
	forms := []form{
		{"$C17_A", a, true}, {"$C17_A/data", a + "/data", true}, {"pre-$C17_A", "pre-" + a, true}, {"$C17_A-$C17_B", a + "-" + b, true},
		{"${C17_A}x", a + "x", true}, {"$C17_UNSET", "", true}, {"${C17_UNSET}/x", "/x", true}, {"$C17_EMPTY.", ".", true},
		{"[$C17_B]", "[" + b + "]", true}, {"$C17_A $C17_B", a + " " + b, true}, {"no variable", "no variable", true}, {"100%", "100%", true},
		// a literal '$' that starts no variable name: what UseEnv does with it is not specified
		// (an unterminated "${" is not generated: os.ExpandEnv then swallows text up to the next
		// '}' wherever the format's syntax puts one - the expansion is textual by design)
		{"cost 5$", "", false}, {"$ alone", "", false}, {"a $ b", "", false}, {"$", "", false}, {"US$ 5", "", false}, {"$$", "", false}, {"$1", "", false}, {"${}", "", false}, {"$-x", "", false},
	}
	pick := func(judgedOnly bool) form {
		for {
			f := kit.Choose(r, forms)
			if f.judged || !judgedOnly {
				return f
			}
		}
	}
	judged := r.Chance(0.6)
	var fs []form
	next := func() form { f := pick(judged); fs = append(fs, f); return f }
	var lit, exp EnvForms
	f := next()
	lit.A, exp.A = f.lit, f.exp
	hasB := r.Bool()
	if hasB {
		f = next()
		lit.B, exp.B = f.lit, f.exp
	}
	lit.L, exp.L = []string{}, []string{}
	for i := r.Intn(3); i > 0; i-- {
		f = next()
		lit.L, exp.L = append(lit.L, f.lit), append(exp.L, f.exp)
	}
	lit.M, exp.M = map[string]string{}, map[string]string{}
	var mkeys []string
	for _, k := range []string{"k1", "Key Two"} {
		if r.Bool() {
			f = next()
			lit.M[k], exp.M[k] = f.lit, f.exp
			mkeys = append(mkeys, k)
		}
	}
	sn := func(s string) *node { return &node{k: nStr, s: s} }
	list := &node{k: nArr, arr: []*node{}}
	for _, s := range lit.L {
		list.arr = append(list.arr, sn(s))
	}
	m := &node{k: nMap, ents: []ent{}}
	for _, k := range mkeys {
		m.ents = append(m.ents, ent{key: k, v: sn(lit.M[k])})
	}
	doc := &node{k: nMap, ents: []ent{{key: "a", v: sn(lit.A), perm: true}, {key: "list", v: list, perm: true}, {key: "m", v: m, perm: true}}}
	if hasB {
		doc.ents = append(doc.ents, ent{key: "bee", v: sn(lit.B), perm: true})
	}
	if r.Bool() {
		doc = doc.clone(func(e ent) string {
			if e.perm {
				return permuteCase(r, e.key)
			}
			return e.key
		})
	}
	rs := kit.NewRand(r.Uint64())
	tx := renderAll(doc, rs)
	if !selfCheck(c, doc, tx) {
		return
	}
	c.Evals(1)
	rt := reflect.TypeOf(EnvForms{})
	norm := func(e EnvForms) EnvForms {
		if len(e.L) == 0 {
			e.L = nil
		}
		if len(e.M) == 0 {
			e.M = nil
		}
		return e
	}
	eq := func(got any, want EnvForms) bool {
		g, ok := got.(EnvForms)
		return ok && reflect.DeepEqual(norm(g), norm(want))
	}
	hasDollar := strings.Contains(tx[0], "$")
	var withEnv [3]outcome
	for i := range tx {
		ext := kit.Choose(r, fileExts[i])
		file := filepath.Join(scratch, "envforms"+ext)
		if err := os.WriteFile(file, []byte(tx[i]), 0o644); err != nil {
			c.Inconclusive("cannot write scratch file: " + err.Error())
			return
		}
		wit := func(got outcome, want any, mode string) map[string]any {
			return map[string]any{"file": ext, "mode": mode, "document": tx[i], "environment": map[string]string{"C17_A": a, "C17_B": b, "C17_EMPTY": "", "C17_UNSET": "(unset)"},
				"got": got.describe(), "want": want}
		}
		// without UseEnv: every '$' stays as written, in files and in bytes
		for _, mode := range []string{"plain", "bytes"} {
			var got outcome
			if mode == "plain" {
				got = load(rt, func(v any) error { return conf.Load(file, v) })
			} else {
				got = load(rt, func(v any) error { return loaders[i]([]byte(tx[i]), v) })
			}
			c.Obs("envforms_loads_plain", 1)
			switch {
			case got.panic != "":
				c.Viol(panicKey(got.panic), "go-zero panicked", wit(got, show(reflect.ValueOf(lit)), mode))
			case got.err != nil:
				c.Viol("C17/env/plain-rejected/"+fmtNames[i], "a valid document containing '$' text is rejected without UseEnv", wit(got, show(reflect.ValueOf(lit)), mode))
			case !eq(got.val.Interface(), lit):
				k := "wrong-value"
				if judged && eq(got.val.Interface(), exp) {
					k = "expanded-although-not-requested"
				}
				c.Viol("C17/env/plain-"+k+"/"+fmtNames[i], "'$' text was not kept literally without UseEnv", wit(got, show(reflect.ValueOf(lit)), mode))
			default:
				if hasDollar {
					c.Obs("envforms_literal_kept_observed", 1)
				}
			}
		}
		// with UseEnv
		got := load(rt, func(v any) error { return conf.Load(file, v, conf.UseEnv()) })
		withEnv[i] = got
		c.Obs("envforms_loads_UseEnv", 1)
		switch {
		case got.panic != "":
			c.Viol(panicKey(got.panic), "go-zero panicked", wit(got, nil, "UseEnv"))
		case !judged:
		case got.err != nil:
			c.Viol("C17/env/UseEnv-rejected/"+fmtNames[i], "conf.Load with UseEnv rejects a document that is valid after expansion", wit(got, show(reflect.ValueOf(exp)), "UseEnv"))
		case !eq(got.val.Interface(), exp):
			k := "wrong-value"
			if eq(got.val.Interface(), lit) {
				k = "not-expanded"
			}
			c.Viol("C17/env/UseEnv-"+k+"/"+fmtNames[i], "conf.Load with UseEnv did not yield the expanded values", wit(got, show(reflect.ValueOf(exp)), "UseEnv"))
		default:
			if hasDollar {
				c.Obs("envforms_expansions_observed", 1)
			}
		}
		// the deprecated alias and MustLoad pass the option on
		if got.panic == "" {
			twins := []struct {
				name string
				fn   func(v any) error
			}{{"conf.LoadConfig+UseEnv", func(v any) error { return conf.LoadConfig(file, v, conf.UseEnv()) }}}
			if got.ok() {
				twins = append(twins, struct {
					name string
					fn   func(v any) error
				}{"conf.MustLoad+UseEnv", func(v any) error { conf.MustLoad(file, v, conf.UseEnv()); return nil }})
			}
			for _, tw := range twins {
				o := load(rt, tw.fn)
				c.Obs("alias_loads", 1)
				if o.panic != "" {
					c.Viol(panicKey(o.panic), "go-zero panicked", wit(o, nil, tw.name))
				} else if same, kind := sameOutcome(got, o); !same {
					c.Viol("C17/alias-differs-"+kind+"/"+tw.name, tw.name+" gives another result than conf.Load with UseEnv", wit(o, got.describe(), tw.name))
				}
			}
		}
		os.Remove(file)
	}
	// with UseEnv the three formats agree (also for a literal '$')
	if withEnv[0].panic == "" && withEnv[1].panic == "" && withEnv[2].panic == "" {
		acc := [3]bool{withEnv[0].ok(), withEnv[1].ok(), withEnv[2].ok()}
		w := map[string]any{"documents": tx.witness(), "json_result": withEnv[0].describe(), "yaml_result": withEnv[1].describe(), "toml_result": withEnv[2].describe()}
		if acc[0] != acc[1] || acc[0] != acc[2] {
			c.Viol("C17/env/UseEnv-verdict/"+pattern(acc), "with UseEnv the same document is accepted in one format and rejected in another", w)
		} else if acc[0] && !(eq(withEnv[1].val.Interface(), withEnv[0].val.Interface().(EnvForms)) && eq(withEnv[2].val.Interface(), withEnv[0].val.Interface().(EnvForms))) {
			c.Viol("C17/env/UseEnv-value/formats-differ", "with UseEnv the same document loads to different values depending on the format", w)
		} else if !judged {
			c.Obs("envforms_literal_dollar_with_UseEnv_formats_agree", 1)
		}
	}
	var lits []string
	for _, f := range fs {
		lits = append(lits, f.lit)
	}
	c.Sig(hasDollar, "envforms", tx[0], a, b)
	if c.Index < 2 {
		c.Sample("env-forms", 2, map[string]any{"documents": tx.witness(), "strings": lits, "C17_A": a, "C17_B": b})
	}
}

// ---------------------------------------------------------------- conflicting keys

type CfE1 struct {
	Sub struct {
		X int `json:"x"`
	} `json:"sub"`
}
type CfE2 struct {
	Sub struct {
		Y int `json:"y"`
	} `json:"SUB"`
}
type CfE3 struct {
	Sub struct {
		X string `json:"X"`
	} `json:"sub"`
}
type CfMapEmb map[string]int
type CfIntEmb int
type CfChanInner struct {
	C chan int `json:"c,optional"`
	N int      `json:"n"`
}

type (
	CfDupCase struct {
		A string `json:"name"`
		B string `json:"Name,optional"`
	}
	CfDupUntagged struct {
		Name string
		NAME string `json:",optional"`
	}
	CfEmbVsNamed struct {
		EmbA
		Host string `json:"HOST,optional"`
	}
	CfMerge struct {
		CfE1
		CfE2
	}
	CfMergeClash struct {
		CfE1
		CfE3
	}
	CfNestedSameName struct {
		Name string `json:"name"`
		Sub  struct {
			Name string `json:"Name"`
			Sub  int    `json:"sub"`
		} `json:"Sub"`
	}
	CfEmbMap struct {
		CfMapEmb
		ID int `json:"id"`
	}
	CfEmbMapThenNamed struct {
		CfMapEmb
		X int `json:"cfmapemb,optional"`
	}
	CfNamedThenEmbMap struct {
		X int `json:"cfmapemb,optional"`
		CfMapEmb
	}
	CfEmbInt struct {
		CfIntEmb
		Name string `json:"name"`
	}
	CfNamedThenEmbInt struct {
		X int `json:"cfintemb,optional"`
		CfIntEmb
	}
	CfStructThenMap struct {
		A struct {
			X int `json:"x"`
		} `json:"m,optional"`
		B map[string]int `json:"M,optional"`
	}
	CfEmbPtr struct {
		*EmbA
		*EmbB
		Level int `json:"level"`
	}
	CfChan struct {
		C    chan int `json:"c,optional"`
		Name string   `json:"name"`
	}
	CfFunc struct {
		F    func() `json:"f,optional"`
		Name string `json:"name"`
	}
	CfNestedChan struct {
		In   CfChanInner `json:"in,optional"`
		Name string      `json:"name"`
	}
	CfSliceChan struct {
		L    []chan int `json:"l,optional"`
		Name string     `json:"name"`
	}
	CfMapChan struct {
		M    map[string]chan int `json:"m,optional"`
		Name string              `json:"name"`
	}
	CfPtrChan struct {
		P    *chan int `json:"p,optional"`
		Name string    `json:"name"`
	}
	CfEmbChan struct {
		CfChanInner
		Name string `json:"name"`
	}
	CfEmbMapChan struct {
		CfMapOfChan
		Name string `json:"name"`
	}
	CfMapOfMapChan struct {
		M    map[string]map[string]chan int `json:"m,optional"`
		Name string                         `json:"name"`
	}
)

type CfMapOfChan map[string]chan int

func mp(kv ...any) *node {
	n := &node{k: nMap, ents: []ent{}}
	for i := 0; i+1 < len(kv); i += 2 {
		n.ents = append(n.ents, ent{key: kv[i].(string), v: kv[i+1].(*node), perm: true})
	}
	return n
}
func dmp(kv ...any) *node { // a map whose keys are data
	n := mp(kv...)
	for i := range n.ents {
		n.ents[i].perm = false
	}
	return n
}
func iv(i int) *node    { return &node{k: nInt, i: int64(i)} }
func sv(s string) *node { return &node{k: nStr, s: s} }

type cfCase struct {
	rt      reflect.Type
	docs    []func(r *kit.Rand) *node
	dupCase bool // the type or document has keys that are equal up to case: no case permutation
}

func cfCases() []cfCase {
	rnd := func(r *kit.Rand) int { return r.Range(-5, 500) }
	str := func(r *kit.Rand) string { return kit.Choose(r, []string{"x", "hello world", "", "Ünï", "1"}) }
	return []cfCase{
		{reflect.TypeOf(CfDupCase{}), []func(*kit.Rand) *node{
			func(r *kit.Rand) *node { return mp("name", sv(str(r))) },
			func(r *kit.Rand) *node { return mp("Name", sv(str(r))) },
		}, true},
		{reflect.TypeOf(CfDupUntagged{}), []func(*kit.Rand) *node{
			func(r *kit.Rand) *node { return mp("Name", sv(str(r))) },
		}, true},
		{reflect.TypeOf(CfEmbVsNamed{}), []func(*kit.Rand) *node{
			func(r *kit.Rand) *node { return mp("host", sv(str(r)), "port", iv(rnd(r))) },
		}, true},
		{reflect.TypeOf(CfMerge{}), []func(*kit.Rand) *node{
			func(r *kit.Rand) *node { return mp("sub", mp("x", iv(rnd(r)), "y", iv(rnd(r)))) },
			func(r *kit.Rand) *node { return mp("SUB", mp("x", iv(rnd(r)), "y", iv(rnd(r)))) },
			func(r *kit.Rand) *node { return mp("sub", mp("x", iv(rnd(r)))) },
			func(r *kit.Rand) *node { return mp("Sub", mp("Y", iv(rnd(r)))) },
		}, false},
		{reflect.TypeOf(CfMergeClash{}), []func(*kit.Rand) *node{
			func(r *kit.Rand) *node { return mp("sub", mp("x", iv(rnd(r)))) },
		}, false},
		{reflect.TypeOf(CfNestedSameName{}), []func(*kit.Rand) *node{
			func(r *kit.Rand) *node {
				return mp("name", sv(str(r)), "Sub", mp("Name", sv(str(r)), "sub", iv(rnd(r))))
			},
			func(r *kit.Rand) *node { return mp("name", sv(str(r)), "Sub", mp("sub", iv(rnd(r)))) },
			func(r *kit.Rand) *node { return mp("Sub", mp("Name", sv(str(r)), "sub", iv(rnd(r)))) },
		}, false},
		{reflect.TypeOf(CfEmbMap{}), []func(*kit.Rand) *node{
			func(r *kit.Rand) *node {
				return mp("CfMapEmb", dmp("a", iv(rnd(r)), "Key", iv(rnd(r))), "id", iv(rnd(r)))
			},
			func(r *kit.Rand) *node { return mp("id", iv(rnd(r))) },
			func(r *kit.Rand) *node { return mp("a", iv(rnd(r)), "id", iv(rnd(r))) },
		}, false},
		{reflect.TypeOf(CfEmbMapThenNamed{}), []func(*kit.Rand) *node{
			func(r *kit.Rand) *node { return mp("cfmapemb", iv(rnd(r))) },
		}, false},
		{reflect.TypeOf(CfNamedThenEmbMap{}), []func(*kit.Rand) *node{
			func(r *kit.Rand) *node { return mp("cfmapemb", dmp("a", iv(rnd(r)))) },
		}, false},
		{reflect.TypeOf(CfEmbInt{}), []func(*kit.Rand) *node{
			func(r *kit.Rand) *node { return mp("CfIntEmb", iv(rnd(r)), "name", sv(str(r))) },
			func(r *kit.Rand) *node { return mp("name", sv(str(r))) },
		}, false},
		{reflect.TypeOf(CfNamedThenEmbInt{}), []func(*kit.Rand) *node{
			func(r *kit.Rand) *node { return mp("cfintemb", iv(rnd(r))) },
		}, false},
		{reflect.TypeOf(CfStructThenMap{}), []func(*kit.Rand) *node{
			func(r *kit.Rand) *node { return mp("m", mp("x", iv(rnd(r)))) },
			func(r *kit.Rand) *node { return mp() },
		}, false},
		{reflect.TypeOf(CfEmbPtr{}), []func(*kit.Rand) *node{
			func(r *kit.Rand) *node {
				return mp("host", sv(str(r)), "port", iv(rnd(r)), "alias", sv(str(r)), "level", iv(rnd(r)))
			},
			func(r *kit.Rand) *node { return mp("level", iv(rnd(r))) },
			func(r *kit.Rand) *node { return mp("host", sv(str(r)), "level", iv(rnd(r))) },
		}, false},
		{reflect.TypeOf(CfChan{}), []func(*kit.Rand) *node{func(r *kit.Rand) *node { return mp("name", sv(str(r))) }}, false},
		{reflect.TypeOf(CfFunc{}), []func(*kit.Rand) *node{func(r *kit.Rand) *node { return mp("name", sv(str(r))) }}, false},
		{reflect.TypeOf(CfNestedChan{}), []func(*kit.Rand) *node{
			func(r *kit.Rand) *node { return mp("name", sv(str(r))) },
			func(r *kit.Rand) *node { return mp("name", sv(str(r)), "in", mp("n", iv(rnd(r)))) },
		}, false},
		{reflect.TypeOf(CfSliceChan{}), []func(*kit.Rand) *node{func(r *kit.Rand) *node { return mp("name", sv(str(r))) }}, false},
		{reflect.TypeOf(CfMapChan{}), []func(*kit.Rand) *node{func(r *kit.Rand) *node { return mp("name", sv(str(r))) }}, false},
		{reflect.TypeOf(CfPtrChan{}), []func(*kit.Rand) *node{func(r *kit.Rand) *node { return mp("name", sv(str(r))) }}, false},
		{reflect.TypeOf(CfEmbChan{}), []func(*kit.Rand) *node{func(r *kit.Rand) *node { return mp("name", sv(str(r)), "n", iv(rnd(r))) }}, false},
		{reflect.TypeOf(CfEmbMapChan{}), []func(*kit.Rand) *node{func(r *kit.Rand) *node { return mp("name", sv(str(r))) }}, false},
		{reflect.TypeOf(CfMapOfMapChan{}), []func(*kit.Rand) *node{func(r *kit.Rand) *node { return mp("name", sv(str(r))) }}, false},
	}
}

func runConflict(c *kit.Case, scratch string) {
	r := c.R
	cases := cfCases()
	cf := cases[c.Index%len(cases)]
	d := kit.Choose(r, cf.docs)(r)
	label := "conflict-family"
	rs := kit.NewRand(r.Uint64())
	tx := renderAll(d, rs)
	if !selfCheck(c, d, tx) {
		return
	}
	c.Evals(1)
	res, comparable, dis := threeWay(c, cf.rt, label, tx, false)
	c.Obs("conflict_family_compared", 1)
	if dis != nil {
		dis.wit["label"] = label
		c.Viol("C17/"+dis.kind+"/"+label+"/"+dis.pattern, dis.what, dis.wit)
	}
	if _, _, dm := threeWayWith(mappingLoaders, c, cf.rt, label, tx, false); dm != nil {
		dm.wit["label"] = label
		c.Viol("C17/"+dm.kind+"/"+label+"/"+dm.pattern, dm.what, dm.wit)
	}
	if comparable {
		if res[0].ok() {
			c.Obs("conflict_family_accepted", 1)
		} else {
			c.Obs("conflict_family_rejected", 1)
			if strings.Contains(res[0].err.Error(), "conflict key") {
				c.Obs("conflict_key_errors_observed", 1)
			}
			if strings.Contains(res[0].err.Error(), "unsupported type") {
				c.Obs("unsupported_type_errors_observed", 1)
			}
		}
		if !cf.dupCase && d.hasPermKeys() {
			if bad, kind, wit := keyCase(c, r.Uint64(), rs, cf.rt, label, d, tx, res); len(bad) > 0 {
				wit["label"] = label
				c.Viol("C17/keycase-"+kind+"/"+strings.Join(bad, "+"), "changing only the letter case of struct-field keys changes the result", wit)
			}
		}
		fileOracle(c, cf.rt, label, tx, res, scratch)
	}
	c.Sig(true, "conflict", cf.rt.Name(), tx[0])
}
