package c17

// c17_test.go: the monitors.
//
//  1. three-format oracle: the same (type, document) is loaded through
//     conf.LoadFromJsonBytes / LoadFromYamlBytes / LoadFromTomlBytes; verdicts must
//     agree and, on success, values must be reflect.DeepEqual.
//  2. key-case oracle: permuting the letter case of the keys that address struct
//     fields must not change the result in any format.
//  3. file/env oracle: conf.Load on files gives the result of the bytes loader; ${VAR}
//     is expanded iff conf.UseEnv() is passed.
//  4. encoding/json oracle: for plain-json-tag types, whenever mapping.UnmarshalJsonBytes
//     and encoding/json.Unmarshal both accept an input the values are DeepEqual.
//
// Every call into go-zero runs under recover(); a panic is reported as a violation.

import (
	"encoding/json"
	"fmt"
	"math"
	"math/big"
	"os"
	"path/filepath"
	"reflect"
	"regexp"
	"runtime/debug"
	"strings"
	"testing"

	"github.com/zeromicro/go-zero/core/conf"
	"github.com/zeromicro/go-zero/core/logx"
	"github.com/zeromicro/go-zero/core/mapping"

	"verifharness/kit"
)

type outcome struct {
	err   error
	val   reflect.Value
	panic string
}

func (o outcome) ok() bool { return o.err == nil && o.panic == "" }

func (o outcome) describe() any {
	if o.panic != "" {
		return map[string]any{"panic": o.panic}
	}
	if o.err != nil {
		return map[string]any{"error": o.err.Error()}
	}
	return map[string]any{"value": show(o.val)}
}

func show(v reflect.Value) string {
	b, err := json.Marshal(v.Interface())
	if err != nil {
		return fmt.Sprintf("%+v", v.Interface())
	}
	s := string(b)
	if len(s) > 1500 {
		s = s[:1500] + "…"
	}
	return s
}

func load(rt reflect.Type, fn func(v any) error) (o outcome) {
	p := reflect.New(rt)
	o.val = p.Elem()
	defer func() {
		if r := recover(); r != nil {
			st := string(debug.Stack())
			if len(st) > 3000 {
				st = st[:3000]
			}
			o.panic = fmt.Sprint(r) + "\n" + st
		}
	}()
	o.err = fn(p.Interface())
	return
}


// labelClass coarsens a mutation label for use in violation keys: the position
// (@field/@slice-elem/@map-elem) stays in the witness only, signed and unsigned integers
// are one class, and so are all nulls.
func labelClass(label string) string {
	if i := strings.IndexByte(label, '@'); i >= 0 {
		label = label[:i]
	}
	if strings.HasPrefix(label, "null-for-") {
		return "null"
	}
	label = strings.Replace(label, "float-integral-big-", "float-integral-", 1)
	label = strings.Replace(label, "empty-array-", "array-", 1)
	label = strings.Replace(label, "empty-map-", "map-", 1)
	// unsigned integers and time.Duration take the same integer path in go-zero
	for _, suf := range []string{"uint", "duration"} {
		if strings.HasSuffix(label, "-for-"+suf) && !strings.HasPrefix(label, "string-") {
			label = strings.TrimSuffix(label, suf) + "int"
		}
	}
	return label
}

var frameRe = regexp.MustCompile(`(?m)^github\.com/zeromicro/go-zero/(\S+?)\((?:0x|\{|\.\.\.|\))`)

// panicKey classifies a panic by the innermost go-zero function on the stack and the
// kind of run-time error, so that one defect has one key whatever the input was.
func panicKey(p string) string {
	msg := p
	if i := strings.IndexByte(msg, '\n'); i >= 0 {
		msg = msg[:i]
	}
	if i := strings.IndexByte(msg, ':'); i >= 0 {
		msg = msg[:i]
	}
	fn := "unknown-frame"
	if m := frameRe.FindStringSubmatch(p); m != nil {
		fn = m[1]
	}
	return "C17/panic/" + fn + "/" + kit.KeyPart(msg)
}

// diffClass names the first difference between two values of the same type.
func diffClass(a, b reflect.Value) string {
	if !a.IsValid() || !b.IsValid() || a.Type() != b.Type() {
		return "type"
	}
	switch a.Kind() {
	case reflect.Ptr:
		if a.IsNil() != b.IsNil() {
			return "nil-pointer-vs-value"
		}
		if a.IsNil() {
			return ""
		}
		return diffClass(a.Elem(), b.Elem())
	case reflect.Struct:
		for i := 0; i < a.NumField(); i++ {
			if d := diffClass(a.Field(i), b.Field(i)); d != "" {
				return d
			}
		}
		return ""
	case reflect.Slice:
		if a.Len() != b.Len() {
			return "slice-length"
		}
		if a.IsNil() != b.IsNil() {
			return "nil-slice-vs-empty-slice"
		}
		for i := 0; i < a.Len(); i++ {
			if d := diffClass(a.Index(i), b.Index(i)); d != "" {
				return d
			}
		}
		return ""
	case reflect.Map:
		if a.Len() != b.Len() {
			return "map-length"
		}
		if a.IsNil() != b.IsNil() {
			return "nil-map-vs-empty-map"
		}
		for _, k := range a.MapKeys() {
			bv := b.MapIndex(k)
			if !bv.IsValid() {
				return "map-keys"
			}
			if d := diffClass(a.MapIndex(k), bv); d != "" {
				return d
			}
		}
		return ""
	case reflect.Float32:
		x, y := float32(a.Float()), float32(b.Float())
		if x == y || (x != x && y != y) {
			return ""
		}
		if math.Nextafter32(x, y) == y {
			return "float32-adjacent-values"
		}
		return "float32-value"
	default:
		if !reflect.DeepEqual(a.Interface(), b.Interface()) {
			return a.Kind().String() + "-value"
		}
		return ""
	}
}

var fmtNames = [3]string{"json", "yaml", "toml"}

type loaderSet struct {
	name string
	fn   [3]func([]byte, any) error
}

var loaders = [3]func([]byte, any) error{conf.LoadFromJsonBytes, conf.LoadFromYamlBytes, conf.LoadFromTomlBytes}

var (
	confLoaders = loaderSet{"conf.LoadFrom{Json,Yaml,Toml}Bytes", loaders}
	// the format-specific unmarshalers of core/mapping (exact key match, no lower-casing)
	mappingLoaders = loaderSet{"mapping.Unmarshal{Json,Yaml,Toml}Bytes", [3]func([]byte, any) error{
		func(b []byte, v any) error { return mapping.UnmarshalJsonBytes(b, v) },
		func(b []byte, v any) error { return mapping.UnmarshalYamlBytes(b, v) },
		func(b []byte, v any) error { return mapping.UnmarshalTomlBytes(b, v) },
	}}
)

// pattern names who accepts and who rejects, e.g. "json-rejects-yaml-toml-accept".
func pattern(acc [3]bool) string {
	var a, r []string
	for i, x := range acc {
		if x {
			a = append(a, fmtNames[i])
		} else {
			r = append(r, fmtNames[i])
		}
	}
	return strings.Join(r, "-") + "-rejects-" + strings.Join(a, "-") + "-accept"
}

func truncate(s string, n int) string {
	if len(s) > n {
		return s[:n] + "…"
	}
	return s
}

type texts [3]string

func renderAll(d *node, rs *kit.Rand) texts {
	return texts{renderJSON(d, rs), renderYAML(d, rs), renderTOML(d, rs)}
}

func (tx texts) witness() map[string]string {
	return map[string]string{"json": tx[0], "yaml": tx[1], "toml": tx[2]}
}

func loadAllWith(ls loaderSet, rt reflect.Type, tx texts) (res [3]outcome) {
	for i := range res {
		i := i
		res[i] = load(rt, func(v any) error { return ls.fn[i]([]byte(tx[i]), v) })
	}
	return
}

func loadAll(rt reflect.Type, tx texts) [3]outcome { return loadAllWith(confLoaders, rt, tx) }

// selfCheck verifies that the YAML and TOML renderings denote the document.
func selfCheck(c *kit.Case, d *node, tx texts) bool {
	if d.spelled() {
		if err := selfCheckJSON(tx[0], d); err != nil {
			c.Obs("harness_selfcheck_failed", 1)
			c.Inconclusive("harness renderer self-check: " + truncate(err.Error(), 300) + " | json: " + truncate(tx[0], 600))
			return false
		}
	}
	if err := selfCheckYAML(tx[1], d); err != nil {
		c.Obs("harness_selfcheck_failed", 1)
		c.Inconclusive("harness renderer self-check: " + truncate(err.Error(), 300) + " | yaml: " + truncate(tx[1], 600))
		return false
	}
	if err := selfCheckTOML(tx[2], d); err != nil {
		c.Obs("harness_selfcheck_failed", 1)
		c.Inconclusive("harness renderer self-check: " + truncate(err.Error(), 300) + " | toml: " + truncate(tx[2], 600))
		return false
	}
	return true
}

func reportPanics(c *kit.Case, rt reflect.Type, label string, tx texts, res [3]outcome) bool {
	return reportPanicsOf(confLoaders.name, c, rt, label, tx, res)
}

func reportPanicsOf(entry string, c *kit.Case, rt reflect.Type, label string, tx texts, res [3]outcome) bool {
	found := false
	for i, o := range res {
		if o.panic != "" {
			found = true
			c.Viol(panicKey(o.panic), "go-zero panicked while loading a document",
				map[string]any{"type": typeText(rt), "label": label, "entry_points": entry, "format": fmtNames[i], "document": tx[i], "panic": o.panic})
		}
	}
	return found
}

// disagreement is what oracle 1 found on one document.
type disagreement struct {
	kind, pattern, what string // kind: verdict | value
	wit                 map[string]any
}

// threeWay runs oracle 1 on one document: the outcomes, whether they can serve as the reference of
// the further oracles (no panic, no disagreement), and the disagreement if any (not yet reported:
// the caller first decides which class of input it belongs to).
func threeWay(c *kit.Case, rt reflect.Type, label string, tx texts, count bool) ([3]outcome, bool, *disagreement) {
	return threeWayWith(confLoaders, c, rt, label, tx, count)
}

func threeWayWith(ls loaderSet, c *kit.Case, rt reflect.Type, label string, tx texts, count bool) ([3]outcome, bool, *disagreement) {
	res := loadAllWith(ls, rt, tx)
	if ls.name == confLoaders.name {
		c.Obs("conf_loads", 3)
	} else {
		c.Obs("mapping_loads", 3)
		count = false
	}
	if reportPanicsOf(ls.name, c, rt, label, tx, res) {
		return res, false, nil
	}
	acc := [3]bool{res[0].ok(), res[1].ok(), res[2].ok()}
	wit := func() map[string]any {
		return map[string]any{"type": typeText(rt), "entry_points": ls.name, "documents": tx.witness(),
			"json_result": res[0].describe(), "yaml_result": res[1].describe(), "toml_result": res[2].describe()}
	}
	if acc[0] != acc[1] || acc[0] != acc[2] {
		return res, false, &disagreement{"verdict", pattern(acc), "the same document is accepted in one format and rejected in another", wit()}
	}
	if !acc[0] {
		if count {
			c.Obs("pairs_all_reject", 1)
		}
		return res, true, nil
	}
	if count {
		c.Obs("pairs_all_accept", 1)
	}
	jy := reflect.DeepEqual(res[0].val.Interface(), res[1].val.Interface())
	jt := reflect.DeepEqual(res[0].val.Interface(), res[2].val.Interface())
	yt := reflect.DeepEqual(res[1].val.Interface(), res[2].val.Interface())
	if !jy || !jt {
		var p string
		switch {
		case yt:
			p = "json-differs-yaml-toml-agree"
		case jy:
			p = "toml-differs-json-yaml-agree"
		case jt:
			p = "yaml-differs-json-toml-agree"
		default:
			p = "all-differ"
		}
		return res, false, &disagreement{"value", p, "the same document loads to different values depending on the format", wit()}
	}
	return res, true, nil
}

// keyCase runs oracle 2 on one document: the formats whose result changes when only the letter
// case of struct-field keys changes.
func keyCase(c *kit.Case, salt uint64, rs *kit.Rand, rt reflect.Type, label string, d0 *node, tx0 texts, res0 [3]outcome) (bad []string, kind string, wit map[string]any) {
	return keyCaseX(c, salt, rs, rt, label, d0, tx0, res0, false)
}

// keyCaseX: asciiOnly is the ablation run that attributes a failure - the same re-spelling, but
// every key that contains a non-ASCII letter keeps the spelling of the canonical document (not
// counted as a variant).
func keyCaseX(c *kit.Case, salt uint64, rs *kit.Rand, rt reflect.Type, label string, d0 *node, tx0 texts, res0 [3]outcome, asciiOnly bool) (bad []string, kind string, wit map[string]any) {
	// the new spelling of a key is a function of (salt, key), so that the document without the
	// mismatch can be re-spelled in exactly the same way
	d1 := d0.clone(func(e ent) string {
		if e.perm {
			v := permuteCase(kit.NewRand(salt).Split(e.key), e.key)
			if asciiOnly && !isASCII(e.key) {
				v = e.key
			}
			return v
		}
		return e.key
	})
	tx1 := renderAll(d1, rs)
	if tx1[0] == tx0[0] || !selfCheck(c, d1, tx1) {
		return nil, "", nil
	}
	nonASCII, noCapital := caseDelta(d0, d1)
	if nonASCII > 0 {
		// the reference decoder's opinion on "the same document with keys in another case": where
		// encoding/json accepts both spellings and decodes different values, the re-spelling is not a
		// case variant in its eyes and nothing is asserted (not expected to happen for the runes used)
		a := load(rt, func(v any) error { return json.Unmarshal([]byte(tx0[0]), v) })
		b := load(rt, func(v any) error { return json.Unmarshal([]byte(tx1[0]), v) })
		switch {
		case !a.ok() || !b.ok():
			c.Obs("keycase_nonascii_variants_encoding_json_rejects_the_document", 1)
		case reflect.DeepEqual(a.val.Interface(), b.val.Interface()):
			c.Obs("keycase_nonascii_variants_confirmed_by_encoding_json", 1)
		default:
			c.Obs("keycase_nonascii_variants_not_folded_by_encoding_json", 1)
			return nil, "", nil
		}
	}
	res1 := loadAll(rt, tx1)
	c.Obs("conf_loads", 3)
	if !asciiOnly {
		c.Obs("keycase_variants", 1)
		if nonASCII > 0 {
			c.Obs("keycase_variants_nonascii", 1)
			c.Obs("keycase_nonascii_keys_recased", int64(nonASCII))
			if noCapital > 0 {
				c.Obs("keycase_variants_nonascii_without_ascii_capital", 1)
			}
			if res0[0].ok() {
				c.Obs("keycase_variants_nonascii_accepted_documents", 1)
			}
		}
	}
	if reportPanics(c, rt, label, tx1, res1) {
		return nil, "", nil
	}
	for i := range res1 {
		if same, k := sameOutcome(res0[i], res1[i]); !same {
			bad = append(bad, fmtNames[i])
			kind = k
		}
	}
	if len(bad) == 0 {
		return nil, "", nil
	}
	return bad, kind, map[string]any{"type": typeText(rt), "formats": bad, "nonascii_keys_recased": nonASCII,
		"canonical_documents": tx0.witness(), "permuted_documents": tx1.witness(),
		"canonical_json_result": res0[0].describe(), "permuted_json_result": res1[0].describe(),
		"canonical_yaml_result": res0[1].describe(), "permuted_yaml_result": res1[1].describe(),
		"canonical_toml_result": res0[2].describe(), "permuted_toml_result": res1[2].describe()}
}

func sameOutcome(a, b outcome) (bool, string) {
	if a.ok() != b.ok() {
		return false, "verdict"
	}
	if a.ok() && !reflect.DeepEqual(a.val.Interface(), b.val.Interface()) {
		return false, "value"
	}
	return true, ""
}

// fieldKeysBelow collects, lower-cased, every struct-field key that occurs in t or below.
func fieldKeysBelow(t *tdesc, into map[string]bool) {
	switch t.k {
	case tPtr, tSlice, tMap:
		fieldKeysBelow(t.elem, into)
	case tStruct:
		for _, f := range t.flatFields() {
			into[strings.ToLower(f.key)] = true
			fieldKeysBelow(f.t, into)
		}
	}
}

// mapKeyEqualsFieldName: some data key of a map in the document (canonical keys) equals, ignoring
// case, the name of a struct field of that map's element type or below.
func mapKeyEqualsFieldName(n *node, t *tdesc) bool {
	t = t.deref()
	switch {
	case t.k == tStruct && n.k == nMap:
		fs := t.flatFields()
		for _, e := range n.ents {
			if !e.perm {
				continue
			}
			for _, f := range fs {
				if f.key == e.key && mapKeyEqualsFieldName(e.v, f.t) {
					return true
				}
			}
		}
	case t.k == tSlice && n.k == nArr:
		for _, x := range n.arr {
			if mapKeyEqualsFieldName(x, t.elem) {
				return true
			}
		}
	case t.k == tMap && n.k == nMap:
		below := map[string]bool{}
		fieldKeysBelow(t.elem, below)
		for _, e := range n.ents {
			if below[strings.ToLower(e.key)] || mapKeyEqualsFieldName(e.v, t.elem) {
				return true
			}
		}
	}
	return false
}

// ---------------------------------------------------------------- one (type, document) pair

// spellFrac: the fraction of documents whose numbers get other legal spellings (spell_test.go),
// spellP: the probability per number.
func runPair(c *kit.Case, t *tdesc, plain bool, scratch string, idx int, spellFrac, spellP float64) {
	r := c.R
	g := &dgen{r: r, uni: t.uni}
	stdUni = t.uni
	defer func() { stdUni = false }()
	d0 := g.value(t, 0)
	label := "well-typed"
	mutated := r.Chance(0.55)
	spellR := kit.NewRand(r.Uint64())
	doSpell := spellR.Chance(spellFrac)
	if doSpell {
		respell(spellR, d0, t, spellP)
	}
	var base *node // the document before the mismatch was put in
	if mutated {
		base = d0.clone(func(e ent) string { return e.key })
		label = g.mutate(d0, false)
		mutated = label != "well-typed"
		if doSpell {
			// the value the mismatch put in gets a spelling too
			respell(spellR, d0, t, spellP)
		}
	}
	if !mutated || base.has(nBigUint) {
		base = nil
	}
	rs := kit.NewRand(r.Uint64())
	c.Evals(1)
	switch {
	case label == "well-typed":
		c.Obs("docs_well_typed", 1)
	case strings.HasPrefix(label, "missing-"):
		c.Obs("docs_missing_key", 1)
	case label == "extra-key":
		c.Obs("docs_extra_key", 1)
	default:
		c.Obs("docs_single_mismatch", 1)
	}

	var sh shape
	t.shape(&sh, 0)
	nontrivial := false

	if d0.has(nBigUint) {
		// not representable in TOML (64-bit signed integers): outside the quantifier
		c.Obs("filtered_not_representable_biguint", 1)
	} else {
		tx0 := renderAll(d0, rs)
		if selfCheck(c, d0, tx0) {
			res0, comparable, dis := threeWay(c, t.rt, label, tx0, true)
			c.Obs("pairs_compared", 1)
			if t.uni {
				c.Obs("pairs_compared_nonascii_keys", 1)
				if comparable && res0[0].ok() {
					c.Obs("pairs_nonascii_keys_all_accept", 1)
				}
			}
			if d0.spelled() {
				c.Obs("pairs_compared_with_respelled_numbers", 1)
				countSpellings(c, d0, tx0)
			}
			// attribute reports a disagreement: if the document without the mismatch disagrees in the
			// same way, the mismatch is not what causes it; if the document with every number in its
			// canonical spelling does not disagree in that way, the spelling of a number causes it
			attribute := func(ls loaderSet, dis *disagreement) {
				lab, sfx := label, ""
				if base != nil {
					txb := renderAll(base, rs)
					if selfCheck(c, base, txb) {
						if _, _, db := threeWayWith(ls, c, t.rt, "well-typed", txb, false); db != nil && db.kind == dis.kind && db.pattern == dis.pattern {
							lab, dis = "well-typed", db
						}
					}
				}
				if dd := map[bool]*node{true: d0, false: base}[lab == label]; dd != nil && dd.spelled() {
					dc := dd.unspelled()
					txc := renderAll(dc, rs)
					if selfCheck(c, dc, txc) {
						if _, _, db := threeWayWith(ls, c, t.rt, lab, txc, false); db == nil || db.kind != dis.kind || db.pattern != dis.pattern {
							sfx = "+number-spelling"
						}
					}
				}
				dis.wit["label"] = lab + sfx
				c.Viol("C17/"+dis.kind+"/"+labelClass(lab)+sfx+"/"+dis.pattern, dis.what, dis.wit)
			}
			if dis != nil {
				attribute(confLoaders, dis)
			}
			// the same three renderings through core/mapping's own format-specific unmarshalers
			// (same oracle, same key classes; the witness names the entry points)
			if _, _, dm := threeWayWith(mappingLoaders, c, t.rt, label, tx0, false); dm != nil {
				attribute(mappingLoaders, dm)
			}
			nontrivial = sh.nested+sh.slices+sh.maps+sh.ptrs+sh.embedded > 0 || mutated
			if idx < 2 && c.Index < 3 {
				c.Sample("pair-"+map[bool]string{true: "mismatch", false: "well-typed"}[mutated], 2, map[string]any{"type": typeText(t.rt), "label": label, "documents": tx0.witness(), "accepted": res0[0].ok()})
			}
			// ---- oracle 2: key-case permutation
			if comparable && d0.hasPermKeys() {
				salt := r.Uint64()
				if bad, kind, wit := keyCase(c, salt, rs, t.rt, label, d0, tx0, res0); len(bad) > 0 {
					lab, dd, ddTx, ddRes := label, d0, tx0, res0
					if base != nil && base.hasPermKeys() {
						txb := renderAll(base, rs)
						if selfCheck(c, base, txb) {
							if resb, ok, _ := threeWay(c, t.rt, "well-typed", txb, false); ok {
								if bb, kb, wb := keyCase(c, salt, rs, t.rt, "well-typed", base, txb, resb); len(bb) > 0 {
									lab, dd, bad, kind, wit = "well-typed", base, bb, kb, wb
									ddTx, ddRes = txb, resb
								}
							}
						}
					}
					// the class of the failing input is "keys re-spelled"; which mismatch the document
					// carries elsewhere is in the witness (label), not in the key
					key := "C17/keycase-" + kind + "/" + strings.Join(bad, "+")
					if t.uni && dd.hasNonASCIIPermKeys() {
						// the same re-spelling with the keys that contain non-ASCII letters left as they are:
						// if that does not change the result, those keys are the ones that are not matched
						if ab, _, _ := keyCaseX(c, salt, rs, t.rt, lab, dd, ddTx, ddRes, true); len(ab) == 0 {
							key = "C17/keycase-" + kind + "/keys-with-nonascii-letters/" + strings.Join(bad, "+")
							wit["attribution"] = "re-casing only the all-ASCII keys in the same way does not change the result"
						}
					}
					if mapKeyEqualsFieldName(dd, t) {
						// one class whatever else the document contains
						key = "C17/keycase/map-key-equals-a-field-name"
					}
					wit["label"] = lab
					c.Viol(key, "changing only the letter case of struct-field keys changes the result", wit)
				}
			}
			// ---- oracle 3 (file part): conf.Load on a file == the bytes loader, with and without UseEnv
			if comparable && idx%5 == 0 {
				fileOracle(c, t.rt, label, tx0, res0, scratch)
				if t.uni {
					c.Obs("file_oracle_documents_with_nonascii_keys", 1)
				}
			}
			// ---- repeat after scribble: the result must not depend on what was loaded before
			if comparable && idx%5 == 2 {
				repeatAfterScribble(c, t.rt, label, tx0, res0)
			}
		}
	}

	// ---- oracle 4: encoding/json agreement (plain-json-tag types only)
	if plain {
		baseText := ""
		if base != nil {
			baseText = renderJSON(base, rs)
		}
		stdjson(c, t.rt, label, renderJSON(d0, rs), baseText, !d0.has(nBigUint))
		nontrivial = true
	}
	c.Sig(nontrivial, typeText(t.rt), renderJSON(d0, nil))
}

var fileExts = [3][]string{{".json", ".JSON"}, {".yaml", ".yml", ".YAML"}, {".toml"}}

func fileOracle(c *kit.Case, rt reflect.Type, label string, tx texts, want [3]outcome, scratch string) {
	for i := range tx {
		ext := kit.Choose(c.R, fileExts[i])
		file := filepath.Join(scratch, "conf"+ext)
		if err := os.WriteFile(file, []byte(tx[i]), 0o644); err != nil {
			c.Inconclusive("cannot write scratch file: " + err.Error())
			return
		}
		for _, env := range []bool{false, true} {
			var opts []conf.Option
			mode := "plain"
			if env {
				opts = append(opts, conf.UseEnv())
				mode = "UseEnv"
			}
			got := load(rt, func(v any) error { return conf.Load(file, v, opts...) })
			c.Obs("file_loads", 1)
			if got.panic != "" {
				c.Viol(panicKey(got.panic), "conf.Load panicked",
					map[string]any{"type": typeText(rt), "file": ext, "document": tx[i], "panic": got.panic})
				continue
			}
			if same, kind := sameOutcome(want[i], got); !same {
				c.Viol("C17/file-vs-bytes-"+kind+"/"+mode+"/"+fmtNames[i],
					"conf.Load on a file (document without any $) differs from the bytes loader on the same content",
					map[string]any{"type": typeText(rt), "file": ext, "mode": mode, "document": tx[i],
						"bytes_loader": want[i].describe(), "file_loader": got.describe()})
			}
		}
		os.Remove(file)
	}
}

// stdUni: the type of the pair being judged has non-ASCII keys (set by runPair / runStdPair for
// the duration of one pair; only used for counting).
var stdUni bool

// stdDiff decodes one input with both decoders; diff is the class of the first difference when
// both accept and the values are not DeepEqual.
func stdDiff(c *kit.Case, rt reflect.Type, label, text string, count bool) (diff string, wit map[string]any) {
	a := load(rt, func(v any) error { return mapping.UnmarshalJsonBytes([]byte(text), v) })
	if a.panic != "" {
		c.Viol(panicKey(a.panic), "mapping.UnmarshalJsonBytes panicked",
			map[string]any{"type": typeText(rt), "label": label, "document": text, "panic": a.panic})
		return "", nil
	}
	b := load(rt, func(v any) error { return json.Unmarshal([]byte(text), v) })
	switch {
	case a.ok() && b.ok():
		if count {
			c.Obs("stdjson_both_accept", 1)
			if stdUni {
				c.Obs("stdjson_nonascii_keys_both_accept", 1)
			}
		}
		if !reflect.DeepEqual(a.val.Interface(), b.val.Interface()) {
			return diffClass(a.val, b.val), map[string]any{"type": typeText(rt), "document": text,
				"gozero": show(a.val), "encoding_json": show(b.val),
				"gozero_go": truncate(fmt.Sprintf("%#v", a.val.Interface()), 800), "encoding_json_go": truncate(fmt.Sprintf("%#v", b.val.Interface()), 800)}
		}
	case !count:
	case a.ok():
		c.Obs("stdjson_only_gozero_accepts", 1)
	case b.ok():
		c.Obs("stdjson_only_encodingjson_accepts", 1)
	default:
		c.Obs("stdjson_both_reject", 1)
	}
	return "", nil
}

// stdjson is oracle 4 on one input. baseText is the same document without the mismatch ("" if there
// is none): a difference that it shows as well is not attributed to the mismatch.
// inDomain: the input is a document value representable in all three formats (the property's
// quantifier); outside it (nulls, numbers beyond 64-bit precision) differences are only counted.
func stdjson(c *kit.Case, rt reflect.Type, label, text, baseText string, inDomain bool) {
	diff, wit := stdDiff(c, rt, label, text, true)
	if diff == "" {
		return
	}
	if baseText != "" {
		if db, wb := stdDiff(c, rt, "well-typed", baseText, false); db == diff {
			label, wit, inDomain = "well-typed", wb, true
		}
	}
	if !inDomain {
		c.Obs("outside_quantifier_stdjson_value_differs_"+labelClass(label), 1)
		return
	}
	key := "C17/stdjson-value/" + diff
	if diff != "float32-adjacent-values" {
		key += "/" + labelClass(label)
	}
	wit["label"] = label
	c.Viol(key, "mapping.UnmarshalJsonBytes and encoding/json both accept the input but decode different values", wit)
}

// ---------------------------------------------------------------- encoding/json family extras

// exactDecimal prints the exact decimal expansion of a float64.
func exactDecimal(f float64) string {
	s := new(big.Float).SetPrec(200).SetFloat64(f).Text('f', 80)
	s = strings.TrimRight(s, "0")
	if strings.HasSuffix(s, ".") {
		s += "0"
	}
	return s
}

// rawNumber picks a JSON number literal with an unusual spelling.
func rawNumber(r *kit.Rand, t *tdesc) (string, string) {
	if t.k == tFloat && t.bits == 32 && r.Chance(0.3) {
		// just above the midpoint of two adjacent float32 values, with more digits than a
		// float64 carries (outside the quantifier: counted, not judged)
		x := float32(0.5 + r.Float64()*1000)
		y := math.Nextafter32(x, float32(math.Inf(1)))
		mid := (float64(x) + float64(y)) / 2
		return exactDecimal(mid) + "00000000000001", "beyond-float64-float32-midpoint"
	}
	switch r.Intn(8) {
	case 0:
		return kit.Choose(r, []string{"1e2", "1E2", "2e0", "1e+1", "12e-1", "100e-2"}), "exponent-integral"
	case 1:
		return kit.Choose(r, []string{"-0", "-0.0", "0.0", "0e0"}), "zero-spelling"
	case 2:
		return kit.Choose(r, []string{"1.00", "3.0", "12.000"}), "trailing-zeros"
	case 3:
		return kit.Choose(r, []string{"1e400", "-1e400", "1e39", "1e-400"}), "beyond-float64-huge-exponent"
	case 4:
		return kit.Choose(r, []string{"123456789012345678901234567890", "18446744073709551616", "-9223372036854775809", "9223372036854775808"}), "beyond-float64-many-digits"
	case 5:
		return kit.Choose(r, []string{"0.1000000000000000055511151231257827", "3.14159265358979323846264338327950288", "0.30000000000000004"}), "beyond-float64-long-fraction"
	case 6:
		return kit.Choose(r, []string{"16777217", "9007199254740993", "4294967296", "255", "256", "-129", "65535", "65536"}), "width-boundary"
	default:
		return kit.Choose(r, []string{"1.5e3", "2.5E-3", "1.0e+2"}), "exponent-fractional"
	}
}

func runStdPair(c *kit.Case, t *tdesc) {
	r := c.R
	g := &dgen{r: r, uni: t.uni}
	stdUni = t.uni
	defer func() { stdUni = false }()
	d := g.value(t, 0)
	label := "well-typed"
	baseText := ""
	if !d.has(nBigUint) {
		baseText = renderJSON(d, nil)
	}
	switch r.Pick(3, 3, 2, 2, 2) {
	case 0:
		if len(g.sites) > 0 {
			label = g.mutate(d, true) // null
		}
	case 1:
		var num []site
		for _, s := range g.sites {
			switch s.t.deref().k {
			case tInt, tUint, tFloat:
				num = append(num, s)
			}
		}
		if len(num) > 0 {
			s := kit.Choose(r, num)
			text, class := rawNumber(r, s.t.deref())
			s.set(&node{k: nRawNum, s: text})
			label = "number-spelled-" + class + "-for-" + s.t.deref().k.String() + "@" + s.ctx
		}
	case 2:
		label = g.mutate(d, false)
	case 3:
		// key-case variants: encoding/json matches case-insensitively, go-zero's plain unmarshaler does not
		d = d.clone(func(e ent) string {
			if e.perm && r.Chance(0.3) {
				return permuteCase(r, e.key)
			}
			return e.key
		})
		label = "key-case-variant"
	}
	c.Evals(1)
	text := renderJSON(d, kit.NewRand(r.Uint64()))
	stdjson(c, t.rt, label, text, baseText, !d.has(nNull) && !d.has(nBigUint) && !strings.Contains(label, "beyond-float64"))
	if d.has(nNull) && t.k == tStruct && !d.has(nRawNum) {
		// nulls are outside the three-format quantifier (TOML has none); the JSON and YAML
		// loaders are still run on them, for panics only
		rs := kit.NewRand(r.Uint64())
		tx := texts{text, renderYAML(d, rs), ""}
		for i := 0; i < 2; i++ {
			i := i
			o := load(t.rt, func(v any) error { return loaders[i]([]byte(tx[i]), v) })
			c.Obs("conf_loads_null_documents", 1)
			if o.panic != "" {
				c.Viol(panicKey(o.panic), "go-zero panicked while loading a document with a null (conf.LoadFrom"+fmtNames[i]+"Bytes)",
					map[string]any{"type": typeText(t.rt), "label": label, "format": fmtNames[i], "document": tx[i], "panic": o.panic})
			}
		}
	}
	c.Obs("stdjson_inputs", 1)
	if t.uni {
		c.Obs("stdjson_inputs_nonascii_keys", 1)
		if label == "key-case-variant" {
			c.Obs("stdjson_inputs_nonascii_key_case_variant", 1)
		}
	}
	if c.Index < 2 {
		c.Sample("stdjson", 2, map[string]any{"type": typeText(t.rt), "label": label, "document": text})
	}
	c.Sig(true, "std", typeText(t.rt), text)
}

// ---------------------------------------------------------------- ${VAR} family

type EnvConf struct {
	Name string            `json:"userName"`
	Addr string            `json:"addr,optional"`
	Port int               `json:"PORT"`
	Tags []string          `json:"tags"`
	Meta map[string]string `json:"MetaData"`
	Sub  struct {
		Path    string `json:"filePath"`
		Retries int    `json:"retries,default=3"`
	} `json:"Sub"`
}

// normEnv: the statement does not distinguish nil from empty containers in the harness's
// own expectation (go-zero's conf loader yields nil for an empty array).
func normEnv(e EnvConf) EnvConf {
	if len(e.Tags) == 0 {
		e.Tags = nil
	}
	if len(e.Meta) == 0 {
		e.Meta = nil
	}
	return e
}

func envEq(got any, want EnvConf) bool {
	g, ok := got.(EnvConf)
	return ok && reflect.DeepEqual(normEnv(g), normEnv(want))
}

var envNames = []string{"C17_A", "C17_B", "C17_EMPTY", "C17_UNSET"}

func expand(s string, vals map[string]string) string {
	for _, n := range envNames {
		s = strings.ReplaceAll(s, "${"+n+"}", vals[n])
	}
	return s
}

func runEnv(c *kit.Case, scratch string) {
	r := c.R
	vals := map[string]string{
		"C17_A":     kit.Choose(r, []string{"prod", "10.0.0.1:8080", "/var/data", "hello world", "x-y_z.1", "ü"}),
		"C17_B":     kit.Choose(r, []string{"b", "42", "true", "a b c"}),
		"C17_EMPTY": "", "C17_UNSET": "",
	}
	os.Setenv("C17_A", vals["C17_A"])
	os.Setenv("C17_B", vals["C17_B"])
	os.Setenv("C17_EMPTY", "")
	os.Unsetenv("C17_UNSET")
	portVal := r.Range(1, 65535)
	os.Setenv("C17_PORT", fmt.Sprint(portVal))
	defer func() {
		for _, n := range []string{"C17_A", "C17_B", "C17_EMPTY", "C17_PORT"} {
			os.Unsetenv(n)
		}
	}()
	pool := []string{"${C17_A}", "pre-${C17_A}-post", "${C17_A}${C17_B}", "${C17_UNSET}", "x${C17_EMPTY}y", "no placeholder", "${C17_B}", "{not a var}", "a ${C17_A} b ${C17_B} c"}
	str := func() string { return kit.Choose(r, pool) }
	var lit EnvConf
	lit.Name = str()
	hasAddr := r.Bool()
	if hasAddr {
		lit.Addr = str()
	}
	numericPlaceholder := r.Chance(0.3)
	lit.Port = r.Range(0, 9999)
	lit.Tags = []string{}
	for i := r.Intn(3); i > 0; i-- {
		lit.Tags = append(lit.Tags, str())
	}
	lit.Meta = map[string]string{}
	for _, k := range []string{"k1", "Key Two", "k3"} {
		if r.Bool() {
			lit.Meta[k] = str()
		}
	}
	lit.Sub.Path = str()
	lit.Sub.Retries = 3
	hasRetries := r.Bool()
	if hasRetries {
		lit.Sub.Retries = r.Range(0, 9)
	}
	// the document
	sn := func(s string) *node { return &node{k: nStr, s: s} }
	port := &node{k: nInt, i: int64(lit.Port)}
	if numericPlaceholder {
		port = &node{k: nRawNum, s: "${C17_PORT}"}
	}
	tags := &node{k: nArr, arr: []*node{}}
	for _, s := range lit.Tags {
		tags.arr = append(tags.arr, sn(s))
	}
	meta := &node{k: nMap, ents: []ent{}}
	for _, k := range []string{"k1", "Key Two", "k3"} {
		if v, ok := lit.Meta[k]; ok {
			meta.ents = append(meta.ents, ent{key: k, v: sn(v)})
		}
	}
	sub := &node{k: nMap, ents: []ent{{key: "filePath", v: sn(lit.Sub.Path), perm: true}}}
	if hasRetries {
		sub.ents = append(sub.ents, ent{key: "retries", v: &node{k: nInt, i: int64(lit.Sub.Retries)}, perm: true})
	}
	doc := &node{k: nMap, ents: []ent{{key: "userName", v: sn(lit.Name), perm: true}, {key: "PORT", v: port, perm: true},
		{key: "tags", v: tags, perm: true}, {key: "MetaData", v: meta, perm: true}, {key: "Sub", v: sub, perm: true}}}
	if hasAddr {
		doc.ents = append(doc.ents, ent{key: "addr", v: sn(lit.Addr), perm: true})
	}
	// expected values
	exp := lit
	exp.Name, exp.Addr, exp.Sub.Path = expand(lit.Name, vals), expand(lit.Addr, vals), expand(lit.Sub.Path, vals)
	exp.Tags = []string{}
	for _, s := range lit.Tags {
		exp.Tags = append(exp.Tags, expand(s, vals))
	}
	exp.Meta = map[string]string{}
	for k, v := range lit.Meta {
		exp.Meta[k] = expand(v, vals)
	}
	if numericPlaceholder {
		exp.Port = portVal
	}
	placeholders := !reflect.DeepEqual(exp, lit)

	if r.Chance(0.6) {
		// keys are matched case-insensitively (map keys such as "Key Two" are data and stay)
		doc = doc.clone(func(e ent) string {
			if e.perm {
				return permuteCase(r, e.key)
			}
			return e.key
		})
		c.Obs("env_documents_with_recased_keys", 1)
	}
	rs := kit.NewRand(r.Uint64())
	tx := renderAll(doc, rs)
	if !numericPlaceholder && !selfCheck(c, doc, tx) {
		return
	}
	c.Evals(1)
	rt := reflect.TypeOf(EnvConf{})
	for i := range tx {
		ext := kit.Choose(r, fileExts[i])
		file := filepath.Join(scratch, "env"+ext)
		if err := os.WriteFile(file, []byte(tx[i]), 0o644); err != nil {
			c.Inconclusive("cannot write scratch file: " + err.Error())
			return
		}
		wit := func(got outcome, want EnvConf, mode string) map[string]any {
			return map[string]any{"file": ext, "mode": mode, "document": tx[i], "environment": vals, "C17_PORT": portVal,
				"got": got.describe(), "want": show(reflect.ValueOf(want))}
		}
		// with UseEnv: every ${VAR} is replaced by the variable's value
		got := load(rt, func(v any) error { return conf.Load(file, v, conf.UseEnv()) })
		c.Obs("env_loads_UseEnv", 1)
		switch {
		case got.panic != "":
			c.Viol(panicKey(got.panic), "conf.Load panicked", wit(got, exp, "UseEnv"))
		case got.err != nil:
			c.Viol("C17/env/UseEnv-rejected/"+fmtNames[i], "conf.Load with UseEnv rejects a document that is valid after expansion", wit(got, exp, "UseEnv"))
		case !envEq(got.val.Interface(), exp):
			k := "wrong-value"
			if envEq(got.val.Interface(), lit) {
				k = "not-expanded"
			}
			c.Viol("C17/env/UseEnv-"+k+"/"+fmtNames[i], "conf.Load with UseEnv did not yield the expanded values", wit(got, exp, "UseEnv"))
		default:
			if placeholders {
				c.Obs("env_expansions_observed", 1)
			}
		}
		// without: the text stays as written (a numeric placeholder is then not a valid document
		// in JSON/TOML, so nothing is claimed for it)
		if !numericPlaceholder {
			got = load(rt, func(v any) error { return conf.Load(file, v) })
			c.Obs("env_loads_plain", 1)
			switch {
			case got.panic != "":
				c.Viol(panicKey(got.panic), "conf.Load panicked", wit(got, lit, "plain"))
			case got.err != nil:
				c.Viol("C17/env/plain-rejected/"+fmtNames[i], "conf.Load without UseEnv rejects a valid document containing ${VAR} text", wit(got, lit, "plain"))
			case !envEq(got.val.Interface(), lit):
				k := "wrong-value"
				if placeholders && envEq(got.val.Interface(), exp) {
					k = "expanded-although-not-requested"
				}
				c.Viol("C17/env/plain-"+k+"/"+fmtNames[i], "conf.Load without UseEnv did not keep ${VAR} text literally", wit(got, lit, "plain"))
			default:
				if placeholders {
					c.Obs("env_literal_kept_observed", 1)
				}
			}
			// bytes loaders never expand
			gb := load(rt, func(v any) error { return loaders[i]([]byte(tx[i]), v) })
			if gb.ok() && placeholders && !envEq(gb.val.Interface(), lit) {
				c.Viol("C17/env/bytes-loader-wrong-value/"+fmtNames[i], "LoadFromXBytes did not keep ${VAR} text literally", wit(gb, lit, "bytes"))
			}
		}
		os.Remove(file)
	}
	if c.Index < 2 {
		c.Sample("env", 2, map[string]any{"documents": tx.witness(), "environment": vals, "numeric_placeholder": numericPlaceholder})
	}
	c.Sig(placeholders, "env", tx[0], vals["C17_A"], vals["C17_B"])
}

// ---------------------------------------------------------------- test entry

// uniFrac: every seventh case of the random-type families builds its type with key names that
// contain non-ASCII letters (per key with this probability); the other cases draw nothing extra
// from the random stream.
func uniFrac(c *kit.Case) float64 {
	if c.Index%7 == 3 {
		return 0.6
	}
	return 0
}

func TestVerifC17(t *testing.T) {
	logx.Disable()
	root := os.Getenv("VERIF_SCRATCH_DIR")
	if root == "" {
		root = "/var/tmp"
	}
	scratch, err := os.MkdirTemp(root, "c17-")
	if err != nil {
		t.Fatalf("scratch dir: %v", err)
	}
	defer os.RemoveAll(scratch)

	const docsPerType = 10

	// random StructOf types with go-zero tag options (optional/default/options/range), durations
	kit.Run(t, "C17", "gen", kit.N(3500, 90000), func(c *kit.Case) {
		g := &tgen{r: c.R, uni: uniFrac(c)}
		td := descOf(g.structT(c.R.Range(0, 3), 1))
		for i := 0; i < docsPerType; i++ {
			runPair(c, td, false, scratch, i, 0.25, 0.5)
		}
	})
	// random StructOf types with plain json name tags: three-format oracle + encoding/json oracle
	kit.Run(t, "C17", "plain", kit.N(2500, 60000), func(c *kit.Case) {
		g := &tgen{r: c.R, plain: true, uni: uniFrac(c)}
		td := descOf(g.structT(c.R.Range(0, 3), 1))
		for i := 0; i < docsPerType; i++ {
			runPair(c, td, true, scratch, i, 0.25, 0.5)
		}
	})
	// hand-written family with embedded structs
	kit.Run(t, "C17", "fixed", kit.N(1000, 30000), func(c *kit.Case) {
		td := descOf(fixedFamily[c.Index%len(fixedFamily)])
		for i := 0; i < docsPerType; i++ {
			runPair(c, td, false, scratch, i, 0.25, 0.5)
		}
	})
	// encoding/json family: nulls, number spellings, key-case variants, top-level slices
	kit.Run(t, "C17", "stdjson", kit.N(2000, 50000), func(c *kit.Case) {
		g := &tgen{r: c.R, plain: true, uni: uniFrac(c)}
		rt := g.structT(c.R.Range(0, 3), 1)
		if c.R.Chance(0.15) {
			rt = reflect.SliceOf(g.typ(c.R.Range(0, 2)))
		}
		td := descOf(rt)
		for i := 0; i < docsPerType; i++ {
			runStdPair(c, td)
		}
	})
	// ${VAR} expansion iff UseEnv
	kit.Run(t, "C17", "env", kit.N(1500, 20000), func(c *kit.Case) {
		runEnv(c, scratch)
	})
	// number spellings: small numeric types, every number in another legal spelling per format
	kit.Run(t, "C17", "numspell", kit.N(700, 20000), func(c *kit.Case) {
		g := &tgen{r: c.R, plain: true}
		td := descOf(numStructT(g, c.R.Range(0, 1)))
		for i := 0; i < docsPerType; i++ {
			runPair(c, td, true, scratch, i, 1, 0.8)
		}
	})
	// history: evaluate, scribble, evaluate again; input with bytes after the first JSON value
	kit.Run(t, "C17", "history", kit.N(500, 12000), runHistory)
	// core/mapping's format-specific entry points (bytes and reader) with every UnmarshalOption
	kit.Run(t, "C17", "mapopts", kit.N(1400, 35000), runMapOpts)
	// documents the format's reference parser rejects
	kit.Run(t, "C17", "malformed", kit.N(300, 8000), func(c *kit.Case) { runMalformed(c, scratch) })
	// documents outside the quantifier (panic fence, counted)
	kit.Run(t, "C17", "odd", kit.N(40, 800), runOdd)
	// conf.Load: extensions, missing files, deprecated aliases, MustLoad
	kit.Run(t, "C17", "files", kit.N(400, 10000), func(c *kit.Case) { runFiles(c, scratch) })
	// $VAR forms, unset / empty variables, a literal '$'
	kit.Run(t, "C17", "env-forms", kit.N(800, 15000), func(c *kit.Case) { runEnvForms(c, scratch) })
	// types with conflicting keys, embedded maps / scalars, unsupported field kinds
	kit.Run(t, "C17", "conflict", kit.N(330, 6600), func(c *kit.Case) { runConflict(c, scratch) })
	// hand-written types with non-ASCII tags, embedded structs and untagged non-ASCII field names
	kit.Run(t, "C17", "uni-fixed", kit.N(160, 4000), func(c *kit.Case) {
		td := descOf(fixedFamilyU[c.Index%len(fixedFamilyU)])
		for i := 0; i < docsPerType; i++ {
			runPair(c, td, false, scratch, i, 0.25, 0.5)
		}
	})
	// the env family on a type with non-ASCII tags and non-ASCII map data keys (expected values
	// computed by the harness)
	kit.Run(t, "C17", "uni-env", kit.N(400, 8000), func(c *kit.Case) { runEnvU(c, scratch) })
	// keys with runes that have no one-to-one case mapping: the formats agree, nothing panics
	kit.Run(t, "C17", "uni-special", kit.N(150, 3000), runSpecial)
	kit.End()
}
