package c17

// unikeys_test.go: key names outside ASCII.
//
// "Keys matched case-insensitively" is not a statement about ASCII: a tag `json:"Überschrift"`
// must match the document key `überschrift`, a field `Öde` the key `öde`, in all three formats
// (encoding/json folds such keys as well). The key pools of the other files are ASCII, so
// whatever go-zero does with a letter that is several bytes long stayed out of reach.
//
//   - uniKey builds key names from ASCII letters, digits, '_' and letters of several scripts
//     (Latin-1 supplement, Latin Extended-A, the Latin digraphs whose title case differs from
//     their upper case, Greek, Cyrillic, Armenian, fullwidth Latin).
//   - permuteCaseU produces case variants rune by rune with unicode.ToUpper/ToLower/ToTitle.
//   - ASSERTED are only keys made of runes with a one-to-one case mapping (simpleRune): every
//     member of the rune's case orbit lower-cases to the same rune, with unicode.ToLower and with
//     strings.ToLower, and is in the same unicode.SimpleFold orbit (what encoding/json folds).
//     Excluded by name: ß/ẞ, İ/ı, ſ, the Kelvin and Angstrom signs, final sigma, the micro sign.
//     Keys containing an excluded rune are never re-cased by the asserting families; the
//     uni-special family loads them in arbitrary case variants and demands only that the three
//     formats agree with each other and that nothing panics.
//
// Families (c17_test.go): every seventh case of gen / plain / stdjson builds its type with such
// keys (all oracles of those families apply unchanged: three formats, key case, file-vs-bytes,
// repeat-after-scribble, encoding/json); uni-fixed adds hand-written types with embedded structs
// and untagged non-ASCII field names; uni-env is the env family (harness-computed expected
// values, the only absolute oracle) on a type with non-ASCII tags and non-ASCII map data keys;
// uni-special is described above.

import (
	"encoding/json"
	"fmt"
	"os"
	"path/filepath"
	"reflect"
	"strings"
	"unicode"
	"unicode/utf8"

	"github.com/zeromicro/go-zero/core/conf"

	"verifharness/kit"
)

func isASCII(s string) bool {
	for i := 0; i < len(s); i++ {
		if s[i] >= utf8.RuneSelf {
			return false
		}
	}
	return true
}

// excludedRunes: named in the assignment of this extension; all of them also fail simpleRune or
// are harmless, the list is belt and braces.
var excludedRunes = map[rune]bool{
	0x00DF: true, 0x1E9E: true, // ß ẞ
	0x0130: true, 0x0131: true, // İ ı
	0x017F: true, // ſ
	0x212A: true, // Kelvin sign
	0x212B: true, // Angstrom sign
	0x03C2: true, // final sigma
	0x00B5: true, // micro sign
	0x2126: true, // Ohm sign
}

// simpleRune: r has a one-to-one case mapping - every member of its case orbit lower-cases to
// the same rune (rune-wise and through strings.ToLower, without a change of length), upper-cases
// back into the orbit, and the whole orbit is one unicode.SimpleFold orbit.
var simpleRuneCache = map[rune]bool{}

func simpleRune(r rune) bool {
	if r < utf8.RuneSelf {
		return true
	}
	if v, ok := simpleRuneCache[r]; ok {
		return v
	}
	v := simpleRuneUncached(r)
	simpleRuneCache[r] = v
	return v
}

func simpleRuneUncached(r rune) bool {
	if excludedRunes[r] || r == utf8.RuneError {
		return false
	}
	l := unicode.ToLower(r)
	orbit := []rune{r, l, unicode.ToUpper(r), unicode.ToTitle(r), unicode.ToUpper(l), unicode.ToTitle(l)}
	for _, v := range orbit {
		if excludedRunes[v] || unicode.ToLower(v) != l || strings.ToLower(string(v)) != string(l) {
			return false
		}
		if utf8.RuneCountInString(strings.ToUpper(string(v))) != 1 || unicode.ToLower([]rune(strings.ToUpper(string(v)))[0]) != l {
			return false
		}
		// the same SimpleFold orbit as l
		same := false
		for f, n := v, 0; n < 8; f, n = unicode.SimpleFold(f), n+1 {
			if f == l {
				same = true
				break
			}
		}
		if !same {
			return false
		}
	}
	// and nothing else in the fold orbit (σ/ς, в/ᲀ, k/K ...: a second lower-case member would be
	// matched by encoding/json and not by strings.ToLower)
	for f, n := unicode.SimpleFold(l), 0; f != l && n < 8; f, n = unicode.SimpleFold(f), n+1 {
		if unicode.ToLower(f) != l {
			return false
		}
	}
	return true
}

// assertableKey: every rune has a one-to-one case mapping and lower/upper-casing the whole key
// keeps the number of runes and is mutually inverse up to case.
func assertableKey(s string) bool {
	if isASCII(s) {
		return true
	}
	if !utf8.ValidString(s) {
		return false
	}
	for _, r := range s {
		if !simpleRune(r) {
			return false
		}
	}
	lo, up := strings.ToLower(s), strings.ToUpper(s)
	n := utf8.RuneCountInString(s)
	return utf8.RuneCountInString(lo) == n && utf8.RuneCountInString(up) == n &&
		strings.ToLower(up) == lo && strings.ToUpper(lo) == up
}

// cased: the rune has another case.
func cased(r rune) bool { return unicode.ToLower(r) != unicode.ToUpper(r) || unicode.ToTitle(r) != unicode.ToUpper(r) }

func hasNonASCIICased(s string) bool {
	for _, r := range s {
		if r >= utf8.RuneSelf && cased(r) {
			return true
		}
	}
	return false
}

func hasASCIIUpper(s string) bool {
	for i := 0; i < len(s); i++ {
		if s[i] >= 'A' && s[i] <= 'Z' {
			return true
		}
	}
	return false
}

// ---------------------------------------------------------------- alphabet

type script struct {
	name   string
	lo, hi rune // lower-case letters lo..hi (the generator picks a lower-case letter, then its case)
	step   rune
}

// lower-case ranges; a rune is used only if simpleRune accepts it (checked when the table is built)
var scriptRanges = []script{
	{"latin1", 0x00E0, 0x00FE, 1},     // à..þ (÷ is not a letter, filtered)
	{"latin1", 0x00FF, 0x00FF, 1},     // ÿ (upper case in Latin Extended-A)
	{"latin-ext-a", 0x0101, 0x0137, 2}, // ā..ķ
	{"latin-ext-a", 0x013A, 0x0148, 2}, // ĺ..ň
	{"latin-ext-a", 0x014B, 0x0177, 2}, // ŋ..ŷ
	{"latin-ext-a", 0x017A, 0x017E, 2}, // ź..ž
	{"latin-digraph", 0x01C6, 0x01CC, 3}, // ǆ ǉ ǌ (title case differs from upper case)
	{"latin-digraph", 0x01F3, 0x01F3, 1}, // ǳ
	{"greek", 0x03B1, 0x03C9, 1},      // α..ω (final sigma filtered)
	{"greek", 0x03AC, 0x03AF, 1},      // ά έ ή ί
	{"greek", 0x03CC, 0x03CE, 1},      // ό ύ ώ
	{"cyrillic", 0x0430, 0x044F, 1},   // а..я
	{"cyrillic", 0x0450, 0x045F, 1},   // ѐ..џ
	{"armenian", 0x0561, 0x0586, 1},   // ա..ֆ
	{"fullwidth", 0xFF41, 0xFF5A, 1},  // ａ..ｚ
}

type scriptLetters struct {
	name    string
	letters []rune // lower case
}

var uniScripts = func() []scriptLetters {
	byName := map[string]*scriptLetters{}
	var order []string
	for _, sc := range scriptRanges {
		sl := byName[sc.name]
		if sl == nil {
			sl = &scriptLetters{name: sc.name}
			byName[sc.name] = sl
			order = append(order, sc.name)
		}
		for r := sc.lo; r <= sc.hi; r += sc.step {
			if unicode.IsLetter(r) && unicode.IsLower(r) && cased(r) && simpleRune(r) {
				sl.letters = append(sl.letters, r)
			}
		}
	}
	var out []scriptLetters
	for _, n := range order {
		if len(byName[n].letters) == 0 {
			panic("c17: script without usable letters: " + n)
		}
		out = append(out, *byName[n])
	}
	return out
}()

// words that occur in real configurations (all runes simple); mixed in with the synthetic keys
var uniWords = []string{"Überschrift", "überName", "Élan", "ärzte", "Ärzte", "Öde", "Städte", "Ωmega", "ωmega", "Жук", "жуки", "ΠΌΡΤΑ", "πόρτα",
	"Ճանապարհ", "ճան", "Ｍｅｔａ", "ｈｏｓｔ", "ÉQUIPE", "équipe", "Ñandú", "Łódź", "łącze", "Ключ", "ключ_2", "név", "Népesség", "höhe", "Îlot", "\u01c6ungla", "\u01c5ep"}

// uniKey builds a key name with at least one cased non-ASCII letter; ident: a valid exported Go
// identifier (first rune an upper-case letter, then letters, digits, '_').
func uniKey(r *kit.Rand, ident bool) string {
	for {
		var k string
		if r.Chance(0.3) {
			k = kit.Choose(r, uniWords)
		} else {
			n := r.Range(2, 7)
			home := kit.Choose(r, uniScripts) // most letters of a key come from one script
			var rs []rune
			for i := 0; i < n; i++ {
				switch r.Pick(50, 30, 8, 6) {
				case 0:
					sc := home
					if r.Chance(0.2) {
						sc = kit.Choose(r, uniScripts)
					}
					l := kit.Choose(r, sc.letters)
					switch r.Pick(6, 3, 1) {
					case 1:
						l = unicode.ToUpper(l)
					case 2:
						l = unicode.ToTitle(l)
					}
					rs = append(rs, l)
				case 1:
					l := rune('a' + r.Intn(26))
					if r.Chance(0.3) {
						l -= 32
					}
					rs = append(rs, l)
				case 2:
					if i > 0 {
						rs = append(rs, rune('0'+r.Intn(10)))
					}
				default:
					if i > 0 && i < n-1 {
						rs = append(rs, '_')
					}
				}
			}
			k = string(rs)
		}
		if ident {
			rs := []rune(k)
			if len(rs) == 0 {
				continue
			}
			rs[0] = unicode.ToUpper(rs[0])
			if !unicode.IsUpper(rs[0]) {
				continue
			}
			k = string(rs)
		}
		if k != "" && hasNonASCIICased(k) && assertableKey(k) && yamlKeySafe(k) {
			return k
		}
	}
}

// yamlKeySafe: lower/upper-casing the key can never produce a YAML 1.1 boolean/null word (the
// renderer quotes those, but a key that IS such a word would make the document ambiguous to read).
func yamlKeySafe(k string) bool { return !yamlReserved[strings.ToLower(k)] && k != "~" }

// uniIdent: letters, digits and '_' only, starting with a letter (a YAML plain scalar that no
// resolver takes for anything but a string once it contains a non-ASCII letter).
func uniIdent(s string) bool {
	for i, r := range s {
		switch {
		case unicode.IsLetter(r):
		case i > 0 && (r == '_' || (r >= '0' && r <= '9')):
		default:
			return false
		}
	}
	return s != ""
}

// escapedQuoted renders the string with every non-ASCII rune as \uXXXX (legal in JSON strings,
// YAML double-quoted scalars and TOML basic strings); ok=false if a rune is outside the BMP.
func escapedQuoted(s string) (string, bool) {
	var b strings.Builder
	b.WriteByte('"')
	for _, c := range s {
		switch {
		case c > 0xffff || c == utf8.RuneError:
			return "", false
		case c == '"':
			b.WriteString(`\"`)
		case c == '\\':
			b.WriteString(`\\`)
		case c >= 0x20 && c <= 0x7e:
			b.WriteRune(c)
		default:
			fmt.Fprintf(&b, `\u%04x`, c)
		}
	}
	b.WriteByte('"')
	return b.String(), true
}

// quotedKey: a key in double quotes; a non-ASCII key is written with \u escapes now and then.
func quotedKey(s string, rs *kit.Rand) string {
	if rs != nil && !isASCII(s) && rs.Chance(0.25) {
		if q, ok := escapedQuoted(s); ok {
			kit.Obs("nonascii_keys_rendered_with_u_escapes", 1)
			return q
		}
	}
	return quoted(s)
}

// ---------------------------------------------------------------- case variants

// permuteCaseU re-cases a non-ASCII key rune by rune. Keys that are not assertable stay as they
// are. Modes: all upper, all lower, title-case first + lower rest, random per rune, only the
// non-ASCII letters swapped (a key whose ASCII letters keep their case), first rune swapped.
func permuteCaseU(r *kit.Rand, s string) string {
	if !assertableKey(s) {
		return s
	}
	mode := r.Pick(2, 2, 2, 4, 4, 2)
	rs := []rune(s)
	swap := func(c rune) rune {
		if unicode.IsUpper(c) || unicode.IsTitle(c) {
			return unicode.ToLower(c)
		}
		if r.Chance(0.15) {
			return unicode.ToTitle(c)
		}
		return unicode.ToUpper(c)
	}
	for i, c := range rs {
		if !cased(c) {
			continue
		}
		switch mode {
		case 0:
			rs[i] = unicode.ToUpper(c)
		case 1:
			rs[i] = unicode.ToLower(c)
		case 2:
			if i == 0 {
				rs[i] = unicode.ToTitle(c)
			} else {
				rs[i] = unicode.ToLower(c)
			}
		case 3:
			switch r.Pick(4, 4, 1) {
			case 0:
				rs[i] = unicode.ToUpper(c)
			case 1:
				rs[i] = unicode.ToLower(c)
			default:
				rs[i] = unicode.ToTitle(c)
			}
		case 4:
			if c >= utf8.RuneSelf && r.Chance(0.8) {
				rs[i] = swap(c)
			}
		default:
			if i == 0 {
				rs[i] = swap(c)
			}
		}
	}
	out := string(rs)
	if strings.ToLower(out) != strings.ToLower(s) || utf8.RuneCountInString(out) != len([]rune(s)) {
		// cannot happen for assertable keys; never assert on a pair that is not a case variant
		return s
	}
	return out
}

// asciiOnlyVariant: variant with the case of its non-ASCII runes taken back from canon (used to
// attribute a key-case failure to the non-ASCII letters).
func asciiOnlyVariant(canon, variant string) string {
	a, b := []rune(canon), []rune(variant)
	if len(a) != len(b) {
		return canon
	}
	for i := range b {
		if a[i] >= utf8.RuneSelf {
			b[i] = a[i]
		}
	}
	return string(b)
}

// caseDelta compares a document with its re-cased clone: how many struct-field keys differ in a
// non-ASCII letter, and how many of those pairs have a spelling without any ASCII capital (the
// spellings that an ASCII-only lower-casing leaves untouched).
func caseDelta(a, b *node) (nonASCII, noASCIICapital int) {
	for i := range a.arr {
		x, y := caseDelta(a.arr[i], b.arr[i])
		nonASCII, noASCIICapital = nonASCII+x, noASCIICapital+y
	}
	for i := range a.ents {
		ka, kb := a.ents[i].key, b.ents[i].key
		if a.ents[i].perm && ka != kb && asciiOnlyVariant(ka, kb) != kb {
			nonASCII++
			if !hasASCIIUpper(ka) || !hasASCIIUpper(kb) {
				noASCIICapital++
			}
		}
		x, y := caseDelta(a.ents[i].v, b.ents[i].v)
		nonASCII, noASCIICapital = nonASCII+x, noASCIICapital+y
	}
	return
}

func (n *node) hasNonASCIIPermKeys() bool {
	for _, x := range n.arr {
		if x.hasNonASCIIPermKeys() {
			return true
		}
	}
	for _, e := range n.ents {
		if e.perm && !isASCII(e.key) || e.v.hasNonASCIIPermKeys() {
			return true
		}
	}
	return false
}

// map data keys of documents for types with non-ASCII keys: data, never re-cased, so runes
// without a one-to-one case mapping are welcome here
var mapKeyPoolU = append(append([]string{}, mapKeyPool...),
	"Köln", "ÜLM", "Ωmega", "Жук", "ÉLAN", "Ａｂ", "İstanbul", "straße", "ΣΊΣΥΦΟΣ", "σίσυφος", "Kelvin", "Ճան")

// ---------------------------------------------------------------- uni-fixed: hand-written types

type ÖdlandU struct {
	Öde bool
	Ära int `json:",optional"`
}

type ArztU struct {
	Name string `json:"name"`
	Höhe int    `json:"höhe"`
	Élan string `json:"Élan,optional"`
}

type UniOne struct {
	Title string            `json:"title"`
	Head  string            `json:"Überschrift"`
	Docs  []ArztU           `json:"ärzte"`
	Towns map[string]*ArztU `json:"Städte,optional"`
	ÖdlandU
}

type UniTwo struct {
	*ÖdlandU `json:",optional"`
	Ключ     string  `json:"Ключ"`
	Μέγεθος  float64 `json:"ΜΈΓΕΘΟΣ,default=1.5"`
	Deep     struct {
		Ճան struct {
			EmbA
			Вкл bool `json:"вкл"`
		} `json:"Ճանապարհ"`
	} `json:"Ｄｅｅｐ"`
}

type UniThree struct {
	Dz     int8 "json:\"\u01c6ungla\""
	Items  []struct {
		ÖdlandU
		Max uint32 `json:"МАКС"`
	} `json:"Ítems"`
	ByName map[string][]ArztU `json:"poŁączenia,optional"`
	Ñandú  string
}

type UniFour struct {
	EmbB
	ÖdlandU
	Inner *struct {
		ArztU
		Extra map[string][]int `json:"ＥＸＴＲＡ,optional"`
	} "json:\"\u0131nner_not\""
	ÜberName string
}

var fixedFamilyU = []reflect.Type{
	reflect.TypeOf(UniOne{}), reflect.TypeOf(UniTwo{}), reflect.TypeOf(UniThree{}), reflect.TypeOf(UniFour{}),
}

// ---------------------------------------------------------------- uni-env: absolute expectations

type UxTown struct {
	Name string `json:"név"`
	Pop  int    `json:"Népesség,optional"`
}

type UxEmb struct {
	Öde bool
	Ära int `json:",optional"`
}

type UxConf struct {
	Name string            `json:"überName"`
	Addr string            `json:"Ärzte_addr,optional"`
	Port int               `json:"ΠΌΡΤΑ"`
	Tags []string          `json:"жуки"`
	Meta map[string]string `json:"Ｍｅｔａ"`
	Sub  struct {
		Path    string `json:"Ճանապարհ"`
		Retries int    `json:"retries2,optional"`
	} `json:"Ωmega"`
	Towns map[string]*UxTown `json:"Städte"`
	Docs  []UxTown           `json:"ÉQUIPE"`
	UxEmb
}

func normUx(e UxConf) UxConf {
	if len(e.Tags) == 0 {
		e.Tags = nil
	}
	if len(e.Meta) == 0 {
		e.Meta = nil
	}
	if len(e.Towns) == 0 {
		e.Towns = nil
	}
	if len(e.Docs) == 0 {
		e.Docs = nil
	}
	return e
}

func uxEq(got any, want UxConf) bool {
	g, ok := got.(UxConf)
	return ok && reflect.DeepEqual(normUx(g), normUx(want))
}

// data keys of the two maps: upper-case letters outside ASCII, runes without a one-to-one case
// mapping, a key equal (up to case) to a tag of another level
var uxDataKeys = []string{"k1", "Key Two", "Köln", "ÜLM", "Жук", "ÉLAN", "\u0130stanbul", "stra\u00dfe", "ΣΊΣΥΦΟΣ", "Ａｂ", "ωMEGA"}

func runEnvU(c *kit.Case, scratch string) {
	r := c.R
	vals := map[string]string{
		"C17_A":     kit.Choose(r, []string{"prod", "10.0.0.1:8080", "/var/data", "hello world", "x-y_z.1", "ü", "Ünï Ωδός"}),
		"C17_B":     kit.Choose(r, []string{"b", "42", "true", "a b c"}),
		"C17_EMPTY": "", "C17_UNSET": "",
	}
	os.Setenv("C17_A", vals["C17_A"])
	os.Setenv("C17_B", vals["C17_B"])
	os.Setenv("C17_EMPTY", "")
	os.Unsetenv("C17_UNSET")
	defer func() {
		for _, n := range []string{"C17_A", "C17_B", "C17_EMPTY"} {
			os.Unsetenv(n)
		}
	}()
	pool := []string{"${C17_A}", "pre-${C17_A}-post", "${C17_A}${C17_B}", "${C17_UNSET}", "no placeholder", "Ünï", "{not a var}", "Größe", "x", "Ωmega", "überName"}
	str := func() string { return kit.Choose(r, pool) }
	sn := func(s string) *node { return &node{k: nStr, s: s} }
	in := func(i int) *node { return &node{k: nInt, i: int64(i)} }

	var lit UxConf
	doc := &node{k: nMap, ents: []ent{}}
	add := func(n *node, key string, v *node) { n.ents = append(n.ents, ent{key: key, v: v, perm: true}) }
	lit.Name = str()
	add(doc, "überName", sn(lit.Name))
	if r.Bool() {
		lit.Addr = str()
		add(doc, "Ärzte_addr", sn(lit.Addr))
	}
	lit.Port = r.Range(0, 9999)
	add(doc, "ΠΌΡΤΑ", in(lit.Port))
	tags := &node{k: nArr, arr: []*node{}}
	for i := r.Range(1, 3); i > 0; i-- {
		s := str()
		lit.Tags = append(lit.Tags, s)
		tags.arr = append(tags.arr, sn(s))
	}
	add(doc, "жуки", tags)
	lit.Meta = map[string]string{}
	meta := &node{k: nMap, ents: []ent{}}
	for _, i := range r.Perm(len(uxDataKeys))[:r.Range(1, 4)] {
		k, s := uxDataKeys[i], str()
		lit.Meta[k] = s
		meta.ents = append(meta.ents, ent{key: k, v: sn(s)})
	}
	add(doc, "Ｍｅｔａ", meta)
	sub := &node{k: nMap, ents: []ent{}}
	lit.Sub.Path = str()
	add(sub, "Ճանապարհ", sn(lit.Sub.Path))
	if r.Bool() {
		lit.Sub.Retries = r.Range(1, 9)
		add(sub, "retries2", in(lit.Sub.Retries))
	}
	add(doc, "Ωmega", sub)
	town := func() (*UxTown, *node) {
		t := &UxTown{Name: str()}
		n := &node{k: nMap, ents: []ent{}}
		add(n, "név", sn(t.Name))
		if r.Bool() {
			t.Pop = r.Range(1, 100000)
			add(n, "Népesség", in(t.Pop))
		}
		return t, n
	}
	lit.Towns = map[string]*UxTown{}
	towns := &node{k: nMap, ents: []ent{}}
	for _, i := range r.Perm(len(uxDataKeys))[:r.Range(1, 3)] {
		t, n := town()
		lit.Towns[uxDataKeys[i]] = t
		towns.ents = append(towns.ents, ent{key: uxDataKeys[i], v: n})
	}
	add(doc, "Städte", towns)
	docs := &node{k: nArr, arr: []*node{}}
	for i := r.Range(1, 3); i > 0; i-- {
		t, n := town()
		lit.Docs = append(lit.Docs, *t)
		docs.arr = append(docs.arr, n)
	}
	add(doc, "ÉQUIPE", docs)
	lit.Öde = r.Bool()
	add(doc, "Öde", &node{k: nBool, b: lit.Öde})
	if r.Bool() {
		lit.Ära = r.Range(1, 3000)
		add(doc, "Ära", in(lit.Ära))
	}
	// the order of the keys is not significant
	perm := r.Perm(len(doc.ents))
	shuffled := make([]ent, len(doc.ents))
	for i, j := range perm {
		shuffled[i] = doc.ents[j]
	}
	doc.ents = shuffled

	// expected values: the text as written / with every ${VAR} replaced
	exp := lit
	exp.Name, exp.Addr, exp.Sub.Path = expand(lit.Name, vals), expand(lit.Addr, vals), expand(lit.Sub.Path, vals)
	exp.Tags = nil
	for _, s := range lit.Tags {
		exp.Tags = append(exp.Tags, expand(s, vals))
	}
	exp.Meta = map[string]string{}
	for k, v := range lit.Meta {
		exp.Meta[k] = expand(v, vals)
	}
	exp.Towns = map[string]*UxTown{}
	for k, v := range lit.Towns {
		t := *v
		t.Name = expand(t.Name, vals)
		exp.Towns[k] = &t
	}
	exp.Docs = nil
	for _, v := range lit.Docs {
		v.Name = expand(v.Name, vals)
		exp.Docs = append(exp.Docs, v)
	}
	placeholders := !reflect.DeepEqual(exp, lit)

	// the harness's own expectation is cross-checked with encoding/json on the exact-key document
	var ref UxConf
	if err := json.Unmarshal([]byte(renderJSON(doc, nil)), &ref); err != nil || !uxEq(ref, lit) {
		c.Obs("harness_selfcheck_failed", 1)
		c.Inconclusive(fmt.Sprintf("uni-env: encoding/json does not decode the exact-key document to the harness's expectation (err=%v)", err))
		return
	}

	spelling := "exact"
	if r.Chance(0.7) {
		d1 := doc.clone(func(e ent) string {
			if e.perm {
				return permuteCase(r, e.key)
			}
			return e.key
		})
		if na, nc := caseDelta(doc, d1); na > 0 {
			spelling = "recased"
			c.Obs("unienv_documents_with_recased_nonascii_keys", 1)
			if nc > 0 {
				c.Obs("unienv_documents_with_recased_key_without_ascii_capital", 1)
			}
			// encoding/json takes the re-cased document for the same document
			var ref1 UxConf
			if err := json.Unmarshal([]byte(renderJSON(d1, nil)), &ref1); err != nil || !uxEq(ref1, lit) {
				c.Obs("harness_selfcheck_failed", 1)
				c.Inconclusive(fmt.Sprintf("uni-env: encoding/json does not take the re-cased document for a case variant (err=%v): %s", err, truncate(renderJSON(d1, nil), 600)))
				return
			}
			c.Obs("unienv_recased_documents_confirmed_by_encoding_json", 1)
		}
		doc = d1
	}
	rs := kit.NewRand(r.Uint64())
	tx := renderAll(doc, rs)
	if !selfCheck(c, doc, tx) {
		return
	}
	c.Evals(1)
	rt := reflect.TypeOf(UxConf{})
	// one key per kind of failure: the formats it was seen in are part of the key, the modes
	// (bytes loader, conf.Load, conf.Load with UseEnv) are in the witness
	failFmts := map[string]*[3]bool{}
	failWits := map[string][]map[string]any{}
	for i := range tx {
		ext := kit.Choose(r, fileExts[i])
		file := filepath.Join(scratch, "unienv"+ext)
		if err := os.WriteFile(file, []byte(tx[i]), 0o644); err != nil {
			c.Inconclusive("cannot write scratch file: " + err.Error())
			return
		}
		modes := []struct {
			name string
			want UxConf
			fn   func(v any) error
		}{
			{"bytes", lit, func(v any) error { return loaders[i]([]byte(tx[i]), v) }},
			{"plain", lit, func(v any) error { return conf.Load(file, v) }},
			{"UseEnv", exp, func(v any) error { return conf.Load(file, v, conf.UseEnv()) }},
		}
		for _, m := range modes {
			got := load(rt, m.fn)
			c.Obs("unienv_loads", 1)
			what := ""
			switch {
			case got.panic != "":
				c.Viol(panicKey(got.panic), "go-zero panicked while loading a document with non-ASCII keys",
					map[string]any{"type": typeText(rt), "format": fmtNames[i], "mode": m.name, "document": tx[i], "panic": got.panic})
				continue
			case got.err != nil:
				what = "rejected"
			case !uxEq(got.val.Interface(), m.want):
				what = "value-" + diffClass(reflect.ValueOf(normUx(got.val.Interface().(UxConf))), reflect.ValueOf(normUx(m.want)))
				if m.name == "UseEnv" && placeholders && uxEq(got.val.Interface(), lit) {
					what = "UseEnv-not-expanded"
				} else if m.name != "UseEnv" && placeholders && uxEq(got.val.Interface(), exp) {
					what = "expanded-although-not-requested"
				}
			default:
				c.Obs("unienv_loaded_as_expected", 1)
				if spelling == "recased" {
					c.Obs("unienv_recased_loaded_as_expected", 1)
				}
				if m.name == "UseEnv" && placeholders {
					c.Obs("unienv_expansions_observed", 1)
				}
				if len(lit.Meta)+len(lit.Towns) > 0 {
					c.Obs("unienv_map_data_keys_kept_as_written", int64(len(lit.Meta)+len(lit.Towns)))
				}
				continue
			}
			if failFmts[what] == nil {
				failFmts[what] = &[3]bool{}
			}
			failFmts[what][i] = true
			failWits[what] = append(failWits[what], map[string]any{"format": fmtNames[i], "file": ext, "mode": m.name, "document": tx[i],
				"got": got.describe(), "want": show(reflect.ValueOf(m.want))})
		}
		os.Remove(file)
	}
	for what, fm := range failFmts {
		var fs []string
		for i, b := range fm {
			if b {
				fs = append(fs, fmtNames[i])
			}
		}
		c.Viol("C17/env-nonascii-keys/"+spelling+"-keys-"+what+"/"+strings.Join(fs, "+"),
			"a valid document whose keys contain non-ASCII letters ("+spelling+" spelling of the tags) is not loaded to the expected value",
			map[string]any{"type": typeText(rt), "key_spelling": spelling, "environment": vals, "loads": failWits[what]})
	}
	if c.Index < 2 {
		c.Sample("uni-env", 2, map[string]any{"documents": tx.witness(), "environment": vals, "key_spelling": spelling})
	}
	c.Sig(true, "uni-env", tx[0], vals["C17_A"], vals["C17_B"])
}

// ---------------------------------------------------------------- uni-special: runes without a one-to-one case mapping

// keys containing a rune whose case mapping is not one-to-one; what "the same key in another
// case" means for them is not defined by the statement: nothing is asserted about matching
var specialKeys = []string{"stra\u00dfe", "STRA\u1e9eE", "\u0130stanbul", "\u0131rmak", "IRMAK", "\u017ftop", "\u212aelvin", "kelvin", "\u212bngstrom", "\u00e5ngstrom",
	"\u03bb\u03cc\u03b3\u03bf\u03c2", "\u039b\u038c\u0393\u039f\u03a3", "\u03bb\u03cc\u03b3\u03bf\u03c3", "\u00b5m", "\u03bcm", "\u2126hm", "\u03c9hm", "\u0149x", "\u01f0ot", "\ufb01x", "\u0390ta", "\u01c5em", "i\u0307x", "\u0130"}

// anyCase re-cases every rune independently, whatever its mapping looks like.
func anyCase(r *kit.Rand, s string) string {
	rs := []rune(s)
	for i, c := range rs {
		switch r.Pick(3, 3, 3, 1) {
		case 0:
			rs[i] = unicode.ToUpper(c)
		case 1:
			rs[i] = unicode.ToLower(c)
		case 2:
		default:
			rs[i] = unicode.ToTitle(c)
		}
	}
	out := string(rs)
	if r.Chance(0.15) {
		out = strings.ToUpper(s)
	} else if r.Chance(0.15) {
		out = strings.ToLower(s)
	}
	if !utf8.ValidString(out) || out == "" {
		return s
	}
	return out
}

func runSpecial(c *kit.Case) {
	r := c.R
	// a plain-tag struct: special keys and ordinary ones, scalars, a nested struct, a map, a slice of structs
	leafs := []reflect.Type{reflect.TypeOf(""), reflect.TypeOf(0), reflect.TypeOf(false), reflect.TypeOf(1.5)}
	var mk func(depth int) reflect.Type
	mk = func(depth int) reflect.Type {
		n := r.Range(1, 4)
		used := map[string]bool{}
		var fs []reflect.StructField
		for i := 0; i < n; i++ {
			var key string
			for tries := 0; ; tries++ {
				key = kit.Choose(r, specialKeys)
				if r.Chance(0.25) {
					key = kit.Choose(r, taggedKeys)
				}
				// no two keys of a struct in one fold orbit, neither by strings.ToLower nor by SimpleFold
				if fk := foldKey(key); !used[fk] && !used[strings.ToLower(key)] {
					used[fk], used[strings.ToLower(key)] = true, true
					break
				}
				if tries > 30 {
					key = fmt.Sprintf("zz%d_%d", depth, i)
					used[key] = true
					break
				}
			}
			var ft reflect.Type
			switch {
			case depth > 0 && r.Chance(0.25):
				ft = mk(depth - 1)
			case depth > 0 && r.Chance(0.15):
				ft = reflect.SliceOf(mk(depth - 1))
			case r.Chance(0.15):
				ft = reflect.MapOf(reflect.TypeOf(""), kit.Choose(r, leafs))
			default:
				ft = kit.Choose(r, leafs)
			}
			tag := key
			if r.Chance(0.3) {
				tag += ",optional"
			}
			fs = append(fs, reflect.StructField{Name: fmt.Sprintf("S%d_%d", depth, i), Type: ft, Tag: reflect.StructTag(`json:"` + tag + `"`)})
		}
		return reflect.StructOf(fs)
	}
	td := descOf(mk(r.Range(0, 2)))
	for k := 0; k < 6; k++ {
		g := &dgen{r: r, uni: true}
		d0 := g.value(td, 0)
		if d0.has(nBigUint) {
			continue
		}
		d := d0
		variant := k > 0
		if variant {
			d = d0.clone(func(e ent) string {
				if e.perm && r.Chance(0.7) {
					return anyCase(r, e.key)
				}
				return e.key
			})
			// two keys of one table must stay different keys (TOML and YAML reject duplicates, JSON does not)
			if d.hasDuplicateKeys() {
				c.Obs("special_variant_with_duplicate_keys_skipped", 1)
				continue
			}
		}
		rs := kit.NewRand(r.Uint64())
		tx := renderAll(d, rs)
		if !selfCheck(c, d, tx) {
			continue
		}
		c.Evals(1)
		res, comparable, dis := threeWay(c, td.rt, "special-runes", tx, false)
		c.Obs("special_rune_documents_compared", 1)
		if dis != nil {
			dis.wit["label"] = "keys with runes without a one-to-one case mapping"
			c.Viol("C17/"+dis.kind+"/special-case-runes-in-keys/"+dis.pattern, dis.what, dis.wit)
		}
		if comparable {
			c.Obs("special_rune_formats_agree", 1)
			switch {
			case !variant && res[0].ok():
				c.Obs("special_rune_exact_keys_accepted", 1)
			case !variant:
				c.Obs("special_rune_exact_keys_rejected", 1)
			case res[0].ok():
				c.Obs("special_rune_case_variant_accepted", 1)
			default:
				c.Obs("special_rune_case_variant_rejected", 1)
			}
		}
		if c.Index < 2 && k == 1 {
			c.Sample("uni-special", 2, map[string]any{"type": typeText(td.rt), "documents": tx.witness(), "accepted": res[0].ok()})
		}
		c.Sig(true, "uni-special", typeText(td.rt), tx[0])
	}
}

// foldKey: the smallest member of every rune's SimpleFold orbit (what encoding/json compares).
func foldKey(s string) string {
	rs := []rune(s)
	for i, r := range rs {
		m := r
		for f := unicode.SimpleFold(r); f != r; f = unicode.SimpleFold(f) {
			if f < m {
				m = f
			}
		}
		rs[i] = m
	}
	return string(rs)
}

// hasDuplicateKeys: two keys of one table are equal, or become equal when lower-cased or folded
// (go-zero lower-cases the keys of a table into a Go map: which of two such keys wins is decided
// by the iteration order, and TOML / YAML reject equal keys outright while JSON does not).
func (n *node) hasDuplicateKeys() bool {
	seen := map[string]bool{}
	for _, e := range n.ents {
		for _, k := range []string{"=" + e.key, "l" + strings.ToLower(e.key), "f" + foldKey(e.key)} {
			if seen[k] {
				return true
			}
		}
		seen["="+e.key], seen["l"+strings.ToLower(e.key)], seen["f"+foldKey(e.key)] = true, true, true
		if e.v.hasDuplicateKeys() {
			return true
		}
	}
	for _, x := range n.arr {
		if x.hasDuplicateKeys() {
			return true
		}
	}
	return false
}
