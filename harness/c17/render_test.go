package c17

// render_test.go: the harness's OWN renderers of a document value to JSON, YAML
// and TOML (DESIGN §7.1: library marshalers would turn 1.0 into 1 in two of the
// formats and hide verdict differences). A number has the same spelling in all
// three formats; floats always carry a decimal point. Layout choices (block/flow
// YAML, TOML sections / inline tables / dotted keys / arrays of tables, quoting
// style) are randomised. selfCheck parses the YAML and TOML renderings back with
// the libraries and compares with the document, so that a renderer bug cannot be
// mistaken for a go-zero defect.

import (
	"bytes"
	"fmt"
	"math"
	"regexp"
	"strconv"
	"strings"
	"unicode"
	"unicode/utf8"

	toml "github.com/pelletier/go-toml/v2"
	yaml "gopkg.in/yaml.v2"

	"verifharness/kit"
)

func floatText(f float64, exp bool) string {
	if exp {
		s := strconv.FormatFloat(f, 'e', -1, 64)
		if i := strings.IndexByte(s, 'e'); i >= 0 && !strings.Contains(s[:i], ".") {
			s = s[:i] + ".0" + s[i:]
		}
		return s
	}
	s := strconv.FormatFloat(f, 'f', -1, 64)
	if !strings.Contains(s, ".") {
		s += ".0"
	}
	return s
}

// numText spells a number for format f (0 JSON, 1 YAML, 2 TOML).
func (n *node) numText(f int) string {
	if n.sp != nil && n.sp[f] != "" {
		return n.sp[f]
	}
	switch n.k {
	case nInt:
		return strconv.FormatInt(n.i, 10)
	case nBigUint:
		return strconv.FormatUint(n.u, 10)
	case nFloat:
		return floatText(n.f, n.fexp)
	case nRawNum:
		return n.s
	}
	panic("c17: not a number")
}

// quoted renders a string with the escapes common to JSON strings, YAML
// double-quoted scalars and TOML basic strings.
func quoted(s string) string {
	var b strings.Builder
	b.WriteByte('"')
	for _, c := range s {
		switch {
		case c == '"':
			b.WriteString(`\"`)
		case c == '\\':
			b.WriteString(`\\`)
		case c == '\n':
			b.WriteString(`\n`)
		case c == '\t':
			b.WriteString(`\t`)
		case c >= 0x20 && c <= 0x7e:
			b.WriteRune(c)
		case c > 0xa0 && c != utf8.RuneError && (unicode.IsLetter(c) || c > 0xffff):
			b.WriteRune(c)
		default:
			fmt.Fprintf(&b, `\u%04x`, c)
		}
	}
	b.WriteByte('"')
	return b.String()
}

// ---------------------------------------------------------------- JSON

func renderJSON(n *node, rs *kit.Rand) string {
	var b strings.Builder
	jsonVal(&b, n, rs)
	return b.String()
}

func jsonVal(b *strings.Builder, n *node, rs *kit.Rand) {
	sp := ""
	if rs != nil && rs.Chance(0.3) {
		sp = " "
	}
	switch n.k {
	case nNull:
		b.WriteString("null")
	case nBool:
		b.WriteString(strconv.FormatBool(n.b))
	case nInt, nBigUint, nFloat, nRawNum:
		b.WriteString(n.numText(0))
	case nStr:
		b.WriteString(quoted(n.s))
	case nArr:
		b.WriteString("[" + sp)
		for i, x := range n.arr {
			if i > 0 {
				b.WriteString("," + sp)
			}
			jsonVal(b, x, rs)
		}
		b.WriteString(sp + "]")
	case nMap:
		b.WriteString("{" + sp)
		for i, e := range n.ents {
			if i > 0 {
				b.WriteString("," + sp)
			}
			b.WriteString(quotedKey(e.key, rs) + ":" + sp)
			jsonVal(b, e.v, rs)
		}
		b.WriteString(sp + "}")
	}
}

// ---------------------------------------------------------------- YAML

var (
	identRe      = regexp.MustCompile(`^[A-Za-z_][A-Za-z0-9_]*$`)
	yamlReserved = map[string]bool{"y": true, "n": true, "yes": true, "no": true, "on": true, "off": true, "true": true, "false": true, "null": true}
)

func yamlPlainSafe(s string) bool {
	return identRe.MatchString(s) && !yamlReserved[strings.ToLower(s)]
}

type yamlR struct{ rs *kit.Rand }

func (y yamlR) str(s string, key bool) string {
	if key && !isASCII(s) {
		// a key with non-ASCII letters: plain (as people write it) if it is made of letters, digits
		// and '_' only, else quoted, now and then with \u escapes
		if uniIdent(s) && y.rs.Chance(0.5) {
			kit.Obs("nonascii_keys_rendered_plain_in_yaml", 1)
			return s
		}
		if y.rs.Chance(0.2) && !strings.ContainsAny(s, "\n\t\\") && isPlainPrintable(s) {
			return "'" + strings.ReplaceAll(s, "'", "''") + "'"
		}
		return quotedKey(s, y.rs)
	}
	if yamlPlainSafe(s) && (key && y.rs.Chance(0.8) || !key && y.rs.Chance(0.3)) {
		return s
	}
	if y.rs.Chance(0.2) && !strings.ContainsAny(s, "\n\t\\") && isPlainPrintable(s) {
		return "'" + strings.ReplaceAll(s, "'", "''") + "'"
	}
	return quoted(s)
}

func isPlainPrintable(s string) bool {
	for _, c := range s {
		if c < 0x20 || c == 0x7f || (c > 0x7e && !(c > 0xa0 && unicode.IsLetter(c))) {
			return false
		}
	}
	return true
}

func (y yamlR) scalar(n *node) string {
	switch n.k {
	case nNull:
		return kit.Choose(y.rs, []string{"null", "~", "Null"})
	case nBool:
		return strconv.FormatBool(n.b)
	case nInt, nBigUint, nFloat, nRawNum:
		return n.numText(1)
	case nStr:
		return y.str(n.s, false)
	}
	panic("c17: not a scalar")
}

func isScalar(n *node) bool { return n.k != nArr && n.k != nMap }

func (y yamlR) flow(n *node) string {
	switch n.k {
	case nArr:
		parts := make([]string, len(n.arr))
		for i, x := range n.arr {
			parts[i] = y.flow(x)
		}
		return "[" + strings.Join(parts, ", ") + "]"
	case nMap:
		parts := make([]string, len(n.ents))
		for i, e := range n.ents {
			parts[i] = y.str(e.key, true) + ": " + y.flow(e.v)
		}
		return "{" + strings.Join(parts, ", ") + "}"
	}
	return y.scalar(n)
}

func (y yamlR) useFlow(n *node) bool {
	if n.k == nArr && len(n.arr) == 0 || n.k == nMap && len(n.ents) == 0 {
		return true
	}
	return y.rs.Chance(0.2)
}

func pad(n int) string { return strings.Repeat(" ", n) }

// block renders a non-scalar node as block lines at the given indentation.
func (y yamlR) block(n *node, indent int) []string {
	var lines []string
	switch n.k {
	case nMap:
		for _, e := range n.ents {
			k := pad(indent) + y.str(e.key, true) + ":"
			if isScalar(e.v) {
				lines = append(lines, k+" "+y.scalar(e.v))
			} else if y.useFlow(e.v) {
				lines = append(lines, k+" "+y.flow(e.v))
			} else {
				lines = append(lines, k)
				lines = append(lines, y.block(e.v, indent+2)...)
			}
		}
	case nArr:
		for _, x := range n.arr {
			if isScalar(x) {
				lines = append(lines, pad(indent)+"- "+y.scalar(x))
			} else if y.useFlow(x) {
				lines = append(lines, pad(indent)+"- "+y.flow(x))
			} else {
				sub := y.block(x, indent+2)
				if y.rs.Chance(0.7) {
					// compact form: the first child line shares the line of the dash
					sub[0] = pad(indent) + "- " + sub[0][indent+2:]
				} else {
					lines = append(lines, pad(indent)+"-")
				}
				lines = append(lines, sub...)
			}
		}
	}
	return lines
}

func renderYAML(n *node, rs *kit.Rand) string {
	y := yamlR{rs}
	var out string
	if rs.Chance(0.2) {
		out = "# generated by the C17 harness\n"
	}
	if rs.Chance(0.2) {
		out += "---\n"
	}
	if len(n.ents) == 0 || rs.Chance(0.05) {
		return out + y.flow(n) + "\n"
	}
	return out + strings.Join(y.block(n, 0), "\n") + "\n"
}

// ---------------------------------------------------------------- TOML

var tomlBareRe = regexp.MustCompile(`^[A-Za-z0-9_-]+$`)

type tomlR struct {
	rs *kit.Rand
	b  strings.Builder
}

func (t *tomlR) key(s string) string {
	if tomlBareRe.MatchString(s) && t.rs.Chance(0.85) {
		return s
	}
	if t.rs.Chance(0.2) && !strings.ContainsAny(s, "'\n\t") && isPlainPrintable(s) {
		return "'" + s + "'"
	}
	// (bare keys are ASCII only in TOML: a key with non-ASCII letters is always quoted)
	return quotedKey(s, t.rs)
}

func (t *tomlR) str(s string) string {
	if t.rs.Chance(0.2) && !strings.ContainsAny(s, "'\n\t") && isPlainPrintable(s) {
		return "'" + s + "'"
	}
	return quoted(s)
}

func (t *tomlR) inline(n *node) string {
	switch n.k {
	case nBool:
		return strconv.FormatBool(n.b)
	case nInt, nFloat, nRawNum:
		return n.numText(2)
	case nStr:
		return t.str(n.s)
	case nArr:
		parts := make([]string, len(n.arr))
		for i, x := range n.arr {
			parts[i] = t.inline(x)
		}
		return "[" + strings.Join(parts, ", ") + "]"
	case nMap:
		parts := make([]string, len(n.ents))
		for i, e := range n.ents {
			parts[i] = t.key(e.key) + " = " + t.inline(e.v)
		}
		if len(parts) == 0 {
			return "{}"
		}
		return "{ " + strings.Join(parts, ", ") + " }"
	}
	panic("c17: value not representable in TOML: " + n.k.String())
}

func allMaps(n *node) bool {
	if n.k != nArr || len(n.arr) == 0 {
		return false
	}
	for _, x := range n.arr {
		if x.k != nMap {
			return false
		}
	}
	return true
}

func (t *tomlR) dotted(prefix string, n *node) {
	for _, e := range n.ents {
		p := prefix + "." + t.key(e.key)
		if e.v.k == nMap && len(e.v.ents) > 0 && t.rs.Chance(0.5) {
			t.dotted(p, e.v)
		} else {
			t.b.WriteString(p + " = " + t.inline(e.v) + "\n")
		}
	}
}

func (t *tomlR) table(path string, n *node) {
	type later struct {
		hdr string
		n   *node
		aot bool
	}
	var subs []later
	for _, e := range n.ents {
		k := t.key(e.key)
		full := k
		if path != "" {
			full = path + "." + k
		}
		switch {
		case e.v.k == nMap:
			switch t.rs.Pick(55, 25, 20) {
			case 0:
				subs = append(subs, later{full, e.v, false})
			case 1:
				t.b.WriteString(k + " = " + t.inline(e.v) + "\n")
			default:
				if len(e.v.ents) == 0 {
					t.b.WriteString(k + " = {}\n")
				} else {
					t.dotted(k, e.v)
				}
			}
		case allMaps(e.v) && t.rs.Chance(0.6):
			subs = append(subs, later{full, e.v, true})
		default:
			t.b.WriteString(k + " = " + t.inline(e.v) + "\n")
		}
	}
	for _, s := range subs {
		if s.aot {
			for _, x := range s.n.arr {
				t.b.WriteString("\n[[" + s.hdr + "]]\n")
				t.table(s.hdr, x)
			}
		} else {
			t.b.WriteString("\n[" + s.hdr + "]\n")
			t.table(s.hdr, s.n)
		}
	}
}

func renderTOML(n *node, rs *kit.Rand) string {
	t := &tomlR{rs: rs}
	if rs.Chance(0.2) {
		t.b.WriteString("# generated by the C17 harness\n")
	}
	t.table("", n)
	return t.b.String()
}

// ---------------------------------------------------------------- self-check

// sameAsParsed compares a library-parsed tree with the document value.
func sameAsParsed(v any, n *node) bool {
	switch n.k {
	case nNull:
		return v == nil
	case nBool:
		b, ok := v.(bool)
		return ok && b == n.b
	case nInt:
		switch x := v.(type) {
		case int:
			return int64(x) == n.i
		case int64:
			return x == n.i
		case uint64:
			return n.i >= 0 && x == uint64(n.i)
		}
		return false
	case nBigUint:
		x, ok := v.(uint64)
		return ok && x == n.u
	case nFloat:
		x, ok := v.(float64)
		return ok && math.Float64bits(x) == math.Float64bits(n.f)
	case nStr:
		x, ok := v.(string)
		return ok && x == n.s
	case nArr:
		x, ok := v.([]any)
		if !ok || len(x) != len(n.arr) {
			return false
		}
		for i := range x {
			if !sameAsParsed(x[i], n.arr[i]) {
				return false
			}
		}
		return true
	case nMap:
		switch x := v.(type) {
		case map[string]any:
			if len(x) != len(n.ents) {
				return false
			}
			for _, e := range n.ents {
				c, ok := x[e.key]
				if !ok || !sameAsParsed(c, e.v) {
					return false
				}
			}
			return true
		case map[any]any:
			if len(x) != len(n.ents) {
				return false
			}
			for _, e := range n.ents {
				c, ok := x[e.key]
				if !ok || !sameAsParsed(c, e.v) {
					return false
				}
			}
			return true
		}
		return false
	}
	return false
}

func selfCheckYAML(text string, n *node) error {
	var v any
	if err := yaml.Unmarshal([]byte(text), &v); err != nil {
		return fmt.Errorf("yaml rendering does not parse: %v", err)
	}
	if !sameAsParsed(v, n) {
		return fmt.Errorf("yaml rendering parses to a different value: %#v", v)
	}
	return nil
}

func selfCheckTOML(text string, n *node) error {
	var v any
	if err := toml.NewDecoder(bytes.NewReader([]byte(text))).Decode(&v); err != nil {
		return fmt.Errorf("toml rendering does not parse: %v", err)
	}
	if v == nil && len(n.ents) == 0 {
		return nil
	}
	if !sameAsParsed(v, n) {
		return fmt.Errorf("toml rendering parses to a different value: %#v", v)
	}
	return nil
}
