// Package c17: configuration loading is format-independent and agrees with
// encoding/json (DESIGN.md §4 C17).
//
// types_test.go: the configuration-type family. Types are real Go types: random
// ones are built with reflect.StructOf (tags included), a fixed hand-written
// family adds embedded structs (StructOf cannot build those). A descriptor tree
// (tdesc) is derived from the reflect.Type by the harness's own reading of the
// json tag (name, optional, default=, options=, range=), so that the document
// generator knows what a well-typed document for the type looks like.
package c17

import (
	"fmt"
	"reflect"
	"strings"
	"time"

	"verifharness/kit"
)

type tkind int

const (
	tBool tkind = iota
	tInt
	tUint
	tFloat
	tString
	tDuration
	tStruct
	tSlice
	tMap
	tPtr
)

func (k tkind) String() string {
	return [...]string{"bool", "int", "uint", "float", "string", "duration", "struct", "slice", "map", "ptr"}[k]
}

type tdesc struct {
	k      tkind
	bits   int
	elem   *tdesc
	fields []*fdesc
	rt     reflect.Type
	uni    bool // some struct-field key at this level or below contains a non-ASCII letter
}

type fdesc struct {
	goName   string
	key      string // the document key (name part of the tag, else the Go field name)
	optional bool
	def      string
	options  []string
	embedded bool
	t        *tdesc
}

var durationType = reflect.TypeOf(time.Duration(0))

// deref follows pointer descriptors.
func (t *tdesc) deref() *tdesc {
	for t.k == tPtr {
		t = t.elem
	}
	return t
}

func descOf(rt reflect.Type) *tdesc {
	d := &tdesc{rt: rt}
	switch rt.Kind() {
	case reflect.Bool:
		d.k = tBool
	case reflect.Int, reflect.Int8, reflect.Int16, reflect.Int32, reflect.Int64:
		d.k, d.bits = tInt, rt.Bits()
		if rt == durationType {
			d.k = tDuration
		}
	case reflect.Uint, reflect.Uint8, reflect.Uint16, reflect.Uint32, reflect.Uint64:
		d.k, d.bits = tUint, rt.Bits()
	case reflect.Float32, reflect.Float64:
		d.k, d.bits = tFloat, rt.Bits()
	case reflect.String:
		d.k = tString
	case reflect.Slice:
		d.k, d.elem = tSlice, descOf(rt.Elem())
		d.uni = d.elem.uni
	case reflect.Map:
		d.k, d.elem = tMap, descOf(rt.Elem())
		d.uni = d.elem.uni
	case reflect.Ptr:
		d.k, d.elem = tPtr, descOf(rt.Elem())
		d.uni = d.elem.uni
	case reflect.Struct:
		d.k = tStruct
		for i := 0; i < rt.NumField(); i++ {
			sf := rt.Field(i)
			f := &fdesc{goName: sf.Name, key: sf.Name, embedded: sf.Anonymous, t: descOf(sf.Type)}
			if tag, ok := sf.Tag.Lookup("json"); ok {
				segs := strings.Split(tag, ",")
				if n := strings.TrimSpace(segs[0]); n != "" {
					f.key = n
				}
				for _, s := range segs[1:] {
					s = strings.TrimSpace(s)
					switch {
					case s == "optional":
						f.optional = true
					case strings.HasPrefix(s, "default="):
						f.def = strings.TrimPrefix(s, "default=")
					case strings.HasPrefix(s, "options="):
						f.options = strings.Split(strings.TrimPrefix(s, "options="), "|")
					}
				}
			}
			d.fields = append(d.fields, f)
			if f.t.uni || !(f.embedded && f.t.deref().k == tStruct) && !isASCII(f.key) {
				d.uni = true
			}
		}
	default:
		panic("c17: unsupported kind in type family: " + rt.String())
	}
	return d
}

// flatFields lists the fields a document addresses at this struct level:
// embedded structs are flattened (go-zero does so whatever their tag says).
func (t *tdesc) flatFields() []*fdesc {
	var out []*fdesc
	for _, f := range t.fields {
		if f.embedded && f.t.deref().k == tStruct {
			out = append(out, f.t.deref().flatFields()...)
		} else {
			out = append(out, f)
		}
	}
	return out
}

// shape summarises what the type is built from (for signatures / the non-trivial rule).
type shape struct {
	nested, slices, maps, ptrs, embedded, opts int
}

func (t *tdesc) shape(s *shape, depth int) {
	switch t.k {
	case tStruct:
		if depth > 0 {
			s.nested++
		}
		for _, f := range t.fields {
			if f.embedded {
				s.embedded++
			}
			if f.optional || f.def != "" || len(f.options) > 0 {
				s.opts++
			}
			f.t.shape(s, depth+1)
		}
	case tSlice:
		s.slices++
		t.elem.shape(s, depth+1)
	case tMap:
		s.maps++
		t.elem.shape(s, depth+1)
	case tPtr:
		s.ptrs++
		t.elem.shape(s, depth+1)
	}
}

// ---------------------------------------------------------------- random types (reflect.StructOf)

type tgen struct {
	r     *kit.Rand
	plain bool // only `json:"name"` tags (or none), no durations: the encoding/json comparison family
	seq   int
	// dotted: half of the tag names contain dots (mapping.WithOpaqueKeys family): without that
	// option a dotted tag name addresses a nested key
	dotted bool
	// uni: the probability that a key name contains non-ASCII letters (unikeys_test.go); 0 draws
	// nothing from the random stream
	uni float64
}

var dottedKeys = []string{"srv.name", "srv.port", "a.b", "x.y.z", "db.host", "db.pool.size", "Log.Level"}

var (
	taggedKeys   = []string{"name", "host", "port", "userName", "MAX_conns", "a", "B", "timeOut", "x1", "data", "list", "m", "cfg", "ID", "enabled", "ratio", "Level", "k1"}
	untaggedKeys = []string{"Name", "UserName", "ID", "MaxConns", "A", "Items", "Verbose", "Weight", "Sub", "Opt"}
)

var leafTypes = []reflect.Type{
	reflect.TypeOf(false),
	reflect.TypeOf(int(0)), reflect.TypeOf(int8(0)), reflect.TypeOf(int16(0)), reflect.TypeOf(int32(0)), reflect.TypeOf(int64(0)),
	reflect.TypeOf(uint(0)), reflect.TypeOf(uint8(0)), reflect.TypeOf(uint16(0)), reflect.TypeOf(uint32(0)), reflect.TypeOf(uint64(0)),
	reflect.TypeOf(float32(0)), reflect.TypeOf(float64(0)),
	reflect.TypeOf(""),
}

func (g *tgen) leaf() reflect.Type {
	switch g.r.Pick(14, 22, 8, 18, 30, 8) {
	case 0:
		return leafTypes[0]
	case 1:
		return leafTypes[1+g.r.Intn(5)]
	case 2:
		return leafTypes[6+g.r.Intn(5)]
	case 3:
		return leafTypes[11+g.r.Intn(2)]
	case 4:
		return leafTypes[13]
	default:
		if g.plain {
			return leafTypes[1]
		}
		return durationType
	}
}

func (g *tgen) typ(depth int) reflect.Type {
	if depth <= 0 {
		return g.leaf()
	}
	switch g.r.Pick(45, 20, 15, 12, 8) {
	case 0:
		return g.leaf()
	case 1:
		return g.structT(depth-1, 1)
	case 2:
		return reflect.SliceOf(g.typ(depth - 1))
	case 3:
		return reflect.MapOf(reflect.TypeOf(""), g.typ(depth-1))
	default:
		e := g.typ(depth - 1)
		for e.Kind() == reflect.Ptr {
			e = e.Elem()
		}
		// pointers to scalars and structs (pointer-to-slice/map is outside the statement's family)
		if e.Kind() == reflect.Slice || e.Kind() == reflect.Map {
			e = g.leaf()
		}
		p := reflect.PointerTo(e)
		if g.r.Chance(0.1) {
			p = reflect.PointerTo(p)
		}
		return p
	}
}

func defaultFor(rt reflect.Type) string {
	switch {
	case rt == durationType:
		return "1s"
	case rt.Kind() == reflect.Bool:
		return "true"
	case rt.Kind() == reflect.String:
		return "dflt"
	case rt.Kind() == reflect.Float32 || rt.Kind() == reflect.Float64:
		return "1.5"
	default:
		return "5"
	}
}

func isScalarKind(k reflect.Kind) bool {
	switch k {
	case reflect.Slice, reflect.Map, reflect.Struct, reflect.Ptr:
		return false
	}
	return true
}

func (g *tgen) structT(depth, minFields int) reflect.Type {
	n := g.r.Range(minFields, 5)
	if g.r.Chance(0.03) && !g.plain {
		// (an empty struct is built from none of the statement's constituents: not in the plain family)
		n = 0
	}
	used := map[string]bool{}
	var fs []reflect.StructField
	for i := 0; i < n; i++ {
		ft := g.typ(depth)
		var sf reflect.StructField
		sf.Type = ft
		untagged := g.r.Chance(0.15)
		var key string
		for tries := 0; ; tries++ {
			if g.uni > 0 && g.r.Chance(g.uni) {
				key = uniKey(g.r, untagged)
			} else if untagged {
				key = kit.Choose(g.r, untaggedKeys)
			} else if g.dotted && g.r.Bool() {
				key = kit.Choose(g.r, dottedKeys)
			} else {
				key = kit.Choose(g.r, taggedKeys)
			}
			if tries > 20 {
				g.seq++
				key = fmt.Sprintf("Zz%d", g.seq)
			}
			if !used[strings.ToLower(key)] {
				break
			}
		}
		used[strings.ToLower(key)] = true
		if untagged {
			sf.Name = key
		} else {
			g.seq++
			sf.Name = fmt.Sprintf("F%d", g.seq)
			tag := key
			if !g.plain {
				if g.r.Chance(0.25) {
					tag += ",optional"
				} else if ft.Kind() != reflect.Ptr && isScalarKind(ft.Kind()) && g.r.Chance(0.15) {
					tag += ",default=" + defaultFor(ft)
				} else if ft.Kind() == reflect.String && g.r.Chance(0.1) {
					tag += ",options=red|green|blue"
				} else if (ft.Kind() == reflect.Int || ft.Kind() == reflect.Int64) && g.r.Chance(0.1) {
					tag += ",range=[-1000:1000]"
				}
			}
			sf.Tag = reflect.StructTag(`json:"` + tag + `"`)
		}
		fs = append(fs, sf)
	}
	return reflect.StructOf(fs)
}

// ---------------------------------------------------------------- fixed family (embedded structs)

type EmbA struct {
	Host string `json:"host"`
	Port int    `json:"port"`
}

type EmbB struct {
	Alias  string  `json:"alias,optional"`
	Weight float64 `json:"weight,default=1.5"`
}

type EmbC struct {
	Level   int8     `json:"Level"`
	Verbose bool     `json:"verbose,optional"`
	Tags    []string `json:"tags,optional"`
}

type EmbAllOptional struct {
	Note  string `json:"note,optional"`
	Count uint16 `json:"count,optional"`
}

type FixedOne struct {
	EmbA
	Timeout time.Duration `json:"timeOut"`
	Labels  []string      `json:"labels,optional"`
}

type FixedTwo struct {
	*EmbA
	EmbB
	Nested struct {
		EmbC
		Depth int `json:"depth"`
	} `json:"nested"`
	M map[string]EmbB `json:"m"`
}

type FixedThree struct {
	EmbAllOptional `json:",optional"`
	Items          []FixedOne `json:"items"`
	Ratio          float32    `json:"ratio"`
}

type FixedFour struct {
	EmbC
	EmbB
	Inner *struct {
		EmbA
		Extra map[string][]int `json:"extra,optional"`
	} `json:"inner"`
	UserName string
}

type FixedFive struct {
	FixedOne
	ByName map[string]*FixedOne `json:"byName,optional"`
	Limits []struct {
		EmbAllOptional
		Max uint32 `json:"MAX"`
	} `json:"limits"`
}

type FixedSix struct {
	*EmbC `json:",optional"`
	ID    int64    `json:"ID"`
	Rate  *float64 `json:"rate"`
	Deep  struct {
		Deeper struct {
			EmbA
			On bool `json:"on"`
		} `json:"Deeper"`
	} `json:"deep"`
}

var fixedFamily = []reflect.Type{
	reflect.TypeOf(FixedOne{}), reflect.TypeOf(FixedTwo{}), reflect.TypeOf(FixedThree{}),
	reflect.TypeOf(FixedFour{}), reflect.TypeOf(FixedFive{}), reflect.TypeOf(FixedSix{}),
}

// typeText renders a type for witnesses (reflect prints StructOf types with their tags;
// named types of the fixed family are expanded one level by hand).
func typeText(rt reflect.Type) string {
	if rt.Kind() == reflect.Struct && rt.Name() != "" {
		var b strings.Builder
		b.WriteString(rt.Name() + " struct {")
		for i := 0; i < rt.NumField(); i++ {
			f := rt.Field(i)
			if f.Anonymous {
				fmt.Fprintf(&b, " %s", f.Type)
			} else {
				fmt.Fprintf(&b, " %s %s", f.Name, f.Type)
			}
			if f.Tag != "" {
				fmt.Fprintf(&b, " %q", string(f.Tag))
			}
			b.WriteString(";")
		}
		b.WriteString(" }")
		return b.String()
	}
	return rt.String()
}
