package c17

// mapopts_test.go: the format-specific entry points of core/mapping, bytes and reader variants,
// with every UnmarshalOption.
//
// conf.LoadFrom*Bytes never pass options to the TOML/YAML entry points of core/mapping, so the
// other families reach mapping.Unmarshal{Json,Yaml,Toml}{Bytes,Reader} only without options. The
// statement's first clause does not depend on the entry point: the same document rendered as
// JSON, YAML or TOML, loaded into the same type with the same options, yields the same verdict and
// deeply equal values. What an option means is not judged here (the statement is silent); the
// documents are shaped so that the option matters (lower-case keys for a lower-casing canonical
// key function, numbers as strings for WithStringValues, one-element lists for WithFromArray,
// dotted tag names for WithOpaqueKeys), and an observation counter records how often the option
// changed the JSON result - an option that is silently dropped in one format then shows as a
// verdict or value difference.

import (
	"bytes"
	"io"
	"reflect"
	"strconv"
	"strings"

	"github.com/zeromicro/go-zero/core/mapping"

	"verifharness/kit"
)

type optSet struct {
	name string
	mk   func() []mapping.UnmarshalOption
}

var optSets = []optSet{
	{"none", func() []mapping.UnmarshalOption { return nil }},
	{"canonical-key-lower", func() []mapping.UnmarshalOption {
		return []mapping.UnmarshalOption{mapping.WithCanonicalKeyFunc(strings.ToLower)}
	}},
	{"default", func() []mapping.UnmarshalOption { return []mapping.UnmarshalOption{mapping.WithDefault()} }},
	{"string-values", func() []mapping.UnmarshalOption { return []mapping.UnmarshalOption{mapping.WithStringValues()} }},
	{"from-array", func() []mapping.UnmarshalOption { return []mapping.UnmarshalOption{mapping.WithFromArray()} }},
	{"opaque-keys", func() []mapping.UnmarshalOption { return []mapping.UnmarshalOption{mapping.WithOpaqueKeys()} }},
	{"canonical-key-lower+string-values", func() []mapping.UnmarshalOption {
		return []mapping.UnmarshalOption{mapping.WithCanonicalKeyFunc(strings.ToLower), mapping.WithStringValues()}
	}},
}

type mapEntry struct {
	name   string
	fmt    int
	reader bool
	call   func(text string, v any, opts ...mapping.UnmarshalOption) error
}

// slowReader hands out one byte at a time (a reader need not deliver everything at once).
type slowReader struct{ s string }

func (r *slowReader) Read(p []byte) (int, error) {
	if len(r.s) == 0 {
		return 0, io.EOF
	}
	if len(p) == 0 {
		return 0, nil
	}
	p[0] = r.s[0]
	r.s = r.s[1:]
	return 1, nil
}

func readerFor(s string) io.Reader {
	switch len(s) % 3 {
	case 0:
		return strings.NewReader(s)
	case 1:
		return bytes.NewBufferString(s)
	}
	return &slowReader{s}
}

var mapEntries = []mapEntry{
	{"mapping.UnmarshalJsonBytes", 0, false, func(s string, v any, o ...mapping.UnmarshalOption) error {
		return mapping.UnmarshalJsonBytes([]byte(s), v, o...)
	}},
	{"mapping.UnmarshalYamlBytes", 1, false, func(s string, v any, o ...mapping.UnmarshalOption) error {
		return mapping.UnmarshalYamlBytes([]byte(s), v, o...)
	}},
	{"mapping.UnmarshalTomlBytes", 2, false, func(s string, v any, o ...mapping.UnmarshalOption) error {
		return mapping.UnmarshalTomlBytes([]byte(s), v, o...)
	}},
	{"mapping.UnmarshalJsonReader", 0, true, func(s string, v any, o ...mapping.UnmarshalOption) error {
		return mapping.UnmarshalJsonReader(readerFor(s), v, o...)
	}},
	{"mapping.UnmarshalYamlReader", 1, true, func(s string, v any, o ...mapping.UnmarshalOption) error {
		return mapping.UnmarshalYamlReader(readerFor(s), v, o...)
	}},
	{"mapping.UnmarshalTomlReader", 2, true, func(s string, v any, o ...mapping.UnmarshalOption) error {
		return mapping.UnmarshalTomlReader(readerFor(s), v, o...)
	}},
}

func isScalarT(t *tdesc) bool {
	switch t.deref().k {
	case tStruct, tSlice, tMap:
		return false
	}
	return true
}

// nestDotted rewrites, in every struct node, a key "a.b.c" into nested maps a -> b -> c (the shape
// a dotted tag name addresses without WithOpaqueKeys).
func nestDotted(structs []structSite) {
	for _, ss := range structs {
		var out []ent
		made := map[string]*node{}
		taken := map[string]bool{}
		for _, e := range ss.n.ents {
			if !strings.Contains(e.key, ".") {
				taken[strings.ToLower(e.key)] = true // (keys may be lower-cased later on)
			}
		}
		for _, e := range ss.n.ents {
			parts := strings.Split(e.key, ".")
			if len(parts) == 1 || taken[strings.ToLower(parts[0])] {
				out = append(out, e)
				continue
			}
			path, cur := "", (*node)(nil)
			ok := true
			for i, p := range parts[:len(parts)-1] {
				path += "." + p
				m := made[path]
				if m == nil {
					m = &node{k: nMap, ents: []ent{}}
					made[path] = m
					if i == 0 {
						out = append(out, ent{key: p, v: m, perm: true})
					} else {
						cur.ents = append(cur.ents, ent{key: p, v: m, perm: true})
					}
				}
				cur = m
			}
			last := parts[len(parts)-1]
			for _, x := range cur.ents {
				if x.key == last {
					ok = false
				}
			}
			if ok {
				cur.ents = append(cur.ents, ent{key: last, v: e.v, perm: true})
			}
		}
		ss.n.ents = out
	}
}

func runMapOpts(c *kit.Case) {
	r := c.R
	opt := optSets[c.Index%len(optSets)]
	tg := &tgen{r: r, plain: r.Bool(), dotted: opt.name == "opaque-keys" || r.Chance(0.1)}
	td := descOf(tg.structT(r.Range(0, 2), 1))
	const docsPerType = 4
	for k := 0; k < docsPerType; k++ {
		g := &dgen{r: r}
		d := g.value(td, 0)
		shaped := "as-is"
		// shape the document for the option (before the mismatch goes in: the sites are still valid)
		if strings.Contains(opt.name, "string-values") || r.Chance(0.05) {
			for _, s := range g.sites {
				n := s.get()
				if !isScalarT(s.t) || !r.Chance(0.7) {
					continue
				}
				switch n.k {
				case nInt:
					s.set(&node{k: nStr, s: strconv.FormatInt(n.i, 10)})
				case nFloat:
					s.set(&node{k: nStr, s: floatText(n.f, false)})
				case nBool:
					s.set(&node{k: nStr, s: strconv.FormatBool(n.b)})
				}
			}
			shaped = "scalars-as-strings"
		}
		if opt.name == "from-array" || r.Chance(0.05) {
			for _, s := range g.sites {
				if s.ctx == "field" && isScalarT(s.t) && r.Chance(0.6) {
					w := &node{k: nArr, arr: []*node{s.get()}}
					if r.Chance(0.2) {
						w.arr = append(w.arr, s.get().clone(func(e ent) string { return e.key }))
					}
					s.set(w)
				}
			}
			shaped = "scalars-in-lists"
		}
		label := "well-typed"
		if r.Chance(0.4) {
			label = g.mutate(d, false)
		}
		if d.has(nBigUint) {
			c.Obs("filtered_not_representable_biguint", 1)
			continue
		}
		if tg.dotted && r.Bool() {
			nestDotted(g.structs)
			shaped += "+dotted-keys-nested"
		}
		if strings.Contains(opt.name, "canonical-key-lower") && r.Chance(0.8) {
			d = d.clone(func(e ent) string {
				if e.perm {
					return strings.ToLower(e.key)
				}
				return e.key
			})
			shaped += "+keys-lower-cased"
		}
		rs := kit.NewRand(r.Uint64())
		tx := renderAll(d, rs)
		if !selfCheck(c, d, tx) {
			continue
		}
		c.Evals(1)
		var res [6]outcome
		panicked := false
		for i, e := range mapEntries {
			e := e
			res[i] = load(td.rt, func(v any) error { return e.call(tx[e.fmt], v, opt.mk()...) })
			c.Obs("mapping_option_loads", 1)
			if res[i].panic != "" {
				panicked = true
				c.Viol(panicKey(res[i].panic), "go-zero panicked while loading a document",
					map[string]any{"type": typeText(td.rt), "label": label, "option": opt.name, "entry_points": e.name, "document": tx[e.fmt], "panic": res[i].panic})
			}
		}
		c.Sig(true, "mapopts", opt.name, typeText(td.rt), tx[0])
		if panicked {
			continue
		}
		c.Obs("mapopts_compared_"+opt.name, 1)
		wit := func() map[string]any {
			w := map[string]any{"type": typeText(td.rt), "label": label, "option": opt.name, "document_shape": shaped, "documents": tx.witness()}
			for i, e := range mapEntries {
				w[e.name] = res[i].describe()
			}
			return w
		}
		// the three bytes entry points
		acc := [3]bool{res[0].ok(), res[1].ok(), res[2].ok()}
		// keys: option + the format that is the odd one out (verdict or value: in the witness)
		switch {
		case acc[0] != acc[1] || acc[0] != acc[2]:
			odd := "json"
			switch {
			case acc[0] == acc[1]:
				odd = "toml"
			case acc[0] == acc[2]:
				odd = "yaml"
			}
			w := wit()
			w["difference"] = "verdict: " + pattern(acc)
			c.Viol("C17/mapping-option/"+opt.name+"/"+odd+"-differs",
				"the same document with the same unmarshal options is accepted in one format and rejected in another", w)
		case acc[0]:
			c.Obs("mapopts_all_accept", 1)
			jy := reflect.DeepEqual(res[0].val.Interface(), res[1].val.Interface())
			jt := reflect.DeepEqual(res[0].val.Interface(), res[2].val.Interface())
			if !jy || !jt {
				p := "all"
				switch {
				case jy:
					p = "toml"
				case jt:
					p = "yaml"
				case reflect.DeepEqual(res[1].val.Interface(), res[2].val.Interface()):
					p = "json"
				}
				w := wit()
				w["difference"] = "value"
				c.Viol("C17/mapping-option/"+opt.name+"/"+p+"-differs",
					"the same document with the same unmarshal options loads to different values depending on the format", w)
			}
		default:
			c.Obs("mapopts_all_reject", 1)
		}
		// reader variant == bytes variant
		for f := 0; f < 3; f++ {
			if same, kind := sameOutcome(res[f], res[f+3]); !same {
				c.Viol("C17/mapping-reader-vs-bytes/"+fmtNames[f]+"/"+kind,
					"the reader entry point gives another result than the bytes entry point on the same content and options", wit())
			}
		}
		c.Obs("mapopts_reader_vs_bytes", 3)
		// did the option matter? (JSON result with the option vs without)
		if opt.name != "none" {
			plain := load(td.rt, func(v any) error { return mapEntries[0].call(tx[0], v) })
			if same, _ := sameOutcome(plain, res[0]); !same {
				c.Obs("mapopts_option_changed_result", 1)
				c.Obs("mapopts_option_changed_result_"+opt.name, 1)
			}
		}
		if k == 0 && c.Index < len(optSets) {
			c.Sample("mapopts-"+opt.name, 1, map[string]any{"type": typeText(td.rt), "option": opt.name, "label": label, "documents": tx.witness(), "accepted": res[0].ok()})
		}
	}
}
