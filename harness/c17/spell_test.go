package c17

// spell_test.go: the other legal spellings of a number.
//
// The canonical renderers write a number the same way in all three formats (shortest digits,
// floats always with a decimal point). That hides everything go-zero does with the *text* of a
// number: exponent-only floats (1e3 has no '.'), a leading '+', digit-group underscores, hex /
// octal / binary integers, YAML's `.5` and `1000.`. respell gives the numbers of a document, per
// format, another legal spelling of the same number; the document value does not change (the
// self-check parses every rendering back with the libraries and compares the values), so the
// three-format oracle applies unchanged.
//
// Not respelled: numbers in slots where go-zero exposes the text of the number (a number for a
// string field is accepted with its spelling, an exponent is lexical detail the YAML/TOML data
// models cannot carry) and numbers whose slot is unknown (below extra keys).

import (
	"encoding/json"
	"fmt"
	"math"
	"reflect"
	"strconv"
	"strings"

	"verifharness/kit"
)

// group3 inserts '_' between groups of three digits ("-1234567" -> "-1_234_567").
func group3(dec string) string {
	sign := ""
	if strings.HasPrefix(dec, "-") || strings.HasPrefix(dec, "+") {
		sign, dec = dec[:1], dec[1:]
	}
	var parts []string
	for len(dec) > 3 {
		parts = append([]string{dec[len(dec)-3:]}, parts...)
		dec = dec[:len(dec)-3]
	}
	parts = append([]string{dec}, parts...)
	return sign + strings.Join(parts, "_")
}

// intSpelling: another spelling of the integer i in YAML 1.1 (yaml.v2) or TOML. JSON has only one
// spelling of an integer apart from "-0".
func intSpelling(r *kit.Rand, i int64, f int) (string, string) {
	dec := strconv.FormatInt(i, 10)
	for tries := 0; tries < 4; tries++ {
		switch r.Pick(3, 3, 3, 2, 2) {
		case 0:
			if i >= 0 {
				return "+" + dec, "plus"
			}
		case 1:
			if i >= 1000 || i <= -1000 {
				return group3(dec), "underscore"
			}
		case 2:
			if i >= 0 {
				h := strconv.FormatInt(i, 16)
				if r.Bool() {
					h = strings.ToUpper(h)
				}
				return "0x" + h, "hex"
			}
		case 3:
			if i > 0 {
				o := strconv.FormatInt(i, 8)
				if f == 1 && r.Bool() {
					return "0" + o, "octal" // YAML 1.1
				}
				return "0o" + o, "octal"
			}
		default:
			if i >= 0 && i < 1<<20 {
				return "0b" + strconv.FormatInt(i, 2), "binary"
			}
		}
	}
	return "", ""
}

// expNoDot spells a finite float as <integer mantissa>e<exponent>: no '.' anywhere.
func expNoDot(r *kit.Rand, f float64) string {
	sign := ""
	if math.Signbit(f) {
		sign = "-"
	}
	s := strconv.FormatFloat(math.Abs(f), 'e', -1, 64) // d.ddde±xx
	mant, exps, _ := strings.Cut(s, "e")
	e, _ := strconv.Atoi(exps)
	if i := strings.IndexByte(mant, '.'); i >= 0 {
		frac := mant[i+1:]
		mant = mant[:i] + frac
		e -= len(frac)
	}
	if mant == "0" {
		e = 0
	} else if e > 0 && r.Chance(0.3) {
		// 1e3 = 10e2 = 100e1
		k := r.Range(1, e)
		if k > 3 {
			k = 3
		}
		mant += strings.Repeat("0", k)
		e -= k
	}
	es := strconv.Itoa(e)
	if e < 0 {
		es = es[1:]
	}
	if r.Chance(0.25) && len(es) == 1 {
		es = "0" + es
	}
	switch {
	case e < 0:
		es = "-" + es
	case r.Chance(0.3):
		es = "+" + es
	}
	return sign + mant + kit.Choose(r, []string{"e", "e", "E"}) + es
}

// floatSpelling: another spelling of the finite float x in format f.
func floatSpelling(r *kit.Rand, x float64, f int) (string, string) {
	canon := floatText(x, false)
	for tries := 0; tries < 4; tries++ {
		switch r.Pick(40, 12, 10, 12, 12, 14) {
		case 0:
			return expNoDot(r, x), "exponent-no-dot"
		case 1:
			s := floatText(x, true) // d.ddde+xx
			if r.Bool() {
				s = strings.Replace(s, "e", "E", 1)
			}
			return s, "exponent-with-dot"
		case 2:
			return canon + strings.Repeat("0", r.Range(1, 3)), "trailing-zeros"
		case 3:
			if f != 0 && !math.Signbit(x) {
				return "+" + canon, "plus"
			}
		case 4:
			if f != 0 {
				ip, fp, _ := strings.Cut(canon, ".")
				if len(strings.TrimLeft(ip, "-")) > 3 {
					return group3(ip) + "." + fp, "underscore"
				}
			}
		default:
			if f == 1 {
				// YAML only: no digits after / before the point
				if strings.HasSuffix(canon, ".0") {
					return strings.TrimSuffix(canon, "0"), "yaml-bare-point"
				}
				if strings.HasPrefix(canon, "0.") {
					return canon[1:], "yaml-bare-point"
				}
				if strings.HasPrefix(canon, "-0.") {
					return "-" + canon[2:], "yaml-bare-point"
				}
			}
		}
	}
	return "", ""
}

// spellNode gives one number node a spelling per format (each format chooses on its own: what
// is compared is the number, not its text). It returns the classes used.
func spellNode(r *kit.Rand, n *node, signedNumberSlot bool) {
	var sp [3]string
	switch n.k {
	case nInt:
		if n.i == 0 && signedNumberSlot && r.Chance(0.15) {
			// the only other JSON spelling of an integer. Only for signed integer and float slots:
			// elsewhere go-zero exposes the text of the number in JSON ("-0" does not parse as an
			// unsigned integer, and is not the "0" a bool map element accepts) while YAML and TOML
			// have no negative integer zero; observed separately, see runOdd
			sp = [3]string{"-0", "-0", "-0"}
			break
		}
		for f := 1; f <= 2; f++ {
			if r.Chance(0.7) {
				sp[f], _ = intSpelling(r, n.i, f)
			}
		}
	case nFloat:
		if math.IsInf(n.f, 0) || math.IsNaN(n.f) {
			return
		}
		same := r.Chance(0.35) // the same kind of spelling everywhere
		var first string
		for f := 0; f <= 2; f++ {
			if same && first != "" {
				sp[f] = first
				continue
			}
			if r.Chance(0.75) {
				s, class := floatSpelling(r, n.f, f)
				sp[f] = s
				if same && f == 0 && class != "" {
					first = s
				}
			}
		}
	default:
		return
	}
	if sp != [3]string{} {
		n.sp = &sp
	}
}

// respell walks a document along its type and respells numbers with probability p. Numbers in
// string slots and below unknown keys keep the canonical spelling.
func respell(r *kit.Rand, n *node, t *tdesc, p float64) {
	if t == nil {
		return
	}
	t = t.deref()
	switch n.k {
	case nInt, nFloat:
		if t.k == tString || n.sp != nil || !r.Chance(p) {
			return
		}
		spellNode(r, n, t.k == tInt || t.k == tFloat)
	case nArr:
		if t.k != tSlice {
			return
		}
		for _, x := range n.arr {
			respell(r, x, t.elem, p)
		}
	case nMap:
		switch t.k {
		case tMap:
			for _, e := range n.ents {
				respell(r, e.v, t.elem, p)
			}
		case tStruct:
			fs := t.flatFields()
			for _, e := range n.ents {
				for _, f := range fs {
					if f.key == e.key {
						respell(r, e.v, f.t, p)
						break
					}
				}
			}
		}
	}
}

// spelled reports whether some number of the document has a non-canonical spelling.
func (n *node) spelled() bool {
	if n.sp != nil {
		return true
	}
	for _, x := range n.arr {
		if x.spelled() {
			return true
		}
	}
	for _, e := range n.ents {
		if e.v.spelled() {
			return true
		}
	}
	return false
}

// unspelled returns a copy of the document with every number in its canonical spelling.
func (n *node) unspelled() *node {
	c := n.clone(func(e ent) string { return e.key })
	var walk func(x *node)
	walk = func(x *node) {
		x.sp = nil
		for _, y := range x.arr {
			walk(y)
		}
		for _, e := range x.ents {
			walk(e.v)
		}
	}
	walk(c)
	return c
}

// countSpellings adds the spelling classes of the document to the observation counters.
func countSpellings(c *kit.Case, n *node, tx texts) {
	var walk func(x *node)
	walk = func(x *node) {
		if x.sp != nil {
			c.Obs("numbers_respelled", 1)
			for f, s := range x.sp {
				if s == "" {
					continue
				}
				switch {
				case x.k == nFloat && !strings.Contains(s, "."):
					c.Obs("spelled_float_exponent_no_dot_"+fmtNames[f], 1)
				case x.k == nFloat && strings.ContainsAny(s, "eE"):
					c.Obs("spelled_float_exponent_with_dot", 1)
				case strings.HasPrefix(s, "+"):
					c.Obs("spelled_leading_plus", 1)
				case strings.Contains(s, "_"):
					c.Obs("spelled_underscores", 1)
				case x.k == nInt && len(s) > 1 && s[0] == '0' && s != "-0":
					c.Obs("spelled_int_hex_octal_binary", 1)
				case s == "-0":
					c.Obs("spelled_int_minus_zero", 1)
				default:
					c.Obs("spelled_float_other", 1)
				}
			}
		}
		for _, y := range x.arr {
			walk(y)
		}
		for _, e := range x.ents {
			walk(e.v)
		}
	}
	walk(n)
	if n.has(nFloat) && !strings.Contains(tx[2], ".") {
		c.Obs("toml_documents_with_float_and_no_dot", 1)
	}
}

// selfCheckJSON verifies that the JSON rendering of a respelled document denotes the document.
func selfCheckJSON(text string, n *node) error {
	dec := json.NewDecoder(strings.NewReader(text))
	dec.UseNumber()
	var v any
	if err := dec.Decode(&v); err != nil {
		return fmt.Errorf("json rendering does not parse: %v", err)
	}
	if !json.Valid([]byte(text)) {
		return fmt.Errorf("json rendering is not one valid value")
	}
	if !sameAsParsedJSON(v, n) {
		return fmt.Errorf("json rendering parses to a different value: %#v", v)
	}
	return nil
}

func sameAsParsedJSON(v any, n *node) bool {
	switch n.k {
	case nNull:
		return v == nil
	case nBool:
		b, ok := v.(bool)
		return ok && b == n.b
	case nInt:
		x, ok := v.(json.Number)
		if !ok {
			return false
		}
		i, err := strconv.ParseInt(string(x), 10, 64)
		return err == nil && i == n.i
	case nBigUint:
		x, ok := v.(json.Number)
		if !ok {
			return false
		}
		u, err := strconv.ParseUint(string(x), 10, 64)
		return err == nil && u == n.u
	case nFloat:
		x, ok := v.(json.Number)
		if !ok || !strings.ContainsAny(string(x), ".eE") {
			return false
		}
		f, err := strconv.ParseFloat(string(x), 64)
		return err == nil && math.Float64bits(f) == math.Float64bits(n.f)
	case nRawNum:
		x, ok := v.(json.Number)
		return ok && string(x) == n.s
	case nStr:
		x, ok := v.(string)
		return ok && x == n.s
	case nArr:
		x, ok := v.([]any)
		if !ok || len(x) != len(n.arr) {
			return false
		}
		for i := range x {
			if !sameAsParsedJSON(x[i], n.arr[i]) {
				return false
			}
		}
		return true
	case nMap:
		x, ok := v.(map[string]any)
		if !ok || len(x) != len(n.ents) {
			return false
		}
		for _, e := range n.ents {
			c, ok := x[e.key]
			if !ok || !sameAsParsedJSON(c, e.v) {
				return false
			}
		}
		return true
	}
	return false
}

// ---------------------------------------------------------------- the number-spelling family

// numStructT builds a small configuration type made mostly of numbers (plain json name tags: the
// encoding/json oracle applies too). Small documents of such types often contain no '.' at all.
func numStructT(g *tgen, depth int) reflect.Type {
	num := func() reflect.Type {
		switch g.r.Pick(45, 20, 35) {
		case 0:
			return leafTypes[1+g.r.Intn(5)]
		case 1:
			return leafTypes[6+g.r.Intn(5)]
		default:
			return leafTypes[11+g.r.Intn(2)]
		}
	}
	n := g.r.Range(1, 4)
	used := map[string]bool{}
	var fs []reflect.StructField
	for i := 0; i < n; i++ {
		var ft reflect.Type
		switch g.r.Pick(60, 5, 5, 10, 6, 6, 8) {
		case 0:
			ft = num()
		case 1:
			ft = leafTypes[0]
		case 2:
			ft = leafTypes[13]
		case 3:
			ft = reflect.SliceOf(num())
		case 4:
			ft = reflect.MapOf(leafTypes[13], num())
		case 5:
			ft = reflect.PointerTo(num())
		default:
			if depth > 0 {
				ft = numStructT(g, depth-1)
			} else {
				ft = num()
			}
		}
		key := kit.Choose(g.r, taggedKeys)
		for used[strings.ToLower(key)] {
			g.seq++
			key = fmt.Sprintf("n%d", g.seq)
		}
		used[strings.ToLower(key)] = true
		g.seq++
		fs = append(fs, reflect.StructField{Name: fmt.Sprintf("F%d", g.seq), Type: ft, Tag: reflect.StructTag(`json:"` + key + `"`)})
	}
	return reflect.StructOf(fs)
}
