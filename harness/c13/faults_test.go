package c13

// Family registry-faults: the error paths of the registry / subscriber / resolver code
// the other families never take, each followed by ordinary registry events, reloads and
// the ordinary marker-synchronised comparison (the statement quantifies over histories
// "including full reloads after reconnect or compaction"; a fault that go-zero has
// recovered from must leave a view that equals the registrations):
//
//	client-error      the etcd client cannot be created n times (NewSubscriber and the
//	                  resolver's Build return the error, nothing is left half-registered),
//	                  then it can: a new subscriber / resolver shows the registrations
//	load-error        Get fails during the initial load or during the snapshot reload
//	                  after a compaction; go-zero sleeps about ONE REAL SECOND and retries.
//	                  Decided causally: the scripted etcd has refused a Get and has served a
//	                  later one ("the load was retried"); registrations made while the
//	                  load was being retried are in the view
//	unknown-event     a watch response carries an event of an unknown type between
//	                  ordinary events: ignored, the rest is applied
//	compact-no-cancel a response with a compact revision but without the canceled flag
//	                  (WatchResponse.Err() is ErrCompacted): snapshot reload
//	options           WithSubEtcdAccount / WithSubEtcdTLS (they only matter to the real
//	                  dialer): same behaviour
//	close-resubscribe Close() twice, registrations change while nobody subscribes, a new
//	                  subscriber / resolver on the same key: fresh load
//	update-error      the resolver's ClientConn returns an error from every n-th
//	                  UpdateState: later publications still come
//	multi-host        an endpoint list of two hosts given in unsorted order (subscriber and
//	                  resolver target "discov://b,a/key")
//	close-during-load the only subscriber of a key is closed while go-zero's snapshot Get
//	                  after a compaction is in flight (the scripted Get is held open, then
//	                  released); registrations exist / change meanwhile; then a NEW
//	                  subscriber on the same key: its view must equal the registrations

import (
	"crypto/ecdsa"
	"crypto/elliptic"
	"crypto/rand"
	"crypto/x509"
	"crypto/x509/pkix"
	"encoding/pem"
	"errors"
	"fmt"
	"math/big"
	"net/url"
	"os"
	"path/filepath"
	"strings"
	"sync"
	"time"

	"github.com/zeromicro/go-zero/core/discov"
	pb "go.etcd.io/etcd/api/v3/etcdserverpb"
	"go.etcd.io/etcd/api/v3/mvccpb"
	clientv3 "go.etcd.io/etcd/client/v3"
	gresolver "google.golang.org/grpc/resolver"

	"verifharness/kit"
)

var faultScenarios = []string{"client-error", "load-error-initial", "load-error-reload", "unknown-event", "compact-no-cancel",
	"options", "close-resubscribe", "update-error", "multi-host", "close-during-load"}

// ---- TLS material for WithSubEtcdTLS (logx.Must exits the process on a bad file)

var (
	tlsOnce                sync.Once
	tlsDir                 string
	tlsCert, tlsKey, tlsCA string
	tlsErr                 error
)

func tlsFiles() (cert, key, ca string, err error) {
	tlsOnce.Do(func() {
		tlsDir, tlsErr = os.MkdirTemp("/var/tmp", "c13-tls-")
		if tlsErr != nil {
			return
		}
		var priv *ecdsa.PrivateKey
		priv, tlsErr = ecdsa.GenerateKey(elliptic.P256(), rand.Reader)
		if tlsErr != nil {
			return
		}
		tmpl := &x509.Certificate{SerialNumber: big.NewInt(13), Subject: pkix.Name{CommonName: "c13.verif"},
			NotBefore: time.Unix(1700000000, 0), NotAfter: time.Unix(4000000000, 0), IsCA: true,
			KeyUsage: x509.KeyUsageDigitalSignature | x509.KeyUsageCertSign, BasicConstraintsValid: true}
		var der, kder []byte
		der, tlsErr = x509.CreateCertificate(rand.Reader, tmpl, tmpl, &priv.PublicKey, priv)
		if tlsErr != nil {
			return
		}
		kder, tlsErr = x509.MarshalECPrivateKey(priv)
		if tlsErr != nil {
			return
		}
		tlsCert, tlsKey, tlsCA = filepath.Join(tlsDir, "cert.pem"), filepath.Join(tlsDir, "key.pem"), filepath.Join(tlsDir, "ca.pem")
		certPEM := pem.EncodeToMemory(&pem.Block{Type: "CERTIFICATE", Bytes: der})
		keyPEM := pem.EncodeToMemory(&pem.Block{Type: "EC PRIVATE KEY", Bytes: kder})
		for _, w := range []struct {
			p string
			b []byte
		}{{tlsCert, certPEM}, {tlsKey, keyPEM}, {tlsCA, certPEM}} {
			if tlsErr = os.WriteFile(w.p, w.b, 0o600); tlsErr != nil {
				return
			}
		}
	})
	return tlsCert, tlsKey, tlsCA, tlsErr
}

func removeTLSFiles() {
	if tlsDir != "" {
		os.RemoveAll(tlsDir)
	}
}

// waitGetRefused waits until the scripted etcd has refused n Get calls.
func (f *fakeEtcd) waitGetRefused(n int) bool {
	t := time.NewTimer(patience())
	defer t.Stop()
	for {
		f.mu.Lock()
		ok := f.getFailed >= n
		f.mu.Unlock()
		if ok {
			return true
		}
		select {
		case <-f.note:
		case <-t.C:
			fired()
			return false
		}
	}
}

func (f *fakeEtcd) scriptGetFailures(n int) {
	f.mu.Lock()
	f.getFail = n
	f.mu.Unlock()
}

func (f *fakeEtcd) getsRefused() int {
	f.mu.Lock()
	defer f.mu.Unlock()
	return f.getFailed
}

func registryFaultCase(c *kit.Case) {
	r := c.R
	scen := faultScenarios[c.Index%len(faultScenarios)]
	routeSeq++
	ep := fmt.Sprintf("c13-rf-%d-%d.verif:2379", kit.GetEnv().Seed, routeSeq)
	rt := newRouter(ep, sharedConn)
	h := newHist(c, rt, ep, "svc")
	h.f.batchReplay = r.Bool()
	excl := r.Chance(0.3)
	g := &gen{h: h, r: r, noUpdate: r.Bool()}
	nk, nv := r.Range(2, 5), r.Range(1, 3)
	for i := 1; i <= nk; i++ {
		g.keys = append(g.keys, fmt.Sprintf("svc/%d", 7587848943834334000+i))
	}
	for i := 1; i <= nv; i++ {
		g.vals = append(g.vals, fmt.Sprintf("10.0.7.%d:8080", i))
	}
	h.sigParts = []any{"registry-faults", scen, excl, nk, nv}
	h.subErrClass = scen
	for i, n := 0, r.Range(1, 3); i < n; i++ {
		o := g.randomOp()
		h.log = append(h.log, "(before subscribing) "+h.descr(o))
		h.f.apply(o)
	}
	modeName := map[bool]string{false: "plain", true: "Exclusive()"}[excl]
	someOps := func(n int) {
		for i := 0; i < n && !h.dead; i++ {
			o := g.anyOp()
			h.doOps(h.classOfOp(o), o)
		}
	}
	subscribe := func(name string) *subRec {
		h.note("initial-load", "SUBSCRIBE %s %s", name, modeName)
		s := h.addSub(name, excl, false, r.Range(1, 2))
		h.sync()
		return s
	}

	switch scen {
	case "client-error":
		n := r.Range(1, 3)
		left := n
		var mu sync.Mutex
		setClientFor(ep, func() (any, error) {
			mu.Lock()
			defer mu.Unlock()
			if left > 0 {
				left--
				return nil, errors.New("context deadline exceeded (client creation failure injected by the c13 harness)")
			}
			return rt, nil
		})
		for i := 0; i < n && !h.dead; i++ {
			viaResolver := r.Bool()
			var err error
			var pv any
			var got any
			if viaResolver {
				u, _ := url.Parse("discov://" + ep + "/svc")
				res := &resRec{lisRec: *newLis()}
				pv = guard(func() {
					var rs gresolver.Resolver
					rs, err = gresolver.Get("discov").Build(gresolver.Target{URL: *u}, res, gresolver.BuildOptions{})
					if rs != nil {
						got = rs
					}
				})
				h.note(scen, "BUILD discov resolver while the etcd client cannot be created")
			} else {
				pv = guard(func() {
					var sub *discov.Subscriber
					sub, err = discov.NewSubscriber([]string{ep}, "svc")
					if sub != nil {
						got = sub
					}
				})
				h.note(scen, "SUBSCRIBE while the etcd client cannot be created")
			}
			switch {
			case pv != nil:
				h.dead = true
				c.Viol("C13/panic/"+scen, fmt.Sprintf("go-zero panicked while the etcd client could not be created: %v", pv),
					map[string]any{"endpoint": ep, "steps": h.log, "panic": fmt.Sprint(pv)})
			case err == nil || got != nil:
				// the statement is silent on what a subscriber without a client is; it is only
				// recorded (a subscriber that exists is closed again)
				c.Obs("client_errors_not_returned", 1)
				if s, ok := got.(*discov.Subscriber); ok {
					guard(s.Close)
				} else if rs, ok := got.(gresolver.Resolver); ok {
					guard(rs.Close)
				}
			default:
				c.Obs("client_errors_returned", 1)
			}
			o := g.randomOp()
			h.log = append(h.log, "(nobody subscribes) "+h.descr(o))
			h.f.apply(o)
		}
		if h.dead {
			break
		}
		// the client can be created now
		if r.Chance(0.4) {
			subscribeByHand(c, h, g, scen, "created after the etcd client could not be created for earlier subscribers", nil)
			break
		}
		subscribe("S0")
		someOps(r.Range(1, 4))
		if r.Bool() && !h.dead {
			h.note("resolver-build", "BUILD discov resolver on the same endpoint/key")
			h.addResolver("R")
			h.sync()
		}
		h.reload(r.Intn(4), r.Range(0, 3), g.anyOp)
		someOps(r.Range(0, 3))

	case "load-error-initial":
		h.f.scriptGetFailures(1)
		// a registration that arrives while go-zero waits before it retries the load
		late := op{k: fmt.Sprintf("svc/%d", 7587848943834334900), v: "10.0.7.99:8080"}
		done := make(chan bool, 1)
		go func() {
			ok := h.f.waitGetRefused(1)
			if ok {
				h.f.apply(late)
			}
			done <- ok
		}()
		h.note("load-error", "the first Get of the next subscriber is refused, PUT %s=%s while go-zero waits to retry", late.k, late.v)
		// by hand: NewSubscriber returns when its load is over - whether a Get was served for
		// it by then ("the load was retried") is observed, not assumed
		gs0, _, _ := h.f.totals()
		subscribeByHand(c, h, g, "load-error-initial", "created while the first Get of its load was refused", nil)
		if !<-done {
			h.inconclusive("watchdog: go-zero made no Get")
			break
		}
		if gs1, _, _ := h.f.totals(); gs1 > gs0 && h.f.getsRefused() >= 1 {
			c.Obs("loads_retried_after_get_error", 1)
		}
		if h.dead {
			break
		}
		// the hand-made subscriber is closed again; an ordinary history on the same key follows
		subscribe("S0")
		someOps(r.Range(1, 4))
		h.reload(r.Intn(4), r.Range(0, 3), g.anyOp)

	case "load-error-reload":
		subscribe("S0")
		someOps(r.Range(1, 3))
		if h.dead {
			break
		}
		g0, _ := h.f.calls(h.subs[0].fk)
		h.f.scriptGetFailures(1)
		kind := []int{rlCompactBreak, rlCompactLive}[r.Intn(2)]
		h.log = append(h.log, "(the next Get is refused once: the snapshot load has to be retried)")
		// the first operation missed during the partition registers a new key with a value
		// of its own, so that a reload that does not happen cannot go unnoticed
		first := true
		h.reload(kind, r.Range(1, 3), func() op {
			if first {
				first = false
				return op{k: fmt.Sprintf("svc/%d", 7587848943834334901), v: "10.0.7.98:8080"}
			}
			return g.anyOp()
		})
		if g1, _ := h.f.calls(h.subs[0].fk); !h.dead && h.f.getsRefused() >= 1 && g1 > g0 {
			c.Obs("loads_retried_after_get_error", 1)
		}
		someOps(r.Range(0, 3))

	case "unknown-event":
		s := subscribe("S0")
		someOps(r.Range(1, 3))
		if h.dead {
			break
		}
		// an event of a type this client does not know, on a registered key and on a new one,
		// in one response with nothing else; then ordinary traffic
		cur := h.f.current(h.pwk)
		victim := fmt.Sprintf("svc/%d", 7587848943834334777)
		for k := range cur {
			if !strings.Contains(k, "~m") {
				victim = k
				break
			}
		}
		evs := []*clientv3.Event{
			{Type: mvccpb.Event_EventType(7), Kv: &mvccpb.KeyValue{Key: []byte(victim), Value: []byte("10.0.7.250:1")}},
			{Type: mvccpb.Event_EventType(2), Kv: &mvccpb.KeyValue{Key: []byte("svc/unknown-type"), Value: []byte("10.0.7.251:1")}},
		}
		if h.f.inject(s.fk, clientv3.WatchResponse{Header: pb.ResponseHeader{Revision: 1}, Events: evs}, false) {
			c.Obs("unknown_event_types_delivered", int64(len(evs)))
		}
		h.note(scen, "watch response with two events of unknown types (on %s and on a new key): to be ignored", victim)
		h.sync()
		someOps(r.Range(1, 4))
		h.reload(r.Intn(4), r.Range(0, 3), g.anyOp)

	case "compact-no-cancel":
		subscribe("S0")
		someOps(r.Range(1, 3))
		h.reload(rlCompactLiveNoCancel, r.Range(0, 4), g.anyOp)
		if !h.dead {
			c.Obs("compactions_without_cancel_flag", 1)
		}
		someOps(r.Range(1, 3))
		h.reload(r.Intn(5), r.Range(0, 3), g.anyOp)

	case "options":
		if r.Bool() {
			h.extraOpts = append(h.extraOpts, discov.WithSubEtcdAccount("verif", "secret"))
			h.log = append(h.log, "(subscribers use WithSubEtcdAccount)")
			c.Obs("subscribers_with_account_option", 1)
		} else {
			cert, key, ca, err := tlsFiles()
			if err != nil {
				c.Inconclusive("cannot create TLS files: " + err.Error())
				return
			}
			h.extraOpts = append(h.extraOpts, discov.WithSubEtcdTLS(cert, key, ca, r.Bool()))
			h.log = append(h.log, "(subscribers use WithSubEtcdTLS)")
			c.Obs("subscribers_with_tls_option", 1)
		}
		subscribe("S0")
		someOps(r.Range(2, 5))
		h.reload(r.Intn(4), r.Range(0, 3), g.anyOp)
		someOps(r.Range(0, 2))

	case "close-resubscribe":
		s0 := subscribe("S0")
		someOps(r.Range(1, 3))
		if h.dead {
			break
		}
		h.note(scen, "CLOSE S0 (the only subscriber), and Close() once more")
		h.closeSub(s0)
		if pv := guard(func() { s0.sub.Close() }); pv != nil {
			h.panicViol(s0, "second Close", pv)
			break
		}
		c.Obs("second_closes", 1)
		for i, n := 0, r.Range(1, 4); i < n; i++ {
			o := g.randomOp()
			h.log = append(h.log, "(nobody subscribes) "+h.descr(o))
			h.f.apply(o)
		}
		c.Obs("resubscriptions_after_close", 1)
		switch r.Pick(2, 4, 4) {
		case 0:
			h.note("resolver-build", "BUILD discov resolver on the key nobody subscribes to any more")
			h.addResolver("R")
			h.sync()
		case 1:
			subscribe("S1")
		default:
			subscribeByHand(c, h, g, scen, "created after the only subscriber of the key was closed", nil)
			h.dead = true // the hand-made subscriber is closed again; the history ends here
		}
		someOps(r.Range(1, 4))
		h.reload(r.Intn(4), r.Range(0, 3), g.anyOp)
		someOps(r.Range(0, 2))

	case "update-error":
		h.resErrEvery = r.Range(1, 3)
		h.note("resolver-build", "BUILD discov resolver whose ClientConn returns an error from every UpdateState number divisible by %d", h.resErrEvery)
		h.addResolver("R")
		h.sync()
		someOps(r.Range(3, 8))
		h.reload(r.Intn(4), r.Range(0, 3), g.anyOp)
		someOps(r.Range(0, 3))
		for _, s := range h.subs {
			if s.res != nil {
				n, _ := s.res.snapshot()
				c.Obs("update_state_errors_returned", int64(n/h.resErrEvery))
			}
		}

	case "close-during-load":
		closeDuringLoad(c, h, g)

	case "multi-host":
		ep2 := "a-" + ep // sorts before ep ("c13-…")
		h.hosts = []string{ep, ep2}
		setClientFor(ep2, func() (any, error) { return rt, nil })
		subscribe("S0")
		someOps(r.Range(1, 3))
		if !h.dead {
			h.note("resolver-build", "BUILD discov resolver with the two-host authority %s,%s", ep, ep2)
			h.addResolver("R")
			h.sync()
		}
		c.Obs("multi_host_histories", 1)
		someOps(r.Range(1, 4))
		h.reload(r.Intn(4), r.Range(0, 3), g.anyOp)
	}
	c.Obs("registry_fault_histories", 1)
	c.Obs("registry_fault_"+scen, 1)
	h.finish()
	if c.Index < len(faultScenarios) {
		c.Sample("registry-faults", len(faultScenarios), map[string]any{"scenario": scen, "exclusive": excl, "steps": h.log})
	}
}

// closeDuringLoad: see the family comment. The new subscriber is created and compared by
// hand (plain set comparison against the store, synchronised by a marker followed by a
// progress notification on the live stream), because whether go-zero serves it from a
// fresh load or attaches it to a watch that is still running is exactly what differs
// between trees.
func closeDuringLoad(c *kit.Case, h *hist, g *gen) {
	r := c.R
	const scen = "close-during-load"
	h.note("initial-load", "SUBSCRIBE S0 plain")
	s0 := h.addSub("S0", false, false, 1)
	h.sync()
	for i, n := 0, r.Range(1, 3); i < n && !h.dead; i++ {
		o := g.randomOp()
		h.doOps(h.classOfOp(o), o)
	}
	if h.dead {
		return
	}
	// at least one registration must exist, or an empty view would be right by accident
	if len(h.f.current(h.pwk)) <= 1 { // the marker is always there
		o := op{k: g.keys[0], v: g.vals[0]}
		h.doOps(h.classOfOp(o), o)
	}
	arrived, release := make(chan struct{}), make(chan struct{})
	h.f.mu.Lock()
	n0 := h.f.getCalls
	h.f.onGet = func(n int) {
		if n == n0+1 {
			close(arrived)
			<-release
		}
	}
	h.f.mu.Unlock()
	released := false
	letGo := func() {
		if !released {
			released = true
			close(release)
		}
	}
	defer letGo()
	h.f.compact()
	h.f.compactLive(s0.fk)
	t := time.NewTimer(patience())
	defer t.Stop()
	select {
	case <-arrived:
	case <-t.C:
		fired()
		h.inconclusive("watchdog: no Get after a compaction response on the live stream")
		return
	}
	h.note(scen, "COMPACT(compaction response on the live stream); while go-zero's snapshot Get is in flight: CLOSE S0 (the only subscriber)")
	h.closeSub(s0)
	for i, n := 0, r.Range(0, 2); i < n; i++ {
		o := g.randomOp()
		h.log = append(h.log, "(nobody subscribes, Get still in flight) "+h.descr(o))
		h.f.apply(o)
	}
	g1, w1, _ := h.f.totals()
	h.log = append(h.log, "the Get is answered")
	letGo()
	// go-zero now either stops watching this key (nobody subscribes) or watches again; which
	// one is not prescribed. Give the second possibility time to happen before the new
	// subscriber comes, so that the history is the same in every run (nothing is decided by
	// this wait: the verdict is the comparison below).
	rewatched := h.f.waitTotalsFor(g1+1, w1+1, 3*time.Second)
	if rewatched {
		c.Obs("watches_kept_for_a_key_without_subscribers", 1)
		h.log = append(h.log, "(go-zero issued a Watch for the key although nobody subscribes)")
	}
	for i, n := 0, r.Range(0, 2); i < n; i++ {
		o := g.randomOp()
		h.log = append(h.log, "(nobody subscribes) "+h.descr(o))
		h.f.apply(o)
	}
	c.Obs("close_during_load_histories", 1)
	subscribeByHand(c, h, g, scen, "created after S0 was closed during a snapshot load",
		map[string]any{"go_zero_rewatched_without_subscribers": rewatched})
}

// hasLive: the scripted etcd is serving a watch stream for wk right now.
func (f *fakeEtcd) hasLive(wk wkey) bool {
	f.mu.Lock()
	defer f.mu.Unlock()
	fe := f.feeds[wk]
	return fe != nil && fe.cur != nil && !fe.cur.dead
}

var handSeq int

// subscribeByHand creates a plain subscriber S1 on the history's endpoint/key at a point
// where no other subscriber of the key is open, and compares it with the store after it
// was created and after each of a few further registry events (plain set comparison;
// synchronised by a marker followed by a progress notification on the live stream).
// It is used where the question is whether go-zero serves the new subscriber from a load
// of its own or attaches it to a watcher that is still around - which hist.addSub cannot
// follow. Three situations after NewSubscriber returned:
//
//	a Get was made           -> fresh load; its Watch call is awaited
//	no Get, a stream is live -> attached to a running watch
//	no Get, no live stream   -> attached to a watcher nobody watches for. If moreover no
//	                            goroutine spawned on behalf of this NewSubscriber exists
//	                            (pprof label) nobody ever will: the comparison is made at
//	                            once, without a barrier (nothing can be in flight)
func subscribeByHand(c *kit.Case, h *hist, g *gen, scen, how string, extra map[string]any) {
	r := c.R
	handSeq++
	label := fmt.Sprintf("%s#hand%d", c.ID, handSeq)
	g2, w2, _ := h.f.totals()
	var sub *discov.Subscriber
	var err error
	var pv any
	h.log = append(h.log, "SUBSCRIBE S1 plain (same endpoint, same key)")
	kit.WithLabel(label, func() {
		pv = guard(func() { sub, err = discov.NewSubscriber(h.endpoints(), h.prefix) })
	})
	ghost := &subRec{name: "S1", mode: "plain", wk: h.pwk}
	if pv != nil {
		h.panicViol(ghost, "NewSubscriber ("+scen+")", pv)
		return
	}
	if err != nil {
		h.dead = true
		c.Viol("C13/subscribe-failed/"+scen, "NewSubscriber returned an error on a healthy scripted etcd: "+err.Error(),
			map[string]any{"endpoint": h.ep, "watched_key": h.prefix, "steps": h.log})
		return
	}
	defer guard(sub.Close)
	barrier := true
	switch g3, _, _ := h.f.totals(); {
	case g3 > g2:
		c.Obs("resubscriptions_served_by_fresh_load", 1)
		if !h.f.waitTotals(g3, w2+1) {
			h.inconclusive("watchdog: no Watch after the load of the new subscriber")
			return
		}
	case h.f.hasLive(h.pwk):
		c.Obs("resubscriptions_attached_to_running_watch", 1)
	default:
		c.Obs("resubscriptions_attached_to_unwatched_watcher", 1)
		if len(kit.LabelledGoroutines(label)) == 0 && len(kit.LabelledGoroutines(label)) == 0 && !h.f.hasLive(h.pwk) {
			barrier = false
			h.log = append(h.log, "(go-zero made no Get for S1, serves no watch for the key and started no goroutine for S1)")
		} else if h.f.waitLive(h.pwk, 0) != wlLive {
			h.inconclusive("watchdog: no served watch for the key after NewSubscriber returned without loading")
			return
		}
	}
	check := func(step string) bool {
		h.markerN++
		mk, mv := fmt.Sprintf("%s/~m%d", h.prefix, h.markerN), fmt.Sprintf("marker-%d", h.markerN)
		if h.markerKey != "" {
			h.f.apply(op{del: true, k: h.markerKey})
		}
		h.f.apply(op{k: mk, v: mv})
		h.markerKey = mk
		if barrier && !h.f.progress(h.pwk) {
			h.inconclusive("watchdog: progress notification not received on the live stream after " + step)
			return false
		}
		h.syncs++
		store := h.f.current(h.pwk)
		plain := &mirror{wk: h.pwk}
		got, pv := safeValues(sub)
		if pv != nil {
			h.panicViol(ghost, "Values()", pv)
			return false
		}
		mms := plain.compare(store, got)
		if len(mms) > 0 && barrier {
			// belt and braces: once more behind a second notification
			if !h.f.progress(h.pwk) {
				h.inconclusive("watchdog: second progress notification not received")
				return false
			}
			got, _ = safeValues(sub)
			mms = plain.compare(h.f.current(h.pwk), got)
		}
		if len(mms) == 0 {
			return true
		}
		h.dead = true
		seen := map[string]bool{}
		for _, mm := range mms {
			key := "C13/" + mm.kind + "/subscribed-after-" + scen
			if seen[key] {
				continue
			}
			seen[key] = true
			w := map[string]any{"endpoint": h.ep, "watched_key": h.prefix, "steps": h.log, "got": got, "registered_now": store,
				"etcd_calls_on_this_watch": h.f.callLog(h.pwk), "synchronised_by_progress_notification": barrier}
			for k, v := range extra {
				w[k] = v
			}
			c.Viol(key, fmt.Sprintf("plain subscriber S1, %s: value %q is %s after %q", how, mm.val, mm.kind, step), w)
		}
		return false
	}
	c.Obs("subscribers_created_by_hand", 1)
	if !check("SUBSCRIBE S1") {
		return
	}
	for i, n := 0, r.Range(1, 3); i < n; i++ {
		o := g.randomOp()
		d := h.descr(o)
		h.log = append(h.log, d)
		h.f.apply(o)
		if !check(d) {
			return
		}
	}
}
