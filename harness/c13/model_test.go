package c13

import (
	"fmt"
	"sort"
)

// mirror is the reference model of ONE subscriber. It consumes the transcript of
// the feed the subscriber hangs on (what the scripted etcd handed to go-zero, in
// order) and maintains
//
//   - known: key -> value as a correct registry would know it (used to diff snapshots);
//   - for an exclusive subscriber the candidate-owner sets P[value] (see below);
//   - taint bookkeeping used only to NAME the class of a failing input;
//   - the number of notifications the statement demands (definite view changes).
//
// Plain subscriber: view = set of values of known. At a synchronisation point
// known equals the store content under the watched key, so the oracle used there is
// the store itself (the statement), and the mirror is only cross-checked against it.
//
// Exclusive subscriber ("only the most recently registered key of each value
// counts"): adding (k,v) makes k the only key that counts for v and takes k away
// from any other value it counted for; deleting k takes it away from every value.
// Entries that reach the subscriber as an unordered batch (a reload snapshot diff,
// the current entries handed to a subscriber joining an existing watch) may be
// applied in any order, so which of several batch keys sharing a value ends up as
// "most recent" is unspecified: P[v] then holds every candidate. The bottom element
// "" means "possibly nobody". v MUST be in the view iff P[v] is non-empty and does
// not contain bottom; v MUST NOT be in the view iff P[v] is empty or {bottom};
// otherwise both are accepted (only necessary conditions are asserted).
type mirror struct {
	excl     bool
	wk       wkey
	pos      int
	known    map[string]string
	P        map[string]map[string]bool
	taintKey map[string]string // key changed its value in place at some point: how the subscriber learnt it
	taintVal map[string]string
	demanded int
	// statistics
	nChangeWatch, nChangeReload, nSnapDiff, nShared int64
}

const (
	taintWatch  = "key-changed-value-via-watch"
	taintReload = "key-changed-value-then-reload"
)

func newMirror(excl bool, wk wkey, pos int) *mirror {
	return &mirror{excl: excl, wk: wk, pos: pos, known: map[string]string{}, P: map[string]map[string]bool{},
		taintKey: map[string]string{}, taintVal: map[string]string{}}
}

func (m *mirror) bump(k, except string) {
	for v, s := range m.P {
		if v != except && s[k] {
			delete(s, k)
			s[""] = true
			if len(s) == 1 {
				delete(m.P, v) // {nobody} is the same as absent
			}
		}
	}
}

func (m *mirror) addOne(k, v string) {
	m.bump(k, v)
	m.P[v] = map[string]bool{k: true}
}

func (m *mirror) addBatch(kvs map[string]string) {
	byVal := map[string]map[string]bool{}
	for k, v := range kvs {
		m.bump(k, v)
		if byVal[v] == nil {
			byVal[v] = map[string]bool{}
		}
		byVal[v][k] = true
	}
	for v, ks := range byVal {
		m.P[v] = ks
	}
}

// noteChange records that key k went from value old to value nw in place.
func (m *mirror) noteChange(k, old, nw, how string) {
	m.taintKey[k] = how
	m.taintVal[old] = how
	m.taintVal[nw] = how
	if how == taintWatch {
		m.nChangeWatch++
	} else {
		m.nChangeReload++
	}
}

type viewState struct {
	in map[string]bool // plain: the view; exclusive: must-in
	// exclusive only: values whose membership is unspecified
	free map[string]bool
}

func (m *mirror) view() viewState {
	vs := viewState{in: map[string]bool{}, free: map[string]bool{}}
	if !m.excl {
		for _, v := range m.known {
			vs.in[v] = true
		}
		return vs
	}
	for v, s := range m.P {
		switch {
		case len(s) == 0 || (len(s) == 1 && s[""]):
		case s[""]:
			vs.free[v] = true
		default:
			vs.in[v] = true
		}
	}
	return vs
}

func definiteChange(a, b viewState) bool {
	for v := range a.in {
		if !b.in[v] && !b.free[v] {
			return true
		}
	}
	for v := range b.in {
		if !a.in[v] && !a.free[v] {
			return true
		}
	}
	return false
}

// consume feeds the model. Only keys under the range the STATEMENT speaks about (m.wk)
// are taken into account: should go-zero watch a wider range, the extra values show up
// as stale ones.
func (m *mirror) consume(items []titem) {
	for _, it := range items {
		if it.kind == tEvent && !m.wk.match(it.ev.k) {
			m.pos++
			continue
		}
		if it.kind != tEvent {
			snap := map[string]string{}
			for k, v := range it.snap {
				if m.wk.match(k) {
					snap[k] = v
				}
			}
			it.snap = snap
		}
		before := m.view()
		switch it.kind {
		case tEvent:
			if it.ev.del {
				delete(m.known, it.ev.k)
				m.bump(it.ev.k, "\x00none")
			} else {
				if old, ok := m.known[it.ev.k]; ok && old != it.ev.v {
					m.noteChange(it.ev.k, old, it.ev.v, taintWatch)
				} else if how, ok := m.taintKey[it.ev.k]; ok {
					m.taintVal[it.ev.v] = how
				}
				m.known[it.ev.k] = it.ev.v
				m.addOne(it.ev.k, it.ev.v)
			}
		case tSnap, tJoin:
			add := map[string]string{}
			diff := false
			for k, v := range it.snap {
				old, ok := m.known[k]
				if ok && old == v {
					continue
				}
				add[k] = v
				diff = true
				if ok {
					m.noteChange(k, old, v, taintReload)
				} else if how, tk := m.taintKey[k]; tk {
					m.taintVal[v] = how
				}
			}
			m.addBatch(add)
			for k := range m.known {
				if _, ok := it.snap[k]; !ok {
					m.bump(k, "\x00none")
					diff = true
				}
			}
			if diff && it.kind == tSnap {
				m.nSnapDiff++
			}
			m.known = map[string]string{}
			for k, v := range it.snap {
				m.known[k] = v
			}
		}
		m.pos++
		if definiteChange(before, m.view()) {
			m.demanded++
		}
		cnt := map[string]int{}
		for _, v := range m.known {
			cnt[v]++
			if cnt[v] == 2 {
				m.nShared++
			}
		}
	}
}

func sortedKeys(m map[string]bool) []string {
	s := make([]string, 0, len(m))
	for k := range m {
		s = append(s, k)
	}
	sort.Strings(s)
	return s
}

func (m *mirror) describeP() map[string][]string {
	out := map[string][]string{}
	for v, s := range m.P {
		ks := sortedKeys(s)
		for i, k := range ks {
			if k == "" {
				ks[i] = "<nobody>"
			}
		}
		out[v] = ks
	}
	return out
}

// compare decides one observed view (as a list, possibly with duplicates) against
// the expected one. It returns (kind, value) pairs.
type mismatch struct{ kind, val string }

func (m *mirror) compare(store map[string]string, got []string) []mismatch {
	var out []mismatch
	seen := map[string]bool{}
	for _, v := range got {
		if seen[v] {
			out = append(out, mismatch{"duplicate-value", v})
		}
		seen[v] = true
	}
	if !m.excl {
		exp := map[string]bool{}
		for _, v := range store {
			exp[v] = true
		}
		for v := range seen {
			if !exp[v] {
				out = append(out, mismatch{"stale-value", v})
			}
		}
		for v := range exp {
			if !seen[v] {
				out = append(out, mismatch{"missing-value", v})
			}
		}
	} else {
		vs := m.view()
		for v := range seen {
			if !vs.in[v] && !vs.free[v] {
				out = append(out, mismatch{"stale-value", v})
			}
		}
		for v := range vs.in {
			if !seen[v] {
				out = append(out, mismatch{"missing-value", v})
			}
		}
	}
	sort.Slice(out, func(i, j int) bool {
		if out[i].kind != out[j].kind {
			return out[i].kind < out[j].kind
		}
		return out[i].val < out[j].val
	})
	return out
}

// selfCheck: at a synchronisation point the mirror's known map must equal the store.
func (m *mirror) selfCheck(store map[string]string) error {
	if len(store) != len(m.known) {
		return fmt.Errorf("mirror %v != store %v", m.known, store)
	}
	for k, v := range store {
		if m.known[k] != v {
			return fmt.Errorf("mirror %v != store %v", m.known, store)
		}
	}
	return nil
}
