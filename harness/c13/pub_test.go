package c13

// Publisher families: the registration side of "the discovery view equals the live
// registrations". A REAL discov.Publisher (KeepAlive / Pause / Resume / Stop) runs
// against the scripted etcd with leases (lease_test.go) that is installed through the
// verif hook; in most histories a real Subscriber (plain or Exclusive()) and sometimes
// the real discov resolver hang on the SAME scripted registry, so that what the
// publisher registers reaches them as watch events / snapshots.
//
// A history: start (KeepAlive(), on a healthy or a faulty etcd), then episodes
//
//	lease-lost     the keep-alive stream ends and the lease is gone on the server
//	stream-ended   the keep-alive stream ends, the lease still exists
//	pause-resume   Pause(), [check: registration revoked], Resume()
//	pause-stop     Pause(), Stop()
//	stop           Stop() while registered, or Stop() in the middle of the retries
//
// each with scripted faults for the re-registration that follows (the next k Grant /
// Put / KeepAlive / Revoke calls fail; Put also "applied, but reported as failed"), after
// which the scripted etcd is healthy again.
//
// Oracle (necessary conditions only):
//
//	live  (started, not paused, not stopped), etcd healthy since the last fault, the
//	      publisher's retries consumed  =>  after TimeToLive has passed (harness-driven:
//	      every lease without a keep-alive stream expires) the registry holds EXACTLY ONE
//	      key under "<key>/", with the publisher's value, attached to a lease that has an
//	      open keep-alive stream
//	paused / stopped                    =>  after TimeToLive no key of the publisher is left
//	a subscriber on the same registry   =>  Values() / listeners / resolver equal the store
//	                                        (the ordinary marker-synchronised comparison)
//
// "The retries are consumed" is decided causally: the scripted client has seen a KeepAlive
// call succeed after the stimulus (publisher settled), or - the go-zero retry loop runs on a
// real one-second ticker that cannot be replaced - NO goroutine of this publisher is alive
// any more (census by pprof label; the label is inherited by every goroutine the publisher
// spawns): a live publisher without a goroutine can never register again, which is a
// violation if it is not registered, however long one waits. A publisher that is still
// retrying when the watchdog fires is inconclusive.

import (
	"errors"
	"fmt"
	"sort"
	"strings"
	"sync"
	"time"

	"github.com/zeromicro/go-zero/core/discov"

	"verifharness/kit"
)

const (
	epLost = iota
	epEnded
	epPauseResume
	epPauseStop
	epStop
)

var epNames = []string{"lease-lost", "stream-ended", "pause-resume", "pause-stop", "stop"}

type episode struct {
	Kind      int    `json:"-"`
	Name      string `json:"episode"`
	F         faults `json:"faults"`
	StopMid   bool   `json:"stop_during_retries,omitempty"`
	Responses int    `json:"keepalive_responses_before,omitempty"`
}

type pubScript struct {
	G          int       `json:"history"`
	WithID     bool      `json:"with_id"`
	SubMode    int       `json:"-"`
	Sub        string    `json:"subscriber"`
	SubFirst   bool      `json:"subscriber_created_before_publisher"`
	Start      faults    `json:"start_faults"`
	ClientFail int       `json:"etcd_client_creation_fails,omitempty"` // the first KeepAlive() cannot even get a client
	Opt        string    `json:"publisher_option,omitempty"`           // "", account, tls
	StartRetry bool      `json:"caller_retries_failed_start,omitempty"`
	Eps        []episode `json:"episodes"`
	Systematic bool      `json:"systematic"`
}

var subModes = []string{"none", "plain", "exclusive", "plain+resolver"}

// pubFaultSets: the single-fault and two-fault scripts enumerated systematically.
var pubFaultSets = []faults{
	{},
	{Grant: 1},
	{Put: 1},
	{PutApplied: 1},
	{KeepAlive: 1},
	{KeepAlive: 2},
	{Grant: 1, KeepAlive: 1},
	{Put: 1, KeepAlive: 1},
	{Revoke: 1},
	{Revoke: 1, KeepAlive: 1},
}

// systematicPubScripts: every trigger x fault set, each with and without a subscriber,
// plus the stop variants. A pure function of nothing: the same list in every run.
func systematicPubScripts() []pubScript {
	var out []pubScript
	for _, kind := range []int{epLost, epEnded, epPauseResume} {
		for _, f := range pubFaultSets {
			if kind == epPauseResume && f.Revoke > 0 {
				continue // a failing Revoke on Pause: the statement is silent about what remains
			}
			for _, sm := range []int{1, 0} {
				out = append(out, pubScript{SubMode: sm, SubFirst: true, Eps: []episode{{Kind: kind, F: f}}, Systematic: true})
			}
		}
	}
	// two episodes in a row, the second one faulty
	for _, k1 := range []int{epLost, epPauseResume} {
		for _, k2 := range []int{epLost, epEnded, epPauseResume} {
			out = append(out, pubScript{SubMode: 2, SubFirst: k1 == epLost, WithID: k2 == epEnded,
				Eps: []episode{{Kind: k1}, {Kind: k2, F: faults{KeepAlive: 1}}}, Systematic: true})
		}
	}
	// stops
	out = append(out,
		pubScript{SubMode: 1, SubFirst: true, Eps: []episode{{Kind: epStop}}, Systematic: true},
		pubScript{SubMode: 1, SubFirst: true, Eps: []episode{{Kind: epPauseStop}}, Systematic: true},
		pubScript{SubMode: 1, SubFirst: true, Eps: []episode{{Kind: epLost, F: faults{Grant: 2}, StopMid: true}}, Systematic: true},
		pubScript{SubMode: 0, Eps: []episode{{Kind: epLost, F: faults{KeepAlive: 2}, StopMid: true}}, Systematic: true},
		pubScript{SubMode: 3, SubFirst: true, Eps: []episode{{Kind: epLost, F: faults{KeepAlive: 1}}}, Systematic: true},
		pubScript{SubMode: 3, SubFirst: false, WithID: true, Eps: []episode{{Kind: epPauseResume, F: faults{Put: 1}}}, Systematic: true},
		// faulty starts
		pubScript{SubMode: 1, SubFirst: true, Start: faults{Grant: 1}, StartRetry: true, Eps: []episode{{Kind: epLost}}, Systematic: true},
		pubScript{SubMode: 1, SubFirst: true, Start: faults{Put: 1}, StartRetry: true, Eps: []episode{{Kind: epStop}}, Systematic: true},
		pubScript{SubMode: 1, SubFirst: true, Start: faults{KeepAlive: 1}, StartRetry: true, Eps: []episode{{Kind: epPauseResume}}, Systematic: true},
		pubScript{SubMode: 0, Start: faults{KeepAlive: 1}, Systematic: true},
		// the etcd client cannot be created at first (connection-level error), the caller retries
		pubScript{SubMode: 1, SubFirst: false, ClientFail: 1, StartRetry: true, Eps: []episode{{Kind: epLost, F: faults{KeepAlive: 1}}}, Systematic: true},
		pubScript{SubMode: 0, ClientFail: 2, StartRetry: true, Opt: "account", Eps: []episode{{Kind: epPauseResume}}, Systematic: true},
		pubScript{SubMode: 2, SubFirst: true, Opt: "tls", Eps: []episode{{Kind: epEnded, F: faults{Grant: 1}}}, Systematic: true},
	)
	return out
}

func randomFaults(r *kit.Rand, allowRevoke bool) faults {
	var f faults
	switch r.Pick(30, 12, 10, 8, 20, 8, 12) {
	case 1:
		f.Grant = r.Range(1, 2)
	case 2:
		f.Put = 1
	case 3:
		f.PutApplied = 1
	case 4:
		f.KeepAlive = r.Pick(0, 3, 1)
	case 5:
		f.Grant, f.KeepAlive = 1, 1
	case 6:
		f.Put, f.KeepAlive = r.Intn(2), 1
		f.PutApplied = 1 - f.Put
	}
	if allowRevoke && r.Chance(0.25) {
		f.Revoke = 1
	}
	return f
}

func randomPubScript(r *kit.Rand) pubScript {
	s := pubScript{WithID: r.Chance(0.25), SubMode: r.Pick(2, 4, 3, 1), SubFirst: r.Chance(0.6)}
	if r.Chance(0.12) {
		s.Start = randomFaults(r, false)
		s.Start.Revoke = 0
		s.StartRetry = r.Chance(0.7)
	} else if r.Chance(0.08) && (s.SubMode == 0 || !s.SubFirst) {
		s.ClientFail = r.Range(1, 2)
		s.StartRetry = true
	}
	s.Opt = []string{"", "account", "tls"}[r.Pick(8, 1, 1)]
	budget := 3 // injected faults cost one real second each
	for i, n := 0, r.Pick(0, 5, 4, 2); i < n; i++ {
		e := episode{Kind: r.Pick(5, 3, 4, 1, 1), Responses: r.Pick(3, 1, 1) * r.Range(1, 20)}
		switch e.Kind {
		case epLost, epEnded:
			e.F = randomFaults(r, true)
		case epPauseResume:
			e.F = randomFaults(r, false)
		}
		if e.F.retries() > budget {
			e.F = faults{Revoke: e.F.Revoke}
		}
		budget -= e.F.retries()
		if (e.Kind == epLost || e.Kind == epEnded) && e.F.retries() > 0 && r.Chance(0.15) {
			e.StopMid = true
		}
		s.Eps = append(s.Eps, e)
		if e.Kind == epStop || e.Kind == epPauseStop || e.StopMid {
			break
		}
	}
	return s
}

// ---------------------------------------------------------------- one history

const (
	stNotStarted = iota
	stLive
	stPaused
	stStopped
)

var stNames = []string{"not-started", "live", "paused", "stopped"}

type pubHist struct {
	c      *kit.Case
	id     string // pprof label of everything this publisher spawns
	s      *pubScript
	ep     string
	key    string
	value  string
	le     *leaseEtcd
	h      *hist // subscriber side (nil: no subscriber in this history)
	pub    *discov.Publisher
	state  int
	steps  []string
	done   bool
	faulty int // episodes with at least one fault that ended registered
}

func (p *pubHist) stepf(format string, a ...any) {
	p.steps = append(p.steps, fmt.Sprintf(format, a...))
}

func (p *pubHist) witness(extra map[string]any) map[string]any {
	w := map[string]any{"endpoint": p.ep, "key": p.key, "value": p.value, "script": p.s, "steps": p.steps,
		"publisher_state": stNames[p.state], "etcd_calls_of_the_publisher": p.le.callLogStrings(),
		"registered_now": p.le.registered(p.key + "/"), "publisher_goroutines": p.goroutines()}
	for k, v := range extra {
		w[k] = v
	}
	return w
}

func (p *pubHist) viol(kind, class, what string, extra map[string]any) {
	p.done = true
	p.c.Obs("pub_violations_"+kind, 1)
	if !takeBudget("pub-" + kind + "/" + class) {
		p.c.Obs("reports_suppressed_pub_"+kind, 1)
		return
	}
	p.c.Viol("C13/"+kind+"/"+class, what, p.witness(extra))
}

func (p *pubHist) inconclusive(why string) {
	p.done = true
	p.c.Obs("pub_inconclusive", 1)
	p.c.Inconclusive(why + " (publisher history " + fmt.Sprint(p.s.G) + ": " + strings.Join(p.steps, "; ") + ")")
}

// goroutines: the stacks of the goroutines that carry this publisher's label (the state
// watcher of the cluster, spawned by the first GetConn, is not the publisher's).
func (p *pubHist) goroutines() []string {
	var out []string
	for _, g := range kit.LabelledGoroutines(p.id) {
		if strings.Contains(g.Stack, "watchConnState") || strings.Contains(g.Stack, "stateWatcher") {
			continue
		}
		out = append(out, fmt.Sprintf("%dx %s", g.Count, kit.TopFrames(g.Stack, 4)))
	}
	sort.Strings(out)
	return out
}

// noGoroutineLeft: two consecutive dumps without a goroutine of this publisher. The label
// is inherited, goroutines of the publisher are spawned by goroutines of the publisher
// only (the harness calls KeepAlive() synchronously and never concurrently with this):
// once none is left none can appear.
func (p *pubHist) noGoroutineLeft() bool {
	if len(p.goroutines()) != 0 {
		return false
	}
	return len(p.goroutines()) == 0
}

const (
	wsSettled = iota
	wsDead
	wsTimeout
)

// pubPatience: watchdog of one wait; the publisher needs one real second per attempt.
func pubPatience(retries int) time.Duration {
	return patience() + time.Duration(retries+1)*5*time.Second
}

// waitFor waits until cond() holds (wsSettled), or no goroutine of the publisher is left
// (wsDead; cond is evaluated once more afterwards by the caller where it matters), or the
// watchdog fires. The ticker only decides when the goroutines are LOOKED at.
func (p *pubHist) waitFor(retries int, cond func() bool) int {
	t := time.NewTimer(pubPatience(retries))
	defer t.Stop()
	look := time.NewTicker(700 * time.Millisecond)
	defer look.Stop()
	for {
		if cond() {
			return wsSettled
		}
		select {
		case <-p.le.pnote:
		case <-look.C:
			if p.noGoroutineLeft() {
				if cond() {
					return wsSettled
				}
				return wsDead
			}
		case <-t.C:
			fired()
			return wsTimeout
		}
	}
}

// call runs a blocking call into the publisher (Pause/Resume are unbuffered channel
// sends) under a watchdog.
func (p *pubHist) call(what string, fn func()) bool {
	done := make(chan any, 1)
	go func() {
		defer func() { done <- recover() }()
		fn()
	}()
	t := time.NewTimer(pubPatience(0))
	defer t.Stop()
	select {
	case pv := <-done:
		if pv != nil {
			p.viol("panic", kit.KeyPart("Publisher."+what), fmt.Sprintf("go-zero panicked in Publisher.%s: %v", what, pv), nil)
			return false
		}
		return true
	case <-t.C:
		fired()
		p.inconclusive("watchdog: Publisher." + what + "() did not return")
		return false
	}
}

// subscriberCheck: marker-synchronised comparison of every subscriber of this history
// with the store.
func (p *pubHist) subscriberCheck(class, descr string) {
	if p.h == nil || p.done {
		return
	}
	p.h.note(class, "%s", descr)
	p.h.sync()
	if p.h.dead {
		p.done = true
	}
	p.c.Obs("pub_subscriber_checks", 1)
}

// checkRegistered: the publisher is live and settled. TimeToLive passes, then the
// registry must hold exactly its one registration.
func (p *pubHist) checkRegistered(trigger string, f faults) {
	class := trigger + "+" + f.class()
	p.le.expireStale()
	reg := p.le.registered(p.key + "/")
	p.c.Obs("pub_registered_checks", 1)
	switch {
	case len(reg) == 0:
		p.viol("publisher-not-registered", class, "the publisher is live and its last KeepAlive call succeeded, but after TimeToLive the registry holds no key under "+p.key+"/", nil)
	case len(reg) > 1:
		p.viol("publisher-duplicate-registration", class, fmt.Sprintf("the publisher is live and settled, but after TimeToLive the registry holds %d keys under %s/", len(reg), p.key), nil)
	case reg[0].Val != p.value:
		p.viol("publisher-wrong-value", class, fmt.Sprintf("registered value %q, the publisher's value is %q", reg[0].Val, p.value), nil)
	case reg[0].Lease == 0:
		p.viol("publisher-registration-without-lease", class, "the publisher's key is not attached to a lease: it would outlive the instance", nil)
	case !reg[0].Kept:
		p.viol("publisher-not-kept-alive", class, "the publisher's key is attached to a lease that has no keep-alive stream", nil)
	}
	if p.done {
		return
	}
	if f.total() > 0 {
		p.faulty++
		p.c.Obs("pub_registered_after_faulty_episode", 1)
	}
	p.subscriberCheck("publisher-"+trigger, fmt.Sprintf("publisher registered after %s [%s]", trigger, f.class()))
}

// checkUnregistered: paused or stopped. After TimeToLive nothing of the publisher is left.
func (p *pubHist) checkUnregistered(how string) {
	p.le.expireStale()
	reg := p.le.registered(p.key + "/")
	p.c.Obs("pub_unregistered_checks", 1)
	if len(reg) > 0 {
		p.viol("publisher-still-registered", how, fmt.Sprintf("the publisher is %s, TimeToLive has passed, and the registry still holds %d key(s) of it", stNames[p.state], len(reg)), nil)
		return
	}
	p.subscriberCheck("publisher-"+how, "publisher unregistered ("+how+")")
}

// gaveUp: live, unregistered, and no goroutine left that could ever register it.
func (p *pubHist) gaveUp(trigger string, f faults, after int) {
	p.le.expireStale()
	reg := p.le.registered(p.key + "/")
	// class: the trigger and the last registration call that failed before it gave up
	class := trigger + "+no-failed-call"
	for _, pc := range p.le.callsAfter(after) {
		if pc.Err != "" && !strings.HasPrefix(pc.Call, "Revoke") && !strings.HasPrefix(pc.Call, "(") {
			class = trigger + "+after-failed-" + strings.ToLower(strings.Fields(pc.Call)[0])
		}
	}
	if len(reg) == 1 && reg[0].Kept && reg[0].Val == p.value {
		// registered and kept alive, but nobody watches the keep-alive stream any more:
		// nothing the statement speaks of is wrong yet
		p.inconclusive("no goroutine of the publisher is left although it is registered and kept alive (after " + class + " [" + f.class() + "])")
		return
	}
	var since []string
	for _, pc := range p.le.callsAfter(after) {
		since = append(since, pc.String())
	}
	p.viol("publisher-gave-up", class, fmt.Sprintf("the publisher is live (started, not paused, not stopped) and the scripted etcd is healthy again, but no goroutine of the publisher is alive any more and after TimeToLive the registry holds %d key(s) under %s/: it will never be registered again", len(reg), p.key),
		map[string]any{"etcd_calls_since_the_stimulus": since, "faults_not_consumed": p.le.faultsLeft()})
}

func (p *pubHist) start() {
	s := p.s
	attempt := func(f faults) (error, bool) {
		p.le.setFaults(f)
		var err error
		var pv any
		kit.WithLabel(p.id, func() {
			pv = guard(func() { err = p.pub.KeepAlive() })
		})
		if pv != nil {
			p.viol("panic", "Publisher.KeepAlive", fmt.Sprintf("go-zero panicked in Publisher.KeepAlive: %v", pv), nil)
			return nil, false
		}
		return err, true
	}
	for i := 0; i < s.ClientFail; i++ {
		// connection-level: the registry cannot create its etcd client; KeepAlive() has to
		// report that, the caller tries again
		p.stepf("KeepAlive() while the etcd client cannot be created")
		err, ok := attempt(faults{})
		if !ok {
			return
		}
		if err == nil {
			p.c.Obs("pub_client_errors_not_returned", 1)
			break
		}
		p.steps[len(p.steps)-1] += " -> error: " + err.Error()
		p.c.Obs("pub_client_errors_returned", 1)
	}
	p.stepf("KeepAlive() [%s]", s.Start.class())
	err, ok := attempt(s.Start)
	if !ok {
		return
	}
	hit := s.Start.total() - p.le.faultsLeft().total()
	p.le.setFaults(faults{})
	if err != nil {
		p.c.Obs("pub_start_errors", 1)
		if hit == 0 {
			p.viol("publisher-start-failed", "healthy-etcd", "KeepAlive() returned an error although no call to etcd failed: "+err.Error(), nil)
			return
		}
		p.steps[len(p.steps)-1] += " -> error: " + err.Error()
		if !s.StartRetry {
			// not started: whatever the failed attempt left behind goes with its lease
			p.checkUnregistered("start-failed")
			p.done = true
			return
		}
		p.stepf("KeepAlive() again (the caller retries on a healthy etcd)")
		err, ok = attempt(faults{})
		if !ok {
			return
		}
		if err != nil {
			p.viol("publisher-start-failed", "healthy-etcd-after-failed-start", "the second KeepAlive() returned an error although no call to etcd failed: "+err.Error(), nil)
			return
		}
		p.c.Obs("pub_start_retried", 1)
	}
	p.state = stLive
	p.c.Obs("pub_started", 1)
	// KeepAlive() returned nil: it is live, and it has made its calls synchronously
	if !p.le.keptAliveAfter(0) {
		p.viol("publisher-not-registered", "start+"+s.Start.class(), "KeepAlive() returned nil without a successful KeepAlive call to etcd", nil)
		return
	}
	f := faults{}
	if hit > 0 && err == nil {
		f = s.Start
	}
	p.checkRegistered("start", f)
}

// reRegistration: the stimulus (serial `after`) made the publisher go through its retry
// loop with faults f scripted; wait until it settled and check.
func (p *pubHist) reRegistration(trigger string, e episode, after int) {
	f := e.F
	if e.StopMid {
		// wait for the first failed registration call, then stop in the middle of the retries
		switch p.waitFor(f.retries(), func() bool { return p.le.sawAfter(after, "") || p.le.keptAliveAfter(after) }) {
		case wsDead:
			p.gaveUp(trigger, f, after)
			return
		case wsTimeout:
			p.inconclusive("watchdog: the publisher made no call after " + trigger)
			return
		}
		p.stepf("Stop() in the middle of the retries")
		if !p.call("Stop", p.pub.Stop) {
			return
		}
		p.state = stStopped
		p.le.setFaults(faults{})
		p.c.Obs("pub_stops_during_retries", 1)
		p.awaitGone("stopped-during-retries")
		return
	}
	switch p.waitFor(f.retries(), func() bool { return p.le.keptAliveAfter(after) }) {
	case wsSettled:
		p.c.Obs("pub_reregistrations", 1)
		p.c.Obs("pub_faults_consumed", int64(f.total()-p.le.faultsLeft().total()))
		p.checkRegistered(trigger, f)
	case wsDead:
		p.gaveUp(trigger, f, after)
	case wsTimeout:
		p.inconclusive(fmt.Sprintf("watchdog: the publisher is still retrying after %s [%s] (goroutines: %v)", trigger, f.class(), p.goroutines()))
	}
}

// awaitGone: after Stop() every goroutine of the publisher ends (it revokes on its way
// out where it holds a registration); then nothing may be left registered.
func (p *pubHist) awaitGone(how string) {
	t := time.NewTimer(pubPatience(1))
	defer t.Stop()
	look := time.NewTicker(300 * time.Millisecond)
	defer look.Stop()
	for !p.noGoroutineLeft() {
		select {
		case <-p.le.pnote:
		case <-look.C:
		case <-t.C:
			fired()
			// the statement does not speak about goroutines: decide the registration on
			// what is there, once it stopped changing
			p.c.Obs("pub_goroutines_left_after_stop", 1)
			p.checkUnregistered(how)
			p.done = true
			return
		}
	}
	p.checkUnregistered(how)
	p.done = true
}

// awaitRevoked: after Pause() the registration is revoked. Decided by the Revoke call the
// scripted etcd sees; where it does not come, by the publisher's goroutines having
// stopped moving (identical dumps), never by a deadline.
func (p *pubHist) awaitRevoked(after int) bool {
	t := time.NewTimer(pubPatience(0))
	defer t.Stop()
	look := time.NewTicker(400 * time.Millisecond)
	defer look.Stop()
	prev, same := "", 0
	for {
		if p.le.sawAfter(after, "Revoke") {
			return true
		}
		select {
		case <-p.le.pnote:
		case <-look.C:
			cur := strings.Join(p.goroutines(), "|")
			if cur == prev {
				same++
			} else {
				prev, same = cur, 0
			}
			if same >= 5 {
				// at rest without having revoked: the check that follows decides
				p.c.Obs("pub_pauses_without_revoke", 1)
				return true
			}
		case <-t.C:
			fired()
			p.inconclusive("watchdog: publisher neither revoked nor came to rest after Pause()")
			return false
		}
	}
}

func (p *pubHist) episodes() {
	for _, e := range p.s.Eps {
		if p.done || p.state != stLive {
			break
		}
		if e.Responses > 0 {
			p.le.respond(e.Responses)
			p.c.Obs("pub_keepalive_responses", int64(e.Responses))
		}
		switch e.Kind {
		case epLost, epEnded:
			p.le.setFaults(e.F)
			after, lease, ok := p.le.endStream(e.Kind == epLost)
			if !ok {
				p.inconclusive("no keep-alive stream to end")
				return
			}
			p.stepf("%s (lease %d) [%s]%s", epNames[e.Kind], lease, e.F.class(), map[bool]string{true: " + Stop() during the retries"}[e.StopMid])
			p.c.Obs("pub_episodes_"+epNames[e.Kind], 1)
			p.reRegistration(epNames[e.Kind], e, after)
		case epPauseResume, epPauseStop:
			after := p.le.serial()
			p.stepf("Pause()")
			if !p.call("Pause", p.pub.Pause) {
				return
			}
			p.state = stPaused
			if !p.awaitRevoked(after) {
				return
			}
			p.c.Obs("pub_pauses", 1)
			p.checkUnregistered("paused")
			if p.done {
				return
			}
			if e.Kind == epPauseStop {
				p.stepf("Stop() while paused")
				if !p.call("Stop", p.pub.Stop) {
					return
				}
				p.state = stStopped
				p.c.Obs("pub_stops_while_paused", 1)
				p.awaitGone("stopped-while-paused")
				return
			}
			after = p.le.setFaults(e.F)
			p.stepf("Resume() [%s]", e.F.class())
			if !p.call("Resume", p.pub.Resume) {
				return
			}
			p.state = stLive
			p.c.Obs("pub_episodes_pause-resume", 1)
			p.reRegistration("resume", e, after)
		case epStop:
			p.stepf("Stop() while registered")
			if !p.call("Stop", p.pub.Stop) {
				return
			}
			p.state = stStopped
			p.c.Obs("pub_stops_while_registered", 1)
			p.awaitGone("stopped")
			return
		}
	}
}

var pubSeq struct {
	sync.Mutex
	n int64
}

func runPubHistory(c *kit.Case, s *pubScript, ep string) {
	s.Sub = subModes[s.SubMode]
	for i := range s.Eps {
		s.Eps[i].Name = epNames[s.Eps[i].Kind]
	}
	pubSeq.Lock()
	pubSeq.n++
	n := pubSeq.n
	pubSeq.Unlock()
	f := newFake(sharedConn)
	le := newLeaseEtcd(f, 7587848943834334000+n*1000)
	clientFails := s.ClientFail
	var cfMu sync.Mutex
	setClientFor(ep, func() (any, error) {
		cfMu.Lock()
		defer cfMu.Unlock()
		if clientFails > 0 {
			clientFails--
			return nil, errors.New("context deadline exceeded (client creation failure injected by the c13 harness)")
		}
		return le, nil
	})
	p := &pubHist{c: c, id: fmt.Sprintf("%s#pub%d", c.ID, s.G), s: s, ep: ep, key: "svc", value: fmt.Sprintf("10.9.%d.%d:8080", (s.G/250)%250, s.G%250), le: le}
	var opts []discov.PubOption
	if s.WithID {
		opts = append(opts, discov.WithId(int64(7000+s.G)))
	}
	switch s.Opt {
	case "account":
		opts = append(opts, discov.WithPubEtcdAccount("verif", "secret"))
		c.Obs("pub_with_account_option", 1)
	case "tls":
		if cert, key, ca, err := tlsFiles(); err == nil {
			opts = append(opts, discov.WithPubEtcdTLS(cert, key, ca, true))
			c.Obs("pub_with_tls_option", 1)
		}
	}
	p.pub = discov.NewPublisher([]string{ep}, p.key, p.value, opts...)
	mkSubs := func() {
		if s.SubMode == 0 {
			return
		}
		p.h = newHistOn(c, f, ep, p.key)
		p.h.sigParts = []any{"publisher"}
		p.h.note("initial-load", "SUBSCRIBE S0 %s", s.Sub)
		p.h.addSub("S0", s.SubMode == 2, false, 1)
		if s.SubMode == 3 {
			p.h.note("resolver-build", "BUILD discov resolver on the same endpoint/key")
			p.h.addResolver("R")
		}
		p.h.sync()
		if p.h.dead {
			p.done = true
		}
	}
	if s.SubFirst {
		mkSubs()
	}
	if !p.done {
		if !s.SubFirst && s.SubMode != 0 {
			// start first, subscribe afterwards: the registration is learnt from the initial load
			p.start()
			if !p.done {
				mkSubs()
				p.subscriberCheck("initial-load", "subscriber created after the publisher registered")
			}
			if !p.done {
				p.episodes()
			}
		} else {
			p.start()
			if !p.done {
				p.episodes()
			}
		}
	}
	// wrap up
	if p.state == stLive || p.state == stPaused {
		guard(p.pub.Stop)
	}
	if p.h != nil {
		for _, sr := range p.h.subs {
			p.h.closeSub(sr)
		}
		p.c.Obs("pub_histories_with_subscriber", 1)
		p.c.Obs("sync_points", int64(p.h.syncs))
	}
	le.lmu.Lock()
	c.Obs("pub_etcd_grant_calls", le.nGrant)
	c.Obs("pub_etcd_put_calls", le.nPut)
	c.Obs("pub_etcd_keepalive_calls", le.nKA)
	c.Obs("pub_etcd_revoke_calls", le.nRevoke)
	c.Obs("pub_etcd_calls_failed", le.nFailed)
	c.Obs("pub_leases_expired_by_ttl", le.nExpired)
	le.lmu.Unlock()
	c.Obs("pub_histories", 1)
	parts := []any{"publisher", s.WithID, s.Sub, s.SubFirst, s.Start.class(), s.StartRetry, s.ClientFail, s.Opt}
	for _, st := range p.steps {
		parts = append(parts, stripLease(st))
	}
	c.Sig(p.faulty > 0, parts...)
	if s.G < 3 || (s.G%40 == 7) {
		c.Sample("publisher", 3, map[string]any{"script": s, "steps": p.steps, "etcd_calls": le.callLogStrings()})
	}
}

// stripLease removes the lease numbers from a step description (they differ per process).
func stripLease(s string) string {
	if i := strings.Index(s, "(lease "); i >= 0 {
		if j := strings.Index(s[i:], ")"); j >= 0 {
			return s[:i] + s[i+j+1:]
		}
	}
	return s
}

// ---------------------------------------------------------------- the family

// pubConc publisher histories run concurrently in one case: each needs real seconds (the
// retry ticker of the publisher) but hardly any CPU. The scripts are generated up front
// from the case's random stream; every history has its own endpoint (its own cluster
// object), scripted etcd, pprof label and private copy of the case handle.
const pubConc = 24

func publisherCase(c *kit.Case) {
	sys := systematicPubScripts()
	scripts := make([]*pubScript, pubConc)
	eps := make([]string, pubConc)
	for j := range scripts {
		g := c.Index*pubConc + j
		var s pubScript
		if g < len(sys) {
			s = sys[g]
		} else {
			s = randomPubScript(c.R)
		}
		s.G = g
		scripts[j] = &s
		routeSeq++
		eps[j] = fmt.Sprintf("c13-pub-%d-%d.verif:2379", kit.GetEnv().Seed, routeSeq)
	}
	var wg sync.WaitGroup
	panics := make([]any, pubConc)
	for j := range scripts {
		wg.Add(1)
		go func(j int) {
			defer wg.Done()
			defer func() { panics[j] = recover() }()
			cc := *c
			runPubHistory(&cc, scripts[j], eps[j])
		}(j)
	}
	wg.Wait()
	for _, pv := range panics {
		if pv != nil {
			panic(pv) // a harness error: let kit.Run report it
		}
	}
	c.Evals(pubConc)
}
