// Package c13: service-discovery view vs. the live registrations (DESIGN.md §4 C13).
//
// The REAL discov.NewSubscriber (plain, Exclusive(), WithExactMatch()) and the REAL
// "discov" gRPC resolver builder (fetched from grpc's resolver registry after
// zrpc/resolver.Register()) run on the real registry/cluster code against a scripted
// etcd (fake_test.go) installed through the verif hook
// discov.VerifSetEtcdClientFactory.
//
// Synchronisation is causal, never by deadline: a watch stream is handled
// sequentially, so every step ends with a marker PUT of a fresh key/value under the
// watched prefix; once a listener has observed the marker value every earlier event
// has been applied and the comparison is exact. A reload step first waits until the
// scripted client has seen go-zero's follow-up Watch call (load and handleChanges are
// then complete) before the marker is put. Wall-clock timers exist only as watchdogs
// whose firing is reported as inconclusive.
//
// Two "go-zero never does X" outcomes are decided from what the scripted etcd sees
// instead of by a watchdog:
//   - no reload after a compaction: go-zero re-issues Watch at a compacted revision
//     refusalsWithoutLoad times in a row (each refused, as etcd would) without a Get
//     -> hist.reloadMissing, key C13/reload-missing/compaction-not-followed-by-load;
//   - an observer is never shown the marker: go-zero received a progress notification
//     queued BEHIND the marker's response (hist.await) -> the ordinary comparison runs
//     at once and names what is wrong.
//
// Per process the first reportsPerChild outcomes of each kind are reported, the rest
// only counted, so that a tree broken in one of these ways ends quickly.
package c13

import (
	"context"
	"errors"
	"fmt"
	"net"
	"net/url"
	"os"
	"sort"
	"strings"
	"sync"
	"testing"
	"time"

	"github.com/zeromicro/go-zero/core/discov"
	"github.com/zeromicro/go-zero/core/logx"
	zresolver "github.com/zeromicro/go-zero/zrpc/resolver"
	clientv3 "go.etcd.io/etcd/client/v3"
	"google.golang.org/grpc"
	"google.golang.org/grpc/connectivity"
	"google.golang.org/grpc/credentials/insecure"
	gresolver "google.golang.org/grpc/resolver"
	"google.golang.org/grpc/serviceconfig"

	"verifharness/kit"
)

// ---------------------------------------------------------------- client routing

// router is what the hook's factory returns for an endpoint: it forwards Get/Watch
// to the scripted store registered for the first path segment of the key, so that
// many small histories can share one cluster object (one parked state-watcher
// goroutine) while each has its own store.
type router struct {
	mu     sync.Mutex
	routes map[string]*fakeEtcd
	grave  *fakeEtcd
	conn   *grpc.ClientConn
}

func seg(key string) string {
	if i := strings.IndexByte(key, '/'); i >= 0 {
		return key[:i]
	}
	return key
}

func (r *router) route(key string) *fakeEtcd {
	r.mu.Lock()
	defer r.mu.Unlock()
	f := r.routes[seg(key)]
	if f == nil {
		// a watch that go-zero re-established after its history ended (it has no listeners
		// any more): serve it from an inert store
		if r.grave == nil {
			r.grave = newFake(r.conn)
		}
		return r.grave
	}
	return f
}

func (r *router) ActiveConnection() *grpc.ClientConn { return r.conn }
func (r *router) Close() error                       { return nil }
func (r *router) Ctx() context.Context               { return context.Background() }
func (r *router) Get(ctx context.Context, key string, opts ...clientv3.OpOption) (*clientv3.GetResponse, error) {
	return r.route(key).Get(ctx, key, opts...)
}
func (r *router) Watch(ctx context.Context, key string, opts ...clientv3.OpOption) clientv3.WatchChan {
	return r.route(key).Watch(ctx, key, opts...)
}
func (r *router) Grant(context.Context, int64) (*clientv3.LeaseGrantResponse, error) {
	return nil, errUnused
}
func (r *router) KeepAlive(context.Context, clientv3.LeaseID) (<-chan *clientv3.LeaseKeepAliveResponse, error) {
	return nil, errUnused
}
func (r *router) Put(context.Context, string, string, ...clientv3.OpOption) (*clientv3.PutResponse, error) {
	return nil, errUnused
}
func (r *router) Revoke(context.Context, clientv3.LeaseID) (*clientv3.LeaseRevokeResponse, error) {
	return nil, errUnused
}

var (
	routersMu  sync.Mutex
	routers    = map[string]*router{}
	sharedConn *grpc.ClientConn
)

func newRouter(endpoint string, conn *grpc.ClientConn) *router {
	r := &router{routes: map[string]*fakeEtcd{}, conn: conn}
	routersMu.Lock()
	routers[endpoint] = r
	routersMu.Unlock()
	return r
}

// clientFor: endpoints served by something else than a router (a scripted etcd with
// leases, a factory that fails for a while); consulted first. Guarded by routersMu.
var clientFor = map[string]func() (any, error){}

func setClientFor(endpoint string, mk func() (any, error)) {
	routersMu.Lock()
	clientFor[endpoint] = mk
	routersMu.Unlock()
}

func installFactory() {
	discov.VerifSetEtcdClientFactory(func(endpoints []string) (any, error) {
		routersMu.Lock()
		mk := clientFor[endpoints[0]]
		routersMu.Unlock()
		if mk != nil {
			return mk()
		}
		routersMu.Lock()
		defer routersMu.Unlock()
		r := routers[endpoints[0]]
		if r == nil {
			return nil, fmt.Errorf("c13 harness: unknown endpoint %v", endpoints)
		}
		return r, nil
	})
}

// ---------------------------------------------------------------- observers

type lisRec struct {
	mu      sync.Mutex
	calls   int
	last    []string
	sig     chan struct{}
	demBase int
	panicV  string // go-zero panicked while the observer asked for the view
}

func (l *lisRec) recordPanic(v any) {
	l.mu.Lock()
	l.calls++
	l.panicV = fmt.Sprint(v)
	l.mu.Unlock()
	select {
	case l.sig <- struct{}{}:
	default:
	}
}

func (l *lisRec) panicked() string {
	l.mu.Lock()
	defer l.mu.Unlock()
	return l.panicV
}

// safeValues calls Values() and turns a panic of go-zero into a value.
func safeValues(sub *discov.Subscriber) (vals []string, p any) {
	defer func() { p = recover() }()
	return append([]string(nil), sub.Values()...), nil
}

func newLis() *lisRec { return &lisRec{sig: make(chan struct{}, 1)} }

func (l *lisRec) record(vals []string) int {
	v := append([]string(nil), vals...)
	sort.Strings(v)
	l.mu.Lock()
	l.calls++
	n := l.calls
	l.last = v
	l.mu.Unlock()
	select {
	case l.sig <- struct{}{}:
	default:
	}
	return n
}

func (l *lisRec) snapshot() (int, []string) {
	l.mu.Lock()
	defer l.mu.Unlock()
	return l.calls, l.last
}

func has(vs []string, x string) bool {
	for _, v := range vs {
		if v == x {
			return true
		}
	}
	return false
}

const (
	awSeen = iota
	awHandled
	awTimeout
)

// probe: one progress notification per feed and synchronisation, sent lazily.
type probe struct {
	asked bool
	done  chan struct{}
}

// nudge is how long an observer is waited for before the scripted etcd is asked whether
// go-zero has got past the marker. It only decides WHEN the question is put; the
// answer is causal. Once a process has had several such outcomes the question is put
// at once.
func nudge() time.Duration {
	if budgetSpent("marker-handled-unseen") {
		return 0
	}
	return time.Second
}

// await waits until observer l has been shown the marker value (awSeen), or until
// go-zero provably finished handling the watch response carrying the marker without
// l having been shown it (awHandled: decided from the order of responses on the
// stream, never from elapsed time), or until the watchdog fires (awTimeout).
func (h *hist) await(l *lisRec, fk wkey, marker string, pr *probe) int {
	seen := func() bool {
		_, last := l.snapshot()
		return has(last, marker) || l.panicked() != ""
	}
	t := time.NewTimer(patience())
	defer t.Stop()
	var ask <-chan time.Time
	if !pr.asked {
		n := time.NewTimer(nudge())
		defer n.Stop()
		ask = n.C
	}
	for {
		if seen() {
			return awSeen
		}
		select {
		case <-l.sig:
		case <-ask:
			ask = nil
			pr.asked = true
			pr.done = h.f.probe(fk)
		case <-pr.done:
			if seen() {
				return awSeen
			}
			return awHandled
		case <-t.C:
			fired()
			return awTimeout
		}
	}
}

// stable waits until the listener has not been called between two looks a generous
// interval apart ("state did not change"), used only to double-check a mismatch.
func (l *lisRec) stable() {
	prev, _ := l.snapshot()
	for i := 0; i < 40; i++ {
		time.Sleep(250 * time.Millisecond)
		cur, _ := l.snapshot()
		if cur == prev {
			return
		}
		prev = cur
	}
}

// resRec is the recording resolver.ClientConn handed to the discov builder.
type resRec struct {
	gresolver.ClientConn
	lisRec
	// hook runs inside UpdateState, after the list has been recorded as published, on the
	// stack of whoever publishes (Build, or go-zero's watch goroutine); no lock is held,
	// go-zero may publish again from another goroutine meanwhile. Set before Build only.
	hook func(call int)
	// errEvery > 0: every errEvery-th UpdateState records the list and then returns an
	// error, as grpc's ClientConn does when the balancer rejects a state
	// (balancer.ErrBadResolverState); later publications must still come. Set before Build.
	errEvery int
}

var errBadResolverState = errors.New("bad resolver state (returned by the recording ClientConn of the c13 harness)")

func (r *resRec) UpdateState(s gresolver.State) error {
	addrs := make([]string, 0, len(s.Addresses))
	for _, a := range s.Addresses {
		addrs = append(addrs, a.Addr)
	}
	n := r.record(addrs)
	if r.hook != nil {
		r.hook(n)
	}
	if r.errEvery > 0 && n%r.errEvery == 0 {
		return errBadResolverState
	}
	return nil
}
func (r *resRec) ReportError(error)              {}
func (r *resRec) NewAddress([]gresolver.Address) {}
func (r *resRec) NewServiceConfig(string)        {}
func (r *resRec) ParseServiceConfig(string) *serviceconfig.ParseResult {
	return nil
}

type subRec struct {
	name   string
	mode   string // plain | exclusive | exact | exact-exclusive | resolver
	excl   bool
	wk     wkey // the range the statement speaks about
	fk     wkey // the range go-zero actually asked the scripted etcd for
	sub    *discov.Subscriber
	res    *resRec
	rs     gresolver.Resolver
	lis    []*lisRec
	m      *mirror
	closed bool
	large  bool // resolver over more than 32 values: subset semantics
}

func (s *subRec) values() ([]string, any) {
	if s.sub != nil {
		return safeValues(s.sub)
	}
	_, last := s.res.snapshot()
	return last, nil
}

// ---------------------------------------------------------------- one history

type hist struct {
	c         *kit.Case
	f         *fakeEtcd
	ep        string
	prefix    string
	pwk       wkey // prefix feed
	xwk       wkey // exact feed
	subs      []*subRec
	markerN   int
	markerKey string
	log       []string
	class     string
	reported  map[string]bool
	dead      bool // stop the history (violation reported or inconclusive)
	reloads   int
	missedOps int
	syncs     int
	sigParts  []any
	extraOpts []discov.SubOption // further options for every subscriber of this history (faults_test.go)
	hosts     []string           // the endpoint list handed to go-zero (default: the one endpoint ep)
	// subErrClass != "": an error of NewSubscriber / resolver Build is reported as a
	// violation of that class instead of being treated as a harness failure
	subErrClass string
	resErrEvery int // the recording ClientConn of resolvers built from now on fails every n-th UpdateState
	// resHook, if set, supplies the hook of the recording ClientConn of every resolver built
	// from now on (multi_test.go: actions placed inside a publication)
	resHook func(s *subRec) func(call int)
	// sticky != "": every violation of this history is filed under this class (multi_test.go:
	// once a subscriber was created WHILE events were in flight, damage may surface steps later)
	sticky string
}

func (h *hist) cls() string {
	if h.sticky != "" {
		return h.sticky
	}
	return h.class
}

func (h *hist) endpoints() []string {
	if len(h.hosts) > 0 {
		return append([]string(nil), h.hosts...)
	}
	return []string{h.ep}
}

func newHist(c *kit.Case, rt *router, ep, prefix string) *hist {
	f := newFake(rt.conn)
	rt.mu.Lock()
	rt.routes[prefix] = f
	rt.mu.Unlock()
	return newHistOn(c, f, ep, prefix)
}

// newHistOn: a history on a scripted store the caller has made reachable itself.
func newHistOn(c *kit.Case, f *fakeEtcd, ep, prefix string) *hist {
	end := []byte(prefix + "/")
	end[len(end)-1]++
	return &hist{c: c, f: f, ep: ep, prefix: prefix, pwk: wkey{key: prefix + "/", end: string(end)}, xwk: wkey{key: prefix},
		reported: map[string]bool{}}
}

func (h *hist) note(class, format string, a ...any) {
	h.class = class
	h.log = append(h.log, fmt.Sprintf(format, a...))
}

func (h *hist) addSub(name string, excl, exact bool, nLis int) *subRec {
	var opts []discov.SubOption
	mode := "plain"
	if excl {
		opts = append(opts, discov.Exclusive())
		mode = "exclusive"
	}
	wk := h.pwk
	if exact {
		opts = append(opts, discov.WithExactMatch())
		wk = h.xwk
		if excl {
			mode = "exact-exclusive"
		} else {
			mode = "exact"
		}
	}
	opts = append(opts, h.extraOpts...)
	s := &subRec{name: name, mode: mode, excl: excl, wk: wk}
	if h.dead {
		s.closed = true
		s.m = newMirror(excl, wk, 0)
		h.subs = append(h.subs, s)
		return s
	}
	joining := false
	for _, o := range h.subs {
		if !o.closed && o.wk == wk {
			joining = true
			s.fk = o.fk
		}
	}
	g0, w0, _ := h.f.totals()
	pos := 0
	var joinSnap map[string]string
	if joining {
		pos = h.f.transLen(s.fk)
		joinSnap = h.f.current(s.fk) // quiescent: equals what the registry holds
	}
	var sub *discov.Subscriber
	var err error
	lens := h.f.transLens() // a feed that exists already (re-subscription after every subscriber was closed) is followed from here
	if p := guard(func() { sub, err = discov.NewSubscriber(h.endpoints(), h.prefix, opts...) }); p != nil {
		h.subs = append(h.subs, s)
		s.closed = true
		s.m = newMirror(excl, wk, 0)
		h.panicViol(s, "NewSubscriber", p)
		return s
	}
	if err != nil {
		if h.subErrClass == "" {
			panic("c13 harness: NewSubscriber: " + err.Error())
		}
		// a history that scripted faults before: the etcd is healthy now, so this is go-zero's
		h.subs = append(h.subs, s)
		s.closed = true
		s.m = newMirror(excl, wk, 0)
		h.dead = true
		h.c.Viol("C13/subscribe-failed/"+h.subErrClass, "NewSubscriber returned an error on a healthy scripted etcd: "+err.Error(),
			map[string]any{"endpoint": h.ep, "watched_key": h.prefix, "steps": h.log, "error": err.Error(), "registered_now": h.f.current(wk)})
		return s
	}
	s.sub = sub
	s.m = newMirror(excl, wk, pos)
	if joining {
		s.m.consume([]titem{{kind: tJoin, snap: joinSnap}})
		s.m.pos = pos
	} else {
		// the watch is started from a goroutine: wait for its Watch call so that no harness
		// action overlaps with go-zero's own start-up; the range it asked for is its feed
		if !h.f.waitTotals(g0+1, w0+1) {
			h.inconclusive("watchdog: no Get+Watch after NewSubscriber")
		}
		_, _, s.fk = h.f.totals()
		s.m = newMirror(excl, wk, lens[s.fk])
		s.m.consume(h.f.transcript(s.fk, lens[s.fk]))
	}
	for i := 0; i < nLis; i++ {
		l := newLis()
		l.demBase = s.m.demanded
		sub.AddListener(func() {
			if v, p := safeValues(sub); p != nil {
				l.recordPanic(p)
			} else {
				l.record(v)
			}
		})
		s.lis = append(s.lis, l)
	}
	h.subs = append(h.subs, s)
	h.c.Obs("subscribers_"+mode, 1)
	return s
}

func (h *hist) addResolver(name string) *subRec {
	b := gresolver.Get("discov")
	if b == nil {
		panic("c13 harness: discov resolver scheme not registered")
	}
	u, err := url.Parse("discov://" + strings.Join(h.endpoints(), ",") + "/" + h.prefix)
	if err != nil {
		panic(err)
	}
	s := &subRec{name: name, mode: "resolver", wk: h.pwk, res: &resRec{lisRec: *newLis(), errEvery: h.resErrEvery}}
	if h.resHook != nil {
		s.res.hook = h.resHook(s)
	}
	if h.dead {
		s.closed = true
		s.m = newMirror(false, h.pwk, 0)
		h.subs = append(h.subs, s)
		return s
	}
	joining := false
	for _, o := range h.subs {
		if !o.closed && o.wk == h.pwk {
			joining = true
			s.fk = o.fk
		}
	}
	g0, w0, _ := h.f.totals()
	pos := 0
	var joinSnap map[string]string
	if joining {
		pos = h.f.transLen(s.fk)
		joinSnap = h.f.current(s.fk)
	}
	var rs gresolver.Resolver
	lens := h.f.transLens()
	if p := guard(func() { rs, err = b.Build(gresolver.Target{URL: *u}, s.res, gresolver.BuildOptions{}) }); p != nil {
		h.subs = append(h.subs, s)
		s.closed = true
		s.m = newMirror(false, h.pwk, 0)
		h.panicViol(s, "resolver Build", p)
		return s
	}
	if err != nil {
		if h.subErrClass == "" {
			panic("c13 harness: discov Build: " + err.Error())
		}
		h.subs = append(h.subs, s)
		s.closed = true
		s.m = newMirror(false, h.pwk, 0)
		h.dead = true
		h.c.Viol("C13/resolver-build-failed/"+h.subErrClass, "the discov resolver's Build returned an error on a healthy scripted etcd: "+err.Error(),
			map[string]any{"endpoint": h.ep, "watched_key": h.prefix, "steps": h.log, "error": err.Error()})
		return s
	}
	s.rs = rs
	s.m = newMirror(false, h.pwk, pos)
	if joining {
		s.m.consume([]titem{{kind: tJoin, snap: joinSnap}})
		s.m.pos = pos
	} else {
		if !h.f.waitTotals(g0+1, w0+1) {
			h.inconclusive("watchdog: no Get+Watch after resolver Build")
		}
		_, _, s.fk = h.f.totals()
		s.m = newMirror(false, h.pwk, lens[s.fk])
		s.m.consume(h.f.transcript(s.fk, lens[s.fk]))
	}
	h.subs = append(h.subs, s)
	h.c.Obs("resolvers_built", 1)
	return s
}

func (h *hist) closeSub(s *subRec) {
	if s.closed {
		return
	}
	s.closed = true
	guard(func() {
		if s.rs != nil {
			s.rs.Close()
		} else {
			s.sub.Close()
		}
	})
}

// guard runs a call into go-zero and returns what it panicked with, if it did.
func guard(fn func()) (p any) {
	defer func() { p = recover() }()
	fn()
	return nil
}

func (h *hist) panicViol(s *subRec, where string, p any) {
	h.dead = true
	key := "C13/panic/" + kit.KeyPart(where)
	if h.reported[key] {
		return
	}
	h.reported[key] = true
	h.c.Viol(key, fmt.Sprintf("go-zero panicked in %s of %s subscriber %s: %v", where, s.mode, s.name, p),
		map[string]any{"endpoint": h.ep, "watched_key": h.prefix, "steps": h.log, "panic": fmt.Sprint(p)})
}

func (h *hist) finish() {
	for _, s := range h.subs {
		h.closeSub(s)
	}
	f := h.f
	f.mu.Lock()
	d, r, sn, cp := f.nDelivered, f.nReplayed, f.nSnaps, f.nCompacted
	f.mu.Unlock()
	h.c.Obs("watch_events_delivered", d)
	h.c.Obs("watch_events_replayed", r)
	h.c.Obs("snapshots_served", sn)
	h.c.Obs("compaction_responses", cp)
	h.c.Obs("sync_points", int64(h.syncs))
	h.c.Obs("reload_steps", int64(h.reloads))
	h.c.Obs("ops_missed_during_partition", int64(h.missedOps))
	var chW, chR, snd, shared int64
	for _, s := range h.subs {
		chW += s.m.nChangeWatch
		chR += s.m.nChangeReload
		snd += s.m.nSnapDiff
		shared += s.m.nShared
		for _, l := range s.lis {
			n, _ := l.snapshot()
			h.c.Obs("listener_notifications", int64(n))
		}
		if s.res != nil {
			n, _ := s.res.snapshot()
			h.c.Obs("resolver_update_state_calls", int64(n))
		}
	}
	h.c.Obs("key_changed_value_seen_via_watch", chW)
	h.c.Obs("key_changed_value_seen_via_reload_diff", chR)
	h.c.Obs("reload_snapshots_with_nonempty_diff", snd)
	h.c.Obs("states_with_value_shared_by_keys", shared)
	h.c.Obs("histories", 1)
	nontrivial := (chW+chR > 0 || shared > 0) && h.reloads > 0
	parts := append([]any{}, h.sigParts...)
	for _, l := range h.log {
		parts = append(parts, l)
	}
	h.c.Sig(nontrivial, parts...)
}

func (h *hist) inconclusive(why string) {
	h.dead = true
	h.c.Inconclusive(why + " (history: " + strings.Join(h.log, "; ") + ")")
}

// sync puts a marker, waits until every open observer has seen it, and compares.
func (h *hist) sync() {
	if h.dead {
		return
	}
	var mv string
	for attempt := 0; ; attempt++ {
		probes := map[wkey]*probe{}
		var decided []*lisRec
		if attempt == 6 {
			h.inconclusive("reloads kept happening while synchronising")
			return
		}
		g0, w0, _ := h.f.totals()
		h.markerN++
		mk := fmt.Sprintf("%s/~m%d", h.prefix, h.markerN)
		mv = fmt.Sprintf("marker-%d", h.markerN)
		if h.markerKey != "" {
			h.f.apply(op{del: true, k: h.markerKey})
		}
		h.f.apply(op{k: mk, v: mv})
		h.markerKey = mk
		for _, s := range h.subs {
			if s.closed {
				continue
			}
			if s.wk == h.xwk {
				if !h.f.progress(s.fk) {
					h.inconclusive("watchdog: progress notification on the exact-match stream was not received")
					return
				}
				continue
			}
			pr := probes[s.fk]
			if pr == nil {
				pr = &probe{}
				probes[s.fk] = pr
			}
			for i, l := range s.lis {
				switch h.await(l, s.fk, mv, pr) {
				case awHandled:
					decided = append(decided, l)
				case awTimeout:
					h.inconclusive(fmt.Sprintf("watchdog: listener %d of %s never observed marker %s", i, s.name, mv))
					return
				}
			}
			if s.res != nil && !s.large {
				switch h.await(&s.res.lisRec, s.fk, mv, pr) {
				case awHandled:
					decided = append(decided, &s.res.lisRec)
				case awTimeout:
					h.inconclusive("watchdog: resolver never published marker " + mv)
					return
				}
			}
		}
		if len(decided) > 0 {
			// go-zero has handled the watch response that carried the marker (it received a
			// response queued behind it) and an observer still has not been shown the marker:
			// waiting cannot change that. The ordinary comparison below names what is wrong
			// (value missing from the view / listener not notified / stale notification).
			h.c.Obs("syncs_decided_by_probe", 1)
			if !takeBudget("marker-handled-unseen") {
				h.c.Obs("reports_suppressed_marker_unseen", 1)
				h.dead = true
				return
			}
			for _, l := range decided {
				l.stable() // belt and braces: the observer's state stopped changing
			}
			break
		}
		g1, w1, _ := h.f.totals()
		if g0 == g1 && w0 == w1 {
			break
		}
	}
	h.syncs++
	for _, s := range h.subs {
		if !s.closed {
			h.check(s)
		}
	}
}

func (h *hist) classOf(s *subRec, mm mismatch) string {
	if h.sticky != "" {
		return h.sticky
	}
	if mm.kind != "duplicate-value" {
		if how, ok := s.m.taintVal[mm.val]; ok {
			return how
		}
	}
	return h.class
}

func (h *hist) witness(s *subRec, by string, got []string, store map[string]string) map[string]any {
	w := map[string]any{"endpoint": h.ep, "watched_key": h.prefix, "subscriber": s.name, "mode": s.mode,
		"observed_by": by, "steps": h.log, "got": got, "registered_now": store}
	if s.excl {
		w["exclusive_candidate_owners_per_value"] = s.m.describeP()
	}
	return w
}

func (h *hist) report(s *subRec, by string, got []string, store map[string]string, mms []mismatch) {
	for _, mm := range mms {
		key := "C13/" + mm.kind + "/" + h.classOf(s, mm)
		if _, tainted := s.m.taintVal[mm.val]; s.res != nil && !tainted {
			key = "C13/resolver-" + mm.kind + "/" + h.classOf(s, mm)
		}
		h.dead = true
		if h.reported[key] {
			continue
		}
		h.reported[key] = true
		what := fmt.Sprintf("%s subscriber %s (%s): value %q is %s after step %q", s.mode, s.name, by, mm.val, mm.kind, h.log[len(h.log)-1])
		h.c.Viol(key, what, h.witness(s, by, got, store))
	}
}

func sameMM(a, b []mismatch) bool {
	if len(a) != len(b) {
		return false
	}
	for i := range a {
		if a[i] != b[i] {
			return false
		}
	}
	return true
}

func (h *hist) check(s *subRec) {
	store := h.f.current(s.wk)
	s.m.consume(h.f.transcript(s.fk, s.m.pos))
	if err := s.m.selfCheck(store); err != nil {
		// What the scripted etcd handed out (snapshots, replayed and live events) does not
		// add up to the store: go-zero did not ask for what it missed (e.g. it re-watched
		// "from now" after a failure). The model cannot follow; decide this one point with
		// the order-independent part of the oracle and end the history.
		h.c.Obs("feed_gaps", 1)
		got, pv := s.values()
		if pv != nil {
			h.panicViol(s, "Values()", pv)
			return
		}
		plain := &mirror{wk: s.wk, taintVal: s.m.taintVal}
		var keep []mismatch
		for _, mm := range plain.compare(store, got) {
			if !s.excl || mm.kind == "stale-value" { // an exclusive view is a subset of the registered values
				keep = append(keep, mm)
			}
		}
		if len(keep) > 0 {
			h.report(s, "Values()", got, store, keep)
		}
		h.dead = true
		return
	}
	if s.large {
		h.checkLarge(s, store)
		return
	}
	got, pv := s.values()
	if pv != nil {
		h.panicViol(s, "Values()", pv)
		return
	}
	for _, l := range s.lis {
		if pm := l.panicked(); pm != "" {
			h.panicViol(s, "Values() called from a listener", pm)
			return
		}
	}
	mms := s.m.compare(store, got)
	if len(mms) > 0 && (s.wk == h.xwk) {
		// the exact-match stream is synchronised by a progress notification, which is
		// exact only while go-zero handles a stream sequentially: double-check on a
		// state that stopped changing before reporting
		for _, l := range s.lis {
			l.stable()
		}
		got, _ = s.values()
		mms = s.m.compare(store, got)
	}
	by := "Values()"
	if s.res != nil {
		by = "last resolver.State published through UpdateState"
	}
	if len(mms) > 0 {
		h.report(s, by, got, store, mms)
	}
	for i, l := range s.lis {
		calls, last := l.snapshot()
		if calls == 0 {
			// never notified: legal only if nothing changed since it was registered
			if s.m.demanded > l.demBase {
				h.flag(s, "C13/notification-missing/"+h.cls(), fmt.Sprintf("listener %d of %s was never called although the view changed %d time(s) since it was added",
					i, s.name, s.m.demanded-l.demBase), store, got)
			}
			continue
		}
		lm := s.m.compare(store, last)
		if s.wk == h.xwk && len(lm) > 0 && len(mms) == 0 {
			l.stable()
			_, last = l.snapshot()
			lm = s.m.compare(store, last)
		}
		if len(lm) > 0 && !sameMM(lm, mms) {
			// the subscriber's view is right (or wrong differently) but the last notification
			// saw something else: no notification followed the last change
			h.flag(s, "C13/listener-stale-view/"+h.cls(), fmt.Sprintf("listener %d of %s: the view seen by its last notification %v differs from the registrations; Values() now %v",
				i, s.name, last, got), store, last)
		}
		if calls < s.m.demanded-l.demBase {
			h.flag(s, "C13/notification-missing/"+h.cls(), fmt.Sprintf("listener %d of %s was called %d time(s) but the view changed %d time(s) since it was added",
				i, s.name, calls, s.m.demanded-l.demBase), store, got)
		}
	}
}

func (h *hist) flag(s *subRec, key, what string, store map[string]string, got []string) {
	h.dead = true
	if h.reported[key] {
		return
	}
	h.reported[key] = true
	h.c.Viol(key, what, h.witness(s, "listener", got, store))
}

// checkLarge: resolver over a view that may exceed 32 values: the published list
// has no duplicates, contains only current values, and has min(32,|view|) entries.
func (h *hist) checkLarge(s *subRec, store map[string]string) {
	exp := map[string]bool{}
	for _, v := range store {
		exp[v] = true
	}
	eval := func() (string, []string) {
		_, last := s.res.snapshot()
		seen := map[string]bool{}
		for _, a := range last {
			if seen[a] {
				return "duplicate-address", last
			}
			seen[a] = true
			if !exp[a] {
				return "stale-address", last
			}
		}
		want := len(exp)
		if want > 32 {
			want = 32
		}
		if len(last) != want {
			if len(exp) <= 32 {
				return "missing-address", last
			}
			return "subset-size", last
		}
		return "", last
	}
	kind, last := eval()
	if kind != "" {
		// the resolver is not waited for by marker (the marker need not be in the subset):
		// re-evaluate on a state that stopped changing
		s.res.stable()
		kind, last = eval()
	}
	if len(exp) > 32 {
		h.c.Obs("resolver_checks_over_32_values", 1)
	} else {
		h.c.Obs("resolver_checks_upto_32_values", 1)
	}
	if kind != "" {
		sz := "upto32"
		if len(exp) > 32 {
			sz = "over32"
		}
		h.flag(s, "C13/resolver-"+kind+"/"+sz, fmt.Sprintf("resolver published %d addresses for %d registered values (%s)", len(last), len(exp), kind), store, last)
	}
}

// ---------------------------------------------------------------- steps

func (h *hist) doOps(class string, ops ...op) {
	if h.dead {
		return
	}
	var ds []string
	for _, o := range ops {
		ds = append(ds, h.descr(o))
	}
	if len(ops) > 1 {
		h.note(class, "BATCH[%s]", strings.Join(ds, ", "))
	} else {
		h.note(class, "%s", ds[0])
	}
	h.f.apply(ops...)
	h.sync()
}

func (h *hist) descr(o op) string {
	if o.del {
		return "DEL " + o.k
	}
	if old, ok := h.f.get(o.k); ok && old != o.v {
		return fmt.Sprintf("PUT %s=%s (was %s)", o.k, o.v, old)
	}
	return fmt.Sprintf("PUT %s=%s", o.k, o.v)
}

func (h *hist) classOfOp(o op) string {
	switch {
	case !h.pwk.match(o.k) && o.k == h.prefix:
		return "exact-key-op"
	case !h.pwk.match(o.k):
		return "outside-prefix-op"
	case o.del:
		return "delete-via-watch"
	}
	old, ok := h.f.get(o.k)
	switch {
	case !ok:
		return "put-new-key"
	case old == o.v:
		return "put-same-value"
	}
	return "put-changed-value"
}

const (
	rlBreakClose = iota
	rlBreakCancel
	rlCompactBreak
	rlCompactLive
	rlCompactLiveNoCancel // registry-faults family only
)

var rlNames = []string{"BREAK(channel closed -> re-watch replays from the last load)", "BREAK(canceled response -> re-watch replays from the last load)",
	"COMPACT(stream broken, re-watch answers compacted -> load snapshot)", "COMPACT(compaction response on the live stream -> load snapshot)",
	"COMPACT(response with a compact revision but without the canceled flag on the live stream, channel closed -> load snapshot)"}

// reload: partition (missed ops are applied to the store only), then the chosen
// kind of stream failure; waits for go-zero's follow-up calls, then synchronises.
func (h *hist) reload(kind int, n int, next func() op) {
	if h.reloadNoSync(kind, n, next) {
		h.sync()
	}
}

// reloadNoSync is reload without the final synchronisation (the caller does something
// between go-zero's recovery and the comparison); false: the history has ended.
func (h *hist) reloadNoSync(kind int, n int, next func() op) bool {
	if h.dead {
		return false
	}
	h.f.stallAll()
	var ds []string
	for i := 0; i < n; i++ {
		o := next()
		ds = append(ds, h.descr(o))
		h.f.apply(o)
	}
	class := "reload-replay"
	if kind >= rlCompactBreak {
		class = "reload-snapshot"
	}
	h.note(class, "PARTITION{missed: %s} then %s", strings.Join(ds, ", "), rlNames[kind])
	h.reloads++
	h.missedOps += n
	feeds := []wkey{}
	seen := map[wkey]bool{}
	for _, s := range h.subs {
		if !s.closed && !seen[s.fk] {
			seen[s.fk] = true
			feeds = append(feeds, s.fk)
		}
	}
	if kind >= rlCompactBreak {
		h.f.compact()
	}
	for _, wk := range feeds {
		g, w := h.f.calls(wk)
		switch kind {
		case rlBreakClose, rlBreakCancel:
			h.f.breakStream(wk, kind == rlBreakCancel)
		case rlCompactBreak:
			h.f.breakStream(wk, false)
		case rlCompactLive:
			h.f.compactLive(wk)
		case rlCompactLiveNoCancel:
			h.f.compactLiveRaw(wk, false)
		}
		// whatever go-zero does to recover (re-watch; or re-watch, be told "compacted",
		// load, watch again), it ends with a watch that is being served
		switch h.f.waitLive(wk, w+1) {
		case wlStuck:
			h.reloadMissing(wk, rlNames[kind])
			return false
		case wlTimeout:
			h.inconclusive("watchdog: go-zero did not re-establish the watch after " + rlNames[kind])
			return false
		}
		if g1, _ := h.f.calls(wk); kind >= rlCompactBreak && g1 > g {
			h.c.Obs("compactions_followed_by_load", 1)
		}
	}
	return true
}

// Reports per child process and kind of causally decided "go-zero never does X"
// outcome; further occurrences in the same process are only counted, so that a tree on
// which every compaction (or every notification) fails yields a handful of violations
// quickly. The bound depends on the number of reports only, not on time.
const reportsPerChild = 5

var (
	budgetMu   sync.Mutex
	budgetUsed = map[string]int{}
)

func takeBudget(kind string) bool {
	budgetMu.Lock()
	defer budgetMu.Unlock()
	budgetUsed[kind]++
	return budgetUsed[kind] <= reportsPerChild
}

func budgetSpent(kind string) bool {
	budgetMu.Lock()
	defer budgetMu.Unlock()
	return budgetUsed[kind] >= reportsPerChild
}

// reloadMissing: the scripted etcd told go-zero that the revision it watches from has
// been compacted, and go-zero answered with refusalsWithoutLoad further Watch calls at
// a compacted revision and no Get: it does not reload, has no served watch, and so has
// no way of learning the registrations. To tie this to the statement a fresh key/value
// is registered now; Values() (and the resolver's published list) cannot contain it.
func (h *hist) reloadMissing(wk wkey, after string) {
	h.dead = true
	h.c.Obs("compactions_not_followed_by_load", 1)
	if !takeBudget("reload-missing") {
		h.c.Obs("reports_suppressed_reload_missing", 1)
		return
	}
	calls := h.f.callLog(wk)
	h.markerN++
	mk := fmt.Sprintf("%s/~m%d", h.prefix, h.markerN)
	mv := fmt.Sprintf("marker-%d", h.markerN)
	h.f.apply(op{k: mk, v: mv})
	h.log = append(h.log, fmt.Sprintf("PUT %s=%s (registered after go-zero stopped at the compaction)", mk, mv))
	type view struct {
		Subscriber, Mode string
		Got              []string
		Registered       map[string]string
	}
	var views []view
	wrong := 0
	who := ""
	for _, s := range h.subs {
		if s.closed || s.fk != wk {
			continue
		}
		got, pv := s.values()
		if pv != nil {
			h.panicViol(s, "Values()", pv)
			return
		}
		store := h.f.current(s.wk)
		views = append(views, view{s.name, s.mode, got, store})
		if s.large {
			continue
		}
		plain := &mirror{wk: s.wk}
		for _, mm := range plain.compare(store, got) {
			if mm.kind == "stale-value" || mm.val == mv {
				wrong++
				if who == "" {
					who = fmt.Sprintf("%s subscriber %s: value %q is %s", s.mode, s.name, mm.val, mm.kind)
				}
			}
		}
	}
	if wrong == 0 {
		h.c.Inconclusive("go-zero did not reload after " + after + " but no open subscriber shows a wrong view (history: " + strings.Join(h.log, "; ") + ")")
		return
	}
	key := "C13/reload-missing/compaction-not-followed-by-load"
	h.reported[key] = true
	h.c.Viol(key, fmt.Sprintf("after %s go-zero re-issued Watch %d times at a compacted revision (each answered \"compacted\") without a Get for the watched range: no reload, no served watch; %s",
		after, refusalsWithoutLoad, who),
		map[string]any{"endpoint": h.ep, "watched_key": h.prefix, "steps": h.log, "etcd_calls_on_this_watch": calls, "views": views})
}

// ---------------------------------------------------------------- generators

type gen struct {
	h        *hist
	r        *kit.Rand
	keys     []string
	vals     []string
	noUpdate bool
	exact    bool
}

func (g *gen) randomOp() op {
	r := g.r
	k := kit.Choose(r, g.keys)
	cur, ok := g.h.f.get(k)
	if ok && r.Chance(0.28) {
		return op{del: true, k: k}
	}
	v := kit.Choose(r, g.vals)
	if g.noUpdate && ok && cur != v {
		// this family never changes a key's value in place
		if r.Bool() {
			return op{del: true, k: k}
		}
		return op{k: k, v: cur}
	}
	return op{k: k, v: v}
}

func (g *gen) sideOp() op {
	r := g.r
	p := g.h.prefix
	outs := []string{p + "x/k1", p[:len(p)-1], "other/" + p + "/k1", p + "0"}
	if !g.exact {
		outs = append(outs, p) // the bare key is outside the prefix "<key>/"
	}
	k := kit.Choose(r, outs)
	if _, ok := g.h.f.get(k); ok && r.Bool() {
		return op{del: true, k: k}
	}
	return op{k: k, v: kit.Choose(r, g.vals)}
}

func (g *gen) exactOp() op {
	r := g.r
	k := g.h.prefix
	cur, ok := g.h.f.get(k)
	if ok && r.Chance(0.3) {
		return op{del: true, k: k}
	}
	v := kit.Choose(r, g.vals)
	if g.noUpdate && ok && cur != v {
		return op{del: true, k: k}
	}
	return op{k: k, v: v}
}

func (g *gen) anyOp() op {
	switch {
	case g.exact && g.r.Chance(0.25):
		return g.exactOp()
	case g.r.Chance(0.06):
		return g.sideOp()
	}
	return g.randomOp()
}

// distinctBatch returns n ops on distinct keys (one watch response / one partition window).
func (g *gen) distinctBatch(n int) []op {
	var ops []op
	used := map[string]bool{}
	for tries := 0; len(ops) < n && tries < 20; tries++ {
		o := g.anyOp()
		if used[o.k] {
			continue
		}
		used[o.k] = true
		ops = append(ops, o)
	}
	return ops
}

var routeSeq int

func clusterFor(c *kit.Case, tag string) (*router, string) {
	routeSeq++
	ep := fmt.Sprintf("c13-%s-%d-%d.verif:2379", tag, kit.GetEnv().Seed, routeSeq)
	return newRouter(ep, sharedConn), ep
}

func randomHistory(c *kit.Case, noUpdate bool) {
	r := c.R
	rt, ep := clusterFor(c, c.Family)
	h := newHist(c, rt, ep, "svc")
	h.f.batchReplay = r.Bool()
	excl := r.Chance(0.35)
	exact := r.Chance(0.25)
	g := &gen{h: h, r: r, noUpdate: noUpdate, exact: exact}
	nk, nv := r.Range(1, 6), r.Range(1, 4)
	for i := 1; i <= nk; i++ {
		g.keys = append(g.keys, fmt.Sprintf("svc/%d", 7587848943834334000+i)) // publisher keys are <key>/<lease id>
	}
	for i := 1; i <= nv; i++ {
		g.vals = append(g.vals, fmt.Sprintf("10.0.0.%d:8080", i))
	}
	h.sigParts = []any{"random", noUpdate, excl, exact, nk, nv}
	// registrations that exist before the subscriber is created
	for i, n := 0, r.Pick(3, 2, 2, 1, 1); i < n; i++ {
		o := g.anyOp()
		h.log = append(h.log, "(before subscribing) "+h.descr(o))
		h.f.apply(o)
	}
	h.note("initial-load", "SUBSCRIBE S0 %s", map[bool]string{false: "plain", true: "Exclusive()"}[excl])
	h.addSub("S0", excl, false, r.Range(1, 2))
	if exact {
		xe := r.Chance(0.3)
		h.note("initial-load", "SUBSCRIBE X WithExactMatch() exclusive=%v", xe)
		h.addSub("X", xe, true, 1)
	}
	h.sync()
	var joiner, resolver *subRec
	steps := r.Range(5, 28)
	if kit.Thorough() && r.Chance(0.15) {
		steps = r.Range(28, 80)
	}
	for i := 0; i < steps && !h.dead; i++ {
		switch r.Pick(44, 8, 5, 20, 5, 3, 4) {
		case 0:
			o := g.anyOp()
			h.doOps(h.classOfOp(o), o)
		case 1:
			ops := g.distinctBatch(r.Range(2, 3))
			h.doOps("batch", ops...)
		case 2:
			o := g.sideOp()
			h.doOps(h.classOfOp(o), o)
		case 3:
			h.reload(r.Pick(3, 2, 4, 3), r.Pick(2, 4, 4, 3, 2), g.anyOp)
		case 4:
			if joiner == nil {
				je := r.Chance(0.3)
				h.note("join", "SUBSCRIBE J (joins the existing watch) %s", map[bool]string{false: "plain", true: "Exclusive()"}[je])
				joiner = h.addSub("J", je, false, 1)
				h.c.Obs("late_joins", 1)
				h.sync()
			}
		case 5:
			if joiner != nil && !joiner.closed {
				h.note("close-other-subscriber", "CLOSE J")
				h.closeSub(joiner)
				h.sync()
			}
		case 6:
			if resolver == nil {
				h.note("resolver-build", "BUILD discov resolver on the same endpoint/key")
				resolver = h.addResolver("R")
				h.sync()
			}
		}
	}
	h.finish()
	if c.Index < 3 {
		c.Sample(c.Family, 2, map[string]any{"exclusive": excl, "exact_subscriber": exact, "keys": nk, "values": nv, "steps": h.log})
	}
}

// ---- bounded-exhaustive

type xsym struct {
	kind int // 0 put, 1 del, 2 stall, 3 break, 4 compact
	k, v int
}

func xalphabet(nk, nv int) []xsym {
	var a []xsym
	for k := 0; k < nk; k++ {
		for v := 0; v < nv; v++ {
			a = append(a, xsym{0, k, v})
		}
		a = append(a, xsym{1, k, 0})
	}
	return append(a, xsym{kind: 2}, xsym{kind: 3}, xsym{kind: 4})
}

// xvalid: deletes only of present keys, STALL only outside a partition, no trailing
// open partition without content (a trailing open partition is closed by the runner).
func xvalid(seq []xsym, nk int) bool {
	present := make([]bool, nk)
	stalled := false
	for _, s := range seq {
		switch s.kind {
		case 0:
			present[s.k] = true
		case 1:
			if !present[s.k] {
				return false
			}
			present[s.k] = false
		case 2:
			if stalled {
				return false
			}
			stalled = true
		default:
			stalled = false
		}
	}
	return true
}

func runExhaustive(c *kit.Case, rt *router, ep string, idx int, seq []xsym, excl bool) {
	prefix := fmt.Sprintf("x%d", idx)
	h := newHist(c, rt, ep, prefix)
	h.f.batchReplay = idx%2 == 0
	h.sigParts = []any{"exh", excl}
	h.note("initial-load", "SUBSCRIBE S0 %s", map[bool]string{false: "plain", true: "Exclusive()"}[excl])
	h.addSub("S0", excl, false, 1)
	h.sync()
	var window []op
	stalled := false
	mk := func(s xsym) op {
		o := op{k: fmt.Sprintf("%s/k%d", prefix, s.k), v: fmt.Sprintf("v%d", s.v)}
		o.del = s.kind == 1
		return o
	}
	nrl := 0
	flush := func(kind int) {
		w := window
		h.reload(kind, len(w), func() op { o := w[0]; w = w[1:]; return o })
		window, stalled = nil, false
		nrl++
	}
	for _, s := range seq {
		if h.dead {
			break
		}
		switch s.kind {
		case 0, 1:
			o := mk(s)
			if stalled {
				window = append(window, o)
			} else {
				h.doOps(h.classOfOp(o), o)
			}
		case 2:
			stalled = true
		case 3:
			flush([]int{rlBreakClose, rlBreakCancel}[(idx+nrl)%2])
		case 4:
			flush([]int{rlCompactBreak, rlCompactLive}[(idx+nrl)%2])
		}
	}
	if stalled && !h.dead {
		flush([]int{rlCompactBreak, rlBreakClose}[idx%2])
	}
	h.finish()
	rt.mu.Lock()
	delete(rt.routes, prefix)
	rt.mu.Unlock()
}

// ---- resolver over many values

func largeResolverHistory(c *kit.Case) {
	r := c.R
	rt, ep := clusterFor(c, "large")
	h := newHist(c, rt, ep, "big")
	h.f.batchReplay = r.Bool()
	n := r.Range(20, 70)
	h.sigParts = []any{"large", n}
	put := func(i int) op {
		// a few values are shared by two keys
		v := i
		if i%9 == 8 {
			v = i - 1
		}
		return op{k: fmt.Sprintf("big/%d", i), v: fmt.Sprintf("10.1.%d.%d:80", v/250, v%250)}
	}
	pre := r.Range(0, n)
	for i := 0; i < pre; i++ {
		h.f.apply(put(i))
	}
	h.log = append(h.log, fmt.Sprintf("(before building) %d registrations", pre))
	h.note("resolver-build", "BUILD discov resolver")
	rs := h.addResolver("R")
	rs.large = true
	h.note("join", "SUBSCRIBE S (plain; registered after the resolver: used to synchronise)")
	h.addSub("S", false, false, 1)
	h.sync()
	present := map[int]bool{}
	for i := 0; i < pre; i++ {
		present[i] = true
	}
	for step, steps := 0, r.Range(6, 16); step < steps && !h.dead; step++ {
		switch r.Pick(5, 3, 2) {
		case 0: // a burst of registrations
			var ops []op
			for j, m := 0, r.Range(1, 12); j < m; j++ {
				i := r.Intn(n)
				if !present[i] {
					present[i] = true
					ops = append(ops, put(i))
				}
			}
			if len(ops) > 0 {
				h.doOps("batch", ops...)
			}
		case 1:
			var ops []op
			for j, m := 0, r.Range(1, 10); j < m; j++ {
				i := r.Intn(n)
				if present[i] {
					present[i] = false
					ops = append(ops, op{del: true, k: fmt.Sprintf("big/%d", i)})
				}
			}
			if len(ops) > 0 {
				h.doOps("batch", ops...)
			}
		case 2:
			h.reload(r.Intn(4), r.Range(0, 8), func() op {
				i := r.Intn(n)
				if present[i] {
					present[i] = false
					return op{del: true, k: fmt.Sprintf("big/%d", i)}
				}
				present[i] = true
				return put(i)
			})
		}
	}
	h.finish()
	if c.Index < 2 {
		c.Sample("resolver-large", 1, map[string]any{"keys": n, "steps": h.log})
	}
}

// ---- registry events that arrive while the resolver is being built / is publishing
//
// The recording ClientConn is the one place where the harness runs on the stack of
// Build (first UpdateState) or of go-zero's watch goroutine (later ones), so registry
// events can be put exactly there:
//
//	event-during-build          ops applied from inside the FIRST UpdateState, i.e. between the
//	                            initial publication and whatever Build does next; a progress
//	                            notification queued behind them is awaited INSIDE UpdateState,
//	                            so Build cannot proceed before go-zero has handled the events
//	event-during-later-publish  ops queued from inside the UpdateState caused by a preceding
//	                            registration (a publication is in flight); barrier afterwards
//
// No registry event follows. go-zero has then provably handled every event and called
// every listener (sequential stream handling), so the LAST list passed to UpdateState
// must be the registered values; a list that still differs was never corrected
// ("never published" decided from the order of responses, not from a timer; a
// mismatch is re-evaluated on a state that stopped changing).
func buildInjectHistory(c *kit.Case) {
	r := c.R
	rt, ep := clusterFor(c, "binj")
	h := newHist(c, rt, ep, "svc")
	f := h.f
	n := r.Range(1, 6)
	if r.Chance(0.2) {
		n = r.Range(12, 26) // plus at most 4 new values: the view stays <= 32
	}
	val := func(i int) string { return fmt.Sprintf("10.5.0.%d:8080", i) }
	for i := 0; i < n; i++ {
		if r.Chance(0.6) {
			o := op{k: fmt.Sprintf("svc/%d", i), v: val(i)}
			if i > 0 && r.Chance(0.15) {
				o.v = val(i - 1)
			}
			h.log = append(h.log, "(before Build) "+h.descr(o))
			f.apply(o)
		}
	}
	fresh := n
	reg := f.current(h.pwk)
	genOps := func(m int) []op {
		var ops []op
		for len(ops) < m {
			var keys []string
			for k := range reg {
				keys = append(keys, k)
			}
			sort.Strings(keys)
			fresh++
			switch {
			case len(keys) > 0 && r.Chance(0.35):
				k := kit.Choose(r, keys)
				delete(reg, k)
				ops = append(ops, op{del: true, k: k})
			case len(keys) > 0 && r.Chance(0.2): // a further key for a registered value
				o := op{k: fmt.Sprintf("svc/%d", fresh), v: reg[kit.Choose(r, keys)]}
				reg[o.k] = o.v
				ops = append(ops, o)
			default:
				o := op{k: fmt.Sprintf("svc/%d", fresh), v: val(fresh)}
				reg[o.k] = o.v
				ops = append(ops, o)
			}
		}
		return ops
	}
	descr := func(ops []op) string {
		var ds []string
		for _, o := range ops {
			if o.del {
				ds = append(ds, "DEL "+o.k)
			} else {
				ds = append(ds, "PUT "+o.k+"="+o.v)
			}
		}
		return strings.Join(ds, ", ")
	}
	pl := r.Pick(3, 2)
	place := []string{"event-during-build", "event-during-later-publish"}[pl]
	var first []op
	if pl == 1 {
		// a new key with a new value: the view changes, so a publication is due
		fresh++
		first = []op{{k: fmt.Sprintf("svc/%d", fresh), v: val(fresh)}}
		reg[first[0].k] = first[0].v
	}
	ops := genOps(r.Pick(0, 5, 3, 1))
	res := &resRec{lisRec: *newLis()}
	var mu sync.Mutex
	barrier := ""
	fail := func(why string) {
		mu.Lock()
		if barrier == "" {
			barrier = why
		}
		mu.Unlock()
	}
	await := func(done chan struct{}) bool {
		if done == nil {
			return false
		}
		t := time.NewTimer(patience())
		defer t.Stop()
		select {
		case <-done:
			return true
		case <-t.C:
			fired()
			return false
		}
	}
	hookRan := make(chan struct{})
	if pl == 0 {
		h.note(place, "BUILD discov resolver; from inside its 1st UpdateState: %s delivered on the watch stream, then a progress notification received by go-zero; UpdateState returns", descr(ops))
		res.hook = func(call int) {
			if call != 1 {
				return
			}
			defer close(hookRan)
			if !f.waitTotals(1, 1) {
				fail("watchdog: no Get+Watch while Build was inside the 1st UpdateState")
				return
			}
			_, _, fk := f.totals()
			f.apply(ops...)
			if !await(f.probe(fk)) {
				fail("watchdog: go-zero did not receive the progress notification behind the injected events")
			}
		}
	} else {
		h.note(place, "BUILD discov resolver")
		res.hook = func(call int) {
			if call != 2 {
				return
			}
			f.apply(ops...) // on go-zero's watch goroutine: only queue, the barrier is awaited outside
			close(hookRan)
		}
	}
	b := gresolver.Get("discov")
	if b == nil {
		panic("c13 harness: discov resolver scheme not registered")
	}
	u, err := url.Parse("discov://" + ep + "/svc")
	if err != nil {
		panic(err)
	}
	s := &subRec{name: "R", mode: "resolver", wk: h.pwk, res: res, m: newMirror(false, h.pwk, 0)}
	var rs gresolver.Resolver
	if p := guard(func() { rs, err = b.Build(gresolver.Target{URL: *u}, res, gresolver.BuildOptions{}) }); p != nil {
		h.panicViol(s, "resolver Build", p)
		return
	}
	if err != nil {
		panic("c13 harness: discov Build: " + err.Error())
	}
	defer guard(func() { rs.Close() })
	if pl == 0 {
		select {
		case <-hookRan:
		default:
			c.Inconclusive("Build returned without an initial UpdateState: no point to inject at")
			return
		}
	} else {
		if !f.waitTotals(1, 1) {
			c.Inconclusive("watchdog: no Get+Watch after resolver Build")
			return
		}
		_, _, fk := f.totals()
		h.note(place, "%s; from inside the UpdateState it causes (2nd): %s queued on the watch stream; then a progress notification received by go-zero", descr(first), descr(ops))
		f.apply(first...)
		if !await(f.probe(fk)) {
			fail("watchdog: go-zero did not receive the progress notification behind the first registration")
		} else {
			select {
			case <-hookRan:
				if !await(f.probe(fk)) {
					fail("watchdog: go-zero did not receive the progress notification behind the injected events")
				}
			default:
				h.log = append(h.log, "(no 2nd UpdateState happened: nothing was injected)")
			}
		}
	}
	mu.Lock()
	why := barrier
	mu.Unlock()
	if why != "" {
		c.Inconclusive(why + " (" + place + ")")
		return
	}
	store := f.current(h.pwk)
	plain := &mirror{wk: h.pwk}
	_, last := res.snapshot()
	mms := plain.compare(store, last)
	c.Obs("resolver_build_inject_cases", 1)
	c.Obs("resolver_build_inject_"+place, 1)
	if len(mms) > 0 {
		c.Obs("stale_publications", 1)
		if !takeBudget("stale-publication") {
			c.Obs("reports_suppressed_stale_publication", 1)
			return
		}
		res.stable()
		_, last = res.snapshot()
		mms = plain.compare(store, last)
	}
	if len(mms) > 0 {
		calls, _ := res.snapshot()
		c.Viol("C13/resolver-stale-publication/"+place,
			fmt.Sprintf("the last address list published through UpdateState (%d calls) is %v while %v is registered (%s %q); go-zero has received every event and none follows",
				calls, last, store, mms[0].kind, mms[0].val),
			map[string]any{"endpoint": ep, "watched_key": "svc", "placement": place, "steps": h.log, "published_last": last, "registered_now": store, "update_state_calls": calls})
		return
	}
	parts := []any{"build-inject", place}
	for _, l := range h.log {
		parts = append(parts, l)
	}
	c.Sig(len(ops)+len(first) > 0, parts...)
	if c.Index < 4 {
		c.Sample("resolver-build-inject", 2, map[string]any{"placement": place, "steps": h.log, "published_last": last})
	}
}

// ---- genuine reconnect: a real *grpc.ClientConn to a loopback gRPC listener that is
// stopped and restarted drives go-zero's state watcher -> cluster.reload.

func waitState(conn *grpc.ClientConn, want connectivity.State, kick bool) bool {
	deadline := time.Now().Add(watchdog)
	for time.Now().Before(deadline) {
		st := conn.GetState()
		if st == want {
			return true
		}
		if kick {
			conn.ResetConnectBackoff()
			conn.Connect()
		}
		ctx, cancel := context.WithTimeout(context.Background(), 100*time.Millisecond)
		conn.WaitForStateChange(ctx, st)
		cancel()
	}
	return false
}

func reconnectHistory(c *kit.Case) {
	r := c.R
	lis, err := net.Listen("tcp", "127.0.0.1:0")
	if err != nil {
		c.Inconclusive("cannot listen on loopback: " + err.Error())
		return
	}
	addr := lis.Addr().String()
	srv := grpc.NewServer()
	go srv.Serve(lis)
	conn, err := grpc.NewClient("passthrough:///"+addr, grpc.WithTransportCredentials(insecure.NewCredentials()))
	if err != nil {
		srv.Stop()
		c.Inconclusive("grpc.NewClient: " + err.Error())
		return
	}
	defer conn.Close()
	if !waitState(conn, connectivity.Ready, true) {
		srv.Stop()
		c.Inconclusive("loopback gRPC connection did not become ready")
		return
	}
	routeSeq++
	ep := fmt.Sprintf("c13-reconnect-%d-%d.verif:2379", kit.GetEnv().Seed, routeSeq)
	rt := newRouter(ep, conn)
	h := newHist(c, rt, ep, "svc")
	excl := r.Chance(0.3)
	g := &gen{h: h, r: r}
	nk, nv := r.Range(2, 5), r.Range(2, 3)
	for i := 1; i <= nk; i++ {
		g.keys = append(g.keys, fmt.Sprintf("svc/%d", i))
	}
	for i := 1; i <= nv; i++ {
		g.vals = append(g.vals, fmt.Sprintf("10.0.0.%d:8080", i))
	}
	h.sigParts = []any{"reconnect", excl, nk, nv}
	for i, n := 0, r.Range(0, 3); i < n; i++ {
		o := g.randomOp()
		h.log = append(h.log, "(before subscribing) "+h.descr(o))
		h.f.apply(o)
	}
	h.note("initial-load", "SUBSCRIBE S0 exclusive=%v (real *grpc.ClientConn to %s)", excl, addr)
	h.addSub("S0", excl, false, 1)
	h.sync()
	for i, n := 0, r.Range(1, 5); i < n && !h.dead; i++ {
		o := g.randomOp()
		h.doOps(h.classOfOp(o), o)
	}
	for round, rounds := 0, r.Range(1, 2); round < rounds && !h.dead; round++ {
		// partition + connection loss
		h.f.stallAll()
		var ds []string
		for i, n := 0, r.Range(0, 4); i < n; i++ {
			o := g.randomOp()
			ds = append(ds, h.descr(o))
			h.f.apply(o)
			h.missedOps++
		}
		h.note("reconnect", "PARTITION{missed: %s} then the etcd connection is lost and re-established (state watcher -> cluster.reload)", strings.Join(ds, ", "))
		g0, w0, _ := h.f.totals()
		// The outage is repeated with a longer hold if go-zero's state watcher (a goroutine
		// that samples the connection state) did not get to see it on a loaded machine.
		reloaded, why := false, ""
		for attempt, hold := 0, 300*time.Millisecond; attempt < 3 && !reloaded; attempt, hold = attempt+1, hold*4 {
			srv.Stop()
			if !waitState(conn, connectivity.TransientFailure, true) {
				why = "connection did not reach TRANSIENT_FAILURE after the listener was stopped"
				break
			}
			time.Sleep(hold)
			lis, err = net.Listen("tcp", addr)
			if err != nil {
				why = "cannot re-listen on " + addr + ": " + err.Error()
				break
			}
			srv = grpc.NewServer()
			go srv.Serve(lis)
			if !waitState(conn, connectivity.Ready, true) {
				why = "connection did not become ready again"
				break
			}
			d := 5 * time.Second
			if attempt == 2 {
				d = watchdog
			}
			reloaded = h.f.waitTotalsFor(g0+1, w0+1, d)
			why = "watchdog: no reload (Get + Watch) after the connection came back (3 outages)"
		}
		if !reloaded {
			h.inconclusive(why)
			break
		}
		// the reload may still be in progress for a moment: wait for the served watch
		if wl := h.f.waitLive(h.subs[0].fk, w0+1); wl == wlStuck {
			h.reloadMissing(h.subs[0].fk, "a reconnect reload")
			break
		} else if wl == wlTimeout {
			h.inconclusive("watchdog: reload did not end with a served watch")
			break
		}
		h.reloads++
		h.c.Obs("reconnect_reloads", 1)
		h.sync()
		for i, n := 0, r.Range(0, 3); i < n && !h.dead; i++ {
			o := g.randomOp()
			h.doOps(h.classOfOp(o), o)
		}
	}
	h.finish()
	srv.Stop()
	if c.Index < 1 {
		c.Sample("reconnect", 1, map[string]any{"exclusive": excl, "steps": h.log})
	}
}

// ---------------------------------------------------------------- test

func TestVerifC13(t *testing.T) {
	logx.Disable()
	zresolver.Register()
	installFactory()
	var err error
	sharedConn, err = grpc.NewClient("passthrough:///c13-never-dialled", grpc.WithTransportCredentials(insecure.NewCredentials()))
	if err != nil {
		t.Fatal(err)
	}

	// bounded-exhaustive: every valid sequence of exactly L symbols over
	// {PUT(k,v), DEL(k), STALL, BREAK, COMPACT}; plain and exclusive
	type ex struct {
		nk, nv, L int
		excl      bool
	}
	exs := []ex{{2, 2, 5, false}, {2, 2, 4, true}, {3, 2, 4, false}, {3, 2, 3, true}, {1, 2, 6, false}}
	if kit.Thorough() {
		exs = []ex{{2, 2, 6, false}, {2, 2, 5, true}, {3, 2, 5, false}, {3, 2, 4, true}, {1, 2, 7, false}, {1, 3, 6, true}, {2, 3, 5, false}}
	}
	const batch = 300
	if os.Getenv("VERIF_C13_SKIP_EXHAUSTIVE") != "" { // debugging aid only; never set by the driver
		exs = nil
	}
	for _, e := range exs {
		al := xalphabet(e.nk, e.nv)
		total := 1
		for i := 0; i < e.L; i++ {
			total *= len(al)
		}
		fam := fmt.Sprintf("exh-k%d-v%d-L%d-%s", e.nk, e.nv, e.L, map[bool]string{false: "plain", true: "excl"}[e.excl])
		kit.Run(t, "C13", fam, (total+batch-1)/batch, func(c *kit.Case) {
			rt, ep := clusterFor(c, fam)
			lo, hi := c.Index*batch, (c.Index+1)*batch
			if hi > total {
				hi = total
			}
			n := int64(0)
			for idx := lo; idx < hi; idx++ {
				seq := make([]xsym, e.L)
				x := idx
				for i := e.L - 1; i >= 0; i-- {
					seq[i] = al[x%len(al)]
					x /= len(al)
				}
				if !xvalid(seq, e.nk) {
					continue
				}
				runExhaustive(c, rt, ep, idx, seq, e.excl)
				n++
			}
			if n > 0 {
				c.Evals(n)
			}
			if c.Index == 0 {
				c.Sample("exhaustive", 1, map[string]any{"family": fam, "alphabet": len(al), "length": e.L, "index_space": total})
			}
		})
	}

	kit.Run(t, "C13", "random", kit.N(6000, 150000), func(c *kit.Case) { randomHistory(c, false) })
	// keys never change their value in place (delete + put instead): every other clause
	// of the statement on histories that cannot reach the known update-in-place defect
	kit.Run(t, "C13", "random-noupdate", kit.N(5000, 120000), func(c *kit.Case) { randomHistory(c, true) })
	kit.Run(t, "C13", "resolver-large", kit.N(400, 8000), largeResolverHistory)
	kit.Run(t, "C13", "resolver-build-inject", kit.N(800, 20000), buildInjectHistory)
	kit.Run(t, "C13", "reconnect", kit.N(24, 480), reconnectHistory)
	// the registration side: real Publisher on a scripted etcd with leases (pub_test.go)
	kit.Run(t, "C13", "publisher", kit.N(8, 96), publisherCase)
	// error paths of registry / subscriber / resolver followed by ordinary histories (faults_test.go)
	kit.Run(t, "C13", "registry-faults", kit.N(80, 2000), registryFaultCase)
	// several subscribers / resolvers on ONE watch, closed (multi-close) or created (multi-join)
	// WHILE events are being dispatched; several keys on ONE cluster across reloads;
	// Values() polled while events are applied (multi_test.go)
	kit.Run(t, "C13", "multi-close", kit.N(1200, 30000), func(c *kit.Case) { multiHistory(c, false) })
	kit.Run(t, "C13", "multi-join", kit.N(500, 12000), func(c *kit.Case) { multiHistory(c, true) })
	kit.Run(t, "C13", "multi-key", kit.N(500, 12000), func(c *kit.Case) { multiKeyHistory(c, false) })
	kit.Run(t, "C13", "multi-key-reconnect", kit.N(24, 480), func(c *kit.Case) { multiKeyHistory(c, true) })
	kit.Run(t, "C13", "poll-values", kit.N(320, 10000), pollValuesHistory)
	removeTLSFiles()
	kit.End()
}
