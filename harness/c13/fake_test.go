package c13

// A scripted etcd: a revisioned key/value store with a retained event log and
// compaction, implementing go-zero's internal EtcdClient interface (Get and
// Watch only; the publisher-side calls are not used by a Subscriber).
//
// Watch follows etcd's semantics: a watch created WithRev(r) first receives
// every retained event with revision >= r that matches the key/range, then the
// live ones; if r lies below the compaction revision the only response is
// {Canceled, CompactRevision} and the channel is closed. The harness can stall a
// feed (events are applied to the store but not delivered: a partition), break a
// stream (channel closed, with or without a final Canceled response), compact,
// and send progress notifications (responses without events).
//
// The channel handed to go-zero is unbuffered and fed by one pump goroutine per
// Watch call, so "the pump's send of item i+1 completed" implies "go-zero
// finished handling item i" as long as go-zero handles a stream sequentially.
//
// Every item that is handed to a stream (and every snapshot served by Get) is
// also appended to the feed's transcript, which the reference model consumes.

import (
	"context"
	"errors"
	"fmt"
	"sort"
	"sync"
	"time"

	pb "go.etcd.io/etcd/api/v3/etcdserverpb"
	"go.etcd.io/etcd/api/v3/mvccpb"
	clientv3 "go.etcd.io/etcd/client/v3"
	"google.golang.org/grpc"
)

// watchdog is the patience of every wait in this package. Its firing is always
// reported as inconclusive, never as a violation.
const watchdog = 40 * time.Second

// After a few firings in one process (a tree on which go-zero no longer makes the
// awaited call at all) later waits are shortened so that the child still finishes;
// the outcome of a fired wait is "inconclusive" either way.
var (
	dogMu    sync.Mutex
	dogFired int
)

func patience() time.Duration {
	dogMu.Lock()
	defer dogMu.Unlock()
	if dogFired >= 3 {
		return 20 * time.Second
	}
	return watchdog
}

func fired() {
	dogMu.Lock()
	dogFired++
	dogMu.Unlock()
}

type wkey struct{ key, end string } // end == "": exact key, else the range [key,end)

func (w wkey) match(k string) bool {
	if w.end == "" {
		return k == w.key
	}
	return k >= w.key && k < w.end
}

type op struct {
	del  bool
	k, v string
}

type logEv struct {
	rev int64
	op
}

const (
	tEvent = iota
	tSnap
	tJoin // synthetic: a subscriber joined an existing watch and got the current entries
)

type titem struct {
	kind   int
	ev     op
	replay bool
	snap   map[string]string
}

type qitem struct {
	resp      clientv3.WatchResponse
	terminal  bool          // close the channel after sending
	closeOnly bool          // close the channel without sending anything
	done      chan struct{} // closed by the pump once the send completed
}

type fstream struct {
	ch   chan clientv3.WatchResponse
	q    []qitem
	wake chan struct{}
	dead bool
}

type feed struct {
	wk      wkey
	stalled bool
	gets    int
	watches int
	loadRev int64
	cur     *fstream
	trans   []titem
	// reload bookkeeping (see refusalsWithoutLoad)
	refused int       // consecutive Watch calls answered "compacted" since the last Get
	stuck   bool      // the reload after a compaction is provably not happening
	calls   []callRec // the most recent calls/answers on this feed, for witnesses
}

// refusalsWithoutLoad: how many Watch calls in a row go-zero may make at a compacted
// revision, each answered "compacted" exactly as an etcd server answers it, without a
// Get for the watched range in between, before the scripted etcd concludes that the
// snapshot reload the statement speaks of is not going to happen. The unchanged tree
// makes at most ONE such call (the re-watch after a broken stream) and then loads; a
// tree that does not recognise the answer re-issues the same Watch for ever. The
// decision counts calls - it does not measure time. From that call on the feed is
// parked (the Watch is neither refused nor served), so go-zero stops spinning and the
// history can be torn down.
const refusalsWithoutLoad = 5

const (
	cGet = iota
	cWatchServed
	cWatchRefused
	cWatchParked
	cLiveCompacted
	cBroken
)

type callRec struct {
	kind   int8
	rev    int64 // Get: revision of the snapshot; Watch: requested start revision (0 = from now)
	aux    int64 // Get: number of keys; Watch: replayed events / compaction revision
	serial int
}

const keepCalls = 16

func (fe *feed) rec(kind int8, rev, aux int64) {
	if len(fe.calls) == keepCalls {
		copy(fe.calls, fe.calls[1:])
		fe.calls = fe.calls[:keepCalls-1]
	}
	fe.calls = append(fe.calls, callRec{kind: kind, rev: rev, aux: aux, serial: fe.gets + fe.watches})
}

type fakeEtcd struct {
	mu          sync.Mutex
	rev         int64
	compactRev  int64
	kv          map[string]string
	modRev      map[string]int64
	log         []logEv
	feeds       map[wkey]*feed
	conn        *grpc.ClientConn
	note        chan struct{}
	batchReplay bool
	// what go-zero asked for most recently (the harness learns the watched range from
	// the calls instead of assuming it)
	totGets, totWatches int
	lastGet             wkey
	// counters for the evidence
	nDelivered, nReplayed, nSnaps, nCompacted, nProgress int64
	// scripted Get faults (faults_test.go): the next getFail Get calls are refused with an
	// error; getFailed counts the refusals go-zero has been given so far. onGet, if set,
	// runs at the start of every Get, outside the lock, on go-zero's stack (it may block:
	// that is how a load is held open while the harness does something else).
	getFail, getFailed int
	onGet              func(n int)
	getCalls           int
}

func newFake(conn *grpc.ClientConn) *fakeEtcd {
	return &fakeEtcd{rev: 100, kv: map[string]string{}, modRev: map[string]int64{}, feeds: map[wkey]*feed{},
		conn: conn, note: make(chan struct{}, 1)}
}

func (f *fakeEtcd) poke() {
	select {
	case f.note <- struct{}{}:
	default:
	}
}

func (f *fakeEtcd) feedLocked(wk wkey) *feed {
	fe, ok := f.feeds[wk]
	if !ok {
		fe = &feed{wk: wk}
		f.feeds[wk] = fe
	}
	return fe
}

// ---------------------------------------------------------------- EtcdClient

func (f *fakeEtcd) ActiveConnection() *grpc.ClientConn { return f.conn }
func (f *fakeEtcd) Close() error                       { return nil }
func (f *fakeEtcd) Ctx() context.Context               { return context.Background() }

var errUnused = errors.New("c13 fake: publisher-side call not scripted")

func (f *fakeEtcd) Grant(context.Context, int64) (*clientv3.LeaseGrantResponse, error) {
	return nil, errUnused
}
func (f *fakeEtcd) KeepAlive(context.Context, clientv3.LeaseID) (<-chan *clientv3.LeaseKeepAliveResponse, error) {
	return nil, errUnused
}
func (f *fakeEtcd) Put(context.Context, string, string, ...clientv3.OpOption) (*clientv3.PutResponse, error) {
	return nil, errUnused
}
func (f *fakeEtcd) Revoke(context.Context, clientv3.LeaseID) (*clientv3.LeaseRevokeResponse, error) {
	return nil, errUnused
}

func opKey(key string, opts []clientv3.OpOption) (wkey, int64) {
	o := clientv3.OpGet(key, opts...)
	return wkey{key: string(o.KeyBytes()), end: string(o.RangeBytes())}, o.Rev()
}

// errGetRefused is what a scripted Get failure returns.
var errGetRefused = errors.New("etcdserver: request timed out (injected by the c13 harness)")

// Get fails only where a history scripts it (a failing load makes go-zero sleep one
// real second before it retries).
func (f *fakeEtcd) Get(_ context.Context, key string, opts ...clientv3.OpOption) (*clientv3.GetResponse, error) {
	wk, _ := opKey(key, opts)
	f.mu.Lock()
	f.getCalls++
	n, hook := f.getCalls, f.onGet
	f.mu.Unlock()
	if hook != nil {
		hook(n)
	}
	f.mu.Lock()
	defer f.mu.Unlock()
	if f.getFail > 0 {
		f.getFail--
		f.getFailed++
		f.poke()
		return nil, errGetRefused
	}
	fe := f.feedLocked(wk)
	var keys []string
	for k := range f.kv {
		if wk.match(k) {
			keys = append(keys, k)
		}
	}
	sort.Strings(keys)
	resp := &clientv3.GetResponse{Header: &pb.ResponseHeader{Revision: f.rev}, Count: int64(len(keys))}
	snap := make(map[string]string, len(keys))
	for _, k := range keys {
		resp.Kvs = append(resp.Kvs, &mvccpb.KeyValue{Key: []byte(k), Value: []byte(f.kv[k]), ModRevision: f.modRev[k], Version: 1})
		snap[k] = f.kv[k]
	}
	fe.gets++
	f.totGets++
	f.lastGet = wk
	fe.loadRev = f.rev
	fe.refused = 0
	fe.rec(cGet, f.rev, int64(len(keys)))
	fe.trans = append(fe.trans, titem{kind: tSnap, snap: snap})
	f.nSnaps++
	f.poke()
	return resp, nil
}

func (f *fakeEtcd) Watch(ctx context.Context, key string, opts ...clientv3.OpOption) clientv3.WatchChan {
	wk, start := opKey(key, opts)
	f.mu.Lock()
	fe := f.feedLocked(wk)
	st := &fstream{ch: make(chan clientv3.WatchResponse), wake: make(chan struct{}, 1)}
	fe.cur = st
	fe.watches++
	f.totWatches++
	fe.stalled = false
	switch {
	case fe.stuck || (start != 0 && start < f.compactRev && fe.refused >= refusalsWithoutLoad):
		// parked: no answer at all, and no live events either (the stream counts as dead)
		fe.stuck = true
		st.dead = true
		fe.rec(cWatchParked, start, f.compactRev)
	case start != 0 && start < f.compactRev:
		st.q = append(st.q, qitem{resp: clientv3.WatchResponse{Header: pb.ResponseHeader{Revision: f.rev},
			Canceled: true, CompactRevision: f.compactRev}, terminal: true})
		st.dead = true
		f.nCompacted++
		fe.refused++
		fe.rec(cWatchRefused, start, f.compactRev)
	case start != 0:
		served := int64(0)
		var evs []*clientv3.Event
		for _, le := range f.log {
			if le.rev >= start && wk.match(le.k) {
				ev := mkEvent(le.op, le.rev)
				fe.trans = append(fe.trans, titem{kind: tEvent, ev: le.op, replay: true})
				f.nReplayed++
				served++
				if f.batchReplay {
					evs = append(evs, ev)
				} else {
					st.q = append(st.q, qitem{resp: clientv3.WatchResponse{Header: pb.ResponseHeader{Revision: le.rev}, Events: []*clientv3.Event{ev}}})
				}
			}
		}
		if len(evs) > 0 {
			st.q = append(st.q, qitem{resp: clientv3.WatchResponse{Header: pb.ResponseHeader{Revision: f.rev}, Events: evs}})
		}
		fe.rec(cWatchServed, start, served)
	default:
		fe.rec(cWatchServed, 0, 0)
	}
	f.mu.Unlock()
	go f.pump(ctx, st)
	f.poke()
	return st.ch
}

func mkEvent(o op, rev int64) *clientv3.Event {
	if o.del {
		// like etcd: a delete event carries the key and the revision, no value
		return &clientv3.Event{Type: mvccpb.DELETE, Kv: &mvccpb.KeyValue{Key: []byte(o.k), ModRevision: rev}}
	}
	return &clientv3.Event{Type: mvccpb.PUT, Kv: &mvccpb.KeyValue{Key: []byte(o.k), Value: []byte(o.v), ModRevision: rev, Version: 1}}
}

// The channel is closed only when the scripted etcd ends the stream. On
// cancellation of the watch context (Subscriber.Close, cluster.reload) the pump just
// stops: go-zero's watchStream returns through ctx.Done()/done in that case, and not
// closing keeps the harness free of watches re-established for closed subscribers.
func (f *fakeEtcd) pump(ctx context.Context, st *fstream) {
	closeCh := false
	defer func() {
		f.mu.Lock()
		st.dead = true
		f.mu.Unlock()
		if closeCh {
			close(st.ch)
		}
	}()
	for {
		f.mu.Lock()
		var it *qitem
		if len(st.q) > 0 {
			x := st.q[0]
			st.q = st.q[1:]
			it = &x
		}
		f.mu.Unlock()
		if it == nil {
			select {
			case <-st.wake:
				continue
			case <-ctx.Done():
				return
			}
		}
		if it.closeOnly {
			closeCh = true
			return
		}
		select {
		case st.ch <- it.resp:
		case <-ctx.Done():
			return
		}
		if it.done != nil {
			close(it.done)
		}
		if it.terminal {
			closeCh = true
			return
		}
	}
}

func (st *fstream) push(it qitem) {
	st.q = append(st.q, it)
	select {
	case st.wake <- struct{}{}:
	default:
	}
}

// ---------------------------------------------------------------- harness side

// apply executes store operations; the resulting events (deletes of absent keys
// produce none, as in etcd) go to every matching, un-stalled feed as ONE watch
// response. It returns the operations that took effect.
func (f *fakeEtcd) apply(ops ...op) []op {
	f.mu.Lock()
	defer f.mu.Unlock()
	var eff []logEv
	for _, o := range ops {
		if o.del {
			if _, ok := f.kv[o.k]; !ok {
				continue
			}
			f.rev++
			delete(f.kv, o.k)
			delete(f.modRev, o.k)
		} else {
			f.rev++
			f.kv[o.k] = o.v
			f.modRev[o.k] = f.rev
		}
		le := logEv{rev: f.rev, op: o}
		f.log = append(f.log, le)
		eff = append(eff, le)
	}
	for _, fe := range f.feeds {
		if fe.stalled || fe.cur == nil || fe.cur.dead {
			continue
		}
		var evs []*clientv3.Event
		for _, le := range eff {
			if fe.wk.match(le.k) {
				evs = append(evs, mkEvent(le.op, le.rev))
				fe.trans = append(fe.trans, titem{kind: tEvent, ev: le.op})
				f.nDelivered++
			}
		}
		if len(evs) > 0 {
			fe.cur.push(qitem{resp: clientv3.WatchResponse{Header: pb.ResponseHeader{Revision: f.rev}, Events: evs}})
		}
	}
	out := make([]op, len(eff))
	for i, le := range eff {
		out[i] = le.op
	}
	return out
}

func (f *fakeEtcd) stallAll() {
	f.mu.Lock()
	for _, fe := range f.feeds {
		fe.stalled = true
	}
	f.mu.Unlock()
}

// breakStream ends the current stream of wk: withCancel sends a final Canceled
// response (no compaction revision) before closing, else the channel is just closed.
func (f *fakeEtcd) breakStream(wk wkey, withCancel bool) {
	f.mu.Lock()
	defer f.mu.Unlock()
	fe := f.feeds[wk]
	if fe == nil || fe.cur == nil || fe.cur.dead {
		return
	}
	fe.cur.dead = true
	fe.rec(cBroken, 0, 0)
	if withCancel {
		fe.cur.push(qitem{resp: clientv3.WatchResponse{Header: pb.ResponseHeader{Revision: f.rev}, Canceled: true}, terminal: true})
	} else {
		fe.cur.push(qitem{closeOnly: true})
	}
}

// compact drops the history below the current revision; pads with events on a key
// no feed watches so that every feed's next watch revision (loadRev+1) is compacted.
func (f *fakeEtcd) compact() {
	f.mu.Lock()
	defer f.mu.Unlock()
	for _, fe := range f.feeds {
		for fe.loadRev+1 >= f.rev {
			f.rev++
			f.kv["~pad"] = "x"
			f.log = append(f.log, logEv{rev: f.rev, op: op{k: "~pad", v: "x"}})
		}
	}
	f.compactRev = f.rev
	keep := f.log[:0]
	for _, le := range f.log {
		if le.rev >= f.compactRev {
			keep = append(keep, le)
		}
	}
	f.log = keep
}

// compactLive cancels the live stream with a compaction revision (what etcd does
// to a watcher that fell behind the compaction).
func (f *fakeEtcd) compactLive(wk wkey) { f.compactLiveRaw(wk, true) }

// compactLiveRaw: canceled=false is a response that carries the compact revision without
// the canceled flag (WatchResponse.Err() is ErrCompacted all the same); the channel is
// closed after it either way.
func (f *fakeEtcd) compactLiveRaw(wk wkey, canceled bool) {
	f.mu.Lock()
	defer f.mu.Unlock()
	fe := f.feeds[wk]
	if fe == nil || fe.cur == nil || fe.cur.dead {
		return
	}
	fe.cur.dead = true
	fe.rec(cLiveCompacted, 0, f.compactRev)
	fe.cur.push(qitem{resp: clientv3.WatchResponse{Header: pb.ResponseHeader{Revision: f.rev},
		Canceled: canceled, CompactRevision: f.compactRev}, terminal: true})
	f.nCompacted++
}

// transLens: the current length of every feed's transcript.
func (f *fakeEtcd) transLens() map[wkey]int {
	f.mu.Lock()
	defer f.mu.Unlock()
	m := make(map[wkey]int, len(f.feeds))
	for wk, fe := range f.feeds {
		m[wk] = len(fe.trans)
	}
	return m
}

// inject queues a raw watch response on the live stream of wk (terminal: the channel is
// closed after it and the stream counts as ended).
func (f *fakeEtcd) inject(wk wkey, resp clientv3.WatchResponse, terminal bool) bool {
	f.mu.Lock()
	defer f.mu.Unlock()
	fe := f.feeds[wk]
	if fe == nil || fe.cur == nil || fe.cur.dead {
		return false
	}
	if terminal {
		fe.cur.dead = true
	}
	fe.cur.push(qitem{resp: resp, terminal: terminal})
	return true
}

// probe queues a progress notification behind everything already queued on the live
// stream of wk and returns a channel that is closed once go-zero has RECEIVED it. As
// go-zero handles a stream sequentially (listeners are called from the handling of a
// response), "received" means that every earlier response has been handled completely.
// nil: there is no live stream to ask.
func (f *fakeEtcd) probe(wk wkey) chan struct{} {
	f.mu.Lock()
	defer f.mu.Unlock()
	fe := f.feeds[wk]
	if fe == nil || fe.cur == nil || fe.cur.dead || fe.stalled {
		return nil
	}
	done := make(chan struct{})
	fe.cur.push(qitem{resp: clientv3.WatchResponse{Header: pb.ResponseHeader{Revision: f.rev}}, done: done})
	f.nProgress++
	return done
}

// callLog renders the most recent calls go-zero made on wk and what they were answered.
func (f *fakeEtcd) callLog(wk wkey) []string {
	f.mu.Lock()
	defer f.mu.Unlock()
	fe := f.feeds[wk]
	if fe == nil {
		return nil
	}
	out := make([]string, 0, len(fe.calls))
	for _, c := range fe.calls {
		var s string
		switch c.kind {
		case cGet:
			s = fmt.Sprintf("Get(range) -> %d key(s) at revision %d", c.aux, c.rev)
		case cWatchServed:
			s = fmt.Sprintf("Watch(rev=%d) -> served, %d retained event(s) replayed", c.rev, c.aux)
		case cWatchRefused:
			s = fmt.Sprintf("Watch(rev=%d) -> canceled: required revision has been compacted (compact revision %d)", c.rev, c.aux)
		case cWatchParked:
			s = fmt.Sprintf("Watch(rev=%d) -> (not answered: still below compact revision %d and no Get since the compaction was reported; the harness gives up on this watch)", c.rev, c.aux)
		case cLiveCompacted:
			s = fmt.Sprintf("(live stream) <- canceled with compact revision %d, channel closed", c.aux)
		case cBroken:
			s = "(live stream) <- ended by the scripted etcd"
		}
		out = append(out, fmt.Sprintf("#%d %s", c.serial, s))
	}
	return out
}

// progress sends a progress notification and waits until go-zero received it.
func (f *fakeEtcd) progress(wk wkey) bool {
	f.mu.Lock()
	fe := f.feeds[wk]
	if fe == nil || fe.cur == nil || fe.cur.dead {
		f.mu.Unlock()
		return false
	}
	done := make(chan struct{})
	fe.cur.push(qitem{resp: clientv3.WatchResponse{Header: pb.ResponseHeader{Revision: f.rev}}, done: done})
	f.nProgress++
	f.mu.Unlock()
	t := time.NewTimer(patience())
	defer t.Stop()
	select {
	case <-done:
		return true
	case <-t.C:
		fired()
		return false
	}
}

func (f *fakeEtcd) calls(wk wkey) (gets, watches int) {
	f.mu.Lock()
	defer f.mu.Unlock()
	if fe := f.feeds[wk]; fe != nil {
		return fe.gets, fe.watches
	}
	return 0, 0
}

// waitCalls waits until go-zero has issued at least the given numbers of Get and
// Watch calls for wk.
func (f *fakeEtcd) waitCalls(wk wkey, gets, watches int) bool {
	t := time.NewTimer(patience())
	defer t.Stop()
	for {
		g, w := f.calls(wk)
		if g >= gets && w >= watches {
			return true
		}
		select {
		case <-f.note:
		case <-t.C:
			fired()
			return false
		}
	}
}

// waitLive waits until go-zero has (re-)established a watch on wk that the scripted
// etcd did not answer with "compacted": the reload sequence, whatever it consisted
// of, is then over on go-zero's side.
//
// wlStuck is the causal counterpart of the watchdog: go-zero kept asking for a
// compacted revision without loading (refusalsWithoutLoad), so waiting longer cannot
// change anything.
func (f *fakeEtcd) waitLive(wk wkey, watches int) int {
	t := time.NewTimer(patience())
	defer t.Stop()
	for {
		f.mu.Lock()
		fe := f.feeds[wk]
		stuck := fe != nil && fe.stuck
		ok := fe != nil && fe.watches >= watches && fe.cur != nil && !fe.cur.dead
		f.mu.Unlock()
		switch {
		case stuck:
			return wlStuck
		case ok:
			return wlLive
		}
		select {
		case <-f.note:
		case <-t.C:
			fired()
			return wlTimeout
		}
	}
}

const (
	wlLive = iota
	wlStuck
	wlTimeout
)

func (f *fakeEtcd) totals() (int, int, wkey) {
	f.mu.Lock()
	defer f.mu.Unlock()
	return f.totGets, f.totWatches, f.lastGet
}

// waitTotals waits for go-zero's next Get and Watch calls on any range.
func (f *fakeEtcd) waitTotals(gets, watches int) bool {
	return f.waitTotalsFor(gets, watches, patience())
}

func (f *fakeEtcd) waitTotalsFor(gets, watches int, d time.Duration) bool {
	t := time.NewTimer(d)
	defer t.Stop()
	for {
		g, w, _ := f.totals()
		if g >= gets && w >= watches {
			return true
		}
		select {
		case <-f.note:
		case <-t.C:
			if d >= watchdog {
				fired()
			}
			return false
		}
	}
}

func (f *fakeEtcd) transcript(wk wkey, from int) []titem {
	f.mu.Lock()
	defer f.mu.Unlock()
	fe := f.feeds[wk]
	if fe == nil || from >= len(fe.trans) {
		return nil
	}
	return append([]titem(nil), fe.trans[from:]...)
}

func (f *fakeEtcd) transLen(wk wkey) int {
	f.mu.Lock()
	defer f.mu.Unlock()
	if fe := f.feeds[wk]; fe != nil {
		return len(fe.trans)
	}
	return 0
}

// current returns the store content matching wk.
func (f *fakeEtcd) current(wk wkey) map[string]string {
	f.mu.Lock()
	defer f.mu.Unlock()
	m := map[string]string{}
	for k, v := range f.kv {
		if wk.match(k) {
			m[k] = v
		}
	}
	return m
}

func (f *fakeEtcd) get(k string) (string, bool) {
	f.mu.Lock()
	defer f.mu.Unlock()
	v, ok := f.kv[k]
	return v, ok
}
