package c13

// leaseEtcd: the scripted etcd of fake_test.go extended by the lease half of the
// EtcdClient interface, which is what a discov.Publisher talks to:
//
//	Grant      -> a new lease (ids look like etcd's: large int64)
//	Put        -> the key is written to the SAME revisioned store the subscribers watch
//	              (so a real Subscriber on the same endpoint sees the publisher's
//	              registration as a watch event) and attached to the lease given with
//	              clientv3.WithLease; a key that was attached to another lease moves
//	KeepAlive  -> opens a keep-alive stream for the lease (buffered channel, as the etcd
//	              client hands out); a lease lives as long as it has an open stream
//	Revoke     -> the lease and the keys attached to it are deleted, its streams end
//
// There is NO time in this model. The harness drives what time would do:
//
//	endStream(lease, expired)  the keep-alive stream ends (channel closed) - with
//	                           expired=true the lease is gone on the server as well (its
//	                           keys are deleted), which is what the etcd client reports
//	                           when it could not renew a lease in time
//	expireStale()              "TimeToLive has passed": every lease without an open
//	                           keep-alive stream expires, its keys are deleted
//
// and scripts faults: the next n Grant / Put / KeepAlive / Revoke calls fail (Put also
// in the variant "applied on the server, but the client got an error").
//
// Every call go-zero makes is recorded with a serial number; all waiting in pub_test.go
// is on those records (causal), never on elapsed time.

import (
	"context"
	"errors"
	"fmt"
	"reflect"
	"sort"
	"strings"
	"sync"

	pb "go.etcd.io/etcd/api/v3/etcdserverpb"
	"go.etcd.io/etcd/api/v3/v3rpc/rpctypes"
	clientv3 "go.etcd.io/etcd/client/v3"
)

type leaseRec struct {
	id   clientv3.LeaseID
	keys map[string]bool
	kas  []chan *clientv3.LeaseKeepAliveResponse // open keep-alive streams
}

type pcall struct {
	Seq   int    `json:"seq"`
	Call  string `json:"call"`
	Lease int64  `json:"lease,omitempty"`
	Key   string `json:"key,omitempty"`
	Val   string `json:"value,omitempty"`
	Err   string `json:"error,omitempty"`
}

func (p pcall) String() string {
	s := fmt.Sprintf("#%d %s", p.Seq, p.Call)
	if p.Key != "" {
		s += fmt.Sprintf(" %s=%s", p.Key, p.Val)
	}
	if p.Lease != 0 {
		s += fmt.Sprintf(" lease=%d", p.Lease)
	}
	if p.Err != "" {
		s += " -> error: " + p.Err
	} else if !strings.HasPrefix(p.Call, "(") {
		s += " -> ok"
	}
	return s
}

type faults struct {
	Grant      int `json:"grant_fails,omitempty"`
	Put        int `json:"put_fails,omitempty"`
	PutApplied int `json:"put_applied_but_reported_failed,omitempty"`
	KeepAlive  int `json:"keepalive_fails,omitempty"`
	Revoke     int `json:"revoke_fails,omitempty"`
}

func (f faults) total() int { return f.Grant + f.Put + f.PutApplied + f.KeepAlive + f.Revoke }

// retries: how many registration attempts of the publisher these faults consume.
func (f faults) retries() int { return f.Grant + f.Put + f.PutApplied + f.KeepAlive }

func (f faults) class() string {
	var parts []string
	if f.Grant > 0 {
		parts = append(parts, "grant-fails")
	}
	if f.Put > 0 {
		parts = append(parts, "put-fails")
	}
	if f.PutApplied > 0 {
		parts = append(parts, "put-applied-but-failed")
	}
	if f.KeepAlive > 0 {
		parts = append(parts, "keepalive-fails")
	}
	if f.Revoke > 0 {
		parts = append(parts, "revoke-fails")
	}
	if len(parts) == 0 {
		return "no-fault"
	}
	return strings.Join(parts, "+")
}

type leaseEtcd struct {
	*fakeEtcd // Get / Watch / the store

	lmu      sync.Mutex
	next     clientv3.LeaseID
	leases   map[clientv3.LeaseID]*leaseRec
	keyLease map[string]clientv3.LeaseID
	seq      int
	calls    []pcall
	fl       faults
	lastKAOK int // serial of the most recent successful KeepAlive call (0: none)
	lastKAID clientv3.LeaseID
	pnote    chan struct{}
	// counters
	nGrant, nPut, nKA, nRevoke, nFailed, nExpired, nResponses int64
}

func newLeaseEtcd(f *fakeEtcd, base int64) *leaseEtcd {
	return &leaseEtcd{fakeEtcd: f, next: clientv3.LeaseID(base), leases: map[clientv3.LeaseID]*leaseRec{},
		keyLease: map[string]clientv3.LeaseID{}, pnote: make(chan struct{}, 1)}
}

func (l *leaseEtcd) ppoke() {
	select {
	case l.pnote <- struct{}{}:
	default:
	}
}

// rec appends a call record (lmu held) and returns its serial.
func (l *leaseEtcd) rec(call string, lease clientv3.LeaseID, key, val string, err error) int {
	l.seq++
	p := pcall{Seq: l.seq, Call: call, Lease: int64(lease), Key: key, Val: val}
	if err != nil {
		p.Err = err.Error()
		l.nFailed++
	}
	l.calls = append(l.calls, p)
	l.ppoke()
	return l.seq
}

func injected(what string) error {
	return errors.New("etcdserver: request timed out (" + what + " failure injected by the c13 harness)")
}

// leaseOfPut: clientv3.Op has no getter for the lease given with WithLease.
func leaseOfPut(o clientv3.Op) (clientv3.LeaseID, bool) {
	v := reflect.ValueOf(o).FieldByName("leaseID")
	if !v.IsValid() || v.Kind() != reflect.Int64 {
		return 0, false
	}
	return clientv3.LeaseID(v.Int()), true
}

func (l *leaseEtcd) Grant(_ context.Context, ttl int64) (*clientv3.LeaseGrantResponse, error) {
	l.lmu.Lock()
	defer l.lmu.Unlock()
	l.nGrant++
	if l.fl.Grant > 0 {
		l.fl.Grant--
		err := injected("Grant")
		l.rec("Grant", 0, "", "", err)
		return nil, err
	}
	l.next++
	id := l.next
	l.leases[id] = &leaseRec{id: id, keys: map[string]bool{}}
	l.rec("Grant", id, "", "", nil)
	return &clientv3.LeaseGrantResponse{ResponseHeader: &pb.ResponseHeader{}, ID: id, TTL: ttl}, nil
}

func (l *leaseEtcd) Put(_ context.Context, key, val string, opts ...clientv3.OpOption) (*clientv3.PutResponse, error) {
	o := clientv3.OpPut(key, val, opts...)
	l.lmu.Lock()
	defer l.lmu.Unlock()
	l.nPut++
	lease, ok := leaseOfPut(o)
	if !ok {
		lease = l.next // cannot tell: the publisher puts right after its Grant
	}
	if l.fl.Put > 0 {
		l.fl.Put--
		err := injected("Put")
		l.rec("Put", lease, key, val, err)
		return nil, err
	}
	var lr *leaseRec
	if lease != 0 {
		if lr = l.leases[lease]; lr == nil {
			l.rec("Put", lease, key, val, rpctypes.ErrLeaseNotFound)
			return nil, rpctypes.ErrLeaseNotFound
		}
	}
	if old := l.keyLease[key]; old != 0 && old != lease {
		if olr := l.leases[old]; olr != nil {
			delete(olr.keys, key)
		}
	}
	l.keyLease[key] = lease
	if lr != nil {
		lr.keys[key] = true
	}
	l.fakeEtcd.apply(op{k: key, v: val})
	if l.fl.PutApplied > 0 {
		l.fl.PutApplied--
		err := errors.New("context deadline exceeded (injected by the c13 harness AFTER the write was applied)")
		l.rec("Put", lease, key, val, err)
		return nil, err
	}
	l.rec("Put", lease, key, val, nil)
	return &clientv3.PutResponse{Header: &pb.ResponseHeader{}}, nil
}

func (l *leaseEtcd) KeepAlive(_ context.Context, id clientv3.LeaseID) (<-chan *clientv3.LeaseKeepAliveResponse, error) {
	l.lmu.Lock()
	defer l.lmu.Unlock()
	l.nKA++
	if l.fl.KeepAlive > 0 {
		l.fl.KeepAlive--
		err := errors.New("etcdclient: no available endpoint (KeepAlive failure injected by the c13 harness)")
		l.rec("KeepAlive", id, "", "", err)
		return nil, err
	}
	ch := make(chan *clientv3.LeaseKeepAliveResponse, 16)
	lr := l.leases[id]
	if lr == nil {
		// as the etcd client: the stream of an unknown lease ends at once
		close(ch)
		l.rec("KeepAlive (unknown lease: stream ends at once)", id, "", "", nil)
		return ch, nil
	}
	lr.kas = append(lr.kas, ch)
	l.lastKAOK = l.rec("KeepAlive", id, "", "", nil)
	l.lastKAID = id
	return ch, nil
}

func (l *leaseEtcd) Revoke(_ context.Context, id clientv3.LeaseID) (*clientv3.LeaseRevokeResponse, error) {
	l.lmu.Lock()
	defer l.lmu.Unlock()
	l.nRevoke++
	if l.fl.Revoke > 0 {
		l.fl.Revoke--
		err := injected("Revoke")
		l.rec("Revoke", id, "", "", err)
		return nil, err
	}
	lr := l.leases[id]
	if lr == nil {
		l.rec("Revoke", id, "", "", rpctypes.ErrLeaseNotFound)
		return nil, rpctypes.ErrLeaseNotFound
	}
	l.dropLocked(lr)
	l.rec("Revoke", id, "", "", nil)
	return &clientv3.LeaseRevokeResponse{Header: &pb.ResponseHeader{}}, nil
}

// dropLocked: the lease is gone - its keys are deleted from the store (watch events go
// out to the subscribers), its keep-alive streams end.
func (l *leaseEtcd) dropLocked(lr *leaseRec) {
	keys := make([]string, 0, len(lr.keys))
	for k := range lr.keys {
		keys = append(keys, k)
	}
	sort.Strings(keys)
	for _, k := range keys {
		delete(l.keyLease, k)
		l.fakeEtcd.apply(op{del: true, k: k})
	}
	for _, ch := range lr.kas {
		close(ch)
	}
	lr.kas = nil
	delete(l.leases, lr.id)
}

// ---------------------------------------------------------------- harness side

// setFaults scripts the faults of the next calls and returns the current serial.
func (l *leaseEtcd) setFaults(f faults) int {
	l.lmu.Lock()
	defer l.lmu.Unlock()
	l.fl = f
	return l.seq
}

// faultsLeft: scripted faults go-zero has not run into (yet).
func (l *leaseEtcd) faultsLeft() faults {
	l.lmu.Lock()
	defer l.lmu.Unlock()
	return l.fl
}

func (l *leaseEtcd) serial() int {
	l.lmu.Lock()
	defer l.lmu.Unlock()
	return l.seq
}

// endStream ends every keep-alive stream of the lease that was most recently kept
// alive; expired: the lease is gone on the server too. Returns the serial of the record
// and whether there was a stream to end.
func (l *leaseEtcd) endStream(expired bool) (int, clientv3.LeaseID, bool) {
	l.lmu.Lock()
	defer l.lmu.Unlock()
	lr := l.leases[l.lastKAID]
	if lr == nil || len(lr.kas) == 0 {
		return l.seq, 0, false
	}
	id := lr.id
	if expired {
		l.dropLocked(lr)
		return l.rec("(harness) lease expired on the server: its keys are deleted, the keep-alive stream ends", id, "", "", nil), id, true
	}
	for _, ch := range lr.kas {
		close(ch)
	}
	lr.kas = nil
	return l.rec("(harness) keep-alive stream ended, the lease still exists on the server", id, "", "", nil), id, true
}

// respond puts n keep-alive responses on the open streams (never blocks).
func (l *leaseEtcd) respond(n int) {
	l.lmu.Lock()
	defer l.lmu.Unlock()
	for _, lr := range l.leases {
		for _, ch := range lr.kas {
			for i := 0; i < n; i++ {
				select {
				case ch <- &clientv3.LeaseKeepAliveResponse{ResponseHeader: &pb.ResponseHeader{}, ID: lr.id, TTL: 10}:
					l.nResponses++
				default:
				}
			}
		}
	}
}

// expireStale: TimeToLive passes. Every lease without an open keep-alive stream expires.
func (l *leaseEtcd) expireStale() int {
	l.lmu.Lock()
	defer l.lmu.Unlock()
	var ids []clientv3.LeaseID
	for id, lr := range l.leases {
		if len(lr.kas) == 0 {
			ids = append(ids, id)
		}
	}
	sort.Slice(ids, func(i, j int) bool { return ids[i] < ids[j] })
	for _, id := range ids {
		l.dropLocked(l.leases[id])
		l.nExpired++
		l.rec("(harness) TimeToLive passed: lease without a keep-alive stream expired", id, "", "", nil)
	}
	return len(ids)
}

type regKey struct {
	Key   string `json:"key"`
	Val   string `json:"value"`
	Lease int64  `json:"lease"`
	Kept  bool   `json:"lease_has_open_keepalive_stream"`
}

// registered: the keys in the store under prefix (markers of the harness excluded) with
// their lease state.
func (l *leaseEtcd) registered(prefix string) []regKey {
	l.lmu.Lock()
	defer l.lmu.Unlock()
	cur := l.fakeEtcd.current(wkey{key: prefix, end: prefixEnd(prefix)})
	var out []regKey
	for k, v := range cur {
		if strings.Contains(k, "/~m") {
			continue
		}
		r := regKey{Key: k, Val: v, Lease: int64(l.keyLease[k])}
		if lr := l.leases[l.keyLease[k]]; lr != nil && len(lr.kas) > 0 {
			r.Kept = true
		}
		out = append(out, r)
	}
	sort.Slice(out, func(i, j int) bool { return out[i].Key < out[j].Key })
	return out
}

func prefixEnd(prefix string) string {
	b := []byte(prefix)
	b[len(b)-1]++
	return string(b)
}

// callsAfter returns the records with a serial greater than after.
func (l *leaseEtcd) callsAfter(after int) []pcall {
	l.lmu.Lock()
	defer l.lmu.Unlock()
	var out []pcall
	for _, p := range l.calls {
		if p.Seq > after {
			out = append(out, p)
		}
	}
	return out
}

func (l *leaseEtcd) callLogStrings() []string {
	l.lmu.Lock()
	defer l.lmu.Unlock()
	out := make([]string, 0, len(l.calls))
	for _, p := range l.calls {
		out = append(out, p.String())
	}
	return out
}

// keptAliveAfter: a KeepAlive call with a serial greater than after succeeded.
func (l *leaseEtcd) keptAliveAfter(after int) bool {
	l.lmu.Lock()
	defer l.lmu.Unlock()
	return l.lastKAOK > after
}

// sawAfter: go-zero made a call of the given kind ("" = any registration call that failed)
// after the serial.
func (l *leaseEtcd) sawAfter(after int, call string) bool {
	l.lmu.Lock()
	defer l.lmu.Unlock()
	for _, p := range l.calls {
		if p.Seq <= after || strings.HasPrefix(p.Call, "(") {
			continue
		}
		if call == "" && p.Err != "" && !strings.HasPrefix(p.Call, "Revoke") {
			return true // a failed registration call (Grant / Put / KeepAlive)
		}
		if call != "" && strings.HasPrefix(p.Call, call) {
			return true
		}
	}
	return false
}
