package c13

// Concurrency and multiplicity (DESIGN.md §4 C13, extension): what the single-subscriber,
// single-key, single-goroutine histories of c13_test.go do not reach.
//
//	multi-close          2..6 subscribers / resolvers (plain, Exclusive(), discov resolver) on ONE
//	                     watch (same endpoints + key). Subscribers are created at quiescent points
//	                     and CLOSED WHILE EVENTS ARE BEING DISPATCHED: from inside a notification of
//	                     another (or the same) subscriber - the one place where the harness runs on
//	                     go-zero's dispatching goroutine, hence a deterministic placement - and from
//	                     a concurrent goroutine while several watch responses are in flight; also
//	                     while a reload (replay / snapshot diff) is being dispatched.
//	multi-join           the same, but subscribers are CREATED while events are being dispatched
//	                     (inside a notification / concurrently).
//	multi-key            2..6 DIFFERENT keys (some being string prefixes of others: svc, svc2,
//	                     svc/a, the same key with and without WithExactMatch()) subscribed on ONE
//	                     cluster in one process; events on all of them; partitions followed by
//	                     stream breaks / compactions on every watch.
//	multi-key-reconnect  the same with a genuine reconnect of a real *grpc.ClientConn (state watcher
//	                     -> cluster.reload, which re-loads and re-watches EVERY key of the cluster).
//	poll-values          goroutines call Values() continuously WHILE events are applied (small and
//	                     large containers; the listener itself calls Values() as the resolver does).
//
// Every verdict is taken at quiescence against the store the harness itself maintains:
// go-zero has received a progress notification queued behind the last event (sequential
// stream handling => everything before it has been dispatched), every goroutine of the
// harness that acted concurrently has finished, and then each subscriber that is still
// open is compared by the ordinary marker-synchronised comparison (hist.sync) or, for
// multi-key / poll-values, by a plain set comparison. No wall-clock threshold decides.

import (
	"fmt"
	"net"
	"sort"
	"strings"
	"sync"
	"sync/atomic"
	"time"

	"github.com/zeromicro/go-zero/core/discov"
	"google.golang.org/grpc"
	"google.golang.org/grpc/connectivity"
	"google.golang.org/grpc/credentials/insecure"
	gresolver "google.golang.org/grpc/resolver"

	"verifharness/kit"
)

// ---------------------------------------------------------------- actions placed inside a notification

// actor is an extra listener of a subscriber (or the hook of a resolver's recording
// ClientConn). While armed, its next invocation - on go-zero's dispatching goroutine,
// in the middle of the dispatch of one event to the listeners of the watch - runs the
// armed action once. The mutex is held while the action runs, so disarm() returns only
// after an action in flight has finished.
type actor struct {
	mu    sync.Mutex
	armed func()
	fired int
}

func (a *actor) fire() {
	a.mu.Lock()
	defer a.mu.Unlock()
	if f := a.armed; f != nil {
		a.armed = nil
		a.fired++
		f()
	}
}

func (a *actor) arm(f func()) {
	a.mu.Lock()
	a.armed = f
	a.mu.Unlock()
}

// disarm reports whether the action ran since it was armed.
func (a *actor) disarm(before int) bool {
	a.mu.Lock()
	defer a.mu.Unlock()
	a.armed = nil
	return a.fired > before
}

func (a *actor) count() int {
	a.mu.Lock()
	defer a.mu.Unlock()
	return a.fired
}

// barrier: go-zero has received a progress notification queued behind everything the
// scripted etcd has handed to the stream of fk so far.
func (h *hist) barrier(fk wkey, after string) bool {
	if h.dead {
		return false
	}
	if !h.f.progress(fk) {
		h.inconclusive("watchdog: go-zero did not receive the progress notification queued behind " + after)
		return false
	}
	return true
}

type multi struct {
	h     *hist
	g     *gen
	r     *kit.Rand
	acts  map[*subRec]*actor
	nsub  int
	fresh int
}

func (m *multi) open() []*subRec {
	var out []*subRec
	for _, s := range m.h.subs {
		if !s.closed && s.wk == m.h.pwk && (s.sub != nil || s.rs != nil) {
			out = append(out, s)
		}
	}
	return out
}

// add creates a subscriber (plain / Exclusive()) or builds a discov resolver at a
// quiescent point; it joins the existing watch if there is one.
func (m *multi) add(plainOnly bool) *subRec {
	h := m.h
	m.nsub++
	name := fmt.Sprintf("S%d", m.nsub)
	kind := m.r.Pick(6, 2, 2)
	if plainOnly {
		kind = 0
	}
	var s *subRec
	switch kind {
	case 0, 1:
		h.note("join", "SUBSCRIBE %s %s", name, map[bool]string{false: "plain", true: "Exclusive()"}[kind == 1])
		s = h.addSub(name, kind == 1, false, m.r.Range(1, 2))
		if s.sub != nil {
			a := &actor{}
			s.sub.AddListener(a.fire)
			m.acts[s] = a
		}
	default:
		name = fmt.Sprintf("R%d", m.nsub)
		h.note("resolver-build", "BUILD discov resolver %s on the same endpoint/key", name)
		s = h.addResolver(name)
	}
	return s
}

func closeCall(v *subRec, panicked *any) func() {
	return func() {
		*panicked = guard(func() {
			if v.rs != nil {
				v.rs.ResolveNow(gresolver.ResolveNowOptions{})
				v.rs.Close()
			} else {
				v.sub.Close()
			}
		})
	}
}

// changingOps returns n operations on distinct keys the first of which changes the set of
// registered values for certain (a fresh key with a fresh value, or - once about ten keys
// are registered, so that a resolver's view stays far below 32 - the removal of a key
// that is the only one with its value).
func (m *multi) changingOps(n int) []op {
	h := m.h
	cur := h.f.current(h.pwk)
	var live []string
	for k := range cur {
		if !strings.Contains(k, "/~m") {
			live = append(live, k)
		}
	}
	sort.Strings(live)
	drop := func(k string) {
		for i, x := range live {
			if x == k {
				live = append(live[:i], live[i+1:]...)
				return
			}
		}
	}
	cnt := map[string]int{}
	for _, v := range cur {
		cnt[v]++
	}
	freshVal := func() string {
		m.fresh++
		return fmt.Sprintf("10.9.%d.%d:8080", m.fresh/250, m.fresh%250)
	}
	var ops []op
	for i := 0; i < n; i++ {
		var single []string
		for _, k := range live {
			if cnt[cur[k]] == 1 {
				single = append(single, k)
			}
		}
		switch {
		case i == 0 && len(live) >= 10 && len(single) > 0:
			k := kit.Choose(m.r, single)
			drop(k)
			ops = append(ops, op{del: true, k: k})
		case i > 0 && len(live) > 0 && (len(live) >= 10 || m.r.Chance(0.3)):
			k := kit.Choose(m.r, live)
			drop(k)
			ops = append(ops, op{del: true, k: k})
		case i > 0 && len(live) > 0 && m.r.Chance(0.3):
			// a registered key changes its value in place / takes the value of another key
			k := kit.Choose(m.r, live)
			drop(k)
			v := cur[kit.Choose(m.r, append([]string{k}, live...))]
			if m.r.Bool() || v == cur[k] {
				v = freshVal()
			}
			ops = append(ops, op{k: k, v: v})
		default:
			v := freshVal()
			ops = append(ops, op{k: fmt.Sprintf("svc/%d", 7587848943834335000+m.fresh), v: v})
		}
	}
	return ops
}

func (h *hist) descrAll(ops []op) string {
	var ds []string
	for _, o := range ops {
		ds = append(ds, h.descr(o))
	}
	return strings.Join(ds, ", ")
}

func subLabel(s *subRec, subs []*subRec) string {
	for i, o := range subs {
		if o == s {
			return fmt.Sprintf("%s (%s, listener #%d of %d on the watch)", s.name, s.mode, i+1, len(subs))
		}
	}
	return s.name
}

// closeInCallback: from inside a notification of T, V is closed (Registry.Unmonitor) while
// go-zero is dispatching the first event of a watch response to the listeners of the watch.
func (m *multi) closeInCallback(duringReload bool) {
	h := m.h
	subs := m.open()
	var ts []*subRec
	for _, s := range subs {
		if m.acts[s] != nil {
			ts = append(ts, s)
		}
	}
	if len(subs) < 2 || len(ts) == 0 {
		return
	}
	t := kit.Choose(m.r, ts)
	ti := 0
	for i, s := range subs {
		if s == t {
			ti = i
		}
	}
	vi := m.r.Intn(len(subs))
	if m.r.Chance(0.6) {
		vi = m.r.Intn(ti + 1) // a listener that has been served already (or T itself)
	}
	v := subs[vi]
	a := m.acts[t]
	before := a.count()
	var pv any
	a.arm(closeCall(v, &pv))
	if duringReload {
		kind := m.r.Pick(3, 2, 4, 3)
		n := m.r.Range(1, 4)
		first := true
		var chg []op
		h.note("peer-closed-during-reload-dispatch", "armed: from inside the next notification of %s: CLOSE %s", subLabel(t, subs), subLabel(v, subs))
		ok := h.reloadNoSync(kind, n, func() op {
			if first {
				first = false
				chg = m.changingOps(1)
				return chg[0]
			}
			return m.g.anyOp()
		})
		h.class = "peer-closed-during-reload-dispatch"
		if !ok || !h.barrier(t.fk, "the reload") {
			a.disarm(before)
			return
		}
		h.c.Obs("multi_closes_armed_during_reload", 1)
	} else {
		ops := m.changingOps(m.r.Range(1, 3))
		h.note("peer-closed-in-callback", "one watch response BATCH[%s]; from inside the notification of %s for its first event: CLOSE %s",
			h.descrAll(ops), subLabel(t, subs), subLabel(v, subs))
		h.f.apply(ops...)
		if !h.barrier(t.fk, "the batch") {
			a.disarm(before)
			return
		}
	}
	if a.disarm(before) {
		v.closed = true
		h.c.Obs("multi_closes_in_callback", 1)
		if vi <= ti && ti+1 < len(subs)-1 {
			h.c.Obs("multi_closes_in_callback_shifting_an_unserved_listener", 1)
		}
		if pv != nil {
			h.panicViol(v, "Close() called from inside a notification", pv)
			return
		}
	} else {
		h.log = append(h.log, "(no notification of "+t.name+" happened: nothing was closed)")
	}
	h.sync()
}

// closeConcurrent: V is closed by another goroutine while several watch responses are
// being delivered.
func (m *multi) closeConcurrent() {
	h := m.h
	subs := m.open()
	if len(subs) < 2 {
		return
	}
	v := subs[m.r.Intn(len(subs)-1)] // not the last one: somebody is behind it
	nb := m.r.Range(2, 5)
	at := m.r.Intn(nb)
	batches := make([][]op, nb)
	var ds []string
	start, done := make(chan struct{}), make(chan struct{})
	var pv any
	cl := closeCall(v, &pv)
	go func() {
		defer close(done)
		<-start
		cl()
	}()
	h.note("peer-closed-concurrently", "CLOSE %s by another goroutine, released before watch response #%d of %d", subLabel(v, subs), at+1, nb)
	for i := range batches {
		if i == at {
			close(start)
		}
		batches[i] = m.changingOps(m.r.Range(1, 3))
		ds = append(ds, "BATCH["+h.descrAll(batches[i])+"]")
		h.f.apply(batches[i]...)
	}
	h.log[len(h.log)-1] += ": " + strings.Join(ds, " ")
	t := time.NewTimer(patience())
	defer t.Stop()
	select {
	case <-done:
	case <-t.C:
		fired()
		h.inconclusive("watchdog: Close() called concurrently with events did not return")
		return
	}
	if !h.barrier(v.fk, "the batches") {
		return
	}
	v.closed = true
	h.c.Obs("multi_closes_concurrent", 1)
	if pv != nil {
		h.panicViol(v, "Close() called concurrently with events", pv)
		return
	}
	h.sync()
}

// adopt registers a plain subscriber that was created while events were in flight; called
// at quiescence, so the store is what the registry holds.
func (m *multi) adopt(sub *discov.Subscriber, l *lisRec, fk wkey) *subRec {
	h := m.h
	m.nsub++
	s := &subRec{name: fmt.Sprintf("J%d", m.nsub), mode: "plain", wk: h.pwk, fk: fk, sub: sub, lis: []*lisRec{l}}
	pos := h.f.transLen(fk)
	s.m = newMirror(false, h.pwk, pos)
	s.m.consume([]titem{{kind: tJoin, snap: h.f.current(fk)}})
	s.m.pos = pos
	l.demBase = s.m.demanded
	a := &actor{}
	sub.AddListener(a.fire)
	m.acts[s] = a
	h.subs = append(h.subs, s)
	h.c.Obs("subscribers_plain", 1)
	return s
}

type joinRes struct {
	sub *discov.Subscriber
	l   *lisRec
	err error
	pv  any
}

func (m *multi) joinCall(out *joinRes) func() {
	h := m.h
	eps, key := h.endpoints(), h.prefix
	return func() {
		out.l = newLis()
		out.pv = guard(func() {
			out.sub, out.err = discov.NewSubscriber(eps, key)
			if out.err == nil {
				sub, l := out.sub, out.l
				sub.AddListener(func() {
					if v, p := safeValues(sub); p != nil {
						l.recordPanic(p)
					} else {
						l.record(v)
					}
				})
			}
		})
	}
}

func (m *multi) joinFailed(out *joinRes, where string) bool {
	h := m.h
	if out.pv != nil {
		h.panicViol(&subRec{name: "J", mode: "plain"}, "NewSubscriber called "+where, out.pv)
		return true
	}
	if out.err != nil {
		h.dead = true
		h.c.Viol("C13/subscribe-failed/"+h.cls(), "NewSubscriber called "+where+" returned an error on a healthy scripted etcd: "+out.err.Error(),
			map[string]any{"endpoint": h.ep, "watched_key": h.prefix, "steps": h.log, "error": out.err.Error()})
		return true
	}
	return false
}

// joinInCallback: from inside a notification of T a new plain subscriber is created on the
// same endpoints/key (it joins the watch whose response is being dispatched).
func (m *multi) joinInCallback() {
	h := m.h
	subs := m.open()
	var ts []*subRec
	for _, s := range subs {
		if m.acts[s] != nil {
			ts = append(ts, s)
		}
	}
	if len(ts) == 0 {
		return
	}
	t := kit.Choose(m.r, ts)
	a := m.acts[t]
	before := a.count()
	var out joinRes
	a.arm(m.joinCall(&out))
	ops := m.changingOps(m.r.Pick(2, 4, 3, 1) + 1)
	h.note("subscribed-in-callback", "one watch response BATCH[%s]; from inside the notification of %s for its first event: NewSubscriber on the same endpoints/key",
		h.descrAll(ops), subLabel(t, subs))
	h.f.apply(ops...)
	if !h.barrier(t.fk, "the batch") {
		a.disarm(before)
		return
	}
	if a.disarm(before) {
		if m.joinFailed(&out, "from inside a notification") {
			return
		}
		m.adopt(out.sub, out.l, t.fk)
		if h.sticky == "" {
			h.sticky = "subscribed-in-callback"
		}
		h.c.Obs("multi_joins_in_callback", 1)
		if len(ops) > 1 {
			h.c.Obs("multi_joins_in_callback_with_events_behind", 1)
		}
	} else {
		h.log = append(h.log, "(no notification of "+t.name+" happened: nobody subscribed)")
	}
	h.sync()
}

// joinConcurrent: another goroutine creates a subscriber while several watch responses are
// being delivered.
func (m *multi) joinConcurrent() {
	h := m.h
	subs := m.open()
	if len(subs) == 0 {
		return
	}
	nb := m.r.Range(2, 5)
	at := m.r.Intn(nb)
	var ds []string
	start, done := make(chan struct{}), make(chan struct{})
	var out joinRes
	jc := m.joinCall(&out)
	go func() {
		defer close(done)
		<-start
		jc()
	}()
	h.note("subscribed-concurrently", "NewSubscriber on the same endpoints/key by another goroutine, released before watch response #%d of %d", at+1, nb)
	for i := 0; i < nb; i++ {
		if i == at {
			close(start)
		}
		ops := m.changingOps(m.r.Range(1, 3))
		ds = append(ds, "BATCH["+h.descrAll(ops)+"]")
		h.f.apply(ops...)
	}
	h.log[len(h.log)-1] += ": " + strings.Join(ds, " ")
	t := time.NewTimer(patience())
	defer t.Stop()
	select {
	case <-done:
	case <-t.C:
		fired()
		h.inconclusive("watchdog: NewSubscriber called concurrently with events did not return")
		return
	}
	if !h.barrier(subs[0].fk, "the batches") {
		return
	}
	if m.joinFailed(&out, "concurrently with events") {
		return
	}
	m.adopt(out.sub, out.l, subs[0].fk)
	if h.sticky == "" {
		h.sticky = "subscribed-concurrently"
	}
	h.c.Obs("multi_joins_concurrent", 1)
	h.sync()
}

func multiHistory(c *kit.Case, joinFamily bool) {
	r := c.R
	rt, ep := clusterFor(c, c.Family)
	h := newHist(c, rt, ep, "svc")
	h.f.batchReplay = r.Bool()
	m := &multi{h: h, r: r, acts: map[*subRec]*actor{}}
	g := &gen{h: h, r: r}
	m.g = g
	nk, nv := r.Range(2, 5), r.Range(2, 4)
	for i := 1; i <= nk; i++ {
		g.keys = append(g.keys, fmt.Sprintf("svc/%d", 7587848943834334000+i))
	}
	for i := 1; i <= nv; i++ {
		g.vals = append(g.vals, fmt.Sprintf("10.0.0.%d:8080", i))
	}
	h.resHook = func(s *subRec) func(int) {
		a := &actor{}
		m.acts[s] = a
		return func(int) { a.fire() }
	}
	for i, n := 0, r.Pick(2, 2, 2, 1); i < n; i++ {
		o := g.randomOp()
		h.log = append(h.log, "(before subscribing) "+h.descr(o))
		h.f.apply(o)
	}
	n0 := r.Range(2, 6)
	if joinFamily {
		n0 = r.Range(1, 3)
	}
	for i := 0; i < n0; i++ {
		m.add(false)
	}
	h.sigParts = []any{c.Family, n0, nk, nv}
	h.sync()
	steps := r.Range(6, 22)
	for i := 0; i < steps && !h.dead; i++ {
		nOpen := len(m.open())
		var pick int
		if joinFamily {
			// 0 op, 1 batch, 2 reload, 3 join-in-callback, 4 join-concurrent, 5 quiescent close, 6 quiescent join
			pick = r.Pick(22, 8, 10, 26, 12, 12, 4)
			if nOpen >= 6 && (pick == 3 || pick == 4 || pick == 6) {
				pick = 5
			}
		} else {
			// 0 op, 1 batch, 2 reload, 7 close-in-callback, 8 close-concurrent, 9 close during a reload's dispatch, 6 quiescent join
			pick = []int{0, 1, 2, 7, 8, 9, 6}[r.Pick(20, 6, 8, 28, 10, 8, 18)]
			if nOpen < 2 && pick >= 7 {
				pick = 6
			}
			if (nOpen >= 6 || m.nsub >= 12) && pick == 6 {
				pick = 0
			}
		}
		switch pick {
		case 0:
			o := g.anyOp()
			h.doOps(h.classOfOp(o), o)
		case 1:
			h.doOps("batch", g.distinctBatch(r.Range(2, 3))...)
		case 2:
			h.reload(r.Pick(3, 2, 4, 3), r.Pick(2, 4, 4, 3, 2), g.anyOp)
		case 3:
			m.joinInCallback()
		case 4:
			m.joinConcurrent()
		case 5:
			if subs := m.open(); len(subs) >= 2 {
				v := kit.Choose(r, subs)
				h.note("close-other-subscriber", "CLOSE %s (at a quiescent point)", v.name)
				h.closeSub(v)
				h.sync()
			}
		case 6:
			m.add(joinFamily)
			c.Obs("late_joins", 1)
			h.sync()
		case 7:
			m.closeInCallback(false)
		case 8:
			m.closeConcurrent()
		case 9:
			m.closeInCallback(true)
		}
	}
	c.Obs("multi_histories", 1)
	c.Obs("multi_subscribers_created", int64(m.nsub))
	h.finish()
	if c.Index < 3 {
		c.Sample(c.Family, 2, map[string]any{"subscribers_created": m.nsub, "steps": h.log})
	}
}

// ---------------------------------------------------------------- several keys on one cluster

type mkSub struct {
	name      string
	key       string
	exact     bool
	wk        wkey
	sub       *discov.Subscriber
	lis       *lisRec
	closed    bool
	prevView  string
	prevCalls int
	synced    bool
}

type mkHist struct {
	c       *kit.Case
	r       *kit.Rand
	f       *fakeEtcd
	ep      string
	subs    []*mkSub
	log     []string
	class   string
	markerN int
	mkey    map[string]string // watched key -> its current marker key
	mval    map[string]string
	dead    bool
	syncs   int
	reloads int
	pool    []string
	vals    []string
	nsub    int
	// genuine reconnects
	conn *grpc.ClientConn
	srv  *grpc.Server
	addr string
}

func prefixRange(key string) wkey { return wkey{key: key + "/", end: key + "0"} }

func (m *mkHist) note(class, format string, a ...any) {
	m.class = class
	m.log = append(m.log, fmt.Sprintf(format, a...))
}

func (m *mkHist) inconclusive(why string) {
	m.dead = true
	m.c.Inconclusive(why + " (history: " + strings.Join(m.log, "; ") + ")")
}

func (m *mkHist) watchKeys() []wkey {
	seen := map[wkey]bool{}
	var out []wkey
	for _, s := range m.subs {
		if !s.closed && !seen[s.wk] {
			seen[s.wk] = true
			out = append(out, s.wk)
		}
	}
	return out
}

func (m *mkHist) descr(o op) string {
	if o.del {
		return "DEL " + o.k
	}
	if old, ok := m.f.get(o.k); ok && old != o.v {
		return fmt.Sprintf("PUT %s=%s (was %s)", o.k, o.v, old)
	}
	return fmt.Sprintf("PUT %s=%s", o.k, o.v)
}

func (m *mkHist) randomOp() op {
	k := kit.Choose(m.r, m.pool)
	if _, ok := m.f.get(k); ok && m.r.Chance(0.3) {
		return op{del: true, k: k}
	}
	return op{k: k, v: kit.Choose(m.r, m.vals)}
}

func (m *mkHist) subscribe(key string, exact bool) {
	if m.dead {
		return
	}
	m.nsub++
	s := &mkSub{name: fmt.Sprintf("K%d", m.nsub), key: key, exact: exact, wk: prefixRange(key), lis: newLis()}
	var opts []discov.SubOption
	if exact {
		opts = append(opts, discov.WithExactMatch())
		s.wk = wkey{key: key}
	}
	joining := false
	for _, o := range m.subs {
		if !o.closed && o.wk == s.wk {
			joining = true
		}
	}
	m.note("multi-key-subscribe", "SUBSCRIBE %s key=%q exact=%v", s.name, key, exact)
	g0, w0, _ := m.f.totals()
	var err error
	if p := guard(func() { s.sub, err = discov.NewSubscriber([]string{m.ep}, key, opts...) }); p != nil {
		m.dead = true
		m.c.Viol("C13/panic/newsubscriber", fmt.Sprintf("go-zero panicked in NewSubscriber(%q): %v", key, p), m.witness(s, nil, nil))
		return
	}
	if err != nil {
		panic("c13 harness: NewSubscriber: " + err.Error())
	}
	if !joining && !m.f.waitTotals(g0+1, w0+1) {
		m.inconclusive("watchdog: no Get+Watch after NewSubscriber")
		return
	}
	sub, l := s.sub, s.lis
	sub.AddListener(func() {
		if v, p := safeValues(sub); p != nil {
			l.recordPanic(p)
		} else {
			l.record(v)
		}
	})
	m.subs = append(m.subs, s)
	m.c.Obs("multikey_subscribers", 1)
}

func (m *mkHist) witness(s *mkSub, got []string, store map[string]string) map[string]any {
	type sd struct {
		Name, Key string
		Exact     bool
		Closed    bool
	}
	var subs []sd
	calls := map[string][]string{}
	for _, o := range m.subs {
		subs = append(subs, sd{o.name, o.key, o.exact, o.closed})
		if !o.closed {
			calls[fmt.Sprintf("%s exact=%v", o.key, o.exact)] = m.f.callLog(o.wk)
		}
	}
	return map[string]any{"endpoint": m.ep, "subscribers_on_this_cluster": subs, "subscriber": s.name, "watched_key": s.key, "exact_match": s.exact,
		"steps": m.log, "got": got, "registered_now_under_the_watched_key": store, "etcd_calls_per_watched_key": calls}
}

const (
	mkSeen = iota
	mkHandled
	mkNoStream
	mkTimeout
)

// awaitSub waits until s has been shown marker, or go-zero provably got past it
// (mkHandled), or the scripted etcd serves no stream for the range at all (mkNoStream).
// marker == "": an exact-match subscriber, synchronised by the progress notification alone.
func (m *mkHist) awaitSub(s *mkSub, marker string, pr *probe) int {
	seen := func() bool {
		if marker == "" {
			return false
		}
		_, last := s.lis.snapshot()
		return has(last, marker) || s.lis.panicked() != ""
	}
	t := time.NewTimer(patience())
	defer t.Stop()
	var ask <-chan time.Time
	if !pr.asked {
		d := nudge()
		if marker == "" {
			d = 0
		}
		n := time.NewTimer(d)
		defer n.Stop()
		ask = n.C
	}
	for {
		if seen() {
			return mkSeen
		}
		if pr.asked && pr.done == nil {
			return mkNoStream
		}
		select {
		case <-s.lis.sig:
		case <-ask:
			ask = nil
			pr.asked = true
			pr.done = m.f.probe(s.wk)
		case <-pr.done:
			if seen() {
				return mkSeen
			}
			return mkHandled
		case <-t.C:
			fired()
			return mkTimeout
		}
	}
}

// settledWithoutStream: the scripted etcd serves no watch for wk, go-zero makes no call
// any more (three looks, "state did not change") and the connection is up: nothing is in
// flight that could still establish one.
func (m *mkHist) settledWithoutStream(wk wkey) bool {
	g0, w0, _ := m.f.totals()
	for i := 0; i < 3; i++ {
		time.Sleep(300 * time.Millisecond)
		g, w, _ := m.f.totals()
		if g != g0 || w != w0 || m.f.hasLive(wk) {
			return false
		}
		if m.conn != nil && m.conn.GetState() != connectivity.Ready {
			return false
		}
	}
	return true
}

func (m *mkHist) sync() {
	if m.dead {
		return
	}
	decidedNoStream := map[wkey]bool{}
	for attempt := 0; ; attempt++ {
		if attempt == 6 {
			m.inconclusive("reloads kept happening while synchronising")
			return
		}
		g0, w0, _ := m.f.totals()
		m.markerN++
		var ops []op
		done := map[string]bool{}
		for _, s := range m.subs {
			if s.closed || s.exact || done[s.key] {
				continue
			}
			done[s.key] = true
			if old := m.mkey[s.key]; old != "" {
				ops = append(ops, op{del: true, k: old})
			}
			m.mkey[s.key] = fmt.Sprintf("%s/~m%d", s.key, m.markerN)
			m.mval[s.key] = fmt.Sprintf("marker-%d@%s", m.markerN, s.key)
			ops = append(ops, op{k: m.mkey[s.key], v: m.mval[s.key]})
		}
		for _, o := range ops {
			m.f.apply(o)
		}
		probes := map[wkey]*probe{}
		again := false
		for _, s := range m.subs {
			if s.closed {
				continue
			}
			pr := probes[s.wk]
			if pr == nil {
				pr = &probe{}
				probes[s.wk] = pr
			}
			// the LAST marker registered under the subscriber's range (markers of nested
			// watched keys fall under it as well, and a stream delivers in order)
			marker := ""
			if !s.exact {
				for _, o := range ops {
					if !o.del && s.wk.match(o.k) {
						marker = o.v
					}
				}
			}
			switch m.awaitSub(s, marker, pr) {
			case mkTimeout:
				m.inconclusive(fmt.Sprintf("watchdog: %s (key %q) never observed marker %s", s.name, s.key, marker))
				return
			case mkHandled:
				if marker != "" {
					m.c.Obs("syncs_decided_by_probe", 1)
					s.lis.stable()
				}
			case mkNoStream:
				if decidedNoStream[s.wk] {
					continue
				}
				if !m.settledWithoutStream(s.wk) {
					again = true
					break
				}
				decidedNoStream[s.wk] = true
				m.c.Obs("multikey_watches_not_served_at_quiescence", 1)
			}
			if again {
				break
			}
		}
		g1, w1, _ := m.f.totals()
		if !again && g0 == g1 && w0 == w1 {
			break
		}
	}
	m.syncs++
	for _, s := range m.subs {
		if s.closed {
			continue
		}
		store := m.f.current(s.wk)
		got, pv := safeValues(s.sub)
		if pv != nil {
			m.dead = true
			m.c.Viol("C13/panic/values", fmt.Sprintf("go-zero panicked in Values() of %s: %v", s.name, pv), m.witness(s, nil, store))
			return
		}
		plain := &mirror{wk: s.wk}
		mms := plain.compare(store, got)
		if len(mms) > 0 && s.exact {
			s.lis.stable()
			got, _ = safeValues(s.sub)
			mms = plain.compare(store, got)
		}
		reported := map[string]bool{}
		for _, mm := range mms {
			key := "C13/" + mm.kind + "/" + m.class
			m.dead = true
			if reported[key] {
				continue
			}
			reported[key] = true
			extra := ""
			if decidedNoStream[s.wk] {
				extra = "; the scripted etcd is not asked to serve any watch for this key (go-zero's last calls are in the witness)"
			}
			m.c.Viol(key, fmt.Sprintf("subscriber %s of key %q (exact=%v), one of %d watched keys on this cluster: value %q is %s after step %q%s",
				s.name, s.key, s.exact, len(m.watchKeys()), mm.val, mm.kind, m.log[len(m.log)-1], extra), m.witness(s, got, store))
		}
		// necessary condition for "every listener is notified after each change": the set of
		// registered values differs from the one at the previous synchronisation => the
		// listener has been called in between
		var vs []string
		seen := map[string]bool{}
		for _, v := range store {
			if !seen[v] {
				seen[v] = true
				vs = append(vs, v)
			}
		}
		sort.Strings(vs)
		view := strings.Join(vs, ",")
		calls, _ := s.lis.snapshot()
		if s.synced && view != s.prevView && calls == s.prevCalls && len(mms) == 0 {
			m.dead = true
			m.c.Viol("C13/notification-missing/"+m.class, fmt.Sprintf("listener of %s (key %q) was not called although the registered values changed from [%s] to [%s]",
				s.name, s.key, s.prevView, view), m.witness(s, got, store))
		}
		s.synced, s.prevView, s.prevCalls = true, view, calls
	}
}

func (m *mkHist) doOps(ops ...op) {
	if m.dead {
		return
	}
	var ds []string
	for _, o := range ops {
		ds = append(ds, m.descr(o))
	}
	if len(ops) > 1 {
		m.note("multi-key-event", "BATCH[%s]", strings.Join(ds, ", "))
	} else {
		m.note("multi-key-event", "%s", ds[0])
	}
	m.f.apply(ops...)
	m.sync()
}

// breakAll: a partition, then every watch of the cluster fails in the chosen way.
func (m *mkHist) breakAll(kind int) {
	if m.dead {
		return
	}
	m.f.stallAll()
	var ds []string
	for i, n := 0, m.r.Range(0, 5); i < n; i++ {
		o := m.randomOp()
		ds = append(ds, m.descr(o))
		m.f.apply(o)
	}
	class := "multi-key-stream-break"
	if kind >= rlCompactBreak {
		class = "multi-key-compaction-reload"
		m.f.compact()
	}
	m.note(class, "PARTITION{missed: %s} then on every watch: %s", strings.Join(ds, ", "), rlNames[kind])
	m.reloads++
	for _, wk := range m.watchKeys() {
		g, w := m.f.calls(wk)
		switch kind {
		case rlBreakClose, rlBreakCancel:
			m.f.breakStream(wk, kind == rlBreakCancel)
		case rlCompactBreak:
			m.f.breakStream(wk, false)
		case rlCompactLive:
			m.f.compactLive(wk)
		}
		switch m.f.waitLive(wk, w+1) {
		case wlStuck:
			m.dead = true
			m.c.Obs("compactions_not_followed_by_load", 1)
			if takeBudget("reload-missing") {
				m.c.Viol("C13/reload-missing/compaction-not-followed-by-load", fmt.Sprintf("after %s go-zero re-issued Watch %d times at a compacted revision without a Get for the watched range",
					rlNames[kind], refusalsWithoutLoad), map[string]any{"endpoint": m.ep, "steps": m.log, "etcd_calls_on_this_watch": m.f.callLog(wk)})
			}
			return
		case wlTimeout:
			m.inconclusive("watchdog: go-zero did not re-establish the watch after " + rlNames[kind])
			return
		}
		if g1, _ := m.f.calls(wk); kind >= rlCompactBreak && g1 > g {
			m.c.Obs("compactions_followed_by_load", 1)
		}
	}
	m.c.Obs("multikey_break_steps", 1)
	m.sync()
}

// reconnect: registrations change during an outage of the real connection; the state
// watcher then runs cluster.reload, which cancels every watch of the cluster and starts
// one load+watch goroutine per watched key. The step is over on go-zero's side once it has
// issued as many Watch calls as keys are watched (each goroutine loads, then watches; a
// second reload starts only after the goroutines of the first have made their calls) -
// which ranges they were made for is what the views then show.
func (m *mkHist) reconnect() {
	if m.dead {
		return
	}
	m.f.stallAll()
	var ds []string
	for i, n := 0, m.r.Range(1, 5); i < n; i++ {
		o := m.randomOp()
		ds = append(ds, m.descr(o))
		m.f.apply(o)
	}
	nkeys := len(m.watchKeys())
	m.note("multi-key-reconnect-reload", "PARTITION{missed: %s} then the etcd connection is lost and re-established (state watcher -> cluster.reload of %d watched keys)",
		strings.Join(ds, ", "), nkeys)
	_, w0, _ := m.f.totals()
	reloaded, why := false, ""
	for attempt, hold := 0, 300*time.Millisecond; attempt < 3 && !reloaded; attempt, hold = attempt+1, hold*4 {
		m.srv.Stop()
		if !waitState(m.conn, connectivity.TransientFailure, true) {
			why = "connection did not reach TRANSIENT_FAILURE after the listener was stopped"
			break
		}
		time.Sleep(hold)
		lis, err := net.Listen("tcp", m.addr)
		if err != nil {
			why = "cannot re-listen on " + m.addr + ": " + err.Error()
			break
		}
		m.srv = grpc.NewServer()
		go m.srv.Serve(lis)
		if !waitState(m.conn, connectivity.Ready, true) {
			why = "connection did not become ready again"
			break
		}
		d := 5 * time.Second
		if attempt == 2 {
			d = watchdog
		}
		reloaded = m.f.waitTotalsFor(0, w0+nkeys, d)
		why = "watchdog: go-zero did not issue a Watch per watched key after the connection came back (3 outages)"
	}
	if !reloaded {
		m.inconclusive(why)
		return
	}
	m.reloads++
	m.c.Obs("multikey_reconnect_reloads", 1)
	m.c.Obs("multikey_keys_across_reconnects", int64(nkeys))
	m.sync()
}

var mkKeyPool = []string{"svc", "svc2", "svc/a", "svc/a/b", "svcx", "other", "svc/b", "sv"}

func multiKeyHistory(c *kit.Case, real bool) {
	r := c.R
	routeSeq++
	ep := fmt.Sprintf("c13-mkey-%d-%d.verif:2379", kit.GetEnv().Seed, routeSeq)
	m := &mkHist{c: c, r: r, ep: ep, mkey: map[string]string{}, mval: map[string]string{}}
	conn := sharedConn
	if real {
		lis, err := net.Listen("tcp", "127.0.0.1:0")
		if err != nil {
			c.Inconclusive("cannot listen on loopback: " + err.Error())
			return
		}
		m.addr = lis.Addr().String()
		m.srv = grpc.NewServer()
		go m.srv.Serve(lis)
		conn, err = grpc.NewClient("passthrough:///"+m.addr, grpc.WithTransportCredentials(insecure.NewCredentials()))
		if err != nil {
			m.srv.Stop()
			c.Inconclusive("grpc.NewClient: " + err.Error())
			return
		}
		defer conn.Close()
		defer func() { m.srv.Stop() }()
		if !waitState(conn, connectivity.Ready, true) {
			c.Inconclusive("loopback gRPC connection did not become ready")
			return
		}
		m.conn = conn
	}
	m.f = newFake(conn)
	m.f.batchReplay = r.Bool()
	setClientFor(ep, func() (any, error) { return m.f, nil })
	nk := r.Range(2, 6)
	perm := r.Perm(len(mkKeyPool))
	var keys []string
	for _, i := range perm[:nk] {
		keys = append(keys, mkKeyPool[i])
	}
	sort.Strings(keys)
	for _, k := range keys {
		m.pool = append(m.pool, k+"/1", k+"/2", k+"/3", k)
	}
	m.pool = append(m.pool, "zzz/1")
	for i := 1; i <= 5; i++ {
		m.vals = append(m.vals, fmt.Sprintf("10.3.0.%d:8080", i))
	}
	for i, n := 0, r.Range(0, 6); i < n; i++ {
		o := m.randomOp()
		m.log = append(m.log, "(before subscribing) "+m.descr(o))
		m.f.apply(o)
	}
	for _, k := range keys {
		m.subscribe(k, false)
		if r.Chance(0.25) {
			m.subscribe(k, true) // the same key with WithExactMatch(): another watch
		}
		if r.Chance(0.2) {
			m.subscribe(k, false) // a second subscriber on the same watch
		}
	}
	m.sync()
	steps := r.Range(5, 16)
	if real {
		steps = r.Range(3, 7)
	}
	reconnects := 0
	for i := 0; i < steps && !m.dead; i++ {
		w := []int{40, 12, 22, 6, 6}
		if real {
			w = []int{30, 10, 8, 4, 4}
		}
		switch r.Pick(w...) {
		case 0:
			m.doOps(m.randomOp())
		case 1:
			var ops []op
			used := map[string]bool{}
			for j, n := 0, r.Range(2, 4); j < n; j++ {
				if o := m.randomOp(); !used[o.k] {
					used[o.k] = true
					ops = append(ops, o)
				}
			}
			m.doOps(ops...)
		case 2:
			m.breakAll(r.Pick(3, 2, 4, 3))
		case 3:
			var open []*mkSub
			for _, s := range m.subs {
				if !s.closed {
					open = append(open, s)
				}
			}
			if len(m.watchKeys()) > 2 {
				s := kit.Choose(r, open)
				m.note("multi-key-close", "CLOSE %s (key %q exact=%v)", s.name, s.key, s.exact)
				s.closed = true
				guard(func() { s.sub.Close() })
				m.sync()
			}
		case 4:
			if m.nsub < 12 {
				m.subscribe(kit.Choose(r, keys), r.Chance(0.2))
				m.sync()
			}
		}
		if real && !m.dead && (i == 1 || (i == 4 && r.Bool())) {
			m.reconnect()
			reconnects++
		}
	}
	if real && reconnects == 0 && !m.dead {
		m.reconnect()
		for i, n := 0, r.Range(1, 3); i < n && !m.dead; i++ {
			m.doOps(m.randomOp())
		}
	}
	for _, s := range m.subs {
		if !s.closed {
			s.closed = true
			guard(func() { s.sub.Close() })
		}
	}
	f := m.f
	f.mu.Lock()
	d, rp, sn := f.nDelivered, f.nReplayed, f.nSnaps
	f.mu.Unlock()
	c.Obs("watch_events_delivered", d)
	c.Obs("watch_events_replayed", rp)
	c.Obs("snapshots_served", sn)
	c.Obs("multikey_histories", 1)
	c.Obs("multikey_sync_points", int64(m.syncs))
	c.Obs("multikey_watched_keys", int64(nk))
	parts := []any{c.Family, strings.Join(keys, ",")}
	for _, l := range m.log {
		parts = append(parts, l)
	}
	c.Sig(m.reloads > 0 && nk >= 2, parts...)
	if c.Index < 2 {
		c.Sample(c.Family, 2, map[string]any{"watched_keys": keys, "steps": m.log})
	}
}

// ---------------------------------------------------------------- Values() polled while events are applied

func pollValuesHistory(c *kit.Case) {
	r := c.R
	rt, ep := clusterFor(c, "poll")
	h := newHist(c, rt, ep, "big") // used for the routing and the watched range only
	f := h.f
	var n int
	switch r.Pick(4, 4, 3, 1) {
	case 0:
		n = r.Range(0, 8)
	case 1:
		n = r.Range(20, 90)
	case 2:
		n = r.Range(200, 600)
	default:
		n = r.Range(900, 2000)
	}
	excl := r.Chance(0.2)
	if excl && n > 700 {
		n = r.Range(200, 700)
	}
	val := func(i int) string { return fmt.Sprintf("10.%d.%d.%d:80", 1+i/62500, (i/250)%250, i%250) }
	live := map[string]bool{}
	for i := 0; i < n; i++ {
		k := fmt.Sprintf("big/%d", i)
		f.apply(op{k: k, v: val(i)})
		live[k] = true
	}
	lisReads := r.Bool()
	var opts []discov.SubOption
	if excl {
		opts = append(opts, discov.Exclusive())
	}
	var sub *discov.Subscriber
	var err error
	if p := guard(func() { sub, err = discov.NewSubscriber([]string{ep}, "big", opts...) }); p != nil {
		c.Viol("C13/panic/newsubscriber", fmt.Sprintf("go-zero panicked in NewSubscriber: %v", p), map[string]any{"registered": n})
		return
	}
	if err != nil {
		panic("c13 harness: NewSubscriber: " + err.Error())
	}
	defer guard(func() { sub.Close() })
	if !f.waitTotals(1, 1) {
		c.Inconclusive("watchdog: no Get+Watch after NewSubscriber")
		return
	}
	_, _, fk := f.totals()
	var notified atomic.Int64
	sub.AddListener(func() {
		notified.Add(1)
		if lisReads {
			// what the resolver's listener does on the dispatching goroutine
			guard(func() { sub.Values() })
		}
	})
	// plain: the store itself is the oracle; Exclusive(): the candidate-owner model, fed
	// with the transcript of the one stream (events are applied in order there)
	m := &mirror{wk: h.pwk}
	if excl {
		m = newMirror(true, h.pwk, 0)
	}
	follow := func() {
		if excl {
			m.consume(f.transcript(fk, m.pos))
		}
	}
	fresh := n
	var log []string
	log = append(log, fmt.Sprintf("%d registrations, then SUBSCRIBE exclusive=%v; the listener calls Values(): %v", n, excl, lisReads))
	rounds := r.Range(2, 6)
	var polls, events int64
	for round := 0; round < rounds; round++ {
		np := r.Range(1, 4)
		var stop atomic.Bool
		var wg sync.WaitGroup
		var pollPanic atomic.Value
		for p := 0; p < np; p++ {
			wg.Add(1)
			go func() {
				defer wg.Done()
				cnt := int64(0)
				defer func() {
					atomic.AddInt64(&polls, cnt)
					if pv := recover(); pv != nil {
						pollPanic.Store(fmt.Sprint(pv))
					}
				}()
				for !stop.Load() {
					_ = sub.Values()
					cnt++
				}
			}()
		}
		nb := r.Range(1, 4)
		var ds []string
		for b := 0; b < nb; b++ {
			var ops []op
			for j, k := 0, r.Range(1, 6); j < k; j++ {
				var keys []string
				if len(live) > 0 && r.Chance(0.4) {
					for lk := range live {
						keys = append(keys, lk)
					}
					sort.Strings(keys)
				}
				switch {
				case len(keys) > 0 && r.Chance(0.7):
					k := kit.Choose(r, keys)
					delete(live, k)
					ops = append(ops, op{del: true, k: k})
				case len(keys) > 0:
					fresh++
					ops = append(ops, op{k: kit.Choose(r, keys), v: val(fresh)}) // re-registered with another value
				default:
					fresh++
					k := fmt.Sprintf("big/%d", fresh)
					live[k] = true
					ops = append(ops, op{k: k, v: val(fresh)})
				}
			}
			var od []string
			for _, o := range ops {
				if o.del {
					od = append(od, "DEL "+o.k)
				} else {
					od = append(od, "PUT "+o.k+"="+o.v)
				}
			}
			ds = append(ds, "BATCH["+strings.Join(od, ", ")+"]")
			events += int64(len(f.apply(ops...)))
		}
		log = append(log, fmt.Sprintf("round %d: %d goroutine(s) polling Values() while %s are delivered; then all of them stopped", round+1, np, strings.Join(ds, " ")))
		ok := f.progress(fk)
		stop.Store(true)
		wg.Wait()
		if !ok {
			c.Inconclusive("watchdog: go-zero did not receive the progress notification queued behind the events (" + strings.Join(log, "; ") + ")")
			return
		}
		if pv := pollPanic.Load(); pv != nil {
			c.Viol("C13/panic/values-polled-during-events", "go-zero panicked in Values() called while events were applied: "+pv.(string),
				map[string]any{"endpoint": ep, "watched_key": "big", "steps": log})
			return
		}
		c.Obs("poll_rounds", 1)
		store := f.current(h.pwk)
		follow()
		got, pv := safeValues(sub)
		if pv != nil {
			c.Viol("C13/panic/values", fmt.Sprintf("go-zero panicked in Values(): %v", pv), map[string]any{"steps": log})
			return
		}
		mms := m.compare(store, got)
		if len(mms) == 0 {
			continue
		}
		// Quiescent (every event dispatched, every poller gone) and still wrong. Is it the
		// snapshot cache that is wrong, or the view itself? One further event invalidates the
		// cache: if the view is right afterwards, the snapshot had not been invalidated.
		fresh++
		hk := fmt.Sprintf("big/%d", fresh)
		f.apply(op{k: hk, v: val(fresh)})
		live[hk] = true
		healed := false
		if f.progress(fk) {
			follow()
			again, _ := safeValues(sub)
			healed = len(m.compare(f.current(h.pwk), again)) == 0
		}
		kind := mms[0].kind
		if healed {
			kind = "stale-snapshot"
		}
		var diff []string
		for i, mm := range mms {
			if i == 6 {
				diff = append(diff, fmt.Sprintf("... %d more", len(mms)-6))
				break
			}
			diff = append(diff, mm.kind+" "+mm.val)
		}
		c.Viol("C13/"+kind+"/values-polled-during-events",
			fmt.Sprintf("after the last event was dispatched and every polling goroutine had finished, a fresh Values() (%d values) differs from the %d registrations: %s; correct again after one further event: %v",
				len(got), len(store), strings.Join(diff, ", "), healed),
			map[string]any{"endpoint": ep, "watched_key": "big", "exclusive": excl, "steps": log, "difference": diff,
				"values_returned": len(got), "registered_now": len(store), "right_after_one_more_event": healed})
		return
	}
	c.Obs("poll_histories", 1)
	c.Obs("poll_values_calls_during_events", polls)
	c.Obs("poll_events_applied", events)
	c.Obs("poll_listener_notifications", notified.Load())
	if n >= 200 {
		c.Obs("poll_histories_over_200_values", 1)
	}
	c.Sig(events >= 2, "poll-values", n, excl, lisReads, strings.Join(log, ";"))
	if c.Index < 2 {
		c.Sample("poll-values", 1, map[string]any{"registered_before": n, "exclusive": excl, "steps": log})
	}
}
