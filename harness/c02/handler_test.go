package c02

// rest/handler.SheddingHandler: every admitted request resolves its promise exactly once —
// on normal return, when the wrapped handler answers 503, and when it panics; a refused
// request never reaches the wrapped handler and creates no obligation. Observed through a
// harness load.Shedder (stub) handed to SheddingHandler, and end-to-end with a real adaptive
// shedder: after all requests are over nothing is in flight, so nothing may be shed.

import (
	"fmt"
	"net/http"
	"net/http/httptest"
	"sync"
	"sync/atomic"
	"time"

	"github.com/zeromicro/go-zero/core/load"
	"github.com/zeromicro/go-zero/core/stat"
	"github.com/zeromicro/go-zero/rest/handler"

	"verifharness/kit"
)

type stubPromise struct {
	pass, fail atomic.Int32
	id         int
}

func (p *stubPromise) Pass() { p.pass.Add(1) }
func (p *stubPromise) Fail() { p.fail.Add(1) }

// stubShedder admits or refuses according to the request's own header (so that concurrent
// requests need no shared script position) and remembers every promise it handed out.
type stubShedder struct {
	mu       sync.Mutex
	promises []*stubPromise
	allows   atomic.Int64
	refuse   atomic.Bool // used by the sequential path only
}

func (s *stubShedder) Allow() (load.Promise, error) {
	s.allows.Add(1)
	if s.refuse.Load() {
		return nil, load.ErrServiceOverloaded
	}
	p := &stubPromise{}
	s.mu.Lock()
	p.id = len(s.promises)
	s.promises = append(s.promises, p)
	s.mu.Unlock()
	return p, nil
}

var metrics = stat.NewMetrics("verif-c02")

// behaviours of the wrapped handler
var behaviours = []string{"return-without-writing", "write-200", "write-body-only", "write-201", "write-404", "write-500", "write-502",
	"write-503", "write-503-with-body", "panic-before-writing", "panic-after-200", "panic-after-503", "panic-after-body", "write-header-twice-200-503", "write-header-twice-503-200", "flush"}

func behave(kind string, w http.ResponseWriter) {
	switch kind {
	case "write-200":
		w.WriteHeader(200)
	case "write-body-only":
		w.Write([]byte("ok"))
	case "write-201":
		w.WriteHeader(201)
		w.Write([]byte("created"))
	case "write-404":
		w.WriteHeader(404)
	case "write-500":
		w.WriteHeader(500)
	case "write-502":
		w.WriteHeader(502)
	case "write-503":
		w.WriteHeader(503)
	case "write-503-with-body":
		w.WriteHeader(503)
		w.Write([]byte("busy"))
	case "panic-before-writing":
		panic("verif: scripted panic")
	case "panic-after-200":
		w.WriteHeader(200)
		panic(fmt.Errorf("verif: scripted panic"))
	case "panic-after-503":
		w.WriteHeader(503)
		panic("verif: scripted panic")
	case "panic-after-body":
		w.Write([]byte("partial"))
		panic(http.ErrAbortHandler)
	case "write-header-twice-200-503":
		w.WriteHeader(200)
		w.WriteHeader(503)
	case "write-header-twice-503-200":
		w.WriteHeader(503)
		w.WriteHeader(200)
	case "flush":
		w.Write([]byte("x"))
		if f, ok := w.(http.Flusher); ok {
			f.Flush()
		}
	}
}

type reqResult struct {
	kind      string
	refused   bool
	nextCalls int32
	panicked  bool
	code      int
}

// serve runs one request through h; the wrapped handler's behaviour travels in a header.
func serve(h http.Handler, kind string, calls *atomic.Int32) (res reqResult) {
	res.kind = kind
	rec := httptest.NewRecorder()
	req := httptest.NewRequest(http.MethodGet, "/verif", nil)
	req.Header.Set("X-Verif-Kind", kind)
	func() {
		defer func() {
			if r := recover(); r != nil {
				res.panicked = true
			}
		}()
		h.ServeHTTP(rec, req)
	}()
	res.code = rec.Code
	res.nextCalls = calls.Load()
	return
}

func runHandlerStub(c *kit.Case) {
	r := c.R
	sh := &stubShedder{}
	var seqLog []string
	n := r.Range(5, 40)
	for i := 0; i < n && !c.Violated(); i++ {
		kind := kit.Choose(r, behaviours)
		refuse := r.Chance(0.25)
		sh.refuse.Store(refuse)
		var calls atomic.Int32
		next := http.HandlerFunc(func(w http.ResponseWriter, rq *http.Request) {
			calls.Add(1)
			behave(rq.Header.Get("X-Verif-Kind"), w)
		})
		before := len(sh.promises)
		res := serve(handler.SheddingHandler(sh, metrics)(next), kind, &calls)
		seqLog = append(seqLog, fmt.Sprintf("%s refuse=%v -> code %d panicked=%v next-calls=%d", kind, refuse, res.code, res.panicked, res.nextCalls))
		wit := map[string]any{"requests": seqLog}
		if refuse {
			kit.Obs("bb_handler_refused", 1)
			if res.nextCalls != 0 {
				c.Viol("C02/handler/refused-request-reached-handler", "the wrapped handler ran although Allow returned ErrServiceOverloaded", wit)
			}
			if res.code != http.StatusServiceUnavailable {
				c.Viol("C02/handler/refused-request-not-503", fmt.Sprintf("refused request answered with %d", res.code), wit)
			}
			continue
		}
		if res.nextCalls != 1 {
			c.Viol("C02/handler/admitted-request-handler-calls", fmt.Sprintf("the wrapped handler ran %d times for an admitted request", res.nextCalls), wit)
		}
		if len(sh.promises) != before+1 {
			c.Viol("C02/handler/allow-calls", fmt.Sprintf("Allow was called %d times for one request", len(sh.promises)-before), wit)
			continue
		}
		p := sh.promises[before]
		ps, fl := p.pass.Load(), p.fail.Load()
		class := "return"
		switch {
		case res.panicked:
			class = "panic"
		case res.code == 503:
			class = "503"
		}
		if ps+fl != 1 {
			k := "never-resolved"
			if ps+fl > 1 {
				k = "resolved-more-than-once"
			}
			c.Viol("C02/handler/promise-"+k+"/on-"+class, fmt.Sprintf("promise of an admitted request: Pass x%d, Fail x%d (behaviour %s)", ps, fl, kind), wit)
		}
		kit.Obs("bb_handler_admitted_on_"+class, 1)
		if fl == 1 {
			kit.Obs("bb_handler_resolved_by_fail", 1)
		} else if ps == 1 {
			kit.Obs("bb_handler_resolved_by_pass", 1)
		}
		if kind == "panic-before-writing" && !res.panicked {
			kit.Obs("bb_handler_panic_swallowed", 1)
		}
	}
	// nil shedder: the middleware is the identity
	var calls atomic.Int32
	res := serve(handler.SheddingHandler(nil, metrics)(http.HandlerFunc(func(w http.ResponseWriter, rq *http.Request) { calls.Add(1); w.WriteHeader(204) })), "nil-shedder", &calls)
	if res.nextCalls != 1 || res.code != 204 {
		c.Viol("C02/handler/nil-shedder", fmt.Sprintf("with a nil shedder the request did not pass through unchanged: calls=%d code=%d", res.nextCalls, res.code), nil)
	}
	c.Sig(false, "handler-stub", seqLog)
	c.Evals(int64(n))
	c.Sample("bb-handler-stub", 1, map[string]any{"requests": seqLog})
}

// runHandlerConc: many goroutines through one middleware instance and one stub shedder.
func runHandlerConc(c *kit.Case) {
	r := c.R
	sh := &stubShedder{}
	var nextCalls atomic.Int64
	next := http.HandlerFunc(func(w http.ResponseWriter, rq *http.Request) {
		nextCalls.Add(1)
		behave(rq.Header.Get("X-Verif-Kind"), w)
	})
	h := handler.SheddingHandler(sh, metrics)(next)
	G, per := kit.Choose(r, []int{2, 4, 8, 16, 32}), r.Range(3, 20)
	kinds := make([][]string, G)
	for g := range kinds {
		for i := 0; i < per; i++ {
			kinds[g] = append(kinds[g], kit.Choose(r, behaviours))
		}
	}
	var wg sync.WaitGroup
	var dummy atomic.Int32
	for g := 0; g < G; g++ {
		wg.Add(1)
		go func(ks []string) {
			defer wg.Done()
			for _, k := range ks {
				serve(h, k, &dummy)
			}
		}(kinds[g])
	}
	fin := make(chan struct{})
	go func() { wg.Wait(); close(fin) }()
	select {
	case <-fin:
	case <-time.After(120 * time.Second):
		c.Inconclusive("concurrent handler requests did not finish within the 120 s watchdog")
		return
	}
	total := int64(G * per)
	wit := map[string]any{"goroutines": G, "requests_each": per, "behaviours": kinds}
	if int64(len(sh.promises)) != total || nextCalls.Load() != total {
		c.Viol("C02/handler/concurrent-call-counts", fmt.Sprintf("%d requests: %d promises handed out, wrapped handler ran %d times", total, len(sh.promises), nextCalls.Load()), wit)
	}
	for _, p := range sh.promises {
		if ps, fl := p.pass.Load(), p.fail.Load(); ps+fl != 1 {
			k := "never-resolved"
			if ps+fl > 1 {
				k = "resolved-more-than-once"
			}
			c.Viol("C02/handler/promise-"+k+"/concurrent", fmt.Sprintf("promise #%d: Pass x%d, Fail x%d", p.id, ps, fl), wit)
			break
		}
	}
	kit.Obs("bb_handler_concurrent_requests", total)
	c.Sig(false, "handler-conc", G, per, kinds)
	c.Evals(total)
}
